/-
  Lemmas.StoreDelC17 — invariants of the store model under writes and deletes.
-/
import Influx.Model.StoreDel

namespace Influx.Model.StoreDel
open Influx.Model.DelPred (Bytes Pred)

/-! ### strictly ascending point lists -/

def Asc (l : List (Int × Int)) : Prop := l.Pairwise fun a b => a.1 < b.1

theorem insertPt_front (p : Int × Int) (l : List (Int × Int)) (h : ∀ q ∈ l, p.1 < q.1) :
    insertPt p l = p :: l := by
  cases l with
  | nil => rfl
  | cons q qs => simp [insertPt, h q (by simp)]

theorem mem_insertPt {p x : Int × Int} {l : List (Int × Int)} (h : x ∈ insertPt p l) : x = p ∨ x ∈ l := by
  induction l with
  | nil => simpa [insertPt] using h
  | cons q qs ih =>
    simp only [insertPt] at h
    split at h
    · simpa using h
    · split at h
      · rcases List.mem_cons.1 h with h | h
        · exact Or.inl h
        · exact Or.inr (by simp [h])
      · rcases List.mem_cons.1 h with h | h
        · exact Or.inr (by simp [h])
        · rcases ih h with h | h
          · exact Or.inl h
          · exact Or.inr (by simp [h])

theorem asc_insertPt (p : Int × Int) (l : List (Int × Int)) (h : Asc l) : Asc (insertPt p l) := by
  induction l with
  | nil => simp [insertPt, Asc]
  | cons q qs ih =>
    have hq : ∀ x ∈ qs, q.1 < x.1 := (List.pairwise_cons.1 h).1
    have hqs : Asc qs := (List.pairwise_cons.1 h).2
    simp only [insertPt]
    split
    · next hlt =>
      refine List.pairwise_cons.2 ⟨?_, h⟩
      intro x hx
      rcases List.mem_cons.1 hx with rfl | hx
      · exact hlt
      · have := hq x hx; omega
    · split
      · next hge heq =>
        refine List.pairwise_cons.2 ⟨?_, hqs⟩
        intro x hx; have := hq x hx; omega
      · next hge hne =>
        refine List.pairwise_cons.2 ⟨?_, ih hqs⟩
        intro x hx
        rcases mem_insertPt hx with rfl | hx
        · omega
        · exact hq x hx

theorem asc_addPts (a b : List (Int × Int)) (h : Asc a) : Asc (addPts a b) := by
  unfold addPts
  induction b generalizing a with
  | nil => exact h
  | cons p ps ih => exact ih _ (asc_insertPt p a h)

theorem asc_cutPts (lo hi : Int) (l : List (Int × Int)) (h : Asc l) : Asc (cutPts lo hi l) :=
  List.Pairwise.filter _ h

/-! ### cutting a time range commutes with merging -/

def inRange (lo hi : Int) (p : Int × Int) : Bool := decide (lo ≤ p.1 ∧ p.1 ≤ hi)

theorem cutPts_cons (lo hi : Int) (p : Int × Int) (l : List (Int × Int)) :
    cutPts lo hi (p :: l) = if inRange lo hi p then cutPts lo hi l else p :: cutPts lo hi l := by
  simp only [cutPts, inRange, List.filter_cons]
  by_cases h : lo ≤ p.1 ∧ p.1 ≤ hi <;> simp [h]

theorem cutPts_insertPt_in (lo hi : Int) (p : Int × Int) (l : List (Int × Int)) (hp : inRange lo hi p = true) :
    cutPts lo hi (insertPt p l) = cutPts lo hi l := by
  induction l with
  | nil => rw [insertPt, cutPts_cons, hp]; simp
  | cons q qs ih =>
    simp only [insertPt]
    split
    · rw [cutPts_cons, hp]; simp
    · split
      · next _ heq =>
        have hq : inRange lo hi q = true := by
          simp only [inRange, decide_eq_true_eq] at hp ⊢; omega
        rw [cutPts_cons, hp, cutPts_cons, hq]; simp
      · rw [cutPts_cons, cutPts_cons, ih]

theorem cutPts_insertPt_out (lo hi : Int) (p : Int × Int) (l : List (Int × Int)) (h : Asc l)
    (hp : inRange lo hi p = false) :
    cutPts lo hi (insertPt p l) = insertPt p (cutPts lo hi l) := by
  induction l with
  | nil => rw [insertPt, cutPts_cons, hp]; simp [cutPts, insertPt]
  | cons q qs ih =>
    have hq : ∀ x ∈ qs, q.1 < x.1 := (List.pairwise_cons.1 h).1
    have hqs : Asc qs := (List.pairwise_cons.1 h).2
    simp only [insertPt]
    split
    · next hlt =>
      rw [cutPts_cons, hp]
      simp only [Bool.false_eq_true, if_false]
      rw [insertPt_front]
      intro x hx
      have hx' : x ∈ q :: qs := (List.mem_filter.1 hx).1
      rcases List.mem_cons.1 hx' with rfl | hx'
      · exact hlt
      · have := hq x hx'; omega
    · split
      · next hge heq =>
        have hqr : inRange lo hi q = false := by
          simp only [inRange, decide_eq_false_iff_not] at hp ⊢; omega
        rw [cutPts_cons, hp, cutPts_cons, hqr]
        simp [insertPt, heq]
      · next hge hne =>
        rw [cutPts_cons, cutPts_cons, ih hqs]
        by_cases hqr : inRange lo hi q = true
        · simp only [hqr, if_true]
        · have hqr' : inRange lo hi q = false := by simpa using hqr
          simp only [hqr', Bool.false_eq_true, if_false]
          simp [insertPt, hge, hne]

theorem cutPts_addPts (lo hi : Int) (a b : List (Int × Int)) (h : Asc a) :
    cutPts lo hi (addPts a b) = addPts (cutPts lo hi a) (cutPts lo hi b) := by
  unfold addPts
  induction b generalizing a with
  | nil => rfl
  | cons p ps ih =>
    simp only [List.foldl_cons]
    rw [ih _ (asc_insertPt p a h), cutPts_cons]
    by_cases hp : inRange lo hi p = true
    · simp only [hp, if_true, cutPts_insertPt_in lo hi p a hp]
    · have hp' : inRange lo hi p = false := by simpa using hp
      simp only [hp', Bool.false_eq_true, if_false, List.foldl_cons, cutPts_insertPt_out lo hi p a h hp']

/-! ### tombstones of one key in one TSM file -/

def covered (ts : List (Int × Int)) (x : Int) : Prop := ∃ r ∈ ts, r.1 ≤ x ∧ x ≤ r.2

theorem tombWindow_go_covers (seen : List (Int × Int)) (prev w : Int × Int) (rest : List (Int × Int))
    (hprev : prev ∈ seen) (hpw : w.1 ≤ prev.1 ∧ prev.2 ≤ w.2) (hpne : prev.1 ≤ prev.2)
    (hne : ∀ r ∈ rest, r.1 ≤ r.2)
    (hcov : ∀ x, w.1 ≤ x → x ≤ w.2 → covered seen x)
    (w' : Int × Int) (h : tombWindow.go prev w rest = some w') :
    ∀ x, w'.1 ≤ x → x ≤ w'.2 → covered (seen ++ rest) x := by
  induction rest generalizing seen prev w with
  | nil =>
    simp only [tombWindow.go, Option.some.injEq] at h
    subst h
    simpa using hcov
  | cons t ts ih =>
    simp only [tombWindow.go] at h
    split at h
    · cases h
    · next hc =>
      have htne : t.1 ≤ t.2 := hne t (by simp)
      have := ih (seen ++ [t]) t _ (by simp) ?_ htne (fun r hr => hne r (by simp [hr])) ?_ h
      · simpa using this
      · constructor <;> (split <;> omega)
      · intro x hx1 hx2
        by_cases hxw : w.1 ≤ x ∧ x ≤ w.2
        · obtain ⟨r, hr, hr2⟩ := hcov x hxw.1 hxw.2
          exact ⟨r, by simp [hr], hr2⟩
        · by_cases hxt : t.1 ≤ x ∧ x ≤ t.2
          · exact ⟨t, by simp, hxt⟩
          · exfalso
            have hc' : prev.2 = t.1 - 1 ∨ (prev.1 ≤ t.2 ∧ prev.2 ≥ t.1) := by
              by_cases h1 : prev.2 = t.1 - 1
              · exact Or.inl h1
              · right
                have := Classical.not_and_iff_not_or_not.1 hc
                rcases this with h2 | h2
                · exact absurd h1 h2
                · exact Classical.not_not.1 h2
            simp only at hx1 hx2
            split at hx1 <;> split at hx2 <;> omega

/-- **The window test is sound**: when the sorted tombstones line up, every instant of the
    window lies in one of them. -/
theorem tombWindow_covers (ts : List (Int × Int)) (hne : ∀ r ∈ ts, r.1 ≤ r.2) (w : Int × Int)
    (h : tombWindow ts = some w) : ∀ x, w.1 ≤ x → x ≤ w.2 → covered ts x := by
  cases ts with
  | nil => simp [tombWindow] at h
  | cons r rest =>
    simp only [tombWindow] at h
    have := tombWindow_go_covers [r] r r rest (by simp) ⟨Int.le_refl _, Int.le_refl _⟩ (hne r (by simp))
      (fun x hx => hne x (by simp [hx])) (fun x h1 h2 => ⟨r, by simp, h1, h2⟩) w h
    simpa using this

theorem mem_insertTomb {r x : Int × Int} {l : List (Int × Int)} : x ∈ insertTomb r l ↔ x = r ∨ x ∈ l := by
  induction l with
  | nil => simp [insertTomb]
  | cons q qs ih =>
    simp only [insertTomb]
    split
    · simp
    · simp only [List.mem_cons, ih]
      constructor
      · rintro (h | h | h)
        · exact Or.inr (Or.inl h)
        · exact Or.inl h
        · exact Or.inr (Or.inr h)
      · rintro (h | h | h)
        · exact Or.inr (Or.inl h)
        · exact Or.inl h
        · exact Or.inr (Or.inr h)

/-- a file entry as the engine writes it: values strictly ascending, tombstones non-empty ranges -/
def FileEnt.WF (f : FileEnt) : Prop := Asc f.pts ∧ ∀ r ∈ f.tombs, r.1 ≤ r.2

def inTombs (tombs : List (Int × Int)) (p : Int × Int) : Bool :=
  tombs.any fun r => decide (r.1 ≤ p.1 ∧ p.1 ≤ r.2)

theorem visible_def (f : FileEnt) : f.visible = if f.gone then [] else f.pts.filter fun p => !inTombs f.tombs p := rfl

theorem inTombs_insertTomb (lo hi : Int) (tombs : List (Int × Int)) (p : Int × Int) :
    inTombs (insertTomb (lo, hi) tombs) p = (inRange lo hi p || inTombs tombs p) := by
  simp only [inTombs, inRange]
  rw [Bool.eq_iff_iff]
  simp only [List.any_eq_true, Bool.or_eq_true, decide_eq_true_eq, mem_insertTomb]
  constructor
  · rintro ⟨r, (rfl | hr), h⟩
    · exact Or.inl h
    · exact Or.inr ⟨r, hr, h⟩
  · rintro (h | ⟨r, hr, h⟩)
    · exact ⟨(lo, hi), Or.inl rfl, h⟩
    · exact ⟨r, Or.inr hr, h⟩

theorem asc_le_last {l : List (Int × Int)} (h : Asc l) {b : Int × Int}
    (hb : l.getLast? = some b) : ∀ p ∈ l, p.1 ≤ b.1 := by
  induction l with
  | nil => intro p hp; cases hp
  | cons x xs ih =>
    intro p hp
    cases xs with
    | nil =>
      simp only [List.getLast?_singleton, Option.some.injEq] at hb
      subst hb
      simp only [List.mem_singleton] at hp
      subst hp; exact Int.le_refl _
    | cons y ys =>
      rw [List.getLast?_cons_cons] at hb
      have hxs : Asc (y :: ys) := (List.pairwise_cons.1 h).2
      rcases List.mem_cons.1 hp with rfl | hp
      · have hyb := ih hxs hb y (List.mem_cons_self)
        have := (List.pairwise_cons.1 h).1 y (by simp)
        omega
      · exact ih hxs hb p hp

theorem asc_bounds {l : List (Int × Int)} (h : Asc l) {a b : Int × Int}
    (ha : l.head? = some a) (hb : l.getLast? = some b) : ∀ p ∈ l, a.1 ≤ p.1 ∧ p.1 ≤ b.1 := by
  intro p hp
  refine ⟨?_, asc_le_last h hb p hp⟩
  cases l with
  | nil => cases hp
  | cons x xs =>
    simp only [List.head?_cons, Option.some.injEq] at ha
    subst ha
    rcases List.mem_cons.1 hp with rfl | hp
    · exact Int.le_refl _
    · exact Int.le_of_lt ((List.pairwise_cons.1 h).1 p hp)

theorem tombAct_spec (f : FileEnt) (hwf : f.WF) (lo hi : Int) (hlh : lo ≤ hi) :
    match f.tombAct lo hi with
    | .keep => f.gone = true ∨ ∀ p ∈ f.pts, inRange lo hi p = false
    | .drop => f.gone = false ∧ ∀ p ∈ f.pts, inRange lo hi p = true ∨ inTombs f.tombs p = true
    | .tomb ts => f.gone = false ∧ ts = insertTomb (lo, hi) f.tombs := by
  unfold FileEnt.tombAct
  by_cases hg : f.gone = true
  · simp [hg]
  · have hg' : f.gone = false := by simpa using hg
    simp only [hg', Bool.false_eq_true, if_false]
    cases ha : f.pts.head? with
    | none =>
      have : f.pts = [] := by simpa using ha
      simp [this]
    | some a =>
      cases hb : f.pts.getLast? with
      | none =>
        have : f.pts = [] := by simpa using hb
        rw [this] at ha; cases ha
      | some b =>
        simp only
        have hbnd := asc_bounds hwf.1 ha hb
        by_cases hout : lo > b.1 ∨ hi < a.1
        · simp only [hout, if_true]
          right
          intro p hp
          have := hbnd p hp
          simp only [inRange, decide_eq_false_iff_not]; omega
        · simp only [hout, if_false]
          by_cases hcov : lo ≤ a.1 ∧ hi ≥ b.1
          · simp only [hcov, and_self, if_true]
            refine ⟨trivial, fun p hp => Or.inl ?_⟩
            have := hbnd p hp
            simp only [inRange, decide_eq_true_eq]; omega
          · simp only [hcov, if_false]
            have hts : ∀ r ∈ insertTomb (lo, hi) f.tombs, r.1 ≤ r.2 := by
              intro r hr
              rcases mem_insertTomb.1 hr with rfl | hr
              · exact hlh
              · exact hwf.2 r hr
            cases hw : tombWindow (insertTomb (lo, hi) f.tombs) with
            | none => exact ⟨trivial, rfl⟩
            | some w =>
              simp only
              by_cases hwc : w.1 ≤ a.1 ∧ w.2 ≥ b.1
              · simp only [hwc, and_self, if_true]
                refine ⟨trivial, fun p hp => ?_⟩
                have hb2 := hbnd p hp
                obtain ⟨r, hr, hr2⟩ := tombWindow_covers _ hts w hw p.1 (by omega) (by omega)
                rcases mem_insertTomb.1 hr with rfl | hr
                · left; simpa [inRange] using hr2
                · right
                  simp only [inTombs, List.any_eq_true, decide_eq_true_eq]
                  exact ⟨r, hr, hr2⟩
              · simp only [hwc, if_false]
                exact ⟨trivial, trivial⟩

/-- **`indirectIndex.DeleteRange` removes exactly the values in the range** from what the file
    shows of the key — also when it decides to drop the key altogether. -/
theorem visible_deleteRange (f : FileEnt) (hwf : f.WF) (lo hi : Int) (hlh : lo ≤ hi) :
    (f.deleteRange lo hi).visible = cutPts lo hi f.visible := by
  have hspec := tombAct_spec f hwf lo hi hlh
  unfold FileEnt.deleteRange
  cases hact : f.tombAct lo hi with
  | keep =>
    rw [hact] at hspec
    simp only at hspec ⊢
    rcases hspec with hg | hno
    · simp [visible_def, hg, cutPts]
    · simp only [visible_def, cutPts]
      split
      · rfl
      · rw [List.filter_filter]
        apply List.filter_congr
        intro p hp
        have := hno p hp
        simp only [inRange] at this
        simp [this]
  | drop =>
    rw [hact] at hspec
    simp only at hspec ⊢
    obtain ⟨hg, hall⟩ := hspec
    simp only [visible_def, hg, Bool.false_eq_true, if_false, if_true, cutPts, List.filter_filter]
    symm
    rw [List.filter_eq_nil_iff]
    intro p hp
    rcases hall p hp with h | h
    · simp only [inRange] at h; simp [h]
    · simp [h]
  | tomb ts =>
    rw [hact] at hspec
    simp only at hspec ⊢
    obtain ⟨hg, rfl⟩ := hspec
    simp only [visible_def, hg, Bool.false_eq_true, if_false, cutPts, List.filter_filter]
    apply List.filter_congr
    intro p _
    rw [inTombs_insertTomb]
    simp only [inRange]
    cases decide (lo ≤ p.1 ∧ p.1 ≤ hi) <;> cases inTombs f.tombs p <;> rfl

theorem wf_deleteRange (f : FileEnt) (hwf : f.WF) (lo hi : Int) (hlh : lo ≤ hi) : (f.deleteRange lo hi).WF := by
  have hspec := tombAct_spec f hwf lo hi hlh
  unfold FileEnt.deleteRange
  cases hact : f.tombAct lo hi with
  | keep => exact hwf
  | drop => exact hwf
  | tomb ts =>
    rw [hact] at hspec
    obtain ⟨_, rfl⟩ := hspec
    refine ⟨hwf.1, ?_⟩
    intro r hr
    rcases mem_insertTomb.1 hr with rfl | hr
    · exact hlh
    · exact hwf.2 r hr

end Influx.Model.StoreDel
