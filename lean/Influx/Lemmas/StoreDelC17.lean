/-
  Lemmas.StoreDelC17 — invariants of the store model under writes and deletes.
-/
import Influx.Model.StoreDel

namespace Influx.Model.StoreDel
open Influx.Model.DelPred (Bytes Pred)

/-! ### strictly ascending point lists -/

def Asc (l : List (Int × Int)) : Prop := l.Pairwise fun a b => a.1 < b.1

theorem insertPt_front (p : Int × Int) (l : List (Int × Int)) (h : ∀ q ∈ l, p.1 < q.1) :
    insertPt p l = p :: l := by
  cases l with
  | nil => rfl
  | cons q qs => simp [insertPt, h q (by simp)]

theorem mem_insertPt {p x : Int × Int} {l : List (Int × Int)} (h : x ∈ insertPt p l) : x = p ∨ x ∈ l := by
  induction l with
  | nil => simpa [insertPt] using h
  | cons q qs ih =>
    simp only [insertPt] at h
    split at h
    · simpa using h
    · split at h
      · rcases List.mem_cons.1 h with h | h
        · exact Or.inl h
        · exact Or.inr (by simp [h])
      · rcases List.mem_cons.1 h with h | h
        · exact Or.inr (by simp [h])
        · rcases ih h with h | h
          · exact Or.inl h
          · exact Or.inr (by simp [h])

theorem asc_insertPt (p : Int × Int) (l : List (Int × Int)) (h : Asc l) : Asc (insertPt p l) := by
  induction l with
  | nil => simp [insertPt, Asc]
  | cons q qs ih =>
    have hq : ∀ x ∈ qs, q.1 < x.1 := (List.pairwise_cons.1 h).1
    have hqs : Asc qs := (List.pairwise_cons.1 h).2
    simp only [insertPt]
    split
    · next hlt =>
      refine List.pairwise_cons.2 ⟨?_, h⟩
      intro x hx
      rcases List.mem_cons.1 hx with rfl | hx
      · exact hlt
      · have := hq x hx; omega
    · split
      · next hge heq =>
        refine List.pairwise_cons.2 ⟨?_, hqs⟩
        intro x hx; have := hq x hx; omega
      · next hge hne =>
        refine List.pairwise_cons.2 ⟨?_, ih hqs⟩
        intro x hx
        rcases mem_insertPt hx with rfl | hx
        · omega
        · exact hq x hx

theorem asc_addPts (a b : List (Int × Int)) (h : Asc a) : Asc (addPts a b) := by
  unfold addPts
  induction b generalizing a with
  | nil => exact h
  | cons p ps ih => exact ih _ (asc_insertPt p a h)

theorem asc_cutPts (lo hi : Int) (l : List (Int × Int)) (h : Asc l) : Asc (cutPts lo hi l) :=
  List.Pairwise.filter _ h

/-! ### cutting a time range commutes with merging -/

def inRange (lo hi : Int) (p : Int × Int) : Bool := decide (lo ≤ p.1 ∧ p.1 ≤ hi)

theorem cutPts_cons (lo hi : Int) (p : Int × Int) (l : List (Int × Int)) :
    cutPts lo hi (p :: l) = if inRange lo hi p then cutPts lo hi l else p :: cutPts lo hi l := by
  simp only [cutPts, inRange, List.filter_cons]
  by_cases h : lo ≤ p.1 ∧ p.1 ≤ hi <;> simp [h]

theorem cutPts_insertPt_in (lo hi : Int) (p : Int × Int) (l : List (Int × Int)) (hp : inRange lo hi p = true) :
    cutPts lo hi (insertPt p l) = cutPts lo hi l := by
  induction l with
  | nil => rw [insertPt, cutPts_cons, hp]; simp
  | cons q qs ih =>
    simp only [insertPt]
    split
    · rw [cutPts_cons, hp]; simp
    · split
      · next _ heq =>
        have hq : inRange lo hi q = true := by
          simp only [inRange, decide_eq_true_eq] at hp ⊢; omega
        rw [cutPts_cons, hp, cutPts_cons, hq]; simp
      · rw [cutPts_cons, cutPts_cons, ih]

theorem cutPts_insertPt_out (lo hi : Int) (p : Int × Int) (l : List (Int × Int)) (h : Asc l)
    (hp : inRange lo hi p = false) :
    cutPts lo hi (insertPt p l) = insertPt p (cutPts lo hi l) := by
  induction l with
  | nil => rw [insertPt, cutPts_cons, hp]; simp [cutPts, insertPt]
  | cons q qs ih =>
    have hq : ∀ x ∈ qs, q.1 < x.1 := (List.pairwise_cons.1 h).1
    have hqs : Asc qs := (List.pairwise_cons.1 h).2
    simp only [insertPt]
    split
    · next hlt =>
      rw [cutPts_cons, hp]
      simp only [Bool.false_eq_true, if_false]
      rw [insertPt_front]
      intro x hx
      have hx' : x ∈ q :: qs := (List.mem_filter.1 hx).1
      rcases List.mem_cons.1 hx' with rfl | hx'
      · exact hlt
      · have := hq x hx'; omega
    · split
      · next hge heq =>
        have hqr : inRange lo hi q = false := by
          simp only [inRange, decide_eq_false_iff_not] at hp ⊢; omega
        rw [cutPts_cons, hp, cutPts_cons, hqr]
        simp [insertPt, heq]
      · next hge hne =>
        rw [cutPts_cons, cutPts_cons, ih hqs]
        by_cases hqr : inRange lo hi q = true
        · simp only [hqr, if_true]
          -- q is cut: p goes in front of the cut tail or further; both sides agree
          rfl
        · have hqr' : inRange lo hi q = false := by simpa using hqr
          simp only [hqr', Bool.false_eq_true, if_false]
          simp [insertPt, hge, hne]

theorem cutPts_addPts (lo hi : Int) (a b : List (Int × Int)) (h : Asc a) :
    cutPts lo hi (addPts a b) = addPts (cutPts lo hi a) (cutPts lo hi b) := by
  unfold addPts
  induction b generalizing a with
  | nil => rfl
  | cons p ps ih =>
    simp only [List.foldl_cons]
    rw [ih _ (asc_insertPt p a h), cutPts_cons]
    by_cases hp : inRange lo hi p = true
    · simp only [hp, if_true, cutPts_insertPt_in lo hi p a hp]
    · have hp' : inRange lo hi p = false := by simpa using hp
      simp only [hp', Bool.false_eq_true, if_false, List.foldl_cons, cutPts_insertPt_out lo hi p a h hp']

end Influx.Model.StoreDel
