/-
  Lemmas.StoreDelC17 — invariants of the store model under writes and deletes.
-/
import Influx.Model.StoreDel
import Influx.Lemmas.StoreDelOrder
import Influx.Spec.C16
import Influx.Lemmas.DelPredRunInv

namespace Influx.Model.StoreDel
open Influx.Model.DelPred (Bytes Pred)

/-! ### strictly ascending point lists -/

def Asc (l : List (Int × Int)) : Prop := l.Pairwise fun a b => a.1 < b.1

theorem insertPt_front (p : Int × Int) (l : List (Int × Int)) (h : ∀ q ∈ l, p.1 < q.1) :
    insertPt p l = p :: l := by
  cases l with
  | nil => rfl
  | cons q qs => simp [insertPt, h q (by simp)]

theorem mem_insertPt {p x : Int × Int} {l : List (Int × Int)} (h : x ∈ insertPt p l) : x = p ∨ x ∈ l := by
  induction l with
  | nil => simpa [insertPt] using h
  | cons q qs ih =>
    simp only [insertPt] at h
    split at h
    · simpa using h
    · split at h
      · rcases List.mem_cons.1 h with h | h
        · exact Or.inl h
        · exact Or.inr (by simp [h])
      · rcases List.mem_cons.1 h with h | h
        · exact Or.inr (by simp [h])
        · rcases ih h with h | h
          · exact Or.inl h
          · exact Or.inr (by simp [h])

theorem asc_insertPt (p : Int × Int) (l : List (Int × Int)) (h : Asc l) : Asc (insertPt p l) := by
  induction l with
  | nil => simp [insertPt, Asc]
  | cons q qs ih =>
    have hq : ∀ x ∈ qs, q.1 < x.1 := (List.pairwise_cons.1 h).1
    have hqs : Asc qs := (List.pairwise_cons.1 h).2
    simp only [insertPt]
    split
    · next hlt =>
      refine List.pairwise_cons.2 ⟨?_, h⟩
      intro x hx
      rcases List.mem_cons.1 hx with rfl | hx
      · exact hlt
      · have := hq x hx; omega
    · split
      · next hge heq =>
        refine List.pairwise_cons.2 ⟨?_, hqs⟩
        intro x hx; have := hq x hx; omega
      · next hge hne =>
        refine List.pairwise_cons.2 ⟨?_, ih hqs⟩
        intro x hx
        rcases mem_insertPt hx with rfl | hx
        · omega
        · exact hq x hx

theorem asc_addPts (a b : List (Int × Int)) (h : Asc a) : Asc (addPts a b) := by
  unfold addPts
  induction b generalizing a with
  | nil => exact h
  | cons p ps ih => exact ih _ (asc_insertPt p a h)

theorem asc_cutPts (lo hi : Int) (l : List (Int × Int)) (h : Asc l) : Asc (cutPts lo hi l) :=
  List.Pairwise.filter _ h

/-! ### cutting a time range commutes with merging -/

def inRange (lo hi : Int) (p : Int × Int) : Bool := decide (lo ≤ p.1 ∧ p.1 ≤ hi)

theorem cutPts_cons (lo hi : Int) (p : Int × Int) (l : List (Int × Int)) :
    cutPts lo hi (p :: l) = if inRange lo hi p then cutPts lo hi l else p :: cutPts lo hi l := by
  simp only [cutPts, inRange, List.filter_cons]
  by_cases h : lo ≤ p.1 ∧ p.1 ≤ hi <;> simp [h]

theorem cutPts_insertPt_in (lo hi : Int) (p : Int × Int) (l : List (Int × Int)) (hp : inRange lo hi p = true) :
    cutPts lo hi (insertPt p l) = cutPts lo hi l := by
  induction l with
  | nil => rw [insertPt, cutPts_cons, hp]; simp
  | cons q qs ih =>
    simp only [insertPt]
    split
    · rw [cutPts_cons, hp]; simp
    · split
      · next _ heq =>
        have hq : inRange lo hi q = true := by
          simp only [inRange, decide_eq_true_eq] at hp ⊢; omega
        rw [cutPts_cons, hp, cutPts_cons, hq]; simp
      · rw [cutPts_cons, cutPts_cons, ih]

theorem cutPts_insertPt_out (lo hi : Int) (p : Int × Int) (l : List (Int × Int)) (h : Asc l)
    (hp : inRange lo hi p = false) :
    cutPts lo hi (insertPt p l) = insertPt p (cutPts lo hi l) := by
  induction l with
  | nil => rw [insertPt, cutPts_cons, hp]; simp [cutPts, insertPt]
  | cons q qs ih =>
    have hq : ∀ x ∈ qs, q.1 < x.1 := (List.pairwise_cons.1 h).1
    have hqs : Asc qs := (List.pairwise_cons.1 h).2
    simp only [insertPt]
    split
    · next hlt =>
      rw [cutPts_cons, hp]
      simp only [Bool.false_eq_true, if_false]
      rw [insertPt_front]
      intro x hx
      have hx' : x ∈ q :: qs := (List.mem_filter.1 hx).1
      rcases List.mem_cons.1 hx' with rfl | hx'
      · exact hlt
      · have := hq x hx'; omega
    · split
      · next hge heq =>
        have hqr : inRange lo hi q = false := by
          simp only [inRange, decide_eq_false_iff_not] at hp ⊢; omega
        rw [cutPts_cons, hp, cutPts_cons, hqr]
        simp [insertPt, heq]
      · next hge hne =>
        rw [cutPts_cons, cutPts_cons, ih hqs]
        by_cases hqr : inRange lo hi q = true
        · simp only [hqr, if_true]
        · have hqr' : inRange lo hi q = false := by simpa using hqr
          simp only [hqr', Bool.false_eq_true, if_false]
          simp [insertPt, hge, hne]

theorem cutPts_addPts (lo hi : Int) (a b : List (Int × Int)) (h : Asc a) :
    cutPts lo hi (addPts a b) = addPts (cutPts lo hi a) (cutPts lo hi b) := by
  unfold addPts
  induction b generalizing a with
  | nil => rfl
  | cons p ps ih =>
    simp only [List.foldl_cons]
    rw [ih _ (asc_insertPt p a h), cutPts_cons]
    by_cases hp : inRange lo hi p = true
    · simp only [hp, if_true, cutPts_insertPt_in lo hi p a hp]
    · have hp' : inRange lo hi p = false := by simpa using hp
      simp only [hp', Bool.false_eq_true, if_false, List.foldl_cons, cutPts_insertPt_out lo hi p a h hp']

/-! ### tombstones of one key in one TSM file -/

def covered (ts : List (Int × Int)) (x : Int) : Prop := ∃ r ∈ ts, r.1 ≤ x ∧ x ≤ r.2

theorem tombWindow_go_covers (seen : List (Int × Int)) (prev w : Int × Int) (rest : List (Int × Int))
    (hprev : prev ∈ seen) (hpw : w.1 ≤ prev.1 ∧ prev.2 ≤ w.2) (hpne : prev.1 ≤ prev.2)
    (hne : ∀ r ∈ rest, r.1 ≤ r.2)
    (hcov : ∀ x, w.1 ≤ x → x ≤ w.2 → covered seen x)
    (w' : Int × Int) (h : tombWindow.go prev w rest = some w') :
    ∀ x, w'.1 ≤ x → x ≤ w'.2 → covered (seen ++ rest) x := by
  induction rest generalizing seen prev w with
  | nil =>
    simp only [tombWindow.go, Option.some.injEq] at h
    subst h
    simpa using hcov
  | cons t ts ih =>
    simp only [tombWindow.go] at h
    split at h
    · cases h
    · next hc =>
      have htne : t.1 ≤ t.2 := hne t (by simp)
      have := ih (seen ++ [t]) t _ (by simp) ?_ htne (fun r hr => hne r (by simp [hr])) ?_ h
      · simpa using this
      · constructor <;> (split <;> omega)
      · intro x hx1 hx2
        by_cases hxw : w.1 ≤ x ∧ x ≤ w.2
        · obtain ⟨r, hr, hr2⟩ := hcov x hxw.1 hxw.2
          exact ⟨r, by simp [hr], hr2⟩
        · by_cases hxt : t.1 ≤ x ∧ x ≤ t.2
          · exact ⟨t, by simp, hxt⟩
          · exfalso
            have hc' : prev.2 = t.1 - 1 ∨ (prev.1 ≤ t.2 ∧ prev.2 ≥ t.1) := by
              by_cases h1 : prev.2 = t.1 - 1
              · exact Or.inl h1
              · right
                have := Classical.not_and_iff_not_or_not.1 hc
                rcases this with h2 | h2
                · exact absurd h1 h2
                · exact Classical.not_not.1 h2
            simp only at hx1 hx2
            split at hx1 <;> split at hx2 <;> omega

/-- **The window test is sound**: when the sorted tombstones line up, every instant of the
    window lies in one of them. -/
theorem tombWindow_covers (ts : List (Int × Int)) (hne : ∀ r ∈ ts, r.1 ≤ r.2) (w : Int × Int)
    (h : tombWindow ts = some w) : ∀ x, w.1 ≤ x → x ≤ w.2 → covered ts x := by
  cases ts with
  | nil => simp [tombWindow] at h
  | cons r rest =>
    simp only [tombWindow] at h
    have := tombWindow_go_covers [r] r r rest (by simp) ⟨Int.le_refl _, Int.le_refl _⟩ (hne r (by simp))
      (fun x hx => hne x (by simp [hx])) (fun x h1 h2 => ⟨r, by simp, h1, h2⟩) w h
    simpa using this

theorem mem_insertTomb {r x : Int × Int} {l : List (Int × Int)} : x ∈ insertTomb r l ↔ x = r ∨ x ∈ l := by
  induction l with
  | nil => simp [insertTomb]
  | cons q qs ih =>
    simp only [insertTomb]
    split
    · simp
    · simp only [List.mem_cons, ih]
      constructor
      · rintro (h | h | h)
        · exact Or.inr (Or.inl h)
        · exact Or.inl h
        · exact Or.inr (Or.inr h)
      · rintro (h | h | h)
        · exact Or.inr (Or.inl h)
        · exact Or.inl h
        · exact Or.inr (Or.inr h)

/-- a file entry as the engine writes it: values strictly ascending, tombstones non-empty ranges -/
def FileEnt.WF (f : FileEnt) : Prop := Asc f.pts ∧ ∀ r ∈ f.tombs, r.1 ≤ r.2

def inTombs (tombs : List (Int × Int)) (p : Int × Int) : Bool :=
  tombs.any fun r => decide (r.1 ≤ p.1 ∧ p.1 ≤ r.2)

theorem visible_def (f : FileEnt) : f.visible = if f.gone then [] else f.pts.filter fun p => !inTombs f.tombs p := rfl

theorem inTombs_insertTomb (lo hi : Int) (tombs : List (Int × Int)) (p : Int × Int) :
    inTombs (insertTomb (lo, hi) tombs) p = (inRange lo hi p || inTombs tombs p) := by
  simp only [inTombs, inRange]
  rw [Bool.eq_iff_iff]
  simp only [List.any_eq_true, Bool.or_eq_true, decide_eq_true_eq, mem_insertTomb]
  constructor
  · rintro ⟨r, (rfl | hr), h⟩
    · exact Or.inl h
    · exact Or.inr ⟨r, hr, h⟩
  · rintro (h | ⟨r, hr, h⟩)
    · exact ⟨(lo, hi), Or.inl rfl, h⟩
    · exact ⟨r, Or.inr hr, h⟩

theorem asc_le_last {l : List (Int × Int)} (h : Asc l) {b : Int × Int}
    (hb : l.getLast? = some b) : ∀ p ∈ l, p.1 ≤ b.1 := by
  induction l with
  | nil => intro p hp; cases hp
  | cons x xs ih =>
    intro p hp
    cases xs with
    | nil =>
      simp only [List.getLast?_singleton, Option.some.injEq] at hb
      subst hb
      simp only [List.mem_singleton] at hp
      subst hp; exact Int.le_refl _
    | cons y ys =>
      rw [List.getLast?_cons_cons] at hb
      have hxs : Asc (y :: ys) := (List.pairwise_cons.1 h).2
      rcases List.mem_cons.1 hp with rfl | hp
      · have hyb := ih hxs hb y (List.mem_cons_self)
        have := (List.pairwise_cons.1 h).1 y (by simp)
        omega
      · exact ih hxs hb p hp

theorem asc_bounds {l : List (Int × Int)} (h : Asc l) {a b : Int × Int}
    (ha : l.head? = some a) (hb : l.getLast? = some b) : ∀ p ∈ l, a.1 ≤ p.1 ∧ p.1 ≤ b.1 := by
  intro p hp
  refine ⟨?_, asc_le_last h hb p hp⟩
  cases l with
  | nil => cases hp
  | cons x xs =>
    simp only [List.head?_cons, Option.some.injEq] at ha
    subst ha
    rcases List.mem_cons.1 hp with rfl | hp
    · exact Int.le_refl _
    · exact Int.le_of_lt ((List.pairwise_cons.1 h).1 p hp)

theorem tombAct_spec (f : FileEnt) (hwf : f.WF) (lo hi : Int) (hlh : lo ≤ hi) :
    match f.tombAct lo hi with
    | .keep => f.gone = true ∨ ∀ p ∈ f.pts, inRange lo hi p = false
    | .drop => f.gone = false ∧ ∀ p ∈ f.pts, inRange lo hi p = true ∨ inTombs f.tombs p = true
    | .tomb ts => f.gone = false ∧ ts = insertTomb (lo, hi) f.tombs := by
  unfold FileEnt.tombAct
  by_cases hg : f.gone = true
  · simp [hg]
  · have hg' : f.gone = false := by simpa using hg
    simp only [hg', Bool.false_eq_true, if_false]
    cases ha : f.pts.head? with
    | none =>
      have : f.pts = [] := by simpa using ha
      simp [this]
    | some a =>
      cases hb : f.pts.getLast? with
      | none =>
        have : f.pts = [] := by simpa using hb
        rw [this] at ha; cases ha
      | some b =>
        simp only
        have hbnd := asc_bounds hwf.1 ha hb
        by_cases hout : lo > b.1 ∨ hi < a.1
        · simp only [hout, if_true]
          right
          intro p hp
          have := hbnd p hp
          simp only [inRange, decide_eq_false_iff_not]; omega
        · simp only [hout, if_false]
          by_cases hcov : lo ≤ a.1 ∧ hi ≥ b.1
          · simp only [hcov, and_self, if_true]
            refine ⟨trivial, fun p hp => Or.inl ?_⟩
            have := hbnd p hp
            simp only [inRange, decide_eq_true_eq]; omega
          · simp only [hcov, if_false]
            have hts : ∀ r ∈ insertTomb (lo, hi) f.tombs, r.1 ≤ r.2 := by
              intro r hr
              rcases mem_insertTomb.1 hr with rfl | hr
              · exact hlh
              · exact hwf.2 r hr
            cases hw : tombWindow (insertTomb (lo, hi) f.tombs) with
            | none => exact ⟨trivial, rfl⟩
            | some w =>
              simp only
              by_cases hwc : w.1 ≤ a.1 ∧ w.2 ≥ b.1
              · simp only [hwc, and_self, if_true]
                refine ⟨trivial, fun p hp => ?_⟩
                have hb2 := hbnd p hp
                obtain ⟨r, hr, hr2⟩ := tombWindow_covers _ hts w hw p.1 (by omega) (by omega)
                rcases mem_insertTomb.1 hr with rfl | hr
                · left; simpa [inRange] using hr2
                · right
                  simp only [inTombs, List.any_eq_true, decide_eq_true_eq]
                  exact ⟨r, hr, hr2⟩
              · simp only [hwc, if_false]
                exact ⟨trivial, trivial⟩

/-- **`indirectIndex.DeleteRange` removes exactly the values in the range** from what the file
    shows of the key — also when it decides to drop the key altogether. -/
theorem visible_deleteRange (f : FileEnt) (hwf : f.WF) (lo hi : Int) (hlh : lo ≤ hi) :
    (f.deleteRange lo hi).visible = cutPts lo hi f.visible := by
  have hspec := tombAct_spec f hwf lo hi hlh
  unfold FileEnt.deleteRange
  cases hact : f.tombAct lo hi with
  | keep =>
    rw [hact] at hspec
    simp only at hspec ⊢
    rcases hspec with hg | hno
    · simp [visible_def, hg, cutPts]
    · simp only [visible_def, cutPts]
      split
      · rfl
      · rw [List.filter_filter]
        apply List.filter_congr
        intro p hp
        have := hno p hp
        simp only [inRange] at this
        simp [this]
  | drop =>
    rw [hact] at hspec
    simp only at hspec ⊢
    obtain ⟨hg, hall⟩ := hspec
    simp only [visible_def, hg, Bool.false_eq_true, if_false, if_true, cutPts, List.filter_filter]
    symm
    rw [List.filter_eq_nil_iff]
    intro p hp
    rcases hall p hp with h | h
    · simp only [inRange] at h; simp [h]
    · simp [h]
  | tomb ts =>
    rw [hact] at hspec
    simp only at hspec ⊢
    obtain ⟨hg, rfl⟩ := hspec
    simp only [visible_def, hg, Bool.false_eq_true, if_false, cutPts, List.filter_filter]
    apply List.filter_congr
    intro p _
    rw [inTombs_insertTomb]
    simp only [inRange]
    cases decide (lo ≤ p.1 ∧ p.1 ≤ hi) <;> cases inTombs f.tombs p <;> rfl

theorem wf_deleteRange (f : FileEnt) (hwf : f.WF) (lo hi : Int) (hlh : lo ≤ hi) : (f.deleteRange lo hi).WF := by
  have hspec := tombAct_spec f hwf lo hi hlh
  unfold FileEnt.deleteRange
  cases hact : f.tombAct lo hi with
  | keep => exact hwf
  | drop => exact hwf
  | tomb ts =>
    rw [hact] at hspec
    obtain ⟨_, rfl⟩ := hspec
    refine ⟨hwf.1, ?_⟩
    intro r hr
    rcases mem_insertTomb.1 hr with rfl | hr
    · exact hlh
    · exact hwf.2 r hr

/-! ### one series -/

def Series.WF (s : Series) : Prop := (∀ f ∈ s.files, f.WF) ∧ Asc s.cache

def mergeFrom (acc : List (Int × Int)) (fs : List FileEnt) : List (Int × Int) :=
  fs.foldl (fun acc f => addPts acc f.visible) acc

theorem pts_def (s : Series) : s.pts = addPts (mergeFrom [] s.files) s.cache := rfl

theorem asc_mergeFrom (acc : List (Int × Int)) (fs : List FileEnt) (h : Asc acc) : Asc (mergeFrom acc fs) := by
  unfold mergeFrom
  induction fs generalizing acc with
  | nil => exact h
  | cons f fs ih => exact ih _ (asc_addPts acc f.visible h)

theorem cut_mergeFrom (lo hi : Int) (hlh : lo ≤ hi) (acc : List (Int × Int)) (fs : List FileEnt)
    (h : Asc acc) (hwf : ∀ f ∈ fs, f.WF) :
    cutPts lo hi (mergeFrom acc fs) = mergeFrom (cutPts lo hi acc) (fs.map (·.deleteRange lo hi)) := by
  unfold mergeFrom
  induction fs generalizing acc with
  | nil => rfl
  | cons f fs ih =>
    simp only [List.foldl_cons, List.map_cons]
    rw [ih _ (asc_addPts acc f.visible h) (fun g hg => hwf g (by simp [hg])),
      cutPts_addPts lo hi acc f.visible h, visible_deleteRange f (hwf f (by simp)) lo hi hlh]

/-- **A range delete removes exactly the points of the series inside the range** — through
    every TSM file (tombstones, dropped keys) and the cache, whatever overwrites what. -/
theorem pts_cut (s : Series) (hwf : s.WF) (lo hi : Int) (hlh : lo ≤ hi) :
    (s.cut lo hi).pts = cutPts lo hi s.pts := by
  rw [pts_def, pts_def, cutPts_addPts lo hi _ _ (asc_mergeFrom [] s.files (by simp [Asc])),
    cut_mergeFrom lo hi hlh [] s.files (by simp [Asc]) hwf.1]
  rfl

theorem wf_cut (s : Series) (hwf : s.WF) (lo hi : Int) (hlh : lo ≤ hi) : (s.cut lo hi).WF := by
  refine ⟨?_, asc_cutPts lo hi _ hwf.2⟩
  intro f hf
  simp only [Series.cut, List.mem_map] at hf
  obtain ⟨g, hg, rfl⟩ := hf
  exact wf_deleteRange g (hwf.1 g hg) lo hi hlh

theorem addPts_nil_nil : addPts [] [] = [] := rfl

theorem mergeFrom_all_gone (acc : List (Int × Int)) (fs : List FileEnt) (h : ∀ f ∈ fs, f.gone = true) :
    mergeFrom acc fs = acc := by
  unfold mergeFrom
  induction fs generalizing acc with
  | nil => rfl
  | cons f fs ih =>
    simp only [List.foldl_cons]
    have : f.visible = [] := by simp [visible_def, h f (by simp)]
    rw [this]
    exact ih _ (fun g hg => h g (by simp [hg]))

/-- **Data ⇒ listed**: a series with a remaining point is listed. -/
theorem listed_of_pts (s : Series) (h : s.pts ≠ []) : s.listed = true := by
  by_cases hl : s.listed = true
  · exact hl
  · exfalso
    apply h
    simp only [Series.listed, Bool.or_eq_true, List.any_eq_true, Bool.not_eq_true', not_or, not_exists,
      not_and, Bool.not_eq_false] at hl
    obtain ⟨hf, hc⟩ := hl
    have hc' : s.cache = [] := by simpa [List.isEmpty_iff] using hc
    rw [pts_def, mergeFrom_all_gone [] s.files (fun f hf' => by simpa using hf f hf'), hc']
    rfl

theorem delSeries_name {sel lo hi} {s s' : Series} (h : delSeries sel lo hi s = some s') :
    s'.name = s.name ∧ s'.tags = s.tags := by
  unfold delSeries at h
  split at h
  · split at h
    · cases h; exact ⟨rfl, rfl⟩
    · cases h
  · cases h; exact ⟨rfl, rfl⟩

/-- **Clause 1 on one series.**  A selected series keeps exactly its points outside `[lo, hi]`;
    it leaves the index only if none is left; a series that is not selected is untouched. -/
theorem delSeries_exact (sel : Bool) (lo hi : Int) (hlh : lo ≤ hi) (s : Series) (hwf : s.WF)
    (hl0 : s.listed = true) :
    match delSeries sel lo hi s with
    | some s' => s'.name = s.name ∧ s'.tags = s.tags ∧ s'.WF ∧ s'.listed = true ∧
        s'.pts = (if sel then cutPts lo hi s.pts else s.pts)
    | none => sel = true ∧ cutPts lo hi s.pts = [] := by
  unfold delSeries
  cases sel with
  | false => exact ⟨rfl, rfl, hwf, hl0, rfl⟩
  | true =>
    simp only [if_true]
    by_cases hl : (s.cut lo hi).listed = true
    · rw [if_pos hl]
      exact ⟨rfl, rfl, wf_cut s hwf lo hi hlh, hl, pts_cut s hwf lo hi hlh⟩
    · rw [if_neg hl]
      refine ⟨trivial, ?_⟩
      rw [← pts_cut s hwf lo hi hlh]
      by_cases hp : (s.cut lo hi).pts = []
      · exact hp
      · exact absurd (listed_of_pts _ hp) hl

/-! ### one shard: the content as a function series ↦ points -/

def sameKey (name : Bytes) (tags : Tags) (s : Series) : Bool := s.name = name ∧ s.tags = tags

def findSeries (sh : Shard) (name : Bytes) (tags : Tags) : Option Series := sh.series.find? (sameKey name tags)

/-- what a read of the series returns in this shard -/
def readPts (sh : Shard) (name : Bytes) (tags : Tags) : List (Int × Int) :=
  match findSeries sh name tags with
  | some s => s.pts
  | none => []

/-- the shard's index lists the series -/
def isListed (sh : Shard) (name : Bytes) (tags : Tags) : Bool := (findSeries sh name tags).isSome

/-- shard invariant: every series well-formed and listed, one entry per (name, tags) -/
structure ShardWF (sh : Shard) : Prop where
  wf : ∀ s ∈ sh.series, s.WF ∧ s.listed = true
  uniq : (sh.series.map fun s => (s.name, s.tags)).Nodup

/-- is the series handed to `DeleteSeriesRange`? -/
def selOf (sh : Shard) (pred : Option Pred) (mname : Option Bytes) (name : Bytes) (tags : Tags) : Bool :=
  (visited sh mname).contains name && predSelects pred name tags

theorem find_filterMap_delSeries (l : List Series) (sel : Series → Bool) (lo hi : Int) (name : Bytes) (tags : Tags)
    (huniq : (l.map fun s => (s.name, s.tags)).Nodup) :
    (l.filterMap fun s => delSeries (sel s) lo hi s).find? (sameKey name tags) =
      (l.find? (sameKey name tags)).bind fun s => delSeries (sel s) lo hi s := by
  induction l with
  | nil => rfl
  | cons x xs ih =>
    have hx : (x.name, x.tags) ∉ xs.map fun s => (s.name, s.tags) := (List.nodup_cons.1 huniq).1
    have hxs := (List.nodup_cons.1 huniq).2
    simp only [List.filterMap_cons, List.find?_cons]
    by_cases hk : sameKey name tags x = true
    · simp only [hk]
      -- x is the series; nothing else in xs has its key
      have hnone : ∀ l' : List Series, (∀ s ∈ l', sameKey name tags s = false) → l'.find? (sameKey name tags) = none := by
        intro l' h; rw [List.find?_eq_none]; intro s hs; simp [h s hs]
      cases hd : delSeries (sel x) lo hi x with
      | none =>
        simp only [Option.bind_some, hd]
        apply hnone
        intro s hs
        obtain ⟨s0, hs0, hs0d⟩ := List.mem_filterMap.1 hs
        obtain ⟨hn, ht⟩ := delSeries_name hs0d
        simp only [sameKey, decide_eq_true_eq] at hk
        simp only [sameKey, decide_eq_false_iff_not]
        intro hc
        apply hx
        refine List.mem_map.2 ⟨s0, hs0, ?_⟩
        rw [← hn, ← ht, hc.1, hc.2, hk.1, hk.2]
      | some x' =>
        obtain ⟨hn, ht⟩ := delSeries_name hd
        have hk' : sameKey name tags x' = true := by
          simp only [sameKey, decide_eq_true_eq] at hk ⊢; rw [hn, ht]; exact hk
        simp [hd, List.find?_cons, hk']
    · have hk' : sameKey name tags x = false := by simpa using hk
      simp only [hk']
      cases hd : delSeries (sel x) lo hi x with
      | none => simpa using ih hxs
      | some x' =>
        obtain ⟨hn, ht⟩ := delSeries_name hd
        have hk2 : sameKey name tags x' = false := by
          simp only [sameKey, decide_eq_false_iff_not] at hk' ⊢; rw [hn, ht]; exact hk'
        simp only [List.find?_cons, hk2]
        exact ih hxs

/-- **Clause 1 on one shard** (`abs' = abs minus {(k, t) | selected k ∧ lo ≤ t ≤ hi}`): after the
    delete every series reads as before minus the points of the range, if it was selected, and
    exactly as before otherwise. -/
theorem readPts_delete (sh : Shard) (hwf : ShardWF sh) (lo hi : Int) (hlh : lo ≤ hi) (pred : Option Pred)
    (mname : Option Bytes) (name : Bytes) (tags : Tags) :
    readPts (sh.delete lo hi pred mname) name tags =
      if selOf sh pred mname name tags then cutPts lo hi (readPts sh name tags) else readPts sh name tags := by
  unfold readPts findSeries
  simp only [Shard.delete]
  rw [find_filterMap_delSeries sh.series (fun s => (visited sh mname).contains s.name && predSelects pred s.name s.tags)
    lo hi name tags hwf.uniq]
  cases hf : sh.series.find? (sameKey name tags) with
  | none => simp [cutPts]
  | some s =>
    have hs : s ∈ sh.series := List.mem_of_find?_eq_some hf
    have hk := List.find?_some hf
    simp only [sameKey, decide_eq_true_eq] at hk
    obtain ⟨hswf, hsl⟩ := hwf.wf s hs
    have hex := delSeries_exact ((visited sh mname).contains s.name && predSelects pred s.name s.tags) lo hi hlh s hswf hsl
    simp only [Option.bind_some]
    have hsel : selOf sh pred mname name tags =
        ((visited sh mname).contains s.name && predSelects pred s.name s.tags) := by
      simp [selOf, hk.1, hk.2]
    rw [hsel]
    cases hd : delSeries ((visited sh mname).contains s.name && predSelects pred s.name s.tags) lo hi s with
    | none =>
      rw [hd] at hex
      simp only at hex ⊢
      rw [hex.1, if_pos rfl, hex.2]
    | some s' =>
      rw [hd] at hex
      exact hex.2.2.2.2

/-- **Clause 2, the direction that always holds**: a series that still reads a point is listed. -/
theorem listed_of_readPts (sh : Shard) (name : Bytes) (tags : Tags) (h : readPts sh name tags ≠ []) :
    isListed sh name tags = true := by
  unfold readPts at h
  unfold isListed
  cases hf : findSeries sh name tags with
  | none => simp [hf] at h
  | some s => rfl

theorem shardWF_delete (sh : Shard) (hwf : ShardWF sh) (lo hi : Int) (hlh : lo ≤ hi) (pred : Option Pred)
    (mname : Option Bytes) : ShardWF (sh.delete lo hi pred mname) := by
  constructor
  · intro s' hs'
    simp only [Shard.delete, List.mem_filterMap] at hs'
    obtain ⟨s, hs, hd⟩ := hs'
    obtain ⟨hswf, hsl⟩ := hwf.wf s hs
    have hex := delSeries_exact ((visited sh mname).contains s.name && predSelects pred s.name s.tags) lo hi hlh s hswf hsl
    rw [hd] at hex
    exact ⟨hex.2.2.1, hex.2.2.2.1⟩
  · simp only [Shard.delete]
    have hsub : ∀ l : List Series, (l.map fun s => (s.name, s.tags)).Nodup →
        ((l.filterMap fun s => delSeries ((visited sh mname).contains s.name && predSelects pred s.name s.tags) lo hi s).map
          fun s => (s.name, s.tags)).Nodup := by
      intro l
      induction l with
      | nil => intro _; exact List.nodup_nil
      | cons x xs ih =>
        intro h
        have hx := (List.nodup_cons.1 h).1
        have hxs := (List.nodup_cons.1 h).2
        simp only [List.filterMap_cons]
        cases hd : delSeries ((visited sh mname).contains x.name && predSelects pred x.name x.tags) lo hi x with
        | none => exact ih hxs
        | some x' =>
          obtain ⟨hn, ht⟩ := delSeries_name hd
          simp only [List.map_cons]
          refine List.nodup_cons.2 ⟨?_, ih hxs⟩
          intro hm
          obtain ⟨s', hs', hkey⟩ := List.mem_map.1 hm
          obtain ⟨s0, hs0, hs0d⟩ := List.mem_filterMap.1 hs'
          obtain ⟨hn0, ht0⟩ := delSeries_name hs0d
          apply hx
          refine List.mem_map.2 ⟨s0, hs0, ?_⟩
          simp only [Prod.mk.injEq] at hkey ⊢
          rw [← hn0, ← ht0, hkey.1, hkey.2, hn, ht]
          exact ⟨rfl, rfl⟩
    exact hsub sh.series hwf.uniq

/-! ### the predicate and the handler's measurement short-cut -/

open Influx.Spec.C16 (evalPred PredWF SeriesWF) in
/-- inside the C16 domain the compiled predicate selects exactly the series of which it is true -/
theorem predSelects_eq (p : Pred) (name : Bytes) (tags : Tags)
    (hp : PredWF p = true) (hs : SeriesWF name tags = true) (hk : DelPred.KeyOK name tags = true) :
    predSelects (some p) name tags = evalPred name tags p := by
  simp [predSelects, DelPred.matchSeries_spec p name tags hp hs hk]

open Influx.Spec.C16 (evalPred) in
theorem evalPred_conjuncts (name : Bytes) (tags : Tags) (p : Pred) (h : evalPred name tags p = true) :
    ∀ c ∈ conjuncts p, evalPred name tags c = true := by
  induction p with
  | rule k neq v => intro c hc; simp only [conjuncts, List.mem_singleton] at hc; subst hc; exact h
  | or l r _ _ => intro c hc; simp only [conjuncts, List.mem_singleton] at hc; subst hc; exact h
  | and l r ihl ihr =>
    simp only [evalPred, Bool.and_eq_true] at h
    intro c hc
    simp only [conjuncts, List.mem_append] at hc
    rcases hc with hc | hc
    · exact ihl h.1 c hc
    · exact ihr h.2 c hc

open Influx.Spec.C16 (evalPred keyValue) in
/-- the measurement the handler's short-cut names is the only one the predicate can be true of -/
theorem measNameOf_sound (p : Pred) (nm name : Bytes) (tags : Tags) (h : measNameOf p = some nm)
    (he : evalPred name tags p = true) : name = nm := by
  unfold measNameOf at h
  split at h
  · next k v heq =>
    cases h
    have hmem : Pred.rule k false nm ∈ (conjuncts p).filter isMeasRule := by rw [heq]; simp
    obtain ⟨hc, hk⟩ := List.mem_filter.1 hmem
    simp only [isMeasRule, decide_eq_true_eq] at hk
    have := evalPred_conjuncts name tags p he _ hc
    simp only [evalPred, keyValue, hk, if_true] at this
    simpa using this
  · cases h

theorem mem_measurements {sh : Shard} {s : Series} (hs : s ∈ sh.series) : s.name ∈ sh.measurements := by
  unfold Shard.measurements
  exact mem_sortDedup.2 (List.mem_map.2 ⟨s, hs, rfl⟩)

open Influx.Spec.C16 (evalPred) in
/-- **The measurement short-cut of `DeleteSeriesWithPredicate` loses nothing** (after fix
    C17-delete-measurement-neq-shortcut): visiting only the measurements up to the named one
    selects exactly the series of which the predicate is true. -/
theorem selOf_handler (sh : Shard) (p : Pred) (s : Series) (hs : s ∈ sh.series)
    (hsel : predSelects (some p) s.name s.tags = evalPred s.name s.tags p) :
    selOf sh (some p) (measNameOf p) s.name s.tags = evalPred s.name s.tags p := by
  unfold selOf
  rw [hsel]
  cases hm : measNameOf p with
  | none =>
    have : (visited sh none).contains s.name = true := by
      simpa [visited] using mem_measurements hs
    rw [this]; simp
  | some nm =>
    cases he : evalPred s.name s.tags p with
    | false => simp
    | true =>
      have hn := measNameOf_sound p nm s.name s.tags hm he
      have hin : nm ∈ sh.measurements := hn ▸ mem_measurements hs
      have : (visited sh (some nm)).contains s.name = true := by
        simp only [visited, List.contains_eq_mem, hin, decide_true, if_true, decide_eq_true_eq,
          List.mem_filter]
        exact ⟨hn ▸ hin, by simp [hn, cmpBytes_refl]⟩
      rw [this]; simp

/-! ### writes and snapshots keep the invariant -/

theorem addPts_ne_nil (acc new : List (Int × Int)) (h : new ≠ []) : addPts acc new ≠ [] := by
  unfold addPts
  have hins : ∀ (p : Int × Int) (l : List (Int × Int)), insertPt p l ≠ [] := by
    intro p l
    cases l with
    | nil => simp [insertPt]
    | cons q qs =>
      simp only [insertPt]
      split
      · simp
      · split <;> simp
  have hkeep : ∀ (ps : List (Int × Int)) (a : List (Int × Int)), a ≠ [] →
      ps.foldl (fun acc p => insertPt p acc) a ≠ [] := by
    intro ps
    induction ps with
    | nil => intro a ha; exact ha
    | cons p ps ih => intro a _; exact ih _ (hins p a)
  cases new with
  | nil => exact absurd rfl h
  | cons p ps => exact hkeep ps _ (hins p acc)

theorem shardWF_write (sh : Shard) (hwf : ShardWF sh) (name : Bytes) (tags : Tags) (pts : List (Int × Int))
    (hp : pts ≠ []) : ShardWF (sh.write name tags pts) := by
  unfold Shard.write
  split
  · constructor
    · intro s' hs'
      simp only [List.mem_map] at hs'
      obtain ⟨s, hs, rfl⟩ := hs'
      obtain ⟨hswf, hsl⟩ := hwf.wf s hs
      split
      · refine ⟨⟨hswf.1, asc_addPts _ _ hswf.2⟩, ?_⟩
        have := addPts_ne_nil s.cache pts hp
        simp [Series.listed, List.isEmpty_iff, this]
      · exact ⟨hswf, hsl⟩
    · have : (sh.series.map fun s => if s.name = name ∧ s.tags = tags then { s with cache := addPts s.cache pts } else s).map
          (fun s => (s.name, s.tags)) = sh.series.map fun s => (s.name, s.tags) := by
        rw [List.map_map]
        apply List.map_congr_left
        intro s _
        simp only [Function.comp]
        split <;> rfl
      simp only
      rw [this]
      exact hwf.uniq
  · next hno =>
    constructor
    · intro s' hs'
      simp only [List.mem_append, List.mem_singleton] at hs'
      rcases hs' with hs' | rfl
      · exact hwf.wf s' hs'
      · refine ⟨⟨by simp, asc_addPts [] pts (by simp [Asc])⟩, ?_⟩
        have := addPts_ne_nil [] pts hp
        simp [Series.listed, List.isEmpty_iff, this]
    · simp only [List.map_append, List.map_cons, List.map_nil]
      rw [List.nodup_append]
      refine ⟨hwf.uniq, by simp, ?_⟩
      intro a ha b hb
      simp only [List.mem_singleton] at hb
      subst hb
      intro hab
      subst hab
      obtain ⟨s, hs, hkey⟩ := List.mem_map.1 ha
      apply hno
      simp only [List.any_eq_true, decide_eq_true_eq]
      simp only [Prod.mk.injEq] at hkey
      exact ⟨s, hs, hkey⟩

theorem shardWF_snapshot (sh : Shard) (hwf : ShardWF sh) : ShardWF sh.snapshot := by
  unfold Shard.snapshot
  constructor
  · intro s' hs'
    simp only [List.mem_map] at hs'
    obtain ⟨s, hs, rfl⟩ := hs'
    obtain ⟨hswf, hsl⟩ := hwf.wf s hs
    split
    · exact ⟨hswf, hsl⟩
    · refine ⟨⟨?_, by simp [Asc]⟩, by simp [Series.listed]⟩
      intro f hf
      simp only [List.mem_append, List.mem_singleton] at hf
      rcases hf with hf | rfl
      · exact hswf.1 f hf
      · exact ⟨hswf.2, by simp⟩
  · have : (sh.series.map fun s => if s.cache.isEmpty then s else { s with files := s.files ++ [⟨s.cache, [], false⟩], cache := [] }).map
        (fun s => (s.name, s.tags)) = sh.series.map fun s => (s.name, s.tags) := by
      rw [List.map_map]
      apply List.map_congr_left
      intro s _
      simp only [Function.comp]
      split <;> rfl
    simp only
    rw [this]
    exact hwf.uniq

/-! ### clause 2, the other direction: only without separate tombstones in a TSM file -/

/-- no value of the series is in a TSM file (everything still in the cache) -/
def CacheOnly (s : Series) : Prop := s.files = []

theorem addPts_nil_asc (c : List (Int × Int)) (h : Asc c) : addPts [] c = c := by
  -- inserting an ascending list from the left appends each element at the end
  have hback : ∀ (p : Int × Int) (l : List (Int × Int)), (∀ q ∈ l, q.1 < p.1) → insertPt p l = l ++ [p] := by
    intro p l
    induction l with
    | nil => intro _; rfl
    | cons q qs ih =>
      intro hq
      have h1 := hq q (by simp)
      have : ¬ p.1 < q.1 := by omega
      have h2 : ¬ p.1 = q.1 := by omega
      simp only [insertPt, this, h2, if_false]
      rw [ih (fun x hx => hq x (by simp [hx]))]
      rfl
  have hgen : ∀ (c acc : List (Int × Int)), Asc (acc ++ c) → addPts acc c = acc ++ c := by
    intro c
    induction c with
    | nil => intro acc _; simp [addPts]
    | cons p ps ih =>
      intro acc hasc
      simp only [addPts, List.foldl_cons]
      have hp : ∀ q ∈ acc, q.1 < p.1 := by
        intro q hq
        have := List.pairwise_append.1 hasc
        exact this.2.2 q hq p (by simp)
      rw [hback p acc hp]
      have := ih (acc ++ [p]) (by simpa using hasc)
      simpa [addPts] using this
  simpa using hgen c [] (by simpa using h)

/-- **Listed ⇒ data, for series whose values are all in the cache**: then a series is listed
    exactly when it still has a point. -/
theorem listed_iff_pts_cacheOnly (s : Series) (hwf : s.WF) (hc : CacheOnly s) :
    s.listed = true ↔ s.pts ≠ [] := by
  unfold CacheOnly at hc
  rw [pts_def, hc]
  simp only [mergeFrom, List.foldl_nil, Series.listed, hc, List.any_nil, Bool.false_or, Bool.not_eq_true',
    addPts_nil_asc s.cache hwf.2]
  cases s.cache <;> simp

end Influx.Model.StoreDel
