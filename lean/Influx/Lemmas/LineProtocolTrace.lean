/-
  The model's answers to the operations of C11, as the observations `Spec.C11.holdsOn*`
  judge (the driver prints the same computation as text).
-/
import Influx.Model.LineProtocolPoint
import Influx.Spec.C11

namespace Influx.LP.Trace
open Influx.LP Influx.Spec.C11

/-- `strconv.ParseFloat` on the texts `strconv.FormatFloat` produced for this point -/
def floatTable (fs : List (Bytes × FV)) : List (Bytes × Nat) :=
  fs.filterMap fun f => match f.2 with | .float b t => some (t, b) | _ => none

def toOVal (tab : List (Bytes × Nat)) : PVal → Option OVal
  | .float t => (tab.lookup t).map .float
  | .int v => some (.int v)
  | .uint v => some (.uint v)
  | .bool b => some (.bool b)
  | .str s => some (.str s)

/-- what the model answers to `pt prec dt p` -/
def modelPt (prec : String) (dt : Int) (p : PointIn) : PtRes :=
  match newPoint p with
  | .error _ => .rejected
  | .ok (key, fields) =>
    let rs := parseLines (renderLine key fields p.time prec) dt prec
    match okPoints rs, errorText (failedLines rs) with
    | [q], none =>
      match pointTags q.key, pointFields q.fields with
      | some ts, .ok fs =>
        match fs.mapM (fun f => (toOVal (floatTable p.fields) f.2).map fun v => (f.1, v)) with
        | some ofs => .parsed ⟨pointName q.key, ts, q.time, ofs⟩
        | none => .failed
      | _, _ => .failed
    | _, _ => .failed

def modelPtObs (prec : String) (dt : Int) (p : PointIn) : PtObs := ⟨prec, dt, p, modelPt prec dt p⟩

/-- what the model answers to `key name tags` -/
def modelKeyObs (name : Bytes) (tags : List Tag) : KeyObs := ⟨name, tags, parseKeyBytes (makeKey name tags)⟩

end Influx.LP.Trace
