/-
  Lemmas.InfluxQLMerge — the sorted merge iterator (`floatSortedMergeIterator`) over
  streams of ONE tag set with pairwise distinct timestamps is the time-sorted list of all
  their points — the specification's `sortBy timeLe`.
-/
import Influx.Lemmas.InfluxQL

namespace Influx.InfluxQLPipe.Lemmas
open Influx.Reducers Influx.Spec.C22 Influx.InfluxQLPipe

variable {V : Type}

/-- statement order on timestamps, strict -/
def tBefore (asc : Bool) (a b : Int) : Prop := if asc then a < b else b < a

theorem sortedBefore_none (asc : Bool) (a b : SP V) (ha : a.tag = none) (hb : b.tag = none) :
    sortedBefore asc a b = true ↔ tBefore asc a.t b.t := by
  simp only [sortedBefore, keyBefore, ha, hb, tBefore]
  cases asc <;> simp

/-- each input is strictly ordered in statement order and carries no tags -/
def InputsOK (asc : Bool) (ins : List (List (SP V))) : Prop :=
  ∀ l ∈ ins, List.Pairwise (fun a b => tBefore asc a.t b.t) l ∧ ∀ p ∈ l, p.tag = none

theorem pickSorted_none (asc : Bool) (ins : List (List (SP V))) :
    pickSorted asc ins = none → ∀ l ∈ ins, l = [] := by
  induction ins with
  | nil => intro _ l hl; cases hl
  | cons l ls ih =>
    intro h
    cases l with
    | nil =>
      cases hp : pickSorted asc ls with
      | none =>
        intro l' hl'
        rcases List.mem_cons.mp hl' with rfl | hl'
        · rfl
        · exact ih hp l' hl'
      | some i => simp [pickSorted, hp] at h
    | cons p ps =>
      cases hp : pickSorted asc ls with
      | none => simp [pickSorted, hp] at h
      | some i =>
        simp only [pickSorted, hp] at h
        split at h <;> (try split at h) <;> simp at h

theorem pickSorted_some (asc : Bool) (ins : List (List (SP V))) (hok : InputsOK asc ins) :
    ∀ i, pickSorted asc ins = some i →
      ∃ p ps, ins[i]? = some (p :: ps) ∧
        ∀ l ∈ ins, ∀ q ∈ l, ¬ tBefore asc q.t p.t := by
  induction ins with
  | nil => intro i h; simp [pickSorted] at h
  | cons l ls ih =>
    intro i h
    have hokl := hok l (by simp)
    have hokls : InputsOK asc ls := fun l' hl' => hok l' (by simp [hl'])
    -- every element of a sorted tagless list is not before its head
    have headMin : ∀ (m : List (SP V)) (p : SP V) (ps : List (SP V)), m = p :: ps →
        List.Pairwise (fun a b => tBefore asc a.t b.t) m → ∀ q ∈ m, ¬ tBefore asc q.t p.t := by
      intro m p ps hm hpw q hq
      subst hm
      rcases List.mem_cons.mp hq with rfl | hq
      · unfold tBefore; cases asc <;> simp
      · have := (List.pairwise_cons.mp hpw).1 q hq
        unfold tBefore at *; cases asc <;> simp at * <;> omega
    cases l with
    | nil =>
      cases hp : pickSorted asc ls with
      | none => simp [pickSorted, hp] at h
      | some j =>
        simp only [pickSorted, hp, Option.some.injEq] at h
        subst h
        obtain ⟨p, ps, hget, hmin⟩ := ih hokls j hp
        refine ⟨p, ps, by simpa using hget, ?_⟩
        intro l' hl' q hq
        rcases List.mem_cons.mp hl' with rfl | hl'
        · cases hq
        · exact hmin l' hl' q hq
    | cons p ps =>
      cases hp : pickSorted asc ls with
      | none =>
        simp only [pickSorted, hp, Option.some.injEq] at h
        subst h
        refine ⟨p, ps, by simp, ?_⟩
        intro l' hl' q hq
        rcases List.mem_cons.mp hl' with rfl | hl'
        · exact headMin _ p ps rfl hokl.1 q hq
        · have := pickSorted_none asc ls hp l' hl'
          subst this; cases hq
      | some j =>
        obtain ⟨p', ps', hget, hmin⟩ := ih hokls j hp
        have hmem' : (p' :: ps') ∈ ls := List.mem_of_getElem? hget
        have hp'tag : p'.tag = none := (hokls _ hmem').2 p' (by simp)
        have hptag : p.tag = none := hokl.2 p (by simp)
        simp only [pickSorted, hp, hget, Option.bind_some, List.head?_cons] at h
        by_cases hb : sortedBefore asc p' p = true
        · simp only [hb, if_true, Option.some.injEq] at h
          subst h
          have hb' := (sortedBefore_none asc p' p hp'tag hptag).mp hb
          refine ⟨p', ps', by simpa using hget, ?_⟩
          intro l' hl' q hq
          rcases List.mem_cons.mp hl' with rfl | hl'
          · have := headMin _ p ps rfl hokl.1 q hq
            unfold tBefore at *; cases asc <;> simp at * <;> omega
          · exact hmin l' hl' q hq
        · have hb0 : sortedBefore asc p' p = false := by simpa using hb
          simp only [hb0, Bool.false_eq_true, if_false, Option.some.injEq] at h
          subst h
          have hb' : ¬ tBefore asc p'.t p.t := fun hh => hb ((sortedBefore_none asc p' p hp'tag hptag).mpr hh)
          refine ⟨p, ps, by simp, ?_⟩
          intro l' hl' q hq
          rcases List.mem_cons.mp hl' with rfl | hl'
          · exact headMin _ p ps rfl hokl.1 q hq
          · have := hmin l' hl' q hq
            unfold tBefore at *; cases asc <;> simp at * <;> omega

theorem flatten_set_perm {α : Type} (ins : List (List α)) (i : Nat) (p : α) (ps : List α)
    (h : ins[i]? = some (p :: ps)) : (p :: (ins.set i ps).flatten).Perm ins.flatten := by
  induction ins generalizing i with
  | nil => simp at h
  | cons l ls ih =>
    cases i with
    | zero =>
      simp only [List.getElem?_cons_zero, Option.some.injEq] at h
      rw [h]; simp
    | succ i =>
      simp at h
      simp only [List.set_cons_succ, List.flatten_cons]
      have := ih i h
      exact (List.perm_middle.symm).trans (List.Perm.append_left l this)

theorem inputsOK_set (asc : Bool) (ins : List (List (SP V))) (i : Nat) (p : SP V) (ps : List (SP V))
    (hok : InputsOK asc ins) (h : ins[i]? = some (p :: ps)) : InputsOK asc (ins.set i ps) := by
  intro l hl
  rcases List.mem_or_eq_of_mem_set hl with hl | hl
  · exact hok l hl
  · have := hok (p :: ps) (List.mem_of_getElem? h)
    rw [hl]
    exact ⟨(List.pairwise_cons.mp this.1).2, fun q hq => this.2 q (by simp [hq])⟩

/-- the merge emits a permutation of all points, in statement order -/
theorem sortedMergeGo_facts (asc : Bool) : ∀ (fuel : Nat) (ins : List (List (SP V))), InputsOK asc ins →
    ins.flatten.length ≤ fuel →
      (sortedMergeGo asc fuel ins).Perm ins.flatten ∧
      List.Pairwise (fun a b => ¬ tBefore asc b.t a.t) (sortedMergeGo asc fuel ins) := by
  intro fuel
  induction fuel with
  | zero =>
    intro ins _ hlen
    have : ins.flatten = [] := List.length_eq_zero_iff.mp (by omega)
    simp [sortedMergeGo, this]
  | succ fuel ih =>
    intro ins hok hlen
    simp only [sortedMergeGo]
    cases hp : pickSorted asc ins with
    | none =>
      have hall := pickSorted_none asc ins hp
      have : ins.flatten = [] := by
        rw [List.flatten_eq_nil_iff]; exact hall
      simp [this]
    | some i =>
      obtain ⟨p, ps, hget, hmin⟩ := pickSorted_some asc ins hok i hp
      simp only [hget]
      have hperm := flatten_set_perm ins i p ps hget
      have hok' := inputsOK_set asc ins i p ps hok hget
      have hlen' : (ins.set i ps).flatten.length ≤ fuel := by
        have := hperm.length_eq; rw [List.length_cons] at this; omega
      obtain ⟨h1, h2⟩ := ih (ins.set i ps) hok' hlen'
      refine ⟨(List.Perm.cons p h1).trans hperm, List.pairwise_cons.mpr ⟨?_, h2⟩⟩
      intro q hq
      have hq' : q ∈ (ins.set i ps).flatten := h1.mem_iff.mp hq
      have hq'' : q ∈ ins.flatten := hperm.mem_iff.mp (by simp [hq'])
      obtain ⟨l, hl, hql⟩ := List.mem_flatten.mp hq''
      exact hmin l hl q hql

/-- two strictly time-ordered lists with the same elements are equal -/
theorem strict_sorted_perm_unique {α : Type} (key : α → Int) (asc : Bool) :
    ∀ (l1 l2 : List α), List.Pairwise (fun a b => tBefore asc (key a) (key b)) l1 →
      List.Pairwise (fun a b => tBefore asc (key a) (key b)) l2 → l1.Perm l2 → l1 = l2 := by
  intro l1
  induction l1 with
  | nil => intro l2 _ _ hp; exact hp.nil_eq
  | cons a l1 ih =>
    intro l2 h1 h2 hp
    cases l2 with
    | nil => exact absurd hp.length_eq (by simp)
    | cons b l2 =>
      have ha : a ∈ b :: l2 := hp.mem_iff.mp (by simp)
      have hb : b ∈ a :: l1 := hp.mem_iff.mpr (by simp)
      have hab : a = b := by
        rcases List.mem_cons.mp ha with h | h
        · exact h
        · rcases List.mem_cons.mp hb with h' | h'
          · exact h'.symm
          · have x1 := (List.pairwise_cons.mp h1).1 b h'
            have x2 := (List.pairwise_cons.mp h2).1 a h
            unfold tBefore at *; cases asc <;> simp at * <;> omega
      subst hab
      rw [ih l2 (List.pairwise_cons.mp h1).2 (List.pairwise_cons.mp h2).2 hp.cons_inv]

/-! ### the specification's insertion sort -/

theorem insertBy_perm {α : Type} (le : α → α → Bool) (x : α) (l : List α) : (insertBy le x l).Perm (x :: l) := by
  induction l with
  | nil => simp [insertBy]
  | cons y ys ih =>
    simp only [insertBy]
    split
    · exact List.Perm.refl _
    · exact (List.Perm.cons y ih).trans (List.Perm.swap x y ys)

theorem sortBy_perm {α : Type} (le : α → α → Bool) (l : List α) : (sortBy le l).Perm l := by
  induction l with
  | nil => simp [sortBy]
  | cons x xs ih =>
    simp only [sortBy, List.foldr_cons]
    exact (insertBy_perm le x _).trans (List.Perm.cons x ih)

theorem insertBy_sorted_time {α : Type} (key : α → Int) (asc : Bool) (x : α) (s : List α)
    (hs : List.Pairwise (fun a b => ¬ tBefore asc (key b) (key a)) s) :
    List.Pairwise (fun a b => ¬ tBefore asc (key b) (key a))
      (insertBy (fun a b => if asc then decide (key a ≤ key b) else decide (key b ≤ key a)) x s) := by
  induction s with
  | nil => simp [insertBy]
  | cons y ys ihs =>
    have hy := List.pairwise_cons.mp hs
    simp only [insertBy]
    by_cases hle : (if asc = true then decide (key x ≤ key y) else decide (key y ≤ key x)) = true
    · simp only [hle, if_true]
      refine List.pairwise_cons.mpr ⟨?_, hs⟩
      intro z hz
      rcases List.mem_cons.mp hz with rfl | hz
      · unfold tBefore; cases asc <;> simp at * <;> omega
      · have := hy.1 z hz
        unfold tBefore at *; cases asc <;> simp at * <;> omega
    · simp only [hle, if_false]
      refine List.pairwise_cons.mpr ⟨?_, ihs hy.2⟩
      intro z hz
      have hz' := (insertBy_perm _ x ys).mem_iff.mp hz
      rcases List.mem_cons.mp hz' with rfl | hz'
      · unfold tBefore; cases asc <;> simp at * <;> omega
      · exact hy.1 z hz'

theorem sortBy_sorted_time {α : Type} (key : α → Int) (asc : Bool) (l : List α) :
    List.Pairwise (fun a b => ¬ tBefore asc (key b) (key a))
      (sortBy (fun a b => if asc then decide (key a ≤ key b) else decide (key b ≤ key a)) l) := by
  induction l with
  | nil => simp [sortBy]
  | cons x xs ih =>
    simp only [sortBy, List.foldr_cons]
    exact insertBy_sorted_time key asc x _ ih

end Influx.InfluxQLPipe.Lemmas
