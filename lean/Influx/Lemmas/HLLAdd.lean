/-
  Lemmas.HLLAdd — what `Add` does to the normalised registers, in either representation;
  the registers of a sketch are a function of the *set* of hashes added.
-/
import Influx.Lemmas.HLL
import Influx.Lemmas.HLLBits

namespace Influx.Lemmas.HLLAdd
open Influx.Model.HLL Influx.Lemmas.HLL Influx.Lemmas.HLLBits

/-- what one key contributes to register `i` -/
def contrib (f : Nat → Nat × Nat) (k i : Nat) : Nat := if (f k).1 = i then (f k).2 else 0

theorem supAt_cons (f : Nat → Nat × Nat) (k : Nat) (ks : List Nat) (i : Nat) :
    supAt f (k :: ks) i = max (contrib f k i) (supAt f ks i) := rfl

theorem supAt_insertSorted (f : Nat → Nat × Nat) (k : Nat) (l : List Nat) (i : Nat) :
    supAt f (insertSorted k l) i = max (contrib f k i) (supAt f l i) := by
  induction l with
  | nil => simp [insertSorted, supAt, contrib]
  | cons a as ih =>
    simp only [insertSorted]
    split
    · simp only [supAt, contrib]
    · split
      · next h => subst h; simp only [supAt, contrib]; omega
      · simp only [supAt, ih, contrib]; omega

theorem contrib_le_supAt (f : Nat → Nat × Nat) (k : Nat) (l : List Nat) (i : Nat) (h : k ∈ l) :
    contrib f k i ≤ supAt f l i := by
  induction l with
  | nil => cases h
  | cons a as ih =>
    rw [supAt_cons]
    rcases List.mem_cons.mp h with rfl | h
    · omega
    · have := ih h; omega

theorem supAt_mono (f : Nat → Nat × Nat) (A B : List Nat) (i : Nat) (h : ∀ a, a ∈ A → a ∈ B) :
    supAt f A i ≤ supAt f B i := by
  induction A with
  | nil => simp [supAt]
  | cons a as ih =>
    rw [supAt_cons]
    have h1 := contrib_le_supAt f a B i (h a (List.mem_cons_self ..))
    have h2 := ih (fun x hx => h x (List.mem_cons_of_mem _ hx))
    omega

/-- the register content depends only on the *set* of keys -/
theorem supAt_set (f : Nat → Nat × Nat) (A B : List Nat) (i : Nat) (h : ∀ a, a ∈ A ↔ a ∈ B) :
    supAt f A i = supAt f B i :=
  Nat.le_antisymm (supAt_mono f A B i fun a => (h a).mp) (supAt_mono f B A i fun a => (h a).mpr)

theorem supAt_map_eq (f g : Nat → Nat × Nat) (e : Nat → Nat) (l : List Nat) (i : Nat)
    (h : ∀ x, x ∈ l → g (e x) = f x) : supAt g (l.map e) i = supAt f l i := by
  induction l with
  | nil => rfl
  | cons a as ih =>
    simp only [List.map, supAt]
    rw [h a (List.mem_cons_self ..), ih (fun x hx => h x (List.mem_cons_of_mem _ hx))]

theorem mergeSparse_wf (h : Plus) (w : WF h) (hs : h.sparse = true) : WF (mergeSparse h) ∧ (mergeSparse h).sparse = true := by
  unfold mergeSparse
  split
  · exact ⟨w, hs⟩
  · exact ⟨⟨w.p_lo, w.p_hi, by intro h'; simp [hs] at h'⟩, hs⟩

theorem toNormal_wf (h : Plus) (w : WF h) : WF (toNormal h) :=
  ⟨by rw [toNormal_p]; exact w.p_lo, by rw [toNormal_p]; exact w.p_hi, fun _ => by rw [toNormal_p]; exact toNormal_size h⟩

theorem regs_of_dense' (c : Plus) (h : c.sparse = false) : regs c = c.dense := by simp [regs, h]

theorem regs_sparse (h : Plus) (w : WF h) (hs : h.sparse = true) (i : Nat) (hi : i < 2 ^ h.p) :
    reg (regs h) i = sparseSup h i := (regs_spec h w).2 hs i hi

/-- **`Add`**: the normalised registers after adding hash `x` are the old ones with register
    `index(x)` raised to `rho(x)` — in the sparse representation (through `encodeHash`, the
    temporary set, `mergeSparse` and a possible `toNormal`) exactly as in the dense one. -/
theorem add_regs (h : Plus) (w : WF h) (x : Nat) (hx : x < 2 ^ 64) :
    WF (add h x) ∧ (add h x).p = h.p ∧
      ∀ i, i < 2 ^ h.p → reg (regs (add h x)) i = max (reg (regs h) i) (contrib (denseIdxRho h.p) x i) := by
  unfold add
  by_cases hs : h.sparse = true
  · rw [if_pos hs]
    -- the sketch after the insertion into the temporary set
    have p1 : (addTmp h x).p = h.p := rfl
    have s1 : (addTmp h x).sparse = true := hs
    have w1 : WF (addTmp h x) := ⟨w.p_lo, w.p_hi, by intro h'; rw [s1] at h'; cases h'⟩
    have sup1 : ∀ i, sparseSup (addTmp h x) i = max (sparseSup h i) (contrib (denseIdxRho h.p) x i) := by
      intro i
      simp only [sparseSup, addTmp, supAt_insertSorted]
      have : contrib (decodeHash h.p) (encodeHash h.p x) i = contrib (denseIdxRho h.p) x i := by
        unfold contrib; rw [decode_encode h.p x w.p_lo w.p_hi hx]
      rw [this]; omega
    generalize addTmp h x = h1 at p1 s1 w1 sup1
    -- the optional mergeSparse
    have f2 : WF (addMerge h1) ∧ (addMerge h1).sparse = true ∧ (addMerge h1).p = h.p ∧
        ∀ i, sparseSup (addMerge h1) i = sparseSup h1 i := by
      unfold addMerge
      split
      · obtain ⟨a, b⟩ := mergeSparse_wf h1 w1 s1
        exact ⟨a, b, by rw [mergeSparse_p, p1], fun i => mergeSparse_sup h1 i⟩
      · exact ⟨w1, s1, p1, fun _ => rfl⟩
    obtain ⟨w2, s2, p2, sup2⟩ := f2
    generalize addMerge h1 = h2 at w2 s2 p2 sup2
    have hreg : ∀ i, i < 2 ^ h.p → reg (regs h) i = sparseSup h i := regs_sparse h w hs
    unfold addNormal
    split
    · -- switch to the dense representation
      obtain ⟨w3, s3⟩ := mergeSparse_wf h2 w2 s2
      have p3 : (mergeSparse h2).p = h.p := by rw [mergeSparse_p, p2]
      refine ⟨toNormal_wf _ w3, by rw [toNormal_p, p3], ?_⟩
      intro i hi
      rw [regs_of_dense' _ (toNormal_sparse _), toNormal_reg _ i (by rw [p3]; exact hi),
        mergeSparse_sup, sup2, sup1, hreg i hi]
    · refine ⟨w2, p2, ?_⟩
      intro i hi
      rw [regs_sparse h2 w2 s2 i (by rw [p2]; exact hi), sup2, sup1, hreg i hi]
  · have hs' : h.sparse = false := by simpa using hs
    rw [if_neg hs]
    simp only
    have hsz := w.dense_size hs'
    refine ⟨⟨w.p_lo, w.p_hi, fun _ => ?_⟩, by simp, ?_⟩
    · simp [regMax_size, hsz]
    · intro i hi
      have e2 : regs h = h.dense := by simp [regs, hs']
      simp only [regs, hs', Bool.false_eq_true, if_false]
      have := regMax_at h.dense (denseIdxRho h.p x).1 (denseIdxRho h.p x).2 i (by rw [hsz]; exact hi)
      rw [show ((denseIdxRho h.p x).1, (denseIdxRho h.p x).2) = denseIdxRho h.p x from rfl] at this
      rw [this]; rfl

theorem addAll_regs (xs : List Nat) (h : Plus) (w : WF h) (hx : ∀ x, x ∈ xs → x < 2 ^ 64) :
    WF (addAll h xs) ∧ (addAll h xs).p = h.p ∧
      ∀ i, i < 2 ^ h.p → reg (regs (addAll h xs)) i = max (reg (regs h) i) (supAt (denseIdxRho h.p) xs i) := by
  induction xs generalizing h with
  | nil => exact ⟨w, rfl, fun i _ => by simp [addAll, supAt]⟩
  | cons x xs ih =>
    obtain ⟨w1, p1, r1⟩ := add_regs h w x (hx x (List.mem_cons_self ..))
    obtain ⟨w2, p2, r2⟩ := ih (add h x) w1 (fun y hy => hx y (List.mem_cons_of_mem _ hy))
    refine ⟨w2, by rw [← p1]; exact p2, ?_⟩
    intro i hi
    have := r2 i (by rw [p1]; exact hi)
    simp only [addAll, List.foldl] at this ⊢
    rw [this, r1 i hi, p1, supAt_cons]
    omega

theorem newPlus_spec (p : Nat) (e : Plus) (h : newPlus p = some e) :
    WF e ∧ e.p = p ∧ ∀ i, i < 2 ^ p → reg (regs e) i = 0 := by
  unfold newPlus at h
  split at h
  · cases h
  · next hp =>
    injection h with h; subst h
    have w : WF ({ p := p, sparse := true, tmpSet := [], sparseVals := [], sparseBytes := 0, dense := #[] } : Plus) :=
      ⟨by simp only; omega, by simp only; omega, by intro h'; cases h'⟩
    refine ⟨w, rfl, ?_⟩
    intro i hi
    rw [regs_sparse _ w rfl i hi]
    simp [sparseSup, supAt]

/-- the sketch of a list of hashes: `NewPlus(p)` then `Add` each -/
theorem sketch_regs (p : Nat) (e : Plus) (he : newPlus p = some e) (xs : List Nat) (hx : ∀ x, x ∈ xs → x < 2 ^ 64) :
    WF (addAll e xs) ∧ (addAll e xs).p = p ∧
      ∀ i, i < 2 ^ p → reg (regs (addAll e xs)) i = supAt (denseIdxRho p) xs i := by
  obtain ⟨w, hp, h0⟩ := newPlus_spec p e he
  obtain ⟨w1, p1, r1⟩ := addAll_regs xs e w hx
  subst hp
  refine ⟨w1, p1, ?_⟩
  intro i hi
  rw [r1 i hi, h0 i hi]; omega

end Influx.Lemmas.HLLAdd
