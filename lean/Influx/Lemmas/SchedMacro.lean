/-
  Lemmas.SchedMacro — the invariants of the scheduler model carried through `settle`
  (run-to-quiescence), for the link between the fine-grained theorems and the run-time checker.
-/
import Influx.Lemmas.SchedLog
import Influx.Model.SchedMacro
set_option linter.unusedSimpArgs false
set_option linter.unusedVariables false
namespace Influx.Lemmas.Sched
open Influx.Model.Sched

/-! ### no task is lost: a task whose cron has a next time is in the queue -/

theorem dispatch_taken (cfg : Cfg) (now : Int) (q : List Item) (busy : List (Nat × Run)) :
    ∀ y ∈ q, y ∈ (dispatch cfg now q busy).kept ∨
      ((cfg.wk y.id, ({ id := y.id, sf := y.next, runAt := y.when } : Run)) ∈ (dispatch cfg now q busy).runs ∧
        ∀ n, y.cron y.next = some n → { y with next := n } ∈ (dispatch cfg now q busy).ins) := by
  induction q generalizing busy with
  | nil => simp
  | cons it rest ih =>
    intro y hy
    unfold dispatch
    split
    · exact Or.inl hy
    · split
      · rcases List.mem_cons.mp hy with rfl | hy
        · exact Or.inl (by simp)
        · rcases ih busy y hy with h | h
          · exact Or.inl (by simp [h])
          · exact Or.inr h
      · rcases List.mem_cons.mp hy with rfl | hy
        · right
          split
          · next hn => exact ⟨by simp, fun n hn' => by rw [hn] at hn'; cases hn'⟩
          · next n0 hn => exact ⟨by simp, fun n hn' => by rw [hn] at hn'; cases hn'; simp⟩
        · rcases ih _ y hy with h | ⟨h1, h2⟩
          · left; split <;> exact h
          · right
            split
            · exact ⟨List.mem_cons_of_mem _ h1, h2⟩
            · exact ⟨List.mem_cons_of_mem _ h1, fun n hn => List.mem_cons_of_mem _ (h2 n hn)⟩

def InvP (s : State) : Prop :=
  ∀ id c off t n, cursor id s.log = some (c, off, t) → c t = some n → id ∈ ids s.queue

theorem invP_init : InvP init := by simp [InvP, init, cursor]

theorem mem_ids {q : List Item} {x : Item} (h : x ∈ q) : x.id ∈ ids q := List.mem_map.mpr ⟨x, h, rfl⟩

theorem mem_ids_iff {q : List Item} {i : Nat} : i ∈ ids q ↔ ∃ x ∈ q, x.id = i := by
  unfold ids; simp

theorem invP_processStep (cfg : Cfg) {s : State} (hL : InvL s) (hP : InvP s) : InvP (processStep cfg s) := by
  have hids := dispatch_ids cfg s.now s.queue s.busy hL.u.uniq
  have htaken := dispatch_taken cfg s.now s.queue s.busy
  have hrn : (runIds (dispatch cfg s.now s.queue s.busy).runs).Nodup := (List.nodup_append.mp hids.2).2.1
  have hlog : (processStep cfg s).log = tooks s.now (dispatch cfg s.now s.queue s.busy).runs ++ s.log := rfl
  have hq : (processStep cfg s).queue =
      reinsert (dispatch cfg s.now s.queue s.busy).ins (dispatch cfg s.now s.queue s.busy).kept := rfl
  intro id c off t n hcur hn
  rw [hq]
  rw [(ids_reinsert_perm _ _).mem_iff, List.mem_append]
  rw [hlog] at hcur
  by_cases hr : id ∈ runIds (dispatch cfg s.now s.queue s.busy).runs
  · -- the task was dispatched in this pass
    obtain ⟨wr, hwr, hid⟩ := List.mem_map.mp hr
    have hc := cursor_tooks_mem s.now wr _ s.log hrn hwr
    rw [hid] at hc
    rw [hc] at hcur
    cases hc0 : cursor id s.log with
    | none => simp [hc0] at hcur
    | some x =>
      obtain ⟨c0, off0, t0⟩ := x
      simp [hc0] at hcur
      obtain ⟨rfl, rfl, rfl⟩ := hcur
      -- the dispatched run belongs to a queue item y with id, next = wr.sf
      obtain ⟨y, hy, hwy, _⟩ := dispatch_runs cfg s.now s.queue s.busy wr hwr
      have hyid : y.id = id := by rw [← hid, hwy]
      obtain ⟨c1, off1, t1, h1, h2, h3, h4⟩ := hL.c y hy
      rw [hyid, hc0] at h1
      simp at h1
      obtain ⟨rfl, rfl, rfl⟩ := h1
      have hsf : wr.2.sf = y.next := by rw [hwy]
      rcases htaken y hy with hk | ⟨_, hins⟩
      · -- kept and dispatched at once is impossible
        exfalso
        have hd := (List.nodup_append.mp hids.2).2.2
        exact hd y.id (mem_ids hk) y.id (by rw [hyid]; exact hr) rfl
      · left
        have := hins n (by rw [h2, ← hsf]; exact hn)
        have := mem_ids this
        simpa [hyid] using this
  · rw [cursor_tooks_other s.now id _ s.log hr] at hcur
    have hin := hP id c off t n hcur hn
    obtain ⟨y, hy, hyid⟩ := mem_ids_iff.mp hin
    rcases htaken y hy with hk | ⟨hrun, _⟩
    · right; rw [← hyid]; exact mem_ids hk
    · exfalso
      apply hr
      rw [← hyid]
      exact List.mem_map.mpr ⟨_, hrun, rfl⟩

theorem invP_step (r : Bool) (cfg : Cfg) {s : State} (hL : InvL s) (hP : InvP s) (e : Ev) :
    InvP (stepEv r cfg s e) := by
  cases e with
  | schedule id c off last =>
    simp only [stepEv]
    cases h : schedule s id c off last with
    | none => simpa using hP
    | some s' =>
      simp only [Option.getD_some]
      obtain ⟨nt, hc, rfl⟩ := schedule_some h
      intro id' c' off' t n hcur hn
      simp only [] at hcur ⊢
      rw [(ids_insertItem_perm _ _).mem_iff]
      by_cases hid : id = id'
      · subst hid; simp
      · simp only [cursor, hid, if_false] at hcur
        have := hP id' c' off' t n hcur hn
        refine List.mem_cons_of_mem _ ?_
        obtain ⟨y, hy, hyid⟩ := mem_ids_iff.mp this
        rw [← hyid]
        apply mem_ids
        unfold removeId
        exact List.mem_filter.mpr ⟨hy, by simpa [hyid] using Ne.symm hid⟩
  | release id =>
    intro id' c' off' t n hcur hn
    simp only [stepEv, release] at hcur ⊢
    by_cases hid : id = id'
    · subst hid; simp [cursor] at hcur
    · simp only [cursor, hid, if_false] at hcur
      have := hP id' c' off' t n hcur hn
      obtain ⟨y, hy, hyid⟩ := mem_ids_iff.mp this
      rw [← hyid]
      apply mem_ids
      unfold removeId
      exact List.mem_filter.mpr ⟨hy, by simpa [hyid] using Ne.symm hid⟩
  | advance d => exact hP
  | timerFire => simp only [stepEv]; split <;> exact hP
  | wake => simp only [stepEv]; split <;> exact hP
  | iter =>
    simp only [stepEv]
    unfold iter
    split
    · exact hP
    · split
      · exact hP
      · split
        · intro id c off t n hcur hn
          rw [(notDue_queue r s _).2] at hcur
          rw [(notDue_queue r s _).1]
          exact hP id c off t n hcur hn
        · intro id c off t n hcur hn
          rw [afterProcess_log] at hcur
          rw [afterProcess_queue]
          exact invP_processStep cfg hL hP id c off t n hcur hn
  | done w =>
    simp only [stepEv]
    split
    · exact hP
    · intro id c off t n hcur hn
      simp only [cursor] at hcur
      exact hP id c off t n hcur hn



/-! ### all invariants together, through `settle` -/

structure Good (cfg : Cfg) (s : State) : Prop where
  t : InvT s
  b : InvB cfg s
  l : InvL s
  p : InvP s

theorem good_step (cfg : Cfg) {s : State} (h : Good cfg s) (e : Ev) : Good cfg (stepEv true cfg s e) :=
  ⟨invT_step cfg h.t e, invB_step true cfg h.b e, invL_step true cfg h.l e, invP_step true cfg h.l h.p e⟩

def isFinished : LogEv → Bool
  | .finished _ _ => true
  | _ => false

theorem cursor_finished_prefix (id : Nat) (fs log : List LogEv) (h : ∀ ev ∈ fs, isFinished ev = true) :
    cursor id (fs ++ log) = cursor id log := by
  induction fs with
  | nil => rfl
  | cons ev fs ih =>
    have := h ev (by simp)
    cases ev <;> simp [isFinished] at this
    simp only [List.cons_append, cursor]
    exact ih (fun e he => h e (by simp [he]))

theorem wellOrdered_finished_prefix (fs log : List LogEv) (h : ∀ ev ∈ fs, isFinished ev = true)
    (hw : WellOrdered log) : WellOrdered (fs ++ log) := by
  induction fs with
  | nil => exact hw
  | cons ev fs ih =>
    have := h ev (by simp)
    cases ev <;> simp [isFinished] at this
    simp only [List.cons_append, WellOrdered]
    exact ih (fun e he => h e (by simp [he]))

theorem finishFree_log (blocked : List Nat) (s : State) :
    ∃ fs, (finishFree blocked s).log = fs ++ s.log ∧ ∀ ev ∈ fs, isFinished ev = true := by
  refine ⟨_, rfl, ?_⟩
  intro ev hev
  simp only [List.mem_reverse, List.mem_map] at hev
  obtain ⟨b, _, rfl⟩ := hev
  rfl

theorem good_finishFree (cfg : Cfg) (blocked : List Nat) {s : State} (h : Good cfg s) :
    Good cfg (finishFree blocked s) := by
  obtain ⟨fs, hlog, hfs⟩ := finishFree_log blocked s
  have hq : (finishFree blocked s).queue = s.queue := rfl
  refine ⟨⟨h.t.sorted, h.t.k2, h.t.k4, h.t.k3⟩, ⟨?_, ?_⟩, ⟨⟨h.l.u.uniq⟩, ?_, ?_⟩, ?_⟩
  · intro b hb
    exact h.b.wk b (List.mem_filter.mp hb).1
  · exact List.Nodup.sublist (List.Sublist.map _ List.filter_sublist) h.b.uniq
  · intro x hx
    rw [hlog, cursor_finished_prefix _ _ _ hfs]
    exact h.l.c x hx
  · rw [hlog]; exact wellOrdered_finished_prefix _ _ hfs h.l.w
  · intro id c off t n hcur hn
    rw [hlog, cursor_finished_prefix _ _ _ hfs] at hcur
    exact h.p id c off t n hcur hn

/-- what a settle adds to the log: runs taken at the (unchanged) current time, and completions -/
def Seg (now : Int) (seg : List LogEv) : Prop :=
  ∀ ev ∈ seg, (∃ w r, ev = LogEv.took w r now) ∨ isFinished ev = true

theorem seg_nil (now : Int) : Seg now [] := by intro ev h; simp at h

theorem seg_append {now : Int} {a b : List LogEv} (ha : Seg now a) (hb : Seg now b) : Seg now (a ++ b) := by
  intro ev h
  rcases List.mem_append.mp h with h | h
  · exact ha ev h
  · exact hb ev h

theorem iter_now (cfg : Cfg) (s : State) : (iter true cfg s).now = s.now := by
  by_cases hl : s.mode = .looping
  · rcases iter_cases true cfg s hl with ⟨_, he⟩ | ⟨it, rest, _, _, he⟩ | ⟨it, rest, _, _, he⟩
    · rw [he]
    · rw [he]; unfold notDue; simp
    · rw [he]
      rcases afterProcess_cases (processStep cfg s) with ⟨_, ha⟩ | ⟨_, _, _, _, ha⟩ | ⟨_, _, _, _, ha⟩ <;>
        rw [ha] <;> rfl
  · unfold iter; simp [hl]

theorem iter_seg (cfg : Cfg) (s : State) :
    (iter true cfg s).now = s.now ∧ ∃ seg, (iter true cfg s).log = seg ++ s.log ∧ Seg s.now seg := by
  refine ⟨iter_now cfg s, ?_⟩
  by_cases hl : s.mode = .looping
  · rcases iter_cases true cfg s hl with ⟨_, he⟩ | ⟨it, rest, _, _, he⟩ | ⟨it, rest, _, _, he⟩
    · exact ⟨[], by rw [he]; rfl, seg_nil _⟩
    · exact ⟨[], by rw [he, (notDue_queue _ _ _).2]; rfl, seg_nil _⟩
    · rw [he, afterProcess_log]
      refine ⟨tooks s.now (dispatch cfg s.now s.queue s.busy).runs, rfl, ?_⟩
      intro ev hev
      simp only [tooks, List.mem_reverse, List.mem_map] at hev
      obtain ⟨wr, _, rfl⟩ := hev
      exact Or.inl ⟨_, _, rfl⟩
  · exact ⟨[], by unfold iter; simp [hl], seg_nil _⟩

theorem finishFree_blocked_nil (s : State) : (finishFree [] s).busy = [] := by
  simp [finishFree]

theorem settle_spec (cfg : Cfg) (blocked : List Nat) (fuel : Nat) (s : State) (hG : Good cfg s) :
    Good cfg (settle true cfg blocked fuel s).1 ∧
    (settle true cfg blocked fuel s).1.now = s.now ∧
    (∃ seg, (settle true cfg blocked fuel s).1.log = seg ++ s.log ∧ Seg s.now seg) ∧
    ((settle true cfg blocked fuel s).2 = .quiet →
      (settle true cfg blocked fuel s).1.mode = .idle ∧ (settle true cfg blocked fuel s).1.tick = false ∧
      timerExpired (settle true cfg blocked fuel s).1 = false ∧
      (blocked = [] → (settle true cfg blocked fuel s).1.busy = [])) := by
  induction fuel generalizing s with
  | zero =>
    refine ⟨hG, rfl, ⟨[], rfl, seg_nil _⟩, ?_⟩
    intro h
    simp [settle] at h
  | succ fuel ih =>
    have hG1 := good_finishFree cfg blocked hG
    obtain ⟨fs, hfl, hfs⟩ := finishFree_log blocked s
    have hseg1 : Seg s.now fs := fun ev hev => Or.inr (hfs ev hev)
    have hnow1 : (finishFree blocked s).now = s.now := rfl
    -- a continuation lemma: if we continue from a state s2 reached from finishFree with a segment
    have cont : ∀ s2 : State, Good cfg s2 → s2.now = s.now →
        (∃ seg, s2.log = seg ++ s.log ∧ Seg s.now seg) →
        (Good cfg (settle true cfg blocked fuel s2).1 ∧
          (settle true cfg blocked fuel s2).1.now = s.now ∧
          (∃ seg, (settle true cfg blocked fuel s2).1.log = seg ++ s.log ∧ Seg s.now seg) ∧
          ((settle true cfg blocked fuel s2).2 = .quiet →
            (settle true cfg blocked fuel s2).1.mode = .idle ∧ (settle true cfg blocked fuel s2).1.tick = false ∧
            timerExpired (settle true cfg blocked fuel s2).1 = false ∧
            (blocked = [] → (settle true cfg blocked fuel s2).1.busy = []))) := by
      intro s2 hG2 hn2 ⟨seg2, hl2, hs2⟩
      obtain ⟨h1, h2, ⟨seg3, hl3, hs3⟩, h4⟩ := ih s2 hG2
      refine ⟨h1, by rw [h2, hn2], ⟨seg3 ++ seg2, by rw [hl3, hl2, List.append_assoc], ?_⟩, h4⟩
      exact seg_append (hn2 ▸ hs3) hs2
    simp only [settle]
    split
    · -- timer fires
      apply cont
      · exact good_step cfg hG1 .timerFire
      · simp only [stepEv]; split <;> rfl
      · refine ⟨fs, ?_, hseg1⟩
        simp only [stepEv]; split <;> exact hfl
    · split
      · apply cont
        · exact good_step cfg hG1 .wake
        · simp only [stepEv]; split <;> rfl
        · refine ⟨fs, ?_, hseg1⟩
          simp only [stepEv]; split <;> exact hfl
      · split
        · obtain ⟨hin, segi, hli, hsi⟩ := iter_seg cfg (finishFree blocked s)
          have hGi : Good cfg (iter true cfg (finishFree blocked s)) := good_step cfg hG1 .iter
          split
          · -- spinning
            refine ⟨hGi, by rw [hin, hnow1], ⟨segi ++ fs, by rw [hli, hfl, List.append_assoc], seg_append hsi hseg1⟩, ?_⟩
            intro h; cases h
          · apply cont
            · exact hGi
            · rw [hin, hnow1]
            · exact ⟨segi ++ fs, by rw [hli, hfl, List.append_assoc], seg_append hsi hseg1⟩
        · next hne hni hnl =>
          refine ⟨hG1, rfl, ⟨fs, hfl, hseg1⟩, ?_⟩
          intro _
          have hmode : (finishFree blocked s).mode = .idle := by
            cases hm : (finishFree blocked s).mode with
            | idle => rfl
            | looping => exact absurd hm hnl
          refine ⟨hmode, ?_, by simpa using hne, ?_⟩
          · cases ht : (finishFree blocked s).tick with
            | false => rfl
            | true => exact absurd ⟨hmode, ht⟩ hni
          · intro hb; subst hb; exact finishFree_blocked_nil s

end Influx.Lemmas.Sched
