/-
  Lemmas.TsmSpecContent — the checker's reconstruction of the written content
  (`mkContent`: place, group by key, sort by min time) applied to the flat list of writes
  of a well-formed `kbs` is `kbs` laid out from position 5, and passes the domain test.
-/
import Influx.Lemmas.TsmSpecFile

namespace Influx.Tsm
open Influx.Spec.C08

def toWrite (p : Key × Blk) : Write := ⟨p.1, p.2.minT, p.2.maxT, p.2.data, none⟩

def sblocks (pos : Nat) : List Blk → List SBlock
  | [] => []
  | b :: bs => ⟨b.minT, b.maxT, pos, b.data, none⟩ :: sblocks (pos + 4 + b.data.length) bs

def scontentRaw (pos : Nat) : List (Key × List Blk) → List (Key × List SBlock)
  | [] => []
  | (k, bs) :: rest => (k, sblocks pos bs) :: scontentRaw (pos + blocksLen bs) rest

def scontent (pos : Nat) : List (Key × List Blk) → List SKey
  | [] => []
  | (k, bs) :: rest =>
    ⟨k, (bs.head?.bind (·.data.head?)).getD 0, sblocks pos bs⟩ :: scontent (pos + blocksLen bs) rest

theorem place_append (pos : Nat) (a b : List Write) :
    place pos (a ++ b) = place pos a ++ place (pos + (a.map fun w => 4 + w.data.length).sum) b := by
  induction a generalizing pos with
  | nil => simp [place]
  | cons w a ih =>
    simp only [List.cons_append, place, List.map_cons, List.sum_cons, ih]
    have : pos + 4 + w.data.length + (a.map fun w => 4 + w.data.length).sum =
        pos + (4 + w.data.length + (a.map fun w => 4 + w.data.length).sum) := by omega
    rw [this]

theorem place_key (pos : Nat) (k : Key) (bs : List Blk) :
    place pos (bs.map fun b => toWrite (k, b)) = (sblocks pos bs).map fun sb => (k, sb) := by
  induction bs generalizing pos with
  | nil => rfl
  | cons b bs ih =>
    simp only [List.map_cons, place, sblocks]
    rw [← ih]; rfl

theorem sum_key (k : Key) (bs : List Blk) :
    ((bs.map fun b => toWrite (k, b)).map fun w => 4 + w.data.length).sum = blocksLen bs := by
  induction bs with
  | nil => rfl
  | cons b bs ih => simp [blocksLen, toWrite] at ih ⊢; omega

/-- grouping: a run of one key in front of a list whose first key differs -/
theorem groupKeys_run (k : Key) (sbs : List SBlock) (hne : sbs ≠ []) (rest : List (Key × SBlock))
    (hrest : ∀ p, rest.head? = some p → p.1 ≠ k)
    (hhead : ∀ g, (groupKeys rest).head? = some g → ∃ p, rest.head? = some p ∧ p.1 = g.1) :
    groupKeys (sbs.map (fun sb => (k, sb)) ++ rest) = (k, sbs) :: groupKeys rest := by
  induction sbs with
  | nil => exact absurd rfl hne
  | cons sb sbs ih =>
    cases sbs with
    | nil =>
      simp only [List.map_cons, List.map_nil, List.cons_append, List.nil_append, groupKeys]
      cases hg : groupKeys rest with
      | nil => rfl
      | cons g gs =>
        obtain ⟨k', bs'⟩ := g
        obtain ⟨p, hp, hpk⟩ := hhead (k', bs') (by rw [hg]; rfl)
        have : ¬ k = k' := by
          intro e; exact hrest p hp (by rw [hpk]; exact e.symm)
        simp [this]
    | cons sb2 sbs2 =>
      have := ih (by simp)
      simp only [List.map_cons, List.cons_append] at this ⊢
      generalize groupKeys rest = G at this ⊢
      unfold groupKeys
      rw [this]
      simp

theorem groupKeys_head (l : List (Key × SBlock)) :
    ∀ g, (groupKeys l).head? = some g → ∃ p, l.head? = some p ∧ p.1 = g.1 := by
  cases l with
  | nil => intro g h; simp [groupKeys] at h
  | cons p l =>
    obtain ⟨k, b⟩ := p
    intro g h
    simp only [groupKeys] at h
    refine ⟨(k, b), rfl, ?_⟩
    cases hg : groupKeys l with
    | nil => simp [hg] at h; rw [← h]
    | cons g' gs =>
      obtain ⟨k', bs'⟩ := g'
      simp only [hg] at h
      split at h <;> (simp at h; rw [← h])

theorem flatWrites_cons (k : Key) (bs : List Blk) (rest : List (Key × List Blk)) :
    (flatWrites ((k, bs) :: rest)).map toWrite = (bs.map fun b => toWrite (k, b)) ++ (flatWrites rest).map toWrite := by
  simp [flatWrites, List.map_append, Function.comp_def]

theorem place_head_key (pos : Nat) (rest : List (Key × List Blk)) (hne : ∀ kb ∈ rest, kb.2 ≠ []) :
    ∀ p, (place pos ((flatWrites rest).map toWrite)).head? = some p → ∃ kb, rest.head? = some kb ∧ p.1 = kb.1 := by
  cases rest with
  | nil => intro p h; simp [flatWrites, place] at h
  | cons kb rest =>
    obtain ⟨k, bs⟩ := kb
    intro p h
    rw [flatWrites_cons, place_append, place_key] at h
    cases bs with
    | nil => exact absurd rfl (hne (k, []) List.mem_cons_self)
    | cons b bs =>
      simp [sblocks] at h
      exact ⟨(k, b :: bs), rfl, by rw [← h]⟩

/-- **the checker's grouping recovers the keys** -/
theorem group_place (kbs : List (Key × List Blk)) (hne : ∀ kb ∈ kbs, kb.2 ≠ [])
    (hkeys : kbs.Pairwise fun a b => a.1 ≠ b.1) : ∀ pos,
    groupKeys (place pos ((flatWrites kbs).map toWrite)) = scontentRaw pos kbs := by
  induction kbs with
  | nil => intro pos; rfl
  | cons kb rest ih =>
    obtain ⟨k, bs⟩ := kb
    intro pos
    have hk := List.pairwise_cons.mp hkeys
    rw [flatWrites_cons, place_append, place_key, sum_key]
    have hbs : bs ≠ [] := hne (k, bs) List.mem_cons_self
    have hsb : sblocks pos bs ≠ [] := by cases bs <;> simp_all [sblocks]
    rw [groupKeys_run k (sblocks pos bs) hsb _ ?_ (groupKeys_head _)]
    · rw [ih (fun kb h => hne kb (List.mem_cons_of_mem _ h)) hk.2]; rfl
    · intro p hp
      obtain ⟨kb, hkb, hpk⟩ := place_head_key _ rest (fun kb h => hne kb (List.mem_cons_of_mem _ h)) p hp
      rw [hpk]
      exact (hk.1 kb (List.mem_of_mem_head? hkb)).symm

theorem sortByMin_sorted (l : List SBlock) (h : l.Pairwise fun a b => a.minT ≤ b.minT) : sortByMin l = l := by
  have ins : ∀ (acc : List SBlock) (e : SBlock), (∀ x ∈ acc, x.minT ≤ e.minT) → insertByMin e acc = acc ++ [e] := by
    intro acc e hacc
    induction acc with
    | nil => rfl
    | cons x xs ih =>
      have hx := hacc x List.mem_cons_self
      have : ¬ e.minT < x.minT := by omega
      simp only [insertByMin, this, if_false, List.cons_append]
      rw [ih (fun y hy => hacc y (List.mem_cons_of_mem _ hy))]
  have : ∀ (l acc : List SBlock), (acc ++ l).Pairwise (fun a b => a.minT ≤ b.minT) →
      l.foldl (fun acc e => insertByMin e acc) acc = acc ++ l := by
    intro l
    induction l with
    | nil => intro acc _; simp
    | cons e l ih =>
      intro acc hp
      simp only [List.foldl_cons]
      have hacc : ∀ x ∈ acc, x.minT ≤ e.minT := by
        intro x hx
        exact (List.pairwise_append.mp hp).2.2 x hx e List.mem_cons_self
      rw [ins acc e hacc, ih (acc ++ [e]) (by simpa [List.append_assoc] using hp)]
      simp [List.append_assoc]
  simpa [sortByMin] using this l [] (by simpa using h)

theorem sblocks_sorted (pos : Nat) (bs : List Blk) (h : bs.Pairwise fun a b => a.minT ≤ b.minT) :
    (sblocks pos bs).Pairwise fun a b => a.minT ≤ b.minT := by
  induction bs generalizing pos with
  | nil => simp [sblocks]
  | cons b bs ih =>
    have hb := List.pairwise_cons.mp h
    simp only [sblocks]
    apply List.pairwise_cons.mpr
    refine ⟨?_, ih _ hb.2⟩
    have : ∀ (pos : Nat) (l : List Blk), (∀ x ∈ l, b.minT ≤ x.minT) → ∀ e ∈ sblocks pos l, b.minT ≤ e.minT := by
      intro pos l
      induction l generalizing pos with
      | nil => intro _ e he; simp [sblocks] at he
      | cons x l ih2 =>
        intro hl e he
        simp only [sblocks, List.mem_cons] at he
        rcases he with rfl | he
        · exact hl x List.mem_cons_self
        · exact ih2 _ (fun y hy => hl y (List.mem_cons_of_mem _ hy)) e he
    exact this _ bs hb.1

theorem sblocks_head_data (pos : Nat) (bs : List Blk) :
    (sblocks pos bs).head?.bind (·.data.head?) = bs.head?.bind (·.data.head?) := by
  cases bs <;> rfl

/-- **mkContent of the writes = the laid-out content** -/
theorem mkContent_flat (kbs : List (Key × List Blk)) (hne : ∀ kb ∈ kbs, kb.2 ≠ [])
    (hkeys : kbs.Pairwise fun a b => a.1 ≠ b.1)
    (hsorted : ∀ kb ∈ kbs, kb.2.Pairwise fun a b => a.minT ≤ b.minT) :
    mkContent ((flatWrites kbs).map toWrite) = scontent 5 kbs := by
  unfold mkContent
  rw [group_place kbs hne hkeys 5]
  have : ∀ (pos : Nat) (l : List (Key × List Blk)), (∀ kb ∈ l, kb.2.Pairwise fun a b => a.minT ≤ b.minT) →
      (scontentRaw pos l).map (fun (x : Key × List SBlock) =>
        (⟨x.1, (x.2.head?.bind (·.data.head?)).getD 0, sortByMin x.2⟩ : SKey)) = scontent pos l := by
    intro pos l
    induction l generalizing pos with
    | nil => intro _; rfl
    | cons kb l ih =>
      obtain ⟨k, bs⟩ := kb
      intro hs
      simp only [scontentRaw, List.map_cons, scontent]
      rw [ih _ (fun kb h => hs kb (List.mem_cons_of_mem _ h))]
      rw [sortByMin_sorted _ (sblocks_sorted pos bs (hs (k, bs) List.mem_cons_self)), sblocks_head_data]
  exact this 5 kbs hsorted

end Influx.Tsm
