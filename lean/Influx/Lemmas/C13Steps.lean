/-
  Lemmas.C13Steps — `createOne`, `DeleteSeriesID`, `Open` and the index compaction keep the
  partition invariant; what they do to the entries of the segment.
-/
import Influx.Lemmas.C13FindID

namespace Influx.SF
open Part

variable {p : Part} {es : List Entry}

/-- `openSegments`: the next id from the highest id in the segment -/
def nextSeq (pid : Nat) (es : List Entry) : Nat :=
  if SF.maxSeriesID es ≥ pid + 1 then SF.maxSeriesID es + partN else pid + 1

theorem maxSeriesID_snoc (es : List Entry) (e : Entry) :
    SF.maxSeriesID (es ++ [e]) =
      if e.flag = insertFlag ∧ e.id > SF.maxSeriesID es then e.id else SF.maxSeriesID es := by
  simp [SF.maxSeriesID, List.foldl_append]

theorem maxFold_ge (l : List Entry) : ∀ m : Nat,
    m ≤ l.foldl (fun m e => if e.flag = insertFlag ∧ e.id > m then e.id else m) m ∧
    ∀ e ∈ l, e.flag = insertFlag → e.id ≤ l.foldl (fun m e => if e.flag = insertFlag ∧ e.id > m then e.id else m) m := by
  induction l with
  | nil => intro m; exact ⟨Nat.le_refl _, fun e he => by cases he⟩
  | cons x xs ih =>
    intro m
    simp only [List.foldl_cons]
    obtain ⟨h1, h2⟩ := ih (if x.flag = insertFlag ∧ x.id > m then x.id else m)
    refine ⟨?_, ?_⟩
    · refine Nat.le_trans ?_ h1
      split <;> omega
    · intro e he hf
      rcases List.mem_cons.mp he with rfl | he
      · refine Nat.le_trans ?_ h1
        split
        · omega
        · next hn => simp [hf] at hn; omega
      · exact h2 e he hf

theorem maxSeriesID_ge (es : List Entry) : ∀ e ∈ es, e.flag = insertFlag → e.id ≤ SF.maxSeriesID es :=
  (maxFold_ge es 0).2

/-- the bound never exceeds the segment: it is 0 or the offset of an entry -/
structure PInv2 (p : Part) (es : List Entry) : Prop extends PInv p es where
  seqEq : p.seq = nextSeq p.pid es
  boundLt : p.bound < p.file.length

theorem base_of_file (p : Part) (f : Bytes) : ({ p with file := f } : Part).base = { p.base with file := f } := rfl
theorem bound_of_file (p : Part) (f : Bytes) : ({ p with file := f } : Part).bound = p.bound := rfl

/-- `execEntry` looks at the in-memory maps only -/
theorem execEntry_congr (a b : Part) (e : Entry) (h1 : a.memKeyID = b.memKeyID)
    (h2 : a.memIDOff = b.memIDOff) (h3 : a.tomb = b.tomb) (h4 : a.maxOffset = b.maxOffset) :
    (a.execEntry e).memKeyID = (b.execEntry e).memKeyID ∧
    (a.execEntry e).memIDOff = (b.execEntry e).memIDOff ∧
    (a.execEntry e).tomb = (b.execEntry e).tomb ∧
    (a.execEntry e).maxOffset = (b.execEntry e).maxOffset := by
  unfold Part.execEntry
  split <;> simp [h1, h2, h3, h4]

theorem filter_snoc_gt (es : List Entry) (e : Entry) (B : Nat) (h : e.off > B) :
    (es ++ [e]).filter (fun x => x.off > B) = es.filter (fun x => x.off > B) ++ [e] := by
  simp [List.filter_append, h]

theorem tombed_snoc (es : List Entry) (e : Entry) (id : Nat) :
    Tombed (es ++ [e]) id ↔ Tombed es id ∨ (e.flag ≠ insertFlag ∧ e.id = id) := by
  unfold Tombed
  constructor
  · rintro ⟨t, ht, hf, hid⟩
    rcases List.mem_append.mp ht with h | h
    · exact Or.inl ⟨t, h, hf, hid⟩
    · have : t = e := by simpa using h
      subst this; exact Or.inr ⟨hf, hid⟩
  · rintro (⟨t, ht, hf, hid⟩ | ⟨hf, hid⟩)
    · exact ⟨t, by simp [ht], hf, hid⟩
    · exact ⟨e, by simp, hf, hid⟩

theorem DiskOK.snoc {d : IndexFile} (h : DiskOK d es) (e : Entry) (hoff : d.maxOffset < e.off) :
    DiskOK d (es ++ [e]) := by
  refine ⟨?_, ?_, ?_, h.d4⟩
  · intro x hx
    obtain ⟨e', he', r⟩ := h.d1 x hx
    exact ⟨e', by simp [he'], r⟩
  · intro e' he' hf hle
    rcases List.mem_append.mp he' with h1 | h1
    · rcases h.d2 e' h1 hf hle with h2 | h2
      · exact Or.inl h2
      · exact Or.inr ((tombed_snoc es e e'.id).mpr (Or.inl h2))
    · have : e' = e := by simpa using h1
      subst this; omega
  · intro x hx t ht hf hid
    rcases List.mem_append.mp ht with h1 | h1
    · exact h.d3 x hx t h1 hf hid
    · have : t = e := by simpa using h1
      subst this; exact hoff

/-- appending one well-formed entry behind the bound and applying it to the index -/
theorem PInv.snoc (h : PInv p es) (e : Entry) (q : Part)
    (hwf : e.wf) (hoff : e.off = p.file.length) (hb : p.bound < e.off)
    (hfile : q.file = p.file ++ e.bytes) (hidx : q.idxFile = p.idxFile) (hpid : q.pid = p.pid)
    (hm1 : q.memKeyID = (p.execEntry e).memKeyID) (hm2 : q.memIDOff = (p.execEntry e).memIDOff)
    (hm3 : q.tomb = (p.execEntry e).tomb) (hm4 : q.maxOffset = (p.execEntry e).maxOffset)
    (hidPos : ∀ x ∈ es ++ [e], x.flag = insertFlag → 0 < x.id ∧ x.id < q.seq ∧ x.id % partN = (q.pid + 1) % partN)
    (hidInc : ∀ x ∈ es, x.flag = insertFlag → e.flag = insertFlag → x.id < e.id)
    (hseqMod : q.seq % partN = (q.pid + 1) % partN)
    (hkeys : ∀ x ∈ es, x.flag = insertFlag → e.flag = insertFlag → x.key = e.key → Tombed es x.id)
    (htomb : e.flag ≠ insertFlag → ∃ x ∈ es, x.flag = insertFlag ∧ x.id = e.id) :
    PInv q (es ++ [e]) := by
  have hlen : p.file.length = hdrSize + (ser es).length := by rw [h.file, fileOf_length]
  have hchain : Chain hdrSize (es ++ [e]) := Chain.snoc _ _ _ h.chain hwf (by rw [hoff, hlen])
  have hoffinc := Chain.off_inc _ _ hchain
  have hlt : ∀ x ∈ es, x.off < e.off := by
    intro x hx
    have := (List.pairwise_append.mp hoffinc).2.2 x hx e (by simp)
    exact this
  have hqb : q.bound = p.bound := by simp [Part.bound, hidx]
  have hqbase : q.base.memKeyID = p.base.memKeyID ∧ q.base.memIDOff = p.base.memIDOff ∧
      q.base.tomb = p.base.tomb ∧ q.base.maxOffset = p.base.maxOffset := by
    simp [Part.base, hidx]
  have hreplay : ∀ (a b : Part) (l : List Entry), a.memKeyID = b.memKeyID → a.memIDOff = b.memIDOff →
      a.tomb = b.tomb → a.maxOffset = b.maxOffset →
      (replay a l).memKeyID = (replay b l).memKeyID ∧ (replay a l).memIDOff = (replay b l).memIDOff ∧
      (replay a l).tomb = (replay b l).tomb ∧ (replay a l).maxOffset = (replay b l).maxOffset := by
    intro a b l
    induction l generalizing a b with
    | nil => intro h1 h2 h3 h4; exact ⟨h1, h2, h3, h4⟩
    | cons x l ih =>
      intro h1 h2 h3 h4
      obtain ⟨g1, g2, g3, g4⟩ := execEntry_congr a b x h1 h2 h3 h4
      exact ih _ _ g1 g2 g3 g4
  -- the replay of the longer list is the replay of the old one followed by the new entry
  have hfil := filter_snoc_gt es e p.bound hb
  obtain ⟨r1, r2, r3, r4⟩ := hreplay q.base p.base (es.filter (fun x => x.off > p.bound))
    hqbase.1 hqbase.2.1 hqbase.2.2.1 hqbase.2.2.2
  obtain ⟨s1, s2, s3, s4⟩ := execEntry_congr (replay q.base (es.filter (fun x => x.off > p.bound)))
    p e (by rw [r1, ← h.memKeyID]) (by rw [r2, ← h.memIDOff]) (by rw [r3, ← h.tomb]) (by rw [r4, ← h.maxOffset])
  refine ⟨?_, hchain, hidPos, ?_, hseqMod, ?_, ?_, ?_, ?_, ?_, ?_, ?_⟩
  · rw [hfile, h.file, fileOf_snoc]
  · refine List.pairwise_append.mpr ⟨h.idInc, by simp, ?_⟩
    intro x hx y hy
    have : y = e := by simpa using hy
    subst this
    exact hidInc x hx
  · refine List.pairwise_append.mpr ⟨?_, by simp, ?_⟩
    · exact h.keys.imp (fun {a b} hab ha hb hk => by
        obtain ⟨t, ht, r⟩ := hab ha hb hk
        exact ⟨t, by simp [ht], r⟩)
    · intro x hx y hy
      have : y = e := by simpa using hy
      subst this
      intro hfx hfe hk
      obtain ⟨t, ht, hf, hid⟩ := hkeys x hx hfx hfe hk
      exact ⟨t, by simp [ht], hf, hid, hlt t ht⟩
  · intro t ht hf
    rcases List.mem_append.mp ht with h1 | h1
    · obtain ⟨x, hx, r⟩ := h.tombAfter t h1 hf
      exact ⟨x, by simp [hx], r⟩
    · have : t = e := by simpa using h1
      subst this
      obtain ⟨x, hx, hfx, hid⟩ := htomb hf
      exact ⟨x, by simp [hx], hfx, hid, hlt x hx⟩
  · rw [hqb, hfil, replay_append, replay_cons, replay_nil, s1, hm1]
  · rw [hqb, hfil, replay_append, replay_cons, replay_nil, s2, hm2]
  · rw [hqb, hfil, replay_append, replay_cons, replay_nil, s3, hm3]
  · rw [hqb, hfil, replay_append, replay_cons, replay_nil, s4, hm4]
  · intro d hd
    rw [hidx] at hd
    have : d.maxOffset = p.bound := by simp [Part.bound, hd]
    exact (h.disk d hd).snoc e (by omega)

end Influx.SF
