/-
  Lemmas.WindowAggFold — chunking / block independence of the five accumulating window
  cursors (`Fold.next`): draining the cursor yields, concatenated, exactly the
  one-pass sequential semantics `seqAll` of the concatenated input, for every way
  the input is cut into arrays and every block size `B ≥ 1`.
-/
import Influx.Model.WindowAgg

namespace Influx.WindowAgg.Fold
variable {α γ : Type}

/-- one pass over the points, no arrays, no blocks: the running accumulator and `windowEnd` -/
def seq1 (F : Folder α γ) (w : Win) : List (Pt α) → Option γ → Int → List (Pt α)
  | [], acc, we => flush F acc we
  | p :: ps, acc, we =>
    if w.newWindow p.1 we then flush F acc we ++ seq1 F w ps (some (F.add1 none p)) (w.stop p.1)
    else seq1 F w ps (some (F.add1 acc p)) we

/-- the whole output for the points `pts` -/
def seqAll (F : Folder α γ) (w : Win) : List (Pt α) → List (Pt α)
  | [] => []
  | p :: ps => seq1 F w (p :: ps) none (w.stop p.1)

theorem seqAll_cons (F : Folder α γ) (w : Win) (p : Pt α) (l : List (Pt α)) :
    seqAll F w (p :: l) = seq1 F w l (some (F.add1 none p)) (w.stop p.1) := by
  simp only [seqAll, seq1, flush]
  split <;> simp

/-- what one scan of an array does, in terms of the sequential semantics -/
theorem scan_spec (B : Nat) (F : Folder α γ) (w : Win) (rest : List (Pt α)) :
    ∀ (a : List (Pt α)) (acc : Option γ) (we : Int) (out : List (Pt α)),
    match scan B F w a acc we out with
    | .more acc' we' o =>
        out ++ seq1 F w (a ++ rest) acc we = o ++ seq1 F w rest acc' we' ∧
        (a ≠ [] → acc'.isSome) ∧ (a = [] → acc' = acc)
    | .full o r =>
        out ++ seq1 F w (a ++ rest) acc we = o ++ seqAll F w (r ++ rest) ∧
        B ≤ o.length ∧ r ≠ [] ∧ r.length ≤ a.length ∧ (acc = none → r.length < a.length) := by
  intro a
  induction a with
  | nil => intro acc we out; simp [scan]
  | cons p ps ih =>
    intro acc we out
    unfold scan
    by_cases hn : w.newWindow p.1 we = true
    · simp only [hn, ↓reduceIte]
      cases acc with
      | none =>
        have := ih (some (F.add1 none p)) (w.stop p.1) out
        simp only
        split at this
        · next acc' we' o heq =>
          simp only [List.cons_append, seq1, hn, ↓reduceIte, flush, List.nil_append]
          refine ⟨this.1, ?_, ?_⟩
          · intro _
            by_cases hps : ps = []
            · have := this.2.2 hps; simp [this]
            · exact this.2.1 hps
          · intro h; simp at h
        · next o r heq =>
          simp only [List.cons_append, seq1, hn, ↓reduceIte, flush, List.nil_append]
          refine ⟨this.1, this.2.1, this.2.2.1, ?_, ?_⟩
          · have := this.2.2.2.1; simp only [List.length_cons]; omega
          · intro _; have := this.2.2.2.1; simp only [List.length_cons]; omega
      | some g =>
        simp only
        by_cases hfull : (out ++ [F.fin we g]).length ≥ B
        · rw [if_pos hfull]
          refine ⟨?_, hfull, by simp, by simp, by simp⟩
          simp only [List.cons_append, seq1, hn, ↓reduceIte, flush, seqAll_cons, List.append_assoc]
        · rw [if_neg hfull]
          have := ih (some (F.add1 none p)) (w.stop p.1) (out ++ [F.fin we g])
          split at this
          · next acc' we' o heq =>
            simp only [List.cons_append, seq1, hn, ↓reduceIte, flush]
            refine ⟨by simpa [List.append_assoc] using this.1, ?_, ?_⟩
            · intro _
              by_cases hps : ps = []
              · have := this.2.2 hps; simp [this]
              · exact this.2.1 hps
            · intro h; simp at h
          · next o r heq =>
            simp only [List.cons_append, seq1, hn, ↓reduceIte, flush]
            refine ⟨by simpa [List.append_assoc] using this.1, this.2.1, this.2.2.1, ?_, ?_⟩
            · have := this.2.2.2.1; simp only [List.length_cons]; omega
            · intro h; simp at h
    · simp only [hn, Bool.false_eq_true, ↓reduceIte]
      have := ih (some (F.add1 acc p)) we out
      split at this
      · next acc' we' o heq =>
        simp only [List.cons_append, seq1, hn, Bool.false_eq_true, ↓reduceIte]
        refine ⟨this.1, ?_, ?_⟩
        · intro _
          by_cases hps : ps = []
          · have := this.2.2 hps; simp [this]
          · exact this.2.1 hps
        · intro h; simp at h
      · next o r heq =>
        simp only [List.cons_append, seq1, hn, Bool.false_eq_true, ↓reduceIte]
        refine ⟨this.1, this.2.1, this.2.2.1, ?_, ?_⟩
        · have := this.2.2.2.1; simp only [List.length_cons]; omega
        · intro _; have := this.2.2.2.1; simp only [List.length_cons]; omega


/-- all arrays the input cursor will return are non-empty (the cursor contract: an empty
    array means "exhausted") -/
def NonEmptyChunks (inp : List (List (Pt α))) : Prop := ∀ c ∈ inp, c ≠ []

/-- the `WINDOWS` loop from one array on -/
theorem run_spec (B : Nat) (F : Folder α γ) (w : Win) :
    ∀ (inp : List (List (Pt α))) (a : List (Pt α)) (acc : Option γ) (we : Int) (out : List (Pt α)),
    NonEmptyChunks inp →
    out ++ seq1 F w (a ++ inp.flatten) acc we
        = (run B F w a inp acc we out).2 ++ seqAll F w (run B F w a inp acc we out).1.rest ∧
    ((run B F w a inp acc we out).1.rest = [] ∨ B ≤ (run B F w a inp acc we out).2.length) ∧
    (run B F w a inp acc we out).1.rest.length ≤ (a ++ inp.flatten).length ∧
    (acc = none → a ≠ [] → (run B F w a inp acc we out).1.rest.length < (a ++ inp.flatten).length) ∧
    NonEmptyChunks (run B F w a inp acc we out).1.inp := by
  intro inp
  induction inp with
  | nil =>
    intro a acc we out _
    have hs := scan_spec B F w [] a acc we out
    unfold run
    split at hs
    · next acc' we' o heq =>
      simp only [heq, St.rest, List.flatten_nil, List.append_nil, seqAll, List.length_nil, Nat.zero_le, true_and]
      refine ⟨by simpa [seq1] using hs.1, by simp, ?_, by intro c hc; cases hc⟩
      intro _ ha
      cases a with
      | nil => exact absurd rfl ha
      | cons => simp
    · next o r heq =>
      simp only [heq, St.rest, List.flatten_nil, List.append_nil]
      refine ⟨by simpa using hs.1, Or.inr hs.2.1, hs.2.2.2.1, fun h _ => hs.2.2.2.2 h, by intro c hc; cases hc⟩
  | cons c cs ih =>
    intro a acc we out hne
    have hc : c ≠ [] := hne c (by simp)
    have hcs : NonEmptyChunks cs := fun x hx => hne x (by simp [hx])
    have hs := scan_spec B F w (c ++ cs.flatten) a acc we out
    unfold run
    split at hs
    · next acc' we' o heq =>
      have hce : c.isEmpty = false := by cases c with | nil => exact absurd rfl hc | cons => rfl
      simp only [heq, hce, Bool.false_eq_true, ↓reduceIte, List.flatten_cons]
      have ih' := ih c acc' we' o hcs
      refine ⟨by rw [hs.1]; exact ih'.1, ih'.2.1, ?_, ?_, ih'.2.2.2.2⟩
      · have := ih'.2.2.1; simp only [List.length_append] at this ⊢; omega
      · intro hacc ha
        have h1 := ih'.2.2.1
        have hal : 0 < a.length := by cases a with | nil => exact absurd rfl ha | cons => simp
        simp only [List.length_append] at h1 ⊢; omega
    · next o r heq =>
      simp only [heq, St.rest, List.flatten_cons]
      refine ⟨hs.1, Or.inr hs.2.1, ?_, ?_, hne⟩
      · have := hs.2.2.2.1; simp only [List.length_append]; omega
      · intro h _; have := hs.2.2.2.2 h; simp only [List.length_append]; omega

/-- one `Next()` call -/
theorem next_spec (B : Nat) (F : Folder α γ) (w : Win) (s : St α) (hne : NonEmptyChunks s.inp) :
    seqAll F w s.rest = (next B F w s).2 ++ seqAll F w (next B F w s).1.rest ∧
    ((next B F w s).1.rest = [] ∨ B ≤ (next B F w s).2.length) ∧
    (s.rest ≠ [] → (next B F w s).1.rest.length < s.rest.length) ∧
    (s.rest = [] → (next B F w s).1.rest = [] ∧ (next B F w s).2 = []) ∧
    NonEmptyChunks (next B F w s).1.inp := by
  obtain ⟨tmp, inp⟩ := s
  unfold next
  cases tmp with
  | nil =>
    cases inp with
    | nil => simp [pop, St.rest, seqAll, NonEmptyChunks]
    | cons c cs =>
      have hc : c ≠ [] := hne c (by simp)
      have hcs : NonEmptyChunks cs := fun x hx => hne x (by simp [hx])
      cases c with
      | nil => exact absurd rfl hc
      | cons p ps =>
        have hr := run_spec B F w cs (p :: ps) none (w.stop p.1) [] hcs
        simp only [List.isEmpty_nil, ↓reduceIte, pop]
        refine ⟨?_, hr.2.1, ?_, ?_, hr.2.2.2.2⟩
        · have := hr.1; rw [List.nil_append] at this; exact this
        · intro _; exact hr.2.2.2.1 rfl (by simp)
        · intro h; simp [St.rest] at h
  | cons p ps =>
    have hr := run_spec B F w inp (p :: ps) none (w.stop p.1) [] hne
    simp only [List.isEmpty_cons, Bool.false_eq_true, ↓reduceIte]
    refine ⟨?_, hr.2.1, ?_, ?_, hr.2.2.2.2⟩
    · have := hr.1; rw [List.nil_append] at this; exact this
    · intro _; exact hr.2.2.2.1 rfl (by simp)
    · intro h; simp [St.rest] at h

/-- **Chunking / block independence.**  Calling `Next()` until an empty array comes back
    returns, concatenated, the sequential semantics of all points still to come. -/
theorem drain_spec (B : Nat) (hB : 1 ≤ B) (F : Folder α γ) (w : Win) :
    ∀ (fuel : Nat) (s : St α), NonEmptyChunks s.inp → s.rest.length < fuel →
    ∃ arrs, drain (fun s => some (next B F w s)) fuel s = some arrs ∧
      arrs.flatten = seqAll F w s.rest ∧ (∀ a ∈ arrs, a ≠ []) := by
  intro fuel
  induction fuel with
  | zero => intro s _ h; omega
  | succ n ih =>
    intro s hne hlen
    have hn := next_spec B F w s hne
    simp only [drain]
    by_cases ho : (next B F w s).2.isEmpty = true
    · simp only [ho, ↓reduceIte]
      refine ⟨[], rfl, ?_, by simp⟩
      have ho' : (next B F w s).2 = [] := List.isEmpty_iff.mp ho
      rcases hn.2.1 with h | h
      · rw [hn.1, ho', h]; simp [seqAll]
      · rw [ho'] at h; simp at h; omega
    · simp only [ho, Bool.false_eq_true, ↓reduceIte]
      have hrest : s.rest ≠ [] := by
        intro h; have := (hn.2.2.2.1 h).2; simp [this] at ho
      have hlt := hn.2.2.1 hrest
      obtain ⟨arrs, h1, h2, h3⟩ := ih (next B F w s).1 hn.2.2.2.2 (by omega)
      refine ⟨(next B F w s).2 :: arrs, by simp [h1], ?_, ?_⟩
      · rw [List.flatten_cons, h2, ← hn.1]
      · intro a ha
        rcases List.mem_cons.mp ha with rfl | ha
        · intro h; simp [h] at ho
        · exact h3 a ha

end Influx.WindowAgg.Fold
