/-
  Lemmas.FieldC10 — the statement checker's predicates on field sets that record
  the same types; invariant of the persistent model state.
-/
import Influx.Lemmas.FieldOpen
import Influx.Lemmas.FieldVerdicts
import Influx.Lemmas.FieldC40

namespace Influx.Fields
open Influx.Spec.C10

theorem functional_of_nd (s : Schema) (h : ND s) : functional s = true := by
  simpa [functional, ND] using h

theorem subSchema_of (a b : Schema) (ha : ND a) (h : ∀ k t, a.lookup k = some t → b.lookup k = some t) :
    subSchema a b = true := by
  unfold subSchema
  rw [List.all_eq_true]
  intro e he
  rw [h e.1 e.2 (mem_lookup_of_nodup a ha e he)]; simp

theorem subSchema_elim (a b : Schema) (h : subSchema a b = true) (e : FKey × FType) (he : e ∈ a) :
    b.lookup e.1 = some e.2 := by
  unfold subSchema at h
  rw [List.all_eq_true] at h
  simpa using h e he

theorem sameSchema_of_seq (a b : Schema) (ha : ND a) (hb : ND b) (h : SEq a b) : sameSchema a b = true := by
  unfold sameSchema
  rw [subSchema_of a b ha (fun k t hk => by rw [← h k]; exact hk),
      subSchema_of b a hb (fun k t hk => by rw [h k]; exact hk)]
  rfl

theorem typedBy_of_typed (s : Schema) (d : Store) (h : Typed s d) : typedBy s d = true := by
  unfold typedBy
  rw [List.all_eq_true]
  intro e he
  rw [h e he]; simp

theorem typed_congr {a b : Schema} (h : SEq a b) (d : Store) (ht : Typed a d) : Typed b d :=
  fun e he => by rw [← h]; exact ht e he

theorem sameStore_self (d : Store) (hn : (d.map (·.1)).Nodup) : sameStore d d = true := by
  have : d.all (fun e => d.lookup e.1 == some e.2) = true := by
    rw [List.all_eq_true]; intro e he
    rw [mem_lookup_of_nodup d hn e he]; simp
  simp [sameStore, this]

theorem hasMeas_false_iff (s : Schema) (m : String) :
    hasMeas s m = false ↔ ∀ e ∈ s, e.1.1 ≠ m := by
  unfold hasMeas
  rw [List.any_eq_false]
  constructor
  · intro h e he; simpa using h e he
  · intro h e he; simpa using h e he

theorem hasMeas_false_of_lookup (s : Schema) (hs : ND s) (m : String)
    (h : ∀ k t, s.lookup k = some t → k.1 ≠ m) : hasMeas s m = false := by
  rw [hasMeas_false_iff]
  intro e he
  exact h e.1 e.2 (mem_lookup_of_nodup s hs e he)

theorem lookup_of_hasMeas_false (s : Schema) (m : String) (h : hasMeas s m = false) (k : FKey) (t : FType)
    (hk : s.lookup k = some t) : k.1 ≠ m := by
  rw [hasMeas_false_iff] at h
  exact h (k, t) (mem_of_lookup s k t hk)

/-- with every stored value on record, a read returns all of the data -/
theorem visible_typed (mem : Schema) (d : Store) (h : Typed mem d) : visible mem d = some d := by
  unfold visible
  have h1 : d.any (mistyped mem) = false := by
    rw [List.any_eq_false]
    intro e he
    unfold mistyped
    rw [h e he]; simp
  rw [h1]
  simp only [Bool.false_eq_true, if_false, Option.some.injEq]
  rw [List.filter_eq_self]
  intro e he
  rw [h e he]; rfl

/-- invariant of the persistent model state -/
structure PInv (st : PState) : Prop where
  ndMem : ND st.mem
  ndIdx : ND (st.idx.getD [])
  ndData : (st.data.map (·.1)).Nodup
  typed : Typed st.mem st.data
  /-- the files always reconstruct the in-memory field set -/
  disk : SEq (replay (st.idx.getD []) (st.log.getD []).flatten) st.mem
  /-- every measurement that has stored values has a series in the index -/
  seriesOK : ∀ e ∈ st.data, st.series.contains e.1.1 = true

theorem pinv_init : PInv {} := by
  refine ⟨?_, ?_, ?_, ?_, ?_, ?_⟩
  · show ([] : List FKey).Nodup; exact List.nodup_nil
  · show ([] : List FKey).Nodup; exact List.nodup_nil
  · show ([] : List EKey).Nodup; exact List.nodup_nil
  · intro e he; cases he
  · intro k; rfl
  · intro e he; cases he

theorem seen_eq (st : PState) (h : PInv st) : seen st = { sch := st.mem, store := some st.data } := by
  unfold seen; rw [visible_typed _ _ h.typed]

/-- opening any crash state whose files reconstruct `target` -/
theorem reopen_inv (stc : PState) (n : Nat) (target : Schema)
    (hIdx : ND (stc.idx.getD [])) (hData : (stc.data.map (·.1)).Nodup)
    (hSer : ∀ e ∈ stc.data, stc.series.contains e.1.1 = true)
    (hseq : SEq (replay (stc.idx.getD []) (cutLog (stc.log.getD []) n).flatten) target)
    (hT : Typed target stc.data) :
    ∃ st', openFields stc n = some st' ∧ PInv st' ∧ SEq st'.mem target ∧ st'.data = stc.data := by
  obtain ⟨st', h0, h1, h2, h3, h4, h5⟩ := openFields_spec stc n (typed_congr hseq.symm _ hT)
  have hnd : ND st'.mem := by rw [h1]; exact nd_replay _ _ hIdx
  refine ⟨st', h0, ⟨hnd, by rw [h4]; exact hnd, by rw [h2]; exact hData, ?_, ?_, ?_⟩, by rw [h1]; exact hseq, h2⟩
  · rw [h2]; exact typed_congr (by rw [h1]; exact hseq.symm) _ hT
  · rw [h4, h5]; exact SEq.refl _
  · rw [h2, h3]; exact hSer

end Influx.Fields
