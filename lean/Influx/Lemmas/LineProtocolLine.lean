/-
  Pieces of the line round trip that are about the whole line: line splitting, the space
  separated sections, the timestamp.
-/
import Influx.Lemmas.LineProtocolKey2

namespace Influx.LP
open Influx.Generated.LineProto Influx.Spec.C11

attribute [local simp] cBS_val cComma_val cSpace_val cEq_val cQuote_val cNL_val

/-! ### a buffer without newline is one line -/

theorem consHead_singleton (b : Nat) (l : Bytes) : consHead b [l] = [b :: l] := rfl

theorem step_none (st : LineSt) (b : Nat) (h : st.step b = none) : b = cNL := by
  unfold LineSt.step at h
  simp only [] at h
  repeat' split at h
  all_goals first | (rename_i hh; exact hh.1) | cases h

theorem step_isSome (st : LineSt) (b : Nat) (h : b ≠ cNL) : ∃ s', st.step b = some s' := by
  cases hs : st.step b with
  | none => exact absurd (step_none st b hs) h
  | some s' => exact ⟨s', rfl⟩

theorem splitLines_no_nl (buf : Bytes) (h : cNL ∉ buf) (skip : Bool) (st : LineSt) :
    splitLines skip st buf = [buf] := by
  induction buf generalizing skip st with
  | nil => cases skip <;> rfl
  | cons b rest ih =>
    simp only [List.mem_cons, not_or] at h
    cases skip with
    | true => rw [splitLines, ih h.2, consHead_singleton]
    | false =>
      rw [splitLines]
      split
      · rw [ih h.2, consHead_singleton]
      · obtain ⟨s', hs'⟩ := step_isSome st b (fun e => h.1 e.symm)
        rw [hs']
        simp only
        rw [ih h.2, consHead_singleton]

theorem skipWhitespace_id (b : Nat) (l : Bytes) (h : isWs b = false) : skipWhitespace (b :: l) = b :: l := by
  simp [skipWhitespace, h]

theorem lineOfBlock_id (b : Nat) (l : Bytes) (hws : isWs b = false) (hc : b ≠ 35) (hnl : cNL ∉ b :: l) :
    lineOfBlock (b :: l) = some (b :: l) := by
  unfold lineOfBlock
  rw [skipWhitespace_id b l hws]
  simp only [hc, if_false]
  have : (b :: l).getLast? ≠ some cNL := by
    intro e; exact hnl (List.mem_of_getLast? e)
  rw [if_neg this]

/-! ### membership in escaped text -/

theorem mem_escBy (S : Nat → Bool) (s : Bytes) (x : Nat) (h : x ∈ escBy S s) : x = cBS ∨ x ∈ s := by
  induction s with
  | nil => simp at h
  | cons b r ih =>
    simp only [escBy_cons] at h
    split at h
    · simp only [List.mem_cons] at h
      rcases h with h | h | h
      · left; exact h
      · right; simp [h]
      · rcases ih h with h | h
        · left; exact h
        · right; simp [h]
    · simp only [List.mem_cons] at h
      rcases h with h | h
      · right; simp [h]
      · rcases ih h with h | h
        · left; exact h
        · right; simp [h]

theorem length_escBy (S : Nat → Bool) (s : Bytes) : (escBy S s).length = s.length + (s.filter S).length := by
  induction s with
  | nil => rfl
  | cons b r ih =>
    simp only [escBy_cons, List.filter_cons]
    split <;> simp [ih] <;> omega

theorem escBy_head_ws (S : Nat → Bool) (s : Bytes) (hS : S cSpace = true)
    (h : s.head? ≠ some 9 ∧ s.head? ≠ some 0) (hne : s ≠ []) :
    ∃ c t, escBy S s = c :: t ∧ isWs c = false := by
  cases s with
  | nil => exact absurd rfl hne
  | cons b r =>
    simp only [escBy_cons]
    by_cases hb : S b = true
    · exact ⟨cBS, _, by rw [if_pos hb], by decide⟩
    · refine ⟨b, _, by rw [if_neg hb], ?_⟩
      have h1 : b ≠ 9 := by intro e; exact h.1 (by simp [e])
      have h2 : b ≠ 0 := by intro e; exact h.2 (by simp [e])
      have h3 : b ≠ 32 := by intro e; subst e; exact hb hS
      simp [isWs, h1, h2, h3]

/-! ### the timestamp section -/

theorem scanTimeAux_digits (ds : Bytes) (hd : ∀ b ∈ ds, isDigit b = true) (a : Bool) :
    scanTimeAux a ds = .ok (ds, []) := by
  induction ds generalizing a with
  | nil => rfl
  | cons d r ih =>
    have hdig := hd d (by simp)
    obtain ⟨h45, _, _, _, _, _, _, h32, _, _, _, _, h10, _⟩ := isDigit_ne d hdig
    have hr : ¬ (d < 48 ∨ d > 57) := by simp [isDigit] at hdig; omega
    rw [scanTimeAux]
    simp only [show ¬ (d = cNL ∨ d = cSpace) from by simp [h10, h32], if_false,
      show ¬ (a = true ∧ d = 45) from fun h => h45 h.2, hr]
    rw [ih (fun b hb => hd b (by simp [hb])) false]
    rfl

theorem scanTime_intDigits (q : Int) : scanTime (cSpace :: intDigits q) = .ok (intDigits q, []) := by
  unfold scanTime
  obtain ⟨c, t, hc, hg⟩ := intDigits_head q
  have hws : isWs c = false := by
    rcases hg with h | h
    · have := isDigit_ne c h; simp [isWs, this.2.2.2.2.2.2.2.1, this.2.2.2.2.2.2.2.2.2.2.2.2.2.1, this.2.2.2.2.2.2.2.2.2.2.2.2.2.2]
    · subst h; decide
  have h1 : skipWhitespace (cSpace :: intDigits q) = intDigits q := by
    rw [skipWhitespace]
    simp only [show isWs cSpace = true from by decide, if_true]
    rw [hc, skipWhitespace_id c t hws]
  rw [h1]
  unfold intDigits
  split
  · rw [scanTimeAux]
    simp only [show ¬ ((45:Nat) = cNL ∨ (45:Nat) = cSpace) from by simp, if_false, true_and, if_true]
    rw [scanTimeAux_digits _ (natDigits_spec _).2.1]
    rfl
  · exact scanTimeAux_digits _ (natDigits_spec _).2.1 true

/-- `SafeCalcTime` of the quotient gives the timestamp back when it is a multiple in range -/
theorem safeCalcTime_mul (q m : Int) (prec : String) (hm : precisionMultiplier prec = m)
    (hmpos : m = 1 ∨ m = 1000 ∨ m = 1000000 ∨ m = 1000000000)
    (hlo : MinNanoTime ≤ q * m) (hhi : q * m ≤ MaxNanoTime) : safeCalcTime q prec = .ok (q * m) := by
  unfold safeCalcTime safeSignedMult
  rw [hm]
  simp only [MinNanoTime, MaxNanoTime] at hlo hhi ⊢
  have hw : wrap64 (q * m) = q * m := by unfold wrap64; omega
  by_cases h1 : q = 0 ∨ m = 0 ∨ q = 1 ∨ m = 1
  · simp only [h1, if_true, hw]
    have : ¬ (q * m < -9223372036854775806 ∨ q * m > 9223372036854775806) := by omega
    simp [this]
  · simp only [h1, if_false]
    have hmne : m ≠ 9223372036854775806 := by omega
    have hq : q ≠ -9223372036854775806 := by
      intro e; subst e; rcases hmpos with h | h | h | h <;> subst h <;> omega
    simp only [hq, hmne, or_self, if_false, hw]
    have hdiv : Int.tdiv (q * m) m = q := by
      apply Int.mul_tdiv_cancel; omega
    simp only [hdiv, decide_true]
    have : ¬ (q * m < -9223372036854775806 ∨ q * m > 9223372036854775806) := by omega
    simp [this]

end Influx.LP
