/-
  Lemmas.CacheSim — the invariant tying the cache model to the statement checker's
  abstract cache, and its preservation by every operation.
-/
import Influx.Lemmas.CacheLoops

namespace Influx.Cache
open Influx.Spec.C09

def snapStore (c : Cache) : Store := (c.snapshot.map (·.store)).getD []
def snapSz (c : Cache) : Nat := (c.snapshot.map (·.size)).getD 0

/-- `B` bounds the bytes accounted so far (no uint64 wrap as long as `B < 2^64`) -/
structure Inv (c : Cache) (st : St) (B : Nat) : Prop where
  hot : st.hot = toHeld c.store
  hotOK : StoreOK c.store
  snap : st.snap = toHeld (snapStore c)
  snapOK : StoreOK (snapStore c)
  snapExists : st.snapExists = c.snapshot.isSome
  snapSize : st.snapSize = snapSz c
  ssize : c.snapshotSize = snapSz c
  snapshotting : st.snapshotting = c.snapshotting
  maxSize : st.maxSize = c.maxSize
  /-- `size` = what the hot store holds + a residue that is zero until a read compacts -/
  size : ∃ rh, c.size = acct st.hot + rh ∧ (st.compacted = false → rh = 0)
  ssz : ∃ rs, c.snapshotSize = acct st.snap + rs ∧ (st.compacted = false → rs = 0)
  bound : c.size + c.snapshotSize ≤ B

theorem Inv.init (B : Nat) (m : Nat) : Inv { maxSize := m } { maxSize := m } B :=
  ⟨rfl, StoreOK.nil, rfl, StoreOK.nil, rfl, rfl, rfl, rfl, rfl, ⟨0, rfl, fun _ => rfl⟩, ⟨0, rfl, fun _ => rfl⟩,
    Nat.zero_le _⟩

def opBytes : Op → Nat
  | .write b => batchSize b + keyBytes b
  | _ => 0

def ValidOp : Op → Prop
  | .write b => ValidBatch b
  | _ => True

/-- at most stale-size failures; none at all while nothing has been compacted -/
def FailsOK (st : St) (fs : List Fail) : Prop := fs.all Fail.isStale = true ∧ (st.compacted = false → fs = [])

theorem FailsOK.nil (st : St) : FailsOK st [] := ⟨rfl, fun _ => rfl⟩

theorem sizeFail_ok (st : St) (i observed expected r : Nat) (h : observed = expected + r)
    (hr : st.compacted = false → r = 0) : FailsOK st (sizeFail st i observed expected) := by
  unfold sizeFail
  by_cases h0 : r = 0
  · subst h0; simp [h, FailsOK]
  · have hc : st.compacted = true := by
      cases hcc : st.compacted
      · exact absurd (hr hcc) h0
      · rfl
    have hne : ¬ observed = expected := by omega
    have hgt : observed > expected := by omega
    simp [hne, hc, hgt, FailsOK, Fail.isStale]

/-! ### Values -/

theorem Entry.deduplicate_values (e : Entry) : e.deduplicate.values = dedup e.values := by
  unfold Entry.deduplicate
  split
  · rename_i h
    unfold dedup
    rw [if_pos h]
  · rfl

theorem Entry.deduplicate_ok {e : Entry} (h : EntryOK e) : EntryOK e.deduplicate := by
  have hv := Entry.deduplicate_values e
  have ht : e.deduplicate.vtype = e.vtype := by unfold Entry.deduplicate; split <;> rfl
  refine ⟨by rw [hv]; exact dedup_ne_nil h.ne, by rw [ht]; exact h.ty0, ?_⟩
  intro v hvm
  rw [hv] at hvm
  rw [ht]
  exact h.all v (dedup_subset _ v hvm)

theorem dedup_length_le (a : List Value) : (dedup a).length ≤ a.length := by
  unfold dedup
  split
  · exact Nat.le_refl _
  · split
    · exact Nat.le_refl _
    · exact Nat.le_trans (collapse_sublist _).length_le (Nat.le_of_eq (sortStable_perm a).length_eq)

theorem dedup_size_eq_of_length (a : List Value) (h : ¬ (dedup a).length < a.length) :
    valuesSize (dedup a) = valuesSize a := by
  unfold dedup at h ⊢
  split
  · rfl
  · split
    · rfl
    · rename_i h1 h2
      simp only [h1, h2, if_false, Bool.false_eq_true] at h
      have hl : (collapse (sortStable a)).length = (sortStable a).length := by
        have := (collapse_sublist (sortStable a)).length_le
        have := (sortStable_perm a).length_eq
        omega
      rw [(collapse_sublist (sortStable a)).eq_of_length hl]
      exact valuesSize_perm (sortStable_perm a)

theorem held_get_set (h : Held) (k : Key) (vs : List Value) : (h.set k vs).get k = vs := by
  induction h with
  | nil => simp [Held.set, Held.get]
  | cons x rest ih =>
    obtain ⟨k', e⟩ := x
    simp only [Held.set]
    split
    · simp [Held.get, List.lookup]
    · rename_i hne
      have : (k == k') = false := by
        simp only [beq_eq_false_iff_ne, ne_eq]; intro e; exact hne e.symm
      simp only [Held.get, List.lookup_cons, this] at ih ⊢
      exact ih

/-- compacting the held list of one key: the store side -/
def compactStore (s : Store) (k : Key) : Store :=
  match (s.lookup k).map Entry.deduplicate with
  | some x => s.set k x
  | none => s

theorem compactStore_none {s : Store} {k : Key} (h : s.lookup k = none) : compactStore s k = s := by
  simp [compactStore, h]

theorem compactStore_some {s : Store} {k : Key} {e : Entry} (h : s.lookup k = some e) :
    compactStore s k = s.set k e.deduplicate := by
  simp [compactStore, h]

theorem compact_store {s : Store} (ok : StoreOK s) (k : Key) :
    let s' := compactStore s k
    toHeld s' = (toHeld s).compact k ∧ StoreOK s' ∧
    acct (toHeld s') ≤ acct (toHeld s) ∧
    (¬ (((toHeld s).compact k).get k).length < ((toHeld s).get k).length → acct (toHeld s') = acct (toHeld s)) := by
  cases hl : s.lookup k with
  | none =>
    simp only [compactStore_none hl, Held.compact, toHeld_lookup, hl, Option.map_none]
    exact ⟨trivial, ok, Nat.le_refl _, fun _ => trivial⟩
  | some e =>
    have he := ok.2 _ (lookup_mem hl)
    have hlk : (toHeld s).lookup k = some e.values := by rw [toHeld_lookup, hl]; rfl
    have hnd : ((toHeld s).map (·.1)).Nodup := by rw [toHeld_keys]; exact ok.1
    simp only [compactStore_some hl, Held.compact, hlk]
    have hset := acct_set_old (h := toHeld s) (k := k) (old := e.values) (dedup e.values) hlk hnd
    have hle := valuesSize_dedup_le e.values
    refine ⟨by rw [toHeld_set, Entry.deduplicate_values, dedup_eq_canon], ok.set k (Entry.deduplicate_ok he), ?_, ?_⟩
    · rw [toHeld_set, Entry.deduplicate_values]; omega
    · intro hlen
      rw [held_get_set, ← dedup_eq_canon] at hlen
      have hg : (toHeld s).get k = e.values := by simp [Held.get, hlk]
      rw [hg] at hlen
      have := dedup_size_eq_of_length e.values hlen
      rw [toHeld_set, Entry.deduplicate_values]; omega

theorem canon_nil : canon [] = [] := rfl

theorem values_result (s sn : Store) (k : Key) :
    dedup ((match (sn.lookup k).map Entry.deduplicate with | some x => x.values | none => []) ++
           (match (s.lookup k).map Entry.deduplicate with | some x => x.values | none => [])) =
      canon ((toHeld sn).get k ++ (toHeld s).get k) := by
  have h1 : (match (sn.lookup k).map Entry.deduplicate with | some x => x.values | none => []) =
      dedup ((toHeld sn).get k) := by
    rw [toHeld_get]
    cases sn.lookup k with
    | none => rfl
    | some e => simp [Entry.deduplicate_values]
  have h2 : (match (s.lookup k).map Entry.deduplicate with | some x => x.values | none => []) =
      dedup ((toHeld s).get k) := by
    rw [toHeld_get]
    cases s.lookup k with
    | none => rfl
    | some e => simp [Entry.deduplicate_values]
  rw [h1, h2, dedup_union]

end Influx.Cache
