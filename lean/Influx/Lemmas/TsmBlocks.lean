/-
  Lemmas.TsmBlocks — every block of the serialised file is read back, checksum and bytes,
  through its index entry (`mmapAccessor.readBytes`).
-/
import Influx.Lemmas.TsmRoundtrip

namespace Influx.Tsm
open Influx.Generated.TsmLayout

theorem readBytes_at (pre d post : Bytes) (c : Nat) (hc : c < 4294967296) (mn mx : Int) :
    readBytes (pre ++ (be 4 c ++ d) ++ post) ⟨mn, mx, (pre.length : Nat), 4 + d.length⟩ = some (c, d) := by
  unfold readBytes
  simp only
  rw [if_neg (by omega)]
  rw [if_neg (by simp only [List.length_append, be_length]; omega)]
  simp only [Int.toNat_natCast]
  have h1 : (pre ++ (be 4 c ++ d) ++ post).drop pre.length = be 4 c ++ (d ++ post) := by
    simp [List.append_assoc]
  have h2 : (pre ++ (be 4 c ++ d) ++ post).drop (pre.length + 4) = d ++ post := by
    rw [← List.drop_drop, h1, drop_be]
  rw [h1, h2, unbe_take_be 4 c _ (by rw [pow4]; exact hc)]
  simp

/-- the blocks of one key, anywhere in a file -/
theorem readBytes_blocks (crc : Bytes → Nat) (hcrc : ∀ d, crc d < 4294967296) (bs : List Blk) :
    ∀ (pre post : Bytes),
      (layoutBlocks pre.length bs).map (readBytes (pre ++ encBlocks crc bs ++ post)) =
        bs.map fun b => some (crc b.data, b.data) := by
  induction bs with
  | nil => intro pre post; rfl
  | cons b bs ih =>
    intro pre post
    simp only [layoutBlocks, List.map_cons]
    have hfile : pre ++ encBlocks crc (b :: bs) ++ post =
        pre ++ (be 4 (crc b.data) ++ b.data) ++ (encBlocks crc bs ++ post) := by
      simp [encBlocks, List.append_assoc]
    congr 1
    · rw [hfile]; exact readBytes_at pre b.data _ (crc b.data) (hcrc _) b.minT b.maxT
    · have := ih (pre ++ (be 4 (crc b.data) ++ b.data)) post
      have hl : (pre ++ (be 4 (crc b.data) ++ b.data)).length = pre.length + 4 + b.data.length := by
        simp; omega
      rw [hl] at this
      rw [← this]
      congr 2
      simp [encBlocks, List.append_assoc]

def allBlocks (kbs : List (Key × List Blk)) : List Blk := kbs.flatMap (·.2)

theorem readBytes_keys (crc : Bytes → Nat) (hcrc : ∀ d, crc d < 4294967296) (kbs : List (Key × List Blk)) :
    ∀ (pre post : Bytes),
      ((layout pre.length kbs).flatMap (·.entries)).map
          (readBytes (pre ++ (kbs.flatMap fun kb => encBlocks crc kb.2) ++ post)) =
        (allBlocks kbs).map fun b => some (crc b.data, b.data) := by
  induction kbs with
  | nil => intro pre post; rfl
  | cons kb kbs ih =>
    obtain ⟨k, bs⟩ := kb
    intro pre post
    simp only [layout, List.flatMap_cons, List.map_append, allBlocks]
    congr 1
    · have := readBytes_blocks crc hcrc bs pre ((kbs.flatMap fun kb => encBlocks crc kb.2) ++ post)
      rw [← this]
      congr 2
      simp [List.append_assoc]
    · have := ih (pre ++ encBlocks crc bs) post
      rw [List.length_append, encBlocks_length] at this
      simp only [allBlocks] at this
      rw [← this]
      congr 2
      simp [List.append_assoc]

/-- **the blocks read back**: the index entries of the serialised file, in order, locate
    exactly the checksums and bytes of the blocks written, in order -/
theorem readBytes_serialise (crc : Bytes → Nat) (hcrc : ∀ d, crc d < 4294967296) (kbs : List (Key × List Blk)) :
    ((layout 5 kbs).flatMap (·.entries)).map (readBytes (serialise crc kbs)) =
      (allBlocks kbs).map fun b => some (crc b.data, b.data) := by
  have h5 : header.length = 5 := by rw [header_eq]; rfl
  have := readBytes_keys crc hcrc kbs header
    ((layout header.length kbs).flatMap encKeyEntry ++
      be 8 (header.length + (kbs.flatMap fun kb => encBlocks crc kb.2).length))
  rw [h5] at this
  rw [← this]
  congr 2
  simp [serialise, h5, List.append_assoc]

end Influx.Tsm
