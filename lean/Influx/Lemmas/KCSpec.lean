/-
  Lemmas.KCSpec — the statement side (Spec.C06): `expectedAsc` is the strictly ascending list of
  the newest-file-wins live points, and "newest file wins over the cursor's locations" is the
  same thing; assembly of the main theorem.
-/
import Influx.Lemmas.KCLive
import Influx.Lemmas.KCInit

namespace Influx.KC
open Influx.Generated.KeyCursor Influx.Spec.C06

/-! ### newest -/

theorem newestFrom_none : ∀ (files : List FileSpec) (i : Nat) (ts : Int),
    newestFrom i files ts = none ↔ ∀ (j : Nat) (g : FileSpec), files[j]? = some g → g.live ts = false
  | [], i, ts => by simp [newestFrom]
  | f :: fs, i, ts => by
    simp only [newestFrom]
    have ih := newestFrom_none fs (i + 1) ts
    cases hrec : newestFrom (i + 1) fs ts with
    | some w =>
      simp only [reduceCtorEq, false_iff]
      intro hall
      have : newestFrom (i + 1) fs ts = none := ih.2 (fun j g hg => hall (j + 1) g (by simpa using hg))
      rw [hrec] at this; cases this
    | none =>
      have hfs := ih.1 hrec
      simp only
      cases hl : f.live ts with
      | true =>
        simp only [if_true, reduceCtorEq, false_iff]
        intro hall
        have := hall 0 f (by simp)
        rw [hl] at this; cases this
      | false =>
        simp only [Bool.false_eq_true, if_false, true_iff]
        intro j g hg
        cases j with
        | zero => simp at hg; subst hg; exact hl
        | succ j => simp at hg; exact hfs j g hg

theorem newestFrom_some : ∀ (files : List FileSpec) (i : Nat) (ts : Int) (v : Nat),
    newestFrom i files ts = some v ↔
      ∃ k, v = i + k ∧ (∃ f : FileSpec, files[k]? = some f ∧ f.live ts = true) ∧
        ∀ (j : Nat) (g : FileSpec), k < j → files[j]? = some g → g.live ts = false
  | [], i, ts, v => by simp [newestFrom]
  | f :: fs, i, ts, v => by
    simp only [newestFrom]
    have ih := newestFrom_some fs (i + 1) ts
    cases hrec : newestFrom (i + 1) fs ts with
    | some w =>
      simp only [Option.some.injEq]
      obtain ⟨k', hw, ⟨g', hg1, hg2⟩, hlater⟩ := (ih w).1 hrec
      constructor
      · rintro rfl
        refine ⟨k' + 1, by omega, ⟨g', by simpa using hg1, hg2⟩, ?_⟩
        intro j g hj hg
        cases j with
        | zero => omega
        | succ j => simp at hg; exact hlater j g (by omega) hg
      · rintro ⟨k, hv, ⟨g, hgk, hgl⟩, hl2⟩
        have hk : k = k' + 1 := by
          apply Classical.byContradiction
          intro hne
          rcases Nat.lt_or_gt_of_ne hne with h | h
          · have := hl2 (k' + 1) g' h (by simpa using hg1)
            rw [this] at hg2; cases hg2
          · cases k with
            | zero => omega
            | succ k0 =>
              simp at hgk
              have := hlater k0 g (by omega) hgk
              rw [this] at hgl; cases hgl
        omega
    | none =>
      have hfs := (newestFrom_none fs (i + 1) ts).1 hrec
      simp only
      cases hl : f.live ts with
      | true =>
        simp only [if_true, Option.some.injEq]
        constructor
        · rintro rfl
          refine ⟨0, by omega, ⟨f, by simp, hl⟩, ?_⟩
          intro j g hj hg
          cases j with
          | zero => omega
          | succ j => simp at hg; exact hfs j g hg
        · rintro ⟨k, hv, ⟨g, hg1, hg2⟩, _⟩
          cases k with
          | zero => omega
          | succ k0 =>
            simp at hg1
            have := hfs k0 g hg1
            rw [this] at hg2; cases hg2
      | false =>
        simp only [Bool.false_eq_true, if_false, reduceCtorEq, false_iff]
        rintro ⟨k, hv, ⟨g, hg1, hg2⟩, _⟩
        cases k with
        | zero => simp at hg1; subst hg1; rw [hl] at hg2; cases hg2
        | succ k0 =>
          simp at hg1
          have := hfs k0 g hg1
          rw [this] at hg2; cases hg2

theorem newest_spec (files : List FileSpec) (ts : Int) (v : Nat) :
    newest files ts = some v ↔
      (∃ f : FileSpec, files[v]? = some f ∧ f.live ts = true) ∧
      ∀ (j : Nat) (f : FileSpec), v < j → files[j]? = some f → f.live ts = false := by
  unfold newest
  rw [newestFrom_some]
  constructor
  · rintro ⟨k, hv, h1, h2⟩
    have : v = k := by omega
    subst this
    exact ⟨h1, h2⟩
  · rintro ⟨h1, h2⟩
    exact ⟨v, by omega, h1, h2⟩

/-! ### the sorted list of all timestamps -/

theorem mem_insertU {x y : Int} {l : List Int} : y ∈ insertU x l ↔ y = x ∨ y ∈ l := by
  induction l with
  | nil => simp [insertU]
  | cons z zs ih =>
    unfold insertU
    split
    · simp
    · split
      · rename_i h; subst h; simp
      · simp only [List.mem_cons, ih]
        constructor
        · rintro (h | h | h)
          · exact Or.inr (Or.inl h)
          · exact Or.inl h
          · exact Or.inr (Or.inr h)
        · rintro (h | h | h)
          · exact Or.inr (Or.inl h)
          · exact Or.inl h
          · exact Or.inr (Or.inr h)

theorem sorted_insertU {x : Int} {l : List Int} (h : l.Pairwise (· < ·)) : (insertU x l).Pairwise (· < ·) := by
  induction l with
  | nil => simp [insertU]
  | cons z zs ih =>
    obtain ⟨h1, h2⟩ := List.pairwise_cons.1 h
    unfold insertU
    split
    · rename_i hlt
      apply List.pairwise_cons.2
      refine ⟨?_, h⟩
      intro y hy
      rcases List.mem_cons.1 hy with rfl | hy
      · exact hlt
      · have := h1 y hy; omega
    · split
      · exact h
      · apply List.pairwise_cons.2
        refine ⟨?_, ih h2⟩
        intro y hy
        rcases mem_insertU.1 hy with rfl | hy
        · omega
        · exact h1 y hy

theorem mem_sortDedup {y : Int} {l : List Int} : y ∈ sortDedup l ↔ y ∈ l := by
  unfold sortDedup
  induction l with
  | nil => simp
  | cons x xs ih => simp only [List.foldr_cons, mem_insertU, ih, List.mem_cons]

theorem sorted_sortDedup (l : List Int) : (sortDedup l).Pairwise (· < ·) := by
  unfold sortDedup
  induction l with
  | nil => simp
  | cons x xs ih => simp only [List.foldr_cons]; exact sorted_insertU ih

/-! ### expectedAsc -/

theorem mem_merged {files : List FileSpec} {p : Int × Nat} :
    p ∈ merged files ↔ p.1 ∈ allTimes files ∧ newest files p.1 = some p.2 := by
  unfold merged
  rw [List.mem_filterMap]
  constructor
  · rintro ⟨ts, hts, h⟩
    cases hn : newest files ts with
    | none => rw [hn] at h; cases h
    | some i =>
      rw [hn] at h
      simp at h
      subst h
      exact ⟨hts, hn⟩
  · rintro ⟨h1, h2⟩
    exact ⟨p.1, h1, by rw [h2]; rfl⟩

theorem sorted_merged (files : List FileSpec) : SortedV (merged files) := by
  unfold merged SortedV
  apply List.Pairwise.filterMap _ _ (sorted_sortDedup _)
  intro a a' hlt b hb b' hb'
  cases hn : newest files a with
  | none => rw [hn] at hb; cases hb
  | some i =>
    cases hn' : newest files a' with
    | none => rw [hn'] at hb'; cases hb'
    | some i' =>
      rw [hn] at hb; rw [hn'] at hb'
      simp at hb hb'
      subst hb hb'
      exact hlt

theorem newest_mem_allTimes {files : List FileSpec} {ts : Int} {v : Nat} (h : newest files ts = some v) :
    ts ∈ allTimes files := by
  obtain ⟨⟨f, hf, hl⟩, _⟩ := (newest_spec files ts v).1 h
  unfold allTimes
  rw [mem_sortDedup, List.mem_flatMap]
  refine ⟨f, List.mem_of_getElem? hf, ?_⟩
  simp only [FileSpec.live, Bool.and_eq_true] at hl
  obtain ⟨b, hb, hts⟩ := holds_iff.1 hl.1
  exact List.mem_flatten.2 ⟨b, hb, hts⟩

theorem mem_expectedAsc {files : List FileSpec} {t : Int} {asc : Bool} {p : Int × Nat} :
    p ∈ expectedAsc files t asc ↔ newest files p.1 = some p.2 ∧ (if asc then t ≤ p.1 else p.1 ≤ t) := by
  unfold expectedAsc
  rw [List.mem_filter, mem_merged]
  constructor
  · rintro ⟨⟨_, h2⟩, h3⟩
    refine ⟨h2, ?_⟩
    cases asc <;> simpa using h3
  · rintro ⟨h1, h2⟩
    refine ⟨⟨newest_mem_allTimes h1, h1⟩, ?_⟩
    cases asc <;> simpa using h2

theorem sorted_expectedAsc (files : List FileSpec) (t : Int) (asc : Bool) : SortedV (expectedAsc files t asc) :=
  (sorted_merged files).filter _

/-! ### winners over the locations = newest file -/

theorem filesOK_get {files : List FileSpec} (h : filesOK files = true) {k : Nat} {f : FileSpec}
    (hf : files[k]? = some f) : FileWF f := by
  unfold filesOK at h
  rw [List.all_eq_true] at h
  exact fileWF_of_ok (h f (List.mem_of_getElem? hf))

theorem fileStates_get {files : List FileSpec} {sts : List (FileState Nat)} (h : fileStates files = some sts) :
    sts.length = files.length ∧
    ∀ k f, files[k]? = some f → ∃ st, sts[k]? = some st ∧ fileState k f = some st := by
  have := fileStatesFrom_spec files 0 sts h
  simpa using this

/-- every location comes from a file of the layout -/
theorem location_file {files : List FileSpec} {sts : List (FileState Nat)} (h : fileStates files = some sts)
    {fi : Nat} {st : FileState Nat} (hst : sts[fi]? = some st) :
    ∃ f, files[fi]? = some f ∧ fileState fi f = some st := by
  obtain ⟨hlen, hget⟩ := fileStates_get h
  have hlt : fi < files.length := by
    have := (List.getElem?_eq_some_iff.1 hst).1
    omega
  obtain ⟨st', h1, h2⟩ := hget fi files[fi] (by simp [hlt])
  rw [hst] at h1; cases h1
  exact ⟨files[fi], by simp [hlt], h2⟩

theorem winner_iff_newest {files : List FileSpec} (hok : filesOK files = true)
    {sts : List (FileState Nat)} (hsts : fileStates files = some sts)
    {t : Int} {asc : Bool} {seeks : List (Block Nat)}
    (hmem : ∀ b, b ∈ seeks ↔ b ∈ locations sts t asc) {p : Int × Nat}
    (hdir : if asc then t ≤ p.1 else p.1 ≤ t) :
    WinnerL seeks p ↔ newest files p.1 = some p.2 := by
  rw [newest_spec]
  constructor
  · rintro ⟨b, hb, hl, hmax⟩
    obtain ⟨fi, st, hst, bi, e, vals, hent, _, rfl⟩ := mem_locations.1 ((hmem b).1 hb)
    obtain ⟨f, hf, hfs⟩ := location_file hsts hst
    have w := filesOK_get hok hf
    obtain ⟨hlive, hp2⟩ := location_to_live w fi hfs hent hl
    refine ⟨⟨f, by rw [hp2]; exact hf, hlive⟩, ?_⟩
    intro j g hj hg
    cases hgl : g.live p.1 with
    | false => rfl
    | true =>
      exfalso
      obtain ⟨_, hget⟩ := fileStates_get hsts
      obtain ⟨stj, hstj, hfsj⟩ := hget j g hg
      have wj := filesOK_get hok hg
      obtain ⟨bj, ej, valsj, hentj, hkeep, hlj⟩ := live_to_location wj j hfsj t asc hgl hdir
      have hcm : ({ file := j, blk := bj, entry := ej, vals := valsj, tombs := stj.tombs } : Block Nat) ∈ seeks :=
        (hmem _).2 (mem_locations.2 ⟨j, stj, hstj, bj, ej, valsj, hentj, hkeep, rfl⟩)
      have := hmax _ hcm (mem_keys_of_mem (p := (p.1, j)) hlj)
      simp only at this
      omega
  · rintro ⟨⟨f, hf, hlive⟩, hmax⟩
    obtain ⟨_, hget⟩ := fileStates_get hsts
    obtain ⟨st, hst, hfs⟩ := hget p.2 f hf
    have w := filesOK_get hok hf
    obtain ⟨bi, e, vals, hent, hkeep, hl⟩ := live_to_location w p.2 hfs t asc hlive hdir
    refine ⟨{ file := p.2, blk := bi, entry := e, vals := vals, tombs := st.tombs },
      (hmem _).2 (mem_locations.2 ⟨p.2, st, hst, bi, e, vals, hent, hkeep, rfl⟩), hl, ?_⟩
    intro c hc hk
    obtain ⟨fi, stc, hstc, bc, ec, valsc, hentc, _, rfl⟩ := mem_locations.1 ((hmem c).1 hc)
    obtain ⟨g, hg, hgs⟩ := location_file hsts hstc
    have wc := filesOK_get hok hg
    obtain ⟨v, hv⟩ := mem_keys.1 hk
    obtain ⟨hlc, _⟩ := location_to_live wc fi hgs hentc hv
    simp only at hlc ⊢
    apply Classical.byContradiction
    intro hgt
    have := hmax fi g (by omega) hg
    rw [this] at hlc; cases hlc

/-- the locations of a well-formed layout are well-formed blocks -/
theorem seeks_wf {files : List FileSpec} (hok : filesOK files = true)
    {sts : List (FileState Nat)} (hsts : fileStates files = some sts)
    {t : Int} {asc : Bool} {seeks : List (Block Nat)}
    (hmem : ∀ b, b ∈ seeks ↔ b ∈ locations sts t asc) : ∀ b ∈ seeks, BlockWF b := by
  intro b hb
  obtain ⟨fi, st, hst, bi, e, vals, hent, _, rfl⟩ := mem_locations.1 ((hmem b).1 hb)
  obtain ⟨f, hf, hfs⟩ := location_file hsts hst
  exact (location_wf (filesOK_get hok hf) fi hfs hent).1

/-! ### assembly -/

theorem reverse_flatten_reverse {α : Type} (bs : List (List α)) :
    (bs.map List.reverse).flatten = bs.reverse.flatten.reverse := by
  rw [List.reverse_flatten, List.map_reverse, List.reverse_reverse]

/-- For a well-formed layout, a non-extreme int64 seek time and ANY post-sort order of `seeks`
    that satisfies OrderOK, the model's read terminates without panic and what it delivers
    satisfies the statement of C06. -/
theorem model_holds {files : List FileSpec} (hok : filesOK files = true) {t : Int} {asc : Bool}
    (ht : seekOK t asc = true) {order : List (Nat × Nat)} {seeks : List (Block Nat)}
    (hseeks : seeksOf files t asc order = some seeks) (hord : orderOK seeks = true) :
    ∃ bs, modelRead files t asc order = .ok bs ∧ (∀ b ∈ bs, b ≠ []) ∧
      holdsOn id files t asc bs = true := by
  unfold seeksOf at hseeks
  cases hsts : fileStates files with
  | none => rw [hsts] at hseeks; cases hseeks
  | some sts =>
    rw [hsts] at hseeks
    simp only [Option.bind_some] at hseeks
    have hmem := applyOrder_mem hseeks
    have hwf := seeks_wf hok hsts hmem
    unfold modelRead keyCursorRead
    simp only [hsts, hseeks]
    cases asc with
    | true =>
      simp only [seekOK, if_true, Bool.and_eq_true, decide_eq_true_eq] at ht
      obtain ⟨bs, hrun, hsorted, hne, hm⟩ := runSeeks_asc seeks hwf hord ht.1
      refine ⟨bs, by simp [hrun], hne, ?_⟩
      unfold holdsOn delivered expected
      simp only [if_true, id, beq_iff_eq]
      have : (expectedAsc files t true).map (fun p => (p.1, p.2)) = expectedAsc files t true := by simp
      rw [this]
      apply sorted_ext hsorted (sorted_expectedAsc files t true)
      intro p
      rw [hm p, mem_expectedAsc]
      simp only [if_true]
      constructor
      · rintro ⟨h1, h2⟩
        exact ⟨(winner_iff_newest hok hsts hmem (by simpa using h2)).1 h1, h2⟩
      · rintro ⟨h1, h2⟩
        exact ⟨(winner_iff_newest hok hsts hmem (by simpa using h2)).2 h1, h2⟩
    | false =>
      simp only [seekOK, Bool.false_eq_true, if_false, Bool.and_eq_true, decide_eq_true_eq] at ht
      obtain ⟨bs, hrun, hsorted, hne, hm⟩ := runSeeks_desc seeks hwf hord ht.2
      refine ⟨bs, by simp [hrun], hne, ?_⟩
      unfold holdsOn delivered expected
      simp only [Bool.false_eq_true, if_false, id, beq_iff_eq]
      have : (expectedAsc files t false).reverse.map (fun p => (p.1, p.2)) = (expectedAsc files t false).reverse := by simp
      rw [this, reverse_flatten_reverse]
      congr 1
      apply sorted_ext hsorted (sorted_expectedAsc files t false)
      intro p
      rw [hm p, mem_expectedAsc]
      simp only [Bool.false_eq_true, if_false]
      constructor
      · rintro ⟨h1, h2⟩
        exact ⟨(winner_iff_newest hok hsts hmem (by simpa using h2)).1 h1, h2⟩
      · rintro ⟨h1, h2⟩
        exact ⟨(winner_iff_newest hok hsts hmem (by simpa using h2)).2 h1, h2⟩

end Influx.KC
