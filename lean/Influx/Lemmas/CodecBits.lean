/-
  Lemmas.CodecBits — bit strings: bitsOf/natOfBits are inverse, readBits reads what was written,
  packing into bytes only appends zero padding.
-/
import Influx.Lemmas.CodecBase
namespace Influx.Codec

theorem natOfBits_lt (bs : List Bool) : natOfBits bs < 2 ^ bs.length := by
  induction bs with
  | nil => simp [natOfBits]
  | cons b bs ih =>
    simp only [natOfBits, List.length_cons, Nat.pow_succ]
    split <;> omega

theorem bitsOf_length (u n : Nat) : (bitsOf u n).length = n := by
  induction n with
  | zero => rfl
  | succ n ih => simp [bitsOf, ih]

/-- `bitsOf u n` only looks at `u mod 2^n` -/
theorem bitsOf_add_mul (u k n : Nat) : bitsOf (u + 2 ^ n * k) n = bitsOf u n := by
  induction n generalizing k with
  | zero => rfl
  | succ n ih =>
    simp only [bitsOf]
    have e : u + 2 ^ (n + 1) * k = u + 2 ^ n * (2 * k) := by rw [Nat.pow_succ, Nat.mul_assoc]
    rw [e, ih (2 * k)]
    congr 2
    rw [Nat.add_mul_div_left _ _ (Nat.two_pow_pos n), Nat.add_mul_mod_self_left]

theorem bitsOf_mod (u n : Nat) : bitsOf (u % 2 ^ n) n = bitsOf u n := by
  conv => rhs; rw [← Nat.mod_add_div u (2 ^ n)]
  rw [bitsOf_add_mul]

/-- bits → number → bits -/
theorem bitsOf_natOfBits (bs : List Bool) : bitsOf (natOfBits bs) bs.length = bs := by
  induction bs with
  | nil => rfl
  | cons b bs ih =>
    have hlt := natOfBits_lt bs
    simp only [natOfBits, List.length_cons, bitsOf]
    cases b with
    | true =>
      simp only [if_true]
      have e1 : (2 ^ bs.length + natOfBits bs) / 2 ^ bs.length % 2 = 1 := by
        rw [Nat.add_comm, Nat.add_div_right _ (Nat.two_pow_pos _), Nat.div_eq_of_lt hlt]
      rw [e1]
      have e2 : 2 ^ bs.length + natOfBits bs = natOfBits bs + 2 ^ bs.length * 1 := by omega
      rw [e2, bitsOf_add_mul, ih]; rfl
    | false =>
      simp only [Bool.false_eq_true, if_false, Nat.zero_add]
      rw [Nat.div_eq_of_lt hlt, ih]; rfl

/-- number → bits → number -/
theorem natOfBits_bitsOf (u n : Nat) : natOfBits (bitsOf u n) = u % 2 ^ n := by
  induction n with
  | zero => simp [bitsOf, natOfBits, Nat.mod_one]
  | succ n ih =>
    simp only [bitsOf, natOfBits, bitsOf_length, ih]
    have h1 : u % 2 ^ (n + 1) = u % 2 ^ n + 2 ^ n * (u / 2 ^ n % 2) := by
      rw [Nat.pow_succ, Nat.mod_mul]
    rw [h1]
    rcases Nat.mod_two_eq_zero_or_one (u / 2 ^ n) with h | h <;> simp [h]
    omega

theorem readBits_bitsOf (u n : Nat) (rest : List Bool) : readBits n (bitsOf u n ++ rest) = some (u % 2 ^ n, rest) := by
  unfold readBits
  have hl := bitsOf_length u n
  simp only [List.take_left' hl, List.drop_left' hl, hl, Nat.lt_irrefl, if_false, natOfBits_bitsOf]

/-- packing bits into bytes only appends zero padding -/
theorem bitsOfBytes_bytesOfBits : ∀ (fuel : Nat) (bs : List Bool), bs.length ≤ fuel →
    ∃ pad, bitsOfBytes (bytesOfBits fuel bs) = bs ++ pad := by
  intro fuel
  induction fuel with
  | zero => intro bs h; have : bs = [] := List.length_eq_zero_iff.mp (by omega); subst this; exact ⟨[], rfl⟩
  | succ f ih =>
    intro bs hlen
    cases hbs : bs with
    | nil => exact ⟨[], by simp [bytesOfBits, bitsOfBytes]⟩
    | cons b0 bt =>
      rw [← hbs]
      have hne : bs.isEmpty = false := by rw [hbs]; rfl
      simp only [bytesOfBits, hne, Bool.false_eq_true, if_false, bitsOfBytes, List.flatMap_cons]
      obtain ⟨pad, hp⟩ := ih (bs.drop 8) (by simp; rw [hbs] at hlen ⊢; simp at hlen ⊢; omega)
      simp only [bitsOfBytes] at hp
      rw [hp]
      have hl8 : (bs.take 8 ++ List.replicate (8 - (bs.take 8).length) false).length = 8 := by
        simp; omega
      have := bitsOf_natOfBits (bs.take 8 ++ List.replicate (8 - (bs.take 8).length) false)
      rw [hl8] at this
      simp only [byteOfBits]
      rw [this]
      by_cases h8 : 8 ≤ bs.length
      · have : (bs.take 8).length = 8 := by simp; omega
        rw [this]
        refine ⟨pad, ?_⟩
        simp only [Nat.sub_self, List.replicate_zero, List.append_nil]
        rw [← List.append_assoc, List.take_append_drop]
      · have hd : bs.drop 8 = [] := List.drop_eq_nil_of_le (by omega)
        have ht : bs.take 8 = bs := List.take_of_length_le (by omega)
        rw [hd] at hp ⊢
        refine ⟨List.replicate (8 - bs.length) false ++ pad, ?_⟩
        rw [ht]; simp

theorem bitsOfBytes_packBits (bs : List Bool) : ∃ pad, bitsOfBytes (packBits bs) = bs ++ pad :=
  bitsOfBytes_bytesOfBits bs.length bs (Nat.le_refl _)

end Influx.Codec
