/-
  Lemmas.C13Lookup — meaning of the index lookups under the partition invariant.
-/
import Influx.Lemmas.C13Part

namespace Influx.SF
open Part

/-- the on-disk part of `FindOffsetByID` -/
def Part.diskOff (p : Part) (id : Nat) : Nat :=
  match p.idxFile with
  | none => 0
  | some d =>
    match d.idOff.find? (·.1 = id) with
    | some (_, off) => off
    | none => 0

theorem findOffsetByID_def (p : Part) (id : Nat) :
    p.findOffsetByID id = match p.memOff id with | some off => off | none => p.diskOff id := by
  unfold Part.findOffsetByID Part.memOff Part.diskOff
  cases h : p.memIDOff.find? (·.1 = id) with
  | none => rfl
  | some x => cases x; rfl

variable {p : Part} {es : List Entry}

/-- the in-memory offset of an id: the insert entry with that id behind the bound -/
theorem memOff_some (h : PInv p es) {id off : Nat} (hm : p.memOff id = some off) :
    ∃ e ∈ es, e.flag = insertFlag ∧ e.id = id ∧ e.off = off ∧ p.bound < e.off := by
  rw [h.memOff_eq, memOff_replay, base_memOff] at hm
  cases hl : lastWith (fun e => decide (e.flag = insertFlag ∧ e.id = id))
      (es.filter (fun e => e.off > p.bound)) with
  | none => rw [hl] at hm; cases hm
  | some e =>
    rw [hl] at hm
    simp only [Option.some.injEq] at hm
    obtain ⟨he, hq, hr⟩ := lastWith_filter_some hl
    simp only [decide_eq_true_eq] at hq hr
    exact ⟨e, he, hq.1, hq.2, hm, hr⟩

theorem memOff_none (h : PInv p es) {id : Nat} (hm : p.memOff id = none) :
    ∀ e ∈ es, e.flag = insertFlag → e.id = id → e.off ≤ p.bound := by
  rw [h.memOff_eq, memOff_replay, base_memOff] at hm
  cases hl : lastWith (fun e => decide (e.flag = insertFlag ∧ e.id = id))
      (es.filter (fun e => e.off > p.bound)) with
  | some e => rw [hl] at hm; cases hm
  | none =>
    intro e he hf hid
    by_cases hb : e.off > p.bound
    · have := lastWith_none hl e (List.mem_filter.mpr ⟨he, by simpa using hb⟩)
      simp [hf, hid] at this
    · omega

theorem diskOff_some (h : PInv p es) {id : Nat} (hne : p.diskOff id ≠ 0) :
    ∃ e ∈ es, e.flag = insertFlag ∧ e.id = id ∧ e.off = p.diskOff id ∧ e.off ≤ p.bound ∧
      ∃ d, p.idxFile = some d ∧ (id, e.off) ∈ d.idOff := by
  unfold Part.diskOff at hne ⊢
  cases hd : p.idxFile with
  | none => simp [hd] at hne
  | some d =>
    simp only [hd] at hne ⊢
    cases hf : d.idOff.find? (·.1 = id) with
    | none => simp [hf] at hne
    | some x =>
      obtain ⟨xid, xoff⟩ := x
      have hmem := List.mem_of_find?_eq_some hf
      have hq := List.find?_some hf
      simp only [decide_eq_true_eq] at hq
      subst hq
      obtain ⟨e, he, hfl, hid, hoff, hle⟩ := (h.disk d hd).d1 _ hmem
      simp only at hid hoff
      refine ⟨e, he, hfl, hid, by simpa using hoff, ?_, d, rfl, by rw [hoff]; exact hmem⟩
      simp [Part.bound, hd, hle]

/-- `FindOffsetByID` answers 0 or the offset of THE insert entry with the id -/
theorem findOffsetByID_cases (h : PInv p es) (id : Nat) :
    p.findOffsetByID id = 0 ∨
      ∃ e ∈ es, e.flag = insertFlag ∧ e.id = id ∧ e.off = p.findOffsetByID id := by
  rw [findOffsetByID_def]
  cases hm : p.memOff id with
  | some off =>
    obtain ⟨e, he, hf, hid, hoff, _⟩ := memOff_some h hm
    exact Or.inr ⟨e, he, hf, hid, hoff⟩
  | none =>
    by_cases hz : p.diskOff id = 0
    · exact Or.inl hz
    · obtain ⟨e, he, hf, hid, hoff, _⟩ := diskOff_some h hz
      exact Or.inr ⟨e, he, hf, hid, hoff⟩

/-- a series that was not deleted is found at the offset of its insert entry -/
theorem findOffsetByID_live (h : PInv p es) {e : Entry} (he : e ∈ es) (hf : e.flag = insertFlag)
    (hnt : ¬ Tombed es e.id) : p.findOffsetByID e.id = e.off := by
  rw [findOffsetByID_def]
  cases hm : p.memOff e.id with
  | some off =>
    obtain ⟨e', he', hf', hid', hoff', _⟩ := memOff_some h hm
    have := h.id_unique he' he hf' hf hid'
    subst this; exact hoff'.symm
  | none =>
    have hle := memOff_none h hm e he hf rfl
    -- covered by the index file
    have hoffpos := h.off_ge e he
    cases hd : p.idxFile with
    | none =>
      simp [Part.bound, hd] at hle
      simp [hdrSize] at hoffpos; omega
    | some d =>
      have hb : p.bound = d.maxOffset := by simp [Part.bound, hd]
      rcases (h.disk d hd).d2 e he hf (by omega) with hmem | ht
      · unfold Part.diskOff
        simp only [hd]
        cases hfind : d.idOff.find? (·.1 = e.id) with
        | none =>
          have := List.find?_eq_none.mp hfind _ hmem
          simp at this
        | some x =>
          obtain ⟨xid, xoff⟩ := x
          have hxm := List.mem_of_find?_eq_some hfind
          have hq := List.find?_some hfind
          simp only [decide_eq_true_eq] at hq
          subst hq
          obtain ⟨e', he', hf', hid', hoff', _⟩ := (h.disk d hd).d1 _ hxm
          have := h.id_unique he' he hf' hf hid'
          subst this; exact hoff'.symm
      · exact absurd ht hnt

/-- **`IsDeleted`**: true exactly for ids with a tombstone and for ids never issued here -/
theorem isDeleted_iff (h : PInv p es) (id : Nat) :
    p.isDeleted id = true ↔ Tombed es id ∨ ∀ e ∈ es, e.flag = insertFlag → e.id ≠ id := by
  unfold Part.isDeleted
  simp only [Bool.or_eq_true, List.contains_iff_mem, beq_iff_eq]
  constructor
  · rintro (ht | hz)
    · rw [h.tomb, tomb_replay, base_tomb] at ht
      rcases ht with ⟨t, ht, hfl, hid⟩ | ht
      · exact Or.inl ⟨t, (List.mem_filter.mp ht).1, hfl, hid⟩
      · cases ht
    · by_cases htb : Tombed es id
      · exact Or.inl htb
      · refine Or.inr (fun e he hf hid => ?_)
        subst hid
        have := findOffsetByID_live h he hf htb
        have := h.off_ge e he
        simp [hdrSize] at this; omega
  · rintro (⟨t, ht, hfl, hid⟩ | hno)
    · by_cases hb : t.off > p.bound
      · left
        rw [h.tomb, tomb_replay]
        exact Or.inl ⟨t, List.mem_filter.mpr ⟨ht, by simpa using hb⟩, hfl, hid⟩
      · -- an old tombstone: the series was dropped from the index file, and is not in memory
        right
        obtain ⟨e, he, hf, heid, hlt⟩ := h.tombAfter t ht hfl
        rcases findOffsetByID_cases h id with hz | ⟨e', he', hf', hid', hoff'⟩
        · exact hz
        · exfalso
          have : e' = e := h.id_unique he' he hf' hf (by rw [hid', heid, hid])
          subst this
          rw [findOffsetByID_def] at hoff'
          cases hm : p.memOff id with
          | some off =>
            obtain ⟨e2, he2, hf2, hid2, _, hb2⟩ := memOff_some h hm
            have : e2 = e' := h.id_unique he2 he' hf2 hf' (by rw [hid2, hid'])
            subst this; omega
          | none =>
            rw [hm] at hoff'
            simp only at hoff'
            have hne : p.diskOff id ≠ 0 := by
              have := h.off_ge e' he'; simp [hdrSize] at this; omega
            obtain ⟨e3, he3, hf3, hid3, _, _, d, hd, hmem⟩ := diskOff_some h hne
            have := (h.disk d hd).d3 _ hmem t ht hfl (by simpa using hid)
            simp [Part.bound, hd] at hb; omega
    · right
      rcases findOffsetByID_cases h id with hz | ⟨e, he, hf, hid, _⟩
      · exact hz
      · exact absurd hid (hno e he hf)

theorem isDeleted_false_iff (h : PInv p es) (id : Nat) :
    p.isDeleted id = false ↔ ¬ Tombed es id ∧ ∃ e ∈ es, e.flag = insertFlag ∧ e.id = id := by
  rw [← Bool.not_eq_true, isDeleted_iff h]
  constructor
  · intro hn
    refine ⟨fun ht => hn (Or.inl ht), ?_⟩
    apply Classical.byContradiction
    intro hne
    exact hn (Or.inr (fun e he hf hid => hne ⟨e, he, hf, hid⟩))
  · rintro ⟨hnt, e, he, hf, hid⟩ (ht | hno)
    · exact hnt ht
    · exact hno e he hf hid

end Influx.SF
