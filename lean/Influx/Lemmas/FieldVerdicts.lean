/-
  Lemmas.FieldVerdicts — what validation does to the field set: recorded types
  never change, accepted points are fully on record, points conflicting with the
  record are refused, new entries come from the batch, and replaying the created
  fields reproduces the new field set.
-/
import Influx.Lemmas.FieldReplay
import Influx.Lemmas.FieldValidate
import Influx.Spec.C10

namespace Influx.Fields
open Influx.Generated.FieldsConsts (MaxFieldValueLength)

/-- `CreateFieldIfNotExists` never changes a recorded type -/
theorem createField_mono (s : Schema) (k' : FKey) (t' : FType) (r : Schema × Bool)
    (hc : createField s k' t' = some r) (k : FKey) (t : FType) (h : s.lookup k = some t) :
    r.1.lookup k = some t := by
  rw [lookup_createField s _ _ _ hc k]
  by_cases hk : k = k'
  · subst hk
    simp only [if_true]
    unfold createField at hc
    rw [h] at hc
    by_cases ht : t = t'
    · rw [ht]
    · simp [ht] at hc
  · simp [hk, h]

/-! ### `ValidateAndCreateFields` -/

theorem validateFields_mono (m : String) (fs : List FieldV) (s : Schema) (st : Bool) (k : FKey) (t : FType)
    (h : s.lookup k = some t) : (validateFields m s fs st).1.lookup k = some t := by
  induction fs generalizing s st with
  | nil => simpa [validateFields] using h
  | cons f fs ih =>
    unfold validateFields
    split
    · exact h
    · split
      · exact ih s true h
      · split
        · exact h
        · next s' created hc => exact ih _ _ (createField_mono s _ _ _ hc k t h)

theorem validateFields_nd (m : String) (fs : List FieldV) (s : Schema) (st : Bool) (h : ND s) :
    ND (validateFields m s fs st).1 := by
  induction fs generalizing s st with
  | nil => simpa [validateFields] using h
  | cons f fs ih =>
    unfold validateFields
    split
    · exact h
    · split
      · exact ih s true h
      · split
        · exact h
        · next s' created hc => exact ih _ _ (nd_createField s _ _ _ hc h)

/-- an accepted point has all its (non-`time`) fields on record with their types -/
theorem validateFields_typed (m : String) (fs : List FieldV) (s : Schema) (st : Bool)
    (ha : (validateFields m s fs st).2.2.accepted = true) (f : FieldV) (hf : f ∈ fs)
    (hn : f.name ≠ timeName) : (validateFields m s fs st).1.lookup (m, f.name) = some f.ty := by
  induction fs generalizing s st with
  | nil => cases hf
  | cons g fs ih =>
    unfold validateFields at ha ⊢
    split at ha
    · simp at ha
    · next hlong =>
      simp only [hlong, if_false]
      split at ha
      · next htime =>
        simp only [htime, if_true]
        rcases List.mem_cons.1 hf with rfl | hf'
        · exact absurd htime hn
        · exact ih s true ha hf'
      · next htime =>
        simp only [htime, if_false]
        split at ha
        · simp at ha
        · next s' created hc =>
          simp only [hc]
          rcases List.mem_cons.1 hf with rfl | hf'
          · apply validateFields_mono
            rw [lookup_createField s _ _ _ hc]; simp
          · exact ih s' st ha hf'

/-- a point carrying another type for a field on record is refused -/
theorem validateFields_conflict (m : String) (fs : List FieldV) (s : Schema) (st : Bool)
    (f : FieldV) (hf : f ∈ fs) (hn : f.name ≠ timeName) (t : FType)
    (hl : s.lookup (m, f.name) = some t) (hne : t ≠ f.ty) :
    (validateFields m s fs st).2.2.accepted = false := by
  induction fs generalizing s st with
  | nil => cases hf
  | cons g fs ih =>
    unfold validateFields
    split
    · rfl
    · split
      · next htime =>
        rcases List.mem_cons.1 hf with rfl | hf'
        · exact absurd htime hn
        · exact ih s true hf' hl
      · split
        · rfl
        · next s' created hc =>
          rcases List.mem_cons.1 hf with rfl | hf'
          · exfalso
            have := (createField_none s (m, f.name) f.ty).2 ⟨t, hl, hne⟩
            rw [this] at hc; cases hc
          · exact ih s' st hf' (createField_mono s _ _ _ hc _ t hl)

/-- every type on record after the validation of a point was on record before or
    is the type of a (non-`time`) field of the point -/
theorem validateFields_new (m : String) (fs : List FieldV) (s : Schema) (st : Bool) (k : FKey) (t : FType)
    (h : (validateFields m s fs st).1.lookup k = some t) :
    s.lookup k = some t ∨ (k.1 = m ∧ ∃ f ∈ fs, f.name = k.2 ∧ f.ty = t ∧ f.name ≠ timeName) := by
  induction fs generalizing s st with
  | nil => left; simpa [validateFields] using h
  | cons g fs ih =>
    unfold validateFields at h
    split at h
    · exact Or.inl h
    · split at h
      · rcases ih s true h with h1 | ⟨h1, f, hf, h2⟩
        · exact Or.inl h1
        · exact Or.inr ⟨h1, f, List.mem_cons_of_mem _ hf, h2⟩
      · next htime =>
        split at h
        · exact Or.inl h
        · next s' created hc =>
          simp only at h
          rcases ih s' st h with h1 | ⟨h1, f, hf, h2⟩
          · rw [lookup_createField s _ _ _ hc k] at h1
            by_cases hk : k = (m, g.name)
            · simp only [hk, if_true, Option.some.injEq] at h1
              right
              refine ⟨by rw [hk], g, List.mem_cons_self, by rw [hk], h1, htime⟩
            · simp only [hk, if_false] at h1; exact Or.inl h1
          · exact Or.inr ⟨h1, f, List.mem_cons_of_mem _ hf, h2⟩

theorem createdRecord_append (a b : List (FKey × FType)) :
    createdRecord (a ++ b) = createdRecord a ++ createdRecord b := by
  simp [createdRecord]

/-- replaying the fields a point created reproduces the field set after the point -/
theorem validateFields_replay (m : String) (fs : List FieldV) (s : Schema) (st : Bool) :
    replay s (createdRecord (validateFields m s fs st).2.1) = (validateFields m s fs st).1 := by
  induction fs generalizing s st with
  | nil => simp [validateFields, createdRecord, replay]
  | cons g fs ih =>
    unfold validateFields
    split
    · simp [createdRecord, replay]
    · split
      · exact ih s true
      · split
        · simp [createdRecord, replay]
        · next s' created hc =>
          simp only
          cases created with
          | false =>
            have e := createField_not_created s _ _ s' hc
            rw [e]
            simpa using ih s st
          | true =>
            simp only [if_true]
            have : createdRecord (((m, g.name), g.ty) :: (validateFields m s' fs st).2.1)
                = Change.add m g.name g.ty :: createdRecord (validateFields m s' fs st).2.1 := by
              simp [createdRecord]
            rw [this]
            unfold replay
            simp only [List.foldl_cons, applyChange, hc]
            exact ih s' st

/-! ### the whole batch -/

theorem verdicts_mono (b : List Point) (s : Schema) (k : FKey) (t : FType) (h : s.lookup k = some t) :
    (verdicts s b).1.lookup k = some t := by
  induction b generalizing s with
  | nil => exact h
  | cons p ps ih =>
    unfold verdicts
    split
    · exact ih s h
    · split
      · exact ih s h
      · exact ih _ (validateFields_mono _ _ _ _ k t h)

theorem verdicts_nd (b : List Point) (s : Schema) (h : ND s) : ND (verdicts s b).1 := by
  induction b generalizing s with
  | nil => exact h
  | cons p ps ih =>
    unfold verdicts
    split
    · exact ih s h
    · split
      · exact ih s h
      · exact ih _ (validateFields_nd _ _ _ _ h)

/-- accepted points are fully on record after the batch -/
theorem verdicts_typed (b : List Point) (s : Schema) (p : Point) (v : VRes)
    (hm : (p, v) ∈ (verdicts s b).2.2) (ha : v.accepted = true) (f : FieldV) (hf : f ∈ p.fields)
    (hn : f.name ≠ timeName) : (verdicts s b).1.lookup (p.meas, f.name) = some f.ty := by
  induction b generalizing s with
  | nil => simp [verdicts] at hm
  | cons q ps ih =>
    unfold verdicts at hm ⊢
    split
    · next h1 =>
      simp only [h1, if_true] at hm
      rcases List.mem_cons.1 hm with heq | hm'
      · cases heq; simp at ha
      · exact ih s hm'
    · next h1 =>
      simp only [h1, if_false] at hm
      split
      · next h2 =>
        simp only [h2, if_true] at hm
        rcases List.mem_cons.1 hm with heq | hm'
        · cases heq; simp at ha
        · exact ih s hm'
      · next h2 =>
        simp only [h2, if_false] at hm
        rcases List.mem_cons.1 hm with heq | hm'
        · cases heq
          exact verdicts_mono _ _ _ _ (validateFields_typed _ _ _ _ ha f hf hn)
        · exact ih _ hm'

/-- a point that carries another type for a field on record is refused -/
theorem verdicts_conflict (b : List Point) (s : Schema) (p : Point) (v : VRes)
    (hm : (p, v) ∈ (verdicts s b).2.2) (hc : Spec.C10.conflictsWith s p = true) : v.accepted = false := by
  induction b generalizing s with
  | nil => simp [verdicts] at hm
  | cons q ps ih =>
    -- conflicts with `s` are conflicts with every later field set
    have later : ∀ s', (∀ k t, s.lookup k = some t → s'.lookup k = some t) →
        Spec.C10.conflictsWith s' p = true := by
      intro s' hmono
      unfold Spec.C10.conflictsWith at hc ⊢
      rw [List.any_eq_true] at hc ⊢
      obtain ⟨f, hf, hcf⟩ := hc
      refine ⟨f, hf, ?_⟩
      simp only [Bool.and_eq_true] at hcf ⊢
      refine ⟨hcf.1, ?_⟩
      cases hl : s.lookup (p.meas, f.name) with
      | none => rw [hl] at hcf; simp at hcf
      | some t => rw [hmono _ _ hl]; rw [hl] at hcf; exact hcf.2
    unfold verdicts at hm
    split at hm
    · rcases List.mem_cons.1 hm with heq | hm'
      · cases heq; rfl
      · exact ih s hm' hc
    · split at hm
      · rcases List.mem_cons.1 hm with heq | hm'
        · cases heq; rfl
        · exact ih s hm' hc
      · rcases List.mem_cons.1 hm with heq | hm'
        · cases heq
          unfold Spec.C10.conflictsWith at hc
          rw [List.any_eq_true] at hc
          obtain ⟨f, hf, hcf⟩ := hc
          simp only [Bool.and_eq_true] at hcf
          cases hl : s.lookup (p.meas, f.name) with
          | none => rw [hl] at hcf; simp at hcf
          | some t =>
            rw [hl] at hcf
            exact validateFields_conflict _ _ _ _ f hf (by simpa using hcf.1) t hl (by simpa using hcf.2)
        · exact ih _ hm' (later _ (fun k t h => validateFields_mono _ _ _ _ k t h))

/-- every type on record after the batch was on record before or is carried by a
    point of the batch -/
theorem verdicts_new (b : List Point) (s : Schema) (k : FKey) (t : FType)
    (h : (verdicts s b).1.lookup k = some t) :
    s.lookup k = some t ∨ Spec.C10.carries b k t = true := by
  induction b generalizing s with
  | nil => exact Or.inl h
  | cons p ps ih =>
    have hcons : ∀ x, Spec.C10.carries ps k x = true → Spec.C10.carries (p :: ps) k x = true := by
      intro x hx; unfold Spec.C10.carries at hx ⊢; simp only [List.any_cons, hx, Bool.or_true]
    unfold verdicts at h
    split at h
    · rcases ih s h with h1 | h1
      · exact Or.inl h1
      · exact Or.inr (hcons _ h1)
    · split at h
      · rcases ih s h with h1 | h1
        · exact Or.inl h1
        · exact Or.inr (hcons _ h1)
      · rcases ih _ h with h1 | h1
        · rcases validateFields_new _ _ _ _ k t h1 with h2 | ⟨h2, f, hf, h3, h4, h5⟩
          · exact Or.inl h2
          · right
            unfold Spec.C10.carries
            simp only [List.any_cons, Bool.or_eq_true, Bool.and_eq_true]
            left
            refine ⟨by simp [h2], ?_⟩
            rw [List.any_eq_true]
            have h6 : k.2 ≠ timeName := by rw [← h3]; exact h5
            exact ⟨f, hf, by simp [h3, h4, h6]⟩
        · exact Or.inr (hcons _ h1)

/-- replaying the record of created fields reproduces the field set after the batch -/
theorem verdicts_replay (b : List Point) (s : Schema) :
    replay s (createdRecord (verdicts s b).2.1) = (verdicts s b).1 := by
  induction b generalizing s with
  | nil => simp [verdicts, createdRecord, replay]
  | cons p ps ih =>
    unfold verdicts
    split
    · exact ih s
    · split
      · exact ih s
      · simp only
        rw [createdRecord_append, replay_append, validateFields_replay]
        exact ih _

end Influx.Fields
