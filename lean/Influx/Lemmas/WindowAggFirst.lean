/-
  Lemmas.WindowAggFirst — the `first` window cursor: chunking / block independence and
  equality with "first point of every window".
-/
import Influx.Lemmas.WindowAggSpec

namespace Influx.WindowAgg.First
open Influx.Spec.C20
variable {α : Type}

/-- one pass, no arrays, no blocks: keep a point iff it is not before the running `windowEnd` -/
def seqF (w : Win) : List (Pt α) → Option Int → List (Pt α)
  | [], _ => []
  | p :: ps, we => if before p.1 we then seqF w ps we else p :: seqF w ps (some (w.stop p.1))

theorem scan_spec (B : Nat) (w : Win) (rest : List (Pt α)) :
    ∀ (a : List (Pt α)) (we : Option Int) (out : List (Pt α)),
    match scan B w a we out with
    | .more o we' => out ++ seqF w (a ++ rest) we = o ++ seqF w rest we'
    | .full o r we' => out ++ seqF w (a ++ rest) we = o ++ seqF w (r ++ rest) we' ∧
        o.length = B ∧ r.length < a.length := by
  intro a
  induction a with
  | nil => intro we out; simp [scan]
  | cons p ps ih =>
    intro we out
    unfold scan
    by_cases hb : before p.1 we = true
    · simp only [hb, ↓reduceIte]
      have := ih we out
      split at this
      · simpa [seqF, hb] using this
      · refine ⟨by simpa [seqF, hb] using this.1, this.2.1, ?_⟩
        have := this.2.2; simp only [List.length_cons]; omega
    · simp only [hb, Bool.false_eq_true, ↓reduceIte]
      by_cases hfull : (out ++ [p]).length = B
      · rw [if_pos hfull]
        exact ⟨by simp [seqF, hb], hfull, by simp⟩
      · rw [if_neg hfull]
        have := ih (some (w.stop p.1)) (out ++ [p])
        split at this
        · simpa [seqF, hb, List.append_assoc] using this
        · refine ⟨by simpa [seqF, hb, List.append_assoc] using this.1, this.2.1, ?_⟩
          have := this.2.2; simp only [List.length_cons]; omega

theorem run_spec (B : Nat) (w : Win) :
    ∀ (inp : List (List (Pt α))) (a : List (Pt α)) (we : Option Int) (out : List (Pt α)),
    Fold.NonEmptyChunks inp →
    out ++ seqF w (a ++ inp.flatten) we
        = (run B w a inp we out).2 ++ seqF w (run B w a inp we out).1.st.rest (run B w a inp we out).1.windowEnd ∧
    ((run B w a inp we out).1.st.rest = [] ∨ (run B w a inp we out).2.length = B) ∧
    (a ≠ [] → (run B w a inp we out).1.st.rest.length < (a ++ inp.flatten).length) ∧
    (run B w a inp we out).1.st.rest.length ≤ (a ++ inp.flatten).length ∧
    Fold.NonEmptyChunks (run B w a inp we out).1.st.inp := by
  intro inp
  induction inp with
  | nil =>
    intro a we out _
    have hs := scan_spec B w [] a we out
    unfold run
    split at hs
    · next o we' heq =>
      simp only [heq, St.rest, List.flatten_nil, List.append_nil, seqF, List.length_nil, Nat.zero_le, true_and]
      refine ⟨by simpa [seqF] using hs, by simp, ?_, by intro c hc; cases hc⟩
      intro ha
      cases a with
      | nil => exact absurd rfl ha
      | cons => simp
    · next o r we' heq =>
      simp only [heq, St.rest, List.flatten_nil, List.append_nil]
      refine ⟨by simpa using hs.1, Or.inr hs.2.1, fun _ => hs.2.2, Nat.le_of_lt hs.2.2, by intro c hc; cases hc⟩
  | cons c cs ih =>
    intro a we out hne
    have hc : c ≠ [] := hne c (by simp)
    have hcs : Fold.NonEmptyChunks cs := fun x hx => hne x (by simp [hx])
    have hs := scan_spec B w (c ++ cs.flatten) a we out
    unfold run
    split at hs
    · next o we' heq =>
      have hce : c.isEmpty = false := by cases c with | nil => exact absurd rfl hc | cons => rfl
      simp only [heq, hce, Bool.false_eq_true, ↓reduceIte, List.flatten_cons]
      have ih' := ih c we' o hcs
      have hcl : 0 < c.length := List.length_pos_iff.mpr hc
      refine ⟨by rw [hs]; exact ih'.1, ih'.2.1, ?_, ?_, ih'.2.2.2.2⟩
      · intro ha
        have hal : 0 < a.length := List.length_pos_iff.mpr ha
        have := ih'.2.2.2.1; simp only [List.length_append] at this ⊢; omega
      · have := ih'.2.2.2.1; simp only [List.length_append] at this ⊢; omega
    · next o r we' heq =>
      simp only [heq, St.rest, List.flatten_cons]
      refine ⟨hs.1, Or.inr hs.2.1, ?_, ?_, hne⟩
      · intro _; have := hs.2.2; simp only [List.length_append]; omega
      · have := hs.2.2; simp only [List.length_append]; omega

theorem next_spec (B : Nat) (w : Win) (s : State α) (hne : Fold.NonEmptyChunks s.st.inp) :
    seqF w s.st.rest s.windowEnd = (next B w s).2 ++ seqF w (next B w s).1.st.rest (next B w s).1.windowEnd ∧
    ((next B w s).1.st.rest = [] ∨ (next B w s).2.length = B) ∧
    (s.st.rest ≠ [] → (next B w s).1.st.rest.length < s.st.rest.length) ∧
    (s.st.rest = [] → (next B w s).1.st.rest = [] ∧ (next B w s).2 = []) ∧
    Fold.NonEmptyChunks (next B w s).1.st.inp := by
  obtain ⟨⟨tmp, inp⟩, we⟩ := s
  unfold next
  cases tmp with
  | nil =>
    cases inp with
    | nil => simp [pop, St.rest, seqF, Fold.NonEmptyChunks]
    | cons c cs =>
      have hc : c ≠ [] := hne c (by simp)
      have hcs : Fold.NonEmptyChunks cs := fun x hx => hne x (by simp [hx])
      have hce : c.isEmpty = false := by cases c with | nil => exact absurd rfl hc | cons => rfl
      have hr := run_spec B w cs c we [] hcs
      simp only [List.isEmpty_nil, ↓reduceIte, pop, hce, Bool.false_eq_true]
      refine ⟨?_, hr.2.1, ?_, ?_, hr.2.2.2.2⟩
      · have := hr.1; rw [List.nil_append] at this; simpa [St.rest] using this
      · intro _; simpa [St.rest] using hr.2.2.1 hc
      · intro h; simp [St.rest, hc] at h
  | cons p ps =>
    have hr := run_spec B w inp (p :: ps) we [] hne
    simp only [List.isEmpty_cons, Bool.false_eq_true, ↓reduceIte]
    refine ⟨?_, hr.2.1, ?_, ?_, hr.2.2.2.2⟩
    · have := hr.1; rw [List.nil_append] at this; exact this
    · intro _; exact hr.2.2.1 (by simp)
    · intro h; simp [St.rest] at h

/-- chunking / block independence of the `first` cursor -/
theorem drain_spec (B : Nat) (hB : 1 ≤ B) (w : Win) :
    ∀ (fuel : Nat) (s : State α), Fold.NonEmptyChunks s.st.inp → s.st.rest.length < fuel →
    ∃ arrs, drain (fun s => some (next B w s)) fuel s = some arrs ∧
      arrs.flatten = seqF w s.st.rest s.windowEnd ∧ (∀ a ∈ arrs, a ≠ []) := by
  intro fuel
  induction fuel with
  | zero => intro s _ h; omega
  | succ n ih =>
    intro s hne hlen
    have hn := next_spec B w s hne
    simp only [drain]
    by_cases ho : (next B w s).2.isEmpty = true
    · simp only [ho, ↓reduceIte]
      refine ⟨[], rfl, ?_, by simp⟩
      have ho' : (next B w s).2 = [] := List.isEmpty_iff.mp ho
      rcases hn.2.1 with h | h
      · rw [hn.1, ho', h]; simp [seqF]
      · rw [ho'] at h; simp at h; omega
    · simp only [ho, Bool.false_eq_true, ↓reduceIte]
      have hrest : s.st.rest ≠ [] := by
        intro h; have := (hn.2.2.2.1 h).2; simp [this] at ho
      have hlt := hn.2.2.1 hrest
      obtain ⟨arrs, h1, h2, h3⟩ := ih (next B w s).1 hn.2.2.2.2 (by omega)
      refine ⟨(next B w s).2 :: arrs, by simp [h1], ?_, ?_⟩
      · rw [List.flatten_cons, h2, ← hn.1]
      · intro a ha
        rcases List.mem_cons.mp ha with rfl | ha
        · intro h; simp [h] at ho
        · exact h3 a ha

/-- points at or after `we` stay at or after it further on (time order) -/
theorem seqF_skip (w : Win) (we : Int) :
    ∀ ps : List (Pt α), ps.Pairwise (fun a b => before a.1 (some we) = false → before b.1 (some we) = false) →
    seqF w ps (some we) = seqF w (ps.filter fun q => !before q.1 (some we)) none := by
  intro ps
  induction ps with
  | nil => intro _; rfl
  | cons q qs ih =>
    intro hp
    rw [List.pairwise_cons] at hp
    by_cases hb : before q.1 (some we) = true
    · simp [seqF, hb, ih hp.2]
    · have hb' : before q.1 (some we) = false := by simpa using hb
      have hall : ∀ b ∈ qs, before b.1 (some we) = false := fun b hb2 => hp.1 b hb2 hb'
      have hf : (q :: qs).filter (fun q => !before q.1 (some we)) = q :: qs := by
        rw [List.filter_eq_self]
        intro b hb2
        rcases List.mem_cons.mp hb2 with rfl | hb2
        · simp [hb']
        · simp [hall b hb2]
      rw [hf]
      have e1 : seqF w (q :: qs) (some we) = q :: seqF w qs (some (w.stop q.1)) := by
        simp only [seqF, hb', Bool.false_eq_true, ↓reduceIte]
      have e2 : seqF w (q :: qs) none = q :: seqF w qs (some (w.stop q.1)) := by
        simp only [seqF, before, Bool.false_eq_true, ↓reduceIte]
      rw [e1, e2]

/-- **first cursor = first point of every window** on time-ordered input -/
theorem seqF_eq_aggSpec (o : Ops α) (w : Win) (hw : w.OK) (hz : w.isZero = false) :
    ∀ pts : List (Pt α), Sorted pts → seqF w pts none = aggSpec o .first w.stop pts := by
  intro pts
  fun_induction aggSpec o .first w.stop pts with
  | case1 => intro _; rfl
  | case2 p ps s ih =>
    intro hs
    unfold Sorted at hs
    rw [List.pairwise_cons] at hs
    have hbn : ∀ t we, before t (some we) = !w.newWindow t we := by
      intro t we
      simp only [before, Win.newWindow, hz, Bool.not_false, Bool.true_and]
      by_cases h : t < we <;> simp [h] <;> omega
    have hmono : ps.Pairwise (fun a b => before a.1 (some (w.stop p.1)) = false → before b.1 (some (w.stop p.1)) = false) := by
      refine hs.2.imp ?_
      intro a b hab
      simp only [before, decide_eq_false_iff_not]
      omega
    have hin : ∀ q ∈ ps, (!before q.1 (some (w.stop p.1))) = !(w.stop q.1 == s) := by
      intro q hq
      have := hw.2 p.1 q.1 (hs.1 q hq)
      rw [hbn]
      by_cases h : w.newWindow q.1 (w.stop p.1) = true
      · have hne : ¬ w.stop q.1 = w.stop p.1 := fun he => by simp [this.mpr he] at h
        simp [h, s, hne]
      · have h' : w.newWindow q.1 (w.stop p.1) = false := by simpa using h
        simp [h', s, this.mp h']
    have hf : ps.filter (fun q => !before q.1 (some (w.stop p.1))) = ps.filter (fun q => !(w.stop q.1 == s)) :=
      List.filter_congr hin
    have h1 : seqF w (p :: ps) none = p :: seqF w ps (some (w.stop p.1)) := by simp [seqF, before]
    rw [h1, seqF_skip w _ ps hmono, hf, ih (hs.2.sublist List.filter_sublist)]
    simp [aggregate]

end Influx.WindowAgg.First
