/-
  Lemmas.BackupSeries — the series index of the source shard: every key of a file
  is listed in the index, or all its points in that file are tombstoned.  Needs the
  window test of indirectIndex.DeleteRange (`goneAux`): a key is only dropped from a
  file's index when its tombstones cover its whole time range.
-/
import Influx.Lemmas.BackupClean

namespace Influx.Backup
open Influx.Spec.C38

/-! ### chunks are non-empty -/

theorem chunkAux_ne_nil (n : Nat) (hn : 0 < n) : ∀ (fuel : Nat) (l : List α) (c : List α),
    c ∈ chunkAux n fuel l → c ≠ [] := by
  intro fuel
  induction fuel with
  | zero => intro l c h; simp [chunkAux] at h
  | succ fuel ih =>
    intro l c h
    cases l with
    | nil => simp [chunkAux] at h
    | cons a l =>
      simp only [chunkAux, List.mem_cons] at h
      rcases h with rfl | h
      · cases n with
        | zero => omega
        | succ n => simp
      · exact ih _ _ h

theorem chunk_ne_nil (n : Nat) (l : List α) (c : List α) (h : c ∈ chunk n l) : c ≠ [] := by
  unfold chunk at h
  split at h
  · split at h
    · simp at h
    · next hne => simp at h; subst h; simpa using hne
  · next hn => exact chunkAux_ne_nil n (Nat.pos_of_ne_zero hn) _ _ _ h

theorem mkBlocks_pts_ne {k : Key} {pts : List (TS × Val)} {b : Block} (h : b ∈ mkBlocks k pts) : b.pts ≠ [] := by
  unfold mkBlocks at h
  obtain ⟨c, hc, rfl⟩ := List.mem_map.mp h
  exact chunk_ne_nil _ _ c hc

/-! ### the window test -/

def Cov (l : List (TS × TS)) (t : TS) : Prop := ∃ r ∈ l, r.1 ≤ t ∧ t ≤ r.2

theorem Cov_mono {l l' : List (TS × TS)} {t : TS} (h : Cov l t) (hs : ∀ r ∈ l, r ∈ l') : Cov l' t := by
  obtain ⟨r, hr, h1⟩ := h
  exact ⟨r, hs r hr, h1⟩

theorem windowAux_cov (rest : List (TS × TS)) : ∀ (prev : TS × TS) (mn mx : TS) (S : List (TS × TS)) (a b : TS),
    windowAux prev mn mx rest = some (a, b) →
    (∀ r ∈ rest, r.1 ≤ r.2) → prev.1 ≤ prev.2 → mn ≤ prev.1 → prev.2 ≤ mx →
    (∀ t, mn ≤ t → t ≤ mx → Cov S t) →
    ∀ t, a ≤ t → t ≤ b → Cov (S ++ rest) t := by
  induction rest with
  | nil =>
    intro prev mn mx S a b h _ _ _ _ hcov t ha hb
    simp [windowAux] at h
    obtain ⟨rfl, rfl⟩ := h
    simpa using hcov t ha hb
  | cons ts rest ih =>
    intro prev mn mx S a b h hwf hp hmn hmx hcov t ha hb
    simp only [windowAux] at h
    split at h
    · simp at h
    · next hcond =>
      have hts : ts.1 ≤ ts.2 := hwf ts (by simp)
      have hadj : prev.2 = ts.1 - 1 ∨ (prev.1 ≤ ts.2 ∧ prev.2 ≥ ts.1) := by
        by_cases h1 : prev.2 = ts.1 - 1
        · left; exact h1
        · by_cases h2 : prev.1 ≤ ts.2 ∧ prev.2 ≥ ts.1
          · right; exact h2
          · exfalso; apply hcond
            have e1 : (prev.2 != ts.1 - 1) = true := by simpa using h1
            have e2 : (decide (prev.1 ≤ ts.2) && decide (prev.2 ≥ ts.1)) = false := by
              rw [Bool.and_eq_false_iff]
              by_cases h3 : prev.1 ≤ ts.2
              · right; exact decide_eq_false (fun h4 => h2 ⟨h3, h4⟩)
              · left; exact decide_eq_false h3
            rw [e1, e2]; rfl
      have := ih ts (min mn ts.1) (max mx ts.2) (S ++ [ts]) a b h
        (fun r hr => hwf r (by simp [hr])) hts (Int.min_le_right _ _) (Int.le_max_right _ _)
        (by
          intro t' h1 h2
          by_cases hin : mn ≤ t' ∧ t' ≤ mx
          · exact Cov_mono (hcov t' hin.1 hin.2) (fun r hr => by simp [hr])
          · by_cases hin2 : ts.1 ≤ t' ∧ t' ≤ ts.2
            · exact ⟨ts, by simp, hin2⟩
            · exfalso
              have e1 : min mn ts.1 ≤ t' := h1
              have e2 : t' ≤ max mx ts.2 := h2
              rw [Int.min_def] at e1
              rw [Int.max_def] at e2
              unfold TS at *
              split at e1 <;> split at e2 <;> omega)
        t ha hb
      simpa [List.append_assoc] using this

theorem window_cov (l : List (TS × TS)) (a b : TS) (h : window l = some (a, b))
    (hwf : ∀ r ∈ l, r.1 ≤ r.2) : ∀ t, a ≤ t → t ≤ b → Cov l t := by
  cases l with
  | nil => simp [window] at h
  | cons r rest =>
    simp only [window] at h
    intro t ha hb
    have := windowAux_cov rest r r.1 r.2 [r] a b h (fun x hx => hwf x (by simp [hx])) (hwf r (by simp))
      (Int.le_refl _) (Int.le_refl _) (fun t' h1 h2 => ⟨r, by simp, h1, h2⟩) t ha hb
    simpa using this

theorem mem_insertRange {r x : TS × TS} {l : List (TS × TS)} : x ∈ insertRange r l ↔ x = r ∨ x ∈ l := by
  induction l with
  | nil => simp [insertRange]
  | cons b l ih =>
    unfold insertRange
    split
    · simp
    · simp [ih]; constructor
      · rintro (h | h | h) <;> simp [h]
      · rintro (h | h | h) <;> simp [h]

/-- when the index drops a key, every time of the key's range is covered by a tombstone range -/
theorem goneAux_cov (kmin kmax : TS) (ranges : List (TS × TS)) : ∀ (rec : List (TS × TS)),
    goneAux kmin kmax rec ranges = true → (∀ r ∈ rec ++ ranges, r.1 ≤ r.2) →
    ∀ t, kmin ≤ t → t ≤ kmax → Cov (rec ++ ranges) t := by
  induction ranges with
  | nil => intro rec h; simp [goneAux] at h
  | cons r rest ih =>
    intro rec h hwf t h1 h2
    have hwf' : ∀ x ∈ rec ++ rest, x.1 ≤ x.2 := fun x hx => hwf x (by
      rcases List.mem_append.mp hx with hx | hx
      · simp [hx]
      · simp [hx])
    simp only [goneAux] at h
    split at h
    · exact Cov_mono (ih rec h hwf' t h1 h2) (fun x hx => by
        rcases List.mem_append.mp hx with hx | hx
        · simp [hx]
        · simp [hx])
    · split at h
      · next hcover =>
        simp only [Bool.and_eq_true, decide_eq_true_eq] at hcover
        refine ⟨r, by simp, ?_, ?_⟩
        · exact Int.le_trans hcover.1 h1
        · exact Int.le_trans h2 hcover.2
      · have hwfi : ∀ x ∈ insertRange r rec ++ rest, x.1 ≤ x.2 := fun x hx => hwf x (by
          rcases List.mem_append.mp hx with hx | hx
          · rcases mem_insertRange.mp hx with rfl | hx
            · simp
            · simp [hx]
          · simp [hx])
        have hback : ∀ x ∈ insertRange r rec ++ rest, x ∈ rec ++ r :: rest := fun x hx => by
          rcases List.mem_append.mp hx with hx | hx
          · rcases mem_insertRange.mp hx with rfl | hx
            · simp
            · simp [hx]
          · simp [hx]
        split at h
        · next mn mx hw =>
          split at h
          · next hc =>
            simp only [Bool.and_eq_true, decide_eq_true_eq] at hc
            have := window_cov _ mn mx hw (fun x hx => hwfi x (by simp [hx])) t
              (Int.le_trans hc.1 h1) (Int.le_trans h2 hc.2)
            exact Cov_mono this (fun x hx => hback x (by simp [hx]))
          · exact Cov_mono (ih _ h hwfi t h1 h2) hback
        · exact Cov_mono (ih _ h hwfi t h1 h2) hback

/-- every point of key k in file f is tombstoned -/
def AllTombstoned (f : TFile) (k : Key) : Prop :=
  ∀ b ∈ f.blocks, b.key = k → ∀ p ∈ b.pts, f.tombstoned k p.1 = true

theorem keyMin_le {f : TFile} {b : Block} (hb : b ∈ f.blocks) : f.keyMin b.key ≤ b.lo :=
  listMin_le (List.mem_map.mpr ⟨b, by simp [hb], rfl⟩)

theorem le_keyMax {f : TFile} {b : Block} (hb : b ∈ f.blocks) : b.hi ≤ f.keyMax b.key :=
  le_listMax (List.mem_map.mpr ⟨b, by simp [hb], rfl⟩)

/-- **a key dropped from a file's index has all its points tombstoned** -/
theorem gone_allTombstoned (f : TFile) (hw : ∀ b ∈ f.blocks, b.WF) (htw : ∀ tb ∈ f.tombs, tb.lo ≤ tb.hi)
    (k : Key) (hg : f.gone k = true) : AllTombstoned f k := by
  intro b hb hk p hp
  unfold TFile.gone at hg
  have hwf : ∀ r ∈ ([] : List (TS × TS)) ++ (f.tombs.filter (·.key == k)).map (fun tb => (tb.lo, tb.hi)), r.1 ≤ r.2 := by
    intro r hr
    simp only [List.nil_append, List.mem_map, List.mem_filter] at hr
    obtain ⟨tb, ⟨htb, _⟩, rfl⟩ := hr
    exact htw tb htb
  have hbounds := hw b hb p hp
  have h1 : f.keyMin k ≤ p.1 := by rw [← hk]; exact Int.le_trans (keyMin_le hb) hbounds.1
  have h2 : p.1 ≤ f.keyMax k := by rw [← hk]; exact Int.le_trans hbounds.2 (le_keyMax hb)
  obtain ⟨r, hr, hr1, hr2⟩ := goneAux_cov _ _ _ [] hg hwf p.1 h1 h2
  simp only [List.nil_append, List.mem_map, List.mem_filter] at hr
  obtain ⟨tb, ⟨htb, htk⟩, rfl⟩ := hr
  unfold TFile.tombstoned
  rw [List.any_eq_true]
  refine ⟨tb, htb, ?_⟩
  simp only [Tomb.covers, Bool.and_eq_true, decide_eq_true_eq]
  exact ⟨⟨htk, hr1⟩, hr2⟩

/-! ### the series invariant -/

structure Shard.Inv2 (s : Shard) : Prop where
  ptsNe : ∀ f ∈ s.files, ∀ b ∈ f.blocks, b.pts ≠ []
  tombsWF : ∀ f ∈ s.files, ∀ tb ∈ f.tombs, tb.lo ≤ tb.hi
  cacheIn : ∀ e ∈ s.cache, e.1 ∈ s.series
  fileKeys : ∀ f ∈ s.files, ∀ b ∈ f.blocks, b.key ∈ s.series ∨ AllTombstoned f b.key

theorem Shard.Inv2_empty : Shard.empty.Inv2 :=
  ⟨by simp [Shard.empty], by simp [Shard.empty], by simp [Shard.empty], by simp [Shard.empty]⟩

theorem Shard.Inv2.seriesOK {s : Shard} (hi : s.Inv) (h : s.Inv2) : s.seriesOK = true := by
  unfold Shard.seriesOK
  cases hall : s.files.all (fun f => f.tombM.isNone) with
  | false => rfl
  | true =>
    simp only [Bool.not_true, Bool.false_or, List.all_eq_true]
    intro f hf b hb
    rw [List.all_eq_true] at hall
    have htm : f.tombM = none := by simpa using hall f hf
    have hnt : f.tombs = [] := (hi.wf f hf).2.1 htm
    rcases h.fileKeys f hf b hb with hk | hk
    · simpa using hk
    · exfalso
      obtain ⟨p, hp⟩ := List.exists_mem_of_ne_nil _ (h.ptsNe f hf b hb)
      have := hk b hb rfl p hp
      simp [TFile.tombstoned, hnt] at this

theorem Shard.Inv2_write (s : Shard) (h : s.Inv2) (k : Key) (t0 step : Int) (n : Nat) (v0 : Int) :
    (s.write k t0 step n v0).Inv2 := by
  have hsub : ∀ x ∈ s.series, x ∈ (if s.series.contains k then s.series else insertKey k s.series) := by
    intro x hx; split
    · exact hx
    · exact mem_insertKey.mpr (Or.inr hx)
  have hk : k ∈ (if s.series.contains k then s.series else insertKey k s.series) := by
    split
    · next hc => simpa using hc
    · exact mem_insertKey.mpr (Or.inl rfl)
  refine ⟨h.ptsNe, h.tombsWF, ?_, ?_⟩
  · intro e he
    rcases writePts_mem k step n t0 v0 s.cache e he with h1 | h1
    · rw [h1]; exact hk
    · exact hsub _ (h.cacheIn e h1)
  · intro f hf b hb
    rcases h.fileKeys f hf b hb with h1 | h1
    · exact Or.inl (hsub _ h1)
    · exact Or.inr h1

theorem flushBlocks_pts_ne {c : Cache} {b : Block} (h : b ∈ flushBlocks c) : b.pts ≠ [] := by
  unfold flushBlocks at h
  obtain ⟨k, _, hb⟩ := List.mem_flatMap.mp h
  exact mkBlocks_pts_ne hb

theorem compactBlocks_pts_ne {fs : List TFile} {b : Block} (h : b ∈ compactBlocks fs) : b.pts ≠ [] := by
  unfold compactBlocks at h
  obtain ⟨k, _, hb⟩ := List.mem_flatMap.mp h
  exact mkBlocks_pts_ne hb

theorem Shard.Inv2_noteRead (s : Shard) (h : s.Inv2) : s.noteRead.Inv2 := by
  unfold Shard.noteRead
  split
  · exact ⟨h.ptsNe, h.tombsWF, h.cacheIn, h.fileKeys⟩
  · exact h

theorem Shard.Inv2_flush (s : Shard) (h : s.Inv2) : s.flush.Inv2 := by
  unfold Shard.flush
  split
  · split
    · exact ⟨h.ptsNe, h.tombsWF, h.cacheIn, h.fileKeys⟩
    · exact h
  · refine ⟨?_, ?_, by simp, ?_⟩
    · intro f hf b hb
      rcases List.mem_append.mp hf with hf | hf
      · exact h.ptsNe f hf b hb
      · split at hf
        · simp at hf
        · simp at hf; subst hf; exact flushBlocks_pts_ne hb
    · intro f hf tb htb
      rcases List.mem_append.mp hf with hf | hf
      · exact h.tombsWF f hf tb htb
      · split at hf
        · simp at hf
        · simp at hf; subst hf; simp at htb
    · intro f hf b hb
      rcases List.mem_append.mp hf with hf | hf
      · exact h.fileKeys f hf b hb
      · split at hf
        · simp at hf
        · simp at hf; subst hf
          obtain ⟨e, he, hk⟩ := flushBlocks_key hb
          left; rw [← hk]; exact h.cacheIn e he

theorem Shard.Inv2_age (s : Shard) (h : s.Inv2) (sec : Int) : (s.age sec).Inv2 := by
  unfold Shard.age
  refine ⟨?_, ?_, h.cacheIn, ?_⟩
  · intro f hf b hb
    obtain ⟨g, hg, rfl⟩ := List.mem_map.mp hf
    exact h.ptsNe g hg b hb
  · intro f hf tb htb
    obtain ⟨g, hg, rfl⟩ := List.mem_map.mp hf
    exact h.tombsWF g hg tb htb
  · intro f hf b hb
    obtain ⟨g, hg, rfl⟩ := List.mem_map.mp hf
    exact h.fileKeys g hg b hb

/-- a key that keeps a live point through a compaction is listed in the index -/
theorem Shard.Inv2_compact (s : Shard) (h : s.Inv2) : s.compact.Inv2 := by
  unfold Shard.compact
  split
  · exact h
  · simp only []
    split
    · exact ⟨by simp, by simp, h.cacheIn, by simp⟩
    · refine ⟨?_, ?_, h.cacheIn, ?_⟩
      · intro f hf b hb; simp at hf; subst hf; exact compactBlocks_pts_ne hb
      · intro f hf tb htb; simp at hf; subst hf; simp at htb
      · intro f hf b hb
        simp at hf; subst hf
        left
        -- b is a block of key k made of the live points of k: it has one
        simp only [] at hb
        unfold compactBlocks at hb
        obtain ⟨k, _, hbk⟩ := List.mem_flatMap.mp hb
        have hkey := mkBlocks_key hbk
        obtain ⟨p, hp⟩ := List.exists_mem_of_ne_nil _ (mkBlocks_pts_ne hbk)
        -- p is one of filesPts k
        have hpin : p ∈ filesPts s.files k := by
          unfold mkBlocks at hbk
          obtain ⟨c, hc, rfl⟩ := List.mem_map.mp hbk
          have : p ∈ (chunk blockSize (filesPts s.files k)).flatten := List.mem_flatten.mpr ⟨c, hc, hp⟩
          rwa [chunk_flatten] at this
        unfold filesPts at hpin
        obtain ⟨t, _, hv⟩ := List.mem_filterMap.mp hpin
        cases hl : filesLookup s.files k t with
        | none => simp [hl] at hv
        | some v =>
          obtain ⟨g, hg, hgl⟩ := filesLookup_some hl
          have hnot : g.tombstoned k t = false := by
            unfold TFile.lookup at hgl
            split at hgl
            · simp at hgl
            · next hn => simpa using hn
          obtain ⟨b', hb', hbl⟩ := blocksLookup_some (lookup_some_raw hgl)
          obtain ⟨hk', hm⟩ := Block.lookup_some_mem hbl
          rcases h.fileKeys g hg b' hb' with h1 | h1
          · rw [hkey, ← hk']; exact h1
          · exfalso
            have := h1 b' hb' rfl (t, v) hm
            rw [hk'] at this
            simp [hnot] at this

/-! ### deletes -/

theorem tombstoned_mono (f : TFile) (extra : List Tomb) (k : Key) (t : TS)
    (h : f.tombstoned k t = true) :
    ({ f with tombs := f.tombs ++ extra } : TFile).tombstoned k t = true := by
  unfold TFile.tombstoned at *
  rw [List.any_append, h]; rfl

theorem deleteRange_tombstoned (f : TFile) (ks : List Key) (lo hi : TS) (k : Key) (t : TS)
    (h : f.tombstoned k t = true) : (f.deleteRange ks lo hi).tombstoned k t = true := by
  unfold TFile.deleteRange
  split
  · exact h
  · dsimp only
    split
    · exact h
    · exact tombstoned_mono f _ k t h

theorem deleteRange_allTombstoned (f : TFile) (ks : List Key) (lo hi : TS) (k : Key)
    (h : AllTombstoned f k) : AllTombstoned (f.deleteRange ks lo hi) k := by
  intro b hb hk p hp
  rw [deleteRange_blocks] at hb
  exact deleteRange_tombstoned f ks lo hi k p.1 (h b hb hk p hp)

theorem deleteRange_tombs_wf (f : TFile) (ks : List Key) (lo hi : TS) (hlh : lo ≤ hi)
    (h : ∀ tb ∈ f.tombs, tb.lo ≤ tb.hi) : ∀ tb ∈ (f.deleteRange ks lo hi).tombs, tb.lo ≤ tb.hi := by
  unfold TFile.deleteRange
  split
  · exact h
  · dsimp only
    split
    · exact h
    · intro tb htb
      rcases List.mem_append.mp htb with h1 | h1
      · exact h tb h1
      · obtain ⟨k, _, rfl⟩ := List.mem_map.mp h1
        exact hlh

theorem mem_keys {f : TFile} {b : Block} (hb : b ∈ f.blocks) : b.key ∈ f.keys := by
  unfold TFile.keys
  rw [mem_sortKeys]
  exact List.mem_map.mpr ⟨b, hb, rfl⟩

theorem Shard.Inv2_delete (s : Shard) (hi : s.Inv) (h : s.Inv2) (ks : List Key) (lo hi' : TS) (hlh : lo ≤ hi') :
    (s.delete ks lo hi').Inv2 := by
  unfold Shard.delete
  split
  · exact h
  · refine ⟨?_, ?_, ?_, ?_⟩
    · intro f hf b hb
      obtain ⟨g, hg, rfl⟩ := List.mem_map.mp hf
      rw [deleteRange_blocks] at hb
      exact h.ptsNe g hg b hb
    · intro f hf
      obtain ⟨g, hg, rfl⟩ := List.mem_map.mp hf
      exact deleteRange_tombs_wf g ks lo hi' hlh (h.tombsWF g hg)
    · -- cache entries that remain keep their series
      intro e he
      have hmem := List.mem_filter.mp he
      simp only [List.mem_filter]
      refine ⟨h.cacheIn e hmem.1, ?_⟩
      by_cases hk : ks.contains e.1 = true
      · simp only [hk, Bool.not_true, Bool.false_or]
        rw [Bool.or_eq_true]
        right
        rw [List.any_eq_true]
        exact ⟨e, he, by simp⟩
      · have hk' : ks.contains e.1 = false := by simpa using hk
        rw [hk']; rfl
    · intro f hf b hb
      obtain ⟨g, hg, rfl⟩ := List.mem_map.mp hf
      have hb' : b ∈ g.blocks := by rwa [deleteRange_blocks] at hb
      rcases h.fileKeys g hg b hb' with h1 | h1
      · -- listed before: still listed, or dropped because no file keeps the key live
        by_cases hkeep : (!ks.contains b.key ||
            ((s.files.map (fun f => f.deleteRange ks lo hi')).any (fun f => f.liveKeys.contains b.key) ||
             (s.cache.filter (fun e => !(ks.contains e.1 && decide (lo ≤ e.2.1) && decide (e.2.1 ≤ hi')))).any
               (fun e => e.1 == b.key))) = true
        · left
          simp only [List.mem_filter]
          exact ⟨h1, hkeep⟩
        · right
          -- not kept: in particular not live in this file
          have hnl : (g.deleteRange ks lo hi').liveKeys.contains b.key = false := by
            cases hc : (g.deleteRange ks lo hi').liveKeys.contains b.key with
            | false => rfl
            | true =>
              exfalso; apply hkeep
              rw [Bool.or_eq_true]; right
              rw [Bool.or_eq_true]; left
              rw [List.any_eq_true]
              exact ⟨_, List.mem_map.mpr ⟨g, hg, rfl⟩, hc⟩
          have hgone : (g.deleteRange ks lo hi').gone b.key = true := by
            cases hgo : (g.deleteRange ks lo hi').gone b.key with
            | true => rfl
            | false =>
              exfalso
              have : b.key ∈ (g.deleteRange ks lo hi').liveKeys := by
                unfold TFile.liveKeys
                rw [List.mem_filter]
                exact ⟨mem_keys hb, by simp [hgo]⟩
              have hc : (g.deleteRange ks lo hi').liveKeys.contains b.key = true := by simpa using this
              rw [hnl] at hc; simp at hc
          exact gone_allTombstoned _ (by rw [deleteRange_blocks]; exact (hi.wf g hg).1)
            (deleteRange_tombs_wf g ks lo hi' hlh (h.tombsWF g hg)) b.key hgone
      · exact Or.inr (deleteRange_allTombstoned g ks lo hi' b.key h1)

theorem step_Inv2 (st : State) (op : Op) (hi : st.src.Inv) (h : st.src.Inv2) : (step st op).1.src.Inv2 := by
  cases op with
  | write k t0 sp n v0 =>
    simp only [step]; split
    · exact h
    · exact Shard.Inv2_write _ h _ _ _ _ _
  | delete ks lo hi' =>
    simp only [step]; split
    · exact h
    · next hc =>
      have hlh : lo ≤ hi' := by
        simp only [Bool.or_eq_true, decide_eq_true_eq, not_or] at hc
        exact Int.not_lt.mp hc.2
      exact Shard.Inv2_delete _ hi h _ _ _ hlh
  | snap => exact Shard.Inv2_flush _ h
  | compact => exact Shard.Inv2_compact _ h
  | age sec =>
    simp only [step]; split
    · exact h
    · exact Shard.Inv2_age _ h _
  | backup id since => exact Shard.Inv2_flush _ h
  | «export» id a e =>
    simp only [step]; split
    · exact h
    · simp only [Shard.export]
      split
      · next heq => simp at heq; rw [← heq.1]; exact Shard.Inv2_flush _ h
      · next heq => simp at heq; simp only [State.put]; rw [← heq.1]; exact Shard.Inv2_flush _ h
  | restore ids =>
    simp only [step]; split
    · exact h
    · split <;> exact h
  | importA ids =>
    simp only [step]; split <;> exact h
  | dump => exact Shard.Inv2_noteRead _ h
  | bigcase n imp => simp only [step]; split <;> exact h

/-- **the side condition of the series clause holds along every run** -/
theorem seriesAlong_all (ops : List Op) (st : State) (hi : st.src.Inv) (h : st.src.Inv2) :
    SeriesAlong st ops := by
  induction ops generalizing st with
  | nil => trivial
  | cons op rest ih =>
    have hi' := step_Inv st op hi
    have h' := step_Inv2 st op hi h
    exact ⟨h'.seriesOK hi', ih _ hi' h'⟩

end Influx.Backup
