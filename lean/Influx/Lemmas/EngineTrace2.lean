/-
  Lemmas.EngineTrace2 — along any run of the schedule machine without two-phase
  reads, the statement checker Spec.C39 finds every atomic read explained.
-/
import Influx.Lemmas.EngineTrace1
import Influx.Lemmas.EngineInv

namespace Influx.Conc
open Influx.Spec.C39

theorem mem_union {a b : List (Option Val)} {x : Option Val} : x ∈ union a b ↔ x ∈ a ∨ x ∈ b := by
  unfold union
  induction b generalizing a with
  | nil => simp
  | cons y b ih =>
    simp only [List.foldl_cons]
    rw [ih]
    by_cases hc : a.contains y = true
    · simp only [hc, if_true]
      have : y ∈ a := by simpa using hc
      constructor
      · rintro (h | h)
        · exact Or.inl h
        · exact Or.inr (by simp [h])
      · rintro (h | h)
        · exact Or.inl h
        · rcases List.mem_cons.mp h with rfl | h
          · exact Or.inl this
          · exact Or.inr h
    · have hc' : a.contains y = false := by simpa using hc
      simp only [hc', Bool.false_eq_true, if_false, List.mem_append, List.mem_singleton]
      constructor
      · rintro ((h | rfl) | h)
        · exact Or.inl h
        · exact Or.inr (by simp)
        · exact Or.inr (by simp [h])
      · rintro (h | h)
        · exact Or.inl (Or.inl h)
        · rcases List.mem_cons.mp h with rfl | h
          · exact Or.inl (Or.inr rfl)
          · exact Or.inr h

/-- the relation between the schedule machine and the checker's bookkeeping -/
structure Rel (y : Sys) (s : SpecSt) : Prop where
  inv : Inv y.st
  infl : s.inflight = y.deleting
  noReaders : s.readers = []
  delIdle : y.deleting.isSome = true → y.st.phase = .idle ∧ y.compacting = none
  delFiles : ∀ k lo hi, y.deleting = some (k, lo, hi) → ∀ t, lo ≤ t → t ≤ hi → y.st.filesView k t = none
  adm : ∀ k t, y.st.abs k t ∈ s.adm k t
  racing : ∀ p ∈ s.pts, p.racing = true → none ∈ p.adm

theorem Rel_init : Rel Sys.init SpecSt.init :=
  ⟨Inv_init, rfl, rfl, fun h => by simp [Sys.init] at h, fun _ _ _ h => by simp [Sys.init] at h,
   fun k t => by simp [Sys.init, St.init, St.abs, St.cacheView, St.filesView, filesGet, Store.get, SpecSt.adm, SpecSt.init],
   fun p hp => by simp [SpecSt.init] at hp⟩

theorem noteReaders_nil (k : Key) (t : TS) (v : List (Option Val)) : noteReaders [] k t v = [] := rfl

theorem mapRange_readers_nil (s : SpecSt) (h : s.readers = []) (k : Key) (lo hi : TS) (f : PInfo → PInfo) :
    (mapRange s k lo hi f).readers = [] := by
  unfold mapRange
  simp only [h]
  generalize (s.pts.map fun p => if covers (k, lo, hi) p.k p.t = true then f p else p) = l
  induction l with
  | nil => rfl
  | cons p l ih =>
    simp only [List.foldl_cons]
    split
    · simpa [noteReaders_nil] using ih
    · exact ih

theorem find_mem {l : List PInfo} {k : Key} {t : TS} {p : PInfo} (h : l.find? (ptPred k t) = some p) : p ∈ l :=
  List.mem_of_find?_eq_some h

/-- the invariant of an idle shard survives any change of cache and files -/
theorem Inv_of_idle {s s' : St} (hi : Inv s) (hp : s.phase = .idle) (hp' : s'.phase = s.phase)
    (hs : s'.snap = s.snap) : Inv s' :=
  ⟨fun _ => by rw [hs]; exact hi.idle hp, fun h => by rw [hp', hp] at h; cases h⟩

theorem covers_iff (k : Key) (lo hi : TS) (k' : Key) (t' : TS) :
    covers (k, lo, hi) k' t' = (k == k' && decide (lo ≤ t') && decide (t' ≤ hi)) := rfl

theorem abs_delFilesAll (s : St) (k : Key) (lo hi : TS) (k' : Key) (t' : TS) :
    (delFilesAll s k lo hi).abs k' t' =
      (s.cacheView k' t').or (if covers (k, lo, hi) k' t' then none else s.filesView k' t') := by
  have e1 : (delFilesAll s k lo hi).abs k' t' = (s.cacheView k' t').or
      (filesGet (s.files.map (fun f => { f with tombs := { key := k, lo := lo, hi := hi } :: f.tombs })) k' t') := rfl
  rw [e1, filesGet_delAll]
  rfl

/-- the abstract content after a whole delete (tombstones in every file, then the cache) -/
theorem abs_after_delete (s : St) (hsnap : s.snap = []) (k : Key) (lo hi : TS) (k' : Key) (t' : TS) :
    (step (delFilesAll s k lo hi) (.delCache k lo hi)).abs k' t' =
      if (k == k' && decide (lo ≤ t') && decide (t' ≤ hi)) = true then none else s.abs k' t' := by
  have e1 : (step (delFilesAll s k lo hi) (.delCache k lo hi)).abs k' t' =
      ((Store.get (s.cache.filter (fun e => !inRange k lo hi e)) k' t').or (s.snap.get k' t')).or
        (filesGet (s.files.map (fun f => { f with tombs := { key := k, lo := lo, hi := hi } :: f.tombs })) k' t') := rfl
  rw [e1, hsnap, filesGet_delAll, get_nil, Option.or_none]
  by_cases hcv : (k == k' && decide (lo ≤ t') && decide (t' ≤ hi)) = true
  · rw [if_pos hcv, if_pos hcv]
    simp only [Bool.and_eq_true, beq_iff_eq, decide_eq_true_eq] at hcv
    obtain ⟨⟨rfl, h1⟩, h2⟩ := hcv
    rw [Store.get_filter_in _ _ _ _ _ h1 h2]; rfl
  · have hcv' : (k == k' && decide (lo ≤ t') && decide (t' ≤ hi)) = false := by simpa using hcv
    rw [if_neg hcv, if_neg hcv, Store.get_filter_other _ _ _ _ _ _ hcv']
    simp [St.abs, St.cacheView, St.filesView, hsnap, get_nil]

/-- the abstract content after the cache step of a delete whose tombstones are in place -/
theorem abs_after_delCache (s : St) (hsnap : s.snap = []) (k : Key) (lo hi : TS)
    (hfiles : ∀ t, lo ≤ t → t ≤ hi → s.filesView k t = none) (k' : Key) (t' : TS) :
    (step s (.delCache k lo hi)).abs k' t' =
      if (k == k' && decide (lo ≤ t') && decide (t' ≤ hi)) = true then none else s.abs k' t' := by
  have e1 : (step s (.delCache k lo hi)).abs k' t' =
      ((Store.get (s.cache.filter (fun e => !inRange k lo hi e)) k' t').or (s.snap.get k' t')).or
        (filesGet s.files k' t') := rfl
  rw [e1, hsnap, get_nil, Option.or_none]
  by_cases hcv : (k == k' && decide (lo ≤ t') && decide (t' ≤ hi)) = true
  · rw [if_pos hcv]
    simp only [Bool.and_eq_true, beq_iff_eq, decide_eq_true_eq] at hcv
    obtain ⟨⟨rfl, h1⟩, h2⟩ := hcv
    have := hfiles t' h1 h2
    simp only [St.filesView] at this
    rw [Store.get_filter_in _ _ _ _ _ h1 h2, this]; rfl
  · have hcv' : (k == k' && decide (lo ≤ t') && decide (t' ≤ hi)) = false := by simpa using hcv
    rw [if_neg hcv, Store.get_filter_other _ _ _ _ _ _ hcv']
    simp [St.abs, St.cacheView, St.filesView, hsnap, get_nil]

theorem mem_ite_of {α : Type} {c : Prop} [Decidable c] {a b : List α} {x : α} (ha : x ∈ a) (hb : x ∈ b) :
    x ∈ (if c then a else b) := by
  split <;> assumption

theorem list_mem_of_contains {l : List (Option Val)} {x : Option Val} (h : x ∈ l) : l.contains x = true := by
  simpa using h

/-- one operation (not a two-phase read): nothing reported, relation kept -/
theorem judge_sys (y : Sys) (s : SpecSt) (hr : Rel y s) (op : Op) (hop : op.twoPhase = false) :
    (judge s op (sysStep y op).2).1 = [] ∧ Rel (sysStep y op).1 (judge s op (sysStep y op).2).2 := by
  cases op with
  | readBegin r k => simp [Op.twoPhase] at hop
  | readEnd r => simp [Op.twoPhase] at hop
  | write k t v =>
    simp only [sysStep]
    split
    · exact ⟨rfl, hr⟩
    · refine ⟨rfl, ?_⟩
      simp only [judge]
      refine ⟨Inv_step y.st hr.inv (.wr k t v) (by simp [admissible, Step.isDelete]), by rw [setPoint_inflight]; exact hr.infl,
        by simp [setPoint, hr.noReaders, noteReaders_nil], hr.delIdle, hr.delFiles, ?_, ?_⟩
      · intro k' t'
        rw [abs_write, adm_setPoint]
        by_cases hkt : k' = k ∧ t' = t
        · simp only [hkt, and_self, if_true]
          exact mem_ite_of (by simp) (by simp)
        · simp only [hkt, if_false]; exact hr.adm k' t'
      · intro p hp hrac
        unfold setPoint at hp
        simp only at hp
        split at hp
        · obtain ⟨q, hq, rfl⟩ := List.mem_map.mp hp
          split at hrac
          · next hm =>
            simp only [hm, if_true] at hrac ⊢
            rw [if_pos hrac]; simp
          · next hm => simp only [hm] at hrac ⊢; exact hr.racing q hq hrac
        · rcases List.mem_cons.mp hp with rfl | hp
          · simp only at hrac ⊢; rw [if_pos hrac]; simp
          · exact hr.racing p hp hrac
  | snapBegin =>
    simp only [sysStep]
    split
    · exact ⟨rfl, hr⟩
    · next hc =>
      have hdel : y.deleting = none := by
        cases hd : y.deleting with
        | none => rfl
        | some d => simp [hd] at hc
      refine ⟨rfl, Inv_step y.st hr.inv .snapBegin (by simp [admissible, Step.isDelete]), hr.infl, hr.noReaders,
        fun h => by simp [hdel] at h, fun k lo hi h => by simp [hdel] at h, ?_, hr.racing⟩
      intro k t
      rw [maintenance_invisible y.st hr.inv .snapBegin (by rfl)]
      exact hr.adm k t
  | snapReplace =>
    simp only [sysStep]
    split
    · exact ⟨rfl, hr⟩
    · next hc =>
      have hph : y.st.phase = .begun := by simpa using hc
      have hdel : y.deleting = none := by
        cases hd : y.deleting with
        | none => rfl
        | some d => have := (hr.delIdle (by simp [hd])).1; rw [hph] at this; cases this
      refine ⟨rfl, Inv_step y.st hr.inv .snapReplace (by simp [admissible, Step.isDelete]), hr.infl, hr.noReaders,
        fun h => by simp [hdel] at h, fun k lo hi h => by simp [hdel] at h, ?_, hr.racing⟩
      intro k t
      rw [maintenance_invisible y.st hr.inv .snapReplace (by rfl)]
      exact hr.adm k t
  | snapClear =>
    simp only [sysStep]
    split
    · exact ⟨rfl, hr⟩
    · next hc =>
      have hph : y.st.phase = .replaced := by simpa using hc
      have hdel : y.deleting = none := by
        cases hd : y.deleting with
        | none => rfl
        | some d => have := (hr.delIdle (by simp [hd])).1; rw [hph] at this; cases this
      refine ⟨rfl, Inv_step y.st hr.inv .snapClear (by simp [admissible, Step.isDelete]), hr.infl, hr.noReaders,
        fun h => by simp [hdel] at h, fun k lo hi h => by simp [hdel] at h, ?_, hr.racing⟩
      intro k t
      rw [maintenance_invisible y.st hr.inv .snapClear (by rfl)]
      exact hr.adm k t
  | compactBegin =>
    simp only [sysStep]
    split
    · exact ⟨rfl, hr⟩
    · next hc =>
      have hdel : y.deleting = none := by
        cases hd : y.deleting with
        | none => rfl
        | some d => simp [hd] at hc
      exact ⟨rfl, hr.inv, hr.infl, hr.noReaders, fun h => by simp [hdel] at h,
        fun k lo hi h => by simp [hdel] at h, hr.adm, hr.racing⟩
  | compactCommit =>
    simp only [sysStep]
    cases hcp : y.compacting with
    | none => exact ⟨rfl, hr⟩
    | some n =>
      have hdel : y.deleting = none := by
        cases hd : y.deleting with
        | none => rfl
        | some d => have := (hr.delIdle (by simp [hd])).2; rw [hcp] at this; cases this
      refine ⟨rfl, Inv_step y.st hr.inv (.compact n) (by simp [admissible, Step.isDelete]), hr.infl, hr.noReaders,
        fun h => by simp [hdel] at h, fun k lo hi h => by simp [hdel] at h, ?_, hr.racing⟩
      intro k t
      rw [maintenance_invisible y.st hr.inv (.compact n) (by rfl)]
      exact hr.adm k t
  | read k =>
    simp only [sysStep]
    split
    · exact ⟨rfl, hr⟩
    · refine ⟨?_, hr⟩
      simp only [judge]
      have : readOK s k (y.st.readKey k) = true := by
        unfold readOK
        rw [Bool.and_eq_true, List.all_eq_true, List.all_eq_true]
        constructor
        · intro p _
          by_cases hk : p.k = k
          · have := hr.adm k p.t
            rw [← lookup_readKey] at this
            simp only [hk, observed, bne_self_eq_false, Bool.false_or]
            exact list_mem_of_contains this
          · simp [hk]
        · intro e he
          have := mem_readKey (s := y.st) (k := k) (t := e.1) (v := e.2) he
          have hm := hr.adm k e.1
          rw [this] at hm
          exact list_mem_of_contains hm
      simp [this]
  | delete k lo hi =>
    simp only [sysStep]
    split
    · exact ⟨rfl, hr⟩
    · split
      · exact ⟨rfl, hr⟩
      · next hc =>
        simp only [Bool.or_eq_true, bne_iff_ne, ne_eq, not_or, Decidable.not_not] at hc
        have hph : y.st.phase = .idle := hc.1.1
        have hdel : y.deleting = none := by
          cases hd : y.deleting with
          | none => rfl
          | some d => simp [hd] at hc
        have hsnap : y.st.snap = [] := hr.inv.idle hph
        refine ⟨rfl, ?_⟩
        simp only [judge]
        have hf : ∀ p : PInfo, ({ p with adm := [none], racing := false } : PInfo).k = p.k ∧
            ({ p with adm := [none], racing := false } : PInfo).t = p.t := fun p => ⟨rfl, rfl⟩
        refine ⟨Inv_of_idle hr.inv hph rfl rfl, by rw [mapRange_inflight]; exact hr.infl,
          mapRange_readers_nil s hr.noReaders _ _ _ _, fun h => by simp [hdel] at h,
          fun k' lo' hi' h => by simp [hdel] at h, ?_, ?_⟩
        · intro k' t'
          rw [adm_mapRange s k lo hi _ hf]
          have habs : (step (delFilesAll y.st k lo hi) (.delCache k lo hi)).abs k' t' =
              if covers (k, lo, hi) k' t' = true then none else y.st.abs k' t' :=
            abs_after_delete y.st hsnap k lo hi k' t'
          rw [habs]
          cases hfd : s.pts.find? (ptPred k' t') with
          | none =>
            simp only
            have hold := hr.adm k' t'
            rw [adm_eq, hfd] at hold
            split
            · simp
            · exact hold
          | some p =>
            simp only
            have hold := hr.adm k' t'
            rw [adm_eq, hfd] at hold
            split
            · simp
            · exact hold
        · intro p hp hrac
          unfold mapRange at hp
          simp only at hp
          obtain ⟨q, hq, rfl⟩ := List.mem_map.mp hp
          split at hrac
          · simp at hrac
          · next hm => simp only [hm] at hrac ⊢; exact hr.racing q hq hrac
  | delBegin k lo hi =>
    simp only [sysStep]
    split
    · exact ⟨rfl, hr⟩
    · split
      · exact ⟨rfl, hr⟩
      · next hc =>
        simp only [Bool.or_eq_true, bne_iff_ne, ne_eq, not_or, Decidable.not_not] at hc
        have hph : y.st.phase = .idle := hc.1.1
        have hcomp : y.compacting = none := by
          cases hd : y.compacting with
          | none => rfl
          | some d => simp [hd] at hc
        have hdel : y.deleting = none := by
          cases hd : y.deleting with
          | none => rfl
          | some d => simp [hd] at hc
        have hsnap : y.st.snap = [] := hr.inv.idle hph
        split
        · -- nothing overlaps: the delete returned at once, nothing in range
          next hnoop =>
          refine ⟨rfl, ?_⟩
          simp only [judge]
          have hf : ∀ p : PInfo, ({ p with adm := [none], racing := false } : PInfo).k = p.k ∧
              ({ p with adm := [none], racing := false } : PInfo).t = p.t := fun p => ⟨rfl, rfl⟩
          refine ⟨hr.inv, by rw [mapRange_inflight]; exact hr.infl,
            mapRange_readers_nil s hr.noReaders _ _ _ _, hr.delIdle, hr.delFiles, ?_, ?_⟩
          · intro k' t'
            rw [adm_mapRange s k lo hi _ hf]
            have hold := hr.adm k' t'
            rw [adm_eq] at hold
            cases hfd : s.pts.find? (ptPred k' t') with
            | none => simp only; rw [hfd] at hold; exact hold
            | some p =>
              simp only
              rw [hfd] at hold
              split
              · next hcv =>
                simp only [covers_iff, Bool.and_eq_true, beq_iff_eq, decide_eq_true_eq] at hcv
                obtain ⟨⟨rfl, h1⟩, h2⟩ := hcv
                unfold St.deleteIsNoop at hnoop
                simp only [Bool.and_eq_true, Bool.not_eq_true', List.isEmpty_iff] at hnoop
                have : y.st.abs k t' = none := by
                  simp only [St.abs, St.cacheView, St.filesView, hnoop.2, hsnap, get_nil, Option.or_none,
                    Option.none_or]
                  exact filesGet_none_of_no_overlap _ _ _ hnoop.1 k t' h1 h2
                simp [this]
              · exact hold
          · intro p hp hrac
            unfold mapRange at hp
            simp only at hp
            obtain ⟨q, hq, rfl⟩ := List.mem_map.mp hp
            split at hrac
            · simp at hrac
            · next hm => simp only [hm] at hrac ⊢; exact hr.racing q hq hrac
        · refine ⟨rfl, ?_⟩
          simp only [judge]
          have hf : ∀ p : PInfo, ({ p with adm := union p.adm [none], racing := false } : PInfo).k = p.k ∧
              ({ p with adm := union p.adm [none], racing := false } : PInfo).t = p.t := fun p => ⟨rfl, rfl⟩
          refine ⟨Inv_of_idle hr.inv hph rfl rfl, rfl, mapRange_readers_nil s hr.noReaders _ _ _ _,
            fun _ => ⟨hph, hcomp⟩, ?_, ?_, ?_⟩
          · intro k' lo' hi' h t h1 h2
            simp only [Option.some.injEq, Prod.mk.injEq] at h
            obtain ⟨rfl, rfl, rfl⟩ := h
            simp only [St.filesView, delFilesAll]
            rw [filesGet_delAll]
            simp [h1, h2]
          · intro k' t'
            show (delFilesAll y.st k lo hi).abs k' t' ∈ SpecSt.adm _ k' t'
            rw [abs_delFilesAll]
            have hadm : SpecSt.adm { (mapRange s k lo hi fun p => { p with adm := union p.adm [none], racing := false }) with
                inflight := some (k, lo, hi) } k' t' =
                (mapRange s k lo hi fun p => { p with adm := union p.adm [none], racing := false }).adm k' t' := rfl
            rw [hadm, adm_mapRange s k lo hi _ hf]
            have hold := hr.adm k' t'
            rw [adm_eq] at hold
            simp only [St.abs] at hold
            cases hfd : s.pts.find? (ptPred k' t') with
            | none =>
              simp only
              rw [hfd] at hold
              simp only [List.mem_singleton] at hold
              cases hcv : y.st.cacheView k' t' with
              | some v => rw [hcv] at hold; exact absurd hold (by simp)
              | none =>
                rw [hcv] at hold
                have hfv : y.st.filesView k' t' = none := by simpa using hold
                have : (if covers (k, lo, hi) k' t' = true then none else y.st.filesView k' t') = none := by
                  split
                  · rfl
                  · exact hfv
                rw [this]; simp
            | some p =>
              simp only
              rw [hfd] at hold
              split
              · cases hcv : y.st.cacheView k' t' with
                | some v =>
                  rw [hcv] at hold
                  exact mem_union.mpr (Or.inl (by simpa using hold))
                | none => exact mem_union.mpr (Or.inr (by simp))
              · exact hold
          · intro p hp hrac
            have hp' : p ∈ (mapRange s k lo hi fun p => { p with adm := union p.adm [none], racing := false }).pts := hp
            unfold mapRange at hp'
            simp only at hp'
            obtain ⟨q, hq, rfl⟩ := List.mem_map.mp hp'
            split at hrac
            · simp at hrac
            · next hm => simp only [hm] at hrac ⊢; exact hr.racing q hq hrac
  | delEnd =>
    simp only [sysStep]
    cases hd : y.deleting with
    | none => exact ⟨rfl, hr⟩
    | some d =>
      obtain ⟨k, lo, hi⟩ := d
      have hinfl : s.inflight = some (k, lo, hi) := by rw [hr.infl, hd]
      obtain ⟨hph, hcomp⟩ := hr.delIdle (by simp [hd])
      have hsnap : y.st.snap = [] := hr.inv.idle hph
      simp only [judge, hinfl]
      refine ⟨by first | rfl | trivial, ?_⟩
      have hf : ∀ p : PInfo, (if p.racing = true then { p with racing := false } else { p with adm := [none] } : PInfo).k = p.k ∧
          (if p.racing = true then { p with racing := false } else { p with adm := [none] } : PInfo).t = p.t := by
        intro p; split <;> exact ⟨rfl, rfl⟩
      refine ⟨Inv_of_idle hr.inv hph rfl rfl, by first | rfl | trivial, mapRange_readers_nil s hr.noReaders _ _ _ _,
        fun h => by simp at h, fun k' lo' hi' h => by simp at h, ?_, ?_⟩
      · intro k' t'
        show (step y.st (.delCache k lo hi)).abs k' t' ∈ SpecSt.adm _ k' t'
        have hadm : SpecSt.adm { (mapRange s k lo hi fun p =>
            if p.racing = true then { p with racing := false } else { p with adm := [none] }) with inflight := none } k' t' =
            (mapRange s k lo hi fun p =>
              if p.racing = true then { p with racing := false } else { p with adm := [none] }).adm k' t' := rfl
        rw [hadm, adm_mapRange s k lo hi _ hf]
        have habs : (step y.st (.delCache k lo hi)).abs k' t' =
            if covers (k, lo, hi) k' t' = true then none else y.st.abs k' t' :=
          abs_after_delCache y.st hsnap k lo hi (hr.delFiles k lo hi hd) k' t'
        rw [habs]
        have hold := hr.adm k' t'
        rw [adm_eq] at hold
        cases hfd : s.pts.find? (ptPred k' t') with
        | none =>
          simp only
          rw [hfd] at hold
          split
          · simp
          · exact hold
        | some p =>
          simp only
          rw [hfd] at hold
          split
          · split
            · next hrac => exact hr.racing p (find_mem hfd) hrac
            · simp
          · exact hold
      · intro p hp hrac
        have hp' : p ∈ (mapRange s k lo hi fun p =>
            if p.racing = true then { p with racing := false } else { p with adm := [none] }).pts := hp
        unfold mapRange at hp'
        simp only at hp'
        obtain ⟨q, hq, rfl⟩ := List.mem_map.mp hp'
        split at hrac
        · split at hrac
          · simp at hrac
          · next hm => simp only at hrac; exact absurd hrac hm
        · next hm => simp only [hm] at hrac ⊢; exact hr.racing q hq hrac

/-- **along any run without two-phase reads, every atomic read is explained** -/
theorem failures_sys (ops : List Op) (y : Sys) (s : SpecSt) (hr : Rel y s)
    (hops : ∀ op ∈ ops, op.twoPhase = false) : failuresFrom s (sysRun y ops) = [] := by
  induction ops generalizing y s with
  | nil => rfl
  | cons op rest ih =>
    simp only [sysRun, failuresFrom]
    obtain ⟨h1, h2⟩ := judge_sys y s hr op (hops op (by simp))
    rw [h1, List.nil_append]
    exact ih _ _ h2 (fun o ho => hops o (by simp [ho]))

end Influx.Conc
