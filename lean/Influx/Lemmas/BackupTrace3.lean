/-
  Lemmas.BackupTrace3 — a failed Export of the model is one of the two known
  kinds, as the statement checker (Spec.C38) classifies it from the listings.
-/
import Influx.Lemmas.BackupTrace2

namespace Influx.Backup
open Influx.Spec.C38

theorem exportEntries_tombstone {a e : TS} {fs : List TFile}
    (h : exportEntries a e fs = .error .tombstone) : ∃ f ∈ fs, f.tombM.isSome = true := by
  induction fs with
  | nil => simp [exportEntries] at h
  | cons f fs ih =>
    simp only [exportEntries] at h
    split at h
    · next ht => exact ⟨f, by simp, ht⟩
    · split at h
      · simp at h
      · cases hr : exportEntries a e fs with
        | error x =>
          simp [hr] at h; subst h
          obtain ⟨g, hg, hgt⟩ := ih hr
          exact ⟨g, by simp [hg], hgt⟩
        | ok more => simp [hr] at h

theorem exportEntries_noValues {a e : TS} {fs : List TFile}
    (h : exportEntries a e fs = .error .noValues) :
    ∃ f ∈ fs, f.needsFilter a e = true ∧ ∀ b ∈ f.blocks, b.overlaps a e = false := by
  induction fs with
  | nil => simp [exportEntries] at h
  | cons f fs ih =>
    simp only [exportEntries] at h
    split at h
    · simp at h
    · split at h
      · next hg =>
        simp only [Bool.and_eq_true, List.isEmpty_iff] at hg
        refine ⟨f, by simp, hg.1, ?_⟩
        intro b hb
        have := List.filter_eq_nil_iff.mp hg.2 b hb
        simpa using this
      · cases hr : exportEntries a e fs with
        | error x =>
          simp [hr] at h; subst h
          obtain ⟨g, hg, hgt⟩ := ih hr
          exact ⟨g, by simp [hg], hgt⟩
        | ok more => simp [hr] at h

/-! ### folds of min / max -/

theorem foldl_min_le_init (l : List TS) (x : TS) : l.foldl min x ≤ x := by
  induction l generalizing x with
  | nil => exact Int.le_refl _
  | cons a l ih => exact Int.le_trans (ih (min x a)) (Int.min_le_left _ _)

theorem foldl_min_le_mem (l : List TS) (x : TS) : ∀ y ∈ l, l.foldl min x ≤ y := by
  induction l generalizing x with
  | nil => intro y hy; simp at hy
  | cons a l ih =>
    intro y hy
    rcases List.mem_cons.mp hy with rfl | hy
    · exact Int.le_trans (foldl_min_le_init l (min x y)) (Int.min_le_right _ _)
    · exact ih (min x a) y hy

theorem init_le_foldl_max (l : List TS) (x : TS) : x ≤ l.foldl max x := by
  induction l generalizing x with
  | nil => exact Int.le_refl _
  | cons a l ih => exact Int.le_trans (Int.le_max_left _ _) (ih (max x a))

theorem mem_le_foldl_max (l : List TS) (x : TS) : ∀ y ∈ l, y ≤ l.foldl max x := by
  induction l generalizing x with
  | nil => intro y hy; simp at hy
  | cons a l ih =>
    intro y hy
    rcases List.mem_cons.mp hy with rfl | hy
    · exact Int.le_trans (Int.le_max_right _ _) (init_le_foldl_max l (max x y))
    · exact ih (max x a) y hy

theorem listMin_mem {l : List TS} (h : l ≠ []) : listMin l ∈ l := by
  induction l with
  | nil => exact absurd rfl h
  | cons a l ih =>
    cases l with
    | nil => simp [listMin]
    | cons b l =>
      simp only [listMin]
      have := ih (by simp)
      by_cases hab : a ≤ listMin (b :: l)
      · rw [Int.min_eq_left hab]; simp
      · rw [Int.min_eq_right (Int.le_of_not_le hab)]; exact List.mem_cons_of_mem _ this

theorem listMax_mem {l : List TS} (h : l ≠ []) : listMax l ∈ l := by
  induction l with
  | nil => exact absurd rfl h
  | cons a l ih =>
    cases l with
    | nil => simp [listMax]
    | cons b l =>
      simp only [listMax]
      have := ih (by simp)
      by_cases hab : listMax (b :: l) ≤ a
      · rw [Int.max_eq_left hab]; simp
      · rw [Int.max_eq_right (Int.le_of_not_le hab)]; exact List.mem_cons_of_mem _ this

/-! ### the block listing of tombstone-less sorted files, per file -/

def entryOf (f : TFile) (b : Block) : FName × Key × TS × TS := (⟨f.gen, f.seq, false⟩, b.key, b.lo, b.hi)

theorem blockListing_no_tombs (fs : List TFile) (hnt : ∀ f ∈ fs, f.tombs = []) :
    blockListing fs = fs.flatMap (fun f => f.blocks.map (entryOf f)) := by
  unfold blockListing
  induction fs with
  | nil => rfl
  | cons f fs ih =>
    rw [List.flatMap_cons, List.flatMap_cons, ih (fun g hg => hnt g (by simp [hg]))]
    congr 1
    have : f.blocks.filter (fun b => !f.gone b.key) = f.blocks := by
      apply List.filter_eq_self.mpr
      intro b _
      simp [gone_of_no_tombs f (hnt f (by simp))]
    rw [this]; rfl

theorem filter_name_other (f g : TFile) (h : ¬ (g.gen = f.gen ∧ g.seq = f.seq)) :
    (g.blocks.map (entryOf g)).filter (fun c => c.1 == (⟨f.gen, f.seq, false⟩ : FName)) = [] := by
  apply List.filter_eq_nil_iff.mpr
  intro c hc
  obtain ⟨b, _, rfl⟩ := List.mem_map.mp hc
  simp only [entryOf, beq_iff_eq, FName.mk.injEq, and_true]
  exact h

theorem filter_name_self (f : TFile) :
    (f.blocks.map (entryOf f)).filter (fun c => c.1 == (⟨f.gen, f.seq, false⟩ : FName)) = f.blocks.map (entryOf f) := by
  apply List.filter_eq_self.mpr
  intro c hc
  obtain ⟨b, _, rfl⟩ := List.mem_map.mp hc
  simp [entryOf]

theorem filter_name_flatMap (fs : List TFile) (hs : SortedFiles fs) (f : TFile) (hf : f ∈ fs) :
    (fs.flatMap (fun g => g.blocks.map (entryOf g))).filter (fun c => c.1 == (⟨f.gen, f.seq, false⟩ : FName)) =
      f.blocks.map (entryOf f) := by
  induction fs with
  | nil => simp at hf
  | cons g fs ih =>
    rw [List.flatMap_cons, List.filter_append]
    have hsg := List.pairwise_cons.mp hs
    rcases List.mem_cons.mp hf with rfl | hf
    · rw [filter_name_self]
      have : (fs.flatMap (fun g => g.blocks.map (entryOf g))).filter
          (fun c => c.1 == (⟨f.gen, f.seq, false⟩ : FName)) = [] := by
        apply List.filter_eq_nil_iff.mpr
        intro c hc
        obtain ⟨g, hg, hcg⟩ := List.mem_flatMap.mp hc
        obtain ⟨b, _, rfl⟩ := List.mem_map.mp hcg
        have hlt := hsg.1 g hg
        simp only [entryOf, beq_iff_eq, FName.mk.injEq, and_true]
        unfold nameLt at hlt; omega
      rw [this]; simp
    · have hlt := hsg.1 f hf
      rw [filter_name_other f g (by unfold nameLt at hlt; omega), ih hsg.2 hf]; simp

/-- **a failed export with no tombstone file in the listing shows a gap file** -/
theorem gapFile_of_noValues (s : Shard) (hi : s.Inv) (a e : TS) (hae : a ≤ e)
    (hnt : hasTombstone (listing s.files) = false)
    (h : exportEntries a e s.files = .error .noValues) : gapFile a e (blockListing s.files) = true := by
  obtain ⟨f, hf, hneed, hnone⟩ := exportEntries_noValues h
  have hnt' := no_tombs_of_listing hi hnt
  obtain ⟨b, hb⟩ := List.exists_mem_of_ne_nil _ (hi.wf f hf).2.2
  unfold gapFile
  rw [List.any_eq_true]
  refine ⟨entryOf f b, by rw [blockListing_no_tombs _ hnt']; exact List.mem_flatMap.mpr ⟨f, hf, List.mem_map.mpr ⟨b, hb, rfl⟩⟩, ?_⟩
  have hmine : (blockListing s.files).filter (fun c => c.1 == (entryOf f b).1) = f.blocks.map (entryOf f) := by
    rw [blockListing_no_tombs _ hnt']
    exact filter_name_flatMap s.files hi.sorted f hf
  simp only [hmine]
  rw [Bool.and_eq_true]
  have hlo : (f.blocks.map (entryOf f)).map (fun c => c.2.2.1) = f.blocks.map (·.lo) := by
    simp [List.map_map, Function.comp_def, entryOf]
  have hhi : (f.blocks.map (entryOf f)).map (fun c => c.2.2.2) = f.blocks.map (·.hi) := by
    simp [List.map_map, Function.comp_def, entryOf]
  constructor
  · -- the file's range, computed from the listing, overlaps [a,e]
    rw [hlo, hhi]
    have hne : f.blocks.map (·.lo) ≠ [] := by simpa using (hi.wf f hf).2.2
    have hne' : f.blocks.map (·.hi) ≠ [] := by simpa using (hi.wf f hf).2.2
    have h1 : minOf (entryOf f b).2.2.1 (f.blocks.map (·.lo)) ≤ f.minTime :=
      foldl_min_le_mem _ _ _ (listMin_mem hne)
    have h2 : f.maxTime ≤ maxOf (entryOf f b).2.2.2 (f.blocks.map (·.hi)) :=
      mem_le_foldl_max _ _ _ (listMax_mem hne')
    unfold TFile.needsFilter at hneed
    simp only [Bool.or_eq_true, Bool.and_eq_true, decide_eq_true_eq] at hneed
    unfold Spec.C38.overlaps
    simp only [Bool.and_eq_true, decide_eq_true_eq]
    unfold TS at *
    omega
  · -- none of its blocks does
    rw [List.all_eq_true]
    intro c hc
    obtain ⟨b', hb', rfl⟩ := List.mem_map.mp hc
    have := hnone b' hb'
    unfold Block.overlaps at this
    simp only [Bool.or_eq_false_iff, Bool.and_eq_false_iff, decide_eq_false_iff_not] at this
    simp only [entryOf, Spec.C38.overlaps, Bool.not_eq_true', Bool.and_eq_false_iff]
    by_cases h1 : b'.lo ≤ e
    · by_cases h2 : b'.hi ≥ a
      · exfalso; unfold TS at *; omega
      · right; exact decide_eq_false h2
    · left; exact decide_eq_false h1

end Influx.Backup
