/-
  Lemmas.Engine — refinement lemmas of the engine state machine (`Model.Engine`):
  what `read` returns in terms of `abs`, and how every step moves `abs`.
-/
import Influx.Lemmas.EngineLog
import Influx.Model.Engine

namespace Influx.Model.Engine

/-! ### reads -/

theorem lookupPt_values (l : Log) (k : Key) (t : Int) : lookupPt t (Log.values l k) = Log.get l k t := by
  rw [Log.values, lookupPt_dedup, Log.get_eq_lastPt]

theorem Option.or_or_assoc (a b c : Option Int) : (a.or b).or c = a.or (b.or c) := by
  cases a <;> simp

theorem State.abs_eq (s : State) (k : Key) (t : Int) :
    s.abs k t = (Log.get s.hot k t).or ((Log.get s.snap k t).or (Log.get (filesLog s.files) k t)) := by
  simp only [State.abs, State.allLog, Log.get_append]

def State.merged (s : State) (k : Key) : List Pt := mergeOver (s.fileValues k) (s.cacheValues k)

theorem State.sorted_merged (s : State) (k : Key) : SortedPts (s.merged k) :=
  sorted_mergeOver _ (Log.sorted_values _ _)

theorem State.lookup_merged (s : State) (k : Key) (t : Int) : lookupPt t (s.merged k) = s.abs k t := by
  rw [State.merged, lookupPt_mergeOver, State.cacheValues, lastPt_eq_lookupPt (Log.sorted_values _ _),
    State.fileValues, lookupPt_values, lookupPt_values, State.abs_eq, Log.get_append, Option.or_or_assoc]

theorem State.read_eq (s : State) (k : Key) (lo hi : Int) (asc : Bool) :
    s.read k lo hi asc =
      if asc then (s.merged k).filter (inRange lo hi) else ((s.merged k).filter (inRange lo hi)).reverse := rfl

/-- **What a read returns**: exactly the cells of `abs` in range. -/
theorem State.mem_read (s : State) (k : Key) (lo hi : Int) (asc : Bool) (p : Pt) :
    p ∈ s.read k lo hi asc ↔ (lo ≤ p.1 ∧ p.1 ≤ hi) ∧ s.abs k p.1 = some p.2 := by
  have hm : p ∈ (s.merged k).filter (inRange lo hi) ↔ (lo ≤ p.1 ∧ p.1 ≤ hi) ∧ s.abs k p.1 = some p.2 := by
    rw [List.mem_filter, ← s.lookup_merged, ← mem_iff_lookupPt (s.sorted_merged k)]
    simp only [inRange, Bool.and_eq_true, decide_eq_true_eq]
    exact ⟨fun h => ⟨h.2, h.1⟩, fun h => ⟨h.2, h.1⟩⟩
  rw [State.read_eq]
  cases asc
  · simp only [Bool.false_eq_true, if_false, List.mem_reverse]; exact hm
  · simp only [if_true]; exact hm

theorem State.read_sorted_asc (s : State) (k : Key) (lo hi : Int) :
    (s.read k lo hi true).Pairwise (fun a b => a.1 < b.1) := by
  rw [State.read_eq]; simp only [if_true]
  exact List.Pairwise.filter _ (s.sorted_merged k)

theorem State.read_sorted_desc (s : State) (k : Key) (lo hi : Int) :
    (s.read k lo hi false).Pairwise (fun a b => b.1 < a.1) := by
  rw [State.read_eq]; simp only [Bool.false_eq_true, if_false]
  rw [List.pairwise_reverse]
  exact List.Pairwise.filter _ (s.sorted_merged k)

/-! ### files -/

theorem filesLog_append (a b : List TsmFile) : filesLog (a ++ b) = filesLog a ++ filesLog b := by
  simp [filesLog]

theorem filesLog_nil : filesLog [] = [] := rfl

theorem live_noTombs (d : Log) (g : Nat) : TsmFile.live ⟨d, [], g⟩ = d := by
  simp [TsmFile.live]

theorem filesLog_single (f : TsmFile) : filesLog [f] = f.live := by simp [filesLog]

theorem get_compactOut (grp : List TsmFile) (k : Key) (t : Int) :
    Log.get (filesLog (compactOut grp)) k t = Log.get (filesLog grp) k t := by
  unfold compactOut
  by_cases h : (filesLog grp).canon.isEmpty
  · simp only [h, if_true, filesLog_nil, Log.get_nil]
    rw [← Log.get_canon]
    have : (filesLog grp).canon = [] := List.isEmpty_iff.mp h
    rw [this]; rfl
  · simp only [h, Bool.false_eq_true, if_false, filesLog_single, live_noTombs, Log.get_canon]

theorem split_group (fs : List TsmFile) (i j : Nat) :
    fs = fs.take i ++ groupOf fs i j ++ fs.drop (j + 1) ∨ ¬ (i ≤ j) := by
  by_cases h : i ≤ j
  · left
    have h1 : fs.drop (j + 1) = (fs.drop i).drop (j + 1 - i) := by
      rw [List.drop_drop]; congr 1; omega
    rw [groupOf, h1, List.append_assoc, List.take_append_drop, List.take_append_drop]
  · exact Or.inr h

theorem get_filesLog_compact (fs : List TsmFile) (i j : Nat) (h : i ≤ j) (k : Key) (t : Int) :
    Log.get (filesLog (compactFiles fs i j)) k t = Log.get (filesLog fs) k t := by
  rcases split_group fs i j with hs | hs
  · conv => rhs; rw [hs]
    simp only [compactFiles, filesLog_append, Log.get_append, get_compactOut]
  · exact absurd h hs

/-! ### WAL bookkeeping does not touch the data fields -/

@[simp] theorem walAppend_hot (s : State) (r : WalEntry) : (walAppend s r).hot = s.hot := rfl
@[simp] theorem walAppend_snap (s : State) (r : WalEntry) : (walAppend s r).snap = s.snap := rfl
@[simp] theorem walAppend_files (s : State) (r : WalEntry) : (walAppend s r).files = s.files := rfl
@[simp] theorem walAppend_phase (s : State) (r : WalEntry) : (walAppend s r).phase = s.phase := rfl
@[simp] theorem walAppend_snapTmp (s : State) (r : WalEntry) : (walAppend s r).snapTmp = s.snapTmp := rfl
@[simp] theorem walAppend_snapClosed (s : State) (r : WalEntry) : (walAppend s r).snapClosed = s.snapClosed := rfl

@[simp] theorem walClose_hot (s : State) : (walCloseSegment s).hot = s.hot := rfl
@[simp] theorem walClose_snap (s : State) : (walCloseSegment s).snap = s.snap := rfl
@[simp] theorem walClose_files (s : State) : (walCloseSegment s).files = s.files := rfl
@[simp] theorem walClose_phase (s : State) : (walCloseSegment s).phase = s.phase := rfl
@[simp] theorem walClose_snapTmp (s : State) : (walCloseSegment s).snapTmp = s.snapTmp := rfl
@[simp] theorem walClose_snapClosed (s : State) : (walCloseSegment s).snapClosed = s.snapClosed := rfl

/-! ### the snapshot invariant -/

/-- What the snapshot protocol maintains between its sub-steps. -/
structure Inv (s : State) : Prop where
  idle_snap : s.phase = .idle → s.snap = []
  written_tmp : s.phase = .written → ∃ g, s.snapTmp = some ⟨s.snap.canon, [], g⟩
  replaced_le : s.phase = .replaced →
    ∀ k t v, Log.get s.snap k t = some v → Log.get (filesLog s.files) k t = some v
  cleared_snap : s.phase = .cleared → s.snap = []

theorem inv_init : Inv init := by
  constructor <;> intro h <;> first | rfl | (simp [init] at h)

@[simp] theorem touch_abs (s : State) (k : Key) (t : Int) : s.touch.abs k t = s.abs k t := rfl
@[simp] theorem touch_read (s : State) (k : Key) (lo hi : Int) (asc : Bool) :
    s.touch.read k lo hi asc = s.read k lo hi asc := rfl
@[simp] theorem touch_files (s : State) : s.touch.files = s.files := rfl
@[simp] theorem touch_phase (s : State) : s.touch.phase = s.phase := rfl
@[simp] theorem touch_snap (s : State) : s.touch.snap = s.snap := rfl
@[simp] theorem touch_hot (s : State) : s.touch.hot = s.hot := rfl

theorem inv_touch {s : State} (h : Inv s) : Inv s.touch :=
  ⟨h.idle_snap, h.written_tmp, h.replaced_le, h.cleared_snap⟩

/-! ### abs under each step -/

theorem abs_stepWrite (s : State) (es : Log) (k : Key) (t : Int) :
    (stepWrite s es).abs k t = (Log.get es k t).or (s.abs k t) := by
  simp only [State.abs_eq, stepWrite, walAppend_hot, walAppend_snap, walAppend_files, Log.get_append,
    Option.or_or_assoc]

theorem inv_stepWrite {s : State} (h : Inv s) (es : Log) : Inv (stepWrite s es) := by
  constructor <;> simp only [stepWrite, walAppend_hot, walAppend_snap, walAppend_files, walAppend_phase,
    walAppend_snapTmp]
  · exact h.idle_snap
  · exact h.written_tmp
  · exact h.replaced_le
  · exact h.cleared_snap

theorem abs_stepSnapBegin {s : State} (h : Inv s) (k : Key) (t : Int) :
    (stepSnapBegin s).1.abs k t = s.abs k t := by
  unfold stepSnapBegin
  cases hp : s.phase <;> simp only [State.abs_eq, walClose_hot, walClose_snap, walClose_files,
    touch_hot, touch_snap, touch_files]
  · -- idle: hot moves to the (empty) snapshot store
    rw [h.idle_snap hp]; simp [Log.get_nil]

theorem inv_stepSnapBegin {s : State} (h : Inv s) : Inv (stepSnapBegin s).1 := by
  unfold stepSnapBegin
  cases hp : s.phase
  · constructor <;> intro h' <;> simp at h'
  · constructor <;> simp only [walClose_phase, walClose_snap, walClose_snapTmp, walClose_files]
    · exact h.idle_snap
    · exact h.written_tmp
    · exact h.replaced_le
    · exact h.cleared_snap
  · constructor <;> simp only [walClose_phase, walClose_snap, walClose_snapTmp, walClose_files]
    · exact h.idle_snap
    · exact h.written_tmp
    · exact h.replaced_le
    · exact h.cleared_snap
  · exact inv_touch h
  · exact inv_touch h
  · constructor <;> intro h' <;> simp at h'

theorem abs_stepSnapStep {s : State} (h : Inv s) (k : Key) (t : Int) :
    (stepSnapStep s).abs k t = s.abs k t := by
  unfold stepSnapStep
  cases hp : s.phase
  · rfl
  · -- begun
    by_cases he : s.snap.isEmpty <;> simp only [he, if_true, Bool.false_eq_true, if_false, State.abs_eq]
  · -- written → replaced: the new file holds the snapshot store's content
    obtain ⟨g, hg⟩ := h.written_tmp hp
    simp only [State.abs_eq, hg, Option.toList_some, filesLog_append, filesLog_single,
      live_noTombs, Log.get_append, Log.get_canon]
    cases Log.get s.hot k t <;> cases Log.get s.snap k t <;> simp
  · -- replaced → cleared: the snapshot store's content is in the files
    simp only [State.abs_eq, Log.get_nil]
    cases hs : Log.get s.snap k t with
    | none => simp
    | some v => simp [h.replaced_le hp k t v hs]
  · simp only [State.abs_eq]
  · rfl

theorem inv_stepSnapStep {s : State} (h : Inv s) : Inv (stepSnapStep s) := by
  unfold stepSnapStep
  cases hp : s.phase
  · exact h
  · by_cases he : s.snap.isEmpty <;> simp only [he, if_true, Bool.false_eq_true, if_false]
    · constructor <;> intro h' <;> simp at h' ⊢
      exact List.isEmpty_iff.mp he
    · constructor <;> intro h' <;> simp at h' ⊢
  · constructor <;> intro h' <;> simp at h' ⊢
    intro k t v hv
    obtain ⟨g, hg⟩ := h.written_tmp hp
    rw [hg]
    simp only [Option.toList_some, filesLog_append, filesLog_single, live_noTombs, Log.get_append,
      Log.get_canon, hv]
    simp
  · constructor <;> intro h' <;> simp at h' ⊢
  · constructor <;> intro h' <;> simp at h' ⊢
    exact h.cleared_snap hp
  · exact h

/-! a failing WriteSnapshot -/

theorem stepSnapFail_cases (s : State) :
    (stepSnapFail s).1 = s.touch ∨
    (stepSnapFail s).1 = { (stepSnapBegin s).1 with phase := .idle, snapClosed := [] } ∧
        (stepSnapBegin s).1.snap = [] ∧ (s.phase = .idle ∨ s.phase = .failed) ∨
    (stepSnapFail s).1 = { (stepSnapBegin s).1 with phase := .failed } ∧ (s.phase = .idle ∨ s.phase = .failed) := by
  unfold stepSnapFail
  cases hp : s.phase <;> simp only
  · by_cases he : (stepSnapBegin s).1.snap.isEmpty = true
    · right; left; simp only [he, if_true]; exact ⟨trivial, List.isEmpty_iff.mp he, Or.inl trivial⟩
    · right; right; simp only [he, Bool.false_eq_true, if_false]; exact ⟨trivial, Or.inl trivial⟩
  · left; trivial
  · left; trivial
  · left; trivial
  · left; trivial
  · by_cases he : (stepSnapBegin s).1.snap.isEmpty = true
    · right; left; simp only [he, if_true]; exact ⟨trivial, List.isEmpty_iff.mp he, Or.inr trivial⟩
    · right; right; simp only [he, Bool.false_eq_true, if_false]; exact ⟨trivial, Or.inr trivial⟩

theorem abs_stepSnapFail {s : State} (h : Inv s) (k : Key) (t : Int) :
    (stepSnapFail s).1.abs k t = s.abs k t := by
  rcases stepSnapFail_cases s with he | ⟨he, _, _⟩ | ⟨he, _⟩
  · rw [he]; rfl
  · rw [he, ← abs_stepSnapBegin h k t]; rfl
  · rw [he, ← abs_stepSnapBegin h k t]; rfl

theorem inv_stepSnapFail {s : State} (h : Inv s) : Inv (stepSnapFail s).1 := by
  rcases stepSnapFail_cases s with he | ⟨he, hsn, _⟩ | ⟨he, _⟩
  · rw [he]; exact inv_touch h
  · rw [he]
    constructor <;> intro h' <;> first | exact hsn | (simp at h')
  · rw [he]
    constructor <;> intro h' <;> simp at h'

theorem abs_advance1 {s : State} (h : Inv s) (n : Nat) (k : Key) (t : Int) :
    (advance1 n s).abs k t = s.abs k t := by
  unfold advance1; split
  · exact abs_stepSnapStep h k t
  · rfl

theorem inv_advance1 {s : State} (h : Inv s) (n : Nat) : Inv (advance1 n s) := by
  unfold advance1; split
  · exact inv_stepSnapStep h
  · exact h

theorem abs_stepSnapTo {s : State} (h : Inv s) (p : Phase) (k : Key) (t : Int) :
    (stepSnapTo s p).abs k t = s.abs k t := by
  unfold stepSnapTo
  have h1 := inv_advance1 h p.target
  have h2 := inv_advance1 h1 p.target
  have h3 := inv_advance1 h2 p.target
  rw [abs_advance1 h3, abs_advance1 h2, abs_advance1 h1, abs_advance1 h]

theorem inv_stepSnapTo {s : State} (h : Inv s) (p : Phase) : Inv (stepSnapTo s p) :=
  inv_advance1 (inv_advance1 (inv_advance1 (inv_advance1 h _) _) _) _

theorem abs_compact (s : State) (i j : Nat) (hij : i ≤ j) (k : Key) (t : Int) :
    ({ s with files := compactFiles s.files i j, lastRec := false } : State).abs k t = s.abs k t := by
  simp only [State.abs_eq, get_filesLog_compact _ _ _ hij]

theorem inv_compact {s : State} (h : Inv s) (i j : Nat) (hij : i ≤ j) :
    Inv ({ s with files := compactFiles s.files i j, lastRec := false } : State) := by
  constructor <;> simp only
  · exact h.idle_snap
  · exact h.written_tmp
  · intro hp k t v hv
    rw [get_filesLog_compact _ _ _ hij]
    exact h.replaced_le hp k t v hv
  · exact h.cleared_snap

theorem validGroup_le {fs : List TsmFile} {i j : Nat} (h : validGroup fs i j = true) : i ≤ j := by
  simp only [validGroup, Bool.and_eq_true, decide_eq_true_eq] at h
  exact h.1.1.1

end Influx.Model.Engine
