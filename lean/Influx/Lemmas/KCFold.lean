/-
  Lemmas.KCFold — the merge fold of Read…Block computes "newest file wins".
  Abstract: `U i` is the sorted list contributed by location `i`, `file i` its file's age rank.
  `Won U file S acc`: `acc` is sorted and holds, for every timestamp contributed by a location
  in the set `S`, the point of the contributing location with the largest `file`.
-/
import Influx.Lemmas.KCBlocks

namespace Influx.KC

variable {V : Type} {ι : Type}

structure Won (U : ι → Vals V) (file : ι → Nat) (S : ι → Prop) (acc : Vals V) : Prop where
  sorted : SortedV acc
  mem : ∀ p, p ∈ acc ↔ ∃ i, S i ∧ p ∈ U i ∧ ∀ k, S k → p.1 ∈ keys (U k) → file k ≤ file i
  kmem : ∀ ts, ts ∈ keys acc ↔ ∃ k, S k ∧ ts ∈ keys (U k)

theorem Won.empty (U : ι → Vals V) (file : ι → Nat) : Won U file (fun _ => False) [] :=
  { sorted := SortedV.nil
    mem := by intro p; simp
    kmem := by intro ts; simp }

/-- a single location -/
theorem Won.single (U : ι → Vals V) (file : ι → Nat) (i : ι) (hs : SortedV (U i)) :
    Won U file (fun x => x = i) (U i) :=
  { sorted := hs
    mem := by
      intro p
      constructor
      · intro hp; exact ⟨i, rfl, hp, fun k hk _ => by subst hk; exact Nat.le_refl _⟩
      · rintro ⟨j, rfl, hp, _⟩; exact hp
    kmem := by
      intro ts
      constructor
      · intro h; exact ⟨i, rfl, h⟩
      · rintro ⟨k, rfl, h⟩; exact h }

/-- ascending: `values = values.Merge(v)`, the new location overrides; correct when it is newer
    than every location already merged that shares a timestamp with it -/
theorem Won.step_new_wins {U : ι → Vals V} {file : ι → Nat} {S : ι → Prop} {acc : Vals V}
    (w : Won U file S acc) (i : ι) (hs : SortedV (U i))
    (hnew : ∀ k, S k → ∀ ts, ts ∈ keys (U k) → ts ∈ keys (U i) → file k < file i) :
    Won U file (fun x => S x ∨ x = i) (merge acc (U i)) :=
  { sorted := w.sorted.merge hs
    mem := by
      intro p
      rw [mem_merge w.sorted hs]
      constructor
      · rintro (hp | ⟨hp, hk⟩)
        · refine ⟨i, Or.inr rfl, hp, ?_⟩
          rintro k (hk | rfl) hkk
          · exact Nat.le_of_lt (hnew k hk p.1 hkk (mem_keys_of_mem hp))
          · exact Nat.le_refl _
        · obtain ⟨j, hj, hpj, hmax⟩ := (w.mem p).1 hp
          refine ⟨j, Or.inl hj, hpj, ?_⟩
          rintro k (hk' | rfl) hkk
          · exact hmax k hk' hkk
          · exact absurd hkk hk
      · rintro ⟨j, hj | rfl, hpj, hmax⟩
        · right
          have hnk : p.1 ∉ keys (U i) := by
            intro hki
            have h1 := hmax i (Or.inr rfl) hki
            have h2 := hnew j hj p.1 (mem_keys_of_mem hpj) hki
            omega
          refine ⟨(w.mem p).2 ⟨j, hj, hpj, fun k hk hkk => hmax k (Or.inl hk) hkk⟩, hnk⟩
        · exact Or.inl hpj
    kmem := by
      intro ts
      rw [keys_merge w.sorted hs, w.kmem]
      constructor
      · rintro (⟨k, hk, h⟩ | h)
        · exact ⟨k, Or.inl hk, h⟩
        · exact ⟨i, Or.inr rfl, h⟩
      · rintro ⟨k, hk | rfl, h⟩
        · exact Or.inl ⟨k, hk, h⟩
        · exact Or.inr h }

/-- descending: `values = v.Merge(values)`, what was merged before overrides; correct when the
    new location is older than every merged location sharing a timestamp — or was merged already -/
theorem Won.step_old_wins {U : ι → Vals V} {file : ι → Nat} {S : ι → Prop} {acc : Vals V}
    (w : Won U file S acc) (i : ι) (hs : SortedV (U i))
    (hold : S i ∨ ∀ k, S k → ∀ ts, ts ∈ keys (U k) → ts ∈ keys (U i) → file i < file k) :
    Won U file (fun x => S x ∨ x = i) (merge (U i) acc) :=
  { sorted := hs.merge w.sorted
    mem := by
      intro p
      rw [mem_merge hs w.sorted]
      constructor
      · rintro (hp | ⟨hp, hk⟩)
        · obtain ⟨j, hj, hpj, hmax⟩ := (w.mem p).1 hp
          refine ⟨j, Or.inl hj, hpj, ?_⟩
          rintro k (hk' | rfl) hkk
          · exact hmax k hk' hkk
          · rcases hold with hSi | hold
            · exact hmax _ hSi hkk
            · exact Nat.le_of_lt (hold j hj p.1 (mem_keys_of_mem hpj) hkk)
        · refine ⟨i, Or.inr rfl, hp, ?_⟩
          rintro k (hk' | rfl) hkk
          · exact absurd ((w.kmem p.1).2 ⟨k, hk', hkk⟩) hk
          · exact Nat.le_refl _
      · rintro ⟨j, hj | rfl, hpj, hmax⟩
        · exact Or.inl ((w.mem p).2 ⟨j, hj, hpj, fun k hk hkk => hmax k (Or.inl hk) hkk⟩)
        · by_cases hk : p.1 ∈ keys acc
          · left
            rcases hold with hSi | hold
            · exact (w.mem p).2 ⟨_, hSi, hpj, fun k hk' hkk => hmax k (Or.inl hk') hkk⟩
            · obtain ⟨k, hSk, hkk⟩ := (w.kmem p.1).1 hk
              have h1 := hmax k (Or.inl hSk) hkk
              have h2 := hold k hSk p.1 hkk (mem_keys_of_mem hpj)
              omega
          · exact Or.inr ⟨hpj, hk⟩
    kmem := by
      intro ts
      rw [keys_merge hs w.sorted, w.kmem]
      constructor
      · rintro (h | ⟨k, hk, h⟩)
        · exact ⟨i, Or.inr rfl, h⟩
        · exact ⟨k, Or.inl hk, h⟩
      · rintro ⟨k, hk | rfl, h⟩
        · exact Or.inr ⟨k, hk, h⟩
        · exact Or.inl h }

theorem Won.congr {U : ι → Vals V} {file : ι → Nat} {S S' : ι → Prop} {acc : Vals V}
    (w : Won U file S acc) (h : ∀ x, S x ↔ S' x) : Won U file S' acc := by
  have : S = S' := funext fun x => propext (h x)
  exact this ▸ w

/-- the ascending fold -/
theorem Won.fold_asc {U : ι → Vals V} {file : ι → Nat} (hs : ∀ i, SortedV (U i)) :
    ∀ (is : List ι) (S : ι → Prop) (acc : Vals V), Won U file S acc →
      (∀ i ∈ is, ∀ k, S k → ∀ ts, ts ∈ keys (U k) → ts ∈ keys (U i) → file k < file i) →
      is.Pairwise (fun a b => ∀ ts, ts ∈ keys (U a) → ts ∈ keys (U b) → file a < file b) →
      Won U file (fun x => S x ∨ x ∈ is) (is.foldl (fun a i => mergeDir true a (U i)) acc) := by
  intro is
  induction is with
  | nil => intro S acc w _ _; exact w.congr (by simp)
  | cons i is ih =>
    intro S acc w h1 h2
    obtain ⟨h2a, h2b⟩ := List.pairwise_cons.1 h2
    simp only [List.foldl_cons]
    have w' := w.step_new_wins i (hs i) (h1 i (List.mem_cons_self ..))
    have := ih _ _ w' (by
      rintro j hj k (hk | rfl) ts hkk hjj
      · exact h1 j (List.mem_cons_of_mem _ hj) k hk ts hkk hjj
      · exact h2a j hj ts hkk hjj) h2b
    refine this.congr ?_
    intro x
    simp only [List.mem_cons]
    constructor
    · rintro ((h | h) | h)
      · exact Or.inl h
      · exact Or.inr (Or.inl h)
      · exact Or.inr (Or.inr h)
    · rintro (h | h | h)
      · exact Or.inl (Or.inl h)
      · exact Or.inl (Or.inr h)
      · exact Or.inr h

/-- the descending fold -/
theorem Won.fold_desc {U : ι → Vals V} {file : ι → Nat} (hs : ∀ i, SortedV (U i)) :
    ∀ (is : List ι) (S : ι → Prop) (acc : Vals V), Won U file S acc →
      (∀ i ∈ is, S i ∨ ∀ k, S k → ∀ ts, ts ∈ keys (U k) → ts ∈ keys (U i) → file i < file k) →
      is.Pairwise (fun a b => ∀ ts, ts ∈ keys (U a) → ts ∈ keys (U b) → file b < file a) →
      Won U file (fun x => S x ∨ x ∈ is) (is.foldl (fun a i => mergeDir false a (U i)) acc) := by
  intro is
  induction is with
  | nil => intro S acc w _ _; exact w.congr (by simp)
  | cons i is ih =>
    intro S acc w h1 h2
    obtain ⟨h2a, h2b⟩ := List.pairwise_cons.1 h2
    simp only [List.foldl_cons]
    have w' := w.step_old_wins i (hs i) (h1 i (List.mem_cons_self ..))
    have := ih _ _ w' (by
      intro j hj
      rcases h1 j (List.mem_cons_of_mem _ hj) with h | h
      · exact Or.inl (Or.inl h)
      · right
        rintro k (hk | rfl) ts hkk hjj
        · exact h k hk ts hkk hjj
        · exact h2a j hj ts hkk hjj) h2b
    refine this.congr ?_
    intro x
    simp only [List.mem_cons]
    constructor
    · rintro ((h | h) | h)
      · exact Or.inl h
      · exact Or.inr (Or.inl h)
      · exact Or.inr (Or.inr h)
    · rintro (h | h | h)
      · exact Or.inl (Or.inl h)
      · exact Or.inl (Or.inr h)
      · exact Or.inr h

end Influx.KC
