/-
  Lemmas.FluxTableMerge — the value/window alignment of *WindowTable (`nextAt` / `isInWindow`
  / `appendValues`): every value of the storage cursor lands in the row of its own window.
-/
import Influx.Lemmas.FluxTable

namespace Influx.FluxTable
open Influx.WindowAgg Influx.Spec.C41
open Influx.Window (Window Bounds)

/-- the window a cursor point belongs to: an aggregate is stamped with its window's stop, a
    selector with the time of the selected point -/
def pointWin (q : Req) (isAgg : Bool) (t : Int) : Int := if isAgg then widx q t - 1 else widx q t

/-- what `createNextBufferTimes` (no createEmpty) computes for a cursor timestamp -/
theorem pointWin_spec (q : Req) (h : 0 < q.every) (isAgg : Bool) (t : Int) :
    clip q (let b := q.win.getLatestBounds t; if isAgg then q.win.prevBounds b else b)
      = clipped q (pointWin q isAgg t) := by
  cases isAgg with
  | true =>
    simp only [↓reduceIte, pointWin, Window.prevBounds]
    rw [glb_index q h, clip_eq]
  | false =>
    simp only [Bool.false_eq_true, ↓reduceIte, pointWin]
    rw [glb_eq_at q h, clip_eq]

/-- a cursor point is "well placed": an aggregate timestamp is the stop of a window that starts
    before the query stop; a selector's point lies before the query stop -/
def WellPlaced (q : Req) (isAgg : Bool) (t : Int) : Prop :=
  if isAgg then (∃ i : Int, t = q.offset + (i + 1) * q.every ∧ q.offset + i * q.every < q.bstop)
  else t < q.bstop

/-- `isInWindow` accepts a well placed point for the (clipped) stop of its own window -/
theorem isInWindow_own (q : Req) (h : 0 < q.every) (isAgg : Bool) (t : Int) (hw : WellPlaced q isAgg t) :
    isInWindow q isAgg (clipped q (pointWin q isAgg t)).2 t = true := by
  unfold isInWindow
  cases isAgg with
  | true =>
    simp only [WellPlaced, ↓reduceIte] at hw
    obtain ⟨i, ht, hlt⟩ := hw
    have hti : widx q t = i + 1 := widx_unique q h t (i + 1) (by omega) (by omega)
    have hpw : pointWin q true t = i := by simp [pointWin, hti]
    rw [hpw]
    have hexp : q.offset + (i + 1) * q.every = q.offset + i * q.every + q.every := by rw [Int.add_mul]; omega
    have hc2 : (clipped q i).2 = min (q.offset + i * q.every + q.every) q.bstop := rfl
    have hidx : widx q ((clipped q i).2 - 1) = i := by
      apply widx_unique q h
      · rw [hc2]; simp only [Int.min_def]; split <;> omega
      · rw [hc2]; simp only [Int.min_def]; split <;> omega
    rw [glb_eq_at q h, hidx]
    simp only [↓reduceIte, at_start, at_stop, Bool.and_eq_true, decide_eq_true_eq]
    omega
  | false =>
    simp only [WellPlaced, Bool.false_eq_true, ↓reduceIte] at hw
    have hs := widx_spec q h t
    have hpw : pointWin q false t = widx q t := by simp [pointWin]
    rw [hpw]
    have hc2 : (clipped q (widx q t)).2 = min (q.offset + widx q t * q.every + q.every) q.bstop := rfl
    have hidx : widx q ((clipped q (widx q t)).2 - 1) = widx q t := by
      apply widx_unique q h
      · rw [hc2]; simp only [Int.min_def]; split <;> omega
      · rw [hc2]; simp only [Int.min_def]; split <;> omega
    rw [glb_eq_at q h, hidx]
    simp only [Bool.false_eq_true, ↓reduceIte, at_start, at_stop, Bool.and_eq_true, decide_eq_true_eq]
    omega

/-- `appendValues` over the stops of the rest of the current array consumes exactly that rest -/
theorem mergeValues_own (q : Req) (h : 0 < q.every) (isAgg : Bool) (whole : List (Pt Val))
    (rest : List (List (Pt Val))) (wb : Int) :
    ∀ cur : List (Pt Val), (∀ p ∈ cur, WellPlaced q isAgg p.1) →
    mergeValues q isAgg ⟨whole, cur, rest, wb⟩ (cur.map fun p => (clipped q (pointWin q isAgg p.1)).2)
      = (⟨whole, [], rest, wb⟩, cur.map fun p => some p.2) := by
  intro cur
  induction cur with
  | nil => intro _; rfl
  | cons p ps ih =>
    intro hw
    have hin := isInWindow_own q h isAgg p.1 (hw p (by simp))
    simp only [List.map_cons, mergeValues, nextAt, nextBuffer, List.isEmpty_cons, Bool.not_false, ↓reduceIte, hin]
    rw [ih (fun x hx => hw x (by simp [hx]))]

theorem zip_map_same {β γ δ : Type} (f : β → γ) (g : β → δ) (l : List β) :
    (l.map f).zip (l.map g) = l.map fun x => (f x, g x) := by
  induction l with
  | nil => rfl
  | cons x xs ih => simp [ih]

/-- one buffer (no createEmpty): the next array of the cursor, row by row -/
theorem advanceW_own (q : Req) (h : 0 < q.every) (hce : q.createEmpty = false) (isAgg : Bool) (fill : Option Val)
    (whole : List (Pt Val)) (a : List (Pt Val)) (rest : List (List (Pt Val))) (wb : Int)
    (ha : a ≠ []) (hw : ∀ p ∈ a, WellPlaced q isAgg p.1) :
    advanceW q isAgg fill ⟨whole, [], a :: rest, wb⟩ =
      some (⟨a, [], rest, wb⟩, a.map fun p => mkRow q fill (clipped q (pointWin q isAgg p.1)) (some p.2)) := by
  have hae : a.isEmpty = false := by cases a with | nil => exact absurd rfl ha | cons => rfl
  unfold advanceW
  simp only [nextBuffer, List.isEmpty_nil, Bool.not_true, Bool.false_eq_true, ↓reduceIte, hae, hce]
  have htimes : (a.map fun p => clip q (let b := q.win.getLatestBounds p.1; if isAgg then q.win.prevBounds b else b))
      = a.map fun p => clipped q (pointWin q isAgg p.1) := by
    apply List.map_congr_left; intro p _; exact pointWin_spec q h isAgg p.1
  simp only at htimes
  rw [htimes, List.map_map]
  have hm := mergeValues_own q h isAgg a rest wb a hw
  simp only [Function.comp_def]
  rw [hm]
  simp only [Option.some.injEq, Prod.mk.injEq, true_and]
  rw [zip_map_same, List.map_map]
  rfl

end Influx.FluxTable

namespace Influx.FluxTable
open Influx.WindowAgg Influx.Spec.C41

/-- all buffers of a window table without createEmpty: one buffer per cursor array, one row per
    cursor point, in order, each with its own clipped window and its value -/
theorem drainW_own (q : Req) (h : 0 < q.every) (hce : q.createEmpty = false) (isAgg : Bool) (fill : Option Val) (wb : Int) :
    ∀ (arrs : List (List (Pt Val))) (whole : List (Pt Val)) (fuel : Nat),
    (∀ a ∈ arrs, a ≠ []) → (∀ a ∈ arrs, ∀ p ∈ a, WellPlaced q isAgg p.1) → arrs.length < fuel →
    drainBuffers (advanceW q isAgg fill) fuel ⟨whole, [], arrs, wb⟩ =
      arrs.map fun a => a.map fun p => mkRow q fill (clipped q (pointWin q isAgg p.1)) (some p.2) := by
  intro arrs
  induction arrs with
  | nil =>
    intro whole fuel _ _ hf
    cases fuel with
    | zero => rfl
    | succ n => simp [drainBuffers, advanceW, nextBuffer]
  | cons a rest ih =>
    intro whole fuel hne hw hf
    cases fuel with
    | zero => simp at hf
    | succ n =>
      simp only [drainBuffers]
      rw [advanceW_own q h hce isAgg fill whole a rest wb (hne a (by simp)) (hw a (by simp))]
      simp only [List.map_cons, List.cons.injEq, true_and]
      exact ih a n (fun x hx => hne x (by simp [hx])) (fun x hx => hw x (by simp [hx])) (by simp at hf; omega)

end Influx.FluxTable
