/-
  Lemmas.TSIStepDrop — the engine's delete flows keep the state invariant:
  `Index.DropSeries`, `Index.DropMeasurementIfSeriesNotExist`, `SeriesFile.DeleteSeriesID`.
-/
import Influx.Lemmas.TSIStep

namespace Influx.Model.TSI

/-- marking the start of an operation changes nothing the invariant reads. -/
theorem ginvx_mark {exc : String → Prop} {pend : List Nat} {st : State} {live : List Nat}
    (h : GInvX exc pend st live) :
    GInvX exc pend { st with parts := markOpStart st.parts, configured := true } live where
  sfok := h.sfok
  partlt s hs := by simp only [markOpStart, List.length_map]; exact h.partlt s hs
  liveKnown := h.liveKnown
  liveUndel := h.liveUndel
  deadDel := h.deadDel
  delKnown := h.delKnown
  pinv i p hp := by
    simp only at hp
    rw [getElem?_markOpStart] at hp
    cases hq : st.parts[i]? with
    | none => simp [hq] at hp
    | some q =>
      simp only [hq, Option.map_some, Option.some.injEq] at hp
      subst hp
      exact pinv_congr (p := q) rfl rfl (h.pinv i q hq)
  tracked := h.tracked
  cache := h.cache
  fresh hc := by simp at hc

/-- `Index.DropSeries(id, key, false)`. -/
theorem ginvx_dropSeriesIndex {exc : String → Prop} {pend : List Nat} {st : State} {live : List Nat}
    (h : GInvX exc pend st live) (s : SeriesInfo) (hf : st.sf.find s.id = some s) (hc : st.configured = true) :
    GInvX (fun n => exc n ∨ n = s.name) (s.id :: pend) (dropSeriesIndex st s) (sdel live s.id) := by
  unfold dropSeriesIndex
  have hspart : s.part < st.parts.length := h.partlt s (find_some_mem hf).1
  exact {
    sfok := h.sfok
    partlt := fun t ht => by simp only [length_modifyAt]; exact h.partlt t ht
    liveKnown := fun x hx => h.liveKnown x ((mem_sdel _ _ _).mp hx).1
    liveUndel := fun x hx => h.liveUndel x ((mem_sdel _ _ _).mp hx).1
    deadDel := fun t ht hl => by
      by_cases hid : t.id = s.id
      · exact Or.inr (by rw [hid]; exact List.mem_cons_self)
      · have : t.id ∉ live := fun hl' => hl ((mem_sdel _ _ _).mpr ⟨hl', hid⟩)
        rcases h.deadDel t ht this with h1 | h1
        · exact Or.inl h1
        · exact Or.inr (List.mem_cons_of_mem _ h1)
    delKnown := h.delKnown
    pinv := fun i p hp => by
      simp only at hp
      rw [getElem?_modifyAt] at hp
      cases hq : st.parts[i]? with
      | none => simp [hq] at hp
      | some q =>
        have hq0 := h.pinv i q hq
        split at hp
        · next hip =>
          subst hip
          simp only [hq, Option.map_some, Option.some.injEq] at hp
          subst hp
          have := pinv_drop h.sfok hq0 s.id s hf
          refine pinv_congr ?_ ?_ this
          · simp [appendSeries]
          · simp [appendSeries]
        · next hip =>
          simp only [hq, Option.some.injEq] at hp
          subst hp
          exact pinv_drop_other hq0 s.id s hf (fun e => hip e.symm)
    tracked := fun x => by
      simp only [mem_sdel]
      rw [h.tracked x]
    cache := fun e he => by
      simp only [cacheDel] at he
      obtain ⟨e0, he0, rfl⟩ := List.mem_map.mp he
      obtain ⟨h1, h2⟩ := h.cache e0 he0
      split
      · refine ⟨fun x hx => h1 x ((mem_sdel _ _ _).mp hx).1, fun x hx t ht hn htag => ?_⟩
        obtain ⟨hxl, hxne⟩ := (mem_sdel _ _ _).mp hx
        exact (mem_sdel _ _ _).mpr ⟨h2 x hxl t ht hn htag, hxne⟩
      · exact ⟨h1, fun x hx => h2 x ((mem_sdel _ _ _).mp hx).1⟩
    fresh := fun hc' => by simp only at hc'; rw [hc] at hc'; simp at hc' }

/-- whether some partition still has a series of the measurement in its id set. -/
theorem hasSeries_iff {exc : String → Prop} {pend : List Nat} {st : State} {live : List Nat}
    (h : GInvX exc pend st live) (m : String) :
    (st.parts.any (fun p => fsHasSeries p.datas p.sset m)) = true ↔
      ∃ id ∈ live, ∃ s, st.sf.find id = some s ∧ s.name = m := by
  constructor
  · intro hany
    obtain ⟨p, hp, hhas⟩ := List.any_eq_true.mp hany
    obtain ⟨i, hi, hpi⟩ := List.getElem_of_mem hp
    have hpi' : st.parts[i]? = some p := by rw [List.getElem?_eq_getElem hi, hpi]
    have hpinv := h.pinv i p hpi'
    unfold fsHasSeries at hhas
    obtain ⟨d, hd, hx⟩ := List.any_eq_true.mp hhas
    obtain ⟨x, hxm, hxs⟩ := List.any_eq_true.mp hx
    have hxs' : x ∈ p.sset := by simpa using hxs
    obtain ⟨hxl, _⟩ := (hpinv.sset x).mp hxs'
    unfold Partition.datas at hd
    obtain ⟨f, hf, rfl⟩ := List.mem_map.mp hd
    obtain ⟨s, hs, hn⟩ := (hpinv.sound f hf).meas m x hxm
    exact ⟨x, hxl, s, hs, hn⟩
  · rintro ⟨x, hxl, s, hs, hn⟩
    have hlt := h.partlt s (find_some_mem hs).1
    have hpi : st.parts[s.part]? = some st.parts[s.part] := List.getElem?_eq_getElem hlt
    have hpinv := h.pinv s.part _ hpi
    obtain ⟨f, hf, hm, _⟩ := hpinv.comp x s hxl hs rfl
    refine List.any_eq_true.mpr ⟨st.parts[s.part], List.getElem_mem hlt, ?_⟩
    unfold fsHasSeries
    refine List.any_eq_true.mpr ⟨f.data, ?_, ?_⟩
    · unfold Partition.datas; exact List.mem_map.mpr ⟨f, hf, rfl⟩
    · refine List.any_eq_true.mpr ⟨x, by rw [← hn]; exact hm, ?_⟩
      have : x ∈ (st.parts[s.part]).sset := (hpinv.sset x).mpr ⟨hxl, s, hs, rfl⟩
      simpa using this

/-- `Index.DropMeasurementIfSeriesNotExist(m)`. -/
theorem ginvx_dropMeasIfNoSeries {exc : String → Prop} {pend : List Nat} {st : State} {live : List Nat}
    (m : String) (h : GInvX (fun n => exc n ∨ n = m) pend st live) (hc : st.configured = true) :
    GInvX exc pend (dropMeasurementIfNoSeries st m) live := by
  unfold dropMeasurementIfNoSeries
  split
  · next hany =>
    have hw := (hasSeries_iff h m).mp hany
    exact { h with pinv := fun i p hp => pinv_discharge m hw (h.pinv i p hp) }
  · next hany =>
    have hno : ∀ id ∈ live, ∀ s, st.sf.find id = some s → s.name ≠ m := by
      intro id hid s hs hn
      exact hany ((hasSeries_iff h m).mpr ⟨id, hid, s, hs, hn⟩)
    exact {
      sfok := h.sfok
      partlt := fun t ht => by simp only [List.length_map]; exact h.partlt t ht
      liveKnown := h.liveKnown, liveUndel := h.liveUndel, deadDel := h.deadDel, delKnown := h.delKnown
      pinv := fun i p hp => by
        simp only at hp
        rw [List.getElem?_map] at hp
        cases hq : st.parts[i]? with
        | none => simp [hq] at hp
        | some q =>
          simp only [hq, Option.map_some, Option.some.injEq] at hp
          subst hp
          exact pinv_dropMeasurement m (h.pinv i q hq) hno
      tracked := h.tracked
      cache := h.cache
      fresh := fun hc' => by simp only at hc'; rw [hc] at hc'; simp at hc' }

/-- `SeriesFile.DeleteSeriesID` of the ids whose index drop is complete. -/
theorem ginvx_sfdelete {st : State} {live : List Nat} (pend : List Nat)
    (h : GInvX (fun _ => False) pend st live) (hpk : ∀ id ∈ pend, (st.sf.find id).isSome)
    (hpl : ∀ id ∈ pend, id ∉ live) (d : List Nat) (hd : ∀ x, x ∈ d ↔ x ∈ st.sf.deleted ∨ x ∈ pend) :
    GInv { st with sf := { st.sf with deleted := d } } live where
  sfok := ⟨h.sfok.nodup, h.sfok.uniq⟩
  partlt := h.partlt
  liveKnown := h.liveKnown
  liveUndel x hx := by
    simp only [hd]
    rintro (h1 | h1)
    · exact h.liveUndel x hx h1
    · exact hpl x h1 hx
  deadDel s hs hl := by
    simp only [hd]
    exact Or.inl (h.deadDel s hs hl)
  delKnown x hx := by
    simp only [hd] at hx
    rcases hx with h1 | h1
    · exact h.delKnown x h1
    · exact hpk x h1
  pinv i p hp := pinv_sfdel d (h.pinv i p hp)
  tracked := h.tracked
  cache := h.cache
  fresh := h.fresh

theorem ginv_dropSeries {st : State} {live : List Nat} (h : GInv st live) (id : Nat) :
    GInv (step st (.dropSeries id)).1
      (if (step st (.dropSeries id)).2 = .ok then sdel live id else live) := by
  cases hf : st.sf.find id with
  | none => simp only [step, hf]; simp; exact h
  | some s =>
    simp only [step, hf, if_true]
    have hsid : s.id = id := (find_some_mem hf).2
    have h1 := ginvx_mark h
    have hf1 : ({ st with parts := markOpStart st.parts, configured := true } : State).sf.find s.id = some s := by
      rw [hsid]; exact hf
    have h2 := ginvx_dropSeriesIndex h1 s hf1 rfl
    have h2' : GInvX (fun n => False ∨ n = s.name) [s.id]
        (dropSeriesIndex { st with parts := markOpStart st.parts, configured := true } s) (sdel live s.id) := h2
    have hc2 : (dropSeriesIndex { st with parts := markOpStart st.parts, configured := true } s).configured = true := rfl
    have h3 := ginvx_dropMeasIfNoSeries s.name h2' hc2
    have hsf : (dropMeasurementIfNoSeries
        (dropSeriesIndex { st with parts := markOpStart st.parts, configured := true } s) s.name).sf = st.sf := by
      unfold dropMeasurementIfNoSeries dropSeriesIndex
      split <;> rfl
    rw [hsid] at h3
    exact ginvx_sfdelete [id] h3 (by
        intro x hx
        simp only [List.mem_singleton] at hx
        rw [hx, hsf, hf]; rfl) (by
        intro x hx
        simp only [List.mem_singleton] at hx
        rw [hx]; simp [mem_sdel])
      _ (by
        intro x
        rw [mem_sadd]
        simp only [List.mem_singleton]
        constructor
        · rintro (h | h)
          · exact Or.inr h
          · exact Or.inl h
        · rintro (h | h)
          · exact Or.inr h
          · exact Or.inl h)

theorem ginvx_mono {exc exc' : String → Prop} {pend : List Nat} {st : State} {live : List Nat}
    (hm : ∀ n, exc n → exc' n) (h : GInvX exc pend st live) : GInvX exc' pend st live :=
  { h with pinv := fun i p hp => pinv_mono hm (h.pinv i p hp) }

theorem dropSeriesIndex_sf (st : State) (s : SeriesInfo) : (dropSeriesIndex st s).sf = st.sf := rfl
theorem dropSeriesIndex_conf (st : State) (s : SeriesInfo) :
    (dropSeriesIndex st s).configured = st.configured := rfl

/-- a run of `Index.DropSeries` over series of one measurement. -/
theorem ginvx_dropMany (name : String) (ss : List SeriesInfo) :
    ∀ (pend : List Nat) (st : State) (live : List Nat),
      GInvX (fun n => n = name) pend st live → st.configured = true →
      (∀ s ∈ ss, st.sf.find s.id = some s ∧ s.name = name) →
      ∃ pend', (∀ x, x ∈ pend' ↔ x ∈ pend ∨ ∃ s ∈ ss, s.id = x) ∧
        GInvX (fun n => n = name) pend' (ss.foldl dropSeriesIndex st)
          (ss.foldl (fun l s => sdel l s.id) live) ∧
        (ss.foldl dropSeriesIndex st).sf = st.sf ∧ (ss.foldl dropSeriesIndex st).configured = true := by
  induction ss with
  | nil =>
    intro pend st live h hc _
    exact ⟨pend, by simp, h, rfl, hc⟩
  | cons s rest ih =>
    intro pend st live h hc hss
    obtain ⟨hfs, hns⟩ := hss s (by simp)
    have h1 := ginvx_dropSeriesIndex h s hfs hc
    have h1' : GInvX (fun n => n = name) (s.id :: pend) (dropSeriesIndex st s) (sdel live s.id) :=
      ginvx_mono (fun n hn => by rcases hn with hn | hn; exact hn; rw [hn, hns]) h1
    obtain ⟨pend', hp', hg, hsf, hcf⟩ := ih (s.id :: pend) (dropSeriesIndex st s) (sdel live s.id) h1'
      (by rw [dropSeriesIndex_conf]; exact hc)
      (fun t ht => by rw [dropSeriesIndex_sf]; exact hss t (List.mem_cons_of_mem _ ht))
    refine ⟨pend', ?_, hg, by simp only [List.foldl_cons]; rw [hsf, dropSeriesIndex_sf], hcf⟩
    intro x
    rw [hp' x]
    simp only [List.mem_cons, exists_eq_or_imp]
    constructor
    · rintro ((h | h) | h)
      · exact Or.inr (Or.inl h.symm)
      · exact Or.inl h
      · exact Or.inr (Or.inr h)
    · rintro (h | h | h)
      · exact Or.inl (Or.inr h)
      · exact Or.inl (Or.inl h.symm)
      · exact Or.inr h

theorem mem_foldl_sdel (ss : List SeriesInfo) (live : List Nat) (x : Nat) :
    x ∈ ss.foldl (fun l s => sdel l s.id) live ↔ x ∈ live ∧ ∀ s ∈ ss, s.id ≠ x := by
  induction ss generalizing live with
  | nil => simp
  | cons s rest ih =>
    simp only [List.foldl_cons, ih, mem_sdel, List.mem_cons, forall_eq_or_imp]
    constructor
    · rintro ⟨⟨h1, h2⟩, h3⟩; exact ⟨h1, fun e => h2 e.symm, h3⟩
    · rintro ⟨h1, h2, h3⟩; exact ⟨⟨h1, fun e => h2 e.symm⟩, h3⟩

theorem mem_foldl_sadd (ss : List SeriesInfo) (d : List Nat) (x : Nat) :
    x ∈ ss.foldl (fun d s => sadd d s.id) d ↔ x ∈ d ∨ ∃ s ∈ ss, s.id = x := by
  induction ss generalizing d with
  | nil => simp
  | cons s rest ih =>
    simp only [List.foldl_cons, ih, mem_sadd, List.mem_cons, exists_eq_or_imp]
    constructor
    · rintro ((h | h) | h)
      · exact Or.inr (Or.inl h.symm)
      · exact Or.inl h
      · exact Or.inr (Or.inr h)
    · rintro (h | h | h)
      · exact Or.inl (Or.inr h)
      · exact Or.inl (Or.inl h.symm)
      · exact Or.inr h

/-- the series the harness's `xm` drops: the tracked ones of the measurement. -/
def victims (st : State) (name : String) : List SeriesInfo :=
  (sortNat st.tracked).filterMap (fun id =>
    (st.sf.find id).bind (fun s => if s.name = name then some s else none))

theorem mem_victims {st : State} {name : String} {s : SeriesInfo} :
    s ∈ victims st name ↔ s.id ∈ st.tracked ∧ st.sf.find s.id = some s ∧ s.name = name := by
  unfold victims
  simp only [List.mem_filterMap, mem_sortNat]
  constructor
  · rintro ⟨id, hid, hb⟩
    cases hf : st.sf.find id with
    | none => simp [hf] at hb
    | some t =>
      simp only [hf, Option.bind_some] at hb
      split at hb
      · next hn =>
        simp only [Option.some.injEq] at hb
        subst hb
        have := (find_some_mem hf).2
        rw [this]
        exact ⟨hid, hf, hn⟩
      · simp at hb
  · rintro ⟨h1, h2, h3⟩
    exact ⟨s.id, h1, by simp [h2, h3]⟩

theorem ginv_dropMeasurement {st : State} {live : List Nat} (h : GInv st live) (name : String) :
    GInv (step st (.dropMeasurement name)).1
      ((victims st name).foldl (fun l s => sdel l s.id) live) := by
  have hstep : (step st (.dropMeasurement name)).1 =
      (let st1 : State := { st with parts := markOpStart st.parts, configured := true }
       let st2 := (victims st name).foldl dropSeriesIndex st1
       let st3 := dropMeasurementIfNoSeries st2 name
       { st3 with sf := { st3.sf with deleted := (victims st name).foldl (fun d s => sadd d s.id) st3.sf.deleted } }) := rfl
  rw [hstep]
  simp only
  have h1 := ginvx_mark h
  have h1' : GInvX (fun n => n = name) []
      ({ st with parts := markOpStart st.parts, configured := true } : State) live :=
    ginvx_mono (fun n hn => absurd hn (by simp)) h1
  obtain ⟨pend', hp', hg, hsf, hcf⟩ := ginvx_dropMany name (victims st name) [] _ live h1' rfl
    (fun s hs => by
      obtain ⟨_, h2, h3⟩ := mem_victims.mp hs
      exact ⟨h2, h3⟩)
  have hg' : GInvX (fun n => False ∨ n = name) pend'
      ((victims st name).foldl dropSeriesIndex { st with parts := markOpStart st.parts, configured := true })
      ((victims st name).foldl (fun l s => sdel l s.id) live) :=
    ginvx_mono (fun n hn => Or.inr hn) hg
  have h3 := ginvx_dropMeasIfNoSeries name hg' hcf
  have hsf3 : (dropMeasurementIfNoSeries
      ((victims st name).foldl dropSeriesIndex { st with parts := markOpStart st.parts, configured := true })
      name).sf = st.sf := by
    have : ∀ st' : State, (dropMeasurementIfNoSeries st' name).sf = st'.sf := by
      intro st'; unfold dropMeasurementIfNoSeries; split <;> rfl
    rw [this, hsf]
  refine ginvx_sfdelete pend' h3 ?_ ?_ _ ?_
  · intro x hx
    rw [hsf3]
    rcases (hp' x).mp hx with h0 | ⟨s, hs, rfl⟩
    · simp at h0
    · obtain ⟨_, h2, _⟩ := mem_victims.mp hs
      simp [h2]
  · intro x hx hl
    rcases (hp' x).mp hx with h0 | ⟨s, hs, rfl⟩
    · simp at h0
    · exact ((mem_foldl_sdel _ _ _).mp hl).2 s hs rfl
  · intro x
    rw [mem_foldl_sadd, hp' x]
    simp

end Influx.Model.TSI
