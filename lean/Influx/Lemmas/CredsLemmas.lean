/-
  Lemmas.CredsLemmas — the statement checker of Spec.C44 simulates the model
  (helper lemmas for Props.C44).
-/
import Influx.Lemmas.TenantKV
import Influx.Model.Creds
import Influx.Spec.C44

namespace Influx.Creds
open Influx.Tenant Influx.Tenant.KV Influx.Spec.C44

/-- the checker's bookkeeping agrees with the model's stores -/
structure Sim (t : Track) (s : State) : Prop where
  ok : t.ok = true
  pw : t.pw = s.pw
  users : t.users = s.active
  toks : t.toks = s.toks
  sess : ∀ k u, get s.sess k = some (u, false) → get t.sess k = some u
  /-- with the production session store no expired session is ever present -/
  noExp : s.cfgB = false → ∀ k u, get s.sess k ≠ some (u, true)

theorem sim_init : Sim {} init := ⟨rfl, rfl, rfl, rfl, fun _ _ h => by simp [init] at h, fun _ _ _ h => by simp [init] at h⟩

theorem take_all (p : String) (h : ¬ (p.length > maxPasswordLen)) :
    String.ofList (p.toList.take maxPasswordLen) = p := by
  have : p.toList.length ≤ maxPasswordLen := by
    have := String.length_toList (s := p); omega
  rw [List.take_of_length_le this]; simp

/-- a successful no-strength comparison: the candidate's first 72 bytes are the stored password -/
theorem compareNoStrength_ok {s : State} {uid : Nat} {p : String} (h : (compareNoStrength s uid p).ok = true) :
    get s.pw uid = some (first72 p) := by
  unfold compareNoStrength at h
  split at h
  · simp at h
  · split at h
    · simp at h
    · rename_i hh hg
      split at h
      · rename_i hv
        simp only [verify, decide_eq_true_eq] at hv
        rw [hg, ← hv]; rfl
      · simp at h

theorem getToken_presents {hdr : Option String} {t : String} (h : getToken hdr = some t) : presents hdr t = true := by
  unfold getToken at h
  cases hdr with
  | none => simp at h
  | some hd =>
    simp only at h
    unfold presents
    simp only
    split at h
    · simp at h
    · split at h
      · rename_i hc
        simp only [Option.some.injEq] at h
        simp only [Bool.and_eq_true, decide_eq_true_eq] at hc
        simp [lower] at hc
        simp [hc.2, h]
      · split at h
        · rename_i hc
          simp only [Option.some.injEq] at h
          simp only [Bool.and_eq_true, decide_eq_true_eq] at hc
          simp [lower] at hc
          simp [hc.2, h]
        · simp at h

theorem sim_setPassword {t : Track} {s : State} (h : Sim t s) (uid : Nat) (p : String) :
    Sim (trackStep t (.sp uid p, (setPassword s uid p).2)) (setPassword s uid p).1 := by
  unfold setPassword
  split
  · exact h
  · split
    · simp only [trackStep]; exact h
    · split
      · simp only [trackStep]; exact h
      · simp only [trackStep, ↓reduceIte]
        exact ⟨h.ok, by simp [h.pw], h.users, h.toks, h.sess, h.noExp⟩

theorem sim_cas {t : Track} {s : State} (h : Sim t s) (uid : Nat) (old new : String) :
    Sim (trackStep t (.cas uid old new, (compareAndSet s uid old new).2)) (compareAndSet s uid old new).1 := by
  unfold compareAndSet
  simp only
  split
  · rename_i hok
    have hold := compareNoStrength_ok hok
    unfold setPassword
    split
    · exact h
    · split
      · simp only [trackStep]; exact h
      · split
        · simp only [trackStep]; exact h
        · simp only [trackStep, ↓reduceIte, h.pw, hold]
          exact ⟨h.ok, rfl, h.users, h.toks, h.sess, h.noExp⟩
  · rename_i hok
    simp only [trackStep, hok]
    exact h

theorem sim_cp {t : Track} {s : State} (h : Sim t s) (uid : Nat) (p : String) :
    Sim (trackStep t (.cp uid p, comparePassword s uid p)) s := by
  unfold comparePassword
  simp only
  split
  · exact h
  · rename_i lenBad charsBad hst
    split
    · simp only [trackStep]; exact h
    · rename_i hnot
      simp only [trackStep]
      split
      · rename_i hok
        have hold := compareNoStrength_ok hok
        -- the candidate is not weak, in particular not longer than 72 bytes
        have hlen : ¬ (p.length > maxPasswordLen) := by
          intro hl
          unfold strength at hst
          have : lenBad = true := by
            split at hst
            · split at hst
              · cases hst
              · simp only [Option.some.injEq, Prod.mk.injEq] at hst
                rw [← hst.1]; simp [hl]
            · simp only [Option.some.injEq, Prod.mk.injEq] at hst
              rw [← hst.1]; simp [hl]
          simp [hok, this] at hnot
        have : first72 p = p := take_all p hlen
        rw [this] at hold
        simp only [h.pw, hold, ↓reduceIte]
        exact h
      · exact h

theorem sim_createUser {t : Track} {s : State} (h : Sim t s) (n : String) :
    Sim (trackStep t (.cu n, (createUser s n).2)) (createUser s n).1 := by
  unfold createUser
  simp only
  repeat' split
  all_goals first
    | (simp only [trackStep]; exact ⟨h.ok, h.pw, h.users, h.toks, h.sess, h.noExp⟩)
    | skip
  simp only [trackStep]
  exact ⟨h.ok, h.pw, by simp [h.users], h.toks, h.sess, h.noExp⟩

theorem sim_setUserStatus {t : Track} {s : State} (h : Sim t s) (u : Nat) (a : Bool) :
    Sim (trackStep t (.us u a, (setUserStatus s u a).2)) (setUserStatus s u a).1 := by
  unfold setUserStatus
  repeat' split
  all_goals first
    | (simp only [trackStep]; exact h)
    | skip
  simp only [trackStep]
  exact ⟨h.ok, h.pw, by simp [h.users], h.toks, h.sess, h.noExp⟩

theorem sim_deleteUser {t : Track} {s : State} (h : Sim t s) (u : Nat) :
    Sim (trackStep t (.du u, (deleteUser s u).2)) (deleteUser s u).1 := by
  unfold deleteUser
  repeat' split
  all_goals first
    | (simp only [trackStep]; exact h)
    | skip
  simp only [trackStep]
  exact ⟨h.ok, by simp [h.pw], by simp [h.users], h.toks, h.sess, h.noExp⟩

theorem sim_createTok {t : Track} {s : State} (h : Sim t s) (u : Nat) (tk : String) (a : Bool) :
    Sim (trackStep t (.ct u tk a, (createTok s u tk a).2)) (createTok s u tk a).1 := by
  unfold createTok
  repeat' split
  all_goals first
    | (simp only [trackStep]; exact h)
    | skip
  simp only [trackStep]
  exact ⟨h.ok, h.pw, h.users, by simp [h.toks], h.sess, h.noExp⟩

theorem sim_updateTok {t : Track} {s : State} (h : Sim t s) (i : Nat) (a : Bool) :
    Sim (trackStep t (.ut i a, (updateTok s i a).2)) (updateTok s i a).1 := by
  unfold updateTok
  split
  · simp only [trackStep]; exact h
  · rename_i r hr
    split
    · simp only [trackStep]; exact h
    · simp only [trackStep, h.toks, hr]
      exact ⟨h.ok, h.pw, h.users, rfl, h.sess, h.noExp⟩

theorem sim_deleteTok {t : Track} {s : State} (h : Sim t s) (i : Nat) :
    Sim (trackStep t (.dt i, (deleteTok s i).2)) (deleteTok s i).1 := by
  unfold deleteTok
  repeat' split
  all_goals first
    | (simp only [trackStep]; exact h)
    | skip
  simp only [trackStep]
  exact ⟨h.ok, h.pw, h.users, by simp [h.toks], h.sess, h.noExp⟩

theorem sim_createSession {t : Track} {s : State} (h : Sim t s) (n : String) (l : Bool) :
    Sim (trackStep t (.cs n l, (createSession s n l).2)) (createSession s n l).1 := by
  unfold createSession
  split
  · simp only [trackStep]; exact h
  · rename_i uid nm _
    simp only
    split
    · rename_i hc
      simp only [trackStep]
      cases l with
      | true =>
        simp only [↓reduceIte, Bool.not_true]
        refine ⟨h.ok, h.pw, h.users, h.toks, ?_, ?_⟩
        · intro k u hk
          simp only [get_put] at hk ⊢
          split at hk
          · rename_i e; subst e; simp only [Option.some.injEq, Prod.mk.injEq] at hk; simp [hk.1]
          · rename_i e; simp only [e, ↓reduceIte]; exact h.sess k u hk
        · intro hB k u hk
          simp only [get_put] at hk
          split at hk
          · simp at hk
          · exact h.noExp hB k u hk
      | false =>
        simp only [Bool.false_eq_true, ↓reduceIte, Bool.not_false]
        refine ⟨h.ok, h.pw, h.users, h.toks, ?_, ?_⟩
        · intro k u hk
          simp only [get_put] at hk
          split at hk
          · simp at hk
          · exact h.sess k u hk
        · intro hB
          simp only [Bool.false_or] at hc
          simp only at hB
          rw [hB] at hc; cases hc
    · rename_i hc
      have hl : l = false := by cases l <;> simp_all
      subst hl
      simp only [trackStep, Bool.false_eq_true, ↓reduceIte]
      exact ⟨h.ok, h.pw, h.users, h.toks, h.sess, h.noExp⟩

theorem sim_expireSession {t : Track} {s : State} (h : Sim t s) (k : String) :
    Sim (trackStep t (.xs k, (expireSession s k).2)) (expireSession s k).1 := by
  unfold expireSession
  split
  · simp only [trackStep]; exact h
  · simp only [trackStep]
    refine ⟨h.ok, h.pw, h.users, h.toks, ?_, ?_⟩
    · intro k' u hk
      simp only [get_del] at hk ⊢
      split at hk
      · simp at hk
      · rename_i e; simp only [e, ↓reduceIte]; exact h.sess k' u hk
    · intro hB k' u hk
      simp only [get_del] at hk
      split at hk
      · simp at hk
      · exact h.noExp hB k' u hk

/-- renewing never makes the checker's and the model's sessions disagree: an ended session is "not
    found" and nothing is written; a present one is (with the production store) unexpired already -/
theorem sim_renew {t : Track} {s : State} (h : Sim t s) (k : String) (far : Bool) :
    Sim (trackStep t (.renew k far, (renewSession s k far).2)) (renewSession s k far).1 := by
  simp only [trackStep]
  unfold renewSession
  split
  · exact h
  · rename_i hB
    have hB' : s.cfgB = false := by simpa using hB
    split
    · exact h
    · split
      · exact h
      · rename_i u expired hg
        split
        · refine ⟨h.ok, h.pw, h.users, h.toks, ?_, ?_⟩
          · intro k' u' hk
            simp only [get_put] at hk
            split at hk
            · rename_i e; subst e
              simp only [Option.some.injEq, Prod.mk.injEq, and_true] at hk; subst hk
              cases expired with
              | false => exact h.sess _ _ hg
              | true => exact absurd hg (h.noExp hB' _ _)
            · exact h.sess k' u' hk
          · intro _ k' u' hk
            simp only [get_put] at hk
            split at hk
            · simp at hk
            · exact h.noExp hB' k' u' hk
        · exact h

/-- an authenticated request of the model is backed by a current credential -/
theorem serve_justified {t : Track} {s : State} (h : Sim t s) (hdr ck : Option String) {st uid : Nat}
    (hs : serve s hdr ck = .http st true (some true) uid) : justified t hdr ck uid = true := by
  unfold serve at hs
  split at hs
  · simp at hs
  · rename_i u psetOK hau
    split at hs
    · simp at hs
    · rename_i huser
      simp only [Ans.http.injEq, true_and, Option.some.injEq] at hs
      obtain ⟨_, rfl, rfl⟩ := hs
      have husr : (decide (u = 0) || decide (get t.users u = some true)) = true := by
        rw [h.users]
        simp only [ne_eq, Bool.and_eq_true, decide_eq_true_eq, not_and, Decidable.not_not] at huser
        by_cases h0 : u = 0
        · simp [h0]
        · simp [huser h0]
      unfold justified
      simp only [Bool.and_eq_true, Bool.or_eq_true]
      refine ⟨?_, by simpa using husr⟩
      unfold authorizerOf at hau
      split at hau
      · rename_i tk htk
        left
        cases hf : findTok s tk with
        | none => simp [hf] at hau
        | some e =>
          simp only [hf, Option.map_some, Option.some.injEq, Prod.mk.injEq] at hau
          unfold findTok at hf
          have hm := List.mem_of_find?_eq_some hf
          have hp := List.find?_some hf
          simp only [decide_eq_true_eq] at hp
          rw [h.toks]
          simp only [List.any_eq_true, Bool.and_eq_true, decide_eq_true_eq]
          exact ⟨e, hm, ⟨by rw [hp]; exact getToken_presents htk, hau.2⟩, hau.1⟩
      · split at hau
        · simp at hau
        · rename_i k
          right
          cases hg : get s.sess k with
          | none => simp [hg] at hau
          | some e =>
            simp only [hg, Option.map_some, Option.some.injEq, Prod.mk.injEq, Bool.not_eq_eq_eq_not,
              Bool.not_true] at hau
            have := h.sess k u (by rw [hg]; obtain ⟨a, b⟩ := e; simp_all)
            simp [this]

theorem sim_step {t : Track} {s : State} (h : Sim t s) (op : Op) :
    Sim (trackStep t (op, (step s op).2)) (step s op).1 := by
  cases op with
  | cfg a b c => exact ⟨rfl, rfl, rfl, rfl, fun _ _ hk => by simp [step] at hk, fun _ _ _ hk => by simp [step] at hk⟩
  | strong b => exact ⟨h.ok, h.pw, h.users, h.toks, h.sess, h.noExp⟩
  | cu n => exact sim_createUser h n
  | us u a => exact sim_setUserStatus h u a
  | du u => exact sim_deleteUser h u
  | sp u p => exact sim_setPassword h u p
  | cp u p => exact sim_cp h u p
  | cas u o n => exact sim_cas h u o n
  | ct u tk a => exact sim_createTok h u tk a
  | ut i a => exact sim_updateTok h i a
  | dt i => exact sim_deleteTok h i
  | cs n l => exact sim_createSession h n l
  | xs k => exact sim_expireSession h k
  | renew k far => exact sim_renew h k far
  | req hd ck =>
    simp only [step]
    cases hs : serve s hd ck with
    | http st reached pset uid =>
      simp only [trackStep]
      split
      · rename_i hc
        simp only [Bool.and_eq_true, decide_eq_true_eq] at hc
        obtain ⟨rfl, rfl⟩ := hc
        rw [serve_justified h hd ck hs]
        exact h
      · exact h
    | _ => exact h
  | phc ds v m p q =>
    simp only [step, trackStep]
    have h1 : (PhcRes.matched true = phcMatch ds v m p q → q = p) := by
      intro e
      unfold phcMatch at e
      cases m <;> simp at e
      all_goals (split at e <;> simp at e)
      exact e
    have h2 : (m = .none → ds.contains v = true → phcMatch ds v m p q = .matched (decide (q = p))) := by
      intro hm hc; subst hm; simp only [phcMatch, hc, ↓reduceIte]
    have e1 : (decide (phcMatch ds v m p q = PhcRes.matched true) && decide (q ≠ p)) = false := by
      by_cases hr : phcMatch ds v m p q = PhcRes.matched true
      · simp [hr, h1 hr.symm]
      · simp [hr]
    have e2 : (decide (m = Mangle.none) && ds.contains v &&
        decide (phcMatch ds v m p q ≠ PhcRes.matched (decide (q = p)))) = false := by
      by_cases hm : m = .none
      · by_cases hc : ds.contains v = true
        · simp [h2 hm hc]
        · have : ds.contains v = false := by simpa using hc
          simp only [this, Bool.and_false, Bool.false_and]
      · simp [hm]
    simp only [e1, e2, Bool.false_eq_true, ↓reduceIte]
    exact h

theorem track_run (ops : List Op) {t : Track} {s : State} (h : Sim t s) :
    ((run s ops).foldl trackStep t).ok = true := by
  induction ops generalizing t s with
  | nil => exact h.ok
  | cons op ops ih =>
    simp only [run, List.foldl_cons]
    exact ih (sim_step h op)

end Influx.Creds
