/-
  Lemmas.TSILog — `LogFile.open` at the level of bytes: the log is a concatenation of encoded
  entries; reading stops at the first entry that does not decode (short buffer or checksum
  mismatch). The entry codec (`appendLogEntry` / `LogEntry.UnmarshalBinary`, CRC-32) is NOT
  modelled: it enters as two hypotheses, exercised on the real code by the correspondence run.
-/
import Influx.Model.TSI

namespace Influx.Model.TSI

/-- what is assumed of the entry codec. -/
structure LogCodec where
  /-- `appendLogEntry`: the bytes of one entry (body and checksum) -/
  encode : Entry → List Nat
  /-- `LogEntry.UnmarshalBinary` on a buffer: the entry at its front and its size, or an error -/
  decode : List Nat → Option (Entry × Nat)
  nonempty : ∀ e, 0 < (encode e).length
  /-- a complete entry decodes, whatever follows it -/
  complete : ∀ e rest, decode (encode e ++ rest) = some (e, (encode e).length)
  /-- a strict prefix of an entry never passes (short buffer, or the checksum does not match) -/
  torn : ∀ e p, p.length < (encode e).length → p = (encode e).take p.length → decode p = none

/-- `LogFile.open`'s loop: decode entries until one fails. -/
def parseLog (c : LogCodec) : Nat → List Nat → List Entry
  | 0, _ => []
  | fuel + 1, bytes =>
    match c.decode bytes with
    | none => []
    | some (e, n) => if n = 0 then [] else e :: parseLog c fuel (bytes.drop n)

/-- **open(truncate log) = the longest prefix of whole entries**: a log cut anywhere inside
    entry `e` (or at an entry boundary: `p = []`) reads back exactly the entries before it. -/
theorem parseLog_truncated (c : LogCodec) (es : List Entry) (e : Entry) (p : List Nat)
    (hp : p.length < (c.encode e).length) (hpre : p = (c.encode e).take p.length) :
    ∀ fuel, (es.flatMap c.encode ++ p).length < fuel → parseLog c fuel (es.flatMap c.encode ++ p) = es := by
  induction es with
  | nil =>
    intro fuel hf
    cases fuel with
    | zero => simp at hf
    | succ n =>
      simp only [List.flatMap_nil, List.nil_append, parseLog]
      rw [c.torn e p hp hpre]
  | cons e0 rest ih =>
    intro fuel hf
    cases fuel with
    | zero => simp at hf
    | succ n =>
      have hcat : (e0 :: rest).flatMap c.encode ++ p = c.encode e0 ++ (rest.flatMap c.encode ++ p) := by
        simp [List.flatMap_cons, List.append_assoc]
      rw [hcat] at hf ⊢
      simp only [parseLog, c.complete e0]
      have hne := c.nonempty e0
      have hn0 : (c.encode e0).length ≠ 0 := by omega
      simp only [hn0, if_false, List.drop_left]
      rw [ih n (by simp only [List.length_append] at hf ⊢; omega)]

end Influx.Model.TSI
