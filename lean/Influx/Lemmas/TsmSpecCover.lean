/-
  Lemmas.TsmSpecCover — the finite test `fullyCovered` of the statement checker decides
  "every time of [lo, hi] is covered by a request".
-/
import Influx.Spec.C08

namespace Influx.Tsm
open Influx.Spec.C08

theorem covers_iff (rs : List Req) (t : Int) : covers rs t = true ↔ ∃ r ∈ rs, r.lo ≤ t ∧ t ≤ r.hi := by
  simp [covers, List.any_eq_true]

theorem fullyCovered_iff (rs : List Req) (lo hi : Int) (hle : lo ≤ hi) :
    fullyCovered rs lo hi = true ↔ ∀ t, lo ≤ t → t ≤ hi → covers rs t = true := by
  unfold fullyCovered
  rw [List.all_eq_true]
  constructor
  · intro hall
    have key : ∀ (n : Nat) (t : Int), t = lo + n → t ≤ hi → covers rs t = true := by
      intro n
      induction n with
      | zero => intro t ht _; apply hall; simp at ht; rw [ht]; exact List.mem_cons_self
      | succ n ih =>
        intro t ht hthi
        have hprev := ih (t - 1) (by omega) (by omega)
        obtain ⟨r, hr, h1, h2⟩ := (covers_iff rs (t - 1)).mp hprev
        by_cases hc : t ≤ r.hi
        · exact (covers_iff rs t).mpr ⟨r, hr, by omega, hc⟩
        · apply hall
          apply List.mem_cons_of_mem
          apply List.mem_filterMap.mpr
          refine ⟨r, hr, ?_⟩
          have : r.hi + 1 = t := by omega
          simp [this]; omega
    intro t h1 h2
    exact key (t - lo).toNat t (by omega) h2
  · intro h x hx
    rcases List.mem_cons.mp hx with rfl | hx
    · exact h x (Int.le_refl _) hle
    · obtain ⟨r, _, hr⟩ := List.mem_filterMap.mp hx
      split at hr
      · next hc => cases hr; exact h _ hc.1 hc.2
      · cases hr

end Influx.Tsm
