/-
  Lemmas.EngineLog — the newest-wins algebra of `Model.EngineLog`:
  `lookupPt` over `insertPt` / `mergeOver` / `dedup`, sortedness, `Log.get` over
  append / filter / canon, and the characterisation of `Log.values`.
-/
import Influx.Model.EngineLog

namespace Influx.Model.Engine

/-! ### point lists -/

theorem lookupPt_insertPt (p : Pt) (t : Int) (l : List Pt) :
    lookupPt t (insertPt p l) = if p.1 = t then some p.2 else lookupPt t l := by
  induction l with
  | nil => simp [insertPt, lookupPt]
  | cons q l ih =>
    unfold insertPt
    by_cases h1 : p.1 < q.1
    · simp [h1, lookupPt]
    · by_cases h2 : p.1 = q.1
      · rw [if_neg h1, if_pos h2]
        simp only [lookupPt]
        by_cases h3 : q.1 = t
        · have : p.1 = t := h2.trans h3
          simp [h3, this]
        · have : ¬ p.1 = t := fun h => h3 (h2.symm.trans h)
          simp [h3, this]
      · rw [if_neg h1, if_neg h2]
        simp only [lookupPt, ih]
        by_cases h3 : q.1 = t
        · have : ¬ p.1 = t := fun h => h2 (h.trans h3.symm)
          simp [h3, this]
        · simp [h3]

theorem SortedPts.tail {p : Pt} {l : List Pt} (h : SortedPts (p :: l)) : SortedPts l :=
  (List.pairwise_cons.mp h).2

theorem SortedPts.head_lt {p : Pt} {l : List Pt} (h : SortedPts (p :: l)) :
    ∀ q ∈ l, p.1 < q.1 := (List.pairwise_cons.mp h).1

theorem sortedPts_cons {p : Pt} {l : List Pt} (hl : SortedPts l) (h : ∀ q ∈ l, p.1 < q.1) :
    SortedPts (p :: l) := List.pairwise_cons.mpr ⟨h, hl⟩

theorem sortedPts_nil : SortedPts [] := List.Pairwise.nil

theorem mem_insertPt {p q : Pt} {l : List Pt} (h : q ∈ insertPt p l) : q = p ∨ q ∈ l := by
  induction l with
  | nil => simp [insertPt] at h; exact Or.inl h
  | cons r l ih =>
    unfold insertPt at h
    by_cases h1 : p.1 < r.1
    · rw [if_pos h1] at h
      rcases List.mem_cons.mp h with h | h
      · exact Or.inl h
      · exact Or.inr h
    · by_cases h2 : p.1 = r.1
      · rw [if_neg h1, if_pos h2] at h
        rcases List.mem_cons.mp h with h | h
        · exact Or.inl h
        · exact Or.inr (List.mem_cons_of_mem _ h)
      · rw [if_neg h1, if_neg h2] at h
        rcases List.mem_cons.mp h with h | h
        · exact Or.inr (h ▸ List.mem_cons_self)
        · rcases ih h with h | h
          · exact Or.inl h
          · exact Or.inr (List.mem_cons_of_mem _ h)

theorem sorted_insertPt (p : Pt) {l : List Pt} (hl : SortedPts l) : SortedPts (insertPt p l) := by
  induction l with
  | nil => exact sortedPts_cons sortedPts_nil (by simp)
  | cons r l ih =>
    unfold insertPt
    by_cases h1 : p.1 < r.1
    · rw [if_pos h1]
      apply sortedPts_cons hl
      intro q hq
      rcases List.mem_cons.mp hq with rfl | hq
      · exact h1
      · have := hl.head_lt q hq; omega
    · by_cases h2 : p.1 = r.1
      · rw [if_neg h1, if_pos h2]
        apply sortedPts_cons hl.tail
        intro q hq
        have := hl.head_lt q hq
        omega
      · rw [if_neg h1, if_neg h2]
        apply sortedPts_cons (ih hl.tail)
        intro q hq
        rcases mem_insertPt hq with rfl | hq
        · have h3 : ¬ q.1 < r.1 := h1
          have h4 : ¬ q.1 = r.1 := h2
          omega
        · exact hl.head_lt q hq

theorem sorted_mergeOver {a : List Pt} (b : List Pt) (ha : SortedPts a) : SortedPts (mergeOver a b) := by
  induction b generalizing a with
  | nil => exact ha
  | cons p b ih => exact ih (sorted_insertPt p ha)

theorem sorted_dedup (l : List Pt) : SortedPts (dedup l) := sorted_mergeOver l sortedPts_nil

theorem lookupPt_mergeOver (t : Int) (a b : List Pt) :
    lookupPt t (mergeOver a b) = (lastPt t b).or (lookupPt t a) := by
  induction b generalizing a with
  | nil => simp [mergeOver, lastPt]
  | cons p b ih =>
    have : mergeOver a (p :: b) = mergeOver (insertPt p a) b := rfl
    rw [this, ih, lookupPt_insertPt]
    simp only [lastPt]
    cases lastPt t b <;> by_cases h : p.1 = t <;> simp [h]

theorem lookupPt_dedup (t : Int) (l : List Pt) : lookupPt t (dedup l) = lastPt t l := by
  simp [dedup, lookupPt_mergeOver, lookupPt]

theorem lookupPt_none_of_lt {t : Int} {l : List Pt} (h : ∀ q ∈ l, t < q.1) : lookupPt t l = none := by
  induction l with
  | nil => rfl
  | cons q l ih =>
    have h1 := h q List.mem_cons_self
    have : ¬ q.1 = t := by omega
    simp only [lookupPt, this, if_false]
    exact ih (fun r hr => h r (List.mem_cons_of_mem _ hr))

/-- In a strictly sorted list membership is lookup. -/
theorem mem_iff_lookupPt {l : List Pt} (hl : SortedPts l) (t : Int) (v : Int) :
    (t, v) ∈ l ↔ lookupPt t l = some v := by
  induction l with
  | nil => simp [lookupPt]
  | cons q l ih =>
    have hlt := hl.head_lt
    simp only [List.mem_cons, lookupPt]
    by_cases h : q.1 = t
    · simp only [h, if_true]
      constructor
      · rintro (h1 | h1)
        · rw [← h1]
        · have := hlt _ h1; simp at this; omega
      · intro h1
        left
        cases h1
        exact Prod.ext h.symm rfl
    · simp only [h, if_false]
      rw [← ih hl.tail]
      constructor
      · rintro (h1 | h1)
        · exact absurd (by rw [← h1]) h
        · exact h1
      · exact Or.inr

theorem lastPt_append (t : Int) (a b : List Pt) : lastPt t (a ++ b) = (lastPt t b).or (lastPt t a) := by
  induction a with
  | nil => simp [lastPt]
  | cons p a ih =>
    simp only [List.cons_append, lastPt, ih]
    cases lastPt t b <;> simp

/-! ### logs -/

theorem Log.get_append (a b : Log) (k : Key) (t : Int) :
    Log.get (a ++ b) k t = (Log.get b k t).or (Log.get a k t) := by
  induction a with
  | nil => simp [Log.get]
  | cons e a ih =>
    simp only [List.cons_append, Log.get, ih]
    cases Log.get b k t <;> simp

theorem Log.get_nil (k : Key) (t : Int) : Log.get [] k t = none := rfl

/-- `get` is `lastPt` over the key's points. -/
theorem Log.get_eq_lastPt (l : Log) (k : Key) (t : Int) : Log.get l k t = lastPt t (Log.pts l k) := by
  induction l with
  | nil => rfl
  | cons e l ih =>
    simp only [Log.get, Log.pts, List.filter_cons]
    by_cases hk : e.key = k
    · simp only [hk, decide_true, if_true, List.map_cons, lastPt]
      have : lastPt t (Log.pts l k) = Log.get l k t := ih.symm
      simp only [Log.pts] at this
      rw [this]
      simp
    · simp only [hk, decide_false, Bool.false_eq_true, if_false, false_and]
      have : lastPt t (Log.pts l k) = Log.get l k t := ih.symm
      simp only [Log.pts] at this
      rw [this]
      cases Log.get l k t <;> rfl

theorem Log.sorted_values (l : Log) (k : Key) : SortedPts (Log.values l k) := sorted_dedup _

/-- The characterisation of `values`: exactly the last-written value per timestamp. -/
theorem Log.mem_values (l : Log) (k : Key) (t : Int) (v : Int) :
    (t, v) ∈ Log.values l k ↔ Log.get l k t = some v := by
  rw [mem_iff_lookupPt (l.sorted_values k), Log.values, lookupPt_dedup, Log.get_eq_lastPt]

/-- Filtering a log by a predicate on (key, time) removes exactly those cells. -/
theorem Log.get_filter (l : Log) (p : Key → Int → Bool) (k : Key) (t : Int) :
    Log.get (l.filter fun e => p e.key e.ts) k t = if p k t then Log.get l k t else none := by
  induction l with
  | nil => simp [Log.get]
  | cons e l ih =>
    simp only [List.filter_cons]
    by_cases hp : p e.key e.ts
    · simp only [hp, if_true, Log.get, ih]
      by_cases hkt : p k t
      · simp [hkt]
      · simp only [hkt, Bool.false_eq_true, if_false]
        have : ¬ (e.key = k ∧ e.ts = t) := by
          rintro ⟨rfl, rfl⟩; exact hkt hp
        simp [this]
    · simp only [hp, Bool.false_eq_true, if_false, Log.get, ih]
      by_cases hkt : p k t
      · have : ¬ (e.key = k ∧ e.ts = t) := by
          rintro ⟨rfl, rfl⟩; exact hp hkt
        simp only [hkt, if_true, this, if_false]
        cases Log.get l k t <;> rfl
      · simp [hkt]

theorem Log.get_some_mem {l : Log} {k : Key} {t : Int} {v : Int} (h : Log.get l k t = some v) :
    ⟨k, t, v⟩ ∈ l := by
  induction l with
  | nil => simp [Log.get] at h
  | cons e l ih =>
    simp only [Log.get] at h
    cases hg : Log.get l k t with
    | some w =>
      rw [hg] at h
      simp only [Option.some.injEq] at h
      subst h
      exact List.mem_cons_of_mem _ (ih hg)
    | none =>
      rw [hg] at h
      by_cases hkt : e.key = k ∧ e.ts = t
      · simp only [hkt, and_self, if_true, Option.some.injEq] at h
        obtain ⟨h1, h2⟩ := hkt
        have : e = ⟨k, t, v⟩ := by cases e; simp_all
        rw [this]; exact List.mem_cons_self
      · simp [hkt] at h

theorem Log.get_none_of_no_key {l : Log} {k : Key} (h : ∀ e ∈ l, e.key ≠ k) (t : Int) :
    Log.get l k t = none := by
  cases hg : Log.get l k t with
  | none => rfl
  | some v => exact absurd rfl (h _ (Log.get_some_mem hg))

/-! ### canon -/

theorem Log.mem_keys {l : Log} : ∀ {k : Key}, k ∈ Log.keys l ↔ ∃ e ∈ l, e.key = k := by
  induction l with
  | nil => intro k; simp [Log.keys]
  | cons e l ih =>
    intro k
    simp only [Log.keys]
    split
    · next hc =>
      have hm : e.key ∈ Log.keys l := by simpa using hc
      simp only [ih, List.mem_cons, exists_eq_or_imp]
      constructor
      · exact Or.inr
      · rintro (h | h)
        · rw [← h]; exact ih.mp hm
        · exact h
    · simp only [List.mem_cons, ih, exists_eq_or_imp]
      constructor
      · rintro (h | h)
        · exact Or.inl h.symm
        · exact Or.inr h
      · rintro (h | h)
        · exact Or.inl h.symm
        · exact Or.inr h

theorem Log.nodup_keys (l : Log) : (Log.keys l).Nodup := by
  induction l with
  | nil => simp [Log.keys]
  | cons e l ih =>
    simp only [Log.keys]
    split
    · exact ih
    · next hc =>
      have hm : ¬ e.key ∈ Log.keys l := by simpa using hc
      exact List.nodup_cons.mpr ⟨hm, ih⟩

/-- the chunk of one key in a canonical log -/
def chunk (k : Key) (vs : List Pt) : Log := vs.map fun p => ⟨k, p.1, p.2⟩

theorem chunk_key {k : Key} {vs : List Pt} : ∀ e ∈ chunk k vs, e.key = k := by
  intro e he
  simp only [chunk, List.mem_map] at he
  obtain ⟨p, _, rfl⟩ := he
  rfl

theorem get_chunk (k : Key) (vs : List Pt) (t : Int) : Log.get (chunk k vs) k t = lastPt t vs := by
  induction vs with
  | nil => rfl
  | cons p vs ih =>
    simp only [chunk, List.map_cons, Log.get, lastPt]
    simp only [chunk] at ih
    rw [ih]
    simp

theorem lastPt_eq_lookupPt {l : List Pt} (hl : SortedPts l) (t : Int) : lastPt t l = lookupPt t l := by
  induction l with
  | nil => rfl
  | cons q l ih =>
    simp only [lastPt, lookupPt, ih hl.tail]
    by_cases h : q.1 = t
    · have : lookupPt t l = none := lookupPt_none_of_lt (fun r hr => h ▸ hl.head_lt r hr)
      simp [h, this]
    · simp only [h, if_false]
      cases lookupPt t l <;> rfl

theorem get_flatMap_chunks (f : Key → List Pt) (ks : List Key) (hks : ks.Nodup) (k : Key) (t : Int) :
    Log.get (ks.flatMap fun k' => chunk k' (f k')) k t = if k ∈ ks then lastPt t (f k) else none := by
  induction ks with
  | nil => simp [Log.get]
  | cons k' ks ih =>
    have hnd := List.nodup_cons.mp hks
    simp only [List.flatMap_cons, Log.get_append, ih hnd.2, List.mem_cons]
    by_cases hk : k = k'
    · subst hk
      simp only [hnd.1, if_false, true_or, if_true, get_chunk]
      simp
    · have h1 : Log.get (chunk k' (f k')) k t = none :=
        Log.get_none_of_no_key (fun e he => by rw [chunk_key e he]; exact fun h => hk h.symm) t
      simp only [h1, hk, false_or]
      cases (if k ∈ ks then lastPt t (f k) else none) <;> rfl

theorem Log.canon_eq (l : Log) : l.canon = (Log.keys l).flatMap fun k => chunk k (Log.values l k) := rfl

/-- A TSM file written from a log answers every cell like the log. -/
theorem Log.get_canon (l : Log) (k : Key) (t : Int) : l.canon.get k t = Log.get l k t := by
  rw [Log.canon_eq, get_flatMap_chunks (fun k => Log.values l k) _ l.nodup_keys]
  by_cases hk : k ∈ Log.keys l
  · simp only [hk, if_true]
    rw [lastPt_eq_lookupPt (l.sorted_values k), Log.values, lookupPt_dedup, Log.get_eq_lastPt]
  · simp only [hk, if_false]
    symm
    apply Log.get_none_of_no_key
    intro e he hek
    exact hk (Log.mem_keys.mpr ⟨e, he, hek⟩)

theorem Log.canon_nil_iff (l : Log) : l.canon = [] ↔ l = [] := by
  constructor
  · intro h
    cases l with
    | nil => rfl
    | cons e l =>
      exfalso
      have hg : (Log.get (e :: l) e.key e.ts).isSome := by
        simp only [Log.get]
        cases Log.get l e.key e.ts <;> simp
      rw [← Log.get_canon, h] at hg
      simp [Log.get] at hg
  · intro h; subst h; rfl

end Influx.Model.Engine
