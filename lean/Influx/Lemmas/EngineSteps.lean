/-
  Lemmas.EngineSteps — lookups of the step-level engine model (C39): appends,
  the merged file of a compaction, tombstoning one file.
-/
import Influx.Model.EngineSteps

namespace Influx.Conc

theorem filesGet_append (fs gs : List CFile) (k : Key) (t : TS) :
    filesGet (fs ++ gs) k t = (filesGet gs k t).or (filesGet fs k t) := by
  induction fs with
  | nil => simp [filesGet]
  | cons f fs ih => simp [filesGet, ih, Option.or_assoc]

theorem Store.get_some_mem {s : Store} {k : Key} {t : TS} {v : Val} (h : s.get k t = some v) :
    (k, t, v) ∈ s := by
  unfold Store.get at h
  cases hf : s.find? (fun e => e.1 == k && e.2.1 == t) with
  | none => simp [hf] at h
  | some e =>
    simp [hf] at h
    have hm := List.mem_of_find?_eq_some hf
    have hp := List.find?_some hf
    obtain ⟨k', t', v'⟩ := e
    simp at hp h
    obtain ⟨rfl, rfl⟩ := hp
    subst h
    exact hm

/-- a store listing (k, t, f k t) for the points of `ps` reads as `f` on `ps` -/
theorem Store.get_graph (f : Key → TS → Option Val) (ps : List (Key × TS)) (k : Key) (t : TS) :
    Store.get (ps.filterMap (fun p => (f p.1 p.2).map (fun v => (p.1, p.2, v)))) k t =
      if (k, t) ∈ ps then f k t else none := by
  induction ps with
  | nil => simp [Store.get]
  | cons p ps ih =>
    obtain ⟨pk, pt⟩ := p
    rw [List.filterMap_cons]
    cases hfp : f pk pt with
    | none =>
      simp only [Option.map_none]
      rw [ih]
      by_cases hp : (k, t) = (pk, pt)
      · cases hp; simp [hfp]
      · have : ¬ (k = pk ∧ t = pt) := fun h => hp (by rw [h.1, h.2])
        simp [this]
    | some v =>
      simp only [Option.map_some]
      by_cases hp : (k, t) = (pk, pt)
      · cases hp; simp [Store.get, hfp]
      · have hne : ¬ (k = pk ∧ t = pt) := fun h => hp (by rw [h.1, h.2])
        have hb : ((pk == k) && (pt == t)) = false := by
          cases h1 : pk == k <;> cases h2 : pt == t <;> simp_all
        have : Store.get ((pk, pt, v) :: List.filterMap (fun p => Option.map (fun v => (p.1, p.2, v)) (f p.1 p.2)) ps) k t =
            Store.get (List.filterMap (fun p => Option.map (fun v => (p.1, p.2, v)) (f p.1 p.2)) ps) k t := by
          simp [Store.get, List.find?_cons, hb]
        rw [this, ih]
        simp [hne]

theorem CFile.get_some_mem {f : CFile} {k : Key} {t : TS} {v : Val} (h : f.get k t = some v) :
    (k, t, v) ∈ f.pts := by
  unfold CFile.get at h
  split at h
  · simp at h
  · exact Store.get_some_mem h

theorem filesGet_some_point {fs : List CFile} {k : Key} {t : TS} {v : Val} (h : filesGet fs k t = some v) :
    (k, t) ∈ filesPoints fs := by
  induction fs generalizing v with
  | nil => simp [filesGet] at h
  | cons f fs ih =>
    simp only [filesGet] at h
    unfold filesPoints
    rw [List.flatMap_cons, List.mem_append]
    cases hr : filesGet fs k t with
    | some w => right; exact ih hr
    | none =>
      rw [hr] at h; simp at h
      left
      have := CFile.get_some_mem h
      exact List.mem_map.mpr ⟨(k, t, v), this, rfl⟩

/-- **the merged file reads exactly as the group it replaces** -/
theorem mergeFiles_get (fs : List CFile) (k : Key) (t : TS) :
    (mergeFiles fs).get k t = filesGet fs k t := by
  unfold mergeFiles CFile.get
  simp only [List.any_nil, Bool.false_eq_true, if_false]
  rw [Store.get_graph (filesGet fs) (filesPoints fs) k t]
  split
  · rfl
  · next hn =>
    cases h : filesGet fs k t with
    | none => rfl
    | some v => exact absurd (filesGet_some_point h) hn

theorem mergeFiles_empty_get (fs : List CFile) (h : (mergeFiles fs).pts = []) (k : Key) (t : TS) :
    filesGet fs k t = none := by
  rw [← mergeFiles_get]
  unfold CFile.get
  rw [h]
  split <;> simp [Store.get]

/-- committing a compaction of the n oldest files does not change what the files read -/
theorem filesGet_compact (fs : List CFile) (n : Nat) (k : Key) (t : TS) :
    filesGet ((if (mergeFiles (fs.take n)).pts.isEmpty then [] else [mergeFiles (fs.take n)]) ++ fs.drop n) k t =
      filesGet fs k t := by
  conv => rhs; rw [← List.take_append_drop n fs]
  rw [filesGet_append, filesGet_append]
  congr 1
  split
  · next h =>
    simp only [List.isEmpty_iff] at h
    simp [filesGet, mergeFiles_empty_get _ h]
  · simp [filesGet, mergeFiles_get]

/-- tombstoning file i for a range that does not cover (k,t) leaves (k,t) alone -/
theorem filesGet_addTomb_other (tb : Tomb) (i : Nat) (fs : List CFile) (k : Key) (t : TS)
    (h : tb.covers k t = false) : filesGet (addTomb tb i fs) k t = filesGet fs k t := by
  induction fs generalizing i with
  | nil => simp [addTomb]
  | cons f fs ih =>
    cases i with
    | zero => simp [addTomb, filesGet, CFile.get, h]
    | succ i => simp [addTomb, filesGet, ih]

theorem Store.get_cons (e : Key × TS × Val) (s : Store) (k : Key) (t : TS) :
    Store.get (e :: s) k t = if (e.1 == k && e.2.1 == t) = true then some e.2.2 else Store.get s k t := by
  unfold Store.get
  rw [List.find?_cons]
  cases (e.1 == k && e.2.1 == t) <;> simp

theorem Store.get_filter_other (s : Store) (k k' : Key) (lo hi t : TS)
    (h : (k' == k && decide (lo ≤ t) && decide (t ≤ hi)) = false) :
    Store.get (s.filter (fun e => !inRange k' lo hi e)) k t = Store.get s k t := by
  induction s with
  | nil => rfl
  | cons e s ih =>
    obtain ⟨ek, et, ev⟩ := e
    by_cases hr : inRange k' lo hi (ek, et, ev) = true
    · -- the entry is removed; it cannot be the one (k,t) looks for
      have hne : ((ek == k) && (et == t)) = false := by
        unfold inRange at hr
        simp only [Bool.and_eq_true, beq_iff_eq, decide_eq_true_eq] at hr
        obtain ⟨⟨rfl, h1⟩, h2⟩ := hr
        cases hk : ek == k
        · simp
        · cases ht : et == t
          · simp
          · exfalso
            simp only [beq_iff_eq] at hk ht
            subst hk ht
            simp [h1, h2] at h
      rw [List.filter_cons]
      simp only [hr, Bool.not_true, Bool.false_eq_true, if_false]
      rw [ih, Store.get_cons]
      simp [hne]
    · have hr' : inRange k' lo hi (ek, et, ev) = false := by simpa using hr
      rw [List.filter_cons]
      simp only [hr', Bool.not_false, if_true]
      rw [Store.get_cons, Store.get_cons, ih]

end Influx.Conc
