/-
  Lemmas.C13Sim2 — every supported op of the series-file model against the statement.
-/
import Influx.Lemmas.C13Sim1

namespace Influx.C13
open Influx.SF Influx.Spec.C13

variable {pf : Bytes → Nat} {ess : Nat → List Entry} {ps : List Part} {sp : SpecState}

/-! ### create -/

theorem createKeys_sim : ∀ (keys : List (Bytes × Nat)) (ps : List Part) (ess : Nat → List Entry) (sp : SpecState),
    PartsInv ess ps → Rel0 pf ess sp → (∀ k ∈ keys, KeyOK pf k) →
    (∀ id ∈ (SFile.createKeys ps keys).2, id < 2 ^ 63) →
    ∃ ess' sp', PartsInv ess' (SFile.createKeys ps keys).1 ∧
      observeAll sp true ((keys.map (·.1)).zip (SFile.createKeys ps keys).2) = (sp', none) ∧
      Rel0 pf ess' sp' ∧ (SFile.createKeys ps keys).2.length = keys.length
  | [], ps, ess, sp, h, hr, _, _ => ⟨ess, sp, h, rfl, hr, rfl⟩
  | k :: ks, ps, ess, sp, h, hr, hk, hsmall => by
    have hkk := hk k (by simp)
    obtain ⟨p, hp, _, _, _⟩ := h.get hkk.lt
    have hck : SFile.createKeys ps (k :: ks) =
        ((SFile.createKeys (ps.set k.2 (p.createOne k.1).1) ks).1,
          (p.createOne k.1).2 :: (SFile.createKeys (ps.set k.2 (p.createOne k.1).1) ks).2) := by
      simp [SFile.createKeys, hp]
    rw [hck] at hsmall ⊢
    obtain ⟨ess1, sp1, h1, ho1, hr1, _⟩ := createOne_sim h hr hkk hp (hsmall _ (by simp))
    obtain ⟨ess2, sp2, h2, ho2, hr2, hl2⟩ := createKeys_sim ks _ ess1 sp1 h1 hr1
      (fun k' hk' => hk k' (by simp [hk'])) (fun id hid => hsmall id (by simp [hid]))
    refine ⟨ess2, sp2, h2, ?_, hr2, by simp [hl2]⟩
    simp only [List.map_cons, List.zip_cons_cons, observeAll, ho1]
    exact ho2

theorem _root_.Influx.SF.PInv2.with_threshold {p : Part} {es : List Entry} (h : PInv2 p es) (n : Nat) :
    PInv2 { p with threshold := n } es := by
  have hb : ({ p with threshold := n } : Part).bound = p.bound := rfl
  have hbase := replay_congr (es.filter (fun e => e.off > p.bound))
    ({ p with threshold := n } : Part).base p.base rfl rfl rfl rfl
  exact ⟨⟨h.file, h.chain, h.idPos, h.idInc, h.seqMod, h.keys, h.tombAfter,
    by rw [hb, hbase.1]; exact h.memKeyID, by rw [hb, hbase.2.1]; exact h.memIDOff,
    by rw [hb, hbase.2.2.1]; exact h.tomb, by rw [hb, hbase.2.2.2]; exact h.maxOffset, h.disk⟩,
    h.seqEq, h.boundLt⟩

theorem afterCreate_inv {old new : Part} {es : List Entry} (h : PInv2 new es) :
    PInv2 (Part.afterCreate old new) es ∧ (Part.afterCreate old new).seq = new.seq ∧
      (Part.afterCreate old new).pid = new.pid := by
  unfold Part.afterCreate
  split
  · obtain ⟨h1, h2, h3, _⟩ := compact_inv h
    exact ⟨h1, h2, h3⟩
  · exact ⟨h, rfl, rfl⟩

theorem partsInv_zipWith {old new : List Part} (hold : old.length = partN) (h : PartsInv ess new) :
    PartsInv ess (List.zipWith Part.afterCreate old new) := by
  refine ⟨by simp [hold, h.len], ?_, h.out⟩
  intro i p hp
  rw [List.getElem?_zipWith] at hp
  cases ho : old[i]? with
  | none => simp [ho] at hp
  | some o =>
    cases hn : new[i]? with
    | none => simp [ho, hn] at hp
    | some q =>
      simp only [ho, hn, Option.some.injEq] at hp
      subst hp
      obtain ⟨hpid, hinv, hseq⟩ := h.inv i q hn
      obtain ⟨h1, h2, h3⟩ := afterCreate_inv (old := o) hinv
      exact ⟨by rw [h3, hpid], h1, by rw [h2]; exact hseq⟩

/-! ### delete -/

/-- `DeleteSeriesID`: the series with that id (if live) stops being live; nothing else changes -/
theorem delete_parts (h : PartsInv ess ps) (id : Nat) :
    ∃ ess', PartsInv ess' (match ps[SFile.idPart id]? with
        | some p => ps.set (SFile.idPart id) (p.delete id) | none => ps) ∧
      (∀ k' id', GLive pf ess' k' id' ↔ GLive pf ess k' id' ∧ id' ≠ id) ∧
      (∀ x, GIssued ess x → GIssued ess' x) := by
  have hj : SFile.idPart id < partN := by
    unfold SFile.idPart; simp only [partN]; split <;> omega
  obtain ⟨p, hp, hpid, hinv, hseq⟩ := h.get hj
  simp only [hp]
  by_cases hd : p.isDeleted id = true
  · rw [delete_noop hd]
    refine ⟨ess, h.set_same hj hpid hinv hseq, ?_, fun _ hx => hx⟩
    intro k' id'
    constructor
    · intro hg
      refine ⟨hg, fun hid => ?_⟩
      subst hid
      have hpart := (glive_idPart h hg).1
      obtain ⟨e, hl, _, hide⟩ := hg
      rw [← hpart] at hl
      have := live_not_deleted hinv.toPInv hl
      rw [hide, hd] at this; cases this
    · exact fun hg => hg.1
  · have hd' : p.isDeleted id = false := by simpa using hd
    obtain ⟨hinv', hseq', hpid', _⟩ := delete_live hinv id hd' hseq
    have hft : (tombEntry p id).flag ≠ insertFlag := by simp [tombEntry, tombstoneFlag, insertFlag]
    refine ⟨upd ess (SFile.idPart id) (ess (SFile.idPart id) ++ [tombEntry p id]),
      h.set hj (by rw [hpid', hpid]) hinv' (by rw [hseq']; exact hseq), ?_, ?_⟩
    · intro k' id'
      unfold GLive
      by_cases hpk : pf k' = SFile.idPart id
      · rw [hpk, upd_same]
        constructor
        · rintro ⟨e, hl, hke, hide⟩
          obtain ⟨hl', hne⟩ := (live_snoc_tomb hft e).mp hl
          exact ⟨⟨e, hl', hke, hide⟩, by rw [← hide]; exact hne⟩
        · rintro ⟨⟨e, hl, hke, hide⟩, hne⟩
          exact ⟨e, (live_snoc_tomb hft e).mpr ⟨hl, by rw [hide]; exact hne⟩, hke, hide⟩
      · rw [upd_other _ _ _ _ hpk]
        constructor
        · intro hg
          refine ⟨hg, fun hid => ?_⟩
          subst hid
          exact hpk (glive_idPart h hg).1.symm
        · exact fun hg => hg.1
    · rintro x ⟨i, hi, e, he, hf, hid⟩
      refine ⟨i, hi, e, ?_, hf, hid⟩
      by_cases hik : i = SFile.idPart id
      · subst hik; rw [upd_same]; simp [he]
      · rw [upd_other _ _ _ _ hik]; exact he

theorem delete_eq_parts (s : SFile) (id : Nat) :
    (s.delete id).parts = (match s.parts[SFile.idPart id]? with
        | some p => s.parts.set (SFile.idPart id) (p.delete id) | none => s.parts) := by
  unfold SFile.delete SFile.modPart
  cases s.parts[SFile.idPart id]? <;> rfl

/-! ### reopen, compaction, threshold -/

theorem reopen_parts (h : PartsInv ess ps) (thr : Nat) : PartsInv ess (ps.map (·.load thr)) := by
  refine ⟨by simp [h.len], ?_, h.out⟩
  intro i p hp
  rw [List.getElem?_map] at hp
  cases hq : ps[i]? with
  | none => simp [hq] at hp
  | some q =>
    simp only [hq, Option.map_some, Option.some.injEq] at hp
    subst hp
    obtain ⟨hpid, hinv, hseq⟩ := h.inv i q hq
    obtain ⟨h1, h2, h3, _⟩ := load_inv hinv thr
    exact ⟨by rw [h3, hpid], h1, by rw [h2]; exact hseq⟩

theorem threshold_parts (h : PartsInv ess ps) (n : Nat) :
    PartsInv ess (ps.map fun p => { p with threshold := n }) := by
  refine ⟨by simp [h.len], ?_, h.out⟩
  intro i p hp
  rw [List.getElem?_map] at hp
  cases hq : ps[i]? with
  | none => simp [hq] at hp
  | some q =>
    simp only [hq, Option.map_some, Option.some.injEq] at hp
    subst hp
    obtain ⟨hpid, hinv, hseq⟩ := h.inv i q hq
    exact ⟨hpid, hinv.with_threshold n, hseq⟩

theorem compact_parts (h : PartsInv ess ps) (i : Nat) :
    PartsInv ess (match ps[i]? with | some p => ps.set i p.compact | none => ps) := by
  cases hp : ps[i]? with
  | none => exact h
  | some p =>
    have hi : i < partN := by
      have := (List.getElem?_eq_some_iff.mp hp).1; rw [h.len] at this; exact this
    obtain ⟨hpid, hinv, hseq⟩ := h.inv i p hp
    obtain ⟨h1, h2, h3, _⟩ := compact_inv hinv
    exact h.set_same hi (by rw [h3, hpid]) h1 (by rw [h2]; exact hseq)

/-! ### observations of all keys / all ids -/

theorem observeAll_lookups (s : SFile) (h : PartsInv ess s.parts) (hr : Rel0 pf ess sp) :
    ∀ (ks : List (Bytes × Nat)), (∀ k ∈ ks, KeyOK pf k) →
      observeAll sp false (ks.map fun k => (k.1, s.findID k)) = (sp, none)
  | [], _ => rfl
  | k :: ks, hk => by
    have hkk := hk k (by simp)
    obtain ⟨p, hp, _, _, _⟩ := h.get hkk.lt
    have hfind : s.findID k = p.findID k.1 := by simp [SFile.findID, hp]
    simp only [List.map_cons, observeAll, hfind, observe_lookup h hr hkk hp]
    exact observeAll_lookups s h hr ks (fun k' hk' => hk k' (by simp [hk']))

theorem observeKey_ok (h : PartsInv ess ps) (hr : Rel0 pf ess sp) (id : Nat) :
    observeKey sp id (if id = 0 then none else
      match ps[SFile.idPart id]? with | some p => p.seriesKey id | none => none) = none := by
  unfold observeKey
  cases hk : sp.keyOf id with
  | none => rfl
  | some k0 =>
    have hg := (keyOf_iff h hr id k0).mp hk
    obtain ⟨hpart, hpos⟩ := glive_idPart h hg
    have hlt := glive_lt h hg
    obtain ⟨e, hl, hke, hide⟩ := hg
    obtain ⟨p, hp, _, hinv, _⟩ := h.get hlt
    have := seriesKey_live hinv.toPInv hl
    rw [hide, hke] at this
    simp only [show ¬ id = 0 by omega, if_false, hpart, hp, this]
    simp

end Influx.C13
