/-
  Lemmas.FieldC40 — the model's write, seen through the statement checker of C40.
-/
import Influx.Lemmas.FieldStore
import Influx.Lemmas.FieldValidate
import Influx.Spec.C40

namespace Influx.Fields
open Influx.Spec.C40

/-- data of the accepted points of a verdict list, in order -/
def accE (V : List (Point × VRes)) : Store :=
  (V.filter (fun pv => pv.2.accepted)).flatMap (fun pv => pointEntries pv.1)
/-- data of all points of a verdict list -/
def allE (V : List (Point × VRes)) : Store := V.flatMap (fun pv => pointEntries pv.1)

theorem accE_cons_acc (p : Point) (v : VRes) (V) (h : v.accepted = true) :
    accE ((p, v) :: V) = pointEntries p ++ accE V := by
  simp [accE, List.filter_cons, h]

theorem accE_cons_rej (p : Point) (v : VRes) (V) (h : v.accepted = false) :
    accE ((p, v) :: V) = accE V := by
  simp [accE, List.filter_cons, h]

theorem allE_cons (p : Point) (v : VRes) (V) : allE ((p, v) :: V) = pointEntries p ++ allE V := by
  simp [allE]

theorem accE_sublist (V : List (Point × VRes)) : (accE V).Sublist (allE V) := by
  induction V with
  | nil => exact List.Sublist.refl _
  | cons a V ih =>
    obtain ⟨p, v⟩ := a
    rw [allE_cons]
    by_cases h : v.accepted = true
    · rw [accE_cons_acc _ _ _ h]; exact List.Sublist.append (List.Sublist.refl _) ih
    · have h' : v.accepted = false := by simpa using h
      rw [accE_cons_rej _ _ _ h']
      exact List.Sublist.trans ih (List.sublist_append_right _ _)

theorem accE_keys_sub (V : List (Point × VRes)) (k : EKey) (h : k ∈ (accE V).map (·.1)) :
    k ∈ (allE V).map (·.1) :=
  (List.Sublist.map _ (accE_sublist V)).subset h

theorem accepted_mem (V : List (Point × VRes)) (p : Point) (v : VRes) (hm : (p, v) ∈ V)
    (ha : v.accepted = true) (e : EKey × Val) (he : e ∈ pointEntries p) : e ∈ accE V := by
  unfold accE
  exact List.mem_flatMap.2 ⟨(p, v), List.mem_filter.2 ⟨hm, ha⟩, he⟩

/-- the data of a refused point shares no key with the data of the accepted
    points, when all keys of the batch are different -/
theorem rejected_disjoint (V : List (Point × VRes)) (hn : ((allE V).map (·.1)).Nodup)
    (p : Point) (v : VRes) (hm : (p, v) ∈ V) (hr : v.accepted = false)
    (e : EKey × Val) (he : e ∈ pointEntries p) : e.1 ∉ (accE V).map (·.1) := by
  induction V with
  | nil => cases hm
  | cons a V ih =>
    obtain ⟨q, w⟩ := a
    rw [allE_cons, List.map_append, List.nodup_append] at hn
    obtain ⟨hn1, hn2, hd⟩ := hn
    rcases List.mem_cons.1 hm with heq | hm'
    · cases heq
      rw [accE_cons_rej _ _ _ hr]
      intro hk
      exact hd e.1 (List.mem_map_of_mem (f := (·.1)) he) e.1 (accE_keys_sub V _ hk) rfl
    · by_cases hw : w.accepted = true
      · rw [accE_cons_acc _ _ _ hw, List.map_append, List.mem_append]
        rintro (hk | hk)
        · have hmem : e ∈ allE V := List.mem_flatMap.2 ⟨(p, v), hm', he⟩
          have : e.1 ∈ (allE V).map (·.1) := List.mem_map_of_mem (f := fun (x : EKey × Val) => x.1) hmem
          exact hd e.1 hk e.1 this rfl
        · exact ih hn2 hm' hk
      · have hw' : w.accepted = false := by simpa using hw
        rw [accE_cons_rej _ _ _ hw']
        exact ih hn2 hm'

/-- an accepted point carries data -/
theorem accepted_nonempty (s : Schema) (pts : List Point) (p : Point) (v : VRes)
    (hm : (p, v) ∈ (verdicts s pts).2.2) (ha : v.accepted = true) : pointEntries p ≠ [] := by
  induction pts generalizing s with
  | nil => simp [verdicts] at hm
  | cons q ps ih =>
    unfold verdicts at hm
    split at hm
    · rcases List.mem_cons.1 hm with heq | hm'
      · cases heq; simp at ha
      · exact ih _ hm'
    · split at hm
      · rcases List.mem_cons.1 hm with heq | hm'
        · cases heq; simp at ha
        · exact ih _ hm'
      · next h1 h2 =>
        rcases List.mem_cons.1 hm with heq | hm'
        · cases heq
          have h2' : onlyTimeFields p = false := by simpa using h2
          unfold onlyTimeFields at h2'
          intro hnil
          unfold pointEntries at hnil
          simp only [List.map_eq_nil_iff, List.filter_eq_nil_iff] at hnil
          have : p.fields.all (fun f => f.name == timeName) = true := by
            rw [List.all_eq_true]; intro f hf
            have := hnil f hf
            simpa using this
          rw [this] at h2'; cases h2'
        · exact ih _ hm'

theorem batchKeys_eq (V : List (Point × VRes)) : batchKeys (V.map (·.1)) = (allE V).map (·.1) := by
  simp [batchKeys, allE, List.flatMap_map]

theorem kept_entries (V : List (Point × VRes)) :
    ((V.filter (fun pv => pv.2.accepted)).map (·.1)).flatMap pointEntries = accE V := by
  simp [accE, List.flatMap_map]

/-- the data and schema after the model's write, in terms of the verdict list -/
theorem writePoints_state (st : State) (batch : List Point) :
    (writePoints st batch).1.data = (accE (verdicts st.sch batch).2.2).foldl upsert st.data ∧
    (writePoints st batch).1.sch = (verdicts st.sch batch).1 := by
  obtain ⟨h1, _, h3, _, _⟩ := validate_eq st.sch batch
  unfold writePoints
  simp only [engineWrite, h1, h3, kept_entries, and_self]

/-- the model's write result: `ok` exactly when nothing was dropped, otherwise a
    partial write reporting the number of refused points; never another error -/
theorem writePoints_res (st : State) (batch : List Point) :
    ((writePoints st batch).2 = .ok ∧ countDropped (verdicts st.sch batch).2.2 = 0) ∨
    (∃ r, (writePoints st batch).2 = .partialWrite (countDropped (verdicts st.sch batch).2.2) r) := by
  obtain ⟨_, _, _, h4, _⟩ := validate_eq st.sch batch
  have hr := validate_reason st.sch batch
  unfold writePoints
  simp only
  by_cases hd : (validateTwoPhase st.sch batch).dropped > 0
  · simp only [hd, if_true]
    have := hr hd
    cases hreason : (validateTwoPhase st.sch batch).reason with
    | none => rw [hreason] at this; cases this
    | some r => right; exact ⟨r, by rw [h4]⟩
  · simp only [hd, if_false]
    have h0 : (validateTwoPhase st.sch batch).dropped = 0 := by omega
    by_cases hs : (validateTwoPhase st.sch batch).stripped = true
    · right; refine ⟨.stripped, ?_⟩; simp [hs, ← h4, h0]
    · left; simp [hs, ← h4, h0]

section classify
variable (V : List (Point × VRes)) (B : Store)
  (hB : (B.map (·.1)).Nodup) (hK : ((allE V).map (·.1)).Nodup)
include hB hK

theorem accE_nodup : ((accE V).map (·.1)).Nodup :=
  List.Nodup.sublist (List.Sublist.map _ (accE_sublist V)) hK

theorem lookup_after_acc (p : Point) (v : VRes) (hm : (p, v) ∈ V) (ha : v.accepted = true)
    (e : EKey × Val) (he : e ∈ pointEntries p) :
    ((accE V).foldl upsert B).lookup e.1 = some e.2 := by
  rw [lookup_foldl_upsert _ _ _ (accE_nodup V B hB hK)]
  rw [mem_lookup_of_nodup _ (accE_nodup V B hB hK) e (accepted_mem V p v hm ha e he)]
  rfl

theorem lookup_after_rej (p : Point) (v : VRes) (hm : (p, v) ∈ V) (hr : v.accepted = false)
    (e : EKey × Val) (he : e ∈ pointEntries p) :
    ((accE V).foldl upsert B).lookup e.1 = B.lookup e.1 := by
  rw [lookup_foldl_upsert _ _ _ (accE_nodup V B hB hK)]
  rw [lookup_none_of_not_mem _ _ (rejected_disjoint V hK p v hm hr e he)]
  rfl

theorem lookup_after_other (k : EKey) (hk : k ∉ (allE V).map (·.1)) :
    ((accE V).foldl upsert B).lookup k = B.lookup k := by
  rw [lookup_foldl_upsert _ _ _ (accE_nodup V B hB hK)]
  rw [lookup_none_of_not_mem _ _ (fun h => hk (accE_keys_sub V k h))]
  rfl

theorem classify_acc (p : Point) (v : VRes) (hm : (p, v) ∈ V) (ha : v.accepted = true)
    (hne : pointEntries p ≠ []) :
    classify B ((accE V).foldl upsert B) p = .acc ∨ classify B ((accE V).foldl upsert B) p = .amb := by
  unfold classify
  have h1 : (pointEntries p).isEmpty = false := by
    cases h : pointEntries p with
    | nil => exact absurd h hne
    | cons _ _ => rfl
  have h2 : (pointEntries p).all (fun e => ((accE V).foldl upsert B).lookup e.1 == some e.2) = true := by
    rw [List.all_eq_true]; intro e he
    rw [lookup_after_acc V B hB hK p v hm ha e he]; simp
  simp only [h1, h2, Bool.false_eq_true, if_false]
  cases (pointEntries p).all (fun e => ((accE V).foldl upsert B).lookup e.1 == B.lookup e.1) <;> simp

theorem classify_rej (p : Point) (v : VRes) (hm : (p, v) ∈ V) (hr : v.accepted = false) :
    classify B ((accE V).foldl upsert B) p = .rej ∨ classify B ((accE V).foldl upsert B) p = .amb := by
  unfold classify
  by_cases h1 : (pointEntries p).isEmpty = true
  · simp [h1]
  · have h2 : (pointEntries p).all (fun e => ((accE V).foldl upsert B).lookup e.1 == B.lookup e.1) = true := by
      rw [List.all_eq_true]; intro e he
      rw [lookup_after_rej V B hB hK p v hm hr e he]; simp
    simp only [h1, h2, if_false]
    cases (pointEntries p).all (fun e => ((accE V).foldl upsert B).lookup e.1 == some e.2) <;> simp

end classify

end Influx.Fields
