/-
  Lemmas.BackupExport — what an Export archive contains, block list by block
  list, and what reading the imported copy returns.
-/
import Influx.Lemmas.BackupInv

namespace Influx.Backup

/-- reading a stack of block lists (oldest first, newest wins), no tombstones -/
def bsLookup : List (List Block) → Key → TS → Option Val
  | [], _, _ => none
  | bs :: rest, k, t => (bsLookup rest k t).or (blocksLookup bs k t)

theorem filesLookupRaw_eq_bsLookup (fs : List TFile) (k : Key) (t : TS) :
    filesLookupRaw fs k t = bsLookup (fs.map (·.blocks)) k t := by
  induction fs with
  | nil => rfl
  | cons f fs ih => simp [filesLookupRaw, bsLookup, ih, TFile.lookupRaw]

theorem bsLookup_append (xs ys : List (List Block)) (k : Key) (t : TS) :
    bsLookup (xs ++ ys) k t = (bsLookup ys k t).or (bsLookup xs k t) := by
  induction xs with
  | nil => simp [bsLookup]
  | cons x xs ih => simp [bsLookup, ih, Option.or_assoc]

/-- the block lists one source file contributes to an export of [a,e] -/
def exportBlocks (a e : TS) (f : TFile) : List (List Block) :=
  (if f.needsFilter a e then [f.blocks.filter (fun b => b.overlaps a e)] else []) ++
  (if f.inside a e then [f.blocks] else [])

theorem exportEntries_ok {a e : TS} {fs : List TFile} {ar : Archive}
    (h : exportEntries a e fs = .ok ar) :
    archiveBlocks ar = fs.flatMap (exportBlocks a e) ∧ (∀ f ∈ fs, f.tombM = none) ∧
    (∀ f ∈ fs, f.needsFilter a e = true → (f.blocks.filter (fun b => b.overlaps a e)) ≠ []) := by
  induction fs generalizing ar with
  | nil => simp [exportEntries] at h; subst h; simp [archiveBlocks]
  | cons f fs ih =>
    simp only [exportEntries] at h
    split at h
    · simp at h
    · next htm =>
      split at h
      · simp at h
      · next hgap =>
        cases hrest : exportEntries a e fs with
        | error x => simp [hrest] at h
        | ok more =>
          simp [hrest] at h
          obtain ⟨ihb, iht, ihg⟩ := ih hrest
          subst h
          refine ⟨?_, ?_, ?_⟩
          · rw [List.flatMap_cons, ← ihb]
            unfold exportBlocks
            by_cases h1 : f.needsFilter a e = true <;> by_cases h2 : f.inside a e = true <;>
              simp [h1, h2, archiveBlocks]
          · intro g hg
            rcases List.mem_cons.mp hg with rfl | hg
            · simpa using htm
            · exact iht g hg
          · intro g hg hnf
            rcases List.mem_cons.mp hg with rfl | hg
            · intro hc
              apply hgap
              simp [hnf, hc]
            · exact ihg g hg hnf

/-! ### bounds -/

theorem listMin_le {l : List TS} {x : TS} (h : x ∈ l) : listMin l ≤ x := by
  induction l with
  | nil => simp at h
  | cons a l ih =>
    cases l with
    | nil => simp at h; subst h; simp [listMin]
    | cons b l =>
      simp only [listMin]
      rcases List.mem_cons.mp h with rfl | h
      · exact Int.min_le_left _ _
      · exact Int.le_trans (Int.min_le_right _ _) (ih h)

theorem le_listMax {l : List TS} {x : TS} (h : x ∈ l) : x ≤ listMax l := by
  induction l with
  | nil => simp at h
  | cons a l ih =>
    cases l with
    | nil => simp at h; subst h; simp [listMax]
    | cons b l =>
      simp only [listMax]
      rcases List.mem_cons.mp h with rfl | h
      · exact Int.le_max_left _ _
      · exact Int.le_trans (ih h) (Int.le_max_right _ _)

theorem minTime_le_lo {f : TFile} {b : Block} (h : b ∈ f.blocks) : f.minTime ≤ b.lo :=
  listMin_le (List.mem_map.mpr ⟨b, h, rfl⟩)

theorem hi_le_maxTime {f : TFile} {b : Block} (h : b ∈ f.blocks) : b.hi ≤ f.maxTime :=
  le_listMax (List.mem_map.mpr ⟨b, h, rfl⟩)

/-- a successful lookup comes from one block of the key that contains the time -/
theorem blocksLookup_some {bs : List Block} {k : Key} {t : TS} {v : Val}
    (h : blocksLookup bs k t = some v) : ∃ b ∈ bs, b.lookup k t = some v := by
  unfold blocksLookup at h
  obtain ⟨b, hb, hv⟩ := List.exists_of_findSome?_eq_some h
  exact ⟨b, hb, hv⟩

theorem Block.lookup_some_bounds {b : Block} (hw : b.WF) {k : Key} {t : TS} {v : Val}
    (h : b.lookup k t = some v) : b.key = k ∧ b.lo ≤ t ∧ t ≤ b.hi := by
  unfold Block.lookup at h
  split at h
  · next hk =>
    refine ⟨hk, ?_⟩
    have hm : (t, v) ∈ b.pts := by
      have := List.lookup_eq_some_iff.mp h
      obtain ⟨l1, l2, heq, _⟩ := this
      rw [heq]; simp
    exact hw (t, v) hm
  · simp at h

/-- filtering away blocks that cannot contain `t` does not change the lookup -/
theorem blocksLookup_filter (bs : List Block) (P : Block → Bool) (k : Key) (t : TS)
    (h : ∀ b ∈ bs, P b = false → b.lookup k t = none) :
    blocksLookup (bs.filter P) k t = blocksLookup bs k t := by
  induction bs with
  | nil => rfl
  | cons b bs ih =>
    have ih' := ih (fun c hc => h c (by simp [hc]))
    unfold blocksLookup at *
    by_cases hp : P b = true
    · simp only [List.filter_cons, hp, if_true, List.findSome?_cons]
      cases b.lookup k t <;> simp [ih']
    · have hp' : P b = false := by simpa using hp
      simp only [List.filter_cons, hp', List.findSome?_cons]
      rw [h b (by simp) hp']
      simpa using ih'

theorem Block.overlaps_of_contains {b : Block} {a e t : TS} (h1 : b.lo ≤ t) (h2 : t ≤ b.hi)
    (ha : a ≤ t) (he : t ≤ e) : b.overlaps a e = true := by
  unfold Block.overlaps
  simp only [Bool.or_eq_true, Bool.and_eq_true, decide_eq_true_eq]
  unfold TS at *
  omega

theorem Block.true_overlap_of_overlaps {b : Block} {a e : TS} (hlh : b.lo ≤ b.hi) (hae : a ≤ e)
    (h : b.overlaps a e = true) : b.lo ≤ e ∧ b.hi ≥ a := by
  unfold Block.overlaps at h
  simp only [Bool.or_eq_true, Bool.and_eq_true, decide_eq_true_eq] at h
  unfold TS at *
  omega

/-- **one file**: inside [a,e] the exported block lists read exactly as the file's blocks -/
theorem bsLookup_exportBlocks (f : TFile) (hw : ∀ b ∈ f.blocks, b.WF) (a e : TS) (k : Key) (t : TS)
    (ha : a ≤ t) (he : t ≤ e) :
    bsLookup (exportBlocks a e f) k t = blocksLookup f.blocks k t := by
  have hfilt : blocksLookup (f.blocks.filter (fun b => b.overlaps a e)) k t = blocksLookup f.blocks k t := by
    apply blocksLookup_filter
    intro b hb hno
    cases hl : b.lookup k t with
    | none => rfl
    | some v =>
      obtain ⟨_, h1, h2⟩ := Block.lookup_some_bounds (hw b hb) hl
      rw [Block.overlaps_of_contains h1 h2 ha he] at hno
      simp at hno
  unfold exportBlocks
  by_cases h1 : f.needsFilter a e = true <;> by_cases h2 : f.inside a e = true
  · simp [h1, h2, bsLookup, hfilt]
  · simp [h1, h2, bsLookup, hfilt]
  · simp [h1, h2, bsLookup]
  · simp only [h1, h2, if_false, List.append_nil, bsLookup, Bool.false_eq_true]
    cases hl : blocksLookup f.blocks k t with
    | none => rfl
    | some v =>
      exfalso
      obtain ⟨b, hb, hbl⟩ := blocksLookup_some hl
      obtain ⟨_, hlo, hhi⟩ := Block.lookup_some_bounds (hw b hb) hbl
      have hmin := minTime_le_lo hb
      have hmax := hi_le_maxTime hb
      unfold TFile.needsFilter at h1
      unfold TFile.inside at h2
      simp only [Bool.or_eq_true, Bool.and_eq_true, decide_eq_true_eq, not_or, not_and] at h1 h2
      unfold TS at *
      omega

/-- **all files**: inside [a,e] the export reads exactly as the source files (no tombstones) -/
theorem bsLookup_export (fs : List TFile) (hw : ∀ f ∈ fs, ∀ b ∈ f.blocks, b.WF) (a e : TS) (k : Key) (t : TS)
    (ha : a ≤ t) (he : t ≤ e) :
    bsLookup (fs.flatMap (exportBlocks a e)) k t = bsLookup (fs.map (·.blocks)) k t := by
  induction fs with
  | nil => rfl
  | cons f fs ih =>
    rw [List.flatMap_cons, bsLookup_append, ih (fun g hg => hw g (by simp [hg])),
      bsLookup_exportBlocks f (hw f (by simp)) a e k t ha he]
    simp [bsLookup]

theorem bsLookup_some {xs : List (List Block)} {k : Key} {t : TS} {v : Val}
    (h : bsLookup xs k t = some v) : ∃ bs ∈ xs, ∃ b ∈ bs, b.lookup k t = some v := by
  induction xs with
  | nil => simp [bsLookup] at h
  | cons x xs ih =>
    simp only [bsLookup] at h
    cases hr : bsLookup xs k t with
    | some w =>
      rw [hr] at h; simp at h; subst h
      obtain ⟨bs, hbs, b, hb, hl⟩ := ih hr
      exact ⟨bs, by simp [hbs], b, hb, hl⟩
    | none =>
      rw [hr] at h; simp at h
      obtain ⟨b, hb, hl⟩ := blocksLookup_some h
      exact ⟨x, by simp, b, hb, hl⟩

/-- **upper bound**: every point an export reads belongs to a source block (of that
    key) that truly overlaps [a,e] -/
theorem bsLookup_export_some (fs : List TFile) (hw : ∀ f ∈ fs, ∀ b ∈ f.blocks, b.WF) (a e : TS) (hae : a ≤ e)
    (k : Key) (t : TS) (v : Val) (h : bsLookup (fs.flatMap (exportBlocks a e)) k t = some v) :
    ∃ f ∈ fs, ∃ b ∈ f.blocks, b.lookup k t = some v ∧ b.key = k ∧ b.lo ≤ t ∧ t ≤ b.hi ∧ b.lo ≤ e ∧ b.hi ≥ a := by
  obtain ⟨bs, hbs, b, hb, hl⟩ := bsLookup_some h
  obtain ⟨f, hf, hbsf⟩ := List.mem_flatMap.mp hbs
  unfold exportBlocks at hbsf
  rcases List.mem_append.mp hbsf with h1 | h1
  · split at h1
    · simp at h1; subst h1
      have hb' := List.mem_filter.mp hb
      obtain ⟨hk, hlo, hhi⟩ := Block.lookup_some_bounds (hw f hf b hb'.1) hl
      have := Block.true_overlap_of_overlaps (Int.le_trans hlo hhi) hae hb'.2
      exact ⟨f, hf, b, hb'.1, hl, hk, hlo, hhi, this.1, this.2⟩
    · simp at h1
  · split at h1
    · next hin =>
      simp at h1; subst h1
      obtain ⟨hk, hlo, hhi⟩ := Block.lookup_some_bounds (hw f hf b hb) hl
      have hmin := minTime_le_lo hb
      have hmax := hi_le_maxTime hb
      unfold TFile.inside at hin
      simp only [Bool.and_eq_true, decide_eq_true_eq] at hin
      exact ⟨f, hf, b, hb, hl, hk, hlo, hhi, by unfold TS at *; omega, by unfold TS at *; omega⟩
    · simp at h1

end Influx.Backup
