/-
  Lemmas.Coord — list lemmas behind Props.C25: the scheduler's upsert/erase on an
  id-ascending list against `expected` (filter active, map entryOf) of an
  id-ascending store.
-/
import Influx.Model.Coord
import Influx.Spec.C25
set_option linter.unusedSimpArgs false

namespace Influx.Lemmas.Coord
open Influx.Model.Coord Influx.Spec.C25

/-! ### upsert -/

theorem upsert_append_gt (e : Entry) (l : List Entry) (h : ∀ x ∈ l, x.id < e.id) :
    upsert e l = l ++ [e] := by
  induction l with
  | nil => rfl
  | cons x xs ih =>
    have hx : x.id < e.id := h x (by simp)
    have : ¬ e.id < x.id := by omega
    have : ¬ e.id = x.id := by omega
    simp [upsert, *]
    exact ih (fun y hy => h y (by simp [hy]))

theorem upsert_append_same (e e' : Entry) (l : List Entry) (h : ∀ x ∈ l, x.id < e.id)
    (hid : e'.id = e.id) : upsert e (l ++ [e']) = l ++ [e] := by
  induction l with
  | nil => simp [upsert, hid]
  | cons x xs ih =>
    have hx : x.id < e.id := h x (by simp)
    have : ¬ e.id < x.id := by omega
    have : ¬ e.id = x.id := by omega
    simp [upsert, *]
    exact ih (fun y hy => h y (by simp [hy]))

theorem upsert_lt_all (e : Entry) (l : List Entry) (h : ∀ x ∈ l, e.id < x.id) :
    upsert e l = e :: l := by
  cases l with
  | nil => rfl
  | cons x xs => simp [upsert, h x (by simp)]

/-! ### expected -/

theorem expected_nil : expected [] = [] := rfl

theorem expected_cons (t : Task) (ts : List Task) :
    expected (t :: ts) = if isActive t then entryOf t :: expected ts else expected ts := by
  unfold expected
  by_cases h : isActive t <;> simp [List.filter_cons, h]

theorem expected_append (ts : List Task) (t : Task) :
    expected (ts ++ [t]) = expected ts ++ (if isActive t then [entryOf t] else []) := by
  unfold expected
  by_cases h : isActive t <;> simp [List.filter_append, List.filter_cons, h]

theorem mem_expected {e : Entry} {ts : List Task} (h : e ∈ expected ts) :
    ∃ t ∈ ts, isActive t = true ∧ e = entryOf t := by
  unfold expected at h
  simp only [List.mem_map, List.mem_filter] at h
  obtain ⟨t, ⟨ht, ha⟩, rfl⟩ := h
  exact ⟨t, ht, ha, rfl⟩

theorem mem_expected_of {t : Task} {ts : List Task} (h : t ∈ ts) (ha : isActive t = true) :
    entryOf t ∈ expected ts := by
  unfold expected
  simp only [List.mem_map, List.mem_filter]
  exact ⟨t, ⟨h, ha⟩, rfl⟩

theorem entryOf_id (t : Task) : (entryOf t).id = t.id := rfl

/-! ### replaceTask / removeTask / insertTask on an id-ascending store -/

def Sorted (ts : List Task) : Prop := ts.Pairwise (fun a b => a.id < b.id)

theorem replace_noop (t : Task) (ts : List Task) (h : ∀ y ∈ ts, y.id ≠ t.id) :
    replaceTask t ts = ts := by
  unfold replaceTask
  induction ts with
  | nil => rfl
  | cons x xs ih =>
    have hx : x.id ≠ t.id := h x (by simp)
    simp only [List.map_cons, hx, if_false]
    rw [ih (fun y hy => h y (by simp [hy]))]

theorem replace_ids (t : Task) (ts : List Task) :
    (replaceTask t ts).map (·.id) = ts.map (·.id) := by
  unfold replaceTask
  induction ts with
  | nil => rfl
  | cons x xs ih =>
    by_cases hx : x.id = t.id <;> simp_all

theorem mem_replace {t y : Task} {ts : List Task} (h : y ∈ replaceTask t ts) : y = t ∨ y ∈ ts := by
  unfold replaceTask at h
  simp only [List.mem_map] at h
  obtain ⟨x, hx, rfl⟩ := h
  by_cases hxt : x.id = t.id <;> simp [hxt, hx]

theorem sorted_of_ids {ts ts' : List Task} (h : ts'.map (·.id) = ts.map (·.id)) (hs : Sorted ts) :
    Sorted ts' := by
  unfold Sorted at *
  have h1 : (ts.map (·.id)).Pairwise (· < ·) := by
    rw [List.pairwise_map]; exact hs
  rw [← h, List.pairwise_map] at h1
  exact h1

theorem sorted_replace {t : Task} {ts : List Task} (hs : Sorted ts) : Sorted (replaceTask t ts) :=
  sorted_of_ids (replace_ids t ts) hs

theorem sorted_remove {id : Nat} {ts : List Task} (hs : Sorted ts) : Sorted (removeTask id ts) := by
  unfold Sorted removeTask at *
  exact hs.sublist (List.filter_sublist)

theorem sorted_append {t : Task} {ts : List Task} (hs : Sorted ts) (h : ∀ x ∈ ts, x.id < t.id) :
    Sorted (ts ++ [t]) := by
  unfold Sorted at *
  rw [List.pairwise_append]
  refine ⟨hs, by simp, ?_⟩
  intro a ha b hb
  simp at hb
  subst hb
  exact h a ha

theorem insertTask_append (t : Task) (ts : List Task) (h : ∀ x ∈ ts, x.id < t.id) :
    insertTask t ts = ts ++ [t] := by
  induction ts with
  | nil => rfl
  | cons x xs ih =>
    have hx : x.id < t.id := h x (by simp)
    have : ¬ t.id < x.id := by omega
    have : ¬ t.id = x.id := by omega
    simp [insertTask, *]
    exact ih (fun y hy => h y (by simp [hy]))

theorem insertTask_eq_replace (t : Task) (ts : List Task) (hs : Sorted ts)
    (hm : ∃ x ∈ ts, x.id = t.id) : insertTask t ts = replaceTask t ts := by
  induction ts with
  | nil => simp at hm
  | cons x xs ih =>
    unfold Sorted at hs
    rw [List.pairwise_cons] at hs
    obtain ⟨hlt, hs'⟩ := hs
    by_cases hx : x.id = t.id
    · have hno : ∀ y ∈ xs, y.id ≠ t.id := fun y hy => by have := hlt y hy; omega
      have h1 : ¬ t.id < x.id := by omega
      have := replace_noop t xs hno
      unfold replaceTask at this ⊢
      simp [insertTask, h1, hx, this]
    · obtain ⟨y, hy, hyt⟩ := hm
      have hyxs : y ∈ xs := by
        rcases List.mem_cons.mp hy with rfl | h
        · exact absurd hyt hx
        · exact h
      have hlt' : x.id < t.id := by have := hlt y hyxs; omega
      have h1 : ¬ t.id < x.id := by omega
      have h2 : ¬ t.id = x.id := by omega
      have ih' := ih hs' ⟨y, hyxs, hyt⟩
      unfold replaceTask at ih' ⊢
      simp [insertTask, h1, h2, hx, ih']

/-! ### expected against replace / remove -/

theorem expected_remove (id : Nat) (ts : List Task) :
    erase id (expected ts) = expected (removeTask id ts) := by
  unfold erase removeTask
  induction ts with
  | nil => rfl
  | cons x xs ih =>
    by_cases ha : isActive x <;> by_cases hx : x.id = id <;>
      simp_all [expected_cons, List.filter_cons, entryOf]

theorem expected_replace_inactive (t : Task) (ts : List Task) (hi : isActive t = false) :
    erase t.id (expected ts) = expected (replaceTask t ts) := by
  unfold erase replaceTask
  induction ts with
  | nil => rfl
  | cons x xs ih =>
    by_cases ha : isActive x <;> by_cases hx : x.id = t.id <;>
      simp_all [expected_cons, List.filter_cons, entryOf]

theorem expected_replace_active (t : Task) (ts : List Task) (hs : Sorted ts)
    (ha : isActive t = true) (hm : ∃ x ∈ ts, x.id = t.id) :
    upsert (entryOf t) (expected ts) = expected (replaceTask t ts) := by
  induction ts with
  | nil => simp at hm
  | cons x xs ih =>
    unfold Sorted at hs
    rw [List.pairwise_cons] at hs
    obtain ⟨hlt, hs'⟩ := hs
    by_cases hx : x.id = t.id
    · have hno : ∀ y ∈ xs, y.id ≠ t.id := fun y hy => by have := hlt y hy; omega
      have hrep : replaceTask t (x :: xs) = t :: xs := by
        have := replace_noop t xs hno
        unfold replaceTask at this ⊢
        simp [hx, this]
      rw [hrep, expected_cons t xs, ha]
      have hgt : ∀ e ∈ expected xs, (entryOf t).id < e.id := by
        intro e he
        obtain ⟨y, hy, _, rfl⟩ := mem_expected he
        have := hlt y hy
        simp [entryOf_id]; omega
      rw [expected_cons x xs]
      by_cases hax : isActive x
      · simp [hax, upsert, entryOf_id, hx]
      · simp [hax]
        exact upsert_lt_all _ _ hgt
    · obtain ⟨y, hy, hyt⟩ := hm
      have hyxs : y ∈ xs := by
        rcases List.mem_cons.mp hy with rfl | h
        · exact absurd hyt hx
        · exact h
      have hlt' : x.id < t.id := by have := hlt y hyxs; omega
      have hrep : replaceTask t (x :: xs) = x :: replaceTask t xs := by
        unfold replaceTask; simp [hx]
      rw [hrep, expected_cons x xs, expected_cons x (replaceTask t xs)]
      have ih' := ih hs' ⟨y, hyxs, hyt⟩
      by_cases hax : isActive x
      · have h1 : ¬ (entryOf t).id < (entryOf x).id := by simp [entryOf_id]; omega
        have h2 : ¬ (entryOf t).id = (entryOf x).id := by simp [entryOf_id]; omega
        simp [hax, upsert, h1, h2, ih']
      · simp [hax, ih']

/-- replacing an inactive task by an inactive one changes nothing the scheduler should hold -/
theorem expected_replace_both_inactive (t frm : Task) (ts : List Task) (hs : Sorted ts)
    (hf : findTask t.id ts = some frm) (hfi : isActive frm = false) (hi : isActive t = false) :
    expected (replaceTask t ts) = expected ts := by
  induction ts with
  | nil => simp [findTask] at hf
  | cons x xs ih =>
    unfold Sorted at hs
    rw [List.pairwise_cons] at hs
    obtain ⟨hlt, hs'⟩ := hs
    by_cases hx : x.id = t.id
    · have hno : ∀ y ∈ xs, y.id ≠ t.id := fun y hy => by have := hlt y hy; omega
      have hrep : replaceTask t (x :: xs) = t :: xs := by
        have := replace_noop t xs hno
        unfold replaceTask at this ⊢
        simp [hx, this]
      have : frm = x := by
        simp [findTask, List.find?_cons, hx] at hf
        exact hf.symm
      subst this
      rw [hrep, expected_cons, expected_cons, hi, hfi]
      simp
    · have hrep : replaceTask t (x :: xs) = x :: replaceTask t xs := by
        unfold replaceTask; simp [hx]
      have hf' : findTask t.id xs = some frm := by
        simp [findTask, List.find?_cons, hx] at hf
        simpa [findTask] using hf
      rw [hrep, expected_cons, expected_cons, ih hs' hf']

theorem findTask_some {id : Nat} {ts : List Task} {t : Task} (h : findTask id ts = some t) :
    t ∈ ts ∧ t.id = id := by
  unfold findTask at h
  have h1 := List.mem_of_find?_eq_some h
  have h2 := List.find?_some h
  simp at h2
  exact ⟨h1, h2⟩

theorem findTask_none {id : Nat} {ts : List Task} (h : findTask id ts = none) :
    ∀ t ∈ ts, t.id ≠ id := by
  unfold findTask at h
  rw [List.find?_eq_none] at h
  intro t ht
  have := h t ht
  simpa using this

theorem remove_noop (id : Nat) (ts : List Task) (h : ∀ y ∈ ts, y.id ≠ id) : removeTask id ts = ts := by
  unfold removeTask
  rw [List.filter_eq_self]
  intro a ha
  simp [h a ha]

theorem sorted_id_inj {ts : List Task} (hs : Sorted ts) {a b : Task} (ha : a ∈ ts) (hb : b ∈ ts)
    (hid : a.id = b.id) : a = b := by
  induction ts with
  | nil => simp at ha
  | cons x xs ih =>
    unfold Sorted at hs
    rw [List.pairwise_cons] at hs
    obtain ⟨hlt, hs'⟩ := hs
    rcases List.mem_cons.mp ha with rfl | ha' <;> rcases List.mem_cons.mp hb with rfl | hb'
    · rfl
    · have := hlt b hb'; omega
    · have := hlt a ha'; omega
    · exact ih hs' ha' hb'

end Influx.Lemmas.Coord
