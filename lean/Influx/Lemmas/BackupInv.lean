/-
  Lemmas.BackupInv — invariants of the source shard of Model.Backup, preserved
  by every operation: files sorted by name with generations below the counter,
  a file without a tombstone file has no tombstone records, every point of a
  block lies within the block's index entry.
-/
import Influx.Lemmas.BackupRestore

namespace Influx.Backup

/-- every point of a block lies within [lo, hi] of its index entry -/
def Block.WF (b : Block) : Prop := ∀ p ∈ b.pts, b.lo ≤ p.1 ∧ p.1 ≤ b.hi

def TFile.WF (f : TFile) : Prop :=
  (∀ b ∈ f.blocks, b.WF) ∧ (f.tombM = none → f.tombs = []) ∧ f.blocks ≠ []

structure Shard.Inv (s : Shard) : Prop where
  sorted : SortedFiles s.files
  gens : ∀ f ∈ s.files, f.gen < s.nextGen
  wf : ∀ f ∈ s.files, f.WF

theorem Shard.Inv_empty : Shard.empty.Inv :=
  ⟨List.Pairwise.nil, by simp [Shard.empty], by simp [Shard.empty]⟩

/-! ### block bounds -/

theorem minT_le {l : List (TS × Val)} {p : TS × Val} (h : p ∈ l) : minT l ≤ p.1 := by
  induction l with
  | nil => simp at h
  | cons a l ih =>
    cases l with
    | nil => simp at h; subst h; simp [minT]
    | cons b l =>
      simp only [minT]
      rcases List.mem_cons.mp h with rfl | h
      · exact Int.min_le_left _ _
      · exact Int.le_trans (Int.min_le_right _ _) (ih h)

theorem le_maxT {l : List (TS × Val)} {p : TS × Val} (h : p ∈ l) : p.1 ≤ maxT l := by
  induction l with
  | nil => simp at h
  | cons a l ih =>
    cases l with
    | nil => simp at h; subst h; simp [maxT]
    | cons b l =>
      simp only [maxT]
      rcases List.mem_cons.mp h with rfl | h
      · exact Int.le_max_left _ _
      · exact Int.le_trans (ih h) (Int.le_max_right _ _)

theorem mkBlock_WF (k : Key) (pts : List (TS × Val)) : (mkBlock k pts).WF := by
  intro p hp
  exact ⟨minT_le hp, le_maxT hp⟩

theorem mkBlocks_WF (k : Key) (pts : List (TS × Val)) : ∀ b ∈ mkBlocks k pts, b.WF := by
  intro b hb
  unfold mkBlocks at hb
  obtain ⟨c, _, rfl⟩ := List.mem_map.mp hb
  exact mkBlock_WF k c

theorem flushBlocks_WF (c : Cache) : ∀ b ∈ flushBlocks c, b.WF := by
  intro b hb
  unfold flushBlocks at hb
  obtain ⟨k, _, hk⟩ := List.mem_flatMap.mp hb
  exact mkBlocks_WF _ _ b hk

theorem compactBlocks_WF (fs : List TFile) : ∀ b ∈ compactBlocks fs, b.WF := by
  intro b hb
  unfold compactBlocks at hb
  obtain ⟨k, _, hk⟩ := List.mem_flatMap.mp hb
  exact mkBlocks_WF _ _ b hk

/-! ### sortedness under name-preserving maps -/

theorem SortedFiles_map (g : TFile → TFile) (hg : ∀ f, (g f).gen = f.gen ∧ (g f).seq = f.seq)
    (fs : List TFile) (h : SortedFiles fs) : SortedFiles (fs.map g) := by
  unfold SortedFiles at *
  rw [List.pairwise_map]
  exact h.imp (fun {a b} hab => by unfold nameLt at *; rw [(hg a).1, (hg a).2, (hg b).1, (hg b).2]; exact hab)

theorem deleteRange_names (f : TFile) (ks : List Key) (lo hi : TS) :
    (f.deleteRange ks lo hi).gen = f.gen ∧ (f.deleteRange ks lo hi).seq = f.seq := by
  unfold TFile.deleteRange
  split
  · exact ⟨rfl, rfl⟩
  · dsimp only
    split <;> exact ⟨rfl, rfl⟩

theorem deleteRange_blocks (f : TFile) (ks : List Key) (lo hi : TS) :
    (f.deleteRange ks lo hi).blocks = f.blocks := by
  unfold TFile.deleteRange
  split
  · rfl
  · dsimp only
    split <;> rfl

theorem deleteRange_WF (f : TFile) (ks : List Key) (lo hi : TS) (h : f.WF) :
    (f.deleteRange ks lo hi).WF := by
  refine ⟨by rw [deleteRange_blocks]; exact h.1, ?_, by rw [deleteRange_blocks]; exact h.2.2⟩
  unfold TFile.deleteRange
  split
  · exact h.2.1
  · dsimp only
    split
    · exact h.2.1
    · intro hc; simp at hc

/-! ### preservation -/

theorem Shard.Inv_write (s : Shard) (h : s.Inv) (k : Key) (t0 step : Int) (n : Nat) (v0 : Int) :
    (s.write k t0 step n v0).Inv := ⟨h.sorted, h.gens, h.wf⟩

theorem Shard.Inv_noteRead (s : Shard) (h : s.Inv) : s.noteRead.Inv := by
  unfold Shard.noteRead
  split
  · exact ⟨h.sorted, h.gens, h.wf⟩
  · exact h

theorem Shard.Inv_flush (s : Shard) (h : s.Inv) : s.flush.Inv := by
  unfold Shard.flush
  split
  · split
    · exact ⟨h.sorted, fun f hf => Nat.lt_succ_of_lt (h.gens f hf), h.wf⟩
    · exact h
  · split
    · -- no block: no file (never the case for a non-empty cache)
      exact ⟨by simpa using h.sorted, fun f hf => Nat.lt_succ_of_lt (h.gens f (by simpa using hf)),
        fun f hf => h.wf f (by simpa using hf)⟩
    · next hne =>
      refine ⟨?_, ?_, ?_⟩
      · show SortedFiles (s.files ++ [_])
        unfold SortedFiles
        rw [List.pairwise_append]
        refine ⟨h.sorted, List.pairwise_singleton _ _, ?_⟩
        intro a ha b hb
        simp at hb; subst hb
        exact Or.inl (h.gens a ha)
      · intro f hf
        simp only [List.mem_append, List.mem_singleton] at hf
        rcases hf with hf | rfl
        · exact Nat.lt_succ_of_lt (h.gens f hf)
        · exact Nat.lt_succ_self _
      · intro f hf
        simp only [List.mem_append, List.mem_singleton] at hf
        rcases hf with hf | rfl
        · exact h.wf f hf
        · exact ⟨flushBlocks_WF _, fun _ => rfl, by simpa using hne⟩

theorem Shard.Inv_delete (s : Shard) (h : s.Inv) (ks : List Key) (lo hi : TS) :
    (s.delete ks lo hi).Inv := by
  unfold Shard.delete
  split
  · exact h
  · refine ⟨?_, ?_, ?_⟩
    · exact SortedFiles_map _ (fun f => deleteRange_names f ks lo hi) _ h.sorted
    · intro f hf
      obtain ⟨g, hg, rfl⟩ := List.mem_map.mp hf
      rw [(deleteRange_names g ks lo hi).1]; exact h.gens g hg
    · intro f hf
      obtain ⟨g, hg, rfl⟩ := List.mem_map.mp hf
      exact deleteRange_WF g ks lo hi (h.wf g hg)

theorem Shard.Inv_age (s : Shard) (h : s.Inv) (sec : Int) : (s.age sec).Inv := by
  unfold Shard.age
  refine ⟨?_, ?_, ?_⟩
  · exact SortedFiles_map (fun f => { f with mtime := f.mtime.age sec, tombM := f.tombM.map (MTime.age sec) })
      (fun f => ⟨rfl, rfl⟩) _ h.sorted
  · intro f hf
    obtain ⟨g, hg, rfl⟩ := List.mem_map.mp hf
    exact h.gens g hg
  · intro f hf
    obtain ⟨g, hg, rfl⟩ := List.mem_map.mp hf
    refine ⟨(h.wf g hg).1, ?_, (h.wf g hg).2.2⟩
    intro hn
    simp only [Option.map_eq_none_iff] at hn
    exact (h.wf g hg).2.1 hn

theorem maxGenSeq_gen_mem (fs : List TFile) (hne : fs ≠ []) :
    ∃ f ∈ fs, f.gen = (maxGenSeq fs).1 := by
  induction fs with
  | nil => exact absurd rfl hne
  | cons f fs ih =>
    by_cases hfs : fs = []
    · subst hfs
      refine ⟨f, by simp, ?_⟩
      by_cases h0 : f.gen > 0
      · simp [maxGenSeq, h0]
      · have : f.gen = 0 := by omega
        simp only [maxGenSeq, this]
        split
        · omega
        · split <;> rfl
    · obtain ⟨g, hg, hgg⟩ := ih hfs
      simp only [maxGenSeq]
      split
      · exact ⟨f, by simp, rfl⟩
      · split
        · next h2 => exact ⟨g, by simp [hg], by simpa using hgg⟩
        · exact ⟨g, by simp [hg], by simpa using hgg⟩

theorem Shard.Inv_compact (s : Shard) (h : s.Inv) : s.compact.Inv := by
  unfold Shard.compact
  split
  · exact h
  · next hne =>
    have hne' : s.files ≠ [] := by intro hc; simp [hc] at hne
    obtain ⟨g, hg, hgg⟩ := maxGenSeq_gen_mem s.files hne'
    simp only []
    split
    · exact ⟨List.Pairwise.nil, by simp, by simp⟩
    · next hbs =>
      refine ⟨List.pairwise_singleton _ _, ?_, ?_⟩
      · intro f hf
        simp at hf; subst hf
        show (maxGenSeq s.files).1 < s.nextGen
        rw [← hgg]; exact h.gens g hg
      · intro f hf
        simp at hf; subst hf
        exact ⟨compactBlocks_WF _, fun _ => rfl, by simpa using hbs⟩

theorem Shard.Inv_backup (s : Shard) (h : s.Inv) (since : Option Int) : (s.backup since).1.Inv :=
  Shard.Inv_flush s h

theorem Shard.Inv_export (s : Shard) (h : s.Inv) (a e : TS) : (s.export a e).1.Inv :=
  Shard.Inv_flush s h

/-- every operation of the state machine keeps the source shard's invariants -/
theorem step_Inv (st : State) (op : Op) (h : st.src.Inv) : (step st op).1.src.Inv := by
  cases op with
  | write k t0 sp n v0 =>
    simp only [step]; split
    · exact h
    · exact Shard.Inv_write _ h _ _ _ _ _
  | delete ks lo hi =>
    simp only [step]; split
    · exact h
    · exact Shard.Inv_delete _ h _ _ _
  | snap => exact Shard.Inv_flush _ h
  | compact => exact Shard.Inv_compact _ h
  | age sec =>
    simp only [step]; split
    · exact h
    · exact Shard.Inv_age _ h _
  | backup id since => exact Shard.Inv_flush _ h
  | «export» id a e =>
    simp only [step]; split
    · exact h
    · simp only [Shard.export]
      split
      · next heq => simp at heq; rw [← heq.1]; exact Shard.Inv_flush _ h
      · next heq => simp at heq; simp only [State.put]; rw [← heq.1]; exact Shard.Inv_flush _ h
  | restore ids =>
    simp only [step]; split
    · exact h
    · split <;> exact h
  | importA ids =>
    simp only [step]; split <;> exact h
  | dump => exact Shard.Inv_noteRead _ h
  | bigcase n imp => simp only [step]; split <;> exact h

/-! ### the flushed shard -/

theorem flush_cache (s : Shard) : s.flush.cache = [] := by
  unfold Shard.flush
  split
  · next h => split <;> simpa using h
  · rfl

theorem flush_abs_files (s : Shard) (k : Key) (t : TS) :
    s.flush.abs k t = filesLookup s.flush.files k t := by
  simp [Shard.abs, flush_cache, cacheLookup]

theorem flush_no_tombs (s : Shard) (h : ∀ f ∈ s.files, f.tombs = []) : ∀ f ∈ s.flush.files, f.tombs = [] := by
  unfold Shard.flush
  split
  · split <;> exact h
  · intro f hf
    simp only [List.mem_append] at hf
    rcases hf with hf | hf
    · exact h f hf
    · split at hf
      · simp at hf
      · simp at hf; subst hf; rfl

end Influx.Backup
