/-
  Lemmas.C13Compact — `Open` (reload) and the index compaction keep the partition invariant.
-/
import Influx.Lemmas.C13Ops

namespace Influx.SF
open Part

variable {p : Part} {es : List Entry}

theorem base_idxFile (p : Part) : p.base.idxFile = p.idxFile := rfl

theorem bound_congr {a b : Part} (h : a.idxFile = b.idxFile) : a.bound = b.bound := by
  unfold Part.bound; rw [h]

theorem base_congr {a b : Part} (h : a.idxFile = b.idxFile) :
    a.base.memKeyID = b.base.memKeyID ∧ a.base.memIDOff = b.base.memIDOff ∧
    a.base.tomb = b.base.tomb ∧ a.base.maxOffset = b.base.maxOffset := by
  unfold Part.base; rw [h]; exact ⟨rfl, rfl, rfl, rfl⟩

/-- `Recover` establishes the in-memory part of the invariant from the durable part -/
theorem recover_inv (p1 : Part) (es : List Entry)
    (hfile : p1.file = fileOf es) (hchain : Chain hdrSize es)
    (hidPos : ∀ e ∈ es, e.flag = insertFlag → 0 < e.id ∧ e.id < p1.seq ∧ e.id % partN = (p1.pid + 1) % partN)
    (hidInc : es.Pairwise (fun a b => a.flag = insertFlag → b.flag = insertFlag → a.id < b.id))
    (hseqMod : p1.seq % partN = (p1.pid + 1) % partN)
    (hkeys : es.Pairwise (fun a b => a.flag = insertFlag → b.flag = insertFlag → a.key = b.key →
      ∃ t ∈ es, t.flag ≠ insertFlag ∧ t.id = a.id ∧ t.off < b.off))
    (htomb : ∀ t ∈ es, t.flag ≠ insertFlag → ∃ e ∈ es, e.flag = insertFlag ∧ e.id = t.id ∧ e.off < t.off)
    (hdisk : ∀ d, p1.idxFile = some d → DiskOK d es) :
    PInv p1.recover es := by
  have hent : entries p1.file = es := by rw [hfile]; exact entries_fileOf es hchain
  rw [recover_eq, hent]
  have hidx : (replay p1.base (es.filter (fun e => e.off > p1.bound))).idxFile = p1.idxFile := by
    rw [replay_idxFile, base_idxFile]
  have hb : (replay p1.base (es.filter (fun e => e.off > p1.bound))).bound = p1.bound := bound_congr hidx
  have hbc := base_congr hidx
  have hbase := replay_congr (es.filter (fun e => e.off > p1.bound))
    (replay p1.base (es.filter (fun e => e.off > p1.bound))).base p1.base
    hbc.1 hbc.2.1 hbc.2.2.1 hbc.2.2.2
  refine ⟨?_, hchain, ?_, hidInc, ?_, hkeys, htomb, ?_, ?_, ?_, ?_, ?_⟩
  · rw [replay_file]; exact hfile
  · intro e he hf; rw [replay_seq, replay_pid]; exact hidPos e he hf
  · rw [replay_seq, replay_pid]; exact hseqMod
  · rw [hb, hbase.1]
  · rw [hb, hbase.2.1]
  · rw [hb, hbase.2.2.1]
  · rw [hb, hbase.2.2.2]
  · intro d hd; rw [hidx] at hd; exact hdisk d hd

theorem Chain.last_end : ∀ (pos : Nat) (es : List Entry), Chain pos es → ∀ e, es.getLast? = some e →
    e.off + e.size = pos + (ser es).length
  | _, [], _, e, h => by simp at h
  | pos, [x], hc, e, h => by
    have : x = e := by simpa using h
    subst this
    simp [ser, Entry.bytes_length hc.2.1, hc.1]
  | pos, x :: y :: ys, hc, e, h => by
    have hl : (y :: ys).getLast? = some e := by simpa [List.getLast?_cons_cons] using h
    have := Chain.last_end (pos + x.size) (y :: ys) hc.2.2 e hl
    rw [this]
    simp [ser, Entry.bytes_length hc.2.1]
    omega

theorem resize_self (f : Bytes) : resize f f.length = f := by
  apply List.ext_getElem
  · simp [resize]
  · intro i h1 h2
    simp [resize, byteAt, List.getElem?_eq_getElem h2]

theorem dataSize_fileOf (es : List Entry) (h : Chain hdrSize es) : dataSize (fileOf es) = (fileOf es).length := by
  unfold dataSize
  rw [entries_fileOf es h, fileOf_length]
  cases hl : es.getLast? with
  | none =>
    have : es = [] := List.getLast?_eq_none_iff.mp hl
    subst this; simp [ser]
  | some e => exact Chain.last_end hdrSize es h e hl

/-- **reopen**: nothing changes — same entries, same `seq`, same lookups -/
theorem load_inv (h : PInv2 p es) (thr : Nat) :
    PInv2 (p.load thr) es ∧ (p.load thr).seq = p.seq ∧ (p.load thr).pid = p.pid ∧
      (p.load thr).threshold = thr := by
  have hent := h.toPInv.entries_eq
  have hfile : resize p.file (dataSize p.file) = p.file := by
    rw [h.file, dataSize_fileOf es h.chain, resize_self]
  have hseq : (if SF.maxSeriesID (entries p.file) ≥ p.pid + 1 then SF.maxSeriesID (entries p.file) + partN
      else p.pid + 1) = p.seq := by
    rw [hent, h.seqEq]; rfl
  unfold Part.load
  simp only [hfile, hseq]
  have hrec := recover_inv { p with file := p.file, seq := p.seq, threshold := thr } es
    h.file h.chain h.idPos h.idInc h.seqMod h.keys h.tombAfter h.disk
  rw [recover_eq] at hrec ⊢
  refine ⟨⟨hrec, ?_, ?_⟩, by rw [replay_seq]; rfl, by rw [replay_pid]; rfl, by rw [replay_threshold]; rfl⟩
  · rw [replay_seq, replay_pid]; exact h.seqEq
  · rw [replay_file]
    have : (replay ({ p with file := p.file, seq := p.seq, threshold := thr } : Part).base
        ((entries p.file).filter fun e => e.off > ({ p with file := p.file, seq := p.seq, threshold := thr } : Part).bound)).bound = p.bound :=
      bound_congr (by rw [replay_idxFile]; rfl)
    rw [this]; exact h.boundLt

/-! ### index compaction -/

theorem takeWhile_sorted (l : List Entry) (M : Nat) (hs : l.Pairwise (fun a b => a.off < b.off)) :
    l.takeWhile (fun e => decide (e.off ≤ M)) = l.filter (fun e => decide (e.off ≤ M)) := by
  induction l with
  | nil => rfl
  | cons x xs ih =>
    have hx := List.pairwise_cons.mp hs
    by_cases hle : x.off ≤ M
    · simp [List.takeWhile_cons, List.filter_cons, hle, ih hx.2]
    · simp only [List.takeWhile_cons, List.filter_cons, hle, decide_false, Bool.false_eq_true, if_false]
      symm
      rw [List.filter_eq_nil_iff]
      intro e he
      have := hx.1 e he
      simp; omega

theorem getLast_max {l : List Entry} (hs : l.Pairwise (fun a b => a.off < b.off)) {e : Entry}
    (hl : l.getLast? = some e) : ∀ x ∈ l, x.off ≤ e.off := by
  induction l with
  | nil => simp at hl
  | cons y ys ih =>
    have hy := List.pairwise_cons.mp hs
    cases ys with
    | nil =>
      have : y = e := by simpa using hl
      subst this
      intro x hx
      have : x = y := by simpa using hx
      subst this; exact Nat.le_refl _
    | cons z zs =>
      have hl' : (z :: zs).getLast? = some e := by simpa [List.getLast?_cons_cons] using hl
      intro x hx
      rcases List.mem_cons.mp hx with rfl | hx
      · have hem : e ∈ z :: zs := List.mem_of_getLast? hl'
        have := hy.1 e hem
        omega
      · exact ih hy.2 hl' x hx

/-- **index compaction** keeps every entry and every lookup: the live insert entries move into
    the index file, the bound moves to the last insert entry, the rest is replayed -/
theorem compact_inv (h : PInv2 p es) :
    PInv2 p.compact es ∧ p.compact.seq = p.seq ∧ p.compact.pid = p.pid ∧
      p.compact.threshold = p.threshold := by
  have hent := h.toPInv.entries_eq
  have hoffinc := h.toPInv.offInc
  -- every insert entry lies at or before maxOffset
  have hmax : ∀ e ∈ es, e.flag = insertFlag → e.off ≤ p.maxOffset := by
    intro e he hf
    rw [h.maxOffset]
    by_cases hb : e.off > p.bound
    · exact maxOffset_replay_mem _ _ e (List.mem_filter.mpr ⟨he, by simpa using hb⟩) hf
    · have := maxOffset_replay_ge p.base (es.filter (fun e => e.off > p.bound))
      have hbb : p.base.maxOffset = p.bound := by
        unfold Part.base Part.bound; cases p.idxFile <;> rfl
      omega
  -- the insert entries the compactor sees are all insert entries
  have hins : ((entries p.file).takeWhile (fun e => decide (e.off ≤ p.maxOffset))).filter (fun e => decide (e.flag = insertFlag))
      = es.filter (fun e => decide (e.flag = insertFlag)) := by
    rw [hent, takeWhile_sorted es p.maxOffset hoffinc, List.filter_filter]
    apply List.filter_congr
    intro e he
    by_cases hf : e.flag = insertFlag
    · simp [hf, hmax e he hf]
    · simp [hf]
  unfold Part.compact
  simp only [hins]
  -- name the pieces
  generalize hI : es.filter (fun e => decide (e.flag = insertFlag)) = ins
  generalize hL : ins.filter (fun e => !p.isDeleted e.id) = live
  have hinsmem : ∀ e, e ∈ ins ↔ e ∈ es ∧ e.flag = insertFlag := by
    intro e; rw [← hI]; simp [List.mem_filter]
  have hlivemem : ∀ e, e ∈ live ↔ (e ∈ es ∧ e.flag = insertFlag) ∧ p.isDeleted e.id = false := by
    intro e; rw [← hL, List.mem_filter, hinsmem]; simp
  have hinssorted : ins.Pairwise (fun a b => a.off < b.off) := by rw [← hI]; exact hoffinc.filter _
  -- the new bound: the offset of the last insert entry
  have hBmax : ∀ e ∈ es, e.flag = insertFlag →
      e.off ≤ (match ins.getLast? with | some e => e.off | none => 0) := by
    intro e he hf
    cases hl : ins.getLast? with
    | none =>
      have : ins = [] := List.getLast?_eq_none_iff.mp hl
      have hm := (hinsmem e).mpr ⟨he, hf⟩
      rw [this] at hm; cases hm
    | some x => exact getLast_max hinssorted hl e ((hinsmem e).mpr ⟨he, hf⟩)
  have hdiskOK : DiskOK
      { maxSeriesID := match ins.getLast? with | some e => e.id | none => 0
        maxOffset := match ins.getLast? with | some e => e.off | none => 0
        count := live.length
        keyID := live.map fun e => (e.off, e.id)
        idOff := live.map fun e => (e.id, e.off) } es := by
    refine ⟨?_, ?_, ?_, ?_⟩
    · intro x hx
      obtain ⟨e, he, rfl⟩ := List.mem_map.mp hx
      obtain ⟨⟨hes, hf⟩, _⟩ := (hlivemem e).mp he
      exact ⟨e, hes, hf, rfl, rfl, hBmax e hes hf⟩
    · intro e he hf _
      by_cases hd : p.isDeleted e.id = true
      · rcases (isDeleted_iff h.toPInv e.id).mp hd with ht | hno
        · exact Or.inr ht
        · exact absurd rfl (hno e he hf)
      · left
        exact List.mem_map.mpr ⟨e, (hlivemem e).mpr ⟨⟨he, hf⟩, by simpa using hd⟩, rfl⟩
    · intro x hx t ht hft hid
      obtain ⟨e, he, rfl⟩ := List.mem_map.mp hx
      obtain ⟨_, hnd⟩ := (hlivemem e).mp he
      have := (isDeleted_false_iff h.toPInv e.id).mp hnd
      exact absurd ⟨t, ht, hft, hid⟩ this.1
    · simp [List.map_map, Function.comp_def]
  have hrec := recover_inv
    { p with
      idxFile := some
        { maxSeriesID := match ins.getLast? with | some e => e.id | none => 0
          maxOffset := match ins.getLast? with | some e => e.off | none => 0
          count := live.length
          keyID := live.map fun e => (e.off, e.id)
          idOff := live.map fun e => (e.id, e.off) }
      ambiguous := p.ambiguous || (hasDup (live.map (·.id)) || hasDup (live.map (·.key)) || live.any (·.id == 0)) }
    es h.file h.chain h.idPos h.idInc h.seqMod h.keys h.tombAfter
    (by intro d hd; simp only [Option.some.injEq] at hd; subst hd; exact hdiskOK)
  refine ⟨⟨hrec, ?_, ?_⟩, ?_, ?_, ?_⟩
  · rw [recover_eq, replay_seq, replay_pid]; exact h.seqEq
  · rw [recover_eq, replay_file]
    rw [bound_congr (replay_idxFile _ _)]
    show (match ins.getLast? with | some e => e.off | none => 0) < p.file.length
    cases hl : ins.getLast? with
    | none =>
      have := h.boundLt; simp only; omega
    | some x =>
      have hx := (hinsmem x).mp (List.mem_of_getLast? hl)
      have := off_lt_length h.toPInv x hx.1
      have := size_pos x
      simp only; omega
  · rw [recover_eq, replay_seq]; rfl
  · rw [recover_eq, replay_pid]; rfl
  · rw [recover_eq, replay_threshold]; rfl

end Influx.SF
