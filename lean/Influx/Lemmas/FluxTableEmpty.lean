/-
  Lemmas.FluxTableEmpty — *WindowTable with createEmpty: the values of the storage cursor are
  merged into the enumerated windows, each at its own window, null elsewhere.
-/
import Influx.Lemmas.FluxTableMerge

namespace Influx.FluxTable
open Influx.WindowAgg Influx.Spec.C41
open Influx.Window (Window Bounds)

/-- everything the table can still read -/
def WState.remaining (s : WState) : List (Pt Val) := s.cur ++ s.rest.flatten

/-- `nextAt` on the flat list of remaining points -/
def nextAtL (q : Req) (isAgg : Bool) : List (Pt Val) → Int → List (Pt Val) × Option Val
  | [], _ => ([], none)
  | p :: ps, stop => if isInWindow q isAgg stop p.1 then (ps, some p.2) else (p :: ps, none)

def mergeL (q : Req) (isAgg : Bool) : List (Pt Val) → List Int → List (Pt Val) × List (Option Val)
  | pts, [] => (pts, [])
  | pts, stop :: stops =>
    let r := nextAtL q isAgg pts stop
    let r2 := mergeL q isAgg r.1 stops
    (r2.1, r.2 :: r2.2)

def NoEmpty (l : List (List (Pt Val))) : Prop := ∀ a ∈ l, a ≠ []

theorem nextAt_abs (q : Req) (isAgg : Bool) (s : WState) (hne : NoEmpty s.rest) (stop : Int) :
    ((nextAt q isAgg s stop).1.remaining, (nextAt q isAgg s stop).2) = nextAtL q isAgg s.remaining stop ∧
    NoEmpty (nextAt q isAgg s stop).1.rest := by
  obtain ⟨whole, cur, rest, wb⟩ := s
  unfold nextAt nextBuffer WState.remaining
  cases cur with
  | cons p ps =>
    simp only [List.isEmpty_cons, Bool.not_false, ↓reduceIte, List.cons_append, nextAtL]
    split <;> exact ⟨rfl, hne⟩
  | nil =>
    cases rest with
    | nil => simp [nextAtL, NoEmpty]
    | cons a r =>
      have ha : a ≠ [] := hne a (by simp)
      have hr : NoEmpty r := fun x hx => hne x (by simp [hx])
      cases a with
      | nil => exact absurd rfl ha
      | cons p ps =>
        simp only [List.isEmpty_nil, Bool.not_true, Bool.false_eq_true, ↓reduceIte, List.isEmpty_cons,
          List.nil_append, List.flatten_cons, List.cons_append, nextAtL]
        split <;> exact ⟨rfl, hr⟩

theorem mergeValues_abs (q : Req) (isAgg : Bool) :
    ∀ (stops : List Int) (s : WState), NoEmpty s.rest →
    ((mergeValues q isAgg s stops).1.remaining, (mergeValues q isAgg s stops).2) = mergeL q isAgg s.remaining stops ∧
    NoEmpty (mergeValues q isAgg s stops).1.rest := by
  intro stops
  induction stops with
  | nil => intro s hne; exact ⟨rfl, hne⟩
  | cons stop stops ih =>
    intro s hne
    have h1 := nextAt_abs q isAgg s hne stop
    have h2 := ih (nextAt q isAgg s stop).1 h1.2
    simp only [mergeValues, mergeL]
    have e1 := congrArg Prod.fst h1.1
    have e2 := congrArg Prod.snd h1.1
    simp only at e1 e2
    rw [← e1, ← e2]
    have f1 := congrArg Prod.fst h2.1
    have f2 := congrArg Prod.snd h2.1
    simp only at f1 f2
    exact ⟨by rw [← f1, ← f2], h2.2⟩

/-- `isInWindow` rejects a point of a later window -/
theorem isInWindow_later (q : Req) (h : 0 < q.every) (isAgg : Bool) (t i : Int)
    (hw : WellPlaced q isAgg t) (hi : q.offset + i * q.every < q.bstop) (hlt : i < pointWin q isAgg t) :
    isInWindow q isAgg (clipped q i).2 t = false := by
  unfold isInWindow
  have hc2 : (clipped q i).2 = min (q.offset + i * q.every + q.every) q.bstop := rfl
  have hidx : widx q ((clipped q i).2 - 1) = i := by
    apply widx_unique q h
    · rw [hc2]; simp only [Int.min_def]; split <;> omega
    · rw [hc2]; simp only [Int.min_def]; split <;> omega
  rw [glb_eq_at q h, hidx]
  have hs := widx_spec q h t
  have hmul : ∀ a b : Int, a + 1 ≤ b → (a + 1) * q.every ≤ b * q.every :=
    fun a b hab => Int.mul_le_mul_of_nonneg_right hab (Int.le_of_lt h)
  cases isAgg with
  | true =>
    simp only [pointWin, ↓reduceIte] at hlt
    have := hmul i (widx q t - 1) (by omega)
    rw [Int.add_mul, Int.sub_mul] at this
    simp only [↓reduceIte, at_start, at_stop, Bool.and_eq_false_iff, decide_eq_false_iff_not]
    right; omega
  | false =>
    simp only [pointWin, Bool.false_eq_true, ↓reduceIte] at hlt
    have := hmul i (widx q t) (by omega)
    rw [Int.add_mul] at this
    simp only [Bool.false_eq_true, ↓reduceIte, at_start, at_stop, Bool.and_eq_false_iff, decide_eq_false_iff_not]
    right; omega

theorem mem_intRange : ∀ (n : Nat) (j k : Int), k ∈ intRange j n → j ≤ k ∧ k < j + n
  | 0, j, k, hk => by simp [intRange] at hk
  | m + 1, j, k, hk => by
    simp only [intRange, List.mem_cons] at hk
    rcases hk with rfl | hk
    · omega
    · have := mem_intRange m (j + 1) k hk; omega

/-- the value the cursor has for window `k` -/
def valueAt (q : Req) (isAgg : Bool) (pts : List (Pt Val)) (k : Int) : Option Val :=
  (pts.find? fun p => pointWin q isAgg p.1 == k).map (·.2)

/-- **alignment**: merging the cursor points (one per window, ascending) into the windows
    `i, i+1, …, i+n-1` puts every point at its own window and null elsewhere; what is left are
    the points of later windows. -/
theorem mergeL_align (q : Req) (h : 0 < q.every) (isAgg : Bool) :
    ∀ (n : Nat) (i : Int) (pts : List (Pt Val)),
    (∀ p ∈ pts, WellPlaced q isAgg p.1) →
    pts.Pairwise (fun a b => pointWin q isAgg a.1 < pointWin q isAgg b.1) →
    (∀ p ∈ pts, i ≤ pointWin q isAgg p.1) →
    (∀ k, i ≤ k → k < i + n → q.offset + k * q.every < q.bstop) →
    mergeL q isAgg pts ((intRange i n).map fun k => (clipped q k).2) =
      (pts.filter (fun p => decide (i + n ≤ pointWin q isAgg p.1)), (intRange i n).map (valueAt q isAgg pts)) := by
  intro n
  induction n with
  | zero =>
    intro i pts _ _ hlo _
    simp only [intRange, List.map_nil, mergeL, Prod.mk.injEq, and_true]
    symm
    rw [List.filter_eq_self]
    intro p hp
    have := hlo p hp
    simp; omega
  | succ n ih =>
    intro i pts hw hinc hlo hwin
    simp only [intRange, List.map_cons, mergeL]
    cases pts with
    | nil =>
      have := ih (i + 1) [] (by simp) List.Pairwise.nil (by simp) (fun k h1 h2 => hwin k (by omega) (by omega))
      simp only [nextAtL]
      rw [this]
      simp [valueAt]
    | cons p ps =>
      rw [List.pairwise_cons] at hinc
      have hpi := hlo p (by simp)
      have hwp := hw p (by simp)
      have hps_lo : ∀ x ∈ ps, pointWin q isAgg p.1 < pointWin q isAgg x.1 := hinc.1
      by_cases heq : pointWin q isAgg p.1 = i
      · -- p is the point of window i
        have hin : isInWindow q isAgg (clipped q i).2 p.1 = true := by
          rw [← heq]; exact isInWindow_own q h isAgg p.1 hwp
        simp only [nextAtL, hin, ↓reduceIte]
        have := ih (i + 1) ps (fun x hx => hw x (by simp [hx])) hinc.2
          (fun x hx => by have := hps_lo x hx; omega) (fun k h1 h2 => hwin k (by omega) (by omega))
        rw [this]
        have hv : valueAt q isAgg (p :: ps) i = some p.2 := by simp [valueAt, List.find?_cons, heq]
        have hvs : (intRange (i + 1) n).map (valueAt q isAgg (p :: ps)) = (intRange (i + 1) n).map (valueAt q isAgg ps) := by
          apply List.map_congr_left
          intro k hk
          have hk' : i + 1 ≤ k := (mem_intRange n (i + 1) k hk).1
          have hne : ¬ pointWin q isAgg p.1 = k := by omega
          simp [valueAt, List.find?_cons, hne]
        have hfil : (p :: ps).filter (fun x => decide (i + (n + 1 : Nat) ≤ pointWin q isAgg x.1))
            = ps.filter (fun x => decide (i + 1 + n ≤ pointWin q isAgg x.1)) := by
          have hp0 : ¬ (i + (n + 1 : Nat) ≤ pointWin q isAgg p.1) := by omega
          simp only [List.filter_cons, hp0, decide_false, Bool.false_eq_true, ↓reduceIte]
          apply List.filter_congr
          intro x _
          exact decide_eq_decide.mpr (by omega)
        simp only [hv, hvs, hfil]
      · -- p belongs to a later window: window i is empty
        have hlt : i < pointWin q isAgg p.1 := by omega
        have hout : isInWindow q isAgg (clipped q i).2 p.1 = false :=
          isInWindow_later q h isAgg p.1 i hwp (hwin i (by omega) (by omega)) hlt
        simp only [nextAtL, hout, Bool.false_eq_true, ↓reduceIte]
        have := ih (i + 1) (p :: ps) hw (List.pairwise_cons.mpr hinc)
          (fun x hx => by
            rcases List.mem_cons.mp hx with rfl | hx
            · omega
            · have := hps_lo x hx; omega)
          (fun k h1 h2 => hwin k (by omega) (by omega))
        rw [this]
        have hv : valueAt q isAgg (p :: ps) i = none := by
          simp only [valueAt, Option.map_eq_none_iff, List.find?_eq_none]
          intro x hx
          rcases List.mem_cons.mp hx with rfl | hx
          · simp; omega
          · have := hps_lo x hx; simp; omega
        have hfil : (p :: ps).filter (fun x => decide (i + (n + 1 : Nat) ≤ pointWin q isAgg x.1))
            = (p :: ps).filter (fun x => decide (i + 1 + n ≤ pointWin q isAgg x.1)) := by
          apply List.filter_congr
          intro x _
          exact decide_eq_decide.mpr (by omega)
        simp only [hv, hfil]

end Influx.FluxTable
