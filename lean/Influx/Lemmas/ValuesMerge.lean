/-
  Lemmas.ValuesMerge — the map an array denotes (`Spec.C37.toMap`), Deduplicate
  (stable sort + compaction) and the two Merge loops of Model.Values.
-/
import Influx.Lemmas.ValuesSearch
import Influx.Spec.C37
namespace Influx.Values
open Influx.Spec.C37 (toMap sortedDedup)
variable {V : Type}

/-- one-entry map -/
def single (x : Pt V) (t : Int) : Option V := if x.1 = t then some x.2 else none

theorem toMap_cons (x : Pt V) (r : List (Pt V)) (t : Int) :
    toMap (x :: r) t = (toMap r t).or (single x t) := by
  obtain ⟨t', v⟩ := x
  simp only [toMap, single]
  cases toMap r t <;> simp

@[simp] theorem toMap_nil (t : Int) : toMap ([] : List (Pt V)) t = none := rfl

theorem toMap_append (a b : List (Pt V)) (t : Int) :
    toMap (a ++ b) t = (toMap b t).or (toMap a t) := by
  induction a with
  | nil => simp
  | cons x r ih =>
    rw [List.cons_append, toMap_cons, ih, toMap_cons]
    cases toMap b t <;> simp

theorem toMap_none_of_not_mem (a : List (Pt V)) (t : Int) (h : ∀ p ∈ a, p.1 ≠ t) : toMap a t = none := by
  induction a with
  | nil => rfl
  | cons x r ih =>
    rw [toMap_cons, ih (fun p hp => h p (List.mem_cons_of_mem _ hp))]
    simp [single, h x (List.mem_cons_self)]

theorem exists_mem_of_toMap_some (a : List (Pt V)) (t : Int) (v : V) (h : toMap a t = some v) :
    ∃ p ∈ a, p.1 = t ∧ p.2 = v := by
  induction a with
  | nil => simp at h
  | cons x r ih =>
    rw [toMap_cons] at h
    cases hr : toMap r t with
    | some w =>
      rw [hr] at h; simp at h; subst h
      obtain ⟨p, hp, h1⟩ := ih hr
      exact ⟨p, List.mem_cons_of_mem _ hp, h1⟩
    | none =>
      rw [hr] at h; simp [single] at h
      exact ⟨x, List.mem_cons_self, h.1, h.2⟩

/-- head of a strictly sorted array: its key is below all others. -/
theorem toMap_cons_lt (x : Pt V) (r : List (Pt V)) (t : Int) (h : ∀ p ∈ r, x.1 < p.1) :
    toMap (x :: r) t = if x.1 = t then some x.2 else toMap r t := by
  rw [toMap_cons]
  by_cases hx : x.1 = t
  · rw [if_pos hx, toMap_none_of_not_mem r t (by intro p hp; have := h p hp; omega)]
    simp [single, hx]
  · rw [if_neg hx]; simp [single, hx]

theorem strictAsc_iff (a : List (Pt V)) : strictAsc a = true ↔ SSorted a := by
  induction a with
  | nil => simp [strictAsc]
  | cons x r ih =>
    cases r with
    | nil => simp [strictAsc]
    | cons y r' =>
      simp only [strictAsc, Bool.and_eq_true, decide_eq_true_eq, ih]
      constructor
      · rintro ⟨hxy, hs⟩
        refine List.pairwise_cons.mpr ⟨?_, hs⟩
        intro p hp
        rcases List.mem_cons.mp hp with rfl | hp'
        · exact hxy
        · have := (List.pairwise_cons.mp hs).1 p hp'; omega
      · intro hs
        have := List.pairwise_cons.mp hs
        exact ⟨this.1 y List.mem_cons_self, this.2⟩

theorem strictAsc_eq_sortedDedup (a : List (Pt V)) : strictAsc a = sortedDedup a := by
  induction a with
  | nil => rfl
  | cons x r ih =>
    cases r with
    | nil => rfl
    | cons y r' => simp only [strictAsc, sortedDedup, ih]

theorem sortedDedup_iff (a : List (Pt V)) : sortedDedup a = true ↔ SSorted a := by
  rw [← strictAsc_eq_sortedDedup]; exact strictAsc_iff a

/-! ### stable sort and compaction -/

theorem mem_insertStable (x p : Pt V) (l : List (Pt V)) : p ∈ insertStable x l ↔ p = x ∨ p ∈ l := by
  induction l with
  | nil => simp [insertStable]
  | cons y r ih =>
    unfold insertStable
    split
    · simp
    · simp [ih]; grind

theorem toMap_insertStable (x : Pt V) (l : List (Pt V)) (t : Int) :
    toMap (insertStable x l) t = toMap (x :: l) t := by
  induction l with
  | nil => rfl
  | cons y r ih =>
    unfold insertStable
    split
    · rfl
    · next hlt =>
      rw [toMap_cons, ih, toMap_cons, toMap_cons x, toMap_cons y]
      cases toMap r t with
      | some w => simp
      | none =>
        simp only [Option.none_or, single]
        by_cases h1 : x.1 = t <;> by_cases h2 : y.1 = t <;> simp [h1, h2]
        omega

theorem sorted_insertStable (x : Pt V) (l : List (Pt V)) (h : Sorted l) : Sorted (insertStable x l) := by
  induction l with
  | nil => simp [insertStable]
  | cons y r ih =>
    unfold insertStable
    split
    · next hle =>
      refine List.pairwise_cons.mpr ⟨?_, h⟩
      intro p hp
      rcases List.mem_cons.mp hp with rfl | hp'
      · exact hle
      · have := (List.pairwise_cons.mp h).1 p hp'; omega
    · next hgt =>
      have hp := List.pairwise_cons.mp h
      refine List.pairwise_cons.mpr ⟨?_, ih hp.2⟩
      intro p hp'
      rcases (mem_insertStable x p r).mp hp' with rfl | h'
      · omega
      · exact hp.1 p h'

theorem sorted_stableSort (a : List (Pt V)) : Sorted (stableSort a) := by
  induction a with
  | nil => simp [stableSort]
  | cons x r ih => exact sorted_insertStable x _ ih

theorem toMap_stableSort (a : List (Pt V)) (t : Int) : toMap (stableSort a) t = toMap a t := by
  induction a with
  | nil => rfl
  | cons x r ih =>
    show toMap (insertStable x (stableSort r)) t = _
    rw [toMap_insertStable, toMap_cons, ih, toMap_cons]

theorem stableSort_perm (a : List (Pt V)) (p : Pt V) : p ∈ stableSort a ↔ p ∈ a := by
  induction a with
  | nil => simp [stableSort]
  | cons x r ih => simp [stableSort, mem_insertStable, ih]

theorem toMap_self_isSome (x : Pt V) (r : List (Pt V)) : ∃ w, toMap (x :: r) x.1 = some w := by
  rw [toMap_cons]
  cases toMap r x.1 with
  | some w => exact ⟨w, by simp⟩
  | none => exact ⟨x.2, by simp [single]⟩

theorem toMap_compact (cur : Pt V) (r : List (Pt V)) (t : Int) :
    toMap (compact cur r) t = toMap (cur :: r) t := by
  induction r generalizing cur with
  | nil => rfl
  | cons v r ih =>
    unfold compact
    split
    · next hne => rw [toMap_cons, ih, toMap_cons cur]
    · next heq =>
      have heq : v.1 = cur.1 := by simpa using heq
      rw [ih, toMap_cons cur]
      by_cases ht : cur.1 = t
      · obtain ⟨w, hw⟩ := toMap_self_isSome v r
        rw [heq, ht] at hw
        rw [hw]; simp
      · simp [single, ht]

theorem mem_compact (cur p : Pt V) (r : List (Pt V)) (h : p ∈ compact cur r) : p ∈ cur :: r := by
  induction r generalizing cur with
  | nil => simpa [compact] using h
  | cons v r ih =>
    unfold compact at h
    split at h
    · rcases List.mem_cons.mp h with rfl | h'
      · exact List.mem_cons_self
      · exact List.mem_cons_of_mem _ (ih v h')
    · exact List.mem_cons_of_mem _ (ih v h)

theorem ssorted_compact (cur : Pt V) (r : List (Pt V)) (h : Sorted (cur :: r)) : SSorted (compact cur r) := by
  induction r generalizing cur with
  | nil => simp [compact]
  | cons v r ih =>
    have hp := List.pairwise_cons.mp h
    unfold compact
    split
    · next hne =>
      refine List.pairwise_cons.mpr ⟨?_, ih v hp.2⟩
      intro p hp'
      have hm := mem_compact v p r hp'
      have h1 := hp.1 v List.mem_cons_self
      have h2 : v.1 ≤ p.1 := by
        rcases List.mem_cons.mp hm with rfl | hm'
        · exact Int.le_refl _
        · exact (List.pairwise_cons.mp hp.2).1 p hm'
      omega
    · exact ih v hp.2

theorem compact_ne_nil (cur : Pt V) (r : List (Pt V)) : compact cur r ≠ [] := by
  induction r generalizing cur with
  | nil => simp [compact]
  | cons v r ih => unfold compact; split <;> simp [ih]

/-! ### Deduplicate -/

theorem ssorted_of_length_le_one (a : List (Pt V)) (h : a.length ≤ 1) : SSorted a := by
  match a, h with
  | [], _ => simp
  | [_], _ => simp

theorem dedup_ssorted (a : List (Pt V)) : SSorted (dedup a) := by
  unfold dedup
  split
  · next h => exact ssorted_of_length_le_one a h
  · split
    · next h => exact (strictAsc_iff a).mp h
    · have hs := sorted_stableSort a
      split
      · simp
      · next x r heq => rw [heq] at hs; exact ssorted_compact x r hs

theorem toMap_dedup (a : List (Pt V)) (t : Int) : toMap (dedup a) t = toMap a t := by
  unfold dedup
  split
  · rfl
  · split
    · rfl
    · have hs := toMap_stableSort a t
      split
      · next heq => rw [heq] at hs; exact hs
      · next x r heq => rw [heq] at hs; rw [toMap_compact]; exact hs

theorem dedup_of_ssorted (a : List (Pt V)) (h : SSorted a) : dedup a = a := by
  unfold dedup
  split
  · rfl
  · rw [if_pos ((strictAsc_iff a).mpr h)]

theorem dedup_ne_nil (a : List (Pt V)) (h : a ≠ []) : dedup a ≠ [] := by
  unfold dedup
  split
  · exact h
  · split
    · exact h
    · split
      · next heq =>
        cases a with
        | nil => exact h
        | cons x r =>
          have : x ∈ stableSort (x :: r) := (stableSort_perm _ _).mpr List.mem_cons_self
          rw [heq] at this; simp at this
      · exact compact_ne_nil _ _

/-- strictly sorted arrays are canonical representatives of the maps they denote. -/
theorem ssorted_ext (x y : List (Pt V)) (hx : SSorted x) (hy : SSorted y)
    (h : ∀ t, toMap x t = toMap y t) : x = y := by
  induction x generalizing y with
  | nil =>
    cases y with
    | nil => rfl
    | cons q y' =>
      obtain ⟨w, hw⟩ := toMap_self_isSome q y'
      have := h q.1; rw [hw] at this; simp at this
  | cons p x' ih =>
    cases y with
    | nil =>
      obtain ⟨w, hw⟩ := toMap_self_isSome p x'
      have := h p.1; rw [hw] at this; simp at this
    | cons q y' =>
      have hpx := List.pairwise_cons.mp hx
      have hqy := List.pairwise_cons.mp hy
      have e1 := h p.1
      rw [toMap_cons_lt p x' _ hpx.1, if_pos rfl] at e1
      obtain ⟨p', hp', k1, k2⟩ := exists_mem_of_toMap_some _ _ _ e1.symm
      have e2 := h q.1
      rw [toMap_cons_lt q y' _ hqy.1, if_pos rfl] at e2
      obtain ⟨q', hq', l1, l2⟩ := exists_mem_of_toMap_some _ _ _ e2
      have hk : p.1 = q.1 := by
        rcases List.mem_cons.mp hp' with rfl | hm
        · exact k1.symm
        · rcases List.mem_cons.mp hq' with rfl | hm'
          · exact l1
          · have := hqy.1 p' hm; have := hpx.1 q' hm'; omega
      have hv : p.2 = q.2 := by
        rw [toMap_cons_lt q y' _ hqy.1, if_pos hk.symm] at e1
        simpa using e1
      have hpq : p = q := Prod.ext hk hv
      subst hpq
      congr 1
      apply ih y' hpx.2 hqy.2
      intro t
      have := h t
      rw [toMap_cons_lt p x' _ hpx.1, toMap_cons_lt p y' _ hqy.1] at this
      by_cases ht : p.1 = t
      · rw [toMap_none_of_not_mem x' t (by intro r hr; have := hpx.1 r hr; omega),
            toMap_none_of_not_mem y' t (by intro r hr; have := hqy.1 r hr; omega)]
      · simpa [ht] using this

/-! ### Merge loops -/

theorem mem_mergeLoopV (a b : List (Pt V)) (p : Pt V) (h : p ∈ mergeLoopV a b) : p ∈ a ∨ p ∈ b := by
  fun_induction mergeLoopV a b with
  | case1 b => exact Or.inr h
  | case2 x a => exact Or.inl h
  | case3 x a y b hlt ih =>
    rcases List.mem_cons.mp h with rfl | h'
    · exact Or.inl List.mem_cons_self
    · rcases ih h' with h1 | h1
      · exact Or.inl (List.mem_cons_of_mem _ h1)
      · exact Or.inr h1
  | case4 x a y b hlt heq ih =>
    rcases ih h with h1 | h1
    · exact Or.inl (List.mem_cons_of_mem _ h1)
    · exact Or.inr h1
  | case5 x a y b hlt hne ih =>
    rcases List.mem_cons.mp h with rfl | h'
    · exact Or.inr List.mem_cons_self
    · rcases ih h' with h1 | h1
      · exact Or.inl h1
      · exact Or.inr (List.mem_cons_of_mem _ h1)

theorem mem_mergeLoopA (a b : List (Pt V)) (p : Pt V) (h : p ∈ mergeLoopA a b) : p ∈ a ∨ p ∈ b := by
  fun_induction mergeLoopA a b with
  | case1 b => exact Or.inr h
  | case2 x a => exact Or.inl h
  | case3 x a y b hlt ih =>
    rcases List.mem_cons.mp h with rfl | h'
    · exact Or.inl List.mem_cons_self
    · rcases ih h' with h1 | h1
      · exact Or.inl (List.mem_cons_of_mem _ h1)
      · exact Or.inr h1
  | case4 x a y b hlt heq ih =>
    rcases List.mem_cons.mp h with rfl | h'
    · exact Or.inr List.mem_cons_self
    · rcases ih h' with h1 | h1
      · exact Or.inl (List.mem_cons_of_mem _ h1)
      · exact Or.inr (List.mem_cons_of_mem _ h1)
  | case5 x a y b hlt hne ih =>
    rcases List.mem_cons.mp h with rfl | h'
    · exact Or.inr List.mem_cons_self
    · rcases ih h' with h1 | h1
      · exact Or.inl h1
      · exact Or.inr (List.mem_cons_of_mem _ h1)

theorem lt_of_mem_cons_sorted (x p : Pt V) (a : List (Pt V)) (hs : SSorted (x :: a)) (hp : p ∈ a) : x.1 < p.1 :=
  (List.pairwise_cons.mp hs).1 p hp

theorem le_of_mem_cons_ssorted (y p : Pt V) (b : List (Pt V)) (hs : SSorted (y :: b)) (hp : p ∈ y :: b) : y.1 ≤ p.1 := by
  rcases List.mem_cons.mp hp with rfl | h
  · exact Int.le_refl _
  · exact Int.le_of_lt ((List.pairwise_cons.mp hs).1 p h)

theorem mergeLoopV_spec (a b : List (Pt V)) (ha : SSorted a) (hb : SSorted b) :
    SSorted (mergeLoopV a b) ∧ ∀ t, toMap (mergeLoopV a b) t = (toMap b t).or (toMap a t) := by
  fun_induction mergeLoopV a b with
  | case1 b => exact ⟨hb, fun t => by simp⟩
  | case2 x a => exact ⟨ha, fun t => by simp⟩
  | case3 x a y b hlt ih =>
    obtain ⟨s, m⟩ := ih (List.pairwise_cons.mp ha).2 hb
    have hall : ∀ p ∈ mergeLoopV a (y :: b), x.1 < p.1 := by
      intro p hp
      rcases mem_mergeLoopV _ _ _ hp with h | h
      · exact lt_of_mem_cons_sorted x p a ha h
      · have := le_of_mem_cons_ssorted y p b hb h; omega
    refine ⟨List.pairwise_cons.mpr ⟨hall, s⟩, ?_⟩
    intro t
    rw [toMap_cons_lt x _ t hall, m, toMap_cons_lt x a t (List.pairwise_cons.mp ha).1]
    by_cases hx : x.1 = t
    · rw [if_pos hx, if_pos hx, toMap_none_of_not_mem (y :: b) t (by
        intro p hp; have := le_of_mem_cons_ssorted y p b hb hp; omega)]
      simp
    · rw [if_neg hx, if_neg hx]
  | case4 x a y b hlt heq ih =>
    obtain ⟨s, m⟩ := ih (List.pairwise_cons.mp ha).2 hb
    refine ⟨s, ?_⟩
    intro t
    rw [m, toMap_cons_lt x a t (List.pairwise_cons.mp ha).1]
    by_cases hx : x.1 = t
    · rw [if_pos hx]
      obtain ⟨w, hw⟩ := toMap_self_isSome y b
      rw [← heq, hx] at hw
      rw [hw]; simp
    · rw [if_neg hx]
  | case5 x a y b hlt hne ih =>
    obtain ⟨s, m⟩ := ih ha (List.pairwise_cons.mp hb).2
    have hyx : y.1 < x.1 := by omega
    have hall : ∀ p ∈ mergeLoopV (x :: a) b, y.1 < p.1 := by
      intro p hp
      rcases mem_mergeLoopV _ _ _ hp with h | h
      · have := le_of_mem_cons_ssorted x p a ha h; omega
      · exact lt_of_mem_cons_sorted y p b hb h
    refine ⟨List.pairwise_cons.mpr ⟨hall, s⟩, ?_⟩
    intro t
    rw [toMap_cons_lt y _ t hall, m, toMap_cons_lt y b t (List.pairwise_cons.mp hb).1]
    by_cases hy : y.1 = t
    · rw [if_pos hy, if_pos hy]; simp
    · rw [if_neg hy, if_neg hy]

theorem mergeLoopA_spec (a b : List (Pt V)) (ha : SSorted a) (hb : SSorted b) :
    SSorted (mergeLoopA a b) ∧ ∀ t, toMap (mergeLoopA a b) t = (toMap b t).or (toMap a t) := by
  fun_induction mergeLoopA a b with
  | case1 b => exact ⟨hb, fun t => by simp⟩
  | case2 x a => exact ⟨ha, fun t => by simp⟩
  | case3 x a y b hlt ih =>
    obtain ⟨s, m⟩ := ih (List.pairwise_cons.mp ha).2 hb
    have hall : ∀ p ∈ mergeLoopA a (y :: b), x.1 < p.1 := by
      intro p hp
      rcases mem_mergeLoopA _ _ _ hp with h | h
      · exact lt_of_mem_cons_sorted x p a ha h
      · have := le_of_mem_cons_ssorted y p b hb h; omega
    refine ⟨List.pairwise_cons.mpr ⟨hall, s⟩, ?_⟩
    intro t
    rw [toMap_cons_lt x _ t hall, m, toMap_cons_lt x a t (List.pairwise_cons.mp ha).1]
    by_cases hx : x.1 = t
    · rw [if_pos hx, if_pos hx, toMap_none_of_not_mem (y :: b) t (by
        intro p hp; have := le_of_mem_cons_ssorted y p b hb hp; omega)]
      simp
    · rw [if_neg hx, if_neg hx]
  | case4 x a y b hlt heq ih =>
    obtain ⟨s, m⟩ := ih (List.pairwise_cons.mp ha).2 (List.pairwise_cons.mp hb).2
    have hall : ∀ p ∈ mergeLoopA a b, y.1 < p.1 := by
      intro p hp
      rcases mem_mergeLoopA _ _ _ hp with h | h
      · have := lt_of_mem_cons_sorted x p a ha h; omega
      · exact lt_of_mem_cons_sorted y p b hb h
    refine ⟨List.pairwise_cons.mpr ⟨hall, s⟩, ?_⟩
    intro t
    rw [toMap_cons_lt y _ t hall, m, toMap_cons_lt y b t (List.pairwise_cons.mp hb).1,
      toMap_cons_lt x a t (List.pairwise_cons.mp ha).1]
    by_cases hy : y.1 = t
    · rw [if_pos hy, if_pos hy]; simp
    · rw [if_neg hy, if_neg hy, if_neg (by omega)]
  | case5 x a y b hlt hne ih =>
    obtain ⟨s, m⟩ := ih ha (List.pairwise_cons.mp hb).2
    have hyx : y.1 < x.1 := by omega
    have hall : ∀ p ∈ mergeLoopA (x :: a) b, y.1 < p.1 := by
      intro p hp
      rcases mem_mergeLoopA _ _ _ hp with h | h
      · have := le_of_mem_cons_ssorted x p a ha h; omega
      · exact lt_of_mem_cons_sorted y p b hb h
    refine ⟨List.pairwise_cons.mpr ⟨hall, s⟩, ?_⟩
    intro t
    rw [toMap_cons_lt y _ t hall, m, toMap_cons_lt y b t (List.pairwise_cons.mp hb).1]
    by_cases hy : y.1 = t
    · rw [if_pos hy, if_pos hy]; simp
    · rw [if_neg hy, if_neg hy]

/-- the fast paths of `Merge` (disjoint time ranges) and the loop, for any loop meeting the loop spec. -/
theorem mergeCore_spec (loop : List (Pt V) → List (Pt V) → List (Pt V)) (a b : List (Pt V))
    (ha : SSorted a) (hb : SSorted b)
    (hloop : SSorted (loop a b) ∧ ∀ t, toMap (loop a b) t = (toMap b t).or (toMap a t)) :
    SSorted (mergeCore loop a b) ∧ ∀ t, toMap (mergeCore loop a b) t = (toMap b t).or (toMap a t) := by
  unfold mergeCore
  split
  · next a0 aN b0 bN h1 h2 h3 h4 =>
    split
    · next hlt =>
      refine ⟨List.pairwise_append.mpr ⟨ha, hb, ?_⟩, fun t => toMap_append a b t⟩
      intro p hp q hq
      have := sorted_le_getLast a ha.sorted aN h2 p hp
      have := sorted_head_le b hb.sorted b0 h3 q hq
      omega
    · split
      · next hlt =>
        have hdis : ∀ p ∈ b, ∀ q ∈ a, p.1 < q.1 := by
          intro p hp q hq
          have := sorted_le_getLast b hb.sorted bN h4 p hp
          have := sorted_head_le a ha.sorted a0 h1 q hq
          omega
        refine ⟨List.pairwise_append.mpr ⟨hb, ha, hdis⟩, ?_⟩
        intro t
        rw [toMap_append]
        cases hA : toMap a t with
        | none => simp
        | some v =>
          obtain ⟨q, hq, hq1, _⟩ := exists_mem_of_toMap_some a t v hA
          rw [toMap_none_of_not_mem b t (by intro p hp; have := hdis p hp q hq; omega)]
          simp
      · exact hloop
  · exact hloop

end Influx.Values
