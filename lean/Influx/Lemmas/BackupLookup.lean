/-
  Lemmas.BackupLookup — read-path lemmas of Model.Backup: lookups distribute
  over appends, chunking does not change what a key's blocks contain, and a
  cache snapshot (flush) contains exactly what the cache held.
-/
import Influx.Model.Backup

namespace Influx.Backup

/-! ### sorting helpers: membership -/

theorem mem_insertTS {a x : TS} {l : List TS} : x ∈ insertTS a l ↔ x = a ∨ x ∈ l := by
  induction l with
  | nil => simp [insertTS]
  | cons b l ih =>
    unfold insertTS
    split
    · simp
    · split
      · next h => subst h; simp
      · simp [ih]; constructor
        · rintro (h | h | h) <;> simp [h]
        · rintro (h | h | h) <;> simp [h]

theorem mem_sortDedup {x : TS} {l : List TS} : x ∈ sortDedup l ↔ x ∈ l := by
  induction l with
  | nil => simp [sortDedup]
  | cons a l ih =>
    have : sortDedup (a :: l) = insertTS a (sortDedup l) := rfl
    rw [this, mem_insertTS, ih]; simp

theorem mem_insertKey {a x : Key} {l : List Key} : x ∈ insertKey a l ↔ x = a ∨ x ∈ l := by
  induction l with
  | nil => simp [insertKey]
  | cons b l ih =>
    unfold insertKey
    split
    · simp
    · split
      · next h => subst h; simp
      · simp [ih]; constructor
        · rintro (h | h | h) <;> simp [h]
        · rintro (h | h | h) <;> simp [h]

theorem mem_sortKeys {x : Key} {l : List Key} : x ∈ sortKeys l ↔ x ∈ l := by
  induction l with
  | nil => simp [sortKeys]
  | cons a l ih =>
    have : sortKeys (a :: l) = insertKey a (sortKeys l) := rfl
    rw [this, mem_insertKey, ih]; simp

/-! ### chunks -/

theorem chunkAux_flatten (n : Nat) (hn : 0 < n) :
    ∀ (fuel : Nat) (l : List α), l.length ≤ fuel → (chunkAux n fuel l).flatten = l := by
  intro fuel
  induction fuel with
  | zero => intro l h; cases l <;> simp_all [chunkAux]
  | succ fuel ih =>
    intro l h
    cases l with
    | nil => simp [chunkAux]
    | cons a l =>
      simp only [chunkAux, List.flatten_cons]
      rw [ih]
      · exact List.take_append_drop n (a :: l)
      · simp only [List.length_drop, List.length_cons] at *; omega

theorem chunk_flatten (n : Nat) (l : List α) : (chunk n l).flatten = l := by
  unfold chunk
  split
  · split
    · next h => simp at h; simp [h]
    · simp
  · next h => exact chunkAux_flatten n (Nat.pos_of_ne_zero h) _ _ (Nat.le_refl _)

/-! ### lookups over appends -/

theorem blocksLookup_append (as bs : List Block) (k : Key) (t : TS) :
    blocksLookup (as ++ bs) k t = (blocksLookup as k t).or (blocksLookup bs k t) := by
  simp [blocksLookup, List.findSome?_append]

theorem filesLookup_append (fs gs : List TFile) (k : Key) (t : TS) :
    filesLookup (fs ++ gs) k t = (filesLookup gs k t).or (filesLookup fs k t) := by
  induction fs with
  | nil => simp [filesLookup]
  | cons f fs ih => simp [filesLookup, ih, Option.or_assoc]

theorem filesLookupRaw_append (fs gs : List TFile) (k : Key) (t : TS) :
    filesLookupRaw (fs ++ gs) k t = (filesLookupRaw gs k t).or (filesLookupRaw fs k t) := by
  induction fs with
  | nil => simp [filesLookupRaw]
  | cons f fs ih => simp [filesLookupRaw, ih, Option.or_assoc]

/-- lookup through the blocks of one key = lookup in the concatenated points -/
theorem blocksLookup_map_mkBlock (k k' : Key) (t : TS) (cs : List (List (TS × Val))) :
    blocksLookup (cs.map (mkBlock k)) k' t = if k = k' then (cs.flatten).lookup t else none := by
  induction cs with
  | nil => simp [blocksLookup]
  | cons c cs ih =>
    have h : blocksLookup ((c :: cs).map (mkBlock k)) k' t =
        ((mkBlock k c).lookup k' t).or (blocksLookup (cs.map (mkBlock k)) k' t) := by
      simp [blocksLookup, List.findSome?_cons]
      cases (mkBlock k c).lookup k' t <;> simp
    rw [h, ih]
    by_cases hk : k = k'
    · simp [hk, Block.lookup, mkBlock, List.lookup_append]
    · simp [hk, Block.lookup, mkBlock]

theorem blocksLookup_mkBlocks (k k' : Key) (t : TS) (pts : List (TS × Val)) :
    blocksLookup (mkBlocks k pts) k' t = if k = k' then pts.lookup t else none := by
  unfold mkBlocks
  rw [blocksLookup_map_mkBlock, chunk_flatten]

/-- blocks built key by key: only the requested key contributes -/
theorem blocksLookup_flatMap_mkBlocks (keys : List Key) (pts : Key → List (TS × Val)) (k : Key) (t : TS) :
    blocksLookup (keys.flatMap (fun k' => mkBlocks k' (pts k'))) k t =
      if k ∈ keys then (pts k).lookup t else none := by
  induction keys with
  | nil => simp [blocksLookup]
  | cons a keys ih =>
    rw [List.flatMap_cons, blocksLookup_append, ih, blocksLookup_mkBlocks]
    by_cases ha : a = k
    · subst ha; simp
      cases (pts a).lookup t <;> simp
    · have : ¬ k = a := fun h => ha h.symm
      simp [ha, this]

/-- a list of (t, f t) pairs looks up as f on its support -/
theorem lookup_filterMap_graph (f : TS → Option Val) (l : List TS) (t : TS) :
    (l.filterMap (fun x => (f x).map (fun v => (x, v)))).lookup t = if t ∈ l then f t else none := by
  induction l with
  | nil => simp
  | cons a l ih =>
    rw [List.filterMap_cons]
    cases hfa : f a with
    | none =>
      simp only [Option.map_none]
      rw [ih]
      by_cases hta : t = a
      · subst hta; simp [hfa]
      · simp [hta]
    | some v =>
      simp only [Option.map_some, List.lookup_cons]
      by_cases hta : t = a
      · subst hta; simp [hfa]
      · have : (t == a) = false := by simp [hta]
        rw [this]; simp only []
        rw [ih]; simp [hta]

/-! ### the cache snapshot -/

theorem cacheLookup_some_mem {c : Cache} {k : Key} {t : TS} {v : Val}
    (h : cacheLookup c k t = some v) : (k, t, v) ∈ c := by
  unfold cacheLookup at h
  cases hf : c.find? (fun e => e.1 == k && e.2.1 == t) with
  | none => simp [hf] at h
  | some e =>
    simp [hf] at h
    have hm := List.mem_of_find?_eq_some hf
    have hp := List.find?_some hf
    simp at hp
    obtain ⟨k', t', v'⟩ := e
    simp at hp h
    obtain ⟨rfl, rfl⟩ := hp
    subst h
    exact hm

theorem cacheLookup_isSome_of_mem {c : Cache} {k : Key} {t : TS} {v : Val}
    (h : (k, t, v) ∈ c) : (cacheLookup c k t).isSome := by
  unfold cacheLookup
  rw [Option.isSome_map, List.find?_isSome]
  exact ⟨(k, t, v), h, by simp⟩

theorem lookup_cachePts (c : Cache) (k : Key) (t : TS) :
    (cachePts c k).lookup t = cacheLookup c k t := by
  unfold cachePts
  rw [lookup_filterMap_graph]
  split
  · rfl
  · next hn =>
    cases h : cacheLookup c k t with
    | none => rfl
    | some v =>
      exfalso; apply hn
      have hm := cacheLookup_some_mem h
      unfold cacheTimes
      rw [mem_sortDedup, List.mem_map]
      exact ⟨(k, t, v), by simp [hm], rfl⟩

theorem blocksLookup_flushBlocks (c : Cache) (k : Key) (t : TS) :
    blocksLookup (flushBlocks c) k t = cacheLookup c k t := by
  unfold flushBlocks
  rw [blocksLookup_flatMap_mkBlocks (cacheKeys c) (cachePts c) k t, lookup_cachePts]
  split
  · rfl
  · next hn =>
    cases h : cacheLookup c k t with
    | none => rfl
    | some v =>
      exfalso; apply hn
      have hm := cacheLookup_some_mem h
      unfold cacheKeys
      rw [mem_sortKeys, List.mem_map]
      exact ⟨(k, t, v), hm, rfl⟩

/-- **WriteSnapshot preserves the readable content.** -/
theorem abs_flush (s : Shard) (k : Key) (t : TS) : s.flush.abs k t = s.abs k t := by
  unfold Shard.flush
  split
  · split <;> rfl
  · next hne =>
    simp only [Shard.abs, cacheLookup, List.find?_nil, Option.map_none, Option.none_or]
    rw [filesLookup_append]
    have hnew : filesLookup (if (flushBlocks s.cache).isEmpty = true then [] else
        [{ gen := s.nextGen, seq := 1, mtime := MTime.fresh, blocks := flushBlocks s.cache,
           tombs := [], tombM := none }]) k t = cacheLookup s.cache k t := by
      rw [← blocksLookup_flushBlocks]
      split
      · next he =>
        simp only [List.isEmpty_iff] at he
        simp [filesLookup, he, blocksLookup]
      · simp [filesLookup, TFile.lookup, TFile.tombstoned]
    rw [hnew]
    rfl

end Influx.Backup
