/-
  Lemmas.BackupDump — what the model's dump (the observation "read everything
  back") contains: exactly the points where the abstract content is defined.
-/
import Influx.Lemmas.BackupExport
import Influx.Spec.C38

namespace Influx.Backup
open Influx.Spec.C38

theorem filesLookup_some {fs : List TFile} {k : Key} {t : TS} {v : Val}
    (h : filesLookup fs k t = some v) : ∃ f ∈ fs, f.lookup k t = some v := by
  induction fs with
  | nil => simp [filesLookup] at h
  | cons f fs ih =>
    simp only [filesLookup] at h
    cases hr : filesLookup fs k t with
    | some w =>
      rw [hr] at h; simp at h; subst h
      obtain ⟨g, hg, hl⟩ := ih hr
      exact ⟨g, by simp [hg], hl⟩
    | none =>
      rw [hr] at h; simp at h
      exact ⟨f, by simp, h⟩

theorem Block.lookup_some_mem {b : Block} {k : Key} {t : TS} {v : Val} (h : b.lookup k t = some v) :
    b.key = k ∧ (t, v) ∈ b.pts := by
  unfold Block.lookup at h
  split at h
  · next hk =>
    refine ⟨hk, ?_⟩
    obtain ⟨l1, l2, heq, _⟩ := List.lookup_eq_some_iff.mp h
    rw [heq]; simp
  · simp at h

/-- a readable point is among the candidate times the dump enumerates -/
theorem abs_some_mem_times {s : Shard} {k : Key} {t : TS} {v : Val} (h : s.abs k t = some v) :
    t ∈ s.times k := by
  unfold Shard.times
  rw [mem_sortDedup, List.mem_append]
  unfold Shard.abs at h
  cases hc : cacheLookup s.cache k t with
  | some w =>
    left
    have hm := cacheLookup_some_mem hc
    exact List.mem_map.mpr ⟨(k, t, w), by simp [hm], rfl⟩
  | none =>
    rw [hc] at h; simp at h
    right
    obtain ⟨f, hf, hl⟩ := filesLookup_some h
    obtain ⟨b, hb, hbl⟩ := blocksLookup_some (lookup_some_raw hl)
    obtain ⟨hk, hm⟩ := Block.lookup_some_mem hbl
    refine List.mem_flatMap.mpr ⟨f, hf, List.mem_flatMap.mpr ⟨b, ?_, ?_⟩⟩
    · simp [hb, hk]
    · exact List.mem_map.mpr ⟨(t, v), hm, rfl⟩

theorem mem_keyPts {s : Shard} {k : Key} {t : TS} {v : Val} :
    (t, v) ∈ s.keyPts k ↔ s.abs k t = some v := by
  unfold Shard.keyPts
  rw [List.mem_filterMap]
  constructor
  · rintro ⟨t', _, h⟩
    cases ha : s.abs k t' with
    | none => simp [ha] at h
    | some w => simp [ha] at h; obtain ⟨rfl, rfl⟩ := h; exact ha
  · intro h
    exact ⟨t, abs_some_mem_times h, by simp [h]⟩

/-- **the dump lists exactly the readable points** (of the keys of the universe) -/
theorem mem_dumpFlat {s : Shard} {k : Key} {t : TS} {v : Val} :
    (k, t, v) ∈ dumpFlat s.dump ↔ k < nKeys ∧ s.abs k t = some v := by
  unfold dumpFlat Shard.dump
  simp only [List.mem_flatMap, List.mem_filterMap, List.mem_range, List.mem_map]
  constructor
  · rintro ⟨e, ⟨k', hk', he⟩, p, hp, heq⟩
    split at he
    · simp at he
    · simp at he; subst he
      simp at heq
      obtain ⟨rfl, rfl, rfl⟩ := heq
      exact ⟨hk', mem_keyPts.mp hp⟩
  · rintro ⟨hk, ha⟩
    have hm := mem_keyPts.mpr ha
    refine ⟨(k, s.keyPts k), ⟨k, hk, ?_⟩, (t, v), hm, rfl⟩
    have : (s.keyPts k).isEmpty = false := by
      cases hl : s.keyPts k with
      | nil => rw [hl] at hm; simp at hm
      | cons a l => rfl
    simp [this]

theorem dumpHas_iff (d : Dump) (k : Key) (t : TS) (v : Val) :
    dumpHas d k t v = true ↔ (k, t, v) ∈ dumpFlat d := by
  unfold dumpHas dumpFlat
  simp only [List.any_eq_true, Bool.and_eq_true, beq_iff_eq, List.contains_iff_mem, List.mem_flatMap, List.mem_map]
  constructor
  · rintro ⟨e, he, rfl, hm⟩
    exact ⟨e, he, (t, v), hm, rfl⟩
  · rintro ⟨e, he, p, hp, heq⟩
    simp at heq
    obtain ⟨rfl, rfl, rfl⟩ := heq
    exact ⟨e, he, rfl, hp⟩

/-- the points of a dump depend only on the cache, the candidate times and the abstract content -/
theorem dump_pts_congr (s s' : Shard) (ht : ∀ k, s.times k = s'.times k) (ha : ∀ k t, s.abs k t = s'.abs k t) :
    s.dump.pts = s'.dump.pts := by
  unfold Shard.dump
  simp only
  congr 1
  funext k
  have : s.keyPts k = s'.keyPts k := by
    unfold Shard.keyPts
    rw [ht k]
    congr 1
    funext t
    rw [ha k t]
  rw [this]

/-- the keys that have a point in a dump -/
theorem dump_pts_key {s : Shard} {e : Key × List (TS × Val)} (h : e ∈ s.dump.pts) :
    ∃ t v, s.abs e.1 t = some v := by
  unfold Shard.dump at h
  simp only [List.mem_filterMap, List.mem_range] at h
  obtain ⟨k, _, he⟩ := h
  split at he
  · simp at he
  · next hne =>
    simp at he; subst he
    cases hl : s.keyPts k with
    | nil => simp [hl] at hne
    | cons p l =>
      have : p ∈ s.keyPts k := by rw [hl]; simp
      exact ⟨p.1, p.2, mem_keyPts.mp this⟩

end Influx.Backup
