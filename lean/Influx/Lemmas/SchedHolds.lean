/-
  Lemmas.SchedHolds — the run-time checker of Spec.C24 against the model's log: bookkeeping of
  entries vs. cursors, runs of a settle segment, the quiescence clauses.
-/
import Influx.Lemmas.SchedMacro
set_option linter.unusedSimpArgs false
set_option linter.unusedVariables false
namespace Influx.Lemmas.Sched
open Influx.Model.Sched Influx.Spec.C24

/-! ### the checker's bookkeeping against the model's log -/

def eids (es : List Entry) : List Nat := es.map (·.id)

/-- the checker's entries are exactly the tasks the log has a cursor for, with the same data -/
structure EntriesOK (es : List Entry) (log : List LogEv) : Prop where
  nodup : (eids es).Nodup
  some : ∀ e ∈ es, cursor e.id log = some (e.cron, e.offset, e.last)
  none : ∀ id, id ∉ eids es → cursor id log = none

theorem findEntry_of_mem {es : List Entry} (hn : (eids es).Nodup) {e : Entry} (he : e ∈ es) :
    ∃ e', findEntry e.id es = some e' ∧ e' ∈ es ∧ e'.id = e.id ∧ e'.cron = e.cron ∧ e'.offset = e.offset ∧
      e'.last = e.last := by
  induction es with
  | nil => simp at he
  | cons x xs ih =>
    unfold findEntry
    simp only [List.find?_cons]
    by_cases hx : x.id = e.id
    · simp only [hx, beq_self_eq_true]
      rcases List.mem_cons.mp he with rfl | he'
      · exact ⟨e, rfl, by simp, rfl, rfl, rfl, rfl⟩
      · exfalso
        have hn' : (x.id :: eids xs).Nodup := hn
        have := (List.nodup_cons.mp hn').1
        apply this
        rw [hx]
        exact List.mem_map.mpr ⟨e, he', rfl⟩
    · have hb : (x.id == e.id) = false := by simpa using hx
      simp only [hb]
      rcases List.mem_cons.mp he with rfl | he'
      · exact absurd rfl hx
      · have hn' : (x.id :: eids xs).Nodup := hn
        obtain ⟨e', h1, h2, h3⟩ := ih (List.nodup_cons.mp hn').2 he'
        exact ⟨e', h1, List.mem_cons_of_mem _ h2, h3⟩

theorem findEntry_none {es : List Entry} {id : Nat} (h : id ∉ eids es) : findEntry id es = none := by
  unfold findEntry
  rw [List.find?_eq_none]
  intro e he
  simp
  intro hid
  exact h (List.mem_map.mpr ⟨e, he, hid⟩)

theorem eids_dropEntry (id : Nat) (es : List Entry) :
    id ∉ eids (dropEntry id es) ∧ (eids (dropEntry id es)).Sublist (eids es) ∧
      ∀ i, i ≠ id → (i ∈ eids (dropEntry id es) ↔ i ∈ eids es) := by
  refine ⟨?_, ?_, ?_⟩
  · simp [eids, dropEntry]
  · exact List.Sublist.map _ List.filter_sublist
  · intro i hi
    simp only [eids, dropEntry, List.mem_map, List.mem_filter]
    constructor
    · rintro ⟨e, ⟨he, _⟩, rfl⟩; exact ⟨e, he, rfl⟩
    · rintro ⟨e, he, rfl⟩; exact ⟨e, ⟨he, by simpa using hi⟩, rfl⟩

theorem mem_dropEntry {id : Nat} {es : List Entry} {e : Entry} (h : e ∈ dropEntry id es) : e ∈ es ∧ e.id ≠ id := by
  unfold dropEntry at h
  have := List.mem_filter.mp h
  exact ⟨this.1, by simpa using this.2⟩

/-- a new log event that sets the cursor of `e.id` to `e`'s data and leaves all other cursors alone -/
theorem entriesOK_set {es : List Entry} {log log' : List LogEv} (e : Entry) (h : EntriesOK es log)
    (hcur : cursor e.id log' = some (e.cron, e.offset, e.last))
    (hother : ∀ i, i ≠ e.id → cursor i log' = cursor i log) : EntriesOK (setEntry e es) log' := by
  obtain ⟨hd1, hd2, hd3⟩ := eids_dropEntry e.id es
  refine ⟨?_, ?_, ?_⟩
  · show (e.id :: eids (dropEntry e.id es)).Nodup
    exact List.nodup_cons.mpr ⟨hd1, List.Nodup.sublist hd2 h.nodup⟩
  · intro x hx
    rcases List.mem_cons.mp hx with rfl | hx
    · exact hcur
    · obtain ⟨hx1, hx2⟩ := mem_dropEntry hx
      rw [hother x.id hx2]
      exact h.some x hx1
  · intro i hi
    have hi' : i ∉ e.id :: eids (dropEntry e.id es) := hi
    simp only [List.mem_cons, not_or] at hi'
    rw [hother i hi'.1]
    exact h.none i (fun hm => hi'.2 ((hd3 i hi'.1).mpr hm))

theorem entriesOK_drop {es : List Entry} {log log' : List LogEv} (id : Nat) (h : EntriesOK es log)
    (hcur : cursor id log' = none) (hother : ∀ i, i ≠ id → cursor i log' = cursor i log) :
    EntriesOK (dropEntry id es) log' := by
  obtain ⟨hd1, hd2, hd3⟩ := eids_dropEntry id es
  refine ⟨List.Nodup.sublist hd2 h.nodup, ?_, ?_⟩
  · intro x hx
    obtain ⟨hx1, hx2⟩ := mem_dropEntry hx
    rw [hother x.id hx2]
    exact h.some x hx1
  · intro i hi
    by_cases hid : i = id
    · rw [hid]; exact hcur
    · rw [hother i hid]
      exact h.none i (fun hm => hi ((hd3 i hid).mpr hm))

theorem entriesOK_same {es : List Entry} {log log' : List LogEv} (h : EntriesOK es log)
    (hsame : ∀ i, cursor i log' = cursor i log) : EntriesOK es log' :=
  ⟨h.nodup, fun e he => by rw [hsame]; exact h.some e he, fun i hi => by rw [hsame]; exact h.none i hi⟩

/-! ### checking the runs of a log segment -/

def runsOfSeg (seg : List LogEv) : List Run := seg.reverse.filterMap tookRun

theorem checkRuns_append (st : St) (a b : List Run) :
    checkRuns st (a ++ b) = match checkRuns st a with
      | .error e => .error e
      | .ok st' => checkRuns st' b := by
  induction a generalizing st with
  | nil => simp [checkRuns]
  | cons r a ih =>
    simp only [List.cons_append, checkRuns]
    cases checkRun st r with
    | error e => rfl
    | ok st' => exact ih st'

/-- the part of the checker state that the plain histories never change -/
structure Plain (st : St) : Prop where
  running : st.running = []
  blocked : st.blocked = []

theorem checkRun_ok (st : St) (hp : Plain st) {log : List LogEv} (hE : EntriesOK st.entries log)
    (w : Nat) (r : Run) (now : Int) (hr : RunOK now log r) (hnow : now ≤ st.now) :
    ∃ st', checkRun st r = .ok st' ∧ EntriesOK st'.entries (LogEv.took w r now :: log) ∧
      st'.now = st.now ∧ st'.n = st.n ∧ Plain st' := by
  obtain ⟨c, off, t, hcur, hct, hat, hle⟩ := hr
  have hin : r.id ∈ eids st.entries := by
    apply Classical.byContradiction
    intro hni
    rw [hE.none r.id hni] at hcur
    cases hcur
  obtain ⟨e0, he0, he0id⟩ := List.mem_map.mp hin
  obtain ⟨e, hfind, hemem, heid, hec, heo, hel⟩ := findEntry_of_mem hE.nodup he0
  have hce := hE.some e hemem
  have heid' : e.id = r.id := by rw [heid, he0id]
  rw [heid', hcur] at hce
  simp only [Option.some.injEq, Prod.mk.injEq] at hce
  obtain ⟨rfl, rfl, rfl⟩ := hce
  unfold checkRun
  rw [← he0id, hfind]
  simp only [hct]
  have h1 : ¬ (r.sf ≠ r.sf) := by simp
  simp only [ne_eq, not_true_eq_false, if_false]
  have h2 : ¬ (r.runAt ≠ 1000 * (r.sf : Int) + e.offset) := by simp [hat]
  have h3 : ¬ (r.runAt > st.now) := by omega
  simp only [hat, ne_eq, not_true_eq_false, if_false]
  rw [← hat]
  simp only [h3, if_false, hp.running, hp.blocked, List.contains_nil, Bool.false_eq_true, if_false]
  refine ⟨_, rfl, ?_, rfl, rfl, ⟨rfl, rfl⟩⟩
  apply entriesOK_set { e with last := r.sf } hE
  · simp only [cursor, heid', if_true, hcur]
    rfl
  · intro i hi
    have : r.id ≠ i := by
      intro hh; apply hi; simp [← hh, heid']
    simp [cursor, this]

theorem wellOrdered_tail {ev : LogEv} {log : List LogEv} (h : WellOrdered (ev :: log)) : WellOrdered log := by
  cases ev <;> first | exact h | exact h.2

/-- what settles add to the log: runs taken at a time not after `bound`, and completions -/
def SegLe (bound : Int) (seg : List LogEv) : Prop :=
  ∀ ev ∈ seg, (∃ w r n, ev = LogEv.took w r n ∧ n ≤ bound) ∨ isFinished ev = true

theorem segLe_of_seg {now bound : Int} {seg : List LogEv} (h : Seg now seg) (hb : now ≤ bound) : SegLe bound seg := by
  intro ev hev
  rcases h ev hev with ⟨w, r, rfl⟩ | h
  · exact Or.inl ⟨w, r, now, rfl, hb⟩
  · exact Or.inr h

theorem checkRuns_seg (seg : List LogEv) (L : List LogEv) (st : St) (hp : Plain st)
    (hs : SegLe st.now seg) (hw : WellOrdered (seg ++ L)) (hE : EntriesOK st.entries L) :
    ∃ st', checkRuns st (runsOfSeg seg) = .ok st' ∧ EntriesOK st'.entries (seg ++ L) ∧
      st'.now = st.now ∧ st'.n = st.n ∧ Plain st' := by
  induction seg with
  | nil => exact ⟨st, rfl, hE, rfl, rfl, hp⟩
  | cons ev seg ih =>
    have hw' : WellOrdered (seg ++ L) := wellOrdered_tail hw
    obtain ⟨st1, h1, hE1, hn1, hnn1, hp1⟩ := ih (fun e he => hs e (by simp [he])) hw'
    have hsplit : runsOfSeg (ev :: seg) = runsOfSeg seg ++ (tookRun ev).toList := by
      unfold runsOfSeg
      rw [List.reverse_cons, List.filterMap_append]
      cases h : tookRun ev <;> simp [List.filterMap_cons, h]
    rw [hsplit, checkRuns_append, h1]
    simp only []
    rcases hs ev (by simp) with ⟨w, r, n, rfl, hn⟩ | hfin
    · have hrun : RunOK n (seg ++ L) r := hw.1
      obtain ⟨st2, h2, hE2, hn2, hnn2, hp2⟩ := checkRun_ok st1 hp1 hE1 w r n hrun (by omega)
      refine ⟨st2, ?_, hE2, by omega, by omega, hp2⟩
      simp [tookRun, checkRuns, h2]
    · cases ev <;> simp [isFinished] at hfin
      refine ⟨st1, by simp [tookRun, checkRuns], ?_, hn1, hnn1, hp1⟩
      exact entriesOK_same hE1 (fun i => by simp [cursor])

theorem runsSince_seg (s : State) (seg L : List LogEv) (h : s.log = seg ++ L) :
    runsSince L.length s = runsOfSeg seg := by
  unfold runsSince runsOfSeg
  rw [h]
  simp [List.length_append]


theorem runsOfSeg_append_notook (seg pre : List LogEv) (h : pre.filterMap tookRun = []) :
    runsOfSeg (seg ++ pre) = runsOfSeg seg := by
  unfold runsOfSeg
  rw [List.reverse_append, List.filterMap_append]
  have : pre.reverse.filterMap tookRun = [] := by
    rw [← List.reverse_nil, ← h, List.filterMap_reverse]
  rw [this, List.nil_append]

/-! ### the quiescence clauses of the checker -/

theorem checkQuiescent_ok (cfg : Cfg) (s : State) (st : St) (hp : Plain st) (hG : Good cfg s)
    (hE : EntriesOK st.entries s.log) (hnow : st.now = s.now)
    (hq1 : s.mode = .idle) (hq2 : s.tick = false) (hq3 : timerExpired s = false) :
    checkQuiescent st s.when_ = .ok () := by
  -- an entry with a pending due time is a queue item with that due time
  have key1 : ∀ e ∈ st.entries, ∀ d, e.due = some d → ∃ it ∈ s.queue, it.when = d := by
    intro e he d hd
    unfold Entry.due at hd
    cases hn : e.cron e.last with
    | none => simp [hn] at hd
    | some n =>
      simp [hn] at hd
      have hcur := hE.some e he
      have hin := hG.p e.id e.cron e.offset e.last n hcur hn
      obtain ⟨it, hit, hid⟩ := mem_ids_iff.mp hin
      obtain ⟨c, off, t, h1, h2, h3, h4⟩ := hG.l.c it hit
      rw [hid, hcur] at h1
      simp only [Option.some.injEq, Prod.mk.injEq] at h1
      obtain ⟨rfl, rfl, rfl⟩ := h1
      refine ⟨it, hit, ?_⟩
      rw [hn] at h4
      simp only [Option.some.injEq] at h4
      unfold Item.when
      rw [← h4, h3]
      exact hd
  -- timer / when facts at quiescence
  have key2 : ∀ w, s.when_ = some w → s.now < w ∧ ∀ it ∈ s.queue, w ≤ it.when := by
    intro w hw
    obtain ⟨d, hd, hle⟩ := hG.t.k3 hq1 hq2 w hw
    have hne : ¬ d ≤ s.now := by
      simp [timerExpired, hd] at hq3
      omega
    exact ⟨by omega, hG.t.k2 w hw⟩
  have key3 : ∀ it ∈ s.queue, s.now < it.when := by
    intro it hit
    have hne : s.queue ≠ [] := fun h => by simp [h] at hit
    have := hG.t.k4 hne
    cases hw : s.when_ with
    | none => simp [hw] at this
    | some w =>
      obtain ⟨h1, h2⟩ := key2 w hw
      have := h2 it hit
      omega
  unfold checkQuiescent
  simp only [hp.running, List.map_nil, List.contains_nil, Bool.not_false, Bool.true_and, List.isEmpty_nil,
    Bool.not_true, Bool.false_eq_true, if_false]
  split
  · next e heq =>
    exfalso
    have hpred := List.find?_some heq
    have hm := List.mem_of_find?_eq_some heq
    cases hd : e.due with
    | none => simp [hd] at hpred
    | some d =>
      obtain ⟨it, hit, hw⟩ := key1 e hm d hd
      have := key3 it hit
      simp [hd] at hpred
      omega
  cases hw : s.when_ with
  | none =>
    simp only []
    have : (st.entries.filterMap Entry.due).isEmpty = true := by
      rw [List.isEmpty_iff]
      apply List.eq_nil_iff_forall_not_mem.mpr
      intro d hd
      obtain ⟨e, he, hde⟩ := List.mem_filterMap.mp hd
      obtain ⟨it, hit, _⟩ := key1 e he d hde
      have hne : s.queue ≠ [] := fun h => by simp [h] at hit
      have := hG.t.k4 hne
      simp [hw] at this
    simp [this]
  | some w =>
    obtain ⟨h1, h2⟩ := key2 w hw
    simp only []
    have hA : ¬ w ≤ st.now := by omega
    have hB : (st.entries.filterMap Entry.due).any (fun d => decide (d < w)) = false := by
      rw [List.any_eq_false]
      intro d hd
      obtain ⟨e, he, hde⟩ := List.mem_filterMap.mp hd
      obtain ⟨it, hit, hwd⟩ := key1 e he d hde
      have := h2 it hit
      simp; omega
    simp [hA, hB]

/-! ### the simulation between the checker and the macro model (plain histories) -/

structure Rel (st : St) (m : M) : Prop where
  plain : Plain st
  mblocked : m.blocked = []
  now : st.now = m.s.now
  t : InvT m.s
  l : InvL m.s
  p : InvP m.s
  busy : m.s.busy = []
  idle : m.s.mode = .idle
  tick : m.s.tick = false
  timer : timerExpired m.s = false
  entries : EntriesOK st.entries m.s.log

theorem good_of_busy_nil (cfg : Cfg) {s : State} (ht : InvT s) (hl : InvL s) (hp : InvP s) (hb : s.busy = []) :
    Good cfg s := ⟨ht, ⟨by simp [hb], by simp [hb]⟩, hl, hp⟩

theorem rel_init : Rel {} {} :=
  { plain := ⟨rfl, rfl⟩, mblocked := rfl, now := rfl, t := invT_init, l := invL_init, p := invP_init,
    busy := rfl, idle := rfl, tick := rfl, timer := rfl,
    entries := { nodup := by simp [eids], some := by intro e he; simp at he,
                 none := by intro id _; rfl } }

/-- settle, then the checker's run and quiescence clauses, re-establishing the relation -/
theorem observe_ok (m : M) (hmb : m.blocked = []) (s1 : State) (pre L0 : List LogEv)
    (hlog : s1.log = pre ++ L0) (hpre : pre.filterMap tookRun = [])
    (hG : Good m.cfg s1) (st1 : St) (hp : Plain st1) (hE : EntriesOK st1.entries s1.log)
    (hnow : st1.now = s1.now) (res : Res)
    (hquiet : (observe m L0.length res s1).2.2 = true) :
    ∃ o, (observe m L0.length res s1).2.1 = .logic o ∧ o.res = res ∧ o.conc = false ∧ o.ckBad = false ∧
      ∃ st2, checkRuns st1 o.runs = .ok st2 ∧ checkQuiescent st2 o.when_ = .ok () ∧
        Rel st2 (observe m L0.length res s1).1 := by
  obtain ⟨hG', hnow', ⟨seg, hseg, hS⟩, hq⟩ := settle_spec m.cfg m.blocked macroFuel s1 hG
  have hqt : (settle true m.cfg m.blocked macroFuel s1).2 = .quiet := by
    simpa [observe] using hquiet
  obtain ⟨hq1, hq2, hq3, hq4⟩ := hq hqt
  have hlog' : (settle true m.cfg m.blocked macroFuel s1).1.log = (seg ++ pre) ++ L0 := by
    rw [hseg, hlog, List.append_assoc]
  have hruns : runsSince L0.length (settle true m.cfg m.blocked macroFuel s1).1 = runsOfSeg seg := by
    rw [runsSince_seg _ _ _ hlog', runsOfSeg_append_notook _ _ hpre]
  have hw : WellOrdered (seg ++ s1.log) := by rw [← hseg]; exact hG'.l.w
  obtain ⟨st2, hc, hE2, hn2, hnn2, hp2⟩ :=
    checkRuns_seg seg s1.log st1 hp (segLe_of_seg hS (by omega)) hw hE
  refine ⟨_, rfl, rfl, rfl, rfl, st2, ?_, ?_, ?_⟩
  · simp only [observe]; rw [hruns]; exact hc
  · simp only [observe]
    exact checkQuiescent_ok m.cfg _ st2 hp2 hG' (by rw [hseg]; exact hE2) (by rw [hn2, hnow, hnow']) hq1 hq2 hq3
  · exact { plain := hp2, mblocked := hmb, now := by simp only [observe]; rw [hn2, hnow, hnow'],
            t := hG'.t, l := hG'.l, p := hG'.p, busy := hq4 hmb, idle := hq1, tick := hq2, timer := hq3,
            entries := by simp only [observe]; rw [hseg]; exact hE2 }

theorem settle_quiescent (cfg : Cfg) (s : State) (hb : s.busy = []) (h1 : s.mode = .idle) (h2 : s.tick = false)
    (h3 : timerExpired s = false) (fuel : Nat) : settle true cfg [] (fuel + 1) s = (s, .quiet) := by
  have hf : finishFree [] s = s := by
    cases s
    simp only [finishFree] at *
    simp_all
  simp only [settle, hf, h3, h1, h2]
  simp


theorem plain_with (st : St) (hp : Plain st) (n : Nat) (now : Int) (es : List Entry) :
    Plain { st with n := n, now := now, entries := es } := ⟨hp.running, hp.blocked⟩

/-- one plain operation: the checker accepts what the model answers and the relation is kept -/
theorem step_ok (st : St) (m : M) (hR : Rel st m) (op : Op) (hplain : plainOp op = true)
    (hq : (stepOp m op).2.2 = true) :
    ∃ o, (stepOp m op).2.1 = .logic o ∧ o.conc = false ∧ o.ckBad = false ∧
      ∃ st1 st2, applyOp st op o.res = .ok st1 ∧ checkRuns st1 o.runs = .ok st2 ∧
        checkQuiescent st2 o.when_ = .ok () ∧ Rel st2 (stepOp m op).1 := by
  have hG0 : ∀ cfg, Good cfg m.s := fun cfg => good_of_busy_nil cfg hR.t hR.l hR.p hR.busy
  cases op with
  | new n =>
    simp only [stepOp] at hq ⊢
    obtain ⟨o, ho, hres, hc, hk, st2, h1, h2, h3⟩ :=
      observe_ok { m with created := true, cfg := { nworkers := n, hash := xxhash64ofID } } hR.mblocked m.s [] m.s.log
        rfl rfl (hG0 _) { st with n := n } ⟨hR.plain.running, hR.plain.blocked⟩ hR.entries hR.now .ok hq
    exact ⟨o, ho, hc, hk, { st with n := n }, st2, by simp [applyOp, hres], h1, h2, h3⟩
  | sched id isEvery p off last =>
    simp only [stepOp] at hq ⊢
    cases hs : schedule m.s id (cronOf isEvery p) off (if isEvery then alignEvery p last else last) with
    | none =>
      simp only [hs] at hq ⊢
      obtain ⟨o, ho, hres, hc, hk, st2, h1, h2, h3⟩ :=
        observe_ok m hR.mblocked m.s [] m.s.log rfl rfl (hG0 _) st hR.plain hR.entries hR.now .err hq
      exact ⟨o, ho, hc, hk, st, st2, by simp [applyOp, hres], h1, h2, h3⟩
    | some s1 =>
      simp only [hs] at hq ⊢
      obtain ⟨nt, hnt, hs1⟩ := schedule_some hs
      have hlog : s1.log = [LogEv.scheduled id (cronOf isEvery p) off (if isEvery then alignEvery p last else last)] ++ m.s.log := by
        rw [hs1]; rfl
      have hG1 : Good m.cfg s1 := by
        have := good_step m.cfg (hG0 m.cfg) (.schedule id (cronOf isEvery p) off (if isEvery then alignEvery p last else last))
        simpa [stepEv, hs] using this
      have hnow1 : s1.now = m.s.now := by
        rw [hs1]; exact (armFor_fields m.s _).1
      let e : Entry := { id := id, cron := cronOf isEvery p, offset := off,
                         last := (if isEvery then alignEvery p last else last) }
      have hE1 : EntriesOK (setEntry e st.entries) s1.log := by
        apply entriesOK_set e hR.entries
        · rw [hlog]; simp [cursor, e]
        · intro i hi
          rw [hlog]
          have : id ≠ i := fun h => hi (by simp [e, h])
          simp [cursor, this]
      obtain ⟨o, ho, hres, hc, hk, st2, h1, h2, h3⟩ :=
        observe_ok m hR.mblocked s1 _ m.s.log hlog rfl hG1 { st with entries := setEntry e st.entries }
          ⟨hR.plain.running, hR.plain.blocked⟩ hE1 (by rw [hnow1]; exact hR.now) _ hq
      exact ⟨o, ho, hc, hk, _, st2, by simp [applyOp, hres, e], h1, h2, h3⟩
  | rel id =>
    simp only [stepOp] at hq ⊢
    have hlog : (release m.s id).log = [LogEv.released id] ++ m.s.log := rfl
    have hG1 : Good m.cfg (release m.s id) := good_step m.cfg (hG0 m.cfg) (.release id)
    have hE1 : EntriesOK (dropEntry id st.entries) (release m.s id).log := by
      apply entriesOK_drop id hR.entries
      · rw [hlog]; simp [cursor]
      · intro i hi
        rw [hlog]
        have : id ≠ i := fun h => hi h.symm
        simp [cursor, this]
    obtain ⟨o, ho, hres, hc, hk, st2, h1, h2, h3⟩ :=
      observe_ok m hR.mblocked (release m.s id) _ m.s.log hlog rfl hG1 { st with entries := dropEntry id st.entries }
        ⟨hR.plain.running, hR.plain.blocked⟩ hE1 hR.now .ok hq
    exact ⟨o, ho, hc, hk, _, st2, by simp [applyOp, hres], h1, h2, h3⟩
  | adv d =>
    have hset : settle true m.cfg m.blocked macroFuel m.s = (m.s, .quiet) := by
      rw [hR.mblocked]
      exact settle_quiescent m.cfg m.s hR.busy hR.idle hR.tick hR.timer _
    simp only [stepOp, hset] at hq ⊢
    have hq' : (observe m m.s.log.length .ok { m.s with now := m.s.now + d }).2.2 = true := by
      simpa using hq
    have hG1 : Good m.cfg { m.s with now := m.s.now + d } := good_step m.cfg (hG0 m.cfg) (.advance d)
    obtain ⟨o, ho, hres, hc, hk, st2, h1, h2, h3⟩ :=
      observe_ok m hR.mblocked { m.s with now := m.s.now + d } [] m.s.log rfl rfl hG1 { st with now := st.now + d }
        ⟨hR.plain.running, hR.plain.blocked⟩ hR.entries (by simp [hR.now]) .ok hq'
    exact ⟨o, ho, hc, hk, _, st2, by simp [applyOp, hres], h1, h2, h3⟩
  | block id => simp [plainOp] at hplain
  | unblock id =>
    simp only [stepOp] at hq ⊢
    have hmb : ({ m with blocked := m.blocked.filter (· ≠ id) } : M).blocked = [] := by
      simp [hR.mblocked]
    obtain ⟨o, ho, hres, hc, hk, st2, h1, h2, h3⟩ :=
      observe_ok { m with blocked := m.blocked.filter (· ≠ id) } hmb m.s [] m.s.log rfl rfl (hG0 _)
        { st with blocked := st.blocked.filter (· ≠ id), running := st.running.filter (· ≠ id) }
        ⟨by simp [hR.plain.running], by simp [hR.plain.blocked]⟩ hR.entries hR.now .ok hq
    exact ⟨o, ho, hc, hk, _, st2, by simp [applyOp, hres], h1, h2, h3⟩
  | spin r a b => simp [plainOp] at hplain

theorem check_logic (st : St) (op : Op) (o : Obs) (rest : List (Op × Ans)) (hplain : plainOp op = true)
    (st1 st2 : St) (h1 : applyOp st op o.res = .ok st1) (h2 : checkRuns st1 o.runs = .ok st2)
    (hc : o.conc = false) (hk : o.ckBad = false) (h3 : checkQuiescent st2 o.when_ = .ok ()) :
    check st ((op, .logic o) :: rest) = check st2 rest := by
  cases op <;> first
    | (simp [plainOp] at hplain; done)
    | (simp [check, h1, h2, hc, hk, h3, bind, Except.bind, pure, Except.pure])

/-- the checker accepts the model's trace of every plain history whose settles all came to rest -/
theorem check_trace (ops : List Op) (st : St) (m : M) (hR : Rel st m)
    (hplain : ∀ op ∈ ops, plainOp op = true) (hq : allQuietFrom m ops = true) :
    check st (traceFrom m ops) = .ok () := by
  induction ops generalizing st m with
  | nil => simp [traceFrom, check]
  | cons op rest ih =>
    unfold traceFrom
    unfold allQuietFrom at hq
    by_cases hadm : admissible m.created op = true
    · simp only [hadm, if_true] at hq ⊢
      simp only [Bool.and_eq_true] at hq
      obtain ⟨o, ho, hc, hk, st1, st2, h1, h2, h3, hR'⟩ := step_ok st m hR op (hplain op (by simp)) hq.1
      rw [ho, check_logic st op o _ (hplain op (by simp)) st1 st2 h1 h2 hc hk h3]
      exact ih st2 _ hR' (fun o ho => hplain o (by simp [ho])) hq.2
    · simp only [hadm] at hq ⊢
      exact ih st m hR (fun o ho => hplain o (by simp [ho])) hq


end Influx.Lemmas.Sched
