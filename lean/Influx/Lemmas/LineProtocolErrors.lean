/-
  "The error names exactly the rejected lines" for the model: the error text built by
  `errorText` from the per-line results is accepted by `Spec.C12.namesRejected`.
-/
import Influx.Lemmas.LineProtocolTrace12

namespace Influx.LP
open Influx.Spec.C12

theorem stripPrefix_append (p s : Bytes) : stripPrefix p (p ++ s) = some s := by
  induction p with
  | nil => rfl
  | cons a p ih => simp [stripPrefix, ih]

/-- what follows the entries already consumed: nothing, or newline-separated entries -/
def errTail (first : Bool) (failed : List (Bytes × Err)) : Bytes :=
  match failed with
  | [] => []
  | _ :: _ => (if first then [] else [cNL]) ++ joinNL (failed.map fun f => errEntry f.1 f.2.msg)

theorem joinNL_cons (a : Bytes) (l : List Bytes) :
    joinNL (a :: l) = a ++ (match l with | [] => [] | _ :: _ => cNL :: joinNL l) := by
  cases l with
  | nil => simp [joinNL]
  | cons b r => simp [joinNL]

theorem errTail_cons (first : Bool) (c : Bytes) (e : Err) (fs : List (Bytes × Err)) :
    errTail first ((c, e) :: fs) =
      (if first then [] else [cNL]) ++ (errPrefix ++ c ++ errSep) ++ (e.msg ++ errTail false fs) := by
  cases fs with
  | nil => simp [errTail, joinNL, errEntry]
  | cons f fs' => simp [errTail, joinNL_cons, errEntry]

theorem errTail_boundary (fs : List (Bytes × Err)) :
    errTail false fs = [] ∨ ∃ r, errTail false fs = cNL :: (errPrefix ++ r) := by
  cases fs with
  | nil => left; rfl
  | cons f fs' =>
    right
    refine ⟨f.1 ++ errSep ++ (f.2.msg ++ errTail false fs'), ?_⟩
    rw [show f = (f.1, f.2) from rfl, errTail_cons]
    simp

theorem mem_boundarySuffixes (msg tail : Bytes)
    (h : tail = [] ∨ ∃ r, tail = cNL :: (errPrefix ++ r)) : tail ∈ boundarySuffixes (msg ++ tail) := by
  induction msg with
  | nil =>
    rcases h with rfl | ⟨r, rfl⟩
    · simp [boundarySuffixes]
    · simp [boundarySuffixes, stripPrefix_append]
  | cons b m ih =>
    simp only [List.cons_append, boundarySuffixes, List.mem_append]
    right; exact ih

def countOk : List (Bytes × Except Err Point) → Nat
  | [] => 0
  | (_, .ok _) :: rs => countOk rs + 1
  | (_, .error _) :: rs => countOk rs

theorem okPoints_length (rs : List (Bytes × Except Err Point)) : (okPoints rs).length = countOk rs := by
  induction rs with
  | nil => rfl
  | cons r rs ih =>
    obtain ⟨c, res⟩ := r
    cases res with
    | ok p => simp [okPoints, countOk] at ih ⊢; exact ih
    | error e => simp [okPoints, countOk] at ih ⊢; exact ih

theorem failedLines_cons_ok (c : Bytes) (p : Point) (rs) :
    failedLines ((c, .ok p) :: rs) = failedLines rs := by simp [failedLines]
theorem failedLines_cons_err (c : Bytes) (e : Err) (rs) :
    failedLines ((c, .error e) :: rs) = (c, e) :: failedLines rs := by simp [failedLines]

/-- the entries of the model's error text are exactly the rejected lines, in order -/
theorem namesRejected_model (rs : List (Bytes × Except Err Point)) (first : Bool) :
    namesRejected (rs.map (·.1)) (countOk rs) (errTail first (failedLines rs)) first = true := by
  induction rs generalizing first with
  | nil => simp [namesRejected, countOk, failedLines, errTail]
  | cons r rs ih =>
    obtain ⟨c, res⟩ := r
    cases res with
    | ok p =>
      simp only [List.map_cons, countOk, failedLines_cons_ok, namesRejected]
      simp [ih first]
    | error e =>
      simp only [List.map_cons, countOk, failedLines_cons_err, namesRejected, errTail_cons]
      have hstrip : (if first = true then some ((if first = true then [] else [cNL]) ++ (errPrefix ++ c ++ errSep) ++ (e.msg ++ errTail false (failedLines rs)))
          else stripPrefix [cNL] ((if first = true then [] else [cNL]) ++ (errPrefix ++ c ++ errSep) ++ (e.msg ++ errTail false (failedLines rs))))
          = some ((errPrefix ++ c ++ errSep) ++ (e.msg ++ errTail false (failedLines rs))) := by
        cases first with
        | true => simp
        | false => simp [stripPrefix]
      rw [hstrip]
      simp only [stripPrefix_append]
      apply Bool.or_eq_true_iff.mpr
      right
      apply List.any_eq_true.mpr
      exact ⟨errTail false (failedLines rs), mem_boundarySuffixes _ _ (errTail_boundary _), ih false⟩

theorem errorText_eq (failed : List (Bytes × Err)) :
    errorText failed = if failed.isEmpty then none else some (errTail true failed) := by
  unfold errorText
  cases failed with
  | nil => rfl
  | cons f fs => simp [errTail]

theorem errTail_ne_nil (f : Bytes × Err) (fs : List (Bytes × Err)) : errTail true (f :: fs) ≠ [] := by
  rw [show f = (f.1, f.2) from rfl, errTail_cons]
  simp [errPrefix, str]

end Influx.LP
