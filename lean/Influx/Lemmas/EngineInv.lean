/-
  Lemmas.EngineInv — the invariant of the snapshot protocol of the step model
  (C39) and what each kind of step does to the abstract content.
-/
import Influx.Lemmas.EngineSteps

namespace Influx.Conc

/-- the invariant of the snapshot protocol -/
structure Inv (s : St) : Prop where
  /-- no snapshot in flight: the snapshot store is empty -/
  idle : s.phase = .idle → s.snap = []
  /-- after Replace, everything in the snapshot store is also read from the files -/
  replaced : s.phase = .replaced → ∀ k t v, s.snap.get k t = some v → s.filesView k t = some v

theorem Inv_init : Inv St.init := ⟨fun _ => rfl, fun h => by simp [St.init] at h⟩

theorem get_nil (k : Key) (t : TS) : Store.get [] k t = none := rfl

/-- a write step sets its point and nothing else -/
theorem abs_write (s : St) (k : Key) (t : TS) (v : Val) (k' : Key) (t' : TS) :
    (step s (.wr k t v)).abs k' t' = if k' = k ∧ t' = t then some v else s.abs k' t' := by
  simp only [step, St.abs, St.cacheView, St.filesView]
  rw [Store.get_cons]
  by_cases h : k' = k ∧ t' = t
  · obtain ⟨rfl, rfl⟩ := h; simp
  · have : ((k == k') && (t == t')) = false := by
      cases h1 : k == k' <;> cases h2 : t == t' <;> simp_all
    simp [this, h]

theorem abs_snapBegin (s : St) (hi : Inv s) (k : Key) (t : TS) : (step s .snapBegin).abs k t = s.abs k t := by
  simp only [step]
  split
  · next hp =>
    simp [St.abs, St.cacheView, St.filesView, hi.idle hp, get_nil]
  · rfl

theorem abs_snapReplace (s : St) (k : Key) (t : TS) : (step s .snapReplace).abs k t = s.abs k t := by
  simp only [step]
  split
  · split
    · rfl
    · simp only [St.abs, St.cacheView, St.filesView]
      rw [filesGet_append]
      simp only [filesGet, Option.none_or, CFile.get, List.any_nil, Bool.false_eq_true, if_false]
      cases s.cache.get k t <;> cases s.snap.get k t <;> simp
  · rfl

theorem abs_snapClear (s : St) (hi : Inv s) (k : Key) (t : TS) : (step s .snapClear).abs k t = s.abs k t := by
  simp only [step]
  split
  · next hp =>
    simp only [St.abs, St.cacheView, St.filesView, get_nil, Option.or_none]
    cases hs : s.snap.get k t with
    | none => simp
    | some v =>
      have := hi.replaced hp k t v hs
      simp only [St.filesView] at this
      cases s.cache.get k t <;> simp [this]
  · rfl

theorem abs_compact (s : St) (n : Nat) (k : Key) (t : TS) : (step s (.compact n)).abs k t = s.abs k t := by
  simp only [step]
  split
  · rfl
  · simp only [St.abs, St.cacheView, St.filesView]
    rw [filesGet_compact]

/-- the maintenance steps: snapshot protocol and compaction commits -/
def maintenance : Step → Bool
  | .snapBegin | .snapReplace | .snapClear | .compact _ => true
  | _ => false

/-- no snapshot or compaction step changes what the shard abstractly contains -/
theorem maintenance_invisible (s : St) (hi : Inv s) (σ : Step) (hm : maintenance σ = true)
    (k : Key) (t : TS) : (step s σ).abs k t = s.abs k t := by
  cases σ with
  | snapBegin => exact abs_snapBegin s hi k t
  | snapReplace => exact abs_snapReplace s k t
  | snapClear => exact abs_snapClear s hi k t
  | compact n => exact abs_compact s n k t
  | wr => simp [maintenance] at hm
  | delFile => simp [maintenance] at hm
  | delCache => simp [maintenance] at hm

/-- a step is admissible in a state: deletes do not run between Replace and Clear
    (the engine does not guarantee this — it is C03's known window; the C39 harness
    and oracle keep deletes and snapshots apart) -/
def admissible (s : St) (σ : Step) : Bool :=
  !(σ.isDelete && s.phase == .replaced)

theorem Inv_step (s : St) (hi : Inv s) (σ : Step) (ha : admissible s σ = true) : Inv (step s σ) := by
  cases σ with
  | wr k t v =>
    exact ⟨hi.idle, fun hp k' t' v' h => hi.replaced hp k' t' v' h⟩
  | snapBegin =>
    simp only [step]
    split
    · exact ⟨fun h => by simp at h, fun h => by simp at h⟩
    · exact hi
  | snapReplace =>
    simp only [step]
    split
    · split
      · next hp he =>
        refine ⟨fun _ => by simpa using he, fun h => by simp at h⟩
      · refine ⟨fun h => by simp at h, ?_⟩
        intro _ k t v hs
        simp only [St.filesView]
        rw [filesGet_append]
        simp [filesGet, CFile.get, hs]
    · exact hi
  | snapClear =>
    simp only [step]
    split
    · exact ⟨fun _ => rfl, fun h => by simp at h⟩
    · exact hi
  | compact n =>
    simp only [step]
    split
    · exact hi
    · refine ⟨hi.idle, ?_⟩
      intro hp k t v hs
      have := hi.replaced hp k t v hs
      simp only [St.filesView] at this ⊢
      rw [filesGet_compact]; exact this
  | delFile i k lo hi' =>
    have hp : s.phase ≠ .replaced := by
      intro hc; simp [admissible, Step.isDelete, hc] at ha
    exact ⟨hi.idle, fun h => absurd h hp⟩
  | delCache k lo hi' =>
    have hp : s.phase ≠ .replaced := by
      intro hc; simp [admissible, Step.isDelete, hc] at ha
    exact ⟨hi.idle, fun h => absurd h hp⟩


end Influx.Conc
