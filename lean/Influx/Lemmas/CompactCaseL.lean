/-
  Lemmas.CompactCaseL — from the accepted operations of a case to the files the
  compaction reads (no range deletes): they satisfy `FilesOK`, and their per-key
  newest-wins content is `Spec.C04.expectedAt`.
-/
import Influx.Lemmas.CompactSpec

namespace Influx.Model.Compact
open Influx.Spec.C04

/-! ### the blocks of one (file, key), in op order -/

def ptsOf (f : Nat) (k : Key) (ops : List Op) : List (Pts Int) :=
  ops.filterMap fun op => match op with
    | Op.blk f' k' pts => if f' = f ∧ k' = k then some pts else none
    | _ => none

theorem ptsOf_append (f : Nat) (k : Key) (a b : List Op) : ptsOf f k (a ++ b) = ptsOf f k a ++ ptsOf f k b := by
  simp [ptsOf, List.filterMap_append]

/-- the blocks a key map holds for `k` -/
def getK (m : List (Key × List (Pts Int))) (k : Key) : List (Pts Int) :=
  (m.filter (fun e => decide (e.1 = k))).flatMap (·.2)

def KeysAsc (m : List (Key × List (Pts Int))) : Prop := m.Pairwise (fun a b => keyLt a.1 b.1 = true)

theorem addBlock_spec (k : Key) (b : Pts Int) :
    ∀ (m : List (Key × List (Pts Int))), KeysAsc m →
      KeysAsc (addBlock k b m) ∧
      (∀ e ∈ addBlock k b m, e.1 = k ∨ e ∈ m ∨ ∃ e' ∈ m, e'.1 = e.1) ∧
      (∀ k', getK (addBlock k b m) k' = getK m k' ++ (if k' = k then [b] else [])) ∧
      (∀ e ∈ addBlock k b m, e.2 ≠ [] ∨ ∃ e' ∈ m, e'.1 = e.1 ∧ e'.2 = [])
  | [], _ => by
    simp only [addBlock]
    refine ⟨List.pairwise_singleton _ _, by simp, ?_, by simp⟩
    intro k'
    by_cases h : k = k' <;> simp [getK, h, eq_comm]
  | (k0, bs) :: rest, hs => by
    have hp := List.pairwise_cons.mp hs
    unfold addBlock
    by_cases h1 : k = k0
    · subst h1
      rw [if_pos rfl]
      refine ⟨?_, ?_, ?_, ?_⟩
      · exact List.pairwise_cons.mpr ⟨hp.1, hp.2⟩
      · intro e he
        rcases List.mem_cons.mp he with rfl | h2
        · exact Or.inl rfl
        · exact Or.inr (Or.inl (List.mem_cons_of_mem _ h2))
      · intro k'
        by_cases h : k = k'
        · subst h
          have : getK rest k = [] := by
            simp only [getK, List.flatMap_eq_nil_iff]
            intro e he
            have hm := (List.mem_filter.mp he).1
            have hk := (List.mem_filter.mp he).2
            simp only [decide_eq_true_eq] at hk
            have := hp.1 e hm
            rw [hk, keyLt_irrefl] at this; cases this
          simp only [getK, List.filter_cons, decide_true, if_true, List.flatMap_cons] at this ⊢
          simp [this]
        · have h' : ¬ k' = k := fun hh => h hh.symm
          simp [getK, List.filter_cons, h, h']
      · intro e he
        rcases List.mem_cons.mp he with rfl | h2
        · left; simp
        · by_cases hne : e.2 = []
          · exact Or.inr ⟨e, List.mem_cons_of_mem _ h2, rfl, hne⟩
          · exact Or.inl hne
    · rw [if_neg h1]
      by_cases h2 : keyLt k k0 = true
      · rw [if_pos h2]
        refine ⟨?_, ?_, ?_, ?_⟩
        · refine List.pairwise_cons.mpr ⟨?_, hs⟩
          intro e he
          rcases List.mem_cons.mp he with rfl | h3
          · exact h2
          · exact keyLt_trans h2 (hp.1 e h3)
        · intro e he
          rcases List.mem_cons.mp he with rfl | h3
          · exact Or.inl rfl
          · exact Or.inr (Or.inl h3)
        · intro k'
          by_cases h : k = k'
          · subst h
            have : getK ((k0, bs) :: rest) k = [] := by
              simp only [getK, List.flatMap_eq_nil_iff]
              intro e he
              have hm := (List.mem_filter.mp he).1
              have hk := (List.mem_filter.mp he).2
              simp only [decide_eq_true_eq] at hk
              rcases List.mem_cons.mp hm with rfl | h3
              · exact absurd hk.symm h1
              · have := keyLt_trans h2 (hp.1 e h3)
                rw [hk, keyLt_irrefl] at this; cases this
            rw [this]
            simp [getK, List.filter_cons] at this ⊢
            exact this
          · have h' : ¬ k' = k := fun hh => h hh.symm
            simp [getK, List.filter_cons, h, h']
        · intro e he
          rcases List.mem_cons.mp he with rfl | h3
          · left; simp
          · by_cases hne : e.2 = []
            · exact Or.inr ⟨e, h3, rfl, hne⟩
            · exact Or.inl hne
      · rw [if_neg h2]
        obtain ⟨r1, r2, r3, r4⟩ := addBlock_spec k b rest hp.2
        have hlt : keyLt k0 k = true := by
          cases hx : keyLt k0 k with
          | true => rfl
          | false =>
            have h2' : keyLt k k0 = false := by simpa using h2
            exact absurd (keyLt_total h2' hx) h1
        refine ⟨?_, ?_, ?_, ?_⟩
        · refine List.pairwise_cons.mpr ⟨?_, r1⟩
          intro e he
          rcases r2 e he with h3 | h3 | ⟨e', he', hk'⟩
          · rw [h3]; exact hlt
          · exact hp.1 e h3
          · rw [← hk']; exact hp.1 e' he'
        · intro e he
          rcases List.mem_cons.mp he with rfl | h3
          · exact Or.inr (Or.inl (by simp))
          · rcases r2 e h3 with h4 | h4 | ⟨e', he', hk'⟩
            · exact Or.inl h4
            · exact Or.inr (Or.inl (List.mem_cons_of_mem _ h4))
            · exact Or.inr (Or.inr ⟨e', List.mem_cons_of_mem _ he', hk'⟩)
        · intro k'
          have := r3 k'
          simp only [getK, List.filter_cons] at this ⊢
          by_cases h : k0 = k'
          · simp [h, this]
          · simp [h, this]
        · intro e he
          rcases List.mem_cons.mp he with rfl | h3
          · by_cases hne : bs = []
            · exact Or.inr ⟨(k0, bs), by simp, rfl, hne⟩
            · exact Or.inl hne
          · rcases r4 e h3 with h4 | ⟨e', he', hk', hn'⟩
            · exact Or.inl h4
            · exact Or.inr ⟨e', List.mem_cons_of_mem _ he', hk', hn'⟩

/-- the key map of file `f` after folding `ops` into `acc` -/
def foldBlocks (f : Nat) (acc : List (Key × List (Pts Int))) (ops : List Op) : List (Key × List (Pts Int)) :=
  ops.foldl (fun acc op => match op with
    | Op.blk f' k pts => if f' = f then addBlock k pts acc else acc
    | _ => acc) acc

theorem fileBlocksL_eq (f : Nat) (ops : List Op) : fileBlocksL f ops = foldBlocks f [] ops := rfl

theorem foldBlocks_spec (f : Nat) :
    ∀ (ops : List Op) (acc : List (Key × List (Pts Int))), KeysAsc acc → (∀ e ∈ acc, e.2 ≠ []) →
      KeysAsc (foldBlocks f acc ops) ∧ (∀ e ∈ foldBlocks f acc ops, e.2 ≠ []) ∧
      (∀ k, getK (foldBlocks f acc ops) k = getK acc k ++ ptsOf f k ops)
  | [], acc, hs, hne => by simp [foldBlocks, ptsOf, hs, hne]
  | op :: ops, acc, hs, hne => by
    unfold foldBlocks
    simp only [List.foldl_cons]
    cases op with
    | blk f' k pts =>
      by_cases hf : f' = f
      · subst hf
        simp only [if_true]
        obtain ⟨a1, a2, a3, a4⟩ := addBlock_spec k pts acc hs
        have hne' : ∀ e ∈ addBlock k pts acc, e.2 ≠ [] := by
          intro e he
          rcases a4 e he with h | ⟨e', he', _, hn⟩
          · exact h
          · exact absurd hn (hne e' he')
        obtain ⟨r1, r2, r3⟩ := foldBlocks_spec f' ops (addBlock k pts acc) a1 hne'
        refine ⟨r1, r2, ?_⟩
        intro k'
        have := r3 k'
        unfold foldBlocks at this
        rw [this, a3 k']
        by_cases hk : k' = k
        · subst hk; simp [ptsOf]
        · have hk' : ¬ k = k' := fun h => hk h.symm
          simp [ptsOf, hk, hk']
      · simp only [hf, if_false]
        obtain ⟨r1, r2, r3⟩ := foldBlocks_spec f ops acc hs hne
        refine ⟨r1, r2, ?_⟩
        intro k'
        have := r3 k'
        unfold foldBlocks at this
        rw [this]
        simp [ptsOf, hf]
    | del _ _ _ _ =>
      obtain ⟨r1, r2, r3⟩ := foldBlocks_spec f ops acc hs hne
      exact ⟨r1, r2, fun k' => by have := r3 k'; unfold foldBlocks at this; rw [this]; simp [ptsOf]⟩
    | cw _ _ =>
      obtain ⟨r1, r2, r3⟩ := foldBlocks_spec f ops acc hs hne
      exact ⟨r1, r2, fun k' => by have := r3 k'; unfold foldBlocks at this; rw [this]; simp [ptsOf]⟩
    | compact _ _ _ =>
      obtain ⟨r1, r2, r3⟩ := foldBlocks_spec f ops acc hs hne
      exact ⟨r1, r2, fun k' => by have := r3 k'; unfold foldBlocks at this; rw [this]; simp [ptsOf]⟩
    | snap _ =>
      obtain ⟨r1, r2, r3⟩ := foldBlocks_spec f ops acc hs hne
      exact ⟨r1, r2, fun k' => by have := r3 k'; unfold foldBlocks at this; rw [this]; simp [ptsOf]⟩

/-! ### readers without deletes -/

def NoDel (ops : List Op) : Prop := ∀ op ∈ ops, ∀ f keys lo hi, op ≠ Op.del f keys lo hi

/-- the block the iterator sees for a run of points (no tombstones) -/
def mkB (b : Pts Int) : Block Int :=
  { minTime := ptsFirst b, maxTime := ptsLast b, pts := b, tombstones := [] }

theorem runs_mkRFile (blocks : List (Key × List (Pts Int))) :
    (mkRFile blocks).runs = blocks.map fun kb => (kb.1, kb.2.map mkB) := by
  unfold RFile.runs mkRFile
  simp only
  induction blocks with
  | nil => rfl
  | cons kb rest ih =>
    obtain ⟨k, bs⟩ := kb
    simp only [List.map_cons, List.filterMap_cons, List.find?_cons, decide_true]
    simp only [List.filterMap_eq_map_iff_forall_eq_some] at ih ⊢
    sorry

end Influx.Model.Compact
