/-
  Lemmas.CompactCaseL — from the accepted operations of a case to the files the
  compaction reads (no range deletes): they satisfy `FilesOK`, and their per-key
  newest-wins content is `Spec.C04.expectedAt`.
-/
import Influx.Lemmas.CompactSpec

namespace Influx.Model.Compact
open Influx.Spec.C04

/-! ### the blocks of one (file, key), in op order -/

def ptsOf (f : Nat) (k : Key) (ops : List Op) : List (Pts Int) :=
  ops.filterMap fun op => match op with
    | Op.blk f' k' pts => if f' = f ∧ k' = k then some pts else none
    | _ => none

theorem ptsOf_append (f : Nat) (k : Key) (a b : List Op) : ptsOf f k (a ++ b) = ptsOf f k a ++ ptsOf f k b := by
  simp [ptsOf, List.filterMap_append]

/-- the blocks a key map holds for `k` -/
def getK (m : List (Key × List (Pts Int))) (k : Key) : List (Pts Int) :=
  (m.filter (fun e => decide (e.1 = k))).flatMap (·.2)

def KeysAsc (m : List (Key × List (Pts Int))) : Prop := m.Pairwise (fun a b => keyLt a.1 b.1 = true)

theorem addBlock_spec (k : Key) (b : Pts Int) :
    ∀ (m : List (Key × List (Pts Int))), KeysAsc m →
      KeysAsc (addBlock k b m) ∧
      (∀ e ∈ addBlock k b m, e.1 = k ∨ e ∈ m ∨ ∃ e' ∈ m, e'.1 = e.1) ∧
      (∀ k', getK (addBlock k b m) k' = getK m k' ++ (if k' = k then [b] else [])) ∧
      (∀ e ∈ addBlock k b m, e.2 ≠ [] ∨ ∃ e' ∈ m, e'.1 = e.1 ∧ e'.2 = [])
  | [], _ => by
    simp only [addBlock]
    refine ⟨List.pairwise_singleton _ _, by simp, ?_, by simp⟩
    intro k'
    by_cases h : k = k' <;> simp [getK, h, eq_comm]
  | (k0, bs) :: rest, hs => by
    have hp := List.pairwise_cons.mp hs
    unfold addBlock
    by_cases h1 : k = k0
    · subst h1
      rw [if_pos rfl]
      refine ⟨?_, ?_, ?_, ?_⟩
      · exact List.pairwise_cons.mpr ⟨hp.1, hp.2⟩
      · intro e he
        rcases List.mem_cons.mp he with rfl | h2
        · exact Or.inl rfl
        · exact Or.inr (Or.inl (List.mem_cons_of_mem _ h2))
      · intro k'
        by_cases h : k = k'
        · subst h
          have : getK rest k = [] := by
            simp only [getK, List.flatMap_eq_nil_iff]
            intro e he
            have hm := (List.mem_filter.mp he).1
            have hk := (List.mem_filter.mp he).2
            simp only [decide_eq_true_eq] at hk
            have := hp.1 e hm
            rw [hk, keyLt_irrefl] at this; cases this
          simp only [getK, List.filter_cons, decide_true, if_true, List.flatMap_cons] at this ⊢
          simp [this]
        · have h' : ¬ k' = k := fun hh => h hh.symm
          simp [getK, List.filter_cons, h, h']
      · intro e he
        rcases List.mem_cons.mp he with rfl | h2
        · left; simp
        · by_cases hne : e.2 = []
          · exact Or.inr ⟨e, List.mem_cons_of_mem _ h2, rfl, hne⟩
          · exact Or.inl hne
    · rw [if_neg h1]
      by_cases h2 : keyLt k k0 = true
      · rw [if_pos h2]
        refine ⟨?_, ?_, ?_, ?_⟩
        · refine List.pairwise_cons.mpr ⟨?_, hs⟩
          intro e he
          rcases List.mem_cons.mp he with rfl | h3
          · exact h2
          · exact keyLt_trans h2 (hp.1 e h3)
        · intro e he
          rcases List.mem_cons.mp he with rfl | h3
          · exact Or.inl rfl
          · exact Or.inr (Or.inl h3)
        · intro k'
          by_cases h : k = k'
          · subst h
            have : getK ((k0, bs) :: rest) k = [] := by
              simp only [getK, List.flatMap_eq_nil_iff]
              intro e he
              have hm := (List.mem_filter.mp he).1
              have hk := (List.mem_filter.mp he).2
              simp only [decide_eq_true_eq] at hk
              rcases List.mem_cons.mp hm with rfl | h3
              · exact absurd hk.symm h1
              · have := keyLt_trans h2 (hp.1 e h3)
                rw [hk, keyLt_irrefl] at this; cases this
            rw [this]
            simp [getK, List.filter_cons] at this ⊢
            exact this
          · have h' : ¬ k' = k := fun hh => h hh.symm
            simp [getK, List.filter_cons, h, h']
        · intro e he
          rcases List.mem_cons.mp he with rfl | h3
          · left; simp
          · by_cases hne : e.2 = []
            · exact Or.inr ⟨e, h3, rfl, hne⟩
            · exact Or.inl hne
      · rw [if_neg h2]
        obtain ⟨r1, r2, r3, r4⟩ := addBlock_spec k b rest hp.2
        have hlt : keyLt k0 k = true := by
          cases hx : keyLt k0 k with
          | true => rfl
          | false =>
            have h2' : keyLt k k0 = false := by simpa using h2
            exact absurd (keyLt_total h2' hx) h1
        refine ⟨?_, ?_, ?_, ?_⟩
        · refine List.pairwise_cons.mpr ⟨?_, r1⟩
          intro e he
          rcases r2 e he with h3 | h3 | ⟨e', he', hk'⟩
          · rw [h3]; exact hlt
          · exact hp.1 e h3
          · rw [← hk']; exact hp.1 e' he'
        · intro e he
          rcases List.mem_cons.mp he with rfl | h3
          · exact Or.inr (Or.inl (by simp))
          · rcases r2 e h3 with h4 | h4 | ⟨e', he', hk'⟩
            · exact Or.inl h4
            · exact Or.inr (Or.inl (List.mem_cons_of_mem _ h4))
            · exact Or.inr (Or.inr ⟨e', List.mem_cons_of_mem _ he', hk'⟩)
        · intro k'
          have := r3 k'
          simp only [getK, List.filter_cons] at this ⊢
          by_cases h : k0 = k'
          · simp [h, this]
          · simp [h, this]
        · intro e he
          rcases List.mem_cons.mp he with rfl | h3
          · by_cases hne : bs = []
            · exact Or.inr ⟨(k0, bs), by simp, rfl, hne⟩
            · exact Or.inl hne
          · rcases r4 e h3 with h4 | ⟨e', he', hk', hn'⟩
            · exact Or.inl h4
            · exact Or.inr ⟨e', List.mem_cons_of_mem _ he', hk', hn'⟩

/-- the key map of file `f` after folding `ops` into `acc` -/
def foldBlocks (f : Nat) (acc : List (Key × List (Pts Int))) (ops : List Op) : List (Key × List (Pts Int)) :=
  ops.foldl (fun acc op => match op with
    | Op.blk f' k pts => if f' = f then addBlock k pts acc else acc
    | _ => acc) acc

theorem fileBlocksL_eq (f : Nat) (ops : List Op) : fileBlocksL f ops = foldBlocks f [] ops := rfl

theorem foldBlocks_spec (f : Nat) :
    ∀ (ops : List Op) (acc : List (Key × List (Pts Int))), KeysAsc acc → (∀ e ∈ acc, e.2 ≠ []) →
      KeysAsc (foldBlocks f acc ops) ∧ (∀ e ∈ foldBlocks f acc ops, e.2 ≠ []) ∧
      (∀ k, getK (foldBlocks f acc ops) k = getK acc k ++ ptsOf f k ops)
  | [], acc, hs, hne => ⟨hs, hne, fun k => by simp [foldBlocks, ptsOf]⟩
  | op :: ops, acc, hs, hne => by
    unfold foldBlocks
    simp only [List.foldl_cons]
    cases op with
    | blk f' k pts =>
      by_cases hf : f' = f
      · subst hf
        simp only [if_true]
        obtain ⟨a1, a2, a3, a4⟩ := addBlock_spec k pts acc hs
        have hne' : ∀ e ∈ addBlock k pts acc, e.2 ≠ [] := by
          intro e he
          rcases a4 e he with h | ⟨e', he', _, hn⟩
          · exact h
          · exact absurd hn (hne e' he')
        obtain ⟨r1, r2, r3⟩ := foldBlocks_spec f' ops (addBlock k pts acc) a1 hne'
        refine ⟨r1, r2, ?_⟩
        intro k'
        have := r3 k'
        unfold foldBlocks at this
        rw [this, a3 k']
        by_cases hk : k' = k
        · subst hk; simp [ptsOf]
        · have hk' : ¬ k = k' := fun h => hk h.symm
          simp [ptsOf, hk, hk']
      · simp only [hf, if_false]
        obtain ⟨r1, r2, r3⟩ := foldBlocks_spec f ops acc hs hne
        refine ⟨r1, r2, ?_⟩
        intro k'
        have := r3 k'
        unfold foldBlocks at this
        rw [this]
        simp [ptsOf, hf]
    | del _ _ _ _ =>
      obtain ⟨r1, r2, r3⟩ := foldBlocks_spec f ops acc hs hne
      exact ⟨r1, r2, fun k' => by have := r3 k'; unfold foldBlocks at this; rw [this]; simp [ptsOf]⟩
    | cw _ _ =>
      obtain ⟨r1, r2, r3⟩ := foldBlocks_spec f ops acc hs hne
      exact ⟨r1, r2, fun k' => by have := r3 k'; unfold foldBlocks at this; rw [this]; simp [ptsOf]⟩
    | compact _ _ _ =>
      obtain ⟨r1, r2, r3⟩ := foldBlocks_spec f ops acc hs hne
      exact ⟨r1, r2, fun k' => by have := r3 k'; unfold foldBlocks at this; rw [this]; simp [ptsOf]⟩
    | snap _ =>
      obtain ⟨r1, r2, r3⟩ := foldBlocks_spec f ops acc hs hne
      exact ⟨r1, r2, fun k' => by have := r3 k'; unfold foldBlocks at this; rw [this]; simp [ptsOf]⟩

/-! ### readers without deletes -/

def NoDel (ops : List Op) : Prop := ∀ op ∈ ops, ∀ f keys lo hi, op ≠ Op.del f keys lo hi

/-- the block the iterator sees for a run of points (no tombstones) -/
def mkB (b : Pts Int) : Block Int :=
  { minTime := ptsFirst b, maxTime := ptsLast b, pts := b, tombstones := [] }

theorem find_index_mk (blocks : List (Key × List (Pts Int))) (k : Key) (hk : ∃ kb ∈ blocks, kb.1 = k) :
    (blocks.map fun kb => (kb.1, (some [] : Option (List (Int × Int))))).find? (fun e => decide (e.1 = k)) =
      some (k, some []) := by
  induction blocks with
  | nil => obtain ⟨kb, h, _⟩ := hk; simp at h
  | cons x rest ih =>
    simp only [List.map_cons, List.find?_cons]
    by_cases hx : x.1 = k
    · simp [hx]
    · simp only [hx, decide_false]
      apply ih
      obtain ⟨kb, h, h2⟩ := hk
      rcases List.mem_cons.mp h with rfl | h3
      · exact absurd h2 hx
      · exact ⟨kb, h3, h2⟩

theorem runs_mkRFile (blocks : List (Key × List (Pts Int))) :
    (mkRFile blocks).runs = blocks.map fun kb => (kb.1, kb.2.map mkB) := by
  unfold RFile.runs mkRFile
  simp only
  have : ∀ (sub : List (Key × List (Pts Int))), (∀ kb ∈ sub, kb ∈ blocks) →
      sub.filterMap (fun x => match x with
        | (k, bs) => match (blocks.map fun kb => (kb.1, (some [] : Option (List (Int × Int))))).find? (fun e => decide (e.1 = k)) with
          | some (_, some tombs) => some (k, bs.map fun b =>
              ({ minTime := ptsFirst b, maxTime := ptsLast b, pts := b, tombstones := tombs } : Block Int))
          | _ => none) = sub.map fun kb => (kb.1, kb.2.map mkB) := by
    intro sub
    induction sub with
    | nil => intro _; rfl
    | cons kb rest ih =>
      intro hsub
      obtain ⟨k, bs⟩ := kb
      have hf := find_index_mk blocks k ⟨(k, bs), hsub _ (by simp), rfl⟩
      simp only [List.filterMap_cons, hf, List.map_cons]
      rw [ih (fun x hx => hsub x (List.mem_cons_of_mem _ hx))]
      rfl
  exact this blocks (fun _ h => h)


/-! ### validity of the accepted operations -/

/-- `ops` (oldest first) were accepted one after the other by `step` starting from `pre` -/
def ValidFrom : List Op → List Op → Prop
  | _, [] => True
  | pre, op :: rest =>
    (match op with
      | Op.blk f k pts => blkOK pre.reverse f k pts = true
      | Op.del f keys _ _ => delOK f keys = true
      | _ => True) ∧ ValidFrom (pre ++ [op]) rest

/-- blocks of one (file, key): non-empty, ascending, storable times, each starting after the previous one ended -/
def ChainOK : List (Pts Int) → Prop
  | [] => True
  | b :: rest => b ≠ [] ∧ Asc b ∧ (∀ p ∈ b, InR p.1) ∧ (∀ c ∈ rest, ∀ p ∈ b, ∀ q ∈ c, p.1 < q.1) ∧ ChainOK rest

theorem strictAsc_iff (l : Pts Int) : strictAsc l = true ↔ Asc l := by
  induction l with
  | nil => simp [strictAsc, asc_nil]
  | cons p l ih =>
    cases l with
    | nil => simp [strictAsc, Asc]
    | cons q rest =>
      simp only [strictAsc, Bool.and_eq_true, decide_eq_true_eq, ih]
      rw [asc_cons (p := p)]
      constructor
      · rintro ⟨h1, h2⟩
        refine ⟨?_, h2⟩
        intro x hx
        rcases List.mem_cons.mp hx with rfl | hx2
        · exact h1
        · have := (asc_cons.mp h2).1 x hx2; omega
      · rintro ⟨h1, h2⟩
        exact ⟨h1 q (by simp), h2⟩

theorem timeOK_inR {t : Int} (h : timeOK t = true) : InR t := by
  unfold timeOK at h
  rcases (Bool.and_eq_true _ _).mp h with ⟨h1, h2⟩
  have h1' := of_decide_eq_true h1
  have h2' := of_decide_eq_true h2
  unfold minInt64 at h1'
  unfold maxInt64 at h2'
  unfold InR minInt64 maxInt64
  omega

theorem lastTime_newest (f : Nat) (k : Key) : ∀ (s : List Op),
    lastTime f k s = ((ptsOf f k s).head?).bind (fun b => b.getLast?.map (·.1))
  | [] => rfl
  | op :: s => by
    cases op with
    | blk f' k' pts =>
      by_cases h : f' = f ∧ k' = k
      · simp [lastTime, ptsOf, h]
      · have ih := lastTime_newest f k s
        simp only [lastTime, h, if_false, ih, ptsOf, List.filterMap_cons]
    | del _ _ _ _ => simpa [lastTime, ptsOf] using lastTime_newest f k s
    | cw _ _ => simpa [lastTime, ptsOf] using lastTime_newest f k s
    | compact _ _ _ => simpa [lastTime, ptsOf] using lastTime_newest f k s
    | snap _ => simpa [lastTime, ptsOf] using lastTime_newest f k s

/-- `lastTime` finds the last timestamp of the newest block of (file, key) -/
theorem lastTime_spec (f : Nat) (k : Key) (pre : List Op) :
    lastTime f k pre.reverse = ((ptsOf f k pre).getLast?).bind (fun b => b.getLast?.map (·.1)) := by
  rw [lastTime_newest]
  have : ptsOf f k pre.reverse = (ptsOf f k pre).reverse := by simp [ptsOf, List.filterMap_reverse]
  rw [this, List.head?_reverse]

theorem chain_mem_ne : ∀ (L : List (Pts Int)), ChainOK L → ∀ c ∈ L, c ≠ []
  | [], _, _, h => by simp at h
  | b :: L, hc, c, hm => by
    rcases List.mem_cons.mp hm with rfl | h2
    · exact hc.1
    · exact chain_mem_ne L hc.2.2.2.2 c h2

/-- appending a block that starts after everything before keeps the chain -/
theorem chainOK_snoc : ∀ (L : List (Pts Int)) (b : Pts Int), ChainOK L → b ≠ [] → Asc b → (∀ p ∈ b, InR p.1) →
    (∀ c ∈ L, ∀ p ∈ c, ∀ q ∈ b, p.1 < q.1) → ChainOK (L ++ [b])
  | [], b, _, h1, h2, h3, _ => ⟨h1, h2, h3, by simp, trivial⟩
  | c :: L, b, hc, h1, h2, h3, h4 => by
    obtain ⟨c1, c2, c3, c4, c5⟩ := hc
    refine ⟨c1, c2, c3, ?_, chainOK_snoc L b c5 h1 h2 h3 (fun x hx => h4 x (List.mem_cons_of_mem _ hx))⟩
    intro x hx p hp q hq
    rcases List.mem_append.mp hx with h | h
    · exact c4 x h p hp q hq
    · simp at h; subst h; exact h4 c (by simp) p hp q hq

/-- in a chain, everything lies before the last timestamp of the last block, or in it -/
theorem chain_le_last : ∀ (L : List (Pts Int)), ChainOK L → ∀ lb, L.getLast? = some lb → ∀ z, lb.getLast? = some z →
    ∀ c ∈ L, ∀ p ∈ c, p.1 ≤ z.1
  | [], _, lb, h, _, _, _, _, _, _ => by simp at h
  | [b], hc, lb, h, z, hz, c, hcm, p, hp => by
    simp at h; subst h
    simp at hcm; subst hcm
    exact asc_le_last hc.2.1 hz p hp
  | b :: b2 :: L, hc, lb, h, z, hz, c, hcm, p, hp => by
    have h' : (b2 :: L).getLast? = some lb := by simpa [List.getLast?_cons_cons] using h
    rcases List.mem_cons.mp hcm with rfl | hcm2
    · have hlbm : lb ∈ b2 :: L := List.mem_of_getLast? h'
      have := hc.2.2.2.1 lb hlbm p hp z (List.mem_of_getLast? hz)
      omega
    · exact chain_le_last (b2 :: L) hc.2.2.2.2 lb h' z hz c hcm2 p hp

theorem valid_chain (f : Nat) (k : Key) : ∀ (ops pre : List Op), ValidFrom pre ops → ChainOK (ptsOf f k pre) →
    ChainOK (ptsOf f k (pre ++ ops))
  | [], pre, _, hc => by simpa using hc
  | op :: rest, pre, hv, hc => by
    obtain ⟨h1, h2⟩ := hv
    have : pre ++ op :: rest = (pre ++ [op]) ++ rest := by simp
    rw [this]
    apply valid_chain f k rest (pre ++ [op]) h2
    rw [ptsOf_append]
    cases op with
    | blk f' k' pts =>
      by_cases h : f' = f ∧ k' = k
      · obtain ⟨rfl, rfl⟩ := h
        have e : ptsOf f' k' [Op.blk f' k' pts] = [pts] := by simp [ptsOf]
        rw [e]
        simp only [blkOK, Bool.and_eq_true, decide_eq_true_eq] at h1
        obtain ⟨⟨⟨⟨⟨_, _⟩, hlen⟩, hasc⟩, hpts⟩, hlast⟩ := h1
        have hne : pts ≠ [] := List.length_pos_iff.mp hlen
        have hA : Asc pts := (strictAsc_iff pts).mp hasc
        have hR : ∀ p ∈ pts, InR p.1 := by
          intro p hp
          simp only [ptsOK, List.all_eq_true, Bool.and_eq_true] at hpts
          exact timeOK_inR (hpts p hp).1
        apply chainOK_snoc _ _ hc hne hA hR
        intro c hcm p hp q hq
        rw [lastTime_spec] at hlast
        cases hgl : (ptsOf f' k' pre).getLast? with
        | none =>
          have : ptsOf f' k' pre = [] := List.getLast?_eq_none_iff.mp hgl
          rw [this] at hcm; simp at hcm
        | some lb =>
          have hlbne : lb ≠ [] := chain_mem_ne _ hc lb (List.mem_of_getLast? hgl)
          obtain ⟨z, hz⟩ : ∃ z, lb.getLast? = some z := ⟨_, List.getLast?_eq_some_getLast hlbne⟩
          obtain ⟨a, ha⟩ : ∃ a, pts.head? = some a := by
            cases pts with
            | nil => exact absurd rfl hne
            | cons x xs => exact ⟨x, rfl⟩
          simp only [hgl, Option.bind_some, hz, Option.map_some, ha, decide_eq_true_eq] at hlast
          have h1 := chain_le_last _ hc lb hgl z hz c hcm p hp
          have h2 := asc_head_le hA ha q hq
          omega
      · have e : ptsOf f k [Op.blk f' k' pts] = [] := by simp [ptsOf, h]
        rw [e, List.append_nil]; exact hc
    | del _ _ _ _ => simpa [ptsOf] using hc
    | cw _ _ => simpa [ptsOf] using hc
    | compact _ _ _ => simpa [ptsOf] using hc
    | snap _ => simpa [ptsOf] using hc

theorem valid_blk_facts : ∀ (ops pre : List Op), ValidFrom pre ops → ∀ f k pts, Op.blk f k pts ∈ ops →
    f < 64 ∧ k ≠ []
  | [], _, _, _, _, _, h => by simp at h
  | op :: rest, pre, hv, f, k, pts, h => by
    rcases List.mem_cons.mp h with rfl | h2
    · have := hv.1
      simp only [blkOK, Bool.and_eq_true, decide_eq_true_eq, keyOK] at this
      obtain ⟨⟨⟨⟨⟨hf, ⟨⟨hk, _⟩, _⟩⟩, _⟩, _⟩, _⟩, _⟩ := this
      exact ⟨hf, List.length_pos_iff.mp hk⟩
    · exact valid_blk_facts rest _ hv.2 f k pts h2


/-! ### the content of the files, as the statement sees it -/

/-- the value a chain of blocks holds at `t` (later block first) -/
def lastAt : List (Pts Int) → Int → Option Int
  | [], _ => none
  | b :: L, t => (lastAt L t).or (lookup b t)

theorem lastAt_some_mem : ∀ {L : List (Pts Int)} {t v : Int}, lastAt L t = some v → ∃ b ∈ L, (t, v) ∈ b
  | [], _, _, h => by simp [lastAt] at h
  | b :: L, t, v, h => by
    simp only [lastAt] at h
    cases hl : lastAt L t with
    | some w =>
      rw [hl] at h; simp at h; subst h
      obtain ⟨c, hc, hc'⟩ := lastAt_some_mem hl
      exact ⟨c, List.mem_cons_of_mem _ hc, hc'⟩
    | none =>
      rw [hl] at h; simp at h
      exact ⟨b, by simp, lookup_some_mem h⟩

theorem lastAt_of_mem : ∀ {L : List (Pts Int)}, ChainOK L → ∀ {b : Pts Int} {t v : Int}, b ∈ L → (t, v) ∈ b →
    lastAt L t = some v
  | [], _, _, _, _, h, _ => by simp at h
  | c :: L, hc, b, t, v, hb, hm => by
    simp only [lastAt]
    rcases List.mem_cons.mp hb with rfl | hb2
    · have : lastAt L t = none := by
        cases hl : lastAt L t with
        | none => rfl
        | some w =>
          obtain ⟨d, hd, hd'⟩ := lastAt_some_mem hl
          have := hc.2.2.2.1 d hd (t, v) hm (t, w) hd'
          simp at this
      rw [this]
      simpa using lookup_of_mem_asc hc.2.1 hm
    · rw [lastAt_of_mem hc.2.2.2.2 hb2 hm]; rfl

theorem live_mkB {b : Pts Int} (h : ∀ p ∈ b, InR p.1) : live (mkB b) = b := by
  unfold live unread mkB
  simp only [applyTombs, List.foldl_nil, vExclude]
  apply List.filter_eq_self.mpr
  intro p hp
  have := h p hp
  unfold InR at this
  simp only [Bool.not_eq_true', Bool.and_eq_false_iff, decide_eq_false_iff_not]
  left; omega

theorem restAt_mkB : ∀ (L : List (Pts Int)), ChainOK L → ∀ t, restAt (L.map mkB) t = lastAt L t
  | [], _, _ => rfl
  | b :: L, hc, t => by
    simp only [List.map_cons, restAt, lastAt, restAt_mkB L hc.2.2.2.2 t, live_mkB hc.2.2.1]

theorem fresh_mkB {b : Pts Int} (hne : b ≠ []) (hasc : Asc b) (hin : ∀ p ∈ b, InR p.1) : Fresh (mkB b) := by
  obtain ⟨a, z, ha, hz⟩ := head_getLast_of_ne hne
  refine ⟨⟨hasc, ⟨a, ha, ?_⟩, ⟨z, hz, ?_⟩, hin⟩, rfl, rfl⟩
  · simp [mkB, ptsFirst, ha]
  · simp [mkB, ptsLast, hz]

theorem chain_mem_facts : ∀ (L : List (Pts Int)), ChainOK L → ∀ c ∈ L, c ≠ [] ∧ Asc c ∧ ∀ p ∈ c, InR p.1
  | [], _, _, h => by simp at h
  | b :: L, hc, c, hm => by
    rcases List.mem_cons.mp hm with rfl | h2
    · exact ⟨hc.1, hc.2.1, hc.2.2.1⟩
    · exact chain_mem_facts L hc.2.2.2.2 c h2

/-! ### the files of a case without deletes -/

theorem mem_fileIds {ops : List Op} {f : Nat} :
    f ∈ fileIds ops ↔ f < 64 ∧ ∃ k pts, Op.blk f k pts ∈ ops := by
  simp only [fileIds, List.mem_filter, List.mem_range, List.any_eq_true]
  constructor
  · rintro ⟨h1, op, hop, h2⟩
    refine ⟨h1, ?_⟩
    cases op with
    | blk f' k pts => simp only [decide_eq_true_eq] at h2; subst h2; exact ⟨k, pts, hop⟩
    | _ => simp at h2
  · rintro ⟨h1, k, pts, h2⟩
    exact ⟨h1, _, h2, by simp⟩

theorem fileIds_asc (ops : List Op) : (fileIds ops).Pairwise (· < ·) :=
  List.Pairwise.sublist List.filter_sublist List.pairwise_lt_range

theorem readers_noDel (ops : List Op) (h : NoDel ops) :
    readers ops = (fileIds ops).map fun f => mkRFile (fileBlocksL f ops) := by
  unfold readers
  apply List.map_congr_left
  intro f _
  generalize mkRFile (fileBlocksL f ops) = rf0
  have : ∀ (l : List Op) (rf : RFile), (∀ op ∈ l, ∀ f keys lo hi, op ≠ Op.del f keys lo hi) →
      l.foldl (fun rf op => match op with
        | Op.del f' keys lo hi => if f' = f then rf.deleteRange keys lo hi else rf
        | _ => rf) rf = rf := by
    intro l
    induction l with
    | nil => intro rf _; rfl
    | cons op l ih =>
      intro rf hl
      simp only [List.foldl_cons]
      cases op with
      | del f' keys lo hi => exact absurd rfl (hl _ (by simp) f' keys lo hi)
      | _ => exact ih rf (fun o ho => hl o (List.mem_cons_of_mem _ ho))
  exact this ops rf0 h

/-- the runs the compaction reads -/
def runsOf' (ops : List Op) : List (FileRuns Int) := (readers ops).map RFile.runs

theorem runs_noDel (ops : List Op) (h : NoDel ops) :
    runsOf' ops = (fileIds ops).map fun f => (fileBlocksL f ops).map fun kb => (kb.1, kb.2.map mkB) := by
  unfold runsOf'
  rw [readers_noDel ops h, List.map_map]
  apply List.map_congr_left
  intro f _
  simp [runs_mkRFile]

theorem flatMap_congr' {α β : Type} {f g : α → List β} : ∀ (l : List α), (∀ x ∈ l, f x = g x) →
    l.flatMap f = l.flatMap g
  | [], _ => rfl
  | x :: xs, h => by
    simp only [List.flatMap_cons, h x (by simp), flatMap_congr' xs (fun y hy => h y (List.mem_cons_of_mem _ hy))]

theorem blocksFor_noDel (ops : List Op) (h : NoDel ops) (k : Key) :
    blocksFor (runsOf' ops) k = (fileIds ops).flatMap fun f => (ptsOf f k ops).map mkB := by
  rw [runs_noDel ops h]
  unfold blocksFor
  rw [List.flatMap_map]
  apply flatMap_congr'
  intro f _
  have hs := (foldBlocks_spec f ops [] List.Pairwise.nil (by simp)).2.2 k
  rw [← fileBlocksL_eq] at hs
  simp only [getK, List.filter_nil, List.flatMap_nil, List.nil_append] at hs
  rw [← hs]
  generalize fileBlocksL f ops = m
  induction m with
  | nil => rfl
  | cons e m ih =>
    by_cases he : e.1 = k
    · simp [List.filter_cons, he, ih]
    · simp [List.filter_cons, he, ih]

theorem mem_ptsOf {f : Nat} {k : Key} {ops : List Op} {pts : Pts Int} :
    pts ∈ ptsOf f k ops ↔ Op.blk f k pts ∈ ops := by
  simp only [ptsOf, List.mem_filterMap]
  constructor
  · rintro ⟨op, hop, h⟩
    cases op with
    | blk f' k' p =>
      by_cases hc : f' = f ∧ k' = k
      · simp only [hc, and_self, if_true, Option.some.injEq] at h
        obtain ⟨rfl, rfl⟩ := hc
        subst h; exact hop
      · simp [hc] at h
    | _ => simp at h
  · intro h
    exact ⟨_, h, by simp⟩

/-! ### newest file wins, both ways -/

theorem newest_spec : ∀ (C : List (Nat × Int)),
    (newest C = none ↔ C = []) ∧ (∀ c, newest C = some c → c ∈ C ∧ ∀ d ∈ C, d.1 ≤ c.1)
  | [] => by simp [newest]
  | c :: cs => by
    obtain ⟨i1, i2⟩ := newest_spec cs
    constructor
    · simp only [newest]
      cases hn : newest cs with
      | none => simp
      | some d => simp only []; split <;> simp
    · intro x hx
      simp only [newest] at hx
      cases hn : newest cs with
      | none =>
        rw [hn] at hx
        simp only [Option.some.injEq] at hx
        subst hx
        have : cs = [] := i1.mp hn
        subst this
        exact ⟨by simp, by simp⟩
      | some d =>
        rw [hn] at hx
        simp only at hx
        obtain ⟨j1, j2⟩ := i2 d hn
        by_cases hgt : c.1 > d.1
        · rw [if_pos hgt] at hx
          simp only [Option.some.injEq] at hx
          subst hx
          refine ⟨by simp, ?_⟩
          intro e he
          rcases List.mem_cons.mp he with rfl | he2
          · exact Nat.le_refl _
          · have := j2 e he2; omega
        · rw [if_neg hgt] at hx
          simp only [Option.some.injEq] at hx
          subst hx
          refine ⟨List.mem_cons_of_mem _ j1, ?_⟩
          intro e he
          rcases List.mem_cons.mp he with rfl | he2
          · omega
          · exact j2 e he2

/-- the last file of `ids` that holds a value wins -/
def lastHit (hit : Nat → Option Int) : List Nat → Option Int
  | [] => none
  | f :: fs => (lastHit hit fs).or (hit f)

theorem lastHit_spec (hit : Nat → Option Int) : ∀ (ids : List Nat), ids.Pairwise (· < ·) →
    (lastHit hit ids = none ↔ ∀ f ∈ ids, hit f = none) ∧
    (∀ v, lastHit hit ids = some v → ∃ f ∈ ids, hit f = some v ∧ ∀ f' ∈ ids, f < f' → hit f' = none)
  | [], _ => by simp [lastHit]
  | f :: fs, hp => by
    have hp' := List.pairwise_cons.mp hp
    obtain ⟨i1, i2⟩ := lastHit_spec hit fs hp'.2
    constructor
    · simp only [lastHit, Option.or_eq_none_iff, i1, List.mem_cons, forall_eq_or_imp]
      exact And.comm
    · intro v hv
      simp only [lastHit] at hv
      cases hl : lastHit hit fs with
      | some w =>
        rw [hl] at hv; simp at hv; subst hv
        obtain ⟨g, hg, hg1, hg2⟩ := i2 w hl
        refine ⟨g, List.mem_cons_of_mem _ hg, hg1, ?_⟩
        intro f' hf' hlt
        rcases List.mem_cons.mp hf' with rfl | hf2
        · have := hp'.1 g hg; omega
        · exact hg2 f' hf2 hlt
      | none =>
        rw [hl] at hv; simp at hv
        refine ⟨f, by simp, hv, ?_⟩
        intro f' hf' hlt
        rcases List.mem_cons.mp hf' with rfl | hf2
        · omega
        · exact (i1.mp hl) f' hf2

theorem restAt_flatMap_files (ops : List Op) (k : Key) (t : Int)
    (hch : ∀ f, ChainOK (ptsOf f k ops)) : ∀ (ids : List Nat),
    restAt (ids.flatMap fun f => (ptsOf f k ops).map mkB) t = lastHit (fun f => lastAt (ptsOf f k ops) t) ids
  | [] => rfl
  | f :: fs => by
    simp only [List.flatMap_cons, restAt_append, lastHit, restAt_flatMap_files ops k t hch fs,
      restAt_mkB _ (hch f)]

theorem mem_candidates_noDel {ops : List Op} (h : NoDel ops) {k : Key} {t : Int} {f : Nat} {v : Int} :
    (f, v) ∈ candidates ops k t ↔ ∃ pts, Op.blk f k pts ∈ ops ∧ (t, v) ∈ pts := by
  have hdel : ∀ f, deleted ops f k t = false := by
    intro f
    simp only [deleted, List.any_eq_false]
    intro op hop
    cases op with
    | del f' keys lo hi => exact absurd rfl (h _ hop f' keys lo hi)
    | _ => simp
  simp only [candidates, List.mem_flatMap]
  constructor
  · rintro ⟨op, hop, hm⟩
    cases op with
    | blk f' k' pts =>
      simp only [hdel, Bool.not_false, Bool.and_true] at hm
      by_cases hk : k' = k
      · subst hk
        simp only [beq_self_eq_true, if_true, List.mem_map, List.mem_filter, beq_iff_eq] at hm
        obtain ⟨p, ⟨hp, hpt⟩, hpe⟩ := hm
        simp only [Prod.mk.injEq] at hpe
        obtain ⟨rfl, rfl⟩ := hpe
        refine ⟨pts, hop, ?_⟩
        rw [← hpt]; exact hp
      · have : (k' == k) = false := by simp [hk]
        simp [this] at hm
    | _ => simp at hm
  · rintro ⟨pts, hop, hm⟩
    refine ⟨_, hop, ?_⟩
    simp only [hdel, Bool.not_false, Bool.and_true, beq_self_eq_true, if_true, List.mem_map, List.mem_filter,
      beq_iff_eq]
    exact ⟨(t, v), ⟨hm, rfl⟩, rfl⟩

/-- **newest file wins**: the content the iterator theorem speaks about is the content the
    statement speaks about -/
theorem content_noDel (ops : List Op) (hv : ValidFrom [] ops) (hnd : NoDel ops) (k : Key) (t : Int) :
    restAt (blocksFor (runsOf' ops) k) t = expectedAt ops k t := by
  have hch : ∀ f, ChainOK (ptsOf f k ops) := fun f => by
    have := valid_chain f k ops [] hv trivial
    simpa using this
  rw [blocksFor_noDel ops hnd, restAt_flatMap_files ops k t hch]
  unfold expectedAt
  obtain ⟨n1, n2⟩ := newest_spec (candidates ops k t)
  obtain ⟨l1, l2⟩ := lastHit_spec (fun f => lastAt (ptsOf f k ops) t) (fileIds ops) (fileIds_asc ops)
  -- membership in the candidates = a hit in that file
  have hmem : ∀ f v, (f, v) ∈ candidates ops k t ↔ (f ∈ fileIds ops ∧ lastAt (ptsOf f k ops) t = some v) := by
    intro f v
    rw [mem_candidates_noDel hnd]
    constructor
    · rintro ⟨pts, hop, hm⟩
      refine ⟨mem_fileIds.mpr ⟨(valid_blk_facts ops [] hv f k pts hop).1, k, pts, hop⟩, ?_⟩
      exact lastAt_of_mem (hch f) (mem_ptsOf.mpr hop) hm
    · rintro ⟨_, hl⟩
      obtain ⟨b, hb, hb'⟩ := lastAt_some_mem hl
      exact ⟨b, mem_ptsOf.mp hb, hb'⟩
  cases hn : newest (candidates ops k t) with
  | none =>
    have hC := n1.mp hn
    have : lastHit (fun f => lastAt (ptsOf f k ops) t) (fileIds ops) = none := by
      apply l1.mpr
      intro f hf
      cases hl : lastAt (ptsOf f k ops) t with
      | none => rfl
      | some v =>
        have := (hmem f v).mpr ⟨hf, hl⟩
        rw [hC] at this; simp at this
    rw [this]; rfl
  | some c =>
    obtain ⟨c1, c2⟩ := n2 c hn
    obtain ⟨f, v⟩ := c
    obtain ⟨hf, hl⟩ := (hmem f v).mp c1
    cases hh : lastHit (fun f => lastAt (ptsOf f k ops) t) (fileIds ops) with
    | none => have := (l1.mp hh) f hf; rw [hl] at this; cases this
    | some w =>
      obtain ⟨g, hg, hg1, hg2⟩ := l2 w hh
      have hgc := (hmem g w).mpr ⟨hg, hg1⟩
      have h1 : g ≤ f := c2 _ hgc
      have h2 : ¬ g < f := by
        intro hlt
        have := hg2 f hf hlt
        rw [hl] at this; cases this
      have : g = f := by omega
      subst this
      rw [hl] at hg1
      simp only [Option.some.injEq] at hg1
      simp [hg1]


/-! ### the whole compaction of a case -/

/-- all blocks of key `k`, file after file -/
def blocksOfKey (ops : List Op) (k : Key) : List (Pts Int) := (fileIds ops).flatMap fun f => ptsOf f k ops

theorem length_flatMap_map {α β γ : Type} (g : β → γ) (h : α → List β) : ∀ (l : List α),
    (l.flatMap fun x => (h x).map g).length = (l.flatMap h).length
  | [] => rfl
  | x :: xs => by simp [List.flatMap_cons, length_flatMap_map g h xs]

theorem filesOK_noDel (ops : List Op) (hv : ValidFrom [] ops) (hnd : NoDel ops)
    (hcap : ∀ k, (blocksOfKey ops k).length ≤ 20) : FilesOK (some 20) (runsOf' ops) := by
  have hch : ∀ f k, ChainOK (ptsOf f k ops) := fun f k => by
    have := valid_chain f k ops [] hv trivial
    simpa using this
  refine ⟨?_, ?_, ?_⟩
  · intro fr hfr
    rw [runs_noDel ops hnd] at hfr
    simp only [List.mem_map] at hfr
    obtain ⟨f, _, rfl⟩ := hfr
    obtain ⟨s1, s2, s3⟩ := foldBlocks_spec f ops [] List.Pairwise.nil (by simp)
    rw [← fileBlocksL_eq] at s1 s2 s3
    refine ⟨?_, ?_⟩
    · rw [List.pairwise_map]
      exact s1
    · intro r hr
      simp only [List.mem_map] at hr
      obtain ⟨e, he, rfl⟩ := hr
      have hne := s2 e he
      refine ⟨?_, by simpa using hne⟩
      -- the key comes from a `blk` operation
      obtain ⟨b, hb⟩ : ∃ b, b ∈ e.2 := by
        cases h : e.2 with
        | nil => exact absurd h hne
        | cons x xs => exact ⟨x, by simp⟩
      have hin : b ∈ getK (fileBlocksL f ops) e.1 := by
        simp only [getK, List.mem_flatMap, List.mem_filter, decide_eq_true_eq]
        exact ⟨e, ⟨he, rfl⟩, hb⟩
      rw [s3 e.1] at hin
      simp only [getK, List.filter_nil, List.flatMap_nil, List.nil_append] at hin
      exact (valid_blk_facts ops [] hv f e.1 b (mem_ptsOf.mp hin)).2
  · intro k b hb
    rw [blocksFor_noDel ops hnd] at hb
    simp only [List.mem_flatMap, List.mem_map] at hb
    obtain ⟨f, _, pts, hpts, rfl⟩ := hb
    obtain ⟨c1, c2, c3⟩ := chain_mem_facts _ (hch f k) pts hpts
    exact fresh_mkB c1 c2 c3
  · intro k
    rw [blocksFor_noDel ops hnd, length_flatMap_map]
    intro m hm; cases hm; exact hcap k

/-- **a compaction of the case, judged by the statement checker** -/
theorem modelCompact_ok (ops : List Op) (hv : ValidFrom [] ops) (hnd : NoDel ops)
    (hcap : ∀ k, (blocksOfKey ops k).length ≤ 20) (fast : Bool) (size : Nat) (hs : 0 < size)
    (hsz : ∀ f k pts, Op.blk f k pts ∈ ops → pts.length ≤ size)
    (files : List OutFile) (h : modelCompact ops fast size = Obs.out files) :
    judge ops false size files = none := by
  unfold modelCompact at h
  cases hc : compactSeq { size := size, fast := fast } ((readers ops).map RFile.runs) with
  | error e => rw [hc] at h; cases h
  | ok seq =>
    rw [hc] at h
    simp only [Obs.out.injEq] at h
    subst h
    have ro := compactSeq_spec { size := size, fast := fast } (some 20) (stableLaw size fast) hs (runsOf' ops)
      (filesOK_noDel ops hv hnd hcap) seq hc
    obtain ⟨sf1, sf2⟩ := splitFiles_spec limits (fun _ => 0) (seqLen seq) seq (by simp [seqLen])
    apply judge_none ops false size _ sf2 (by rw [sf1]; exact ro.sorted)
      (fun k => blocksFor (runsOf' ops) k) (fun k => restAt (blocksFor (runsOf' ops) k))
    · intro k; rw [sf1]; exact ro.keys k
    · intro k t
      simp only [Bool.false_eq_true, if_false]
      exact content_noDel ops hv hnd k t
    · intro k b0 hb0
      rw [blocksFor_noDel ops hnd] at hb0
      simp only [List.mem_flatMap, List.mem_map] at hb0
      obtain ⟨f, _, pts, hpts, rfl⟩ := hb0
      exact hsz f k pts (mem_ptsOf.mp hpts)

end Influx.Model.Compact
