/-
  Lemmas.StoreDelC42 — the metadata queries of the store model return sorted, duplicate-free
  lists; `MeasurementNames` returns exactly the names with a live authorized series satisfying
  the condition, for conditions on which measurement-level and per-series evaluation coincide
  and an index without lingering entries.
-/
import Influx.Lemmas.StoreDelOrder
import Influx.Spec.C42

namespace Influx.Model.StoreDel
open Influx.Model.DelPred (Bytes)
open Influx.Spec.C42 (holdsOf)

/-! ### sortedness -/

theorem strictAsc_measNames (shs : List Shard) : StrictAsc (measNames shs) := strictAsc_sortDedup _

theorem strictAsc_namesByExpr (a : Auth) (shs : List Shard) (c : Cond) : StrictAsc (namesByExpr a shs c) := by
  induction c with
  | cmp key neq val =>
    simp only [namesByExpr]
    split
    · exact strictAsc_filter _ _ (strictAsc_measNames shs)
    · exact strictAsc_filter _ _ (strictAsc_measNames shs)
  | re key neg vals =>
    simp only [namesByExpr]
    split
    · exact strictAsc_filter _ _ (strictAsc_measNames shs)
    · exact strictAsc_filter _ _ (strictAsc_measNames shs)
  | and l r ihl _ => exact strictAsc_filter _ _ ihl
  | or l r _ _ => exact strictAsc_sortDedup _

theorem strictAsc_measurementNames (a : Auth) (shs : List Shard) (c : Option Cond) :
    StrictAsc (measurementNames a shs c) := by
  cases c with
  | none => exact strictAsc_filter _ _ (strictAsc_measNames shs)
  | some c => exact strictAsc_namesByExpr a shs c

theorem strictAsc_selectedKeys (shs : List Shard) (m : Bytes) (kc : Option (Bool × Bytes)) :
    StrictAsc (selectedKeys shs m kc) := by
  unfold selectedKeys
  split
  · exact strictAsc_sortDedup _
  · exact strictAsc_filter _ _ (strictAsc_sortDedup _)

/-! ### membership -/

/-- a live series of measurement `m` in the selected shards that the authorizer allows -/
def LiveAuth (a : Auth) (shs : List Shard) (m : Bytes) (P : Series → Prop) : Prop :=
  ∃ sh ∈ shs, ∃ s ∈ sh.series, s.name = m ∧ a.allows s.name s.tags = true ∧ P s

theorem mem_measNames {shs : List Shard} {m : Bytes} :
    m ∈ measNames shs ↔ ∃ sh ∈ shs, ∃ s ∈ sh.series, s.name = m := by
  simp only [measNames, mem_sortDedup, List.mem_flatMap, List.mem_map]

theorem mem_liveSeries {shs : List Shard} {m : Bytes} {s : Series} :
    s ∈ liveSeries shs m ↔ ∃ sh ∈ shs, s ∈ sh.series ∧ s.name = m := by
  simp only [liveSeries, List.mem_flatMap, List.mem_filter, decide_eq_true_eq]

theorem allows_of_open {a : Auth} (h : a.isOpen = true) (name : Bytes) (tags : Tags) : a.allows name tags = true := by
  cases a <;> simp [Auth.isOpen] at h <;> rfl

theorem measAuthorized_iff (a : Auth) (shs : List Shard) (m : Bytes) (hm : m ∈ measNames shs) :
    measAuthorized a shs m = true ↔ LiveAuth a shs m (fun _ => True) := by
  unfold measAuthorized LiveAuth
  simp only [Bool.or_eq_true, List.any_eq_true, mem_liveSeries]
  constructor
  · rintro (ho | ⟨s, ⟨sh, hsh, hs, hn⟩, hal⟩)
    · obtain ⟨sh, hsh, s, hs, hn⟩ := mem_measNames.1 hm
      exact ⟨sh, hsh, s, hs, hn, allows_of_open ho _ _, trivial⟩
    · exact ⟨sh, hsh, s, hs, hn, hal, trivial⟩
  · rintro ⟨sh, hsh, s, hs, hn, hal, _⟩
    exact Or.inr ⟨s, ⟨sh, hsh, hs, hn⟩, hal⟩

/-- **MeasurementNames without a condition**: exactly the names with a live authorized series. -/
theorem mem_measurementNames_none (a : Auth) (shs : List Shard) (m : Bytes) :
    m ∈ measurementNames a shs none ↔ LiveAuth a shs m (fun _ => True) := by
  simp only [measurementNames, List.mem_filter]
  constructor
  · rintro ⟨hm, ha⟩; exact (measAuthorized_iff a shs m hm).1 ha
  · intro h
    have hm : m ∈ measNames shs := by
      obtain ⟨sh, hsh, s, hs, hn, _⟩ := h
      exact mem_measNames.2 ⟨sh, hsh, s, hs, hn⟩
    exact ⟨hm, (measAuthorized_iff a shs m hm).2 h⟩

/-! ### conditions -/

/-- the index of every selected shard holds exactly the tag pairs of its live series -/
def IndexExact (shs : List Shard) : Prop :=
  ∀ sh ∈ shs, ∀ m k v, (m, k, v) ∈ sh.tagvals ↔ ∃ s ∈ sh.series, s.name = m ∧ (k, v) ∈ s.tags

/-- tags as the storage layer keeps them: one value per key -/
def TagsFn (shs : List Shard) : Prop :=
  ∀ sh ∈ shs, ∀ s ∈ sh.series, ∀ k v, (k, v) ∈ s.tags ↔ tagGet s.tags k = some v

theorem mem_idxTagValues {shs : List Shard} {m k v : Bytes} :
    v ∈ idxTagValues shs m k ↔ ∃ sh ∈ shs, (m, k, v) ∈ sh.tagvals := by
  simp only [idxTagValues, mem_sortDedup, List.mem_flatMap, List.mem_map, List.mem_filter, decide_eq_true_eq]
  constructor
  · rintro ⟨sh, hsh, e, ⟨he, hm, hk⟩, rfl⟩
    exact ⟨sh, hsh, by obtain ⟨e1, e2, e3⟩ := e; simp only at hm hk; subst hm; subst hk; exact he⟩
  · rintro ⟨sh, hsh, he⟩
    exact ⟨sh, hsh, (m, k, v), ⟨he, rfl, rfl⟩, rfl⟩

theorem mem_idxTagKeys {shs : List Shard} {m k : Bytes} :
    k ∈ idxTagKeys shs m ↔ ∃ sh ∈ shs, ∃ v, (m, k, v) ∈ sh.tagvals := by
  simp only [idxTagKeys, mem_sortDedup, List.mem_flatMap, List.mem_map, List.mem_filter, decide_eq_true_eq]
  constructor
  · rintro ⟨sh, hsh, e, ⟨he, hm⟩, rfl⟩
    obtain ⟨e1, e2, e3⟩ := e
    simp only at hm; subst hm
    exact ⟨sh, hsh, e3, he⟩
  · rintro ⟨sh, hsh, v, he⟩
    exact ⟨sh, hsh, (m, k, v), ⟨he, rfl⟩, rfl⟩

theorem holdsOf_nameOnly {c : Cond} (hc : nameOnly c = true) (name : Bytes) (t1 t2 : Tags) :
    holdsOf name t1 c = holdsOf name t2 c := by
  induction c with
  | cmp k neq v =>
    simp only [nameOnly, decide_eq_true_eq] at hc
    simp [holdsOf, hc]
  | re k neg vals =>
    simp only [nameOnly, decide_eq_true_eq] at hc
    simp [holdsOf, hc]
  | and l r ihl ihr =>
    simp only [nameOnly, Bool.and_eq_true] at hc
    simp [holdsOf, ihl hc.1, ihr hc.2]
  | or l r ihl ihr =>
    simp only [nameOnly, Bool.and_eq_true] at hc
    simp [holdsOf, ihl hc.1, ihr hc.2]

/-- the `_name` filter: names whose comparison holds and that have an authorized live series -/
theorem mem_namesByNameFilter (a : Auth) (shs : List Shard) (neq : Bool) (mtch : Bytes → Bool) (m : Bytes) :
    m ∈ namesByNameFilter a shs neq mtch ↔ LiveAuth a shs m (fun s => (mtch s.name != neq) = true) := by
  simp only [namesByNameFilter, List.mem_filter, Bool.and_eq_true]
  constructor
  · rintro ⟨hm, hcmp, hauth⟩
    obtain ⟨sh, hsh, s, hs, hn, hal, _⟩ := (measAuthorized_iff a shs m hm).1 hauth
    exact ⟨sh, hsh, s, hs, hn, hal, by simp only; rw [hn]; exact hcmp⟩
  · rintro ⟨sh, hsh, s, hs, hn, hal, hh⟩
    have hm : m ∈ measNames shs := mem_measNames.2 ⟨sh, hsh, s, hs, hn⟩
    exact ⟨hm, by have hh' : (mtch s.name != neq) = true := hh; rw [← hn]; exact hh', (measAuthorized_iff a shs m hm).2 ⟨sh, hsh, s, hs, hn, hal, trivial⟩⟩

/-- the tag filter for a non-negated operator whose comparison rejects the empty value: exactly
    the names with a live authorized series whose value of the key is accepted — however many
    values match and whichever of them the hidden series use -/
theorem mem_namesByTagFilter (a : Auth) (shs : List Shard) (hidx : IndexExact shs) (htags : TagsFn shs)
    (key : Bytes) (mtch : Bytes → Bool) (hempty : mtch [] = false) (m : Bytes) :
    m ∈ namesByTagFilter a shs false key mtch ↔
      LiveAuth a shs m (fun s => mtch ((tagGet s.tags key).getD []) = true) := by
  have hval : ∀ v, v ∈ idxTagValues shs m key ↔
      ∃ sh ∈ shs, ∃ s ∈ sh.series, s.name = m ∧ tagGet s.tags key = some v := by
    intro v
    rw [mem_idxTagValues]
    constructor
    · rintro ⟨sh, hsh, he⟩
      obtain ⟨s, hs, hn, hkv⟩ := (hidx sh hsh m key v).1 he
      exact ⟨sh, hsh, s, hs, hn, (htags sh hsh s hs key v).1 hkv⟩
    · rintro ⟨sh, hsh, s, hs, hn, hg⟩
      exact ⟨sh, hsh, (hidx sh hsh m key v).2 ⟨s, hs, hn, (htags sh hsh s hs key v).2 hg⟩⟩
  simp only [namesByTagFilter, List.mem_filter]
  constructor
  · rintro ⟨hm, hbody⟩
    by_cases hkey : (idxTagKeys shs m).contains key = true
    · simp only [hkey, Bool.not_true, Bool.false_eq_true, if_false, Bool.false_and, Bool.not_false,
        Bool.and_eq_true, beq_iff_eq, Bool.not_eq_true', List.isEmpty_eq_false_iff] at hbody
      obtain ⟨hne, hauth⟩ := hbody
      simp only [Bool.or_eq_true, List.any_eq_true, Bool.and_eq_true, decide_eq_true_eq, mem_liveSeries,
        List.mem_filter] at hauth
      rcases hauth with ho | ⟨v, ⟨hv, hmv⟩, s, ⟨sh, hsh, hs, hn⟩, hg, hal⟩
      · obtain ⟨v, hv⟩ := List.exists_mem_of_ne_nil _ hne
        obtain ⟨hv1, hmv⟩ := List.mem_filter.1 hv
        obtain ⟨sh, hsh, s, hs, hn, hg⟩ := (hval v).1 hv1
        exact ⟨sh, hsh, s, hs, hn, allows_of_open ho _ _, by simp only; rw [hg]; exact hmv⟩
      · exact ⟨sh, hsh, s, hs, hn, hal, by simp only; rw [hg]; exact hmv⟩
    · exfalso; apply hkey
      simp only [hkey] at hbody
      simp at hbody
  · rintro ⟨sh, hsh, s, hs, hn, hal, hh⟩
    have hm : m ∈ measNames shs := mem_measNames.2 ⟨sh, hsh, s, hs, hn⟩
    obtain ⟨v, hg⟩ : ∃ v, tagGet s.tags key = some v := by
      cases hgt : tagGet s.tags key with
      | none => rw [hgt] at hh; simp only [Option.getD_none] at hh; rw [hempty] at hh; cases hh
      | some v => exact ⟨v, rfl⟩
    have hmv : mtch v = true := by rw [hg] at hh; exact hh
    have hv : v ∈ idxTagValues shs m key := (hval v).2 ⟨sh, hsh, s, hs, hn, hg⟩
    have hkey : (idxTagKeys shs m).contains key = true := by
      simp only [List.contains_eq_mem, decide_eq_true_eq, mem_idxTagKeys]
      exact ⟨sh, hsh, v, (hidx sh hsh m key v).2 ⟨s, hs, hn, (htags sh hsh s hs key v).2 hg⟩⟩
    have hvm : v ∈ (idxTagValues shs m key).filter mtch := List.mem_filter.2 ⟨hv, hmv⟩
    refine ⟨hm, ?_⟩
    simp only [hkey, Bool.not_true, Bool.false_eq_true, if_false, Bool.false_and, Bool.not_false,
      Bool.and_eq_true, beq_iff_eq, Bool.not_eq_true', List.isEmpty_eq_false_iff]
    refine ⟨List.ne_nil_of_mem hvm, ?_⟩
    simp only [Bool.or_eq_true, List.any_eq_true, Bool.and_eq_true, decide_eq_true_eq, mem_liveSeries]
    exact Or.inr ⟨v, hvm, s, ⟨sh, hsh, hs, hn⟩, hg, hal⟩

/-- **MeasurementNames with a condition (partial: `condOK`, exact index)**: exactly the names
    with a live authorized series of which the condition holds. -/
theorem mem_namesByExpr (a : Auth) (shs : List Shard) (hidx : IndexExact shs) (htags : TagsFn shs)
    (c : Cond) (hc : condOK c = true) (m : Bytes) :
    m ∈ namesByExpr a shs c ↔ LiveAuth a shs m (fun s => holdsOf s.name s.tags c = true) := by
  induction c generalizing m with
  | cmp key neq val =>
    simp only [namesByExpr]
    by_cases hk : key = nameKey
    · simp only [hk, if_true]
      rw [mem_namesByNameFilter]
      unfold LiveAuth
      simp only [holdsOf, if_true]
      constructor
      · rintro ⟨sh, hsh, s, hs, hn, hal, hh⟩
        refine ⟨sh, hsh, s, hs, hn, hal, ?_⟩
        cases neq <;> simpa using hh
      · rintro ⟨sh, hsh, s, hs, hn, hal, hh⟩
        refine ⟨sh, hsh, s, hs, hn, hal, ?_⟩
        cases neq <;> simpa using hh
    · simp only [condOK, hk, decide_false, Bool.false_or, Bool.and_eq_true, Bool.not_eq_true',
        decide_eq_true_eq] at hc
      obtain ⟨hneq, hval⟩ := hc
      subst hneq
      simp only [hk, if_false]
      rw [mem_namesByTagFilter a shs hidx htags key _ (by simp only [decide_eq_false_iff_not]; exact fun e => hval e.symm)]
      unfold LiveAuth
      simp only [holdsOf, hk, if_false, Bool.false_eq_true, decide_eq_true_eq]
  | re key neg vals =>
    simp only [namesByExpr]
    by_cases hk : key = nameKey
    · simp only [hk, if_true]
      rw [mem_namesByNameFilter]
      unfold LiveAuth
      simp only [holdsOf, if_true]
    · simp only [condOK, hk, decide_false, Bool.false_or, Bool.and_eq_true, Bool.not_eq_true'] at hc
      obtain ⟨hneg, hval⟩ := hc
      subst hneg
      simp only [hk, if_false]
      rw [mem_namesByTagFilter a shs hidx htags key _ hval]
      unfold LiveAuth
      simp only [holdsOf, hk, if_false, Bool.bne_false]
  | and l r ihl ihr =>
    simp only [condOK, Bool.and_eq_true, Bool.or_eq_true] at hc
    obtain ⟨⟨hl, hr⟩, hno⟩ := hc
    simp only [namesByExpr, interSorted, List.mem_filter, List.contains_eq_mem, decide_eq_true_eq,
      ihl hl, ihr hr]
    constructor
    · rintro ⟨⟨sh1, hsh1, s1, hs1, hn1, hal1, hh1⟩, ⟨sh2, hsh2, s2, hs2, hn2, hal2, hh2⟩⟩
      rcases hno with hno | hno
      · refine ⟨sh2, hsh2, s2, hs2, hn2, hal2, ?_⟩
        simp only [holdsOf, Bool.and_eq_true]
        refine ⟨?_, hh2⟩
        rw [hn2, ← hn1, holdsOf_nameOnly hno s1.name s2.tags s1.tags]; exact hh1
      · refine ⟨sh1, hsh1, s1, hs1, hn1, hal1, ?_⟩
        simp only [holdsOf, Bool.and_eq_true]
        refine ⟨hh1, ?_⟩
        rw [hn1, ← hn2, holdsOf_nameOnly hno s2.name s1.tags s2.tags]; exact hh2
    · rintro ⟨sh, hsh, s, hs, hn, hal, hh⟩
      simp only [holdsOf, Bool.and_eq_true] at hh
      exact ⟨⟨sh, hsh, s, hs, hn, hal, hh.1⟩, ⟨sh, hsh, s, hs, hn, hal, hh.2⟩⟩
  | or l r ihl ihr =>
    simp only [condOK, Bool.and_eq_true] at hc
    simp only [namesByExpr, unionSorted, mem_sortDedup, List.mem_append, ihl hc.1, ihr hc.2]
    constructor
    · rintro (⟨sh, hsh, s, hs, hn, hal, hh⟩ | ⟨sh, hsh, s, hs, hn, hal, hh⟩)
      · exact ⟨sh, hsh, s, hs, hn, hal, by simp [holdsOf, hh]⟩
      · exact ⟨sh, hsh, s, hs, hn, hal, by simp [holdsOf, hh]⟩
    · rintro ⟨sh, hsh, s, hs, hn, hal, hh⟩
      simp only [holdsOf, Bool.or_eq_true] at hh
      rcases hh with hh | hh
      · exact Or.inl ⟨sh, hsh, s, hs, hn, hal, hh⟩
      · exact Or.inr ⟨sh, hsh, s, hs, hn, hal, hh⟩

end Influx.Model.StoreDel
