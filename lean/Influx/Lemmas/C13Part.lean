/-
  Lemmas.C13Part — the invariant of one series partition (`PInv`) and what the index lookups
  (`FindOffsetByID`, `IsDeleted`, `FindIDBySeriesKey`, `SeriesKey`) mean in terms of the
  entries of the segment — across the in-memory part and the compacted index file.
-/
import Influx.Lemmas.C13Chain

namespace Influx.SF

/-- some tombstone entry names the id -/
def Tombed (es : List Entry) (id : Nat) : Prop := ∃ t ∈ es, t.flag ≠ insertFlag ∧ t.id = id

/-- the replay boundary: entries at or before it are covered by the index file -/
def Part.bound (p : Part) : Nat := match p.idxFile with | some d => d.maxOffset | none => 0

/-- `SeriesIndex.Open`: empty in-memory maps, header fields from the index file -/
def Part.base (p : Part) : Part :=
  { p with
    maxSeriesID := match p.idxFile with | some d => d.maxSeriesID | none => 0
    maxOffset := match p.idxFile with | some d => d.maxOffset | none => 0
    memKeyID := [], memIDOff := [], tomb := [] }

theorem recover_eq (p : Part) :
    p.recover = replay p.base ((entries p.file).filter (fun e => e.off > p.bound)) := by
  unfold Part.recover Part.base Part.bound replay
  rfl

theorem pairwise_mem_or {α : Type} {R : α → α → Prop} {l : List α} (h : l.Pairwise R) :
    ∀ {a b : α}, a ∈ l → b ∈ l → a ≠ b → R a b ∨ R b a := by
  induction h with
  | nil => intro a b ha; cases ha
  | cons hx _ ih =>
    intro a b ha hb hne
    rcases List.mem_cons.mp ha with h1 | h1
    · rcases List.mem_cons.mp hb with h2 | h2
      · exact absurd (h1.trans h2.symm) hne
      · subst h1; exact Or.inl (hx b h2)
    · rcases List.mem_cons.mp hb with h2 | h2
      · subst h2; exact Or.inr (hx a h1)
      · exact ih h1 h2 hne

structure DiskOK (d : IndexFile) (es : List Entry) : Prop where
  d1 : ∀ x ∈ d.idOff, ∃ e ∈ es, e.flag = insertFlag ∧ e.id = x.1 ∧ e.off = x.2 ∧ e.off ≤ d.maxOffset
  d2 : ∀ e ∈ es, e.flag = insertFlag → e.off ≤ d.maxOffset → (e.id, e.off) ∈ d.idOff ∨ Tombed es e.id
  d3 : ∀ x ∈ d.idOff, ∀ t ∈ es, t.flag ≠ insertFlag → t.id = x.1 → d.maxOffset < t.off
  d4 : d.keyID = d.idOff.map (fun x => (x.2, x.1))

structure PInv (p : Part) (es : List Entry) : Prop where
  file : p.file = fileOf es
  chain : Chain hdrSize es
  idPos : ∀ e ∈ es, e.flag = insertFlag → 0 < e.id ∧ e.id < p.seq ∧ e.id % partN = (p.pid + 1) % partN
  idInc : es.Pairwise (fun a b => a.flag = insertFlag → b.flag = insertFlag → a.id < b.id)
  seqMod : p.seq % partN = (p.pid + 1) % partN
  /-- a key is re-created only after its previous series was deleted -/
  keys : es.Pairwise (fun a b => a.flag = insertFlag → b.flag = insertFlag → a.key = b.key →
    ∃ t ∈ es, t.flag ≠ insertFlag ∧ t.id = a.id ∧ t.off < b.off)
  /-- a tombstone follows the insert entry it deletes -/
  tombAfter : ∀ t ∈ es, t.flag ≠ insertFlag → ∃ e ∈ es, e.flag = insertFlag ∧ e.id = t.id ∧ e.off < t.off
  memKeyID : p.memKeyID = (replay p.base (es.filter (fun e => e.off > p.bound))).memKeyID
  memIDOff : p.memIDOff = (replay p.base (es.filter (fun e => e.off > p.bound))).memIDOff
  tomb : p.tomb = (replay p.base (es.filter (fun e => e.off > p.bound))).tomb
  maxOffset : p.maxOffset = (replay p.base (es.filter (fun e => e.off > p.bound))).maxOffset
  disk : ∀ d, p.idxFile = some d → DiskOK d es

namespace PInv
variable {p : Part} {es : List Entry}

theorem entries_eq (h : PInv p es) : entries p.file = es := by
  rw [h.file]; exact entries_fileOf es h.chain

theorem offInc (h : PInv p es) : es.Pairwise (fun a b => a.off < b.off) := Chain.off_inc _ _ h.chain

theorem off_ge (h : PInv p es) : ∀ e ∈ es, hdrSize ≤ e.off := Chain.off_ge _ _ h.chain

/-- insert entries are determined by their id -/
theorem id_unique (h : PInv p es) {a b : Entry} (ha : a ∈ es) (hb : b ∈ es)
    (hfa : a.flag = insertFlag) (hfb : b.flag = insertFlag) (hid : a.id = b.id) : a = b := by
  have hp := h.idInc
  by_cases hab : a = b
  · exact hab
  · exfalso
    rcases pairwise_mem_or hp ha hb hab with h1 | h1
    · have := h1 hfa hfb; omega
    · have := h1 hfb hfa; omega

theorem memOff_eq (h : PInv p es) (id : Nat) :
    p.memOff id = (replay p.base (es.filter (fun e => e.off > p.bound))).memOff id := by
  unfold Part.memOff; rw [h.memIDOff]

theorem memID_eq (h : PInv p es) (key : Bytes) :
    p.memID key = (replay p.base (es.filter (fun e => e.off > p.bound))).memID key := by
  unfold Part.memID; rw [h.memKeyID]

end PInv

theorem base_memOff (p : Part) (id : Nat) : p.base.memOff id = none := rfl
theorem base_memID (p : Part) (key : Bytes) : p.base.memID key = none := rfl
theorem base_tomb (p : Part) : p.base.tomb = [] := rfl

end Influx.SF
