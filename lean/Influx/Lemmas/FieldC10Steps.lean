/-
  Lemmas.FieldC10Steps — every operation of the persistent model keeps the
  invariant `PInv` and is accepted by the statement checker of C10
  (`Spec.C10.stepFails`); used by Props.C10.
-/
import Influx.Lemmas.FieldC10

namespace Influx.Fields.C10Steps
open Influx.Fields Influx.Spec.C10

/-- how the statement checker's memory relates to the model state -/
structure Rel (M : Mem) (st : PState) : Prop where
  cur : M.cur = { sch := st.mem, store := some st.data }
  dropped : ∀ m ∈ M.dropped, hasMeas st.mem m = false

theorem seenFails_ok (st : PState) (h : PInv st) :
    seenFails { sch := st.mem, store := some st.data } = none := by
  unfold seenFails
  simp [functional_of_nd _ h.ndMem, typedBy_of_typed _ _ h.typed]

/-! ### write -/

theorem pWrite_mem (st : PState) (b : List Point) : (pWrite st b).1.mem = (verdicts st.mem b).1 := by
  have := (validate_eq st.mem b).1
  unfold pWrite
  simp only
  split <;> simp [appendLog, this]

theorem pWrite_data (st : PState) (b : List Point) :
    (pWrite st b).1.data = (accE (verdicts st.mem b).2.2).foldl upsert st.data := by
  have := (writePoints_state { sch := st.mem, data := st.data } b).1
  unfold pWrite
  simp only
  exact this

theorem pWrite_idx (st : PState) (b : List Point) : (pWrite st b).1.idx = st.idx := by
  unfold pWrite
  simp only
  split <;> simp [appendLog]

theorem pWrite_log (st : PState) (b : List Point) :
    (pWrite st b).1.log.getD [] =
      if (verdicts st.mem b).2.1.isEmpty then st.log.getD []
      else st.log.getD [] ++ [createdRecord (verdicts st.mem b).2.1] := by
  have := (validate_eq st.mem b).2.1
  unfold pWrite
  simp only [this]
  split <;> simp [appendLog]

theorem pWrite_res (st : PState) (b : List Point) :
    (pWrite st b).2 = (writePoints { sch := st.mem, data := st.data } b).2 := by
  unfold pWrite; rfl

theorem pWrite_series (st : PState) (b : List Point) : (pWrite st b).1.series = touchSeries st.series b := by
  unfold pWrite
  simp only
  split <;> simp [appendLog]

theorem touchSeries_old (series : List String) (b : List Point) (m : String)
    (h : series.contains m = true) : (touchSeries series b).contains m = true := by
  unfold touchSeries
  simp only [List.contains_eq_mem, List.mem_append, decide_eq_true_eq] at h ⊢
  exact Or.inl h

theorem touchSeries_new (series : List String) (b : List Point) (p : Point) (hp : p ∈ b)
    (ht : hasTimeTag p = false) : (touchSeries series b).contains p.meas = true := by
  unfold touchSeries
  simp only [List.contains_eq_mem, List.mem_append, decide_eq_true_eq]
  by_cases hs : p.meas ∈ series
  · exact Or.inl hs
  · right
    rw [List.mem_eraseDups, List.mem_filter]
    refine ⟨List.mem_map.2 ⟨p, List.mem_filter.2 ⟨hp, by simp [ht]⟩, rfl⟩, by simp [hs]⟩

/-- an accepted point has no `time` tag -/
theorem accepted_no_timeTag (s : Schema) (pts : List Point) (p : Point) (v : VRes)
    (hm : (p, v) ∈ (verdicts s pts).2.2) (ha : v.accepted = true) : hasTimeTag p = false := by
  induction pts generalizing s with
  | nil => simp [verdicts] at hm
  | cons q ps ih =>
    unfold verdicts at hm
    split at hm
    · rcases List.mem_cons.1 hm with heq | hm'
      · cases heq; simp at ha
      · exact ih _ hm'
    · next h1 =>
      split at hm
      · rcases List.mem_cons.1 hm with heq | hm'
        · cases heq; simp at ha
        · exact ih _ hm'
      · rcases List.mem_cons.1 hm with heq | hm'
        · cases heq; simpa using h1
        · exact ih _ hm'

theorem write_inv (st : PState) (b : List Point) (h : PInv st) : PInv (pWrite st b).1 := by
  refine ⟨?_, ?_, ?_, ?_, ?_, ?_⟩
  rotate_right
  · rw [pWrite_data, pWrite_series]
    intro e he
    rcases mem_foldl_upsert _ _ e he with h1 | h1
    · unfold accE at h1
      obtain ⟨pv, hpv, hpe⟩ := List.mem_flatMap.1 h1
      obtain ⟨hm, ha⟩ := List.mem_filter.1 hpv
      have hmeas : e.1.1 = pv.1.meas := by
        unfold pointEntries at hpe
        obtain ⟨f, _, rfl⟩ := List.mem_map.1 hpe
        rfl
      rw [hmeas]
      apply touchSeries_new _ _ pv.1 _ (accepted_no_timeTag st.mem b pv.1 pv.2 hm ha)
      rw [← verdicts_map_fst st.mem b]
      exact List.mem_map.2 ⟨pv, hm, rfl⟩
    · exact touchSeries_old _ _ _ (h.seriesOK e h1)
  · rw [pWrite_mem]; exact verdicts_nd b st.mem h.ndMem
  · rw [pWrite_idx]; exact h.ndIdx
  · rw [pWrite_data]; exact nodup_foldl_upsert _ _ h.ndData
  · rw [pWrite_mem, pWrite_data]
    intro e he
    rcases mem_foldl_upsert _ _ e he with h1 | h1
    · unfold accE at h1
      obtain ⟨pv, hpv, hpe⟩ := List.mem_flatMap.1 h1
      obtain ⟨hm, ha⟩ := List.mem_filter.1 hpv
      unfold pointEntries at hpe
      obtain ⟨f, hf, rfl⟩ := List.mem_map.1 hpe
      obtain ⟨hf1, hf2⟩ := List.mem_filter.1 hf
      exact verdicts_typed b st.mem pv.1 pv.2 hm ha f hf1 (by simpa using hf2)
    · exact verdicts_mono b st.mem _ _ (h.typed e h1)
  · rw [pWrite_idx, pWrite_log, pWrite_mem]
    have hrep := verdicts_replay b st.mem
    by_cases he : (verdicts st.mem b).2.1.isEmpty = true
    · simp only [he, if_true]
      have : (verdicts st.mem b).2.1 = [] := List.isEmpty_iff.1 he
      rw [this] at hrep
      have h2 : (verdicts st.mem b).1 = st.mem := by rw [← hrep]; simp [createdRecord, replay]
      rw [h2]; exact h.disk
    · simp only [he, Bool.false_eq_true, if_false, List.flatten_append, List.flatten_cons, List.flatten_nil,
        List.append_nil]
      rw [replay_append, ← hrep]
      exact replay_congr h.disk _

theorem write_ok (M : Mem) (st : PState) (b : List Point) (hI : PInv st) (hR : Rel M st) :
    (stepFails M (.write b (pWrite st b).2 (seen (pWrite st b).1))).1 = none ∧
    Rel (stepFails M (.write b (pWrite st b).2 (seen (pWrite st b).1))).2 (pWrite st b).1 := by
  have hI' := write_inv st b hI
  rw [seen_eq _ hI']
  have hmem := pWrite_mem st b
  have hmono : ∀ k t, st.mem.lookup k = some t → (pWrite st b).1.mem.lookup k = some t := by
    intro k t hk; rw [hmem]; exact verdicts_mono b st.mem k t hk
  constructor
  · -- the checks
    simp only [stepFails]
    rw [seenFails_ok _ hI', subSchema_of _ _ (by rw [hR.cur]; exact hI.ndMem) (by rw [hR.cur]; exact hmono)]
    simp only [Option.or_none, if_true]
    -- the reported count covers the conflicting points
    have hconf : b.countP (conflictsWith M.cur.sch) ≤ countDropped (verdicts st.mem b).2.2 := by
      rw [hR.cur]
      conv => lhs; rw [← verdicts_map_fst st.mem b]
      rw [List.countP_map]
      unfold countDropped
      apply List.countP_mono_left
      intro pv hpv hc
      have := verdicts_conflict b st.mem pv.1 pv.2 hpv (by simpa [Function.comp] using hc)
      simp [this]
    rw [pWrite_res]
    rcases writePoints_res { sch := st.mem, data := st.data } b with ⟨h1, h2⟩ | ⟨r, h1⟩
    · rw [h1]
      have : b.countP (conflictsWith M.cur.sch) = 0 := by
        have h2' : countDropped (verdicts st.mem b).2.2 = 0 := h2
        omega
      simp [this]
    · rw [h1]
      have : ¬ (countDropped (verdicts st.mem b).2.2 < b.countP (conflictsWith M.cur.sch)) := by
        have : countDropped (verdicts ({ sch := st.mem, data := st.data } : State).sch b).2.2
            = countDropped (verdicts st.mem b).2.2 := rfl
        omega
      simp only [this, if_false]
  · -- the relation afterwards
    simp only [stepFails]
    refine ⟨rfl, ?_⟩
    intro m hm
    obtain ⟨hm1, hm2⟩ := List.mem_filter.1 hm
    apply hasMeas_false_of_lookup _ hI'.ndMem
    intro k t hk
    rw [hmem] at hk
    rcases verdicts_new b st.mem k t hk with h1 | h1
    · exact lookup_of_hasMeas_false _ _ (hR.dropped m hm1) k t h1
    · intro hkm
      unfold carries at h1
      rw [List.any_eq_true] at h1
      obtain ⟨p, hp, hpc⟩ := h1
      simp only [Bool.and_eq_true, beq_iff_eq] at hpc
      have : b.any (fun p => p.meas == m) = true := by
        rw [List.any_eq_true]; exact ⟨p, hp, by simp [hpc.1, hkm]⟩
      simp [this] at hm2

/-! ### drop -/

theorem drop_inv (st : PState) (m : String) (h : PInv st) : PInv (pDrop st m) := by
  unfold pDrop
  by_cases ha : dropApplies st m = true
  · simp only [ha, if_true, appendLog]
    refine ⟨nd_dropMeas _ _ h.ndMem, h.ndIdx, nodup_keys_filter _ _ h.ndData, ?_, ?_, ?_⟩
    rotate_right
    · intro e he
      obtain ⟨he1, he2⟩ := List.mem_filter.1 he
      show (st.series.filter (· != m)).contains e.1.1 = true
      have h1 := h.seriesOK e he1
      simp only [List.contains_eq_mem, decide_eq_true_eq] at h1 ⊢
      exact List.mem_filter.2 ⟨h1, he2⟩
    · intro e he
      obtain ⟨he1, he2⟩ := List.mem_filter.1 he
      show (dropMeas st.mem m).lookup (e.1.1, e.1.2.2.1) = some e.2.1
      rw [lookup_dropMeas]
      have : e.1.1 ≠ m := by simpa using he2
      simp [this, h.typed e he1]
    · show SEq (replay (st.idx.getD []) (st.log.getD [] ++ [[Change.del m]]).flatten) (dropMeas st.mem m)
      simp only [List.flatten_append, List.flatten_cons, List.flatten_nil, List.append_nil]
      rw [replay_append]
      exact replay_congr h.disk [Change.del m]
  · simp only [ha, Bool.false_eq_true, if_false]; exact h

theorem pDrop_sub (st : PState) (m : String) (k : FKey) (t : FType)
    (h : (pDrop st m).mem.lookup k = some t) : st.mem.lookup k = some t := by
  unfold pDrop at h
  by_cases ha : dropApplies st m = true
  · simp only [ha, if_true, appendLog] at h
    have h' : (dropMeas st.mem m).lookup k = some t := h
    rw [lookup_dropMeas] at h'
    by_cases hk : k.1 = m
    · simp [hk] at h'
    · simpa [hk] using h'
  · simpa [ha] using h

theorem pDrop_others (st : PState) (m : String) (k : FKey) (hk : k.1 ≠ m) :
    (pDrop st m).mem.lookup k = st.mem.lookup k := by
  unfold pDrop
  by_cases ha : dropApplies st m = true
  · simp only [ha, if_true, appendLog]
    show (dropMeas st.mem m).lookup k = st.mem.lookup k
    rw [lookup_dropMeas]; simp [hk]
  · simp [ha]

theorem lookup_filter_meas (s : Schema) (m : String) (k : FKey) :
    (s.filter (fun e => e.1.1 != m)).lookup k = if k.1 = m then none else s.lookup k :=
  lookup_dropMeas s m k

theorem drop_ok (M : Mem) (st : PState) (m : String) (hI : PInv st) (hR : Rel M st) :
    (stepFails M (.drop m true (seen (pDrop st m)))).1 = none ∧
    Rel (stepFails M (.drop m true (seen (pDrop st m)))).2 (pDrop st m) := by
  have hI' := drop_inv st m hI
  rw [seen_eq _ hI']
  have hsub : subSchema (pDrop st m).mem M.cur.sch = true := by
    rw [hR.cur]; exact subSchema_of _ _ hI'.ndMem (pDrop_sub st m)
  have hothers : sameSchema (M.cur.sch.filter (fun e => e.1.1 != m))
      ((pDrop st m).mem.filter (fun e => e.1.1 != m)) = true := by
    rw [hR.cur]
    apply sameSchema_of_seq _ _ (nd_dropMeas _ _ hI.ndMem) (nd_dropMeas _ _ hI'.ndMem)
    intro k
    show (dropMeas st.mem m).lookup k = (dropMeas (pDrop st m).mem m).lookup k
    rw [lookup_dropMeas, lookup_dropMeas]
    by_cases hk : k.1 = m
    · simp [hk]
    · simp [hk, pDrop_others st m k hk]
  have hgone : ((storeOf M.cur).any (fun e => e.1.1 == m) && hasMeas (pDrop st m).mem m) = false := by
    by_cases hd : (storeOf M.cur).any (fun e => e.1.1 == m) = true
    · rw [hR.cur] at hd
      simp only [storeOf, Option.getD_some, List.any_eq_true, beq_iff_eq] at hd
      obtain ⟨e, he, hem⟩ := hd
      have happ : dropApplies st m = true := by
        unfold dropApplies
        have h1 := hI.seriesOK e he
        rw [hem] at h1
        have h2 : st.data.isEmpty = false := by
          cases hdd : st.data with
          | nil => rw [hdd] at he; cases he
          | cons _ _ => rfl
        rw [h1, h2]; rfl
      have hmem : (pDrop st m).mem = dropMeas st.mem m := by unfold pDrop; simp [happ, appendLog]
      rw [hmem, hasMeas_false_of_lookup _ (nd_dropMeas _ _ hI.ndMem) m
        (fun k t hk => by
          rw [lookup_dropMeas] at hk
          intro hkm; simp [hkm] at hk)]
      simp
    · simp [hd]
  constructor
  · simp only [stepFails, Bool.not_true, Bool.false_eq_true, if_false]
    rw [seenFails_ok _ hI', hothers, hsub, hgone]
    simp
  · simp only [stepFails, Bool.not_true, Bool.false_eq_true, if_false]
    refine ⟨rfl, ?_⟩
    have hkeep : ∀ m' ∈ M.dropped, hasMeas (pDrop st m).mem m' = false := by
      intro m' hm'
      apply hasMeas_false_of_lookup _ hI'.ndMem
      intro k t hk
      exact lookup_of_hasMeas_false _ _ (hR.dropped m' hm') k t (pDrop_sub st m k t hk)
    intro m' hm'
    by_cases hrem : hasMeas (pDrop st m).mem m = true
    · simp only [hrem, Bool.not_true, Bool.false_eq_true, if_false] at hm'
      exact hkeep m' (List.mem_filter.1 hm').1
    · have hrem' : hasMeas (pDrop st m).mem m = false := by simpa using hrem
      simp only [hrem', Bool.not_false, if_true] at hm'
      split at hm'
      · exact hkeep m' hm'
      · rcases List.mem_cons.1 hm' with rfl | h1
        · exact hrem'
        · exact hkeep m' h1

/-! ### look -/

theorem look_ok (M : Mem) (st : PState) (hI : PInv st) (hR : Rel M st) :
    (stepFails M (.look (seen st))).1 = none ∧ Rel (stepFails M (.look (seen st))).2 st := by
  rw [seen_eq _ hI]
  constructor
  · simp only [stepFails]
    rw [seenFails_ok _ hI, hR.cur]
    simp [sameSchema_of_seq _ _ hI.ndMem hI.ndMem (SEq.refl _), storeOf, sameStore_self _ hI.ndData]
  · simp only [stepFails]
    exact ⟨rfl, hR.dropped⟩

theorem flushed_inv (st : PState) (h : PInv st) : PInv (flushed st) :=
  ⟨h.ndMem, h.ndIdx, h.ndData, h.typed, h.disk, h.seriesOK⟩

theorem snap_ok (M : Mem) (st : PState) (hI : PInv st) (hR : Rel M st) :
    (stepFails M (step10 st .snap).2).1 = none ∧ PInv (step10 st .snap).1 ∧
    Rel (stepFails M (step10 st .snap).2).2 (step10 st .snap).1 := by
  simp only [step10]
  have h := look_ok M (flushed st) (flushed_inv st hI) ⟨hR.cur, hR.dropped⟩
  exact ⟨h.1, flushed_inv st hI, h.2⟩

/-! ### restarts -/

theorem hasMeas_transfer (a b : Schema) (hb : ND b) (m : String) (ha : hasMeas a m = false)
    (h : ∀ k t, b.lookup k = some t → a.lookup k = some t) : hasMeas b m = false := by
  apply hasMeas_false_of_lookup _ hb
  intro k t hk
  exact lookup_of_hasMeas_false _ _ ha k t (h k t hk)

/-- a restart from files that reconstruct the in-memory field set is invisible -/
theorem restart_ok (M : Mem) (st : PState) (kind : Restart) (stc : PState) (n : Nat)
    (hI : PInv st) (hR : Rel M st)
    (hIdx : ND (stc.idx.getD [])) (hdata : stc.data = st.data) (hser : stc.series = st.series)
    (hseq : SEq (replay (stc.idx.getD []) (cutLog (stc.log.getD []) n).flatten) st.mem) :
    (stepFails M (reopened (.restart kind) stc n).2).1 = none ∧
    PInv (reopened (.restart kind) stc n).1 ∧
    Rel (stepFails M (reopened (.restart kind) stc n).2).2 (reopened (.restart kind) stc n).1 := by
  obtain ⟨st', h0, hI', hs, hd⟩ := reopen_inv stc n st.mem hIdx (by rw [hdata]; exact hI.ndData)
    (by rw [hdata, hser]; exact hI.seriesOK) hseq (by rw [hdata]; exact hI.typed)
  unfold reopened
  simp only [h0]
  rw [seen_eq _ hI']
  have hdrop : ∀ m ∈ M.dropped, hasMeas st'.mem m = false := fun m hm =>
    hasMeas_transfer _ _ hI'.ndMem m (hR.dropped m hm) (fun k t hk => by rw [← hs k]; exact hk)
  refine ⟨?_, hI', ⟨rfl, hdrop⟩⟩
  simp only [stepFails, Bool.not_true, Bool.false_eq_true, if_false]
  rw [seenFails_ok _ hI']
  have h1 : M.dropped.any (hasMeas st'.mem) = false := by
    rw [List.any_eq_false]; intro m hm; simp [hdrop m hm]
  have h2 : sameSchema M.cur.sch st'.mem = true := by
    rw [hR.cur]; exact sameSchema_of_seq _ _ hI.ndMem hI'.ndMem hs.symm
  have h3 : sameStore (storeOf M.cur) (storeOf { sch := st'.mem, store := some st'.data }) = true := by
    rw [hR.cur]; simp only [storeOf, Option.getD_some]; rw [hd, hdata]; exact sameStore_self _ hI.ndData
  simp [h1, h2, h3]

theorem cutLog_nil (n : Nat) : cutLog [] n = [] := rfl

theorem reopen_ok (M : Mem) (st : PState) (hI : PInv st) (hR : Rel M st) :
    (stepFails M (step10 st .reopen).2).1 = none ∧ PInv (step10 st .reopen).1 ∧
    Rel (stepFails M (step10 st .reopen).2).2 (step10 st .reopen).1 := by
  simp only [step10]
  cases hl : st.log with
  | none =>
    have hc : closeFields st = flushed st := by unfold closeFields; rw [hl]
    rw [hc]
    refine restart_ok M st .clean (flushed st) _ hI hR hI.ndIdx rfl rfl ?_
    show SEq (replay (st.idx.getD []) (cutLog (st.log.getD []) (logLen (st.log.getD []))).flatten) st.mem
    rw [cutLog_full _ _ (Nat.le_refl _)]; exact hI.disk
  | some recs =>
    have hc : closeFields st = writeToFile (flushed st) := by unfold closeFields; rw [hl]
    rw [hc]
    refine restart_ok M st .clean (writeToFile (flushed st)) _ hI hR ?_ rfl rfl ?_
    · show ND ((if st.mem.isEmpty then none else some st.mem : Option Schema).getD [])
      by_cases he : st.mem.isEmpty = true
      · simp only [he, if_true, Option.getD_none]; exact List.nodup_nil
      · simp only [he, Bool.false_eq_true, if_false, Option.getD_some]; exact hI.ndMem
    · show SEq (replay ((if st.mem.isEmpty then none else some st.mem : Option Schema).getD [])
        (cutLog [] _).flatten) st.mem
      rw [cutLog_nil]
      by_cases he : st.mem.isEmpty = true
      · simp only [he, if_true, Option.getD_none]
        rw [List.isEmpty_iff.1 he]; exact SEq.refl _
      · simp only [he, Bool.false_eq_true, if_false, Option.getD_some]; exact SEq.refl _

theorem crash_seq (st : PState) (hI : PInv st) :
    SEq (replay (st.idx.getD []) (cutLog (st.log.getD []) (fullLog st)).flatten) st.mem := by
  unfold fullLog
  rw [cutLog_full _ _ (Nat.le_refl _)]
  exact hI.disk

theorem crash_ok (M : Mem) (st : PState) (hI : PInv st) (hR : Rel M st) :
    (stepFails M (step10 st .crash).2).1 = none ∧ PInv (step10 st .crash).1 ∧
    Rel (stepFails M (step10 st .crash).2).2 (step10 st .crash).1 := by
  simp only [step10]
  exact restart_ok M st .kill st _ hI hR hI.ndIdx rfl rfl (crash_seq st hI)

theorem crashInClose_ok (M : Mem) (st : PState) (p : CrashPoint) (hI : PInv st) (hR : Rel M st) :
    (stepFails M (step10 st (.crashInClose p)).2).1 = none ∧ PInv (step10 st (.crashInClose p)).1 ∧
    Rel (stepFails M (step10 st (.crashInClose p)).2).2 (step10 st (.crashInClose p)).1 := by
  simp only [step10]
  cases hc : crashInClose st p with
  | none => exact reopen_ok M st hI hR
  | some stc =>
    simp only
    unfold crashInClose at hc
    cases hl : st.log with
    | none => simp [hl] at hc
    | some recs =>
      simp only [hl] at hc
      cases p with
      | tmpWritten =>
        simp only at hc
        by_cases he : st.mem.isEmpty = true
        · simp [he] at hc
        · simp only [he, Bool.false_eq_true, if_false, Option.some.injEq] at hc
          subst hc
          exact restart_ok M st _ (flushed st) _ hI hR hI.ndIdx rfl rfl (crash_seq st hI)
      | renamed =>
        simp only at hc
        by_cases he : st.mem.isEmpty = true
        · simp [he] at hc
        · simp only [he, Bool.false_eq_true, if_false, Option.some.injEq] at hc
          subst hc
          apply restart_ok M st _ _ _ hI hR
          · exact hI.ndMem
          · rfl
          · rfl
          · -- the new snapshot already contains the log: the replay is idempotent
            show SEq (replay st.mem (cutLog (st.log.getD []) (logLen (st.log.getD []))).flatten) st.mem
            rw [cutLog_full _ _ (Nat.le_refl _)]
            have hd := hI.disk
            exact SEq.trans (replay_congr hd.symm _) (SEq.trans (replay_idem _ _) hd)
      | idxRemoved =>
        simp only at hc
        by_cases he : st.mem.isEmpty = true
        · simp only [he, if_true, Option.some.injEq] at hc
          subst hc
          apply restart_ok M st _ _ _ hI hR
          · exact List.nodup_nil
          · rfl
          · rfl
          · show SEq (replay [] (cutLog (st.log.getD []) (logLen (st.log.getD []))).flatten) st.mem
            rw [cutLog_full _ _ (Nat.le_refl _)]
            have hnil : st.mem = [] := List.isEmpty_iff.1 he
            rw [hnil]
            apply replay_nil_of_empty (st.idx.getD [])
            have hd := hI.disk
            rw [hnil] at hd
            exact hd
        · simp [he] at hc

theorem crashInOpen_ok (M : Mem) (st : PState) (p : CrashPoint) (hI : PInv st) (hR : Rel M st) :
    (stepFails M (step10 st (.crashInOpen p)).2).1 = none ∧ PInv (step10 st (.crashInOpen p)).1 ∧
    Rel (stepFails M (step10 st (.crashInOpen p)).2).2 (step10 st (.crashInOpen p)).1 := by
  simp only [step10]
  cases hc : crashInOpen st p with
  | none => exact restart_ok M st .kill st _ hI hR hI.ndIdx rfl rfl (crash_seq st hI)
  | some stc =>
    simp only
    unfold crashInOpen at hc
    simp only at hc
    have hd := hI.disk
    by_cases hr : (st.log.getD []).isEmpty = true
    · simp only [hr, if_true] at hc
      have hnil : st.log.getD [] = [] := List.isEmpty_iff.1 hr
      cases p with
      | tmpWritten => simp at hc
      | renamed => simp at hc
      | idxRemoved =>
        simp only at hc
        by_cases he : (replay (st.idx.getD []) (st.log.getD []).flatten).isEmpty = true
        · simp only [he, if_true, Option.some.injEq] at hc
          subst hc
          apply restart_ok M st _ _ _ hI hR
          · exact List.nodup_nil
          · rfl
          · rfl
          · show SEq (replay [] (cutLog [] _).flatten) st.mem
            rw [cutLog_nil]
            have h0 := List.isEmpty_iff.1 he
            rw [h0] at hd
            exact hd
        · simp [he] at hc
    · simp only [hr, Bool.false_eq_true, if_false] at hc
      cases p with
      | tmpWritten =>
        simp only at hc
        by_cases he : (replay (st.idx.getD []) (st.log.getD []).flatten).isEmpty = true
        · simp [he] at hc
        · simp only [he, Bool.false_eq_true, if_false, Option.some.injEq] at hc
          subst hc
          exact restart_ok M st _ st _ hI hR hI.ndIdx rfl rfl (crash_seq st hI)
      | renamed =>
        simp only at hc
        by_cases he : (replay (st.idx.getD []) (st.log.getD []).flatten).isEmpty = true
        · simp [he] at hc
        · simp only [he, Bool.false_eq_true, if_false, Option.some.injEq] at hc
          subst hc
          apply restart_ok M st _ _ _ hI hR
          · exact nd_replay _ _ hI.ndIdx
          · rfl
          · rfl
          · show SEq (replay (replay (st.idx.getD []) (st.log.getD []).flatten)
                (cutLog (st.log.getD []) (logLen (st.log.getD []))).flatten) st.mem
            rw [cutLog_full _ _ (Nat.le_refl _)]
            exact SEq.trans (replay_idem _ _) hd
      | idxRemoved =>
        simp only at hc
        by_cases he : (replay (st.idx.getD []) (st.log.getD []).flatten).isEmpty = true
        · simp only [he, if_true, Option.some.injEq] at hc
          subst hc
          apply restart_ok M st _ _ _ hI hR
          · exact List.nodup_nil
          · rfl
          · rfl
          · show SEq (replay [] (cutLog (st.log.getD []) (logLen (st.log.getD []))).flatten) st.mem
            rw [cutLog_full _ _ (Nat.le_refl _)]
            have h0 := List.isEmpty_iff.1 he
            have h1 : SEq (replay (st.idx.getD []) (st.log.getD []).flatten) [] := by rw [h0]; exact SEq.refl _
            exact SEq.trans (replay_nil_of_empty _ _ h1) (by rw [h0] at hd; exact hd)
        · simp [he] at hc

/-! ### crashes inside the append to fields.idxl -/

/-- restart after a write that crashed inside its append: the files reconstruct a
    field set `T` that keeps the record and adds only what the batch carries -/
theorem tornWrite_ok (M : Mem) (st : PState) (b : List Point) (stc : PState) (n : Nat) (T : Schema)
    (hI : PInv st) (hR : Rel M st)
    (hIdx : ND (stc.idx.getD [])) (hdata : stc.data = st.data)
    (hSer : ∀ e ∈ stc.data, stc.series.contains e.1.1 = true)
    (hseq : SEq (replay (stc.idx.getD []) (cutLog (stc.log.getD []) n).flatten) T)
    (hkeep : ∀ k t, st.mem.lookup k = some t → T.lookup k = some t)
    (hnew : ∀ k t, T.lookup k = some t → st.mem.lookup k = some t ∨ carries b k t = true) :
    (stepFails M (reopened (.tornWrite b) stc n).2).1 = none ∧
    PInv (reopened (.tornWrite b) stc n).1 ∧
    Rel (stepFails M (reopened (.tornWrite b) stc n).2).2 (reopened (.tornWrite b) stc n).1 := by
  obtain ⟨st', h0, hI', hs, hd⟩ := reopen_inv stc n T hIdx (by rw [hdata]; exact hI.ndData) hSer hseq
    (by rw [hdata]; exact fun e he => hkeep _ _ (hI.typed e he))
  unfold reopened
  simp only [h0]
  rw [seen_eq _ hI']
  have hdrop : ∀ m ∈ M.dropped.filter (fun m => !b.any (fun p => p.meas == m)), hasMeas st'.mem m = false := by
    intro m hm
    obtain ⟨hm1, hm2⟩ := List.mem_filter.1 hm
    apply hasMeas_false_of_lookup _ hI'.ndMem
    intro k t hk
    rw [hs k] at hk
    rcases hnew k t hk with h1 | h1
    · exact lookup_of_hasMeas_false _ _ (hR.dropped m hm1) k t h1
    · intro hkm
      unfold carries at h1
      rw [List.any_eq_true] at h1
      obtain ⟨p, hp, hpc⟩ := h1
      simp only [Bool.and_eq_true, beq_iff_eq] at hpc
      have : b.any (fun p => p.meas == m) = true := by
        rw [List.any_eq_true]; exact ⟨p, hp, by simp [hpc.1, hkm]⟩
      simp [this] at hm2
  refine ⟨?_, hI', ⟨rfl, hdrop⟩⟩
  simp only [stepFails, Bool.not_true, Bool.false_eq_true, if_false]
  rw [seenFails_ok _ hI']
  have h1 : (M.dropped.filter (fun m => !b.any (fun p => p.meas == m))).any (hasMeas st'.mem) = false := by
    rw [List.any_eq_false]; intro m hm; simp [hdrop m hm]
  have h2 : subSchema M.cur.sch st'.mem = true := by
    rw [hR.cur]; exact subSchema_of _ _ hI.ndMem (fun k t hk => by rw [hs k]; exact hkeep k t hk)
  have h3 : st'.mem.all (fun e => M.cur.sch.lookup e.1 == some e.2 || carries b e.1 e.2) = true := by
    rw [List.all_eq_true]; intro e he
    have := mem_lookup_of_nodup _ hI'.ndMem e he
    rw [hs e.1] at this
    rw [hR.cur]
    rcases hnew e.1 e.2 this with h | h
    · simp [h]
    · simp [h]
  have h4 : sameStore (storeOf M.cur) (storeOf { sch := st'.mem, store := some st'.data }) = true := by
    rw [hR.cur]; simp only [storeOf, Option.getD_some]; rw [hd, hdata]; exact sameStore_self _ hI.ndData
  simp [h1, h2, h3, h4]

theorem tornBytes_eq (recs : List ChangeSet) (last : ChangeSet) (j : Int) :
    ∃ x, tornBytes recs last j = logLen recs + x := ⟨_, rfl⟩

theorem writeTorn_ok (M : Mem) (st : PState) (j : Int) (b : List Point) (hI : PInv st) (hR : Rel M st) :
    (stepFails M (step10 st (.writeTorn j b)).2).1 = none ∧ PInv (step10 st (.writeTorn j b)).1 ∧
    Rel (stepFails M (step10 st (.writeTorn j b)).2).2 (step10 st (.writeTorn j b)).1 := by
  simp only [step10]
  cases hc : pWriteCrash st b with
  | none =>
    simp only
    exact ⟨(write_ok M st b hI hR).1, write_inv st b hI, (write_ok M st b hI hR).2⟩
  | some r =>
    obtain ⟨stc, last⟩ := r
    simp only
    unfold pWriteCrash at hc
    have hcr := (validate_eq st.mem b).2.1
    simp only [hcr] at hc
    by_cases he : (verdicts st.mem b).2.1.isEmpty = true
    · simp [he] at hc
    · simp only [he, Bool.false_eq_true, if_false, Option.some.injEq, Prod.mk.injEq] at hc
      obtain ⟨hstc, hlast⟩ := hc
      subst hstc hlast
      obtain ⟨x, hx⟩ := tornBytes_eq (st.log.getD []) (createdRecord (verdicts st.mem b).2.1) j
      rw [hx]
      have hlog : (appendLog { st with series := touchSeries st.series b }
          (createdRecord (verdicts st.mem b).2.1)).log.getD []
          = st.log.getD [] ++ [createdRecord (verdicts st.mem b).2.1] := rfl
      by_cases hfull : recordLen (createdRecord (verdicts st.mem b).2.1) ≤ x
      · -- the whole record is in the file: the created fields are on record
        refine tornWrite_ok M st b (appendLog { st with series := touchSeries st.series b } _) _
          (verdicts st.mem b).1 hI hR hI.ndIdx rfl (fun e he => touchSeries_old _ _ _ (hI.seriesOK e he)) ?_ ?_ ?_
        · rw [hlog, cutLog_append]
          simp only [hfull, if_true, List.flatten_append, List.flatten_cons, List.flatten_nil, List.append_nil]
          show SEq (replay (st.idx.getD []) ((st.log.getD []).flatten ++ _)) _
          rw [replay_append, ← verdicts_replay b st.mem]
          exact replay_congr hI.disk _
        · exact fun k t hk => verdicts_mono b st.mem k t hk
        · exact fun k t hk => verdicts_new b st.mem k t hk
      · -- the record is cut: it is dropped by the load
        refine tornWrite_ok M st b (appendLog { st with series := touchSeries st.series b } _) _
          st.mem hI hR hI.ndIdx rfl (fun e he => touchSeries_old _ _ _ (hI.seriesOK e he)) ?_ ?_ ?_
        · rw [hlog, cutLog_append]
          simp only [hfull, if_false]
          exact hI.disk
        · exact fun k t hk => hk
        · exact fun k t hk => Or.inl hk

/-- restart after a drop of `m` that crashed inside its append -/
theorem tornDrop_ok (M : Mem) (st : PState) (m : String) (stc : PState) (n : Nat) (T : Schema)
    (hI : PInv st) (hR : Rel M st)
    (hIdx : ND (stc.idx.getD [])) (hdata : stc.data = st.data.filter (fun e => e.1.1 != m))
    (hSer : ∀ e ∈ stc.data, stc.series.contains e.1.1 = true)
    (hseq : SEq (replay (stc.idx.getD []) (cutLog (stc.log.getD []) n).flatten) T)
    (hsub : ∀ k t, T.lookup k = some t → st.mem.lookup k = some t)
    (hkeep : ∀ k t, st.mem.lookup k = some t → k.1 ≠ m → T.lookup k = some t) :
    (stepFails M (reopened (.tornDrop m) stc n).2).1 = none ∧
    PInv (reopened (.tornDrop m) stc n).1 ∧
    Rel (stepFails M (reopened (.tornDrop m) stc n).2).2 (reopened (.tornDrop m) stc n).1 := by
  have hnd : (stc.data.map (·.1)).Nodup := by rw [hdata]; exact nodup_keys_filter _ _ hI.ndData
  obtain ⟨st', h0, hI', hs, hd⟩ := reopen_inv stc n T hIdx hnd hSer hseq
    (by
      rw [hdata]; intro e he
      obtain ⟨he1, he2⟩ := List.mem_filter.1 he
      exact hkeep _ _ (hI.typed e he1) (by simpa using he2))
  unfold reopened
  simp only [h0]
  rw [seen_eq _ hI']
  have hsub' : ∀ k t, st'.mem.lookup k = some t → st.mem.lookup k = some t :=
    fun k t hk => hsub k t (by rw [← hs k]; exact hk)
  have hkeepd : ∀ m' ∈ M.dropped, hasMeas st'.mem m' = false := fun m' hm' =>
    hasMeas_transfer _ _ hI'.ndMem m' (hR.dropped m' hm') hsub'
  refine ⟨?_, hI', ⟨rfl, ?_⟩⟩
  · simp only [stepFails, Bool.not_true, Bool.false_eq_true, if_false]
    rw [seenFails_ok _ hI']
    have h1 : (M.dropped.filter (· != m)).any (hasMeas st'.mem) = false := by
      rw [List.any_eq_false]; intro m' hm'; simp [hkeepd m' (List.mem_filter.1 hm').1]
    have h2 : subSchema (M.cur.sch.filter (fun e => e.1.1 != m)) st'.mem = true := by
      rw [hR.cur]
      apply subSchema_of _ _ (nd_dropMeas _ _ hI.ndMem)
      intro k t hk
      have hk' : (dropMeas st.mem m).lookup k = some t := hk
      rw [lookup_dropMeas] at hk'
      by_cases hkm : k.1 = m
      · simp [hkm] at hk'
      · simp only [hkm, if_false] at hk'
        rw [hs k]; exact hkeep k t hk' hkm
    have h3 : subSchema st'.mem M.cur.sch = true := by
      rw [hR.cur]; exact subSchema_of _ _ hI'.ndMem hsub'
    have h4 : sameStore ((storeOf M.cur).filter (fun e => e.1.1 != m))
        (storeOf { sch := st'.mem, store := some st'.data }) = true := by
      rw [hR.cur]; simp only [storeOf, Option.getD_some]; rw [hd, hdata]
      exact sameStore_self _ (nodup_keys_filter _ _ hI.ndData)
    simp [h1, h2, h3, h4]
  · simp only [stepFails, Bool.not_true, Bool.false_eq_true, if_false]
    intro m' hm'
    by_cases hh : hasMeas st'.mem m = true
    · simp only [hh, if_true] at hm'
      exact hkeepd m' (List.mem_filter.1 hm').1
    · have hh' : hasMeas st'.mem m = false := by simpa using hh
      simp only [hh', Bool.false_eq_true, if_false] at hm'
      split at hm'
      · exact hkeepd m' hm'
      · rcases List.mem_cons.1 hm' with rfl | h1
        · exact hh'
        · exact hkeepd m' h1

theorem dropTorn_ok (M : Mem) (st : PState) (j : Int) (m : String) (hI : PInv st) (hR : Rel M st) :
    (stepFails M (step10 st (.dropTorn j m)).2).1 = none ∧ PInv (step10 st (.dropTorn j m)).1 ∧
    Rel (stepFails M (step10 st (.dropTorn j m)).2).2 (step10 st (.dropTorn j m)).1 := by
  simp only [step10]
  by_cases ha : dropApplies st m = true
  · simp only [ha, if_true]
    obtain ⟨x, hx⟩ := tornBytes_eq (st.log.getD []) [Change.del m] j
    rw [hx]
    have hlog : (pDrop st m).log.getD [] = st.log.getD [] ++ [[Change.del m]] := by
      unfold pDrop; simp [ha, appendLog]
    have hidx : (pDrop st m).idx = st.idx := by unfold pDrop; simp [ha, appendLog]
    have hdat : (pDrop st m).data = st.data.filter (fun e => e.1.1 != m) := by
      unfold pDrop; simp [ha, appendLog]
    by_cases hfull : recordLen [Change.del m] ≤ x
    · apply tornDrop_ok M st m _ _ (dropMeas st.mem m) hI hR (by rw [hidx]; exact hI.ndIdx) hdat
        (drop_inv st m hI).seriesOK
      · rw [hlog, hidx, cutLog_append]
        simp only [hfull, if_true, List.flatten_append, List.flatten_cons, List.flatten_nil, List.append_nil]
        rw [replay_append]
        exact replay_congr hI.disk [Change.del m]
      · intro k t hk
        rw [lookup_dropMeas] at hk
        by_cases hkm : k.1 = m
        · simp [hkm] at hk
        · simpa [hkm] using hk
      · intro k t hk hkm
        rw [lookup_dropMeas]; simp [hkm, hk]
    · apply tornDrop_ok M st m _ _ st.mem hI hR (by rw [hidx]; exact hI.ndIdx) hdat
        (drop_inv st m hI).seriesOK
      · rw [hlog, hidx, cutLog_append]
        simp only [hfull, if_false]
        exact hI.disk
      · exact fun k t hk => hk
      · exact fun k t hk _ => hk
  · simp only [ha, Bool.false_eq_true, if_false]
    have hp : pDrop st m = st := by unfold pDrop; simp [ha]
    have := drop_ok M st m hI hR
    rw [hp] at this
    exact ⟨this.1, hI, this.2⟩

/-! ### two racing writers -/

theorem pWrite_ok_accepted (st : PState) (b : List Point) (h : (pWrite st b).2 = .ok) :
    ∀ pv ∈ (verdicts st.mem b).2.2, pv.2.accepted = true := by
  rw [pWrite_res] at h
  rcases writePoints_res { sch := st.mem, data := st.data } b with ⟨_, h2⟩ | ⟨r, h1⟩
  · have h2' : countDropped (verdicts st.mem b).2.2 = 0 := h2
    unfold countDropped at h2'
    rw [List.countP_eq_zero] at h2'
    intro pv hpv
    have := h2' pv hpv
    simpa using this
  · rw [h1] at h; cases h

theorem pWrite_not_hard (st : PState) (b : List Point) : hardErrorOf (pWrite st b).2 = none := by
  rw [pWrite_res]
  rcases writePoints_res { sch := st.mem, data := st.data } b with ⟨h1, _⟩ | ⟨r, h1⟩ <;> rw [h1] <;> rfl

theorem allOnRecord_of (s : Schema) (b : List Point)
    (h : ∀ p ∈ b, ∀ f ∈ p.fields, f.name ≠ timeName → s.lookup (p.meas, f.name) = some f.ty) :
    allOnRecord s b = true := by
  unfold allOnRecord
  rw [List.all_eq_true]; intro p hp
  rw [List.all_eq_true]; intro f hf
  by_cases hn : f.name = timeName
  · simp [hn]
  · simp [h p hp f hf hn]

theorem ok_on_record (st : PState) (b : List Point) (h : (pWrite st b).2 = .ok) :
    ∀ p ∈ b, ∀ f ∈ p.fields, f.name ≠ timeName → (pWrite st b).1.mem.lookup (p.meas, f.name) = some f.ty := by
  intro p hp f hf hn
  rw [pWrite_mem]
  rw [← verdicts_map_fst st.mem b] at hp
  obtain ⟨pv, hpv, rfl⟩ := List.mem_map.1 hp
  exact verdicts_typed b st.mem pv.1 pv.2 hpv (pWrite_ok_accepted st b h pv hpv) f hf hn

theorem race_ok (M : Mem) (st : PState) (a b : List Point) (hI : PInv st) (hR : Rel M st) :
    (stepFails M (step10 st (.race a b)).2).1 = none ∧ PInv (step10 st (.race a b)).1 ∧
    Rel (stepFails M (step10 st (.race a b)).2).2 (step10 st (.race a b)).1 := by
  simp only [step10]
  have hI1 := write_inv st a hI
  have hI2 := write_inv (pWrite st a).1 b hI1
  rw [seen_eq _ hI2]
  have hm1 : ∀ k t, st.mem.lookup k = some t → (pWrite st a).1.mem.lookup k = some t := by
    intro k t hk; rw [pWrite_mem]; exact verdicts_mono a st.mem k t hk
  have hm2 : ∀ k t, (pWrite st a).1.mem.lookup k = some t →
      (pWrite (pWrite st a).1 b).1.mem.lookup k = some t := by
    intro k t hk; rw [pWrite_mem]; exact verdicts_mono b _ k t hk
  refine ⟨?_, hI2, ⟨rfl, ?_⟩⟩
  · simp only [stepFails]
    rw [pWrite_not_hard, pWrite_not_hard, seenFails_ok _ hI2,
      subSchema_of _ _ (by rw [hR.cur]; exact hI.ndMem) (by rw [hR.cur]; exact fun k t hk => hm2 k t (hm1 k t hk))]
    have ha : ((pWrite st a).2 == .ok && !allOnRecord (pWrite (pWrite st a).1 b).1.mem a) = false := by
      by_cases h : (pWrite st a).2 = .ok
      · rw [allOnRecord_of _ a (fun p hp f hf hn => hm2 _ _ (ok_on_record st a h p hp f hf hn))]; simp
      · simp [h]
    have hb : ((pWrite (pWrite st a).1 b).2 == .ok && !allOnRecord (pWrite (pWrite st a).1 b).1.mem b) = false := by
      by_cases h : (pWrite (pWrite st a).1 b).2 = .ok
      · rw [allOnRecord_of _ b (ok_on_record _ b h)]; simp
      · simp [h]
    simp [ha, hb]
  · simp only [stepFails]
    intro m hm
    obtain ⟨hm1', hm2'⟩ := List.mem_filter.1 hm
    apply hasMeas_false_of_lookup _ hI2.ndMem
    intro k t hk
    have hcarry : ∀ (c : List Point), (∀ p ∈ c, p ∈ a ++ b) → carries c k t = true → k.1 ≠ m := by
      intro c hc h1 hkm
      unfold carries at h1
      rw [List.any_eq_true] at h1
      obtain ⟨p, hp, hpc⟩ := h1
      simp only [Bool.and_eq_true, beq_iff_eq] at hpc
      have : (a ++ b).any (fun p => p.meas == m) = true := by
        rw [List.any_eq_true]; exact ⟨p, hc p hp, by simp [hpc.1, hkm]⟩
      simp [this] at hm2'
    rw [pWrite_mem] at hk
    rcases verdicts_new b _ k t hk with h1 | h1
    · rw [pWrite_mem] at h1
      rcases verdicts_new a _ k t h1 with h2 | h2
      · exact lookup_of_hasMeas_false _ _ (hR.dropped m hm1') k t h2
      · exact hcarry a (fun p hp => List.mem_append_left _ hp) h2
    · exact hcarry b (fun p hp => List.mem_append_right _ hp) h1

/-! ### the theorems -/

theorem step_ok (M : Mem) (st : PState) (op : Op10) (hI : PInv st) (hR : Rel M st) :
    (stepFails M (step10 st op).2).1 = none ∧ PInv (step10 st op).1 ∧
    Rel (stepFails M (step10 st op).2).2 (step10 st op).1 := by
  cases op with
  | write b => exact ⟨(write_ok M st b hI hR).1, write_inv st b hI, (write_ok M st b hI hR).2⟩
  | drop m => exact ⟨(drop_ok M st m hI hR).1, drop_inv st m hI, (drop_ok M st m hI hR).2⟩
  | reopen => exact reopen_ok M st hI hR
  | crash => exact crash_ok M st hI hR
  | writeTorn j b => exact writeTorn_ok M st j b hI hR
  | dropTorn j m => exact dropTorn_ok M st j m hI hR
  | crashInClose p => exact crashInClose_ok M st p hI hR
  | crashInOpen p => exact crashInOpen_ok M st p hI hR
  | race a b => exact race_ok M st a b hI hR
  | snap => exact snap_ok M st hI hR
  | look => exact ⟨(look_ok M st hI hR).1, hI, (look_ok M st hI hR).2⟩

theorem firstFailure_trace (M : Mem) (st : PState) (hI : PInv st) (hR : Rel M st) (ops : List Op10) :
    firstFailure M (trace10 st ops) = none := by
  induction ops generalizing M st with
  | nil => rfl
  | cons op ops ih =>
    obtain ⟨h1, h2, h3⟩ := step_ok M st op hI hR
    simp only [trace10, firstFailure]
    cases hs : stepFails M (step10 st op).2 with
    | mk r M' =>
      rw [hs] at h1 h3
      simp only at h1 h3
      subst h1
      exact ih M' _ h2 h3

/-- the model state after a history -/
def run : PState → List Op10 → PState
  | st, [] => st
  | st, o :: os => run (step10 st o).1 os

theorem run_inv (st : PState) (h : PInv st) (ops : List Op10) : PInv (run st ops) := by
  induction ops generalizing st with
  | nil => exact h
  | cons o os ih =>
    have hR : Rel { cur := { sch := st.mem, store := some st.data }, dropped := [] } st :=
      ⟨rfl, by intro m hm; cases hm⟩
    exact ih _ (step_ok _ st o h hR).2.1

end Influx.Fields.C10Steps
