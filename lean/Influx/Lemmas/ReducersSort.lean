/-
  Lemmas.ReducersSort — Go's insertion sort (Model.Reducers.insertionSort) under a
  strict weak order: permutation, sortedness, stability; rank facts about sorted lists.
-/
import Influx.Model.Reducers
open Influx.Reducers

namespace Influx.Reducers.Lemmas

/-- `lt` is a strict weak order -/
structure StrictWeak {α : Type} (lt : α → α → Bool) : Prop where
  irrefl : ∀ a, lt a a = false
  trans : ∀ a b c, lt a b = true → lt b c = true → lt a c = true
  negTrans : ∀ a b c, lt a b = false → lt b c = false → lt a c = false

theorem StrictWeak.asymm {α : Type} {lt : α → α → Bool} (h : StrictWeak lt) (a b : α)
    (hab : lt a b = true) : lt b a = false := by
  cases hba : lt b a with
  | false => rfl
  | true => have := h.trans a b a hab hba; rw [h.irrefl] at this; cases this

/-- `lt a b := key a < key b` is a strict weak order -/
theorem strictWeak_ofKey {α : Type} (key : α → Int) : StrictWeak (fun a b => decide (key a < key b)) where
  irrefl := by intro a; simp
  trans := by intro a b c h1 h2; simp at *; omega
  negTrans := by intro a b c h1 h2; simp at *; omega

section
variable {α : Type} {lt : α → α → Bool}

theorem insertBack_perm (lt : α → α → Bool) (x : α) (acc : List α) : (insertBack lt x acc).Perm (x :: acc) := by
  induction acc with
  | nil => simp [insertBack]
  | cons y ys ih =>
    simp only [insertBack]
    split
    · exact (List.Perm.cons y ih).trans (List.Perm.swap x y ys)
    · exact List.Perm.refl _

theorem insertionSortAux_perm (lt : α → α → Bool) (xs : List α) : ∀ acc,
    (insertionSortAux lt acc xs).Perm (acc.reverse ++ xs) := by
  induction xs with
  | nil => intro acc; simp [insertionSortAux]
  | cons x xs ih =>
    intro acc
    simp only [insertionSortAux]
    refine (ih _).trans ?_
    have h1 : (insertBack lt x acc).reverse.Perm (x :: acc.reverse) :=
      (List.reverse_perm _).trans ((insertBack_perm lt x acc).trans (List.Perm.cons x (List.reverse_perm acc).symm))
    have h2 : (x :: acc.reverse).Perm (acc.reverse ++ [x]) := by
      have := (List.perm_append_comm (l₁ := [x]) (l₂ := acc.reverse))
      simpa using this
    have h3 := (h1.trans h2).append_right xs
    simpa using h3

theorem insertionSort_perm (lt : α → α → Bool) (xs : List α) : (insertionSort lt xs).Perm xs := by
  simpa [insertionSort] using insertionSortAux_perm lt xs []

/-- the accumulator is kept in descending order -/
def DescSorted (lt : α → α → Bool) (acc : List α) : Prop := List.Pairwise (fun a b => lt a b = false) acc

theorem insertBack_desc (h : StrictWeak lt) (x : α) (acc : List α) (hs : DescSorted lt acc) :
    DescSorted lt (insertBack lt x acc) := by
  induction acc with
  | nil => simp [insertBack, DescSorted]
  | cons y ys ih =>
    have hy := List.pairwise_cons.mp hs
    simp only [insertBack]
    by_cases hxy : lt x y = true
    · simp only [hxy, if_true]
      refine List.pairwise_cons.mpr ⟨?_, ih hy.2⟩
      intro z hz
      have hz' := (insertBack_perm lt x ys).mem_iff.mp hz
      rcases List.mem_cons.mp hz' with rfl | hz''
      · exact h.asymm _ _ hxy
      · exact hy.1 z hz''
    · have hxy' : lt x y = false := by simpa using hxy
      simp only [hxy', Bool.false_eq_true, if_false]
      refine List.pairwise_cons.mpr ⟨?_, hs⟩
      intro z hz
      rcases List.mem_cons.mp hz with rfl | hz'
      · exact hxy'
      · exact h.negTrans x y z hxy' (hy.1 z hz')

theorem insertionSortAux_sorted (h : StrictWeak lt) (xs : List α) : ∀ acc, DescSorted lt acc →
    List.Pairwise (fun a b => lt b a = false) (insertionSortAux lt acc xs) := by
  induction xs with
  | nil =>
    intro acc hs
    simp only [insertionSortAux]
    exact List.pairwise_reverse.mpr hs
  | cons x xs ih =>
    intro acc hs
    simp only [insertionSortAux]
    exact ih _ (insertBack_desc h x acc hs)

/-- the result is ascending: no later element is `lt` an earlier one -/
theorem insertionSort_sorted (h : StrictWeak lt) (xs : List α) :
    List.Pairwise (fun a b => lt b a = false) (insertionSort lt xs) :=
  insertionSortAux_sorted h xs [] List.Pairwise.nil

/-- `a` and `v` are not ordered by `lt` either way -/
def equivB (lt : α → α → Bool) (v a : α) : Bool := !lt a v && !lt v a

theorem insertBack_filter_equiv (h : StrictWeak lt) (v x : α) (acc : List α) :
    (insertBack lt x acc).filter (equivB lt v) =
      if equivB lt v x then x :: acc.filter (equivB lt v) else acc.filter (equivB lt v) := by
  induction acc with
  | nil => cases hx : equivB lt v x <;> simp [insertBack, List.filter, hx]
  | cons y ys ih =>
    simp only [insertBack]
    by_cases hxy : lt x y = true
    · simp only [hxy, if_true, List.filter_cons, ih]
      by_cases hvy : equivB lt v y = true
      · -- then x is not equivalent to v (else x ~ y, contradicting x < y)
        have hvx : equivB lt v x = false := by
          cases hvx : equivB lt v x with
          | false => rfl
          | true =>
            exfalso
            simp only [equivB, Bool.and_eq_true, Bool.not_eq_true'] at hvy hvx
            have := h.negTrans x v y hvx.1 hvy.2
            rw [hxy] at this; cases this
        simp [hvy, hvx]
      · simp [hvy]
    · have hxy' : lt x y = false := by simpa using hxy
      simp only [hxy', Bool.false_eq_true, if_false, List.filter_cons]

/-- **stability**: elements that `lt` does not separate keep their arrival order -/
theorem insertionSortAux_stable (h : StrictWeak lt) (v : α) (xs : List α) : ∀ acc,
    (insertionSortAux lt acc xs).filter (equivB lt v) =
      (acc.filter (equivB lt v)).reverse ++ xs.filter (equivB lt v) := by
  induction xs with
  | nil => intro acc; simp [insertionSortAux, List.filter_reverse]
  | cons x xs ih =>
    intro acc
    simp only [insertionSortAux, ih, insertBack_filter_equiv h, List.filter_cons]
    by_cases hx : equivB lt v x = true <;> simp [hx]

theorem insertionSort_stable (h : StrictWeak lt) (v : α) (xs : List α) :
    (insertionSort lt xs).filter (equivB lt v) = xs.filter (equivB lt v) := by
  simpa [insertionSort] using insertionSortAux_stable h v xs []

/-! ### ranks in a sorted list -/

/-- in an ascending list, the element at index `i` has at most `i` elements `lt` it and
    more than `i` elements not above it -/
theorem sorted_rank (h : StrictWeak lt) (l : List α) (hs : List.Pairwise (fun a b => lt b a = false) l)
    (i : Nat) (x : α) (hx : l[i]? = some x) :
    l.countP (fun a => lt a x) ≤ i ∧ i < l.countP (fun a => !lt x a) := by
  have hi : i < l.length := by
    rcases Nat.lt_or_ge i l.length with h | h
    · exact h
    · rw [List.getElem?_eq_none h] at hx; cases hx
  have hsplit : l = l.take i ++ x :: l.drop (i + 1) := by
    have := List.take_append_drop i l
    have hd : l.drop i = x :: l.drop (i + 1) := by
      rw [List.drop_eq_getElem_cons hi]
      congr 1
      have := List.getElem?_eq_getElem hi
      rw [this] at hx
      exact Option.some.inj hx
    rw [hd] at this
    exact this.symm
  have hs' := hs
  rw [hsplit] at hs'
  have hpw := List.pairwise_append.mp hs'
  have hright := List.pairwise_cons.mp hpw.2.1
  -- everything before index i is not above x; everything after is not below x
  have hbefore : ∀ a ∈ l.take i, lt x a = false := fun a ha => hpw.2.2 a ha x (by simp)
  have hafter : ∀ a ∈ l.drop (i + 1), lt a x = false := fun a ha => hright.1 a ha
  constructor
  · rw [hsplit, List.countP_append, List.countP_cons]
    have h1 : (l.drop (i + 1)).countP (fun a => lt a x) = 0 := by
      rw [List.countP_eq_zero]; intro a ha; simp [hafter a ha]
    have h2 : (l.take i).countP (fun a => lt a x) ≤ i := by
      have := List.countP_le_length (p := fun a => lt a x) (l := l.take i)
      have hl : (l.take i).length = i := by simp; omega
      omega
    simp only [h.irrefl x, Bool.false_eq_true, if_false, h1]
    omega
  · rw [hsplit, List.countP_append, List.countP_cons]
    have h1 : (l.take i).countP (fun a => !lt x a) = i := by
      have : (l.take i).countP (fun a => !lt x a) = (l.take i).length := by
        rw [List.countP_eq_length]; intro a ha; simp [hbefore a ha]
      rw [this]; simp; omega
    simp only [h.irrefl x, Bool.not_false, if_true, h1]
    omega

/-- an ascending list is its `lt v` part, then its `~ v` part, then its `v lt` part -/
theorem sorted_split (h : StrictWeak lt) (v : α) (l : List α)
    (hs : List.Pairwise (fun a b => lt b a = false) l) :
    l = l.filter (fun a => lt a v) ++ (l.filter (equivB lt v) ++ l.filter (fun a => lt v a)) := by
  induction l with
  | nil => rfl
  | cons a l ih =>
    have ha := List.pairwise_cons.mp hs
    have ih' := ih ha.2
    by_cases h1 : lt a v = true
    · have h2 : lt v a = false := h.asymm _ _ h1
      have he : equivB lt v a = false := by simp [equivB, h1]
      simp only [List.filter_cons, h1, if_true, he, Bool.false_eq_true, if_false, h2, List.cons_append]
      rw [← ih']
    · have h1' : lt a v = false := by simpa using h1
      -- nothing after `a` is below v
      have hnone : l.filter (fun b => lt b v) = [] := by
        rw [List.filter_eq_nil_iff]
        intro b hb
        have := ha.1 b hb
        have := h.negTrans b a v this h1'
        simp [this]
      by_cases h2 : lt v a = true
      · have he : equivB lt v a = false := by simp [equivB, h2]
        have hnoeq : l.filter (equivB lt v) = [] := by
          rw [List.filter_eq_nil_iff]
          intro b hb
          have hba := ha.1 b hb
          -- v < a and a ≤ b ⇒ v < b
          have : lt v b = true := by
            cases hvb : lt v b with
            | true => rfl
            | false =>
              have := h.negTrans v b a hvb hba
              rw [h2] at this; cases this
          simp [equivB, this]
        have hall : l.filter (fun b => lt v b) = l := by
          rw [List.filter_eq_self]
          intro b hb
          have hba := ha.1 b hb
          cases hvb : lt v b with
          | true => rfl
          | false =>
            have := h.negTrans v b a hvb hba
            rw [h2] at this; cases this
        simp [List.filter_cons, h1', he, h2, hnone, hnoeq, hall]
      · have h2' : lt v a = false := by simpa using h2
        have he : equivB lt v a = true := by simp [equivB, h1', h2']
        simp only [List.filter_cons, h1', Bool.false_eq_true, if_false, he, if_true, h2', hnone,
          List.nil_append, List.cons_append]
        congr 1
        have := ih'
        rw [hnone, List.nil_append] at this
        exact this

end
end Influx.Reducers.Lemmas
