/-
  Lemmas.ReducersSelect — percentile, median, spread of Model.Reducers against the
  counting / relational statements of Spec.C23, for value orders that are strict weak
  orders (the integer instance; floats without NaN).
-/
import Influx.Lemmas.ReducersSort
import Influx.Spec.C23
open Influx.Reducers Influx.Spec.C23

namespace Influx.Reducers.Lemmas
variable {V F : Type}

/-- the comparison on points that `sort.Sort(xPointsByValue(a))` uses -/
def ptLt (A : Arith V F) (a b : Pt V) : Bool := A.vo.lt a.v b.v

theorem ptLt_strictWeak (A : Arith V F) (h : StrictWeak A.vo.lt) : StrictWeak (ptLt A) where
  irrefl := fun a => h.irrefl a.v
  trans := fun a b c => h.trans a.v b.v c.v
  negTrans := fun a b c => h.negTrans a.v b.v c.v

theorem rankIndex_eq (len : Nat) (pn : Int) (pd : Nat) :
    percentileIndex len pn pd = rankIndex len pn pd := by
  unfold percentileIndex rankIndex
  rw [Int.fdiv_eq_ediv_of_nonneg _ (by omega)]

/-- the point at index `k` of the value-sorted points: its rank by counting, and which
    of the equal-valued input points it is -/
theorem sorted_point_facts (A : Arith V F) (h : StrictWeak A.vo.lt) (xs : List (Pt V)) (k : Nat) (p : Pt V)
    (hp : (sortByValue A.vo xs)[k]? = some p) :
    isKth A (xs.map (·.v)) k p.v = true ∧
    (xs.filter (fun q => sameV A q.v p.v))[k - (xs.map (·.v)).countP (fun x => A.vo.lt x p.v)]? = some p := by
  have hsw := ptLt_strictWeak A h
  have hsorted : List.Pairwise (fun a b => ptLt A b a = false) (sortByValue A.vo xs) :=
    insertionSort_sorted hsw xs
  have hperm : (sortByValue A.vo xs).Perm xs := insertionSort_perm _ xs
  have hrank := sorted_rank hsw _ hsorted k p hp
  have hc1 : (xs.map (·.v)).countP (fun x => A.vo.lt x p.v) = (sortByValue A.vo xs).countP (fun a => ptLt A a p) := by
    rw [List.countP_map, hperm.countP_eq]; rfl
  have hc2 : (xs.map (·.v)).countP (fun x => !A.vo.lt p.v x) = (sortByValue A.vo xs).countP (fun a => !ptLt A p a) := by
    rw [List.countP_map, hperm.countP_eq]; rfl
  refine ⟨by simp only [isKth, hc1, hc2, decide_eq_true hrank.1, decide_eq_true hrank.2, Bool.and_self], ?_⟩
  -- split the sorted list around p
  have hsplit := sorted_split hsw p _ hsorted
  have hless : ((sortByValue A.vo xs).filter (fun a => ptLt A a p)).length =
      (xs.map (·.v)).countP (fun x => A.vo.lt x p.v) := by
    rw [hc1, List.countP_eq_length_filter]
  have hstable : (sortByValue A.vo xs).filter (equivB (ptLt A) p) = xs.filter (fun q => sameV A q.v p.v) := by
    have := insertionSort_stable hsw p xs
    have hf : equivB (ptLt A) p = fun q => sameV A q.v p.v := by
      funext q; simp [equivB, sameV, ptLt]
    rw [hf] at this
    exact this
  rw [hsplit] at hp
  rw [List.getElem?_append_right (by rw [hless, hc1]; exact hrank.1), hless] at hp
  rw [← hstable]
  by_cases hj : k - (xs.map (·.v)).countP (fun x => A.vo.lt x p.v) <
      ((sortByValue A.vo xs).filter (equivB (ptLt A) p)).length
  · rwa [List.getElem?_append_left hj] at hp
  · exfalso
    rw [List.getElem?_append_right (by omega)] at hp
    have := (List.mem_filter.mp (List.mem_of_getElem? hp)).2
    simp [ptLt, h.irrefl] at this

/-- **percentile** under a strict weak value order: the statement's rank and stable-index
    conditions hold of what the reducer emits -/
theorem percentile_ok (A : Arith V F) (h : StrictWeak A.vo.lt) (pn : Int) (pd : Nat) (xs : List (Pt V)) :
    percentileOK A pn pd xs (percentile A.vo pn pd xs) = true := by
  unfold percentile percentileOK
  rw [rankIndex_eq]
  by_cases hr : rankIndex xs.length pn pd < 0 ∨ rankIndex xs.length pn pd ≥ xs.length
  · simp [hr]
  · simp only [hr, if_false]
    have hlen : (sortByValue A.vo xs).length = xs.length := (insertionSort_perm _ xs).length_eq
    have hk : (rankIndex xs.length pn pd).toNat < (sortByValue A.vo xs).length := by omega
    obtain ⟨p, hp⟩ : ∃ p, (sortByValue A.vo xs)[(rankIndex xs.length pn pd).toNat]? = some p :=
      ⟨_, List.getElem?_eq_getElem hk⟩
    obtain ⟨h1, h2⟩ := sorted_point_facts A h xs _ p hp
    simp only [hp, h1, Bool.true_and]
    split
    · rw [h2]
      simp [A.eqvV_refl]
    · have hm := List.mem_of_getElem? h2
      simp only [List.any_eq_true]
      exact ⟨p, hm, by simp [A.eqvV_refl]⟩


/-- what the statement requires of a median observation -/
def medianOK (A : Arith V F) (xs : List (Pt V)) (out : List (Pt F)) : Bool :=
  match out with
  | [p] => medianValueOK A xs p.v && (decide (p.t = zeroTime) || decide (xs.map (·.t) = [p.t]))
  | _ => false

theorem mem_values_of_getElem (A : Arith V F) (xs : List (Pt V)) (k : Nat) (m : Pt V)
    (hm : (sortByValue A.vo xs)[k]? = some m) : m.v ∈ xs.map (·.v) := by
  have h1 := List.mem_of_getElem? hm
  have h2 := (insertionSort_perm _ xs).mem_iff.mp h1
  exact List.mem_map.mpr ⟨m, h2, rfl⟩

/-- **median** under a strict weak value order -/
theorem median_ok (A : Arith V F) (h : StrictWeak A.vo.lt) (xs : List (Pt V)) (hne : xs ≠ []) :
    medianOK A xs (median A.vo A.fo xs) = true := by
  have hlen : (sortByValue A.vo xs).length = xs.length := (insertionSort_perm _ xs).length_eq
  match xs, hne with
  | [p], _ =>
    simp only [median, medianOK, medianValueOK, List.map_cons, List.map_nil, List.length_cons, List.length_nil]
    have hk : isKth A [p.v] 0 p.v = true := by simp [isKth, h.irrefl]
    by_cases hkt : A.vo.medianSingleKeepsTime = true <;> simp [hkt, hk, A.eqvF_refl]
  | p :: q :: r, _ =>
    have hn : (p :: q :: r).length = r.length + 2 := by simp
    simp only [median]
    by_cases heven : (sortByValue A.vo (p :: q :: r)).length % 2 = 0
    · simp only [heven, if_true]
      have h1 : (sortByValue A.vo (p :: q :: r)).length / 2 - 1 < (sortByValue A.vo (p :: q :: r)).length := by omega
      have h2 : (sortByValue A.vo (p :: q :: r)).length / 2 < (sortByValue A.vo (p :: q :: r)).length := by omega
      obtain ⟨lo, hlo⟩ : ∃ lo, (sortByValue A.vo (p :: q :: r))[(sortByValue A.vo (p :: q :: r)).length / 2 - 1]? = some lo :=
        ⟨_, List.getElem?_eq_getElem h1⟩
      obtain ⟨hi, hhi⟩ : ∃ hi, (sortByValue A.vo (p :: q :: r))[(sortByValue A.vo (p :: q :: r)).length / 2]? = some hi :=
        ⟨_, List.getElem?_eq_getElem h2⟩
      have flo := (sorted_point_facts A h _ _ lo hlo).1
      have fhi := (sorted_point_facts A h _ _ hi hhi).1
      have mlo := mem_values_of_getElem A _ _ lo hlo
      have mhi := mem_values_of_getElem A _ _ hi hhi
      simp only [hlo, hhi, medianOK, medianValueOK, List.length_map]
      rw [hlen] at flo fhi heven
      have hodd : ¬ ((p :: q :: r).length % 2 = 1) := by omega
      simp only [hodd, if_false, decide_true, Bool.true_or, Bool.and_true, List.any_eq_true, List.mem_filter]
      exact ⟨lo.v, ⟨mlo, flo⟩, hi.v, ⟨mhi, fhi⟩, A.eqvF_refl _⟩
    · simp only [heven, if_false]
      have h2 : (sortByValue A.vo (p :: q :: r)).length / 2 < (sortByValue A.vo (p :: q :: r)).length := by omega
      obtain ⟨m, hm⟩ : ∃ m, (sortByValue A.vo (p :: q :: r))[(sortByValue A.vo (p :: q :: r)).length / 2]? = some m :=
        ⟨_, List.getElem?_eq_getElem h2⟩
      have fm := (sorted_point_facts A h _ _ m hm).1
      have mm := mem_values_of_getElem A _ _ m hm
      simp only [hm, medianOK, medianValueOK, List.length_map]
      rw [hlen] at fm heven
      have hodd : (p :: q :: r).length % 2 = 1 := by omega
      simp only [hodd, if_true, decide_true, Bool.true_or, Bool.and_true, List.any_eq_true]
      refine ⟨m.v, mm, ?_⟩
      rw [Bool.and_eq_true]
      exact ⟨fm, A.eqvF_refl _⟩


/-! ### spread over integers -/

theorem foldl_min_facts (l : List Int) : ∀ (init : Int),
    let r := l.foldl (fun m v => if v < m then v else m) init
    (r = init ∨ r ∈ l) ∧ r ≤ init ∧ ∀ x ∈ l, r ≤ x := by
  induction l with
  | nil => intro init; simp
  | cons a l ih =>
    intro init
    simp only [List.foldl_cons]
    by_cases ha : a < init
    · simp only [ha, if_true]
      obtain ⟨h1, h2, h3⟩ := ih a
      refine ⟨?_, by omega, ?_⟩
      · rcases h1 with h1 | h1
        · right; rw [h1]; simp
        · right; simp [h1]
      · intro x hx
        rcases List.mem_cons.mp hx with rfl | hx
        · exact h2
        · exact h3 x hx
    · simp only [ha, if_false]
      obtain ⟨h1, h2, h3⟩ := ih init
      refine ⟨?_, h2, ?_⟩
      · rcases h1 with h1 | h1
        · left; exact h1
        · right; simp [h1]
      · intro x hx
        rcases List.mem_cons.mp hx with rfl | hx
        · omega
        · exact h3 x hx

theorem foldl_max_facts (l : List Int) : ∀ (init : Int),
    let r := l.foldl (fun m v => if v > m then v else m) init
    (r = init ∨ r ∈ l) ∧ init ≤ r ∧ ∀ x ∈ l, x ≤ r := by
  induction l with
  | nil => intro init; simp
  | cons a l ih =>
    intro init
    simp only [List.foldl_cons]
    by_cases ha : a > init
    · simp only [ha, if_true]
      obtain ⟨h1, h2, h3⟩ := ih a
      refine ⟨?_, by omega, ?_⟩
      · rcases h1 with h1 | h1
        · right; rw [h1]; simp
        · right; simp [h1]
      · intro x hx
        rcases List.mem_cons.mp hx with rfl | hx
        · exact h2
        · exact h3 x hx
    · simp only [ha, if_false]
      obtain ⟨h1, h2, h3⟩ := ih init
      refine ⟨?_, h2, ?_⟩
      · rcases h1 with h1 | h1
        · left; exact h1
        · right; simp [h1]
      · intro x hx
        rcases List.mem_cons.mp hx with rfl | hx
        · omega
        · exact h3 x hx

/-- **spread** of an integer series inside the int64 range = maximum − minimum -/
theorem spread_int_ok (F : Type) (fo : FOps F) (eqvF : F → F → Bool) (hF : ∀ x, eqvF x x = true)
    (xs : List (Pt Int)) (hne : xs ≠ [])
    (hrange : ∀ p ∈ xs, -9223372036854775808 ≤ p.v ∧ p.v ≤ 9223372036854775807) :
    ∃ v, spread (intOps fo) xs = [⟨zeroTime, v⟩] ∧ spreadValueOK (intArith fo eqvF hF) xs v = true := by
  refine ⟨_, rfl, ?_⟩
  -- the folds over points are folds over the value list
  have hmin : xs.foldl (fun m (p : Pt Int) => (intOps fo).minStep m p.v) (intOps fo).spreadInitMin =
      (xs.map (·.v)).foldl (fun m v => if v < m then v else m) 9223372036854775807 := by
    rw [List.foldl_map]; rfl
  have hmax : xs.foldl (fun m (p : Pt Int) => (intOps fo).maxStep m p.v) (intOps fo).spreadInitMax =
      (xs.map (·.v)).foldl (fun m v => if v > m then v else m) (-9223372036854775808) := by
    rw [List.foldl_map]; rfl
  simp only [hmin, hmax]
  have hvs : ∀ x ∈ xs.map (·.v), -9223372036854775808 ≤ x ∧ x ≤ 9223372036854775807 := by
    intro x hx
    obtain ⟨p, hp, rfl⟩ := List.mem_map.mp hx
    exact hrange p hp
  have hne' : xs.map (·.v) ≠ [] := by simpa using hne
  obtain ⟨a, ha⟩ := List.exists_mem_of_ne_nil _ hne'
  obtain ⟨m1, m2, m3⟩ := foldl_min_facts (xs.map (·.v)) 9223372036854775807
  obtain ⟨M1, M2, M3⟩ := foldl_max_facts (xs.map (·.v)) (-9223372036854775808)
  have hmn_mem : (xs.map (·.v)).foldl (fun m v => if v < m then v else m) 9223372036854775807 ∈ xs.map (·.v) := by
    rcases m1 with h | h
    · have h1 := m3 a ha
      have h2 := (hvs a ha).2
      have : a = 9223372036854775807 := by omega
      rw [h, ← this]; exact ha
    · exact h
  have hmx_mem : (xs.map (·.v)).foldl (fun m v => if v > m then v else m) (-9223372036854775808) ∈ xs.map (·.v) := by
    rcases M1 with h | h
    · have h1 := M3 a ha
      have h2 := (hvs a ha).1
      have : a = -9223372036854775808 := by omega
      rw [h, ← this]; exact ha
    · exact h
  simp only [spreadValueOK, List.any_eq_true, Bool.and_eq_true, List.all_eq_true]
  refine ⟨_, hmx_mem, ?_, _, hmn_mem, ?_, ?_⟩
  · intro x hx
    have := M3 x hx
    simp [intArith, intOps]; omega
  · intro x hx
    have := m3 x hx
    simp [intArith, intOps]; omega
  · simp [intArith, intOps]

end Influx.Reducers.Lemmas
