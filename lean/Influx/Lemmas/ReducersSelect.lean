/-
  Lemmas.ReducersSelect — percentile, median, spread of Model.Reducers against the
  counting / relational statements of Spec.C23, for value orders that are strict weak
  orders (the integer instance; floats without NaN).
-/
import Influx.Lemmas.ReducersSort
import Influx.Spec.C23
open Influx.Reducers Influx.Spec.C23

namespace Influx.Reducers.Lemmas
variable {V F : Type}

/-- the comparison on points that `sort.Sort(xPointsByValue(a))` uses -/
def ptLt (A : Arith V F) (a b : Pt V) : Bool := A.vo.lt a.v b.v

theorem ptLt_strictWeak (A : Arith V F) (h : StrictWeak A.vo.lt) : StrictWeak (ptLt A) where
  irrefl := fun a => h.irrefl a.v
  trans := fun a b c => h.trans a.v b.v c.v
  negTrans := fun a b c => h.negTrans a.v b.v c.v

theorem rankIndex_eq (len : Nat) (pn : Int) (pd : Nat) :
    percentileIndex len pn pd = rankIndex len pn pd := by
  unfold percentileIndex rankIndex
  rw [Int.fdiv_eq_ediv_of_nonneg _ (by omega)]

/-- the point at index `k` of the value-sorted points: its rank by counting, and which
    of the equal-valued input points it is -/
theorem sorted_point_facts (A : Arith V F) (h : StrictWeak A.vo.lt) (xs : List (Pt V)) (k : Nat) (p : Pt V)
    (hp : (sortByValue A.vo xs)[k]? = some p) :
    isKth A (xs.map (·.v)) k p.v = true ∧
    (xs.filter (fun q => sameV A q.v p.v))[k - (xs.map (·.v)).countP (fun x => A.vo.lt x p.v)]? = some p := by
  have hsw := ptLt_strictWeak A h
  have hsorted : List.Pairwise (fun a b => ptLt A b a = false) (sortByValue A.vo xs) :=
    insertionSort_sorted hsw xs
  have hperm : (sortByValue A.vo xs).Perm xs := insertionSort_perm _ xs
  have hrank := sorted_rank hsw _ hsorted k p hp
  have hc1 : (xs.map (·.v)).countP (fun x => A.vo.lt x p.v) = (sortByValue A.vo xs).countP (fun a => ptLt A a p) := by
    rw [List.countP_map, hperm.countP_eq]; rfl
  have hc2 : (xs.map (·.v)).countP (fun x => !A.vo.lt p.v x) = (sortByValue A.vo xs).countP (fun a => !ptLt A p a) := by
    rw [List.countP_map, hperm.countP_eq]; rfl
  refine ⟨by simp only [isKth, hc1, hc2, decide_eq_true hrank.1, decide_eq_true hrank.2, Bool.and_self], ?_⟩
  -- split the sorted list around p
  have hsplit := sorted_split hsw p _ hsorted
  have hless : ((sortByValue A.vo xs).filter (fun a => ptLt A a p)).length =
      (xs.map (·.v)).countP (fun x => A.vo.lt x p.v) := by
    rw [hc1, List.countP_eq_length_filter]
  have hstable : (sortByValue A.vo xs).filter (equivB (ptLt A) p) = xs.filter (fun q => sameV A q.v p.v) := by
    have := insertionSort_stable hsw p xs
    have hf : equivB (ptLt A) p = fun q => sameV A q.v p.v := by
      funext q; simp [equivB, sameV, ptLt]
    rw [hf] at this
    exact this
  rw [hsplit] at hp
  rw [List.getElem?_append_right (by rw [hless, hc1]; exact hrank.1), hless] at hp
  rw [← hstable]
  by_cases hj : k - (xs.map (·.v)).countP (fun x => A.vo.lt x p.v) <
      ((sortByValue A.vo xs).filter (equivB (ptLt A) p)).length
  · rwa [List.getElem?_append_left hj] at hp
  · exfalso
    rw [List.getElem?_append_right (by omega)] at hp
    have := (List.mem_filter.mp (List.mem_of_getElem? hp)).2
    simp [ptLt, h.irrefl] at this

/-- **percentile** under a strict weak value order: the statement's rank and stable-index
    conditions hold of what the reducer emits -/
theorem percentile_ok (A : Arith V F) (h : StrictWeak A.vo.lt) (pn : Int) (pd : Nat) (xs : List (Pt V)) :
    percentileOK A pn pd xs (percentile A.vo pn pd xs) = true := by
  unfold percentile percentileOK
  rw [rankIndex_eq]
  by_cases hr : rankIndex xs.length pn pd < 0 ∨ rankIndex xs.length pn pd ≥ xs.length
  · simp [hr]
  · simp only [hr, if_false]
    have hlen : (sortByValue A.vo xs).length = xs.length := (insertionSort_perm _ xs).length_eq
    have hk : (rankIndex xs.length pn pd).toNat < (sortByValue A.vo xs).length := by omega
    obtain ⟨p, hp⟩ : ∃ p, (sortByValue A.vo xs)[(rankIndex xs.length pn pd).toNat]? = some p :=
      ⟨_, List.getElem?_eq_getElem hk⟩
    obtain ⟨h1, h2⟩ := sorted_point_facts A h xs _ p hp
    simp only [hp, h1, Bool.true_and]
    split
    · rw [h2]
      simp [A.eqvV_refl]
    · have hm := List.mem_of_getElem? h2
      simp only [List.any_eq_true]
      exact ⟨p, hm, by simp [A.eqvV_refl]⟩

end Influx.Reducers.Lemmas
