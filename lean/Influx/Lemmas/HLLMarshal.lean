/-
  Lemmas.HLLMarshal — the delta+varint compressed list decodes to what was appended, and
  `UnmarshalBinary ∘ MarshalBinary` restores the representation of a sketch.
-/
import Influx.Lemmas.HLLBits
import Influx.Lemmas.HLL

namespace Influx.Lemmas.HLLMarshal
open Influx.Model.HLL Influx.Lemmas.HLLBits Influx.Lemmas.HLL

theorem and_hi (x : Nat) (h : x < 2 ^ 32) : x &&& 0xffffff80 = (x / 128) * 128 := by
  have hd : (x &&& 0xffffff80) / 2 ^ 7 = x / 128 := by
    rw [Nat.and_div_two_pow]
    have : (0xffffff80 : Nat) / 2 ^ 7 = 2 ^ 25 - 1 := by decide
    rw [this, Nat.and_two_pow_sub_one_eq_mod]; omega
  have hm : (x &&& 0xffffff80) % 2 ^ 7 = 0 := by
    rw [Nat.and_mod_two_pow]
    have : (0xffffff80 : Nat) % 2 ^ 7 = 0 := by decide
    rw [this]; simp
  omega

theorem byte_facts : ∀ b, b < 128 → ((b ||| 0x80) &&& 0x80 ≠ 0 ∧ (b ||| 0x80) &&& 0x7f = b ∧ b &&& 0x80 = 0) := by
  decide +kernel

theorem and_7f (x : Nat) : x &&& 0x7f = x % 128 := Nat.and_two_pow_sub_one_eq_mod x 7

/-- `(hi · 2^(s+7)) | (lo · 2^s) = hi·2^(s+7) + lo·2^s` for a 7-bit `lo` -/
theorem or_parts (hi lo s : Nat) (hlo : lo < 128) : (lo * 2 ^ s) ||| (hi * 2 ^ (s + 7)) = hi * 2 ^ (s + 7) + lo * 2 ^ s := by
  rw [Nat.or_comm]
  apply shl_or
  have : 2 ^ (s + 7) = 128 * 2 ^ s := by rw [Nat.pow_add]; omega
  rw [this]
  exact Nat.mul_lt_mul_of_pos_right hlo (Nat.pow_pos (by decide))

/-- the varint decoder reads back what `Append` wrote for one 32-bit delta -/
theorem decodeVarint_varintGo (fuel x shift : Nat) (rest : List Nat)
    (hx : x < 2 ^ (7 * (fuel + 1))) (hs : x * 2 ^ shift < 2 ^ 32) :
    decodeVarint (varintGo fuel x ++ rest) shift = some (x * 2 ^ shift, rest) := by
  have hps : 0 < 2 ^ shift := Nat.pow_pos (by decide)
  have hx32 : x < 2 ^ 32 := by
    have : x ≤ x * 2 ^ shift := Nat.le_mul_of_pos_right x hps
    omega
  induction fuel generalizing x shift with
  | zero =>
    have hx' : x < 128 := by simpa using hx
    obtain ⟨_, _, f3⟩ := byte_facts x hx'
    simp only [varintGo, and_7f, Nat.mod_eq_of_lt hx', List.cons_append, List.nil_append, decodeVarint, f3]
    simp [u32, Nat.shiftLeft_eq, Nat.mod_eq_of_lt hs]
  | succ fuel ih =>
    simp only [varintGo, and_hi x hx32, and_7f]
    by_cases hge : x / 128 * 128 = 0
    · have hx' : x < 128 := by omega
      obtain ⟨_, _, f3⟩ := byte_facts x hx'
      rw [if_neg (by simpa using hge)]
      simp only [Nat.mod_eq_of_lt hx', List.cons_append, List.nil_append, decodeVarint, f3]
      simp [u32, Nat.shiftLeft_eq, Nat.mod_eq_of_lt hs]
    · rw [if_pos hge]
      obtain ⟨f1, f2, _⟩ := byte_facts (x % 128) (Nat.mod_lt _ (by decide))
      simp only [List.cons_append, decodeVarint, f1, ne_eq, not_false_eq_true, if_true, f2]
      have e7 : 2 ^ (shift + 7) = 128 * 2 ^ shift := by rw [Nat.pow_add]; omega
      have hhi : x >>> 7 * 2 ^ (shift + 7) ≤ x * 2 ^ shift := by
        rw [Nat.shiftRight_eq_div_pow, e7]
        have : x / 2 ^ 7 * 128 ≤ x := by omega
        calc x / 2 ^ 7 * (128 * 2 ^ shift) = (x / 2 ^ 7 * 128) * 2 ^ shift := by ac_rfl
          _ ≤ x * 2 ^ shift := Nat.mul_le_mul_right _ this
      rw [ih (x >>> 7) (shift + 7) (by
            rw [Nat.shiftRight_eq_div_pow]
            have : 2 ^ (7 * (fuel + 1 + 1)) = 2 ^ 7 * 2 ^ (7 * (fuel + 1)) := by rw [← Nat.pow_add]; congr 1; omega
            rw [this] at hx
            exact (Nat.div_lt_iff_lt_mul (by decide)).mpr (by rw [Nat.mul_comm]; exact hx))
          (by omega) (Nat.pow_pos (by decide)) (by rw [Nat.shiftRight_eq_div_pow]; omega)]
      simp only
      have hlo : x % 128 * 2 ^ shift < 2 ^ 32 := by
        have : x % 128 * 2 ^ shift ≤ x * 2 ^ shift := Nat.mul_le_mul_right _ (Nat.mod_le _ _)
        omega
      have elo : u32 ((x % 128) <<< shift) = x % 128 * 2 ^ shift := by
        unfold u32; rw [Nat.shiftLeft_eq, Nat.mod_eq_of_lt hlo]
      rw [elo, or_parts _ _ _ (Nat.mod_lt _ (by decide))]
      congr 2
      rw [Nat.shiftRight_eq_div_pow, e7]
      have : x = x / 2 ^ 7 * 128 + x % 128 := by omega
      calc x / 2 ^ 7 * (128 * 2 ^ shift) + x % 128 * 2 ^ shift
          = (x / 2 ^ 7 * 128 + x % 128) * 2 ^ shift := by rw [Nat.add_mul]; ac_rfl
        _ = x * 2 ^ shift := by rw [← this]

/-- ascending from the lower bound `lb`, all values 32-bit -/
def Asc : Nat → List Nat → Prop
  | _, [] => True
  | lb, x :: xs => lb ≤ x ∧ x < 2 ^ 32 ∧ Asc x xs

theorem Asc_mono (lb lb' : Nat) (l : List Nat) (h : Asc lb l) (hle : lb' ≤ lb) : Asc lb' l := by
  cases l with
  | nil => trivial
  | cons x xs => exact ⟨Nat.le_trans hle h.1, h.2.1, h.2.2⟩

theorem varint_cons (d : Nat) : ∃ b t, varint d = b :: t := by
  unfold varint varintGo
  split <;> exact ⟨_, _, rfl⟩

theorem decodeVarint_varint (d : Nat) (rest : List Nat) (hd : d < 2 ^ 32) :
    decodeVarint (varint d ++ rest) 0 = some (d, rest) := by
  have := decodeVarint_varintGo 4 d 0 rest (by simp; omega) (by simpa using hd)
  simpa [varint] using this

/-- **the iterator reads back the appended values**: decode ∘ encode = id on ascending 32-bit lists -/
theorem decodeVals_encodeVals (vals : List Nat) (last fuel : Nat) (h : Asc last vals) (hf : vals.length ≤ fuel) :
    decodeVals fuel (encodeVals last vals) last = some vals := by
  induction vals generalizing last fuel with
  | nil => simp [encodeVals, decodeVals]
  | cons x xs ih =>
    obtain ⟨h1, h2, h3⟩ := h
    cases fuel with
    | zero => simp at hf
    | succ fuel =>
      have hd : u32 (x + 2 ^ 32 - last) = x - last := by unfold u32; omega
      simp only [encodeVals, hd]
      obtain ⟨b, t, hbt⟩ := varint_cons (x - last)
      have hdec := decodeVarint_varint (x - last) (encodeVals x xs) (by omega)
      rw [hbt] at hdec ⊢
      simp only [List.cons_append] at hdec ⊢
      rw [decodeVals, hdec]
      · simp only
        have hv : u32 (x - last + last) = x := by unfold u32; omega
        rw [hv, ih x fuel h3 (by simpa using hf)]
      · intro hh; cases hh

theorem be32_rd32 (n : Nat) (l : List Nat) (hn : n < 2 ^ 32) : rd32 (be32 n ++ l) = some (n, l) := by
  simp only [be32, List.cons_append, List.nil_append, rd32, Nat.shiftRight_eq_div_pow]
  congr 2
  omega

theorem be32_length (n : Nat) : (be32 n).length = 4 := rfl

theorem insertSorted_asc (k lb : Nat) (l : List Nat) (h : Asc lb l) (hk : lb ≤ k) (hk32 : k < 2 ^ 32) :
    Asc lb (insertSorted k l) := by
  induction l generalizing lb with
  | nil => exact ⟨hk, hk32, trivial⟩
  | cons a as ih =>
    obtain ⟨h1, h2, h3⟩ := h
    simp only [insertSorted]
    split
    · exact ⟨hk, hk32, by omega, h2, h3⟩
    · split
      · exact ⟨h1, h2, h3⟩
      · exact ⟨h1, h2, ih a h3 (by omega)⟩

theorem mergeLoopGo_asc (fuel lb : Nat) (vals keys : List Nat) (hv : Asc lb vals) (hk : Asc lb keys)
    (hf : vals.length + keys.length ≤ fuel) : Asc lb (mergeLoopGo fuel vals keys) := by
  induction fuel generalizing lb vals keys with
  | zero =>
    have h1 : vals = [] := List.eq_nil_of_length_eq_zero (by omega)
    subst h1
    simp [mergeLoopGo]; exact hk
  | succ fuel ih =>
    cases vals with
    | nil => simp [mergeLoopGo]; exact hk
    | cons x1 vs =>
      cases keys with
      | nil => simp [mergeLoopGo]; exact hv
      | cons x2 ks =>
        obtain ⟨a1, a2, a3⟩ := hv
        obtain ⟨b1, b2, b3⟩ := hk
        simp only [List.length_cons] at hf
        simp only [mergeLoopGo]
        split
        · next he => subst he; exact ⟨a1, a2, ih x1 vs ks a3 b3 (by omega)⟩
        · split
          · next hne hgt =>
            exact ⟨b1, b2, ih x2 (x1 :: vs) ks ⟨by omega, a2, a3⟩ b3 (by simp only [List.length_cons]; omega)⟩
          · next hne hgt =>
            exact ⟨a1, a2, ih x1 vs (x2 :: ks) a3 ⟨by omega, b2, b3⟩ (by simp only [List.length_cons]; omega)⟩

theorem encodeHash_lt (p x : Nat) : encodeHash p x < 2 ^ 32 := by
  unfold encodeHash
  simp only
  split
  · apply Nat.or_lt_two_pow
    · apply Nat.or_lt_two_pow <;> (unfold u32; exact Nat.mod_lt _ (by decide))
    · decide
  · unfold u32; exact Nat.mod_lt _ (by decide)

theorem be32_rd32_mod (n : Nat) (l : List Nat) : rd32 (be32 n ++ l) = some (n % 2 ^ 32, l) := by
  simp only [be32, List.cons_append, List.nil_append, rd32, Nat.shiftRight_eq_div_pow]
  congr 2
  omega

theorem encodeVals_length_ge (vals : List Nat) (last : Nat) : vals.length ≤ (encodeVals last vals).length := by
  induction vals generalizing last with
  | nil => simp [encodeVals]
  | cons x xs ih =>
    obtain ⟨b, t, hbt⟩ := varint_cons (u32 (x + 2 ^ 32 - last))
    simp only [encodeVals, hbt, List.cons_append, List.length_cons, List.length_append]
    have := ih x; omega

/-- the sparse lists of a sketch built through the API are ascending 32-bit lists -/
structure SInv (h : Plus) : Prop where
  tmp_asc : h.sparse = true → Asc 0 h.tmpSet
  vals_asc : h.sparse = true → Asc 0 h.sparseVals

theorem mergeSparse_sinv (h : Plus) (s : SInv h) : SInv (mergeSparse h) ∧ (mergeSparse h).tmpSet = [] := by
  unfold mergeSparse
  split
  · next he => exact ⟨s, by simpa using he⟩
  · refine ⟨⟨fun _ => trivial, fun hs => ?_⟩, rfl⟩
    exact mergeLoopGo_asc _ 0 _ _ (s.vals_asc hs) (s.tmp_asc hs) (Nat.le_refl _)

theorem mergeSparse_sparse (h : Plus) : (mergeSparse h).sparse = h.sparse := by
  unfold mergeSparse; split <;> rfl

theorem mergeSparse_dense (h : Plus) : (mergeSparse h).dense = h.dense := by
  unfold mergeSparse; split <;> rfl

/-- **`UnmarshalBinary(MarshalBinary(h))` restores the representation**: same precision, same mode,
    the same compressed list (temporary set merged in, as `MarshalBinary` leaves it) or the same registers;
    hence the same normalised registers.  (Sizes must fit the 32-bit length fields.) -/
theorem marshal_roundtrip (h : Plus) (w : WF h) (s : SInv h)
    (hsz : (encodeVals 0 (mergeSparse h).sparseVals).length < 2 ^ 32) :
    ∃ h2, unmarshal (marshal h).2 = .ok h2 ∧ h2.p = h.p ∧ h2.sparse = h.sparse ∧
      (h.sparse = true → h2.tmpSet = [] ∧ h2.sparseVals = (mergeSparse h).sparseVals) ∧
      (h.sparse = false → h2.dense = h.dense) := by
  have hp256 : h.p % 256 = h.p := by have := w.p_hi; omega
  have hnp : newPlus h.p = some { p := h.p, sparse := true, tmpSet := [], sparseVals := [], sparseBytes := 0, dense := #[] } := by
    unfold newPlus; rw [if_neg (by have := w.p_lo; have := w.p_hi; omega)]
  unfold marshal
  by_cases hs : h.sparse = true
  · simp only [hs, if_true, mergeSparse_sparse]
    obtain ⟨s1, t1⟩ := mergeSparse_sinv h s
    have hasc := s1.vals_asc (by rw [mergeSparse_sparse]; exact hs)
    have hp1 : (mergeSparse h).p = h.p := mergeSparse_p h
    generalize mergeSparse h = g at hsz t1 hasc hp1 s1
    rw [t1, hp1, hp256]
    unfold unmarshal
    rw [if_neg (by simp [be32_length]; omega)]
    simp only [List.cons_append, List.nil_append, List.length_nil, List.flatMap_nil, hnp, if_true]
    simp only [List.append_assoc]
    rw [be32_rd32_mod]
    simp only [Nat.zero_mod, rdKeys, List.nil_append]
    rw [be32_rd32_mod]; simp only
    rw [be32_rd32_mod]; simp only
    rw [be32_rd32 _ _ hsz]; simp only
    rw [if_neg (by omega), List.take_length]
    rw [decodeVals_encodeVals _ 0 _ hasc (by have := encodeVals_length_ge g.sparseVals 0; omega)]
    exact ⟨_, rfl, rfl, rfl, fun _ => ⟨rfl, rfl⟩, fun h' => by cases h'⟩
  · have hs' : h.sparse = false := by simpa using hs
    simp only [hs', Bool.false_eq_true, if_false]
    have hsize := w.dense_size hs'
    have h16 : 16 ≤ 2 ^ h.p := by
      have := Nat.pow_le_pow_right (by decide : 0 < 2) w.p_lo; simpa using this
    unfold unmarshal
    rw [if_neg (by simp [be32_length, hsize]; omega), hp256]
    simp only [List.cons_append, List.nil_append, hnp]
    rw [if_neg (by decide)]
    have hlt : h.dense.size < 2 ^ 32 := by
      rw [hsize]; exact Nat.pow_lt_pow_right (by decide) (by have := w.p_hi; omega)
    rw [be32_rd32 _ _ hlt]
    simp only
    rw [if_neg (by simp)]
    refine ⟨_, rfl, rfl, rfl, ?_⟩
    simp only [false_imp_iff, true_and, true_imp_iff, hs', Bool.false_eq_true]
    have : h.dense.size = h.dense.toList.length := by simp
    rw [this, List.take_length]

theorem newPlus_sinv (p : Nat) (e : Plus) (h : newPlus p = some e) : SInv e := by
  unfold newPlus at h
  split at h
  · cases h
  · injection h with h; subst h; exact ⟨fun _ => trivial, fun _ => trivial⟩

theorem sinv_of_dense (c : Plus) (h : c.sparse = false) : SInv c :=
  ⟨(fun h' => by rw [h] at h'; cases h'), (fun h' => by rw [h] at h'; cases h')⟩

theorem toNormal_sinv (h : Plus) : SInv (toNormal h) := sinv_of_dense _ (toNormal_sparse h)

theorem add_sinv (h : Plus) (s : SInv h) (x : Nat) : SInv (add h x) := by
  unfold add
  by_cases hs : h.sparse = true
  · rw [if_pos hs]
    have s1 : SInv (addTmp h x) :=
      ⟨fun _ => insertSorted_asc _ 0 _ (s.tmp_asc hs) (Nat.zero_le _) (encodeHash_lt _ _), fun _ => s.vals_asc hs⟩
    have s2 : SInv (addMerge (addTmp h x)) := by
      unfold addMerge; split
      · exact (mergeSparse_sinv _ s1).1
      · exact s1
    unfold addNormal
    split
    · exact toNormal_sinv _
    · exact s2
  · have hs' : h.sparse = false := by simpa using hs
    rw [if_neg hs]
    exact sinv_of_dense _ hs'

theorem addAll_sinv (xs : List Nat) (h : Plus) (s : SInv h) : SInv (addAll h xs) := by
  induction xs generalizing h with
  | nil => exact s
  | cons x xs ih => exact ih (add h x) (add_sinv h s x)

/-- the sketch read back has the normalised registers of the one written -/
theorem marshal_regs (h h2 : Plus) (w : WF h) (hp : h2.p = h.p) (hsp : h2.sparse = h.sparse)
    (h1 : h.sparse = true → h2.tmpSet = [] ∧ h2.sparseVals = (mergeSparse h).sparseVals)
    (h0 : h.sparse = false → h2.dense = h.dense) : regs h2 = regs h := by
  by_cases hs : h.sparse = true
  · obtain ⟨t, v⟩ := h1 hs
    have w2 : WF h2 := ⟨by rw [hp]; exact w.p_lo, by rw [hp]; exact w.p_hi, fun h' => by rw [hsp, hs] at h'; cases h'⟩
    have sz2 := (regs_spec h2 w2).1
    have sz := (regs_spec h w).1
    apply Array.ext (by rw [sz2, sz, hp])
    intro i hi1 hi2
    have hi : i < 2 ^ h.p := by rw [← sz]; exact hi2
    have e2 := (regs_spec h2 w2).2 (by rw [hsp]; exact hs) i (by rw [hp]; exact hi)
    have e1 := (regs_spec h w).2 hs i hi
    rw [reg_lt _ _ hi1] at e2
    rw [reg_lt _ _ hi2] at e1
    rw [e1, e2, ← mergeSparse_sup h i]
    have tm : (mergeSparse h).tmpSet = [] := by
      unfold mergeSparse; split
      · next he => simpa using he
      · rfl
    simp only [sparseSup, t, v, tm, hp, mergeSparse_p]
  · have hs' : h.sparse = false := by simpa using hs
    simp [regs, hs', hsp, h0 hs']

end Influx.Lemmas.HLLMarshal
