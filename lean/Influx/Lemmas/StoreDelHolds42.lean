/-
  Lemmas.StoreDelHolds42 — the statement checker of C42 accepts the model's MeasurementNames
  answers on cases that only write (no deletes, so nothing lingers in the index) and query with
  conditions in `condOK`.
-/
import Influx.Lemmas.StoreDelC42
import Influx.Lemmas.StoreDelHolds

namespace Influx.Model.StoreDel
open Influx.Model.DelPred (Bytes Pred)
open Influx.Spec.C42 (Hist Entry holdsOf optHolds visible expected returned subset judgeQuery judgeCase
  sortedAns shapeOK strictAsc)

/-- the history's live entries are the model's series, shard by shard -/
def Rel42 (st : State) (h : Hist) : Prop :=
  ∀ (i : Nat) (name : Bytes) (tags : Tags),
    (∃ e ∈ h.live, e.shard = i ∧ e.name = name ∧ e.tags = tags) ↔
    (∃ sh ∈ st, sh.id = i ∧ ∃ s ∈ sh.series, s.name = name ∧ s.tags = tags)

theorem strictAsc_bool (l : List Bytes) (h : StrictAsc l) : strictAsc l = true := by
  induction l with
  | nil => rfl
  | cons a rest ih =>
    cases rest with
    | nil => rfl
    | cons b rest' =>
      simp only [strictAsc, Bool.and_eq_true, beq_iff_eq]
      exact ⟨h.1, ih h.2⟩

/-- tag keys strictly ascending (`models.Tags`) -/
def TagsAsc (tags : Tags) : Prop := tags.Pairwise fun a b => cmpBytes a.1 b.1 = .lt

theorem tagsAsc_of_sorted (tags : Tags) (h : tagsSorted tags = true) : TagsAsc tags := by
  induction tags with
  | nil => exact List.Pairwise.nil
  | cons a rest ih =>
    cases rest with
    | nil => exact List.pairwise_singleton _ _
    | cons b rest' =>
      simp only [tagsSorted, Bool.and_eq_true, beq_iff_eq] at h
      have hrest := ih h.2
      refine List.pairwise_cons.2 ⟨?_, hrest⟩
      intro x hx
      rcases List.mem_cons.1 hx with rfl | hx
      · exact h.1
      · exact cmpBytes_trans h.1 ((List.pairwise_cons.1 hrest).1 x hx)

/-- tags with strictly ascending keys have one value per key -/
theorem tagGet_iff_mem (tags : Tags) (hs : TagsAsc tags) (k v : Bytes) :
    (k, v) ∈ tags ↔ tagGet tags k = some v := by
  induction tags with
  | nil => simp [tagGet]
  | cons t ts ih =>
    obtain ⟨tk, tv⟩ := t
    have hts : TagsAsc ts := (List.pairwise_cons.1 hs).2
    have hlt : ∀ x ∈ ts, cmpBytes tk x.1 = .lt := (List.pairwise_cons.1 hs).1
    simp only [tagGet, List.find?_cons, List.mem_cons, Prod.mk.injEq]
    by_cases hk : tk = k
    · subst hk
      simp only [decide_true, Option.map_some, Option.some.injEq]
      constructor
      · rintro (⟨_, rfl⟩ | hmem)
        · rfl
        · have := hlt (tk, v) hmem
          rw [cmpBytes_refl] at this; cases this
      · intro h; exact Or.inl ⟨trivial, h.symm⟩
    · have hk' : decide (tk = k) = false := by simp [hk]
      simp only [hk']
      have := ih hts
      simp only [tagGet] at this
      rw [← this]
      constructor
      · rintro (⟨rfl, _⟩ | hmem)
        · exact absurd rfl hk
        · exact hmem
      · intro h; exact Or.inr h

/-- what the theorem needs of a state: exact index, functional tags, distinct shard ids -/
structure Inv42 (st : State) : Prop where
  idx : IndexExact st
  tags : ∀ sh ∈ st, ∀ s ∈ sh.series, TagsAsc s.tags

theorem tagsFn_of_inv {st : State} (h : Inv42 st) : TagsFn st :=
  fun sh hsh s hs k v => tagGet_iff_mem s.tags (h.tags sh hsh s hs) k v

theorem shard_write_spec (sh : Shard) (name : Bytes) (tags : Tags) (pts : List (Int × Int)) :
    (∀ n2 t2, (∃ s ∈ (sh.write name tags pts).series, s.name = n2 ∧ s.tags = t2) ↔
       ((∃ s ∈ sh.series, s.name = n2 ∧ s.tags = t2) ∨ (n2 = name ∧ t2 = tags))) ∧
    (∀ m k v, (m, k, v) ∈ (sh.write name tags pts).tagvals ↔
       ((m, k, v) ∈ sh.tagvals ∨ (¬ (∃ s ∈ sh.series, s.name = name ∧ s.tags = tags) ∧ m = name ∧ (k, v) ∈ tags))) := by
  unfold Shard.write
  by_cases hany : (sh.series.any fun s => decide (s.name = name ∧ s.tags = tags)) = true
  · rw [if_pos hany]
    have hex : ∃ s ∈ sh.series, s.name = name ∧ s.tags = tags := by
      simpa [List.any_eq_true] using hany
    constructor
    · intro n2 t2
      simp only [List.mem_map]
      constructor
      · rintro ⟨s', ⟨s, hs, rfl⟩, hn, ht⟩
        left
        refine ⟨s, hs, ?_, ?_⟩
        · split at hn <;> exact hn
        · split at ht <;> exact ht
      · rintro (⟨s, hs, hn, ht⟩ | ⟨rfl, rfl⟩)
        · refine ⟨_, ⟨s, hs, rfl⟩, ?_, ?_⟩
          · split <;> exact hn
          · split <;> exact ht
        · obtain ⟨s, hs, hn, ht⟩ := hex
          refine ⟨_, ⟨s, hs, rfl⟩, ?_, ?_⟩
          · split <;> exact hn
          · split <;> exact ht
    · intro m k v
      simp only
      constructor
      · intro h; exact Or.inl h
      · rintro (h | ⟨hno, _⟩)
        · exact h
        · exact absurd hex hno
  · rw [if_neg hany]
    have hno : ¬ ∃ s ∈ sh.series, s.name = name ∧ s.tags = tags := by
      simpa [List.any_eq_true] using hany
    constructor
    · intro n2 t2
      simp only [List.mem_append, List.mem_singleton]
      constructor
      · rintro ⟨s, (hs | rfl), hn, ht⟩
        · exact Or.inl ⟨s, hs, hn, ht⟩
        · exact Or.inr ⟨hn.symm, ht.symm⟩
      · rintro (⟨s, hs, hn, ht⟩ | ⟨rfl, rfl⟩)
        · exact ⟨s, Or.inl hs, hn, ht⟩
        · exact ⟨_, Or.inr rfl, rfl, rfl⟩
    · intro m k v
      simp only [List.mem_append, List.mem_filter, List.mem_map, Bool.not_eq_true',
        List.contains_eq_mem, decide_eq_false_iff_not]
      constructor
      · rintro (h | ⟨⟨t, ht, heq⟩, _⟩)
        · exact Or.inl h
        · simp only [Prod.mk.injEq] at heq
          obtain ⟨rfl, rfl, rfl⟩ := heq
          exact Or.inr ⟨hno, rfl, by simpa using ht⟩
      · rintro (h | ⟨_, rfl, hkv⟩)
        · exact Or.inl h
        · by_cases hin : (m, k, v) ∈ sh.tagvals
          · exact Or.inl hin
          · exact Or.inr ⟨⟨(k, v), hkv, rfl⟩, hin⟩

theorem inv42_write (st : State) (h : Inv42 st) (sh : Nat) (name : Bytes) (tags : Tags) (pts : List (Int × Int))
    (hta : TagsAsc tags) : Inv42 (write st sh name tags pts) := by
  constructor
  · intro sh' hsh' m k v
    simp only [write, List.mem_map] at hsh'
    obtain ⟨sh0, hsh0, rfl⟩ := hsh'
    split
    · obtain ⟨hser, htv⟩ := shard_write_spec sh0 name tags pts
      rw [htv m k v, h.idx sh0 hsh0 m k v]
      constructor
      · rintro (⟨s, hs, hn, hkv⟩ | ⟨_, rfl, hkv⟩)
        · obtain ⟨s', hs', hn', ht'⟩ := (hser s.name s.tags).2 (Or.inl ⟨s, hs, rfl, rfl⟩)
          exact ⟨s', hs', hn'.trans hn, by rw [ht']; exact hkv⟩
        · obtain ⟨s', hs', hn', ht'⟩ := (hser m tags).2 (Or.inr ⟨rfl, rfl⟩)
          exact ⟨s', hs', hn', by rw [ht']; exact hkv⟩
      · rintro ⟨s', hs', hn', hkv⟩
        rcases (hser s'.name s'.tags).1 ⟨s', hs', rfl, rfl⟩ with ⟨s, hs, hn, ht⟩ | ⟨hn, ht⟩
        · exact Or.inl ⟨s, hs, hn.trans hn', by rw [ht]; exact hkv⟩
        · by_cases hex : ∃ s ∈ sh0.series, s.name = name ∧ s.tags = tags
          · obtain ⟨s, hs, hn2, ht2⟩ := hex
            exact Or.inl ⟨s, hs, by rw [hn2, ← hn, hn'], by rw [ht2, ← ht]; exact hkv⟩
          · exact Or.inr ⟨hex, by rw [← hn', hn], by rw [← ht]; exact hkv⟩
    · exact h.idx sh0 hsh0 m k v
  · intro sh' hsh' s' hs'
    simp only [write, List.mem_map] at hsh'
    obtain ⟨sh0, hsh0, rfl⟩ := hsh'
    split at hs'
    · obtain ⟨hser, _⟩ := shard_write_spec sh0 name tags pts
      rcases (hser s'.name s'.tags).1 ⟨s', hs', rfl, rfl⟩ with ⟨s, hs, _, ht⟩ | ⟨_, ht⟩
      · rw [← ht]; exact h.tags sh0 hsh0 s hs
      · rw [ht]; exact hta
    · exact h.tags sh0 hsh0 s' hs'

theorem rel42_write (st : State) (h : Hist) (hr : Rel42 st h)
    (sh : Nat) (name : Bytes) (tags : Tags) (pts : List (Int × Int)) (hex : st.any (·.id = sh) = true) :
    Rel42 (write st sh name tags pts) (h.write sh name tags (pts.map (·.1))) := by
  intro i n2 t2
  -- the history side
  have hH : (∃ e ∈ (h.write sh name tags (pts.map (·.1))).live, e.shard = i ∧ e.name = n2 ∧ e.tags = t2) ↔
      ((∃ e ∈ h.live, e.shard = i ∧ e.name = n2 ∧ e.tags = t2) ∨ (i = sh ∧ n2 = name ∧ t2 = tags)) := by
    unfold Hist.write
    by_cases hany : (h.live.any fun e => decide (e.shard = sh ∧ e.name = name ∧ e.tags = tags)) = true
    · rw [if_pos hany]
      have hexe : ∃ e ∈ h.live, e.shard = sh ∧ e.name = name ∧ e.tags = tags := by
        simpa [List.any_eq_true] using hany
      simp only [List.mem_map]
      constructor
      · rintro ⟨e', ⟨e, he, rfl⟩, h1, h2, h3⟩
        left
        refine ⟨e, he, ?_, ?_, ?_⟩
        · split at h1 <;> exact h1
        · split at h2 <;> exact h2
        · split at h3 <;> exact h3
      · rintro (⟨e, he, h1, h2, h3⟩ | ⟨rfl, rfl, rfl⟩)
        · refine ⟨_, ⟨e, he, rfl⟩, ?_, ?_, ?_⟩
          · split <;> exact h1
          · split <;> exact h2
          · split <;> exact h3
        · obtain ⟨e, he, h1, h2, h3⟩ := hexe
          refine ⟨_, ⟨e, he, rfl⟩, ?_, ?_, ?_⟩
          · split <;> exact h1
          · split <;> exact h2
          · split <;> exact h3
    · rw [if_neg hany]
      simp only [List.mem_append, List.mem_singleton]
      constructor
      · rintro ⟨e, (he | rfl), h1, h2, h3⟩
        · exact Or.inl ⟨e, he, h1, h2, h3⟩
        · exact Or.inr ⟨h1.symm, h2.symm, h3.symm⟩
      · rintro (⟨e, he, h1, h2, h3⟩ | ⟨rfl, rfl, rfl⟩)
        · exact ⟨e, Or.inl he, h1, h2, h3⟩
        · exact ⟨_, Or.inr rfl, rfl, rfl, rfl⟩
  -- the model side
  have hM : (∃ x ∈ write st sh name tags pts, x.id = i ∧ ∃ s ∈ x.series, s.name = n2 ∧ s.tags = t2) ↔
      ((∃ x ∈ st, x.id = i ∧ ∃ s ∈ x.series, s.name = n2 ∧ s.tags = t2) ∨ (i = sh ∧ n2 = name ∧ t2 = tags)) := by
    simp only [write, List.mem_map]
    constructor
    · rintro ⟨x, ⟨sh0, hsh0, rfl⟩, hid, hs⟩
      by_cases hsid : sh0.id = sh
      · simp only [hsid, if_true] at hid hs
        rw [shard_write_id] at hid
        rcases ((shard_write_spec sh0 name tags pts).1 n2 t2).1 hs with hold | hnew
        · exact Or.inl ⟨sh0, hsh0, hid, hold⟩
        · exact Or.inr ⟨by rw [← hid, hsid], hnew.1, hnew.2⟩
      · simp only [hsid, if_false] at hid hs
        exact Or.inl ⟨sh0, hsh0, hid, hs⟩
    · rintro (⟨sh0, hsh0, hid, hs⟩ | ⟨rfl, rfl, rfl⟩)
      · refine ⟨_, ⟨sh0, hsh0, rfl⟩, ?_, ?_⟩
        · split
          · rw [shard_write_id]; exact hid
          · exact hid
        · split
          · exact ((shard_write_spec sh0 name tags pts).1 n2 t2).2 (Or.inl hs)
          · exact hs
      · obtain ⟨sh0, hsh0, hsid⟩ : ∃ sh0 ∈ st, sh0.id = i := by
          simpa [List.any_eq_true] using hex
        refine ⟨_, ⟨sh0, hsh0, rfl⟩, ?_, ?_⟩
        · simp only [hsid, if_true]; rw [shard_write_id]; exact hsid
        · simp only [hsid, if_true]
          exact ((shard_write_spec sh0 n2 t2 pts).1 n2 t2).2 (Or.inr ⟨rfl, rfl⟩)
  rw [hH, hM, hr i n2 t2]

/-! ### the judged MeasurementNames answers -/

theorem judge_mn42 (st : State) (h : Hist) (hr : Rel42 st h) (hinv : Inv42 st) (a : Auth) (c : Option Cond)
    (hc : ∀ c', c = some c' → condOK c' = true) :
    judgeQuery h.live (.mn a c) (.names (measurementNames a st c)) = .ok := by
  have hsorted : sortedAns (.names (measurementNames a st c)) = true :=
    strictAsc_bool _ (strictAsc_measurementNames a st c)
  -- membership in the model's answer
  have hmem : ∀ m, m ∈ measurementNames a st c ↔
      ∃ sh ∈ st, ∃ s ∈ sh.series, s.name = m ∧ a.allows s.name s.tags = true ∧ optHolds s.name s.tags c = true := by
    intro m
    cases c with
    | none =>
      rw [mem_measurementNames_none]
      simp [LiveAuth, optHolds]
    | some c' =>
      have := mem_namesByExpr a st hinv.idx (tagsFn_of_inv hinv) c' (hc c' rfl) m
      simp only [measurementNames, optHolds]
      rw [this]; rfl
  have hexp : ∀ m, (m, ([] : Bytes), ([] : Bytes)) ∈ expected h.live (.mn a c) ↔
      ∃ e ∈ h.live, e.name = m ∧ a.allows e.name e.tags = true ∧ optHolds e.name e.tags c = true := by
    intro m
    simp only [expected, visible, List.mem_map, List.mem_filter, Bool.and_eq_true, Bool.true_and, Prod.mk.injEq,
      and_true]
    constructor
    · rintro ⟨e, ⟨⟨he, hal⟩, hh⟩, hn⟩; exact ⟨e, he, hn, hal, hh⟩
    · rintro ⟨e, he, hn, hal, hh⟩; exact ⟨e, ⟨⟨he, hal⟩, hh⟩, hn⟩
  have hsub1 : subset (returned (.names (measurementNames a st c))) (expected h.live (.mn a c)) = true := by
    simp only [subset, returned, List.all_eq_true, List.mem_map, List.contains_eq_mem, decide_eq_true_eq]
    rintro x ⟨m, hm, rfl⟩
    obtain ⟨sh, hsh, s, hs, hn, hal, hh⟩ := (hmem m).1 hm
    obtain ⟨e, he, _, hen, het⟩ := (hr sh.id s.name s.tags).2 ⟨sh, hsh, rfl, s, hs, rfl, rfl⟩
    exact (hexp m).2 ⟨e, he, hen.trans hn, by rw [hen, het]; exact hal, by rw [hen, het]; exact hh⟩
  have hsub2 : subset (expected h.live (.mn a c)) (returned (.names (measurementNames a st c))) = true := by
    simp only [subset, List.all_eq_true, List.contains_eq_mem, decide_eq_true_eq]
    intro x hx
    have hx' := hx
    simp only [expected, List.mem_map] at hx'
    obtain ⟨e, _, rfl⟩ := hx'
    obtain ⟨e', he', hn', hal, hh⟩ := (hexp e.name).1 hx
    obtain ⟨sh, hsh, _, s, hs, hsn, hst⟩ := (hr e'.shard e'.name e'.tags).1 ⟨e', he', rfl, rfl, rfl⟩
    simp only [returned, List.mem_map]
    refine ⟨e.name, (hmem e.name).2 ⟨sh, hsh, s, hs, hsn.trans hn', ?_, ?_⟩, rfl⟩
    · rw [hsn, hst]; exact hal
    · rw [hsn, hst]; exact hh
  unfold judgeQuery
  have hshape : shapeOK (.mn a c) (.names (measurementNames a st c)) = true := rfl
  simp only [hshape, hsorted, hsub1, hsub2, Bool.not_true, Bool.false_eq_true, if_false, Bool.and_self, if_true]

/-! ### the whole case -/

/-- the domain of the theorem: writes with sorted tags, MeasurementNames queries with no condition
    or one in `condOK`; no deletes, snapshots, TagKeys/TagValues queries -/
def opOK42 : Op → Bool
  | .write _ _ tags _ => tagsSorted tags
  | .mn _ c => (match c with | none => true | some c' => condOK c')
  | .open_ _ | .read _ | .ls _ => true
  | _ => false

def ansOf42 (st : Option State) (op : Op) : Influx.Spec.C42.Ans :=
  match st, op with
  | some s, .mn a c => .names (measurementNames a s c)
  | some s, .write sh _ _ _ => if s.any (·.id = sh) then .other "ok" else .other "bad-op"
  | none, .open_ _ => .other "ok"
  | _, _ => .other "-"

def runT42 : Option State → List Op → List (Op × Influx.Spec.C42.Ans)
  | _, [] => []
  | st, op :: ops => (op, ansOf42 st op) :: runT42 (stepOp st op).1 ops

theorem judgeCase_runT42 (ops : List Op) (hok : ops.all opOK42 = true) (st : State) (h : Hist)
    (hr : Rel42 st h) (hinv : Inv42 st) :
    (judgeCase h (runT42 (some st) ops)).all (· = .ok) = true := by
  induction ops generalizing st h with
  | nil => rfl
  | cons op ops ih =>
    simp only [List.all_cons, Bool.and_eq_true] at hok
    obtain ⟨hop, hrest⟩ := hok
    cases op with
    | open_ k => simpa [runT42, ansOf42, stepOp, judgeCase] using ih hrest st h hr hinv
    | write sh name tags pts =>
      simp only [opOK42] at hop
      by_cases hex : st.any (·.id = sh) = true
      · simp only [runT42, ansOf42, stepOp, hex, if_true, judgeCase]
        exact ih hrest _ _ (rel42_write st h hr sh name tags pts hex)
          (inv42_write st hinv sh name tags pts (tagsAsc_of_sorted tags hop))
      · simp only [runT42, ansOf42, stepOp, hex, Bool.false_eq_true, if_false, judgeCase]
        exact ih hrest st h hr hinv
    | snap sh => simp [opOK42] at hop
    | del lo hi pred hm => simp [opOK42] at hop
    | read sh =>
      simp only [runT42, ansOf42, stepOp]
      split <;> simpa [judgeCase] using ih hrest st h hr hinv
    | ls sh =>
      simp only [runT42, ansOf42, stepOp]
      split <;> simpa [judgeCase] using ih hrest st h hr hinv
    | mn au c =>
      simp only [opOK42] at hop
      simp only [runT42, ansOf42, stepOp, judgeCase, List.all_cons, Bool.and_eq_true]
      refine ⟨?_, ih hrest st h hr hinv⟩
      rw [judge_mn42 st h hr hinv au c]
      · rfl
      · intro c' hc'; subst hc'; exact hop
    | tk au ids nc kc f => simp [opOK42] at hop
    | tv au ids nc kc f => simp [opOK42] at hop

theorem rel42_init (n : Nat) :
    Rel42 ((List.range n).map fun i => ⟨i + 1, [], []⟩) ⟨[], []⟩ ∧ Inv42 ((List.range n).map fun i => ⟨i + 1, [], []⟩) := by
  constructor
  · intro i name tags
    constructor
    · rintro ⟨e, he, _⟩; cases he
    · rintro ⟨sh, hsh, _, s, hs, _⟩
      simp only [List.mem_map] at hsh
      obtain ⟨j, _, rfl⟩ := hsh
      cases hs
  · constructor
    · intro sh hsh m k v
      simp only [List.mem_map] at hsh
      obtain ⟨j, _, rfl⟩ := hsh
      simp
    · intro sh hsh s hs
      simp only [List.mem_map] at hsh
      obtain ⟨j, _, rfl⟩ := hsh
      cases hs

end Influx.Model.StoreDel
