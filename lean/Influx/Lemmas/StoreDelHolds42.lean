/-
  Lemmas.StoreDelHolds42 — the statement checker of C42 accepts the model's MeasurementNames
  answers on cases that only write (no deletes, so nothing lingers in the index) and query with
  conditions in `condOK`.
-/
import Influx.Lemmas.StoreDelC42
import Influx.Lemmas.StoreDelHolds

namespace Influx.Model.StoreDel
open Influx.Model.DelPred (Bytes Pred)
open Influx.Spec.C42 (Hist Entry holdsOf optHolds visible expected returned subset judgeQuery judgeCase
  sortedAns shapeOK strictAsc)

/-- the history's live entries are the model's series, shard by shard -/
def Rel42 (st : State) (h : Hist) : Prop :=
  ∀ (i : Nat) (name : Bytes) (tags : Tags),
    (∃ e ∈ h.live, e.shard = i ∧ e.name = name ∧ e.tags = tags) ↔
    (∃ sh ∈ st, sh.id = i ∧ ∃ s ∈ sh.series, s.name = name ∧ s.tags = tags)

theorem strictAsc_bool (l : List Bytes) (h : StrictAsc l) : strictAsc l = true := by
  induction l with
  | nil => rfl
  | cons a rest ih =>
    cases rest with
    | nil => rfl
    | cons b rest' =>
      simp only [strictAsc, Bool.and_eq_true, beq_iff_eq]
      exact ⟨h.1, ih h.2⟩

/-- tags with strictly ascending keys have one value per key -/
theorem tagGet_iff_mem (tags : Tags) (hs : tagsSortedP tags) (k v : Bytes) :
    (k, v) ∈ tags ↔ tagGet tags k = some v := by
  induction tags with
  | nil => simp [tagGet]
  | cons t ts ih =>
    obtain ⟨tk, tv⟩ := t
    have hts : tagsSortedP ts := hs.tail
    have hlt : ∀ x ∈ ts, cmpBytes tk x.1 = .lt := hs.head
    simp only [tagGet, List.find?_cons, List.mem_cons, Prod.mk.injEq]
    by_cases hk : tk = k
    · subst hk
      simp only [decide_true, Option.map_some, Option.some.injEq]
      constructor
      · rintro (⟨_, rfl⟩ | hmem)
        · rfl
        · have := hlt (tk, v) hmem
          rw [cmpBytes_refl] at this; cases this
      · intro h; exact Or.inl ⟨rfl, h.symm⟩
    · have hk' : decide (tk = k) = false := by simp [hk]
      simp only [hk']
      have := ih hts
      simp only [tagGet] at this
      rw [← this]
      constructor
      · rintro (⟨rfl, _⟩ | hmem)
        · exact absurd rfl hk
        · exact hmem
      · intro h; exact Or.inr h

end Influx.Model.StoreDel
