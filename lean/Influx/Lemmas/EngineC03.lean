/-
  Lemmas.EngineC03 — deletes: how `stepDelete` moves `abs` (under the hypothesis that the
  in-flight snapshot store holds nothing in the deleted range), and the link between the
  event history of `Spec.C03` and `abs`.
-/
import Influx.Lemmas.EngineC01
import Influx.Spec.C03

namespace Influx.Model.Engine
open Influx.Spec.C03

/-! ### the event history -/

theorem cell_snoc (h : List Ev) (ev : Ev) (k : Key) (t : Int) :
    cell (h ++ [ev]) k t =
      if ev.touches k t then (match ev with | .put e => some e.val | .del .. => none) else cell h k t := by
  unfold cell
  rw [List.reverse_append, List.reverse_singleton, List.singleton_append, List.find?_cons]
  by_cases ht : ev.touches k t
  · simp only [ht, if_true]
    cases ev <;> rfl
  · simp only [ht, Bool.false_eq_true, if_false]

theorem cell_puts (h : List Ev) (es : Log) (k : Key) (t : Int) :
    cell (h ++ es.map .put) k t = (Log.get es k t).or (cell h k t) := by
  induction es generalizing h with
  | nil => simp [Log.get]
  | cons e es ih =>
    have : h ++ List.map Ev.put (e :: es) = (h ++ [Ev.put e]) ++ es.map .put := by simp
    rw [this, ih, cell_snoc, Log.get]
    cases Log.get es k t with
    | some v => rfl
    | none =>
      simp only [Option.none_or, Ev.touches, Bool.and_eq_true, decide_eq_true_eq]
      by_cases hm : e.key = k ∧ e.ts = t
      · simp [hm]
      · simp [hm]

theorem cell_del (h : List Ev) (ss : List Nat) (lo hi : Int) (k : Key) (t : Int) :
    cell (h ++ [.del ss lo hi]) k t = if covered ss lo hi k t then none else cell h k t := by
  rw [cell_snoc]; rfl

/-! ### delete on files, cache -/

theorem live_addTomb (ss : List Nat) (lo hi : Int) (f : TsmFile) :
    (addTomb ss lo hi f).live = f.live.filter fun e => !covered ss lo hi e.key e.ts := by
  unfold addTomb
  split
  · simp only [TsmFile.live, List.filter_filter, List.any_append, List.any_cons, List.any_nil, Bool.or_false,
      Tomb.covers]
    apply List.filter_congr
    intro e _
    cases (f.tombs.any fun tb => covered tb.series tb.lo tb.hi e.key e.ts) <;>
      cases covered ss lo hi e.key e.ts <;> rfl
  · next hn =>
    symm
    apply List.filter_eq_self.mpr
    intro e he
    have : ¬ (f.live.any fun e => covered ss lo hi e.key e.ts) = true := hn
    rw [List.any_eq_true] at this
    cases hc : covered ss lo hi e.key e.ts
    · rfl
    · exact absurd ⟨e, he, hc⟩ this

theorem filesLog_addTomb (ss : List Nat) (lo hi : Int) (fs : List TsmFile) :
    filesLog (fs.map (addTomb ss lo hi)) = (filesLog fs).filter fun e => !covered ss lo hi e.key e.ts := by
  induction fs with
  | nil => rfl
  | cons f fs ih =>
    simp only [filesLog, List.map_cons, List.flatMap_cons, List.filter_append] at ih ⊢
    rw [ih, live_addTomb]

theorem get_filter_covered (l : Log) (ss : List Nat) (lo hi : Int) (k : Key) (t : Int) :
    Log.get (l.filter fun e => !covered ss lo hi e.key e.ts) k t =
      if covered ss lo hi k t then none else Log.get l k t := by
  rw [Log.get_filter l (fun k t => !covered ss lo hi k t)]
  cases covered ss lo hi k t <;> rfl

/-- the snapshot store holds nothing that the delete covers -/
def SnapClear (s : State) (ss : List Nat) (lo hi : Int) : Prop :=
  ∀ e ∈ s.snap, covered ss lo hi e.key e.ts = false

instance (s : State) (ss : List Nat) (lo hi : Int) : Decidable (SnapClear s ss lo hi) := by
  unfold SnapClear; exact inferInstance

theorem get_snap_of_clear {s : State} {ss : List Nat} {lo hi : Int} (h : SnapClear s ss lo hi)
    {k : Key} {t : Int} (hc : covered ss lo hi k t = true) : Log.get s.snap k t = none := by
  cases hg : Log.get s.snap k t with
  | none => rfl
  | some v =>
    have := h _ (Log.get_some_mem hg)
    simp only at this
    rw [hc] at this; cases this

@[simp] theorem stepDelete_files (s : State) (ss : List Nat) (lo hi : Int) :
    (stepDelete s ss lo hi).files = s.files.map (addTomb ss lo hi) := by
  unfold stepDelete; simp only; split <;> rfl
@[simp] theorem stepDelete_hot (s : State) (ss : List Nat) (lo hi : Int) :
    (stepDelete s ss lo hi).hot = s.hot.filter fun e => !covered ss lo hi e.key e.ts := by
  unfold stepDelete; simp only; split <;> rfl
@[simp] theorem stepDelete_snap (s : State) (ss : List Nat) (lo hi : Int) :
    (stepDelete s ss lo hi).snap = s.snap := by
  unfold stepDelete; simp only; split <;> rfl
@[simp] theorem stepDelete_phase (s : State) (ss : List Nat) (lo hi : Int) :
    (stepDelete s ss lo hi).phase = s.phase := by
  unfold stepDelete; simp only; split <;> rfl
@[simp] theorem stepDelete_snapTmp (s : State) (ss : List Nat) (lo hi : Int) :
    (stepDelete s ss lo hi).snapTmp = s.snapTmp := by
  unfold stepDelete; simp only; split <;> rfl

/-- **A delete removes exactly the covered cells** — provided the in-flight snapshot store
    holds none of them (`SnapClear`).  Without the proviso this is false (C03_full_fails). -/
theorem abs_stepDelete {s : State} {ss : List Nat} {lo hi : Int} (hc : SnapClear s ss lo hi)
    (k : Key) (t : Int) :
    (stepDelete s ss lo hi).abs k t = if covered ss lo hi k t then none else s.abs k t := by
  simp only [State.abs_eq, stepDelete_files, stepDelete_hot, stepDelete_snap, filesLog_addTomb,
    get_filter_covered]
  by_cases hcv : covered ss lo hi k t = true
  · simp [hcv, get_snap_of_clear hc hcv]
  · simp [hcv]

theorem inv_stepDelete {s : State} (h : Inv s) (ss : List Nat) (lo hi : Int)
    (hp : s.phase ≠ .replaced) : Inv (stepDelete s ss lo hi) := by
  constructor <;> simp only [stepDelete_phase, stepDelete_snap, stepDelete_snapTmp]
  · exact h.idle_snap
  · exact h.written_tmp
  · intro h'; exact absurd h' hp
  · exact h.cleared_snap

/-! ### the checker accepts reads of a state whose abs is the event history's cell map -/

def AbsIs3 (s : State) (h : List Ev) : Prop := ∀ k t, s.abs k t = cell h k t

theorem ordered3_read (s : State) (k : Key) (lo hi : Int) (asc : Bool) :
    Spec.C03.ordered asc (s.read k lo hi asc) = true := by
  have : ∀ l, Spec.C03.ordered asc l = Spec.C01.ordered asc l := by
    intro l
    induction l with
    | nil => rfl
    | cons p l ih =>
      cases l with
      | nil => rfl
      | cons q l => simp only [Spec.C03.ordered, Spec.C01.ordered, ih]
  rw [this]; exact ordered_read s k lo hi asc

theorem rowsOK3_read {s : State} {h : List Ev} (ha : AbsIs3 s h) (k : Key) (lo hi : Int) (asc : Bool) :
    Spec.C03.rowsOK h k lo hi asc (s.read k lo hi asc) = true := by
  simp only [Spec.C03.rowsOK, Bool.and_eq_true]
  refine ⟨⟨ordered3_read s k lo hi asc, ?_⟩, ?_⟩
  · simp only [Spec.C03.rowsSound, List.all_eq_true, Bool.and_eq_true, decide_eq_true_eq, beq_iff_eq]
    intro p hp
    have := (s.mem_read k lo hi asc p).mp hp
    rw [← ha]
    exact ⟨this.1, this.2⟩
  · simp only [Spec.C03.rowsComplete, List.all_eq_true]
    intro ev hev
    cases ev with
    | del => rfl
    | put e =>
      simp only [Bool.or_eq_true, Bool.not_eq_true', List.any_eq_true, beq_iff_eq]
      by_cases hc : (decide (e.key = k) && decide (lo ≤ e.ts) && decide (e.ts ≤ hi) && (cell h k e.ts).isSome) = true
      · right
        simp only [Bool.and_eq_true, decide_eq_true_eq] at hc
        obtain ⟨⟨⟨_, hlo⟩, hhi⟩, hs⟩ := hc
        obtain ⟨v, hv⟩ := Option.isSome_iff_exists.mp hs
        refine ⟨(e.ts, v), ?_, rfl⟩
        rw [s.mem_read]
        exact ⟨⟨hlo, hhi⟩, by rw [ha]; exact hv⟩
      · left
        simpa using hc

end Influx.Model.Engine
