/-
  Lemmas.TsmVisible — consequences of `TInv`: `ContainsValue` is exactly "a block of
  the key contains t and no request for the key covers t"; the invariant holds for a
  freshly opened index.
-/
import Influx.Lemmas.TsmHidden

namespace Influx.Tsm
open Influx.Generated.TsmLayout

def hasPoint (kes : List KeyEntry) (k : Key) (t : Int) : Prop :=
  ∃ ke ∈ kes, ke.key = k ∧ ∃ e ∈ ke.entries, e.MinTime ≤ t ∧ t ≤ e.MaxTime

theorem containsValue_iff (ix : Index) (H : Hist) (h : TInv ix H) (k : Key) (t : Int) :
    containsValue ix k t = true ↔ hasPoint ix.all k t ∧ ¬ coveredH H k t := by
  unfold containsValue entryOf entriesOf
  rw [search_eq_find h.inv]
  constructor
  · intro hc
    cases hf : ix.live.find? (fun ke => ke.key = k) with
    | none => simp [hf] at hc
    | some ke =>
      have hkl : ke ∈ ix.live := List.mem_of_find?_eq_some hf
      have hkk : ke.key = k := by simpa using List.find?_some hf
      simp only [hf] at hc
      cases he : ke.entries.find? (fun x => entryContains x t) with
      | none => simp [he] at hc
      | some e =>
        simp only [he] at hc
        have hem : e ∈ ke.entries := List.mem_of_find?_eq_some he
        have hec : entryContains e t = true := @List.find?_some _ (fun x => entryContains x t) _ _ he
        simp only [entryContains, Bool.and_eq_true, decide_eq_true_eq] at hec
        refine ⟨⟨ke, h.inv.sub.subset hkl, hkk, e, hem, hec.1, hec.2⟩, ?_⟩
        rintro ⟨r, hr, hrk, h1, h2⟩
        have hsp := (h.wf ke (h.inv.sub.subset hkl)).within e hem t hec.1 hec.2
        obtain ⟨x, hx, hx1, hx2⟩ := h.recorded ke hkl r hr (by rw [hrk, hkk]) t h1 h2 hsp
        rw [hkk] at hx
        have : (tombRange ix k).any (fun r => decide (r.Min ≤ t) && decide (r.Max ≥ t)) = true := by
          apply List.any_eq_true.mpr
          exact ⟨x, hx, by simp; omega⟩
        simp [this] at hc
  · rintro ⟨⟨ke, hke, hkk, e, hem, h1, h2⟩, hnc⟩
    have hsp := (h.wf ke hke).within e hem t h1 h2
    have hkl : ke ∈ ix.live := by
      by_cases hl : ke ∈ ix.live
      · exact hl
      · exact absurd (hkk ▸ h.absent ke hke hl t hsp) hnc
    have hf := find_of_mem_sorted h.inv.sortedLive hkl
    rw [hkk] at hf
    simp only [hf]
    have : (ke.entries.find? (fun x => entryContains x t)).isSome = true := by
      rw [List.find?_isSome]
      exact ⟨e, hem, by simp [entryContains]; omega⟩
    cases he : ke.entries.find? (fun x => entryContains x t) with
    | none => simp [he] at this
    | some e' =>
      simp only
      have : (tombRange ix k).any (fun r => decide (r.Min ≤ t) && decide (r.Max ≥ t)) = false := by
        cases hany : (tombRange ix k).any (fun r => decide (r.Min ≤ t) && decide (r.Max ≥ t)) with
        | false => rfl
        | true =>
          exfalso
          obtain ⟨r, hr, hrt⟩ := List.any_eq_true.mp hany
          simp only [Bool.and_eq_true, decide_eq_true_eq] at hrt
          exact hnc ⟨(k, r.Min, r.Max), h.sound k r hr, rfl, hrt.1, by simp; omega⟩
      simp [this]

/-- **never over-deletes**: a key that is no longer in the index has every time of its
    span covered by requests for that key -/
theorem absent_covered (ix : Index) (H : Hist) (h : TInv ix H) (ke : KeyEntry) (hke : ke ∈ ix.all)
    (hgone : contains ix ke.key = false) (hne : ke.entries ≠ []) : ∀ t, spanIn ke t → coveredH H ke.key t := by
  intro t ht
  apply h.absent ke hke _ t ht
  intro hl
  have hf := find_of_mem_sorted h.inv.sortedLive hl
  have : contains ix ke.key = true := by
    unfold contains entriesOf
    rw [search_eq_find h.inv, hf]
    simpa [List.isEmpty_iff] using hne
  rw [this] at hgone; cases hgone

/-! ### a freshly opened index -/

theorem scanMin_le (kes : List KeyEntry) : ∀ (m : Int),
    let r := kes.foldl scanMinStep m
    r ≤ m ∧ ∀ ke ∈ kes, ∀ e, ke.entries.head? = some e → r ≤ e.MinTime := by
  induction kes with
  | nil => intro m; simp
  | cons ke kes ih =>
    intro m
    simp only [List.foldl_cons, scanMinStep]
    cases hh : ke.entries.head? with
    | none =>
      simp only
      obtain ⟨h1, h2⟩ := ih m
      refine ⟨h1, ?_⟩
      intro x hx e he
      rcases List.mem_cons.mp hx with rfl | hx
      · rw [hh] at he; cases he
      · exact h2 x hx e he
    | some e0 =>
      simp only
      obtain ⟨h1, h2⟩ := ih (if e0.MinTime < m then e0.MinTime else m)
      by_cases hc : e0.MinTime < m
      · simp only [hc, if_true] at h1 h2 ⊢
        refine ⟨by omega, ?_⟩
        intro x hx e he
        rcases List.mem_cons.mp hx with rfl | hx
        · rw [hh] at he; cases he; omega
        · exact h2 x hx e he
      · simp only [hc, if_false] at h1 h2 ⊢
        refine ⟨by omega, ?_⟩
        intro x hx e he
        rcases List.mem_cons.mp hx with rfl | hx
        · rw [hh] at he; cases he; omega
        · exact h2 x hx e he

theorem scanMax_ge (kes : List KeyEntry) : ∀ (m : Int),
    let r := kes.foldl scanMaxStep m
    m ≤ r ∧ ∀ ke ∈ kes, ∀ e, ke.entries.getLast? = some e → e.MaxTime ≤ r := by
  induction kes with
  | nil => intro m; simp
  | cons ke kes ih =>
    intro m
    simp only [List.foldl_cons, scanMaxStep]
    cases hh : ke.entries.getLast? with
    | none =>
      simp only
      obtain ⟨h1, h2⟩ := ih m
      refine ⟨h1, ?_⟩
      intro x hx e he
      rcases List.mem_cons.mp hx with rfl | hx
      · rw [hh] at he; cases he
      · exact h2 x hx e he
    | some e0 =>
      simp only
      obtain ⟨h1, h2⟩ := ih (if e0.MaxTime > m then e0.MaxTime else m)
      by_cases hc : e0.MaxTime > m
      · simp only [hc, if_true] at h1 h2 ⊢
        refine ⟨by omega, ?_⟩
        intro x hx e he
        rcases List.mem_cons.mp hx with rfl | hx
        · rw [hh] at he; cases he; omega
        · exact h2 x hx e he
      · simp only [hc, if_false] at h1 h2 ⊢
        refine ⟨by omega, ?_⟩
        intro x hx e he
        rcases List.mem_cons.mp hx with rfl | hx
        · rw [hh] at he; cases he; omega
        · exact h2 x hx e he

/-- the index built by `NewTSMReader` from a strictly sorted, well-formed key list
    satisfies the invariant with no request applied -/
theorem TInv_mkIndex (kes : List KeyEntry) (hs : SortedKE kes) (hwf : ∀ ke ∈ kes, WFKE ke) :
    TInv (mkIndex kes) [] := by
  refine ⟨mkIndex_inv kes hs, hwf, ?_, ?_, ?_, ?_, ?_⟩
  · intro ke hke t ⟨mn, mx, hsp, h1, h2⟩
    simp only [mkIndex] at hke ⊢
    unfold spanKE at hsp
    cases h0 : ke.entries.head? with
    | none => simp [h0] at hsp
    | some e0 =>
      cases hN : ke.entries.getLast? with
      | none => simp [h0, hN] at hsp
      | some eN =>
        simp only [h0, hN, Option.some.injEq, Prod.mk.injEq] at hsp
        have a := (scanMin_le kes maxInt64).2 ke hke e0 h0
        have b := (scanMax_ge kes minInt64).2 ke hke eN hN
        simp only [scanMinTime, scanMaxTime]
        omega
  · intro k r hr; simp [mkIndex, tombRange] at hr
  · intro ke hke hnl; exact absurd hke hnl
  · intro ke _ r hr; cases hr
  · intro k; simp [mkIndex, tombRange, MinSorted]

end Influx.Tsm
