/-
  Lemmas.TSIInvDrop — the partition invariant through `Partition.DropMeasurement`.
-/
import Influx.Lemmas.TSIInvOps

namespace Influx.Model.TSI

/-- the accessors of measurement `n` only read the file's entry for `n`. -/
theorem accessors_congr {d d' : FileData} {n : String} (h : alookup d'.mms n = alookup d.mms n) :
    measFlag n d' = measFlag n d ∧ fileMeasSeries n d' = fileMeasSeries n d ∧
    (∀ k, keyElem n k d' = keyElem n k d) ∧ (∀ k v, valElem n k v d' = valElem n k v d) ∧
    (∀ k v, fileValSeries n k v d' = fileValSeries n k v d) := by
  refine ⟨?_, ?_, ?_, ?_, ?_⟩
  · unfold measFlag; rw [h]
  · unfold fileMeasSeries; rw [h]
  · intro k; unfold keyElem; rw [h]
  · intro k v; unfold valElem keyElem; rw [h]
  · intro k v; unfold fileValSeries valElem keyElem; rw [h]

/-- an entry that only concerns measurement `m`. -/
def AboutM (sf : SFile) (m : String) (e : Entry) : Prop :=
  e = .delMeas m ∨ (∃ k, e = .delKey m k) ∨ (∃ k v, e = .delVal m k v) ∨
    (∃ id s, e = .delSeries id ∧ sf.find id = some s ∧ s.name = m)

theorem exec_aboutM (sf : SFile) (d : FileData) (e : Entry) (m n : String) (hn : n ≠ m)
    (he : AboutM sf m e) : alookup (exec sf d e).mms n = alookup d.mms n := by
  apply exec_other_meas sf d e m n hn
  rcases he with h | h | h | ⟨id, s, h1, h2, h3⟩
  · exact Or.inl h
  · exact Or.inr (Or.inl h)
  · exact Or.inr (Or.inr (Or.inl h))
  · exact Or.inr (Or.inr (Or.inr (Or.inl ⟨id, false, s, by simpa using h1, h2, h3⟩)))

theorem foldl_aboutM (sf : SFile) (es : List Entry) (m n : String) (hn : n ≠ m)
    (he : ∀ e ∈ es, AboutM sf m e) (d : FileData) :
    alookup (es.foldl (exec sf) d).mms n = alookup d.mms n := by
  induction es generalizing d with
  | nil => rfl
  | cons e rest ih =>
    simp only [List.foldl_cons]
    rw [ih (fun e' he' => he e' (List.mem_cons_of_mem _ he')), exec_aboutM sf d e m n hn (he e (by simp))]

/-- flag-only entries leave the id sets alone. -/
theorem foldl_flags_sets (sf : SFile) (es : List Entry)
    (he : ∀ e ∈ es, ∀ id, e ≠ .add id ∧ e ≠ .delSeries id) (d : FileData) :
    (es.foldl (exec sf) d).sset = d.sset ∧ (es.foldl (exec sf) d).tomb = d.tomb := by
  induction es generalizing d with
  | nil => exact ⟨rfl, rfl⟩
  | cons e rest ih =>
    simp only [List.foldl_cons]
    have h1 := exec_flags_sset sf d e (he e (by simp))
    have h2 := ih (fun e' he' => he e' (List.mem_cons_of_mem _ he')) (exec sf d e)
    exact ⟨h2.1.trans h1.1, h2.2.trans h1.2⟩

/-- a run of series tombstones of known ids. -/
theorem foldl_delSeries_sets (sf : SFile) (ids : List Nat) (hk : ∀ id ∈ ids, (sf.find id).isSome)
    (d : FileData) (x : Nat) :
    (x ∈ ((ids.map Entry.delSeries).foldl (exec sf) d).sset ↔ x ∈ d.sset ∧ x ∉ ids) ∧
    (x ∈ ((ids.map Entry.delSeries).foldl (exec sf) d).tomb ↔ x ∈ d.tomb ∨ x ∈ ids) := by
  induction ids generalizing d with
  | nil => simp
  | cons id rest ih =>
    simp only [List.map_cons, List.foldl_cons]
    have hki := hk id (by simp)
    cases hf : sf.find id with
    | none => simp [hf] at hki
    | some s =>
      have hsets := execSeries_sset sf d false id s hf
      simp only [Bool.false_eq_true, if_false] at hsets
      have := ih (fun i hi => hk i (List.mem_cons_of_mem _ hi)) (exec sf d (.delSeries id))
      simp only [exec] at this ⊢
      rw [this.1, this.2, hsets.1, hsets.2]
      simp only [mem_sdel, mem_sadd, List.mem_cons, not_or]
      constructor
      · constructor
        · rintro ⟨⟨h1, h2⟩, h3⟩; exact ⟨h1, h2, h3⟩
        · rintro ⟨h1, h2, h3⟩; exact ⟨⟨h1, h2⟩, h3⟩
      · constructor
        · rintro ((h | h) | h)
          · exact Or.inr (Or.inl h)
          · exact Or.inl h
          · exact Or.inr (Or.inr h)
        · rintro (h | h | h)
          · exact Or.inl (Or.inr h)
          · exact Or.inl (Or.inl h)
          · exact Or.inr h

/-- the three segments of `dropMeasurementEntries`. -/
def dmKeyEntries (fs : List FileData) (name : String) : List Entry :=
  (sortStr (fs.flatMap (fileKeys name))).flatMap (fun k =>
    (if firstSome (fun f => (keyElem name k f).map (·.deleted)) fs == some false
      then [Entry.delKey name k] else []) ++
      (mergedKeyValues fs name k).filterMap (fun (v, del) =>
        if del then none else some (Entry.delVal name k v)))

theorem dropMeasurementEntries_eq (fs : List FileData) (name : String) :
    dropMeasurementEntries fs name =
      dmKeyEntries fs name ++ (sortNat (fsMeasSeries fs name)).map Entry.delSeries ++ [Entry.delMeas name] := rfl

theorem dmKeyEntries_flags (fs : List FileData) (name : String) :
    ∀ e ∈ dmKeyEntries fs name, (∃ k, e = .delKey name k) ∨ (∃ k v, e = .delVal name k v) := by
  intro e he
  unfold dmKeyEntries at he
  simp only [List.mem_flatMap, List.mem_append, List.mem_filterMap] at he
  obtain ⟨k, _, he⟩ := he
  rcases he with he | ⟨⟨v, del⟩, _, he⟩
  · split at he
    · simp only [List.mem_singleton] at he; exact Or.inl ⟨k, he⟩
    · simp at he
  · simp only at he
    split at he
    · simp at he
    · simp only [Option.some.injEq] at he; exact Or.inr ⟨k, v, he.symm⟩

/-- the head file after the whole `DropMeasurement(m)`. -/
theorem dropMeasurement_head (sf : SFile) (fs : List FileData) (m : String) (d : FileData)
    (hk : ∀ id ∈ fsMeasSeries fs m, ∃ s, sf.find id = some s ∧ s.name = m) :
    let d' := (dropMeasurementEntries fs m).foldl (exec sf) d
    (∀ n, n ≠ m → alookup d'.mms n = alookup d.mms n) ∧
    alookup d'.mms m = some { deleted := true, series := [], keys := [] } ∧
    (∀ x, x ∈ d'.sset ↔ x ∈ d.sset ∧ x ∉ fsMeasSeries fs m) ∧
    (∀ x, x ∈ d'.tomb ↔ x ∈ d.tomb ∨ x ∈ fsMeasSeries fs m) := by
  intro d'
  have habout : ∀ e ∈ dropMeasurementEntries fs m, AboutM sf m e := by
    intro e he
    rw [dropMeasurementEntries_eq] at he
    simp only [List.mem_append, List.mem_map, List.mem_singleton] at he
    rcases he with (he | ⟨id, hid, rfl⟩) | rfl
    · rcases dmKeyEntries_flags fs m e he with h | h
      · exact Or.inr (Or.inl h)
      · exact Or.inr (Or.inr (Or.inl h))
    · obtain ⟨s, hs, hn⟩ := hk id ((mem_sortNat _ _).mp hid)
      exact Or.inr (Or.inr (Or.inr ⟨id, s, rfl, hs, hn⟩))
    · exact Or.inl rfl
  refine ⟨fun n hn => foldl_aboutM sf _ m n hn habout d, ?_, ?_, ?_⟩
  · show alookup ((dropMeasurementEntries fs m).foldl (exec sf) d).mms m = _
    rw [dropMeasurementEntries_eq, List.foldl_append]
    simp only [List.foldl_cons, List.foldl_nil]
    rw [exec_delMeas_mms]; simp
  · intro x
    show x ∈ ((dropMeasurementEntries fs m).foldl (exec sf) d).sset ↔ _
    rw [dropMeasurementEntries_eq, List.foldl_append, List.foldl_append]
    simp only [List.foldl_cons, List.foldl_nil]
    have h3 := exec_flags_sset sf
      (((sortNat (fsMeasSeries fs m)).map Entry.delSeries).foldl (exec sf) ((dmKeyEntries fs m).foldl (exec sf) d))
      (.delMeas m) (fun id => ⟨by simp, by simp⟩)
    rw [h3.1]
    have hkk : ∀ id ∈ sortNat (fsMeasSeries fs m), (sf.find id).isSome := by
      intro id hid
      obtain ⟨s, hs, _⟩ := hk id ((mem_sortNat _ _).mp hid)
      simp [hs]
    rw [(foldl_delSeries_sets sf _ hkk _ x).1]
    have h1 := foldl_flags_sets sf (dmKeyEntries fs m) (by
      intro e he id
      rcases dmKeyEntries_flags fs m e he with ⟨k, rfl⟩ | ⟨k, v, rfl⟩ <;> exact ⟨by simp, by simp⟩) d
    rw [h1.1, mem_sortNat]
  · intro x
    show x ∈ ((dropMeasurementEntries fs m).foldl (exec sf) d).tomb ↔ _
    rw [dropMeasurementEntries_eq, List.foldl_append, List.foldl_append]
    simp only [List.foldl_cons, List.foldl_nil]
    have h3 := exec_flags_sset sf
      (((sortNat (fsMeasSeries fs m)).map Entry.delSeries).foldl (exec sf) ((dmKeyEntries fs m).foldl (exec sf) d))
      (.delMeas m) (fun id => ⟨by simp, by simp⟩)
    rw [h3.2]
    have hkk : ∀ id ∈ sortNat (fsMeasSeries fs m), (sf.find id).isSome := by
      intro id hid
      obtain ⟨s, hs, _⟩ := hk id ((mem_sortNat _ _).mp hid)
      simp [hs]
    rw [(foldl_delSeries_sets sf _ hkk _ x).2]
    have h1 := foldl_flags_sets sf (dmKeyEntries fs m) (by
      intro e he id
      rcases dmKeyEntries_flags fs m e he with ⟨k, rfl⟩ | ⟨k, v, rfl⟩ <;> exact ⟨by simp, by simp⟩) d
    rw [h1.2, mem_sortNat]

theorem replay_append_list (sf : SFile) (es es' : List Entry) :
    replay sf (es ++ es') = es'.foldl (exec sf) (replay sf es) := by
  unfold replay
  rw [List.foldl_append]

/-- **`Partition.DropMeasurement(m)`** when no live series is named `m`: the measurement stops
    being an exception of the "listed only with a live series" clause. -/
theorem pinv_dropMeasurement {exc : String → Prop} {sf : SFile} {live : List Nat} {i : Nat}
    {p : Partition} (m : String) (hp : PInvX (fun n => exc n ∨ n = m) sf live i p)
    (hno : ∀ id ∈ live, ∀ s, sf.find id = some s → s.name ≠ m) :
    PInvX exc sf live i (p.append sf (dropMeasurementEntries p.datas m)) := by
  obtain ⟨a, rest, hfiles, halog⟩ := hp.head
  have ha : a ∈ p.files := by rw [hfiles]; simp
  have hrest : ∀ f ∈ rest, f ∈ p.files := fun f hf' => by rw [hfiles]; exact List.mem_cons_of_mem _ hf'
  have hfiles' := append_files sf p (dropMeasurementEntries p.datas m) a rest hfiles
  have hdatas0 : p.datas = a.data :: rest.map (·.data) := datas_cons p a rest hfiles
  -- every id listed under `m` anywhere is a known series named `m`
  have hk : ∀ id ∈ fsMeasSeries p.datas m, ∃ s, sf.find id = some s ∧ s.name = m := by
    intro id hid
    obtain ⟨d, hd, hx⟩ := (mem_fsMeasSeries p.datas m id).mp hid
    unfold Partition.datas at hd
    obtain ⟨f, hf, rfl⟩ := List.mem_map.mp hd
    exact (hp.sound f hf).meas m id hx
  have hdead : ∀ id ∈ fsMeasSeries p.datas m, id ∉ live := by
    intro id hid hl
    obtain ⟨s, hs, hn⟩ := hk id hid
    exact hno id hl s hs hn
  obtain ⟨hother, hm, hsset, htomb⟩ := dropMeasurement_head sf p.datas m a.data hk
  -- abbreviations
  generalize hd' : (dropMeasurementEntries p.datas m).foldl (exec sf) a.data = d' at hother hm hsset htomb hfiles'
  have hdatas : (p.append sf (dropMeasurementEntries p.datas m)).datas = d' :: rest.map (·.data) := by
    show List.map (·.data) (p.append sf (dropMeasurementEntries p.datas m)).files = _
    rw [hfiles']; rfl
  have hacc : ∀ n, n ≠ m → _ := fun n hn => accessors_congr (hother n hn)
  refine { head := ⟨_, rest, hfiles', halog⟩, loginv := ?_, eknown := ?_, noflags := ?_, sound := ?_,
           comp := ?_, notomb := ?_, tknown := ?_, sset := ?_, stat := ?_, mflive := ?_, mfdead := ?_ }
  · intro f hfm hl
    rw [hfiles'] at hfm
    rcases List.mem_cons.mp hfm with rfl | hfr
    · simp only
      rw [replay_append_list, ← hp.loginv a ha halog, hd']
    · exact hp.loginv f (hrest f hfr) hl
  · intro f hfm e he x hx
    rw [hfiles'] at hfm
    rcases List.mem_cons.mp hfm with rfl | hfr
    · simp only [List.mem_append] at he
      rcases he with he | he
      · exact hp.eknown a ha e he x hx
      · rw [dropMeasurementEntries_eq] at he
        simp only [List.mem_append, List.mem_map, List.mem_singleton] at he
        rcases he with (he | ⟨id, hid, rfl⟩) | rfl
        · rcases dmKeyEntries_flags p.datas m e he with ⟨k, rfl⟩ | ⟨k, v, rfl⟩ <;> simp at hx
        · have : x = id := by
            rcases hx with hx | hx
            · simp at hx
            · simpa using hx.symm
          subst this
          obtain ⟨s, hs, _⟩ := hk x ((mem_sortNat _ _).mp hid)
          simp [hs]
        · simp at hx
    · exact hp.eknown f (hrest f hfr) e he x hx
  · intro f hfm
    rw [hfiles'] at hfm
    rcases List.mem_cons.mp hfm with rfl | hfr
    · refine ⟨?_, ?_⟩
      · intro n k tk hk'
        by_cases hn : n = m
        · subst hn
          unfold keyElem at hk'
          simp only [hm, Option.bind_some, alookup] at hk'
          exact absurd hk' (by simp)
        · rw [(hacc n hn).2.2.1 k] at hk'
          exact (hp.noflags a ha).key n k tk hk'
      · intro n k v tv hv'
        by_cases hn : n = m
        · subst hn
          unfold valElem keyElem at hv'
          simp only [hm, Option.bind_some, alookup] at hv'
          exact absurd hv' (by simp)
        · rw [(hacc n hn).2.2.2.1 k v] at hv'
          exact (hp.noflags a ha).val n k v tv hv'
    · exact hp.noflags f (hrest f hfr)
  · intro f hfm
    rw [hfiles'] at hfm
    rcases List.mem_cons.mp hfm with rfl | hfr
    · refine ⟨?_, ?_⟩
      · intro n x hx
        by_cases hn : n = m
        · subst hn
          unfold fileMeasSeries at hx
          simp [hm] at hx
        · rw [(hacc n hn).2.1] at hx
          exact (hp.sound a ha).meas n x hx
      · intro n k v x hx
        by_cases hn : n = m
        · subst hn
          unfold fileValSeries valElem keyElem at hx
          simp [hm, alookup] at hx
        · rw [(hacc n hn).2.2.2.2 k v] at hx
          exact (hp.sound a ha).val n k v x hx
    · exact hp.sound f (hrest f hfr)
  · -- comp
    intro x t hx ht hpx
    have hne : t.name ≠ m := hno x hx t ht
    obtain ⟨f, hfm, hms, hvs⟩ := hp.comp x t hx ht hpx
    rw [hfiles] at hfm
    rcases List.mem_cons.mp hfm with rfl | hfr
    · refine ⟨_, by rw [hfiles']; exact List.mem_cons_self, ?_, ?_⟩
      · simp only; rw [(hacc t.name hne).2.1]; exact hms
      · intro k v hkv
        simp only; rw [(hacc t.name hne).2.2.2.2 k v]; exact hvs k v hkv
    · exact ⟨f, by rw [hfiles']; exact List.mem_cons_of_mem _ hfr, hms, hvs⟩
  · -- notomb
    intro f hfm x hx
    rw [hfiles'] at hfm
    rcases List.mem_cons.mp hfm with rfl | hfr
    · simp only [htomb x]
      rintro (h | h)
      · exact hp.notomb a ha x hx h
      · exact hdead x h hx
    · exact hp.notomb f (hrest f hfr) x hx
  · -- tknown
    intro f hfm x hx
    rw [hfiles'] at hfm
    rcases List.mem_cons.mp hfm with rfl | hfr
    · simp only [htomb x] at hx
      rcases hx with h | h
      · exact hp.tknown a ha x h
      · obtain ⟨s, hs, _⟩ := hk x h
        simp [hs]
    · exact hp.tknown f (hrest f hfr) x hx
  · intro x
    rw [append_sset]
    exact hp.sset x
  · -- stat
    intro x
    rw [hdatas, status_cons]
    by_cases hxd : x ∈ fsMeasSeries p.datas m
    · have h1 : x ∉ d'.sset := fun h => ((hsset x).mp h).2 hxd
      have h2 : x ∈ d'.tomb := (htomb x).mpr (Or.inr hxd)
      simp only [h1, h2, if_false, if_true]
      constructor
      · intro h; exact absurd h (by simp)
      · intro h; exact absurd h.1 (hdead x hxd)
    · rw [← hp.stat x, hdatas0, status_cons]
      have e1 : x ∈ d'.sset ↔ x ∈ a.data.sset := by rw [hsset x]; simp [hxd]
      have e2 : x ∈ d'.tomb ↔ x ∈ a.data.tomb := by rw [htomb x]; simp [hxd]
      simp only [e1, e2]
  · -- mflive
    intro x t hx ht hpx
    have hne : t.name ≠ m := hno x hx t ht
    rw [hdatas, firstSome_measFlag_head a.data d' _ _ (hacc t.name hne).1, ← hdatas0]
    exact hp.mflive x t hx ht hpx
  · -- mfdead
    intro n hn
    by_cases hnm : n = m
    · subst hnm
      rw [hdatas, firstSome_cons] at hn
      have : measFlag n d' = some true := by unfold measFlag; rw [hm]; rfl
      rw [this] at hn
      exact absurd hn (by simp)
    · rw [hdatas, firstSome_measFlag_head a.data d' _ _ (hacc n hnm).1, ← hdatas0] at hn
      rcases hp.mfdead n hn with h | h | h
      · exact Or.inl h
      · exact Or.inr h
      · exact absurd h hnm

end Influx.Model.TSI
