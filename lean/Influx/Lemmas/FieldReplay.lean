/-
  Lemmas.FieldReplay — what the operations on the in-memory field set do to
  lookups; the replay of the change log as a per-key function; idempotence and
  congruence of the replay.
-/
import Influx.Lemmas.FieldStore
import Influx.Model.FieldLog

namespace Influx.Fields

/-- two field sets record the same types -/
def SEq (a b : Schema) : Prop := ∀ k, a.lookup k = b.lookup k
/-- each (measurement, field) occurs once -/
def ND (s : Schema) : Prop := (s.map (·.1)).Nodup

theorem SEq.refl (a : Schema) : SEq a a := fun _ => rfl
theorem SEq.symm {a b : Schema} (h : SEq a b) : SEq b a := fun k => (h k).symm
theorem SEq.trans {a b c : Schema} (h1 : SEq a b) (h2 : SEq b c) : SEq a c := fun k => (h1 k).trans (h2 k)

/-! ### single operations -/

theorem lookup_dropMeas (s : Schema) (m : String) (k : FKey) :
    (dropMeas s m).lookup k = if k.1 = m then none else s.lookup k := by
  unfold dropMeas
  induction s with
  | nil => simp
  | cons a s ih =>
    obtain ⟨a1, a2⟩ := a
    rw [List.filter_cons]
    by_cases h1 : a1.1 = m
    · have : (a1.1 != m) = false := by simp [h1]
      simp only [this, Bool.false_eq_true, if_false, ih]
      by_cases hk : k.1 = m
      · simp [hk]
      · simp only [hk, if_false]
        have : k ≠ a1 := by intro h; apply hk; rw [h]; exact h1
        rw [lookup_cons_ne _ _ _ _ this]
    · have : (a1.1 != m) = true := by simp [h1]
      simp only [this, if_true]
      by_cases hka : k = a1
      · subst hka; simp [lookup_cons_eq, h1]
      · rw [lookup_cons_ne _ _ _ _ hka, lookup_cons_ne _ _ _ _ hka, ih]

theorem lookup_setField (s : Schema) (k' : FKey) (t : FType) (k : FKey) :
    (setField s k' t).lookup k = if k = k' then some t else s.lookup k := by
  unfold setField
  by_cases h : k = k'
  · subst h; simp [lookup_cons_eq]
  · simp only [h, if_false]
    rw [lookup_cons_ne _ _ _ _ h, lookup_filter_ne s k k' h]

/-- `CreateFieldIfNotExists` succeeded: afterwards the field has the requested
    type and every other field is as before -/
theorem lookup_createField (s : Schema) (k' : FKey) (t : FType) (r : Schema × Bool)
    (h : createField s k' t = some r) (k : FKey) :
    r.1.lookup k = if k = k' then some t else s.lookup k := by
  unfold createField at h
  cases hl : s.lookup k' with
  | none =>
    rw [hl] at h; simp only [Option.some.injEq] at h; subst h
    by_cases hk : k = k'
    · subst hk; simp [lookup_cons_eq]
    · simp only [hk, if_false]; exact lookup_cons_ne _ _ _ _ hk
  | some t' =>
    rw [hl] at h
    by_cases ht : t' = t
    · simp only [ht, if_true, Option.some.injEq] at h; subst h
      by_cases hk : k = k'
      · subst hk; simp [hl, ht]
      · simp [hk]
    · simp [ht] at h

/-- `CreateFieldIfNotExists` fails exactly on an existing field of another type -/
theorem createField_none (s : Schema) (k : FKey) (t : FType) :
    createField s k t = none ↔ ∃ t', s.lookup k = some t' ∧ t' ≠ t := by
  unfold createField
  cases hl : s.lookup k with
  | none => simp
  | some t' =>
    by_cases ht : t' = t
    · simp [ht]
    · simp [ht]

theorem createField_not_created (s : Schema) (k : FKey) (t : FType) (s' : Schema)
    (h : createField s k t = some (s', false)) : s' = s := by
  unfold createField at h
  cases hl : s.lookup k with
  | none => rw [hl] at h; simp at h
  | some t' =>
    rw [hl] at h
    by_cases ht : t' = t
    · simp only [ht, if_true, Option.some.injEq, Prod.mk.injEq] at h; exact h.1.symm
    · simp [ht] at h

theorem createField_created (s : Schema) (k : FKey) (t : FType) (s' : Schema)
    (h : createField s k t = some (s', true)) : s' = (k, t) :: s ∧ s.lookup k = none := by
  unfold createField at h
  cases hl : s.lookup k with
  | none => rw [hl] at h; simp only [Option.some.injEq, Prod.mk.injEq] at h; exact ⟨h.1.symm, rfl⟩
  | some t' =>
    rw [hl] at h
    by_cases ht : t' = t
    · simp [ht] at h
    · simp [ht] at h

theorem lookup_applyChange (s : Schema) (c : Change) (k : FKey) :
    (applyChange s c).lookup k =
      match c with
      | .add m f t => if k = (m, f) then some t else s.lookup k
      | .del m => if k.1 = m then none else s.lookup k := by
  cases c with
  | del m => exact lookup_dropMeas s m k
  | add m f t =>
    simp only [applyChange]
    cases hc : createField s (m, f) t with
    | some r => exact lookup_createField s (m, f) t r hc k
    | none => exact lookup_setField s (m, f) t k

/-! ### pairwise different keys -/

theorem nd_dropMeas (s : Schema) (m : String) (h : ND s) : ND (dropMeas s m) :=
  nodup_keys_filter s _ h

theorem nd_setField (s : Schema) (k : FKey) (t : FType) (h : ND s) : ND (setField s k t) := by
  unfold setField ND
  simp only [List.map_cons, List.nodup_cons]
  refine ⟨?_, nodup_keys_filter s _ h⟩
  intro hm
  obtain ⟨x, hx, hxe⟩ := List.mem_map.1 hm
  have := (List.mem_filter.1 hx).2
  simp [hxe] at this

theorem nd_createField (s : Schema) (k : FKey) (t : FType) (r : Schema × Bool)
    (hc : createField s k t = some r) (h : ND s) : ND r.1 := by
  obtain ⟨s', b⟩ := r
  cases b with
  | false => rw [createField_not_created s k t s' hc]; exact h
  | true =>
    obtain ⟨h1, h2⟩ := createField_created s k t s' hc
    subst h1
    unfold ND
    simp only [List.map_cons, List.nodup_cons]
    refine ⟨?_, h⟩
    intro hm
    obtain ⟨x, hx, hxe⟩ := List.mem_map.1 hm
    have := mem_lookup_of_nodup s h x hx
    rw [hxe, h2] at this; cases this

theorem nd_applyChange (s : Schema) (c : Change) (h : ND s) : ND (applyChange s c) := by
  cases c with
  | del m => exact nd_dropMeas s m h
  | add m f t =>
    simp only [applyChange]
    cases hc : createField s (m, f) t with
    | some r => exact nd_createField s (m, f) t r hc h
    | none => exact nd_setField s (m, f) t h

theorem nd_replay (s : Schema) (cs : List Change) (h : ND s) : ND (replay s cs) := by
  unfold replay
  induction cs generalizing s with
  | nil => exact h
  | cons c cs ih => exact ih _ (nd_applyChange s c h)

/-! ### the replay as a function on each key -/

/-- what a change does to key `k`: `none` = nothing, `some v` = sets it to `v` -/
def affect (c : Change) (k : FKey) : Option (Option FType) :=
  match c with
  | .add m f t => if k = (m, f) then some (some t) else none
  | .del m => if k.1 = m then some none else none

/-- the last change of the list that touches `k` -/
def effect : List Change → FKey → Option (Option FType)
  | [], _ => none
  | c :: cs, k => (effect cs k).or (affect c k)

theorem lookup_applyChange' (s : Schema) (c : Change) (k : FKey) :
    (applyChange s c).lookup k = (affect c k).getD (s.lookup k) := by
  rw [lookup_applyChange]
  cases c with
  | add m f t => simp only [affect]; split <;> rfl
  | del m => simp only [affect]; split <;> rfl

/-- **replay, per key**: the type recorded for `k` after the replay is decided by
    the last change touching `k`; untouched keys keep their type -/
theorem lookup_replay (s : Schema) (cs : List Change) (k : FKey) :
    (replay s cs).lookup k = (effect cs k).getD (s.lookup k) := by
  unfold replay
  induction cs generalizing s with
  | nil => rfl
  | cons c cs ih =>
    simp only [List.foldl_cons, effect]
    rw [ih, lookup_applyChange']
    cases effect cs k <;> rfl

/-- the replay depends on the starting set only through its lookups -/
theorem replay_congr {a b : Schema} (h : SEq a b) (cs : List Change) : SEq (replay a cs) (replay b cs) := by
  intro k; rw [lookup_replay, lookup_replay, h k]

/-- **idempotence**: replaying a log over a set that already contains it changes nothing -/
theorem replay_idem (s : Schema) (cs : List Change) : SEq (replay (replay s cs) cs) (replay s cs) := by
  intro k
  rw [lookup_replay (replay s cs), lookup_replay s]
  cases effect cs k <;> rfl

theorem replay_append (s : Schema) (a b : List Change) : replay s (a ++ b) = replay (replay s a) b := by
  unfold replay; exact List.foldl_append

/-- replaying over the empty set a log whose replay over `s` gives the empty set -/
theorem replay_nil_of_empty (s : Schema) (cs : List Change) (h : SEq (replay s cs) []) : SEq (replay [] cs) [] := by
  intro k
  have := h k
  rw [lookup_replay] at this ⊢
  cases he : effect cs k with
  | none => rfl
  | some v => rw [he] at this; exact this

end Influx.Fields
