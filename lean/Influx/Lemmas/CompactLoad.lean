/-
  Lemmas.CompactLoad — the key order (`bytes.Compare`) and the part of
  `tsmBatchKeyIterator.Next` that reads the next key from the files:
  it picks the smallest remaining key and collects that key's blocks of all
  files, in file order.
-/
import Influx.Lemmas.CompactStep

namespace Influx.Model.Compact

variable {V : Type}

/-! ### `keyLt` is a strict total order -/

theorem keyLt_irrefl : ∀ (a : Key), keyLt a a = false
  | [] => rfl
  | a :: as => by simp [keyLt, keyLt_irrefl as]

theorem keyLt_trans : ∀ {a b c : Key}, keyLt a b = true → keyLt b c = true → keyLt a c = true
  | _, [], _, h, _ => by cases ‹Key› <;> simp [keyLt] at h
  | _, _ :: _, [], _, h => by simp [keyLt] at h
  | [], _ :: _, _ :: _, _, _ => by simp [keyLt]
  | a :: as, b :: bs, c :: cs, h1, h2 => by
    simp only [keyLt, Bool.or_eq_true, decide_eq_true_eq, Bool.and_eq_true, beq_iff_eq] at h1 h2 ⊢
    rcases h1 with h1 | ⟨rfl, h1⟩
    · rcases h2 with h2 | ⟨rfl, h2⟩
      · left; omega
      · left; exact h1
    · rcases h2 with h2 | ⟨rfl, h2⟩
      · left; exact h2
      · right; exact ⟨rfl, keyLt_trans h1 h2⟩

theorem keyLt_asymm {a b : Key} (h : keyLt a b = true) : keyLt b a = false := by
  cases hb : keyLt b a with
  | false => rfl
  | true => have := keyLt_trans h hb; rw [keyLt_irrefl] at this; cases this

theorem keyLt_total : ∀ {a b : Key}, keyLt a b = false → keyLt b a = false → a = b
  | [], [], _, _ => rfl
  | [], _ :: _, h, _ => by simp [keyLt] at h
  | _ :: _, [], _, h => by simp [keyLt] at h
  | a :: as, b :: bs, h1, h2 => by
    simp only [keyLt, Bool.or_eq_false_iff, decide_eq_false_iff_not, Bool.and_eq_false_iff, beq_eq_false_iff_ne, ne_eq] at h1 h2
    have hab : a = b := by omega
    subst hab
    have h1' : keyLt as bs = false := by rcases h1.2 with h | h; exact absurd rfl h; exact h
    have h2' : keyLt bs as = false := by rcases h2.2 with h | h; exact absurd rfl h; exact h
    rw [keyLt_total h1' h2']

/-! ### the remaining runs of the files -/

/-- what file `i` still has to deliver: its buffered key (if any) followed by its iterator -/
def runsOf (it : FileRuns V) (b : Key × List (Block V)) : FileRuns V :=
  if b.2.length ≠ 0 then b :: it else it

def allRuns : List (FileRuns V) → List (Key × List (Block V)) → List (FileRuns V)
  | it :: its, b :: bufs => runsOf it b :: allRuns its bufs
  | _, _ => []

/-- keys strictly ascending, no empty key, no empty run -/
def RunsWF (f : FileRuns V) : Prop :=
  f.Pairwise (fun a b => keyLt a.1 b.1 = true) ∧ ∀ r ∈ f, r.1 ≠ [] ∧ r.2 ≠ []

/-- the blocks of key `k`, file after file -/
def blocksFor (R : List (FileRuns V)) (k : Key) : List (Block V) :=
  R.flatMap fun f => (f.filter (fun r => decide (r.1 = k))).flatMap (·.2)

theorem blocksFor_cons (f : FileRuns V) (R : List (FileRuns V)) (k : Key) :
    blocksFor (f :: R) k = (f.filter (fun r => decide (r.1 = k))).flatMap (·.2) ++ blocksFor R k := by
  simp [blocksFor]

/-- every buffer that is empty belongs to an exhausted iterator -/
def Refilled : List (FileRuns V) → List (Key × List (Block V)) → Prop
  | it :: its, b :: bufs => (b.2.length = 0 → it = []) ∧ Refilled its bufs
  | _, _ => True

theorem refill_spec : ∀ (its : List (FileRuns V)) (buf : List (Key × List (Block V))),
    its.length = buf.length → (∀ f ∈ allRuns its buf, RunsWF f) →
    (refill its buf).1.length = (refill its buf).2.length ∧
    allRuns (refill its buf).1 (refill its buf).2 = allRuns its buf ∧
    Refilled (refill its buf).1 (refill its buf).2
  | [], [], _, _ => by simp [refill, allRuns, Refilled]
  | [], _ :: _, h, _ => by simp at h
  | _ :: _, [], h, _ => by simp at h
  | it :: its, b :: bufs, h, hwf => by
    have hlen : its.length = bufs.length := by simpa using h
    have hwf' : ∀ f ∈ allRuns its bufs, RunsWF f := fun f hf => hwf f (by simp [allRuns, hf])
    obtain ⟨r1, r2, r3⟩ := refill_spec its bufs hlen hwf'
    unfold refill
    cases hr : refill its bufs with
    | mk its' bufs' =>
      rw [hr] at r1 r2 r3
      simp only at r1 r2 r3 ⊢
      by_cases hb : b.2.length ≠ 0
      · rw [if_pos hb]
        refine ⟨by simp [r1], by simp [allRuns, r2], ?_⟩
        exact ⟨fun h0 => absurd h0 hb, r3⟩
      · rw [if_neg hb]
        cases it with
        | nil =>
          refine ⟨by simp [r1], by simp [allRuns, r2], ?_⟩
          exact ⟨fun _ => rfl, r3⟩
        | cons run rest =>
          have hrun : run.2.length ≠ 0 := by
            have := hwf (runsOf (run :: rest) b) (by simp [allRuns])
            simp only [runsOf, hb, if_false] at this
            have := (this.2 run (by simp)).2
            intro h0; exact this (List.length_eq_zero_iff.mp h0)
          refine ⟨by simp [r1], ?_, ?_⟩
          · simp [allRuns, r2, runsOf, hb, hrun]
          · exact ⟨fun h0 => absurd h0 hrun, r3⟩

/-! ### the smallest buffered key -/

theorem minKey_spec : ∀ (buf : List (Key × List (Block V))) (acc : Key),
    (∀ b ∈ buf, b.2.length ≠ 0 → b.1 ≠ []) →
    (minKey buf acc = acc ∨ ∃ b ∈ buf, b.2.length ≠ 0 ∧ b.1 = minKey buf acc) ∧
    (acc ≠ [] → keyLt acc (minKey buf acc) = false) ∧
    (∀ b ∈ buf, b.2.length ≠ 0 → keyLt b.1 (minKey buf acc) = false) ∧
    (acc ≠ [] → minKey buf acc ≠ []) ∧
    ((∃ b ∈ buf, b.2.length ≠ 0) → minKey buf acc ≠ [])
  | [], acc, _ => by
    have e : minKey ([] : List (Key × List (Block V))) acc = acc := rfl
    rw [e]
    exact ⟨Or.inl rfl, fun _ => keyLt_irrefl acc, by simp, fun h => h, by simp⟩
  | b :: buf, acc, hk => by
    have hk' : ∀ x ∈ buf, x.2.length ≠ 0 → x.1 ≠ [] := fun x hx => hk x (List.mem_cons_of_mem _ hx)
    unfold minKey
    by_cases hb : b.2.length = 0
    · rw [if_pos hb]
      obtain ⟨r1, r2, r3, r4, r5⟩ := minKey_spec buf acc hk'
      refine ⟨?_, r2, ?_, r4, ?_⟩
      · rcases r1 with h | ⟨x, hx, hx'⟩
        · exact Or.inl h
        · exact Or.inr ⟨x, List.mem_cons_of_mem _ hx, hx'⟩
      · intro x hx hx'
        rcases List.mem_cons.mp hx with rfl | hx2
        · exact absurd hb hx'
        · exact r3 x hx2 hx'
      · rintro ⟨x, hx, hx'⟩
        rcases List.mem_cons.mp hx with rfl | hx2
        · exact absurd hb hx'
        · exact r5 ⟨x, hx2, hx'⟩
    · rw [if_neg hb]
      have hbk : b.1 ≠ [] := hk b (by simp) hb
      by_cases hc : (acc.length = 0 || keyLt b.1 acc) = true
      · rw [if_pos hc]
        obtain ⟨r1, r2, r3, r4, r5⟩ := minKey_spec buf b.1 hk'
        have hle := r2 hbk
        refine ⟨?_, ?_, ?_, fun _ => r4 hbk, fun _ => r4 hbk⟩
        · rcases r1 with h | ⟨x, hx, hx'⟩
          · exact Or.inr ⟨b, by simp, hb, h.symm⟩
          · exact Or.inr ⟨x, List.mem_cons_of_mem _ hx, hx'⟩
        · intro hacc
          have hlt : keyLt b.1 acc = true := by
            simp only [Bool.or_eq_true, decide_eq_true_eq] at hc
            rcases hc with h | h
            · exact absurd (List.length_eq_zero_iff.mp h) hacc
            · exact h
          cases hx : keyLt acc (minKey buf b.1) with
          | false => rfl
          | true => have := keyLt_trans hlt hx; rw [hle] at this; cases this
        · intro x hx hx'
          rcases List.mem_cons.mp hx with rfl | hx2
          · exact hle
          · exact r3 x hx2 hx'
      · rw [if_neg hc]
        simp only [Bool.or_eq_true, decide_eq_true_eq, not_or, Bool.not_eq_true] at hc
        have hacc : acc ≠ [] := fun h => hc.1 (by rw [h]; rfl)
        obtain ⟨r1, r2, r3, r4, r5⟩ := minKey_spec buf acc hk'
        refine ⟨?_, r2, ?_, r4, fun _ => r4 hacc⟩
        · rcases r1 with h | ⟨x, hx, hx'⟩
          · exact Or.inl h
          · exact Or.inr ⟨x, List.mem_cons_of_mem _ hx, hx'⟩
        · intro x hx hx'
          rcases List.mem_cons.mp hx with rfl | hx2
          · -- ¬ x.1 < acc and ¬ acc < m, so ¬ x.1 < m
            cases hxm : keyLt x.1 (minKey buf acc) with
            | false => rfl
            | true =>
              -- m ≤ acc: either m = acc or …; use totality
              have h1 := r2 hacc
              cases hma : keyLt (minKey buf acc) acc with
              | true => have := keyLt_trans hxm hma; rw [hc.2] at this; cases this
              | false =>
                have := keyLt_total h1 hma
                rw [← this] at hxm; rw [hc.2] at hxm; cases hxm
          · exact r3 x hx2 hx'

/-! ### taking the blocks of the smallest key -/

theorem buf_keys_ne : ∀ (its : List (FileRuns V)) (buf : List (Key × List (Block V))),
    its.length = buf.length → (∀ f ∈ allRuns its buf, RunsWF f) →
    ∀ b ∈ buf, b.2.length ≠ 0 → b.1 ≠ []
  | [], [], _, _ => by simp
  | [], _ :: _, h, _ => by simp at h
  | _ :: _, [], h, _ => by simp at h
  | it :: its, b :: bs, h, hwf => by
    intro x hx hx'
    rcases List.mem_cons.mp hx with rfl | hx2
    · have := hwf (runsOf it x) (by simp [allRuns])
      have hrun : runsOf it x = x :: it := by simp [runsOf, hx']
      rw [hrun] at this
      exact (this.2 x (by simp)).1
    · exact buf_keys_ne its bs (by simpa using h) (fun f hf => hwf f (by simp [allRuns, hf])) x hx2 hx'

theorem load_spec (its : List (FileRuns V)) (buf : List (Key × List (Block V)))
    (hlen : its.length = buf.length) (hwf : ∀ f ∈ allRuns its buf, RunsWF f) :
    ∀ its' buf' key bl, load its buf = (its', buf', key, bl) →
      its'.length = buf'.length ∧ (∀ f ∈ allRuns its' buf', RunsWF f) ∧
      bl = blocksFor (allRuns its buf) key ∧
      (∀ k, k ≠ key → blocksFor (allRuns its' buf') k = blocksFor (allRuns its buf) k) ∧
      (bl = [] → ∀ k, blocksFor (allRuns its buf) k = []) ∧
      (bl ≠ [] → ∃ f ∈ allRuns its buf, ∃ r ∈ f, r.1 = key) ∧
      (∀ f ∈ allRuns its' buf', ∀ r ∈ f, keyLt key r.1 = true) := by
  intro its' buf' key bl h
  unfold load at h
  obtain ⟨q1, q2, q3⟩ := refill_spec its buf hlen hwf
  cases hr : refill its buf with
  | mk its1 buf1 =>
  rw [hr] at h q1 q2 q3
  simp only at h q1 q2 q3
  cases ht : takeKey (minKey buf1 []) buf1 with
  | mk bl0 buf2 =>
  rw [ht] at h
  simp only [Prod.mk.injEq] at h
  obtain ⟨rfl, rfl, rfl, rfl⟩ := h
  rw [← q2] at hwf ⊢
  have hbk := buf_keys_ne its1 buf1 q1 hwf
  obtain ⟨m1, _, m3, _, m5⟩ := minKey_spec buf1 [] hbk
  generalize hkey : minKey buf1 [] = key at ht m1 m3 m5
  -- the main induction over the files
  have main : ∀ (its1 : List (FileRuns V)) (buf1 buf2 : List (Key × List (Block V))) (bl0 : List (Block V)),
      its1.length = buf1.length → (∀ f ∈ allRuns its1 buf1, RunsWF f) → Refilled its1 buf1 →
      (∀ b ∈ buf1, b.2.length ≠ 0 → keyLt b.1 key = false) →
      takeKey key buf1 = (bl0, buf2) →
      its1.length = buf2.length ∧ (∀ f ∈ allRuns its1 buf2, RunsWF f) ∧
      bl0 = blocksFor (allRuns its1 buf1) key ∧
      (∀ k, k ≠ key → blocksFor (allRuns its1 buf2) k = blocksFor (allRuns its1 buf1) k) ∧
      ((∀ b ∈ buf1, b.2.length = 0) → ∀ k, blocksFor (allRuns its1 buf1) k = []) ∧
      (∀ f ∈ allRuns its1 buf2, ∀ r ∈ f, keyLt key r.1 = true) := by
    intro its1
    induction its1 with
    | nil =>
      intro buf1 buf2 bl0 hl _ _ _ ht
      cases buf1 with
      | nil =>
        simp [takeKey] at ht
        obtain ⟨rfl, rfl⟩ := ht
        simp [allRuns, blocksFor]
      | cons b bs => simp at hl
    | cons it its ih =>
      intro buf1 buf2 bl0 hl hwf hrf hmin ht
      cases buf1 with
      | nil => simp at hl
      | cons b bs =>
        unfold takeKey at ht
        cases htk : takeKey key bs with
        | mk blr bufr =>
        rw [htk] at ht
        simp only at ht
        obtain ⟨rf1, rf2⟩ := hrf
        have hwfh : RunsWF (runsOf it b) := hwf _ (by simp [allRuns])
        obtain ⟨i1, i2, i3, i4, i5, i6⟩ := ih bs bufr blr (by simpa using hl)
          (fun f hf => hwf f (by simp [allRuns, hf])) rf2
          (fun x hx => hmin x (List.mem_cons_of_mem _ hx)) htk
        by_cases hb : b.2.length ≠ 0
        · -- the buffer holds a run: it is the head of the file's remaining runs
          have hrun : runsOf it b = b :: it := by simp [runsOf, hb]
          rw [hrun] at hwfh
          have hasc := List.pairwise_cons.mp hwfh.1
          have hbmin := hmin b (by simp) hb
          by_cases hkeq : b.1 = key
          · -- taken
            rw [if_pos ⟨hb, hkeq⟩] at ht
            simp only [Prod.mk.injEq] at ht
            obtain ⟨rfl, rfl⟩ := ht
            have hrun2 : runsOf it (b.1, ([] : List (Block V))) = it := by simp [runsOf]
            have hnot : ∀ r ∈ it, ¬ r.1 = key := by
              intro r hr heq
              have := hasc.1 r hr
              rw [hkeq, heq, keyLt_irrefl] at this; cases this
            have hfil : it.filter (fun r => decide (r.1 = key)) = [] :=
              List.filter_eq_nil_iff.mpr (fun r hr => by simpa using hnot r hr)
            refine ⟨by simp [i1], ?_, ?_, ?_, ?_, ?_⟩
            · intro f hf
              simp only [allRuns, hrun2, List.mem_cons] at hf
              rcases hf with rfl | hf
              · exact ⟨hasc.2, fun r hr => hwfh.2 r (List.mem_cons_of_mem _ hr)⟩
              · exact i2 f hf
            · simp only [allRuns, hrun, blocksFor_cons, List.filter_cons, hkeq, decide_true, if_true,
                List.flatMap_cons, hfil, List.flatMap_nil, List.append_nil, i3]
            · intro k hk
              simp only [allRuns, hrun, hrun2, blocksFor_cons, i4 k hk, List.filter_cons]
              have : ¬ b.1 = k := fun h => hk (by rw [← h, hkeq])
              simp [this]
            · intro hall
              exact absurd (hall b (by simp)) hb
            · intro f hf r hr
              simp only [allRuns, hrun2, List.mem_cons] at hf
              rcases hf with rfl | hf
              · have := hasc.1 r hr; rw [hkeq] at this; exact this
              · exact i6 f hf r hr
          · -- not taken: every key of this file is greater
            rw [if_neg (fun h => hkeq h.2)] at ht
            simp only [Prod.mk.injEq] at ht
            obtain ⟨rfl, rfl⟩ := ht
            have hgt : keyLt key b.1 = true := by
              cases hx : keyLt key b.1 with
              | true => rfl
              | false => exact absurd (keyLt_total hbmin hx) hkeq
            have hnot : ∀ r ∈ b :: it, ¬ r.1 = key := by
              intro r hr heq
              rcases List.mem_cons.mp hr with rfl | hr2
              · exact hkeq heq
              · have := keyLt_trans hgt (hasc.1 r hr2)
                rw [heq, keyLt_irrefl] at this; cases this
            have hfil : (b :: it).filter (fun r => decide (r.1 = key)) = [] :=
              List.filter_eq_nil_iff.mpr (fun r hr => by simpa using hnot r hr)
            refine ⟨by simp [i1], ?_, ?_, ?_, ?_, ?_⟩
            · intro f hf
              simp only [allRuns, hrun, List.mem_cons] at hf
              rcases hf with rfl | hf
              · exact hwfh
              · exact i2 f hf
            · simp only [allRuns, hrun, blocksFor_cons, hfil, List.flatMap_nil, List.nil_append, i3]
            · intro k hk
              simp only [allRuns, hrun, blocksFor_cons, i4 k hk]
            · intro hall
              exact absurd (hall b (by simp)) hb
            · intro f hf r hr
              simp only [allRuns, hrun, List.mem_cons] at hf
              rcases hf with rfl | hf
              · rcases List.mem_cons.mp hr with rfl | hr2
                · exact hgt
                · exact keyLt_trans hgt (hasc.1 r hr2)
              · exact i6 f hf r hr
        · -- empty buffer: the file is exhausted
          have hb0 : b.2.length = 0 := by omega
          have hit : it = [] := rf1 hb0
          subst hit
          rw [if_neg (fun h => hb h.1)] at ht
          simp only [Prod.mk.injEq] at ht
          obtain ⟨rfl, rfl⟩ := ht
          have hrun : runsOf ([] : FileRuns V) b = [] := by simp [runsOf, hb0]
          refine ⟨by simp [i1], ?_, ?_, ?_, ?_, ?_⟩
          · intro f hf
            simp only [allRuns, hrun, List.mem_cons] at hf
            rcases hf with rfl | hf
            · exact ⟨List.Pairwise.nil, by simp⟩
            · exact i2 f hf
          · simp only [allRuns, hrun, blocksFor_cons, List.filter_nil, List.flatMap_nil, List.nil_append, i3]
          · intro k hk
            simp only [allRuns, hrun, blocksFor_cons, i4 k hk]
          · intro hall k
            simp only [allRuns, hrun, blocksFor_cons, List.filter_nil, List.flatMap_nil, List.nil_append]
            exact i5 (fun x hx => hall x (List.mem_cons_of_mem _ hx)) k
          · intro f hf r hr
            simp only [allRuns, hrun, List.mem_cons] at hf
            rcases hf with rfl | hf
            · simp at hr
            · exact i6 f hf r hr
  obtain ⟨t1, t2, t3, t4, t5, t6⟩ := main its1 buf1 buf2 bl0 q1 hwf q3 m3 ht
  refine ⟨t1, t2, t3, t4, ?_, ?_, t6⟩
  · intro hbl
    by_cases hall : ∀ b ∈ buf1, b.2.length = 0
    · exact t5 hall
    · -- some buffer is non-empty: the smallest key has blocks
      exfalso
      have hex : ∃ b ∈ buf1, b.2.length ≠ 0 := by
        apply Classical.byContradiction
        intro hne
        apply hall
        intro b hb
        apply Classical.byContradiction
        intro hb'
        exact hne ⟨b, hb, hb'⟩
      rcases m1 with hm | ⟨b, hb, hb1, hb2⟩
      · exact m5 hex hm
      · -- b's blocks are part of bl0
        have : ∀ (its1 : List (FileRuns V)) (buf1 : List (Key × List (Block V))),
            its1.length = buf1.length → b ∈ buf1 → ∀ x ∈ b.2, x ∈ blocksFor (allRuns its1 buf1) key := by
          intro its1
          induction its1 with
          | nil => intro buf1 hl hb; cases buf1 <;> simp at hl hb
          | cons it its ih =>
            intro buf1 hl hbm x hx
            cases buf1 with
            | nil => simp at hl
            | cons c cs =>
              rw [allRuns, blocksFor_cons]
              rcases List.mem_cons.mp hbm with rfl | hbm2
              · apply List.mem_append_left
                simp only [runsOf, hb1, ne_eq, not_false_eq_true, if_true, List.filter_cons, hb2, decide_true,
                  List.flatMap_cons]
                exact List.mem_append_left _ hx
              · exact List.mem_append_right _ (ih cs (by simpa using hl) hbm2 x hx)
        cases hb2' : b.2 with
        | nil => rw [hb2'] at hb1; simp at hb1
        | cons x xs =>
          have := this its1 buf1 q1 hb x (by rw [hb2']; simp)
          rw [← t3, hbl] at this
          simp at this
  · intro hbl
    -- the key comes from a buffer
    rcases m1 with hm | ⟨b, hb, hb1, hb2⟩
    · -- key = [] : then nothing was taken
      exfalso
      apply hbl
      rw [t3]
      have : ∀ (R : List (FileRuns V)), (∀ f ∈ R, RunsWF f) → blocksFor R key = [] := by
        intro R hR
        simp only [blocksFor, List.flatMap_eq_nil_iff]
        intro f hf
        have : f.filter (fun r => decide (r.1 = key)) = [] := by
          apply List.filter_eq_nil_iff.mpr
          intro r hr
          have := ((hR f hf).2 r hr).1
          simp only [decide_eq_true_eq]
          intro heq; rw [heq, hm] at this; exact this rfl
        rw [this]; simp
      exact this _ hwf
    · have : ∀ (its1 : List (FileRuns V)) (buf1 : List (Key × List (Block V))),
          its1.length = buf1.length → b ∈ buf1 → ∃ f ∈ allRuns its1 buf1, b ∈ f := by
        intro its1
        induction its1 with
        | nil => intro buf1 hl hb; cases buf1 <;> simp at hl hb
        | cons it its ih =>
          intro buf1 hl hbm
          cases buf1 with
          | nil => simp at hl
          | cons c cs =>
            rcases List.mem_cons.mp hbm with rfl | hbm2
            · exact ⟨runsOf it b, by simp [allRuns], by simp [runsOf, hb1]⟩
            · obtain ⟨f, hf, hf'⟩ := ih cs (by simpa using hl) hbm2
              exact ⟨f, by simp [allRuns, hf], hf'⟩
      obtain ⟨f, hf, hf'⟩ := this its1 buf1 q1 hb
      exact ⟨f, hf, b, hf', hb2⟩

end Influx.Model.Compact
