/-
  Lemmas.MetaC18 — the clauses of Spec.C18 on the model's steps, and the induction over histories.
-/
import Influx.Lemmas.MetaTrack

namespace Influx.Meta
open Influx.Spec.C18
open Influx.Generated.Meta

/-- clause 1 for `CreateShardGroup`: the group returned for a timestamp contains it -/
theorem csg_holds (acc : List Accepted) (s : State) (db rp : String) (t : Int) :
    holdsOp acc (.csg db rp t, (step s (.csg db rp t)).2) = true := by
  simp only [step]
  cases hc : clientCreateShardGroup s.data db rp t with
  | error e => rfl
  | ok res =>
    obtain ⟨d, g⟩ := res
    cases g with
    | none => rfl
    | some g =>
      have := clientCreateShardGroup_some hc
      simp [holdsOp, within, this]

/-- clause 1 for `MapShards`: every mapped point lies inside the group it is mapped to -/
theorem ms_routes (acc : List Accepted) (s : State) (db rp : String) (c : Option Int) (ts : List Int) :
    holdsOp acc (.ms db rp c ts, (step s (.ms db rp c ts)).2) = true := by
  simp only [step]
  generalize hd0 : setDuration s.data db rp _ = d0
  cases hm : mapShards d0 db rp modelNow ts with
  | mk d res =>
    cases res with
    | error e => rfl
    | ok m =>
      obtain ⟨r, l, _, _, hps, _⟩ := mapShards_ok hm
      have := mapPlace_within _ ts _ _ hps
      simp only [holdsOp, Bool.and_eq_true, beq_iff_eq, List.all_eq_true]
      refine ⟨this.1, ?_⟩
      rintro ⟨t, p⟩ hp
      cases p with
      | dropped => rfl
      | mapped sh g =>
        have := this.2 t _ hp sh g rfl
        simp [within, this]

theorem dom18_of_spec {op : Op} (h : opInDomain op = true) : opDom op := by
  cases op <;> simp only [opInDomain, opDom, Spec.C18.inRange, Bool.and_eq_true, decide_eq_true_eq, Bool.or_eq_true,
    Bool.not_eq_true', List.all_eq_true] at h ⊢
  · intro hr; rcases h with h | h
    · rw [hr] at h; cases h
    · exact h
  · exact h
  · exact h
  · intro t ht; exact h t ht
  · exact h
  · exact h
  · cases h

theorem not_and3 {a b c : Prop} [Decidable a] [Decidable b] (h : ¬(a ∧ b ∧ c)) : (¬a ∨ ¬b) ∨ ¬c := by
  by_cases ha : a
  · by_cases hb : b
    · exact Or.inr (fun hc => h ⟨ha, hb, hc⟩)
    · exact Or.inl (Or.inr hb)
  · exact Or.inl (Or.inl ha)

theorem keeps_of_not_removes {op : Op} (h : removes op = false) : keeps op = true := by
  cases op <;> simp_all [removes, keeps]

/-- one step: the statement holds of the model's answer, the tracked points stay tracked -/
theorem step_ok (s : State) (op : Op) (acc : List Accepted) (hd : opInDomain op = true) (hwf : WF s.data)
    (htr : ∀ x ∈ acc, Tracked s.data x) :
    holdsOp acc (op, (step s op).2) = true ∧
    ∀ x ∈ (if removes op then [] else acc ++ newlyAccepted (op, (step s op).2)), Tracked (step s op).1.data x := by
  have hdom := dom18_of_spec hd
  have hkeepTr : removes op = false → ∀ x ∈ acc, Tracked (step s op).1.data x := fun hr x hx =>
    (htr x hx).mono (step_mono s op hwf hdom (keeps_of_not_removes hr))
  cases op with
  | rp db rp sgd raw => exact ⟨by simp [holdsOp], by simpa [removes, newlyAccepted] using hkeepTr rfl⟩
  | sgd db rp d => exact ⟨by simp [holdsOp], by simpa [removes, newlyAccepted] using hkeepTr rfl⟩
  | store f ids => exact ⟨by simp [holdsOp], by simpa [removes, newlyAccepted] using hkeepTr rfl⟩
  | exp db rp D t => exact ⟨by simp [holdsOp], by simpa [removes, newlyAccepted] using hkeepTr rfl⟩
  | pre a b => exact ⟨by simp [holdsOp], by simpa [removes, newlyAccepted] using hkeepTr rfl⟩
  | trunc t => exact hdom.elim
  | del db rp id => exact ⟨by simp [holdsOp], by simp [removes]⟩
  | setdel db rp id a => exact ⟨by simp [holdsOp], by simp [removes]⟩
  | dropshard id => exact ⟨by simp [holdsOp], by simp [removes]⟩
  | dc cs =>
    refine ⟨?_, by simp [removes]⟩
    simp only [step, holdsOp]
    exact fullDisjoint_of_wf (foldl_setDuration_wf cs _ (clearDurations_wf hwf))
  | restart =>
    refine ⟨?_, by simpa [removes, newlyAccepted] using hkeepTr rfl⟩
    simp only [step, holdsOp, reload_id hwf, fullDisjoint_of_wf hwf, fullSame_refl, Bool.and_self]
  | dump db rp =>
    refine ⟨?_, by simpa [removes, newlyAccepted] using hkeepTr rfl⟩
    simp only [step]
    cases hr : getRP s.data db rp with
    | error e => rfl
    | ok r => exact disjointLive_of_pairwise (getRP_wf hwf hr).disj
  | csg db rp t =>
    refine ⟨csg_holds acc s db rp t, ?_⟩
    have hk := hkeepTr rfl
    simp only [removes, Bool.false_eq_true, ↓reduceIte, List.mem_append]
    simp only [step] at hk ⊢
    cases hc : clientCreateShardGroup s.data db rp t with
    | error e => simpa [hc, newlyAccepted] using hk
    | ok res =>
      obtain ⟨d, og⟩ := res
      obtain ⟨_, _, g, rfl, ⟨r, hr, hg⟩, hlive, hct⟩ := clientCreateShardGroup_spec hwf hdom hc
      simp only [hc] at hk
      rintro x (hx | hx)
      · exact hk x hx
      · simp only [newlyAccepted, List.mem_singleton] at hx
        subst hx
        exact ⟨r, g, hr, hg, rfl, hlive, hct⟩
  | ms db rp c ts =>
    refine ⟨ms_routes acc s db rp c ts, ?_⟩
    have hk := hkeepTr rfl
    simp only [removes, Bool.false_eq_true, ↓reduceIte, List.mem_append]
    simp only [step] at hk ⊢
    generalize hd0 : setDuration s.data db rp _ = d0 at hk ⊢
    have hw0 : WF d0 := by subst hd0; exact setDuration_wf hwf _ _ _
    cases hm : mapShards d0 db rp modelNow ts with
    | mk d res =>
      simp only [hm] at hk
      cases res with
      | error e => simpa [newlyAccepted] using hk
      | ok m =>
        rintro x (hx | hx)
        · exact hk x hx
        · simp only [newlyAccepted, List.mem_filterMap] at hx
          obtain ⟨⟨t, p⟩, hp, hx⟩ := hx
          cases p with
          | dropped => simp at hx
          | mapped sh g =>
            simp only [Option.some.injEq] at hx
            subst hx
            exact mapShards_tracked hw0 hdom hm t _ hp sh g rfl
  | find db rp t =>
    refine ⟨?_, by simpa [removes, newlyAccepted] using hkeepTr rfl⟩
    simp only [step]
    cases hr : getRP s.data db rp with
    | error e =>
      simp only [holdsOp, List.all_eq_true, Bool.not_eq_true', Bool.and_eq_false_iff, beq_eq_false_iff_ne]
      intro x hx
      apply not_and3
      rintro ⟨h1, h2, _⟩
      obtain ⟨r, _, hr', _⟩ := htr x hx
      rw [h1, h2, hr] at hr'
      cases hr'
    | ok r =>
      simp only [holdsOp, List.all_eq_true, Bool.or_eq_true, Bool.not_eq_true', Bool.and_eq_false_iff, beq_eq_false_iff_ne]
      intro x hx
      by_cases hxx : x.db = db ∧ x.rp = rp ∧ x.t = t
      · right
        obtain ⟨r', g, hr', hf, hid⟩ := find_tracked hwf (htr x hx)
        rw [hxx.1, hxx.2.1, hr] at hr'
        cases hr'
        rw [hxx.2.2] at hf
        simp [hf, hid]
      · left
        exact not_and3 hxx
  | range db rp a b =>
    refine ⟨?_, by simpa [removes, newlyAccepted] using hkeepTr rfl⟩
    simp only [step, shardGroupsByTimeRange]
    cases hr : getRP s.data db rp with
    | error e =>
      simp only [holdsOp, List.all_eq_true, Bool.not_eq_true', Bool.and_eq_false_iff, beq_eq_false_iff_ne, decide_eq_false_iff_not]
      intro x hx
      have : ¬(x.db = db ∧ x.rp = rp ∧ (a ≤ x.t ∧ x.t ≤ b)) := by
        rintro ⟨h1, h2, _⟩
        obtain ⟨r, _, hr', _⟩ := htr x hx
        rw [h1, h2, hr] at hr'
        cases hr'
      rcases not_and3 this with h | h
      · exact Or.inl (Or.inl h)
      · by_cases h3 : a ≤ x.t
        · exact Or.inr (fun h4 => h ⟨h3, h4⟩)
        · exact Or.inl (Or.inr h3)
    | ok r =>
      simp only [holdsOp, List.all_eq_true, Bool.or_eq_true, Bool.not_eq_true', Bool.and_eq_false_iff, beq_eq_false_iff_ne,
        decide_eq_false_iff_not]
      intro x hx
      by_cases hxx : x.db = db ∧ x.rp = rp ∧ a ≤ x.t ∧ x.t ≤ b
      · right
        obtain ⟨r', g, hr', hg, hid, hlive, hc1, hc2⟩ := htr x hx
        rw [hxx.1, hxx.2.1, hr] at hr'
        cases hr'
        simp only [List.contains_eq_mem, List.mem_map, List.mem_filter, decide_eq_true_eq]
        refine ⟨g, ⟨hg, ?_⟩, hid⟩
        simp only [Bool.not_eq_true', Bool.or_eq_false_iff, (deleted_false_iff g).mpr hlive, Bool.not_eq_false', true_and]
        exact (overlaps_iff g a b).mpr ⟨by omega, by omega⟩
      · left
        have : ¬(x.db = db ∧ x.rp = rp ∧ (a ≤ x.t ∧ x.t ≤ b)) := fun h => hxx ⟨h.1, h.2.1, h.2.2.1, h.2.2.2⟩
        rcases not_and3 this with h | h
        · exact Or.inl (Or.inl h)
        · by_cases h3 : a ≤ x.t
          · exact Or.inr (fun h4 => h ⟨h3, h4⟩)
          · exact Or.inl (Or.inr h3)

theorem judge_run (ops : List Op) (hdom : ∀ op ∈ ops, opInDomain op = true) (s : State) (acc : List Accepted)
    (hwf : WF s.data) (htr : ∀ x ∈ acc, Tracked s.data x) : judge acc (run s ops) = true := by
  induction ops generalizing s acc with
  | nil => rfl
  | cons op ops ih =>
    have hd := hdom op (by simp)
    have hs := step_ok s op acc hd hwf htr
    simp only [run, judge, Bool.and_eq_true]
    exact ⟨hs.1, ih (fun o ho => hdom o (by simp [ho])) _ _ (step_wf s op hwf (dom18_of_spec hd)) hs.2⟩


end Influx.Meta
