/-
  Lemmas.TagExprState — the executable index-set views (`Index.ofSeries`,
  `Ctx.ofIndexes`) are sound for the series the state holds; the state
  invariant; the query characterisation on states.
-/
import Influx.Lemmas.TagExprEval

namespace Influx.Model.TagExpr
open Influx.Spec.C15

theorem ids_mkItr (l : List Nat) : (mkItr l).ids = l := by
  unfold mkItr
  cases l <;> simp [Itr.ids]

/-- the merged view over all shards selected by a predicate on series. -/
def view (shards : List (List Series)) (p : Series → Bool) : Itr :=
  mergeNonNil (nonNil (shards.map (fun sh => mkItr (idSet ((sh.filter p).map (·.id))))))

theorem asc_view (shards : List (List Series)) (p : Series → Bool) : Asc (view shards p).ids := by
  unfold view
  apply asc_mergeNonNil_nonNil
  intro it hit
  obtain ⟨sh, _, rfl⟩ := List.mem_map.mp hit
  rw [ids_mkItr]; exact asc_idSet _

theorem mem_view (shards : List (List Series)) (p : Series → Bool) (i : Nat) :
    i ∈ (view shards p).ids ↔ ∃ s ∈ shards.flatten, p s = true ∧ s.id = i := by
  unfold view
  rw [mem_mergeNonNil_nonNil]
  constructor
  · rintro ⟨it, hit, hi⟩
    obtain ⟨sh, hsh, rfl⟩ := List.mem_map.mp hit
    rw [ids_mkItr, mem_idSet] at hi
    obtain ⟨s, hs, rfl⟩ := List.mem_map.mp hi
    obtain ⟨hs1, hs2⟩ := List.mem_filter.mp hs
    exact ⟨s, List.mem_flatten.mpr ⟨sh, hsh, hs1⟩, hs2, rfl⟩
  · rintro ⟨s, hs, hp, rfl⟩
    obtain ⟨sh, hsh, hs1⟩ := List.mem_flatten.mp hs
    refine ⟨_, List.mem_map.mpr ⟨sh, hsh, rfl⟩, ?_⟩
    rw [ids_mkItr, mem_idSet]
    exact List.mem_map.mpr ⟨s, List.mem_filter.mpr ⟨hs1, hp⟩, rfl⟩

/-! #### tag values -/

theorem mergeValues_none {L : List (List String)} (h : mergeValues L = none) : L = [] := by
  match L with
  | [] => rfl
  | [x] => simp [mergeValues] at h
  | a :: b :: rest => simp [mergeValues] at h

theorem mergeValues_some {L : List (List String)} {vs : List String} (h : mergeValues L = some vs)
    (v : String) : v ∈ vs ↔ ∃ l ∈ L, v ∈ l := by
  match L with
  | [] => simp [mergeValues] at h
  | [x] => simp [mergeValues] at h; subst h; simp
  | a :: b :: rest =>
    simp only [mergeValues, Option.some.injEq] at h
    subst h
    simp only [List.mem_flatten]

/-- the values of tag `k` among the series of `name` in one shard. -/
def shardValues (sh : List Series) (name k : String) : List String :=
  (sh.filter (·.name = name)).filterMap (fun s => lookupTag s.tags k)

theorem mem_shardValues {sh : List Series} {name k v : String} :
    v ∈ shardValues sh name k ↔ ∃ s ∈ sh, s.name = name ∧ lookupTag s.tags k = some v := by
  unfold shardValues
  simp only [List.mem_filterMap, List.mem_filter, decide_eq_true_eq]
  constructor
  · rintro ⟨s, ⟨h1, h2⟩, h3⟩; exact ⟨s, h1, h2, h3⟩
  · rintro ⟨s, h1, h2, h3⟩; exact ⟨s, ⟨h1, h2⟩, h3⟩

theorem ofSeries_tagValues (sh : List Series) (name k : String) :
    (Index.ofSeries sh).tagValues name k =
      if (shardValues sh name k).isEmpty then none else some (shardValues sh name k) := rfl

/-- the list of non-nil value iterators of the shards. -/
theorem mem_valueLists (shards : List (List Series)) (name k : String) (l : List String) :
    l ∈ (shards.map (fun sh => (Index.ofSeries sh).tagValues name k)).filterMap id ↔
      ∃ sh ∈ shards, l = shardValues sh name k ∧ l ≠ [] := by
  simp only [List.mem_filterMap, List.mem_map, id]
  constructor
  · rintro ⟨o, ⟨sh, hsh, rfl⟩, ho⟩
    rw [ofSeries_tagValues] at ho
    split at ho
    · simp at ho
    · next hne =>
      simp only [Option.some.injEq] at ho
      exact ⟨sh, hsh, ho.symm, by rw [← ho]; simpa using hne⟩
  · rintro ⟨sh, hsh, rfl, hne⟩
    refine ⟨_, ⟨sh, hsh, rfl⟩, ?_⟩
    rw [ofSeries_tagValues]
    have : (shardValues sh name k).isEmpty = false := by
      cases h : shardValues sh name k with
      | nil => exact absurd h hne
      | cons => rfl
    simp [this]

/-! #### soundness of the executable views -/

/-- the series of measurement `name` in the state. -/
def State.seriesOf (st : State) (name : String) : List Series :=
  st.allSeries.filter (·.name = name)

theorem mem_seriesOf {st : State} {name : String} {s : Series} :
    s ∈ st.seriesOf name ↔ s ∈ st.allSeries ∧ s.name = name := by
  simp [State.seriesOf]

theorem ofIndexes_mseries (st : State) (name : String) :
    (Ctx.ofIndexes (st.shards.map Index.ofSeries) st.fields name).mseries =
      view st.shards (fun s => s.name = name) := by
  simp [Ctx.ofIndexes, view, Index.ofSeries, List.map_map, Function.comp_def]

theorem ofIndexes_keySeries (st : State) (name k : String) :
    (Ctx.ofIndexes (st.shards.map Index.ofSeries) st.fields name).keySeries k =
      view st.shards (fun s => s.name = name ∧ (lookupTag s.tags k).isSome) := by
  simp [Ctx.ofIndexes, view, Index.ofSeries, List.map_map, Function.comp_def]

theorem ofIndexes_valSeries (st : State) (name k v : String) :
    (Ctx.ofIndexes (st.shards.map Index.ofSeries) st.fields name).valSeries k v =
      view st.shards (fun s => s.name = name ∧ lookupTag s.tags k = some v) := by
  simp [Ctx.ofIndexes, view, Index.ofSeries, List.map_map, Function.comp_def]

theorem ofIndexes_tagValues (st : State) (name k : String) :
    (Ctx.ofIndexes (st.shards.map Index.ofSeries) st.fields name).tagValues k =
      mergeValues ((st.shards.map (fun sh => (Index.ofSeries sh).tagValues name k)).filterMap id) := by
  simp [Ctx.ofIndexes, List.map_map, Function.comp_def]

theorem ofIndexes_sound (st : State) (name : String) :
    (Ctx.ofIndexes (st.shards.map Index.ofSeries) st.fields name).Sound (st.seriesOf name) where
  asc_m := by rw [ofIndexes_mseries]; exact asc_view _ _
  mem_m i := by
    rw [ofIndexes_mseries, mem_view]
    simp only [mem_seriesOf, decide_eq_true_eq]
    constructor
    · rintro ⟨s, h1, h2, h3⟩; exact ⟨s, ⟨h1, h2⟩, h3⟩
    · rintro ⟨s, ⟨h1, h2⟩, h3⟩; exact ⟨s, h1, h2, h3⟩
  asc_k k := by rw [ofIndexes_keySeries]; exact asc_view _ _
  mem_k k i := by
    rw [ofIndexes_keySeries, mem_view]
    simp only [mem_seriesOf, decide_eq_true_eq]
    constructor
    · rintro ⟨s, h1, ⟨h2, h4⟩, h3⟩; exact ⟨s, ⟨h1, h2⟩, h3, h4⟩
    · rintro ⟨s, ⟨h1, h2⟩, h3, h4⟩; exact ⟨s, h1, ⟨h2, h4⟩, h3⟩
  asc_v k v := by rw [ofIndexes_valSeries]; exact asc_view _ _
  mem_v k v i := by
    rw [ofIndexes_valSeries, mem_view]
    simp only [mem_seriesOf, decide_eq_true_eq]
    constructor
    · rintro ⟨s, h1, ⟨h2, h4⟩, h3⟩; exact ⟨s, ⟨h1, h2⟩, h3, h4⟩
    · rintro ⟨s, ⟨h1, h2⟩, h3, h4⟩; exact ⟨s, h1, ⟨h2, h4⟩, h3⟩
  vals_some k vs hvs s hs v hl := by
    rw [ofIndexes_tagValues] at hvs
    rw [mergeValues_some hvs]
    obtain ⟨hs1, hs2⟩ := mem_seriesOf.mp hs
    obtain ⟨sh, hsh, hssh⟩ := List.mem_flatten.mp hs1
    have hv : v ∈ shardValues sh name k := mem_shardValues.mpr ⟨s, hssh, hs2, hl⟩
    refine ⟨shardValues sh name k, ?_, hv⟩
    exact (mem_valueLists _ _ _ _).mpr ⟨sh, hsh, rfl, fun h => by simp [h] at hv⟩
  vals_none k hnone s hs := by
    rw [ofIndexes_tagValues] at hnone
    have hL := mergeValues_none hnone
    obtain ⟨hs1, hs2⟩ := mem_seriesOf.mp hs
    obtain ⟨sh, hsh, hssh⟩ := List.mem_flatten.mp hs1
    cases hl : lookupTag s.tags k with
    | none => rfl
    | some v =>
      have hv : v ∈ shardValues sh name k := mem_shardValues.mpr ⟨s, hssh, hs2, hl⟩
      have : shardValues sh name k ∈
          (st.shards.map (fun sh => (Index.ofSeries sh).tagValues name k)).filterMap id :=
        (mem_valueLists _ _ _ _).mpr ⟨sh, hsh, rfl, fun h => by simp [h] at hv⟩
      rw [hL] at this
      simp at this

/-! #### the state invariant -/

/-- every stored series is well formed and an id names one series. -/
structure State.WF (st : State) : Prop where
  ok : ∀ s ∈ st.allSeries, seriesOK s = true
  uniq : ∀ s ∈ st.allSeries, ∀ t ∈ st.allSeries, s.id = t.id → s = t

theorem lookupTag_mem {tags : List (String × String)} {k v : String}
    (h : lookupTag tags k = some v) : (k, v) ∈ tags := by
  induction tags with
  | nil => simp [lookupTag] at h
  | cons kv rest ih =>
    obtain ⟨k', v'⟩ := kv
    unfold lookupTag at h
    split at h
    · next hk => simp only [Option.some.injEq] at h; subst hk; subst h; simp
    · exact List.mem_cons_of_mem _ (ih h)

theorem seriesOK_vals {s : Series} (h : seriesOK s = true) (k : String) :
    lookupTag s.tags k ≠ some "" := by
  intro hl
  have hm := lookupTag_mem hl
  unfold seriesOK at h
  simp only [Bool.and_eq_true, List.all_eq_true] at h
  have := h.2 _ hm
  simp at this

theorem State.WF.seriesWF {st : State} (h : st.WF) (name : String) : SeriesWF (st.seriesOf name) where
  vals s hs k := seriesOK_vals (h.ok s (mem_seriesOf.mp hs).1) k
  uniq s hs t ht hid := by
    rw [h.uniq s (mem_seriesOf.mp hs).1 t (mem_seriesOf.mp ht).1 hid]

theorem mem_addToShard (shs : List (List Series)) (i : Nat) (s t : Series) :
    t ∈ (addToShard shs i s).flatten ↔ t = s ∨ t ∈ shs.flatten := by
  induction shs generalizing i with
  | nil =>
    induction i with
    | zero => simp [addToShard]
    | succ n ih => simpa [addToShard] using ih
  | cons sh rest ih =>
    cases i with
    | zero => simp [addToShard]
    | succ n =>
      simp only [addToShard, List.flatten_cons, List.mem_append, ih n]
      constructor
      · rintro (h | h | h)
        · exact Or.inr (Or.inl h)
        · exact Or.inl h
        · exact Or.inr (Or.inr h)
      · rintro (h | h | h)
        · exact Or.inr (Or.inl h)
        · exact Or.inl h
        · exact Or.inr (Or.inr h)

theorem WF_init : State.WF {} where
  ok s hs := by simp [State.allSeries] at hs
  uniq s hs := by simp [State.allSeries] at hs

theorem WF_step {st : State} (h : st.WF) (op : Op) : (step st op).1.WF := by
  cases op with
  | addSeries i s =>
    simp only [step]
    split
    · next hacc =>
      unfold State.accepts at hacc
      simp only [Bool.and_eq_true, List.all_eq_true, decide_eq_true_eq] at hacc
      obtain ⟨hok, hun⟩ := hacc
      refine ⟨?_, ?_⟩
      · intro t ht
        rcases (mem_addToShard _ _ _ _).mp ht with rfl | ht
        · exact hok
        · exact h.ok t ht
      · intro t ht u hu hid
        have ht' := (mem_addToShard _ _ _ _).mp ht
        have hu' := (mem_addToShard _ _ _ _).mp hu
        rcases ht' with ht' | ht' <;> rcases hu' with hu' | hu'
        · rw [ht', hu']
        · rcases hun u hu' with h1 | h1
          · exact absurd (ht' ▸ hid).symm h1
          · rw [ht', h1]
        · rcases hun t ht' with h1 | h1
          · exact absurd (hu' ▸ hid) h1
          · rw [hu', h1]
        · exact h.uniq t ht' u hu' hid
    · exact h
  | delSeries id => exact ⟨h.ok, h.uniq⟩
  | addField n f => exact ⟨h.ok, h.uniq⟩
  | query name e => exact h

/-! #### queries on states -/

theorem ids_filterUndeleted (deleted : List Nat) (it : Itr) :
    (filterUndeleted deleted it).ids = it.ids.filter (fun id => !deleted.contains id) := by
  cases it <;> simp [filterUndeleted, Itr.ids]

/-- **Characterisation of a query on a well-formed state** (inside the grammar). -/
theorem query_mem {st : State} (h : st.WF) (name : String) (e : Expr)
    (hg : inGrammar (fun f => st.fields.contains (name, f)) e = true) (i : Nat) :
    i ∈ (st.query name e).ids ↔
      ∃ s ∈ st.allSeries, s.name = name ∧ s.id = i ∧ i ∉ st.deleted ∧ sem name s.tags e = true := by
  unfold State.query
  rw [ids_filterUndeleted, List.mem_filter]
  have hs := ofIndexes_sound st name
  rw [eval_mem (h.seriesWF name) hs e hg i]
  simp only [Bool.not_eq_true', List.contains_eq_mem, decide_eq_false_iff_not, mem_seriesOf]
  constructor
  · rintro ⟨⟨s, ⟨h1, h2⟩, h3, h4⟩, h5⟩; exact ⟨s, h1, h2, h3, h5, h4⟩
  · rintro ⟨s, h1, h2, h3, h5, h4⟩; exact ⟨⟨s, ⟨h1, h2⟩, h3, h4⟩, h5⟩

theorem query_asc (st : State) (name : String) (e : Expr) : Asc (st.query name e).ids := by
  unfold State.query
  rw [ids_filterUndeleted]
  exact List.Pairwise.sublist List.filter_sublist (asc_eval (ofIndexes_sound st name) e)

end Influx.Model.TagExpr
