/-
  Lemmas.C36RHHSim — simulation between the robin-hood part of the model (`stepR`) and of
  the statement (`checkR`, an association list).
-/
import Influx.Lemmas.C36RHHOps
import Influx.Lemmas.C36KeyOrder
import Influx.Model.C36

namespace Influx.Spec.C36
open Influx.C36

def NodupKeys (a : Assoc) : Prop := (a.map (·.1)).Nodup

theorem find_cons (p : Key × Int) (a : Assoc) (k : Key) :
    Assoc.find (p :: a) k = if p.1 = k then some p.2 else Assoc.find a k := by
  unfold Assoc.find
  by_cases h : p.1 = k <;> simp [h]

theorem erase_cons_eq (p : Key × Int) (ps : Assoc) (k : Key) (hp : p.1 = k) :
    Assoc.erase (p :: ps) k = Assoc.erase ps k := by
  simp [Assoc.erase, hp]

theorem erase_cons_ne (p : Key × Int) (ps : Assoc) (k : Key) (hp : p.1 ≠ k) :
    Assoc.erase (p :: ps) k = p :: Assoc.erase ps k := by
  simp [Assoc.erase, hp]

theorem find_erase (a : Assoc) (k k' : Key) :
    (a.erase k).find k' = if k' = k then none else a.find k' := by
  induction a with
  | nil => simp [Assoc.erase, Assoc.find]
  | cons p ps ih =>
    by_cases hp : p.1 = k
    · rw [erase_cons_eq p ps k hp, ih, find_cons]
      by_cases hk : k' = k
      · simp [hk]
      · have : ¬ p.1 = k' := fun h => hk (by rw [← h, hp])
        simp [hk, this]
    · rw [erase_cons_ne p ps k hp, find_cons, find_cons, ih]
      by_cases hk : k' = k
      · subst hk; simp [hp]
      · simp [hk]

theorem nodupKeys_cons (p : Key × Int) (ps : Assoc) :
    NodupKeys (p :: ps) ↔ p.1 ∉ ps.map (·.1) ∧ NodupKeys ps := by
  unfold NodupKeys
  rw [List.map_cons, List.nodup_cons]

theorem mem_erase_keys (a : Assoc) (k x : Key) : x ∈ (a.erase k).map (·.1) ↔ x ∈ a.map (·.1) ∧ x ≠ k := by
  simp only [Assoc.erase, List.mem_map, List.mem_filter]
  constructor
  · rintro ⟨p, ⟨hp, hne⟩, rfl⟩; exact ⟨⟨p, hp, rfl⟩, by simpa using hne⟩
  · rintro ⟨⟨p, hp, rfl⟩, hne⟩; exact ⟨p, ⟨hp, by simpa using hne⟩, rfl⟩

theorem nodup_erase (a : Assoc) (k : Key) (h : NodupKeys a) : NodupKeys (a.erase k) := by
  induction a with
  | nil => simpa [Assoc.erase] using h
  | cons p ps ih =>
    have hp := (nodupKeys_cons p ps).mp h
    by_cases hk : p.1 = k
    · rw [erase_cons_eq p ps k hk]; exact ih hp.2
    · rw [erase_cons_ne p ps k hk, nodupKeys_cons]
      exact ⟨fun hmem => hp.1 ((mem_erase_keys ps k p.1).mp hmem).1, ih hp.2⟩

theorem find_none_iff (a : Assoc) (k : Key) : a.find k = none ↔ k ∉ a.map (·.1) := by
  induction a with
  | nil => simp [Assoc.find]
  | cons p ps ih =>
    rw [find_cons]
    by_cases h : p.1 = k
    · simp [h]
    · simp only [h, if_false, ih, List.map_cons, List.mem_cons, not_or]
      exact ⟨fun h' => ⟨fun h'' => h h''.symm, h'⟩, fun h' => h'.2⟩

theorem length_erase (a : Assoc) (k : Key) (h : NodupKeys a) :
    (a.erase k).length + (if a.find k = none then 0 else 1) = a.length := by
  induction a with
  | nil => simp [Assoc.erase, Assoc.find]
  | cons p ps ih =>
    have hp := (nodupKeys_cons p ps).mp h
    have ih' := ih hp.2
    rw [find_cons]
    by_cases hk : p.1 = k
    · have hnone : Assoc.find ps k = none := (find_none_iff ps k).mpr (by rw [← hk]; exact hp.1)
      rw [erase_cons_eq p ps k hk]
      simp only [hnone, if_true] at ih'
      simp only [hk, if_true, List.length_cons]
      have : (some p.2 = none) = False := by simp
      simp only [this, if_false]
      omega
    · rw [erase_cons_ne p ps k hk]
      simp only [hk, if_false, List.length_cons]
      omega

theorem find_some_mem (a : Assoc) (k : Key) (v : Int) (h : NodupKeys a) :
    a.find k = some v ↔ (k, v) ∈ a := by
  induction a with
  | nil => simp [Assoc.find]
  | cons p ps ih =>
    have hp := (nodupKeys_cons p ps).mp h
    rw [find_cons]
    by_cases hk : p.1 = k
    · simp only [hk, if_true, Option.some.injEq, List.mem_cons]
      constructor
      · intro hv; left; rw [← hk, ← hv]
      · rintro (h1 | h1)
        · rw [← h1]
        · exfalso; apply hp.1; rw [hk]; exact List.mem_map.mpr ⟨(k, v), h1, rfl⟩
    · simp only [hk, if_false, List.mem_cons, ih hp.2]
      constructor
      · intro h1; exact Or.inr h1
      · rintro (h1 | h1)
        · exfalso; apply hk; rw [← h1]
        · exact h1
theorem find_put (a : Assoc) (k : Key) (v : Int) (k' : Key) :
    (a.put k v).find k' = if k' = k then some v else a.find k' := by
  unfold Assoc.put
  rw [find_cons, find_erase]
  by_cases h : k' = k
  · simp [h]
  · have : ¬ k = k' := fun h' => h h'.symm
    simp [h, this]

theorem nodup_put (a : Assoc) (k : Key) (v : Int) (h : NodupKeys a) : NodupKeys (a.put k v) := by
  unfold Assoc.put
  rw [nodupKeys_cons]
  exact ⟨fun hmem => ((mem_erase_keys a k k).mp hmem).2 rfl, nodup_erase a k h⟩

theorem length_put (a : Assoc) (k : Key) (v : Int) (h : NodupKeys a) :
    (a.put k v).length = a.length + (if a.find k = none then 1 else 0) := by
  have := length_erase a k h
  unfold Assoc.put
  simp only [List.length_cons]
  split at this <;> simp_all <;> omega

end Influx.Spec.C36

namespace Influx.C36
open Influx.Spec.C36 Influx.RHH

/-- the hash an op carries is the hash of its key; load factors are at most 100 % -/
def ROp.WF (hf : Key → Nat) : ROp → Prop
  | .new _ lf => lf ≤ 100
  | .put k h _ => h = hf k
  | .get k h => h = hf k
  | _ => True

/-- the model could not finish the op (`insert` without a free slot, `pow2` out of range) -/
def Obs.stuck (a : Obs) : Prop := a = .err "hang" ∨ a = .err "panic"

/-- model map vs. abstract association list -/
def RR (hf : Key → Nat) : Option RHH.Map → Option Assoc → Prop
  | none, none => True
  | some m, some a =>
    m.Inv hf ∧ NodupKeys a ∧ a.length = m.n ∧
      ∀ k v, a.find k = some v ↔ ∃ e, Mem m.slots e ∧ e.key = k ∧ e.val = v
  | _, _ => False

theorem dist_check (h i c : Nat) :
    (c == 0 || decide (i ≥ c) || (decide (RHH.dist h i c < c) && (h % c + RHH.dist h i c) % c == i)) = true := by
  by_cases hc : c = 0
  · simp [hc]
  · by_cases hi : i ≥ c
    · simp [hi]
    · have hc' : 0 < c := by omega
      have hi' : i < c := by omega
      have hr : h % c < c := Nat.mod_lt _ hc'
      have hd := RHH.dist_lt h i c hc'
      have he := RHH.dist_eq h i c hc' hi'
      have : (h % c + RHH.dist h i c) % c = i := by
        rw [he]
        split
        · rw [Nat.mod_eq_of_lt (by omega)]; omega
        · have : h % c + (i + c - h % c) = i + c := by omega
          rw [this, Nat.add_mod_right, Nat.mod_eq_of_lt hi']
      simp [hd, this]

theorem keys_eq {hf : Key → Nat} {m : RHH.Map} {a : Assoc} (hI : m.Inv hf) (hn : NodupKeys a)
    (hrel : ∀ k v, a.find k = some v ↔ ∃ e, Mem m.slots e ∧ e.key = k ∧ e.val = v) :
    m.keys = (a.sorted).map (·.1) := by
  rw [sorted_keys]
  unfold RHH.Map.keys
  have hocc : (m.slots.filterMap fun s => s.map (·.key)) = (occupied m.slots).map (·.key) := by
    unfold occupied
    induction m.slots with
    | nil => rfl
    | cons o os ih => cases o <;> simp [List.filterMap_cons, ih]
  rw [hocc]
  have hnd1 : ((occupied m.slots).map (·.key)).Nodup := by
    have := occupied_pairwise hI.wf
    exact (List.pairwise_map).mpr this
  apply sortedK_ext _ _ (sortKeys_sorted _ hnd1) (sortKeys_sorted _ hn)
  intro x
  rw [mem_sortKeys, mem_sortKeys]
  simp only [List.mem_map]
  constructor
  · rintro ⟨e, he, rfl⟩
    have hm := (mem_occupied m.slots e).mp he
    have := (hrel e.key e.val).mpr ⟨e, hm, rfl, rfl⟩
    exact ⟨(e.key, e.val), (find_some_mem a e.key e.val hn).mp this, rfl⟩
  · rintro ⟨p, hp, rfl⟩
    have := (find_some_mem a p.1 p.2 hn).mpr hp
    obtain ⟨e, hm, hk, _⟩ := (hrel p.1 p.2).mp this
    exact ⟨e, (mem_occupied m.slots e).mpr hm, hk⟩

theorem stepR_sim (hf : Key → Nat) (m : Option RHH.Map) (a : Option Assoc) (op : ROp)
    (hR : RR hf m a) (hwf : ROp.WF hf op) (hns : ¬ Obs.stuck (stepR m op).2) :
    (checkR a op (stepR m op).2).2 = none ∧ RR hf (stepR m op).1 (checkR a op (stepR m op).2).1 := by
  cases op with
  | new c lf =>
    simp only [stepR] at hns ⊢
    cases hn : RHH.Map.new c lf with
    | none => simp [hn, Obs.stuck] at hns
    | some m' =>
      obtain ⟨hI, hemp⟩ := RHH.Map.new_inv hf hn hwf
      have hn0 : m'.n = 0 := by
        unfold RHH.Map.new at hn
        cases hp : RHH.pow2 c <;> simp [hp] at hn
        subst hn; rfl
      refine ⟨by simp [checkR, expect], ?_⟩
      simp only [checkR]
      refine ⟨hI, by simp [NodupKeys], by simp [hn0], ?_⟩
      intro k v
      simp only [Assoc.find, List.find?_nil, Option.map_none]
      constructor
      · intro h; cases h
      · rintro ⟨e, he, _⟩
        exact absurd he (hemp e)
  | dist h i c =>
    simp only [stepR, checkR, expect]
    refine ⟨?_, hR⟩
    rw [dist_check h i c]; rfl
  | put k h v =>
    cases m with
    | none =>
      cases a with
      | none => simp [stepR, checkR, expect, hR]
      | some _ => simp [RR] at hR
    | some mp =>
      cases a with
      | none => simp [RR] at hR
      | some al =>
        obtain ⟨hI, hnd, hlen, hrel⟩ := hR
        simp only [ROp.WF] at hwf
        subst hwf
        simp only [stepR] at hns ⊢
        cases hp : mp.put (hf k) k v with
        | none => simp [hp, Obs.stuck] at hns
        | some m' =>
          obtain ⟨hI', hmem', hn1, hn2⟩ := RHH.Map.put_spec hI k v hp
          refine ⟨by simp [checkR, expect], ?_⟩
          simp only [checkR]
          refine ⟨hI', nodup_put al k v hnd, ?_, ?_⟩
          · rw [length_put al k v hnd]
            by_cases hf0 : al.find k = none
            · have : ∀ e, Mem mp.slots e → e.key ≠ k := by
                intro e he hk
                have := (hrel k e.val).mpr ⟨e, he, hk, rfl⟩
                rw [hf0] at this; cases this
              simp [hf0, hn2 this, hlen]
            · obtain ⟨v0, hv0⟩ := Option.ne_none_iff_exists'.mp hf0
              obtain ⟨e, he, hk, _⟩ := (hrel k v0).mp hv0
              simp [hf0, hn1 ⟨e, he, hk⟩, hlen]
          · intro k' v'
            rw [find_put]
            by_cases hk : k' = k
            · subst hk
              simp only [if_true, Option.some.injEq]
              constructor
              · rintro rfl
                exact ⟨⟨hf k', k', v⟩, (hmem' _).mpr (Or.inr rfl), rfl, rfl⟩
              · rintro ⟨e, he, hke, hve⟩
                rcases (hmem' e).mp he with ⟨_, hne⟩ | rfl
                · exact absurd hke hne
                · exact hve
            · simp only [hk, if_false]
              rw [hrel k' v']
              constructor
              · rintro ⟨e, he, hke, hve⟩
                exact ⟨e, (hmem' e).mpr (Or.inl ⟨he, by rw [hke]; exact hk⟩), hke, hve⟩
              · rintro ⟨e, he, hke, hve⟩
                rcases (hmem' e).mp he with ⟨he', _⟩ | rfl
                · exact ⟨e, he', hke, hve⟩
                · exact absurd hke.symm hk
  | get k h =>
    cases m with
    | none =>
      cases a with
      | none => simp [stepR, checkR, expect, hR]
      | some _ => simp [RR] at hR
    | some mp =>
      cases a with
      | none => simp [RR] at hR
      | some al =>
        obtain ⟨hI, hnd, hlen, hrel⟩ := hR
        simp only [ROp.WF] at hwf
        subst hwf
        simp only [stepR, checkR]
        cases hg : mp.get (hf k) k with
        | none =>
          have habs := (RHH.Map.get_none hI k).mp hg
          have : al.find k = none := by
            cases hfk : al.find k with
            | none => rfl
            | some v0 =>
              obtain ⟨e, he, hk, _⟩ := (hrel k v0).mp hfk
              exact absurd hk (habs e he)
          simp only [this, expect]
          exact ⟨by simp, hI, hnd, hlen, hrel⟩
        | some v =>
          have := (hrel k v).mpr ((RHH.Map.get_spec hI k v).mp hg)
          simp only [this, expect]
          exact ⟨by simp, hI, hnd, hlen, hrel⟩
  | len =>
    cases m with
    | none =>
      cases a with
      | none => simp [stepR, checkR, expect, hR]
      | some _ => simp [RR] at hR
    | some mp =>
      cases a with
      | none => simp [RR] at hR
      | some al =>
        obtain ⟨hI, hnd, hlen, hrel⟩ := hR
        simp only [stepR, checkR, expect]
        exact ⟨by simp [hlen], hI, hnd, hlen, hrel⟩
  | cap =>
    cases m with
    | none =>
      cases a with
      | none => simp [stepR, checkR, expect, hR]
      | some _ => simp [RR] at hR
    | some mp =>
      cases a with
      | none => simp [RR] at hR
      | some al => simp only [stepR, checkR]; exact ⟨trivial, hR⟩
  | dump =>
    cases m with
    | none =>
      cases a with
      | none => simp [stepR, checkR, expect, hR]
      | some _ => simp [RR] at hR
    | some mp =>
      cases a with
      | none => simp [RR] at hR
      | some al =>
        obtain ⟨hI, hnd, hlen, hrel⟩ := hR
        simp only [stepR, checkR]
        refine ⟨?_, hI, hnd, hlen, hrel⟩
        have hocc : (mp.slots.map fun s => s.map fun e => (e.key, e.val)).filterMap id =
            (occupied mp.slots).map fun e => (e.key, e.val) := by
          unfold occupied
          induction mp.slots with
          | nil => rfl
          | cons o os ih => cases o <;> simp [List.filterMap_cons, ih]
        simp only [hocc, expect]
        have h1 : ((occupied mp.slots).map fun e => (e.key, e.val)).length = al.length := by
          rw [List.length_map, ← count_eq_occupied, ← hI.n_eq, hlen]
        have h2 : (al.all fun p => ((occupied mp.slots).map fun e => (e.key, e.val)).contains p) = true := by
          rw [List.all_eq_true]
          intro p hp
          have := (find_some_mem al p.1 p.2 hnd).mpr hp
          obtain ⟨e, he, hk, hv⟩ := (hrel p.1 p.2).mp this
          simp only [List.contains_iff_mem, List.mem_map]
          exact ⟨e, (mem_occupied mp.slots e).mpr he, by rw [hk, hv]⟩
        rw [h1, h2]; simp
  | keys =>
    cases m with
    | none =>
      cases a with
      | none => simp [stepR, checkR, expect, hR]
      | some _ => simp [RR] at hR
    | some mp =>
      cases a with
      | none => simp [RR] at hR
      | some al =>
        obtain ⟨hI, hnd, hlen, hrel⟩ := hR
        simp only [stepR, checkR, expect]
        exact ⟨by simp [keys_eq hI hnd hrel], hI, hnd, hlen, hrel⟩
  | grow sz =>
    cases m with
    | none =>
      cases a with
      | none => simp [stepR, checkR, expect, hR]
      | some _ => simp [RR] at hR
    | some mp =>
      cases a with
      | none => simp [RR] at hR
      | some al =>
        obtain ⟨hI, hnd, hlen, hrel⟩ := hR
        simp only [stepR] at hns ⊢
        cases hg : mp.grow sz with
        | none => simp [hg, Obs.stuck] at hns
        | some m' =>
          obtain ⟨hI', hmem', hn', _, _⟩ := RHH.Map.grow_spec hI hg
          refine ⟨by simp [checkR, expect], ?_⟩
          simp only [checkR]
          refine ⟨hI', hnd, by rw [hn', hlen], ?_⟩
          intro k v
          rw [hrel k v]
          constructor
          · rintro ⟨e, he, h1, h2⟩; exact ⟨e, (hmem' e).mpr he, h1, h2⟩
          · rintro ⟨e, he, h1, h2⟩; exact ⟨e, (hmem' e).mp he, h1, h2⟩
  | reset =>
    cases m with
    | none =>
      cases a with
      | none => simp [stepR, checkR, expect, hR]
      | some _ => simp [RR] at hR
    | some mp =>
      cases a with
      | none => simp [RR] at hR
      | some al =>
        obtain ⟨hI, hnd, hlen, hrel⟩ := hR
        obtain ⟨hI', hemp⟩ := RHH.Map.reset_inv hI
        simp only [stepR, checkR, expect]
        refine ⟨by simp, hI', by simp [NodupKeys], by simp [RHH.Map.reset], ?_⟩
        intro k v
        simp only [Assoc.find, List.find?_nil, Option.map_none]
        constructor
        · intro h; cases h
        · rintro ⟨e, he, _⟩
          exact absurd he (hemp e)

end Influx.C36
