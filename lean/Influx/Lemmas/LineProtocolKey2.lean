/-
  `scanKey` on a key written by `MakeKey`, followed by the space before the fields.
-/
import Influx.Lemmas.LineProtocolSort

namespace Influx.LP
open Influx.Generated.LineProto Influx.Spec.C11

attribute [local simp] cBS_val cComma_val cSpace_val cEq_val cQuote_val cNL_val

theorem isTagSpecial_ne (b : Nat) (h : isTagSpecial b = false) : b ≠ 44 ∧ b ≠ 32 ∧ b ≠ 61 := by
  simp [isTagSpecial] at h; omega

theorem isTagSpecial_ne_bs (b : Nat) (h : isTagSpecial b = true) : b ≠ 92 := by
  intro e; subst e; revert h; decide

/-! ### one tag key -/

theorem scanTagsKeyAux_escBy (s : Bytes) (prev : Nat) (rest : Bytes) (hl : lastIsBS (prev == cBS) s = false) :
    scanTagsKeyAux prev (escBy isTagSpecial s ++ cEq :: rest) = .ok (escBy isTagSpecial s, rest) := by
  induction s generalizing prev with
  | nil =>
    simp [lastIsBS] at hl
    simp [scanTagsKeyAux, hl]
  | cons b r ih =>
    simp only [escBy_cons]
    simp only [lastIsBS] at hl
    by_cases hb : isTagSpecial b = true
    · simp only [hb, if_true, List.cons_append]
      rw [scanTagsKeyAux]
      simp only [show ¬ ((cBS = cSpace ∨ cBS = cComma) ∧ prev ≠ cBS) from by simp,
        show ¬ (cBS = cEq ∧ prev ≠ cBS) from by simp, if_false]
      rw [scanTagsKeyAux]
      simp only [show ¬ ((b = cSpace ∨ b = cComma) ∧ cBS ≠ cBS) from by simp,
        show ¬ (b = cEq ∧ cBS ≠ cBS) from by simp, if_false]
      rw [ih b hl]
    · have hb' : isTagSpecial b = false := by simpa using hb
      obtain ⟨h1, h2, h3⟩ := isTagSpecial_ne b hb'
      simp only [hb', Bool.false_eq_true, if_false, List.cons_append]
      rw [scanTagsKeyAux]
      simp only [show ¬ ((b = cSpace ∨ b = cComma) ∧ prev ≠ cBS) from by simp [h1, h2],
        show ¬ (b = cEq ∧ prev ≠ cBS) from by simp [h3], if_false]
      rw [ih b hl]

theorem scanTagsKey_escBy (k : Bytes) (rest : Bytes) (hne : k ≠ []) (hl : noTB k) :
    scanTagsKey (escBy isTagSpecial k ++ cEq :: rest) = .ok (escBy isTagSpecial k, rest) := by
  have hl' := lastIsBS_false_of_noTB k hl
  cases k with
  | nil => exact absurd rfl hne
  | cons b r =>
    simp only [lastIsBS] at hl'
    simp only [escBy_cons]
    by_cases hb : isTagSpecial b = true
    · simp only [hb, if_true, List.cons_append]
      rw [scanTagsKey]
      simp only [show ¬ (cBS = cSpace ∨ cBS = cComma ∨ cBS = cEq) from by simp, if_false]
      rw [scanTagsKeyAux]
      simp only [show ¬ ((b = cSpace ∨ b = cComma) ∧ cBS ≠ cBS) from by simp,
        show ¬ (b = cEq ∧ cBS ≠ cBS) from by simp, if_false]
      rw [scanTagsKeyAux_escBy r b rest hl']
    · have hb' : isTagSpecial b = false := by simpa using hb
      obtain ⟨h1, h2, h3⟩ := isTagSpecial_ne b hb'
      simp only [hb', Bool.false_eq_true, if_false, List.cons_append]
      rw [scanTagsKey]
      simp only [show ¬ (b = cSpace ∨ b = cComma ∨ b = cEq) from by simp [h1, h2, h3], if_false]
      rw [scanTagsKeyAux_escBy r b rest hl']

/-! ### one tag value -/

def tagEndOf (d : Nat) (rest : Bytes) : TagEnd := if d = cComma then .key rest else .fields (d :: rest)

theorem scanTagsValueAux_escBy (s : Bytes) (prev d : Nat) (rest : Bytes) (hd : d = cComma ∨ d = cSpace)
    (hl : lastIsBS (prev == cBS) s = false) :
    scanTagsValueAux prev (escBy isTagSpecial s ++ d :: rest) = .ok (escBy isTagSpecial s, tagEndOf d rest) := by
  induction s generalizing prev with
  | nil =>
    simp [lastIsBS] at hl
    rcases hd with rfl | rfl <;> simp [scanTagsValueAux, hl, tagEndOf]
  | cons b r ih =>
    simp only [escBy_cons]
    simp only [lastIsBS] at hl
    by_cases hb : isTagSpecial b = true
    · simp only [hb, if_true, List.cons_append]
      rw [scanTagsValueAux]
      simp only [show ¬ (cBS = cEq ∧ prev ≠ cBS) from by simp, show ¬ (cBS = cComma ∧ prev ≠ cBS) from by simp,
        show ¬ (cBS = cSpace ∧ prev ≠ cBS) from by simp, if_false]
      rw [scanTagsValueAux]
      simp only [show ¬ (b = cEq ∧ cBS ≠ cBS) from by simp, show ¬ (b = cComma ∧ cBS ≠ cBS) from by simp,
        show ¬ (b = cSpace ∧ cBS ≠ cBS) from by simp, if_false]
      rw [ih b hl]
    · have hb' : isTagSpecial b = false := by simpa using hb
      obtain ⟨h1, h2, h3⟩ := isTagSpecial_ne b hb'
      simp only [hb', Bool.false_eq_true, if_false, List.cons_append]
      rw [scanTagsValueAux]
      simp only [show ¬ (b = cEq ∧ prev ≠ cBS) from by simp [h3], show ¬ (b = cComma ∧ prev ≠ cBS) from by simp [h1],
        show ¬ (b = cSpace ∧ prev ≠ cBS) from by simp [h2], if_false]
      rw [ih b hl]

theorem scanTagsValue_escBy (v : Bytes) (d : Nat) (rest : Bytes) (hd : d = cComma ∨ d = cSpace)
    (hne : v ≠ []) (hl : noTB v) :
    scanTagsValue (escBy isTagSpecial v ++ d :: rest) = .ok (escBy isTagSpecial v, tagEndOf d rest) := by
  have hl' := lastIsBS_false_of_noTB v hl
  cases v with
  | nil => exact absurd rfl hne
  | cons b r =>
    simp only [lastIsBS] at hl'
    simp only [escBy_cons]
    by_cases hb : isTagSpecial b = true
    · simp only [hb, if_true, List.cons_append]
      rw [scanTagsValue]
      simp only [show ¬ (cBS = cComma ∨ cBS = cSpace) from by simp, if_false]
      rw [scanTagsValueAux]
      simp only [show ¬ (b = cEq ∧ cBS ≠ cBS) from by simp, show ¬ (b = cComma ∧ cBS ≠ cBS) from by simp,
        show ¬ (b = cSpace ∧ cBS ≠ cBS) from by simp, if_false]
      rw [scanTagsValueAux_escBy r b d rest hd hl']
    · have hb' : isTagSpecial b = false := by simpa using hb
      obtain ⟨h1, h2, h3⟩ := isTagSpecial_ne b hb'
      simp only [hb', Bool.false_eq_true, if_false, List.cons_append]
      rw [scanTagsValue]
      simp only [show ¬ (b = cComma ∨ b = cSpace) from by simp [h1, h2], if_false]
      rw [scanTagsValueAux_escBy r b d rest hd hl']

/-! ### all tags -/

/-- the tag section after the first comma, up to and including the rest of the line -/
def tagsBody : List Tag → Bytes → Bytes
  | [], rest => rest
  | [t], rest => tagText t ++ cSpace :: rest
  | t :: u :: ts, rest => tagText t ++ cComma :: tagsBody (u :: ts) rest

theorem tagsText_append_eq (t : Tag) (ts : List Tag) (rest : Bytes) :
    tagsText (t :: ts) ++ cSpace :: rest = cComma :: tagsBody (t :: ts) rest := by
  induction ts generalizing t with
  | nil => simp [tagsText, tagsBody]
  | cons u us ih =>
    rw [tagsText_cons, List.append_assoc, ih u]
    simp [tagsBody]

theorem scanTags_tagsBody (ts : List Tag) (hne : ts ≠ []) (rest : Bytes) (fuel : Nat) (hf : ts.length ≤ fuel)
    (hv : ∀ t ∈ ts, t.key ≠ [] ∧ t.value ≠ [] ∧ noTB t.key ∧ noTB t.value) :
    scanTags fuel (tagsBody ts rest) = .ok (ts.map tagText, cSpace :: rest) := by
  induction ts generalizing fuel with
  | nil => exact absurd rfl hne
  | cons t ts ih =>
    obtain ⟨n, rfl⟩ : ∃ n, fuel = n + 1 := ⟨fuel - 1, by simp at hf; omega⟩
    obtain ⟨hk, hvv, hlk, hlv⟩ := hv t (by simp)
    cases ts with
    | nil =>
      simp only [tagsBody, tagText, List.append_assoc, List.cons_append]
      rw [scanTags, scanTagsKey_escBy _ _ hk hlk]
      simp only
      rw [scanTagsValue_escBy _ cSpace _ (Or.inr rfl) hvv hlv]
      simp [tagEndOf, tagText]
    | cons u us =>
      simp only [tagsBody, tagText, List.append_assoc, List.cons_append]
      rw [scanTags, scanTagsKey_escBy _ _ hk hlk]
      simp only
      rw [scanTagsValue_escBy _ cComma _ (Or.inl rfl) hvv hlv]
      simp only [tagEndOf, if_true]
      rw [ih (by simp) n (by simp at hf ⊢; omega) (fun x hx => hv x (by simp [hx]))]
      simp [tagText]

theorem rawTagKey_tagText (t : Tag) (hl : noTB t.key) : rawTagKey (tagText t) = escBy isTagSpecial t.key := by
  unfold rawTagKey tagText
  rw [scanTo_escBy isTagSpecial cEq (by decide) (by decide) t.key false _ (lastIsBS_false_of_noTB _ hl)]

theorem reserved_no_bs : ∀ r ∈ reservedTagKeys, cBS ∉ r ∧ ∀ b ∈ r, isTagSpecial b = false := by decide

/-- an escaped key equals a reserved key only if the key itself is reserved -/
theorem escBy_reserved (k : Bytes) (h : reservedTagKeys.contains (escBy isTagSpecial k) = true) :
    reservedTagKeys.contains k = true := by
  have hm : escBy isTagSpecial k ∈ reservedTagKeys := by simpa using h
  obtain ⟨hbs, _⟩ := reserved_no_bs _ hm
  have : escBy isTagSpecial k = k := escBy_no_bs _ _ hbs
  rw [this] at hm
  simpa using hm

theorem escKey_eq (s : Bytes) : Spec.C11.escKey s = escBy isTagSpecial s := by
  induction s with
  | nil => rfl
  | cons b r ih =>
    have : Spec.C11.escKey (b :: r) = (if Spec.C11.isTagSpecial b then [cBS, b] else [b]) ++ Spec.C11.escKey r := by
      simp [Spec.C11.escKey]
    rw [this, ih, escBy_cons]
    have hsame : Spec.C11.isTagSpecial b = isTagSpecial b := rfl
    rw [hsame]
    split <;> rfl

theorem checkSorted_strict (keys : List Bytes)
    (h : strictlySorted (fun (x : Bytes) => x) keys = true) : checkSorted keys = .ok true := by
  induction keys with
  | nil => rfl
  | cons a rest ih =>
    cases rest with
    | nil => rfl
    | cons b r =>
      simp only [strictlySorted, Bool.and_eq_true, bne_iff_ne, ne_eq] at h
      have hlt := cmpBytes_lt_of_le_ne a b h.1.1 h.1.2
      rw [checkSorted, hlt]
      exact ih h.2

theorem strictlySorted_map (f : α → Bytes) (l : List α) :
    strictlySorted (fun (x : Bytes) => x) (l.map f) = strictlySorted f l := by
  induction l with
  | nil => rfl
  | cons a rest ih =>
    cases rest with
    | nil => rfl
    | cons b r =>
      simp only [List.map_cons, strictlySorted] at ih ⊢
      rw [ih]

/-- the valid tags of a point -/
def TagsOK (tags : List Tag) : Prop :=
  (∀ t ∈ tags, t.key ≠ [] ∧ t.value ≠ [] ∧ noTB t.key ∧ noTB t.value ∧ reservedTagKeys.contains t.key = false) ∧
  strictlySorted (fun t => Spec.C11.escKey t.key) tags = true

theorem scanKeyTags_tags (name : Bytes) (ts : List Tag) (hne : ts ≠ []) (rest : Bytes) (hok : TagsOK ts) :
    scanKeyTags name (tagsBody ts rest) = .ok (name ++ tagsText ts, cSpace :: rest) := by
  obtain ⟨hv, hsorted⟩ := hok
  unfold scanKeyTags
  rw [scanTags_tagsBody ts hne rest _ (by
    have : ts.length ≤ (tagsBody ts rest).length := by
      clear hv hsorted
      induction ts with
      | nil => exact absurd rfl hne
      | cons t ts ih =>
        cases ts with
        | nil => simp [tagsBody, tagText]; omega
        | cons u us =>
          have := ih (by simp)
          simp only [tagsBody, List.length_append, List.length_cons] at this ⊢
          omega
    omega) (fun t ht => ⟨(hv t ht).1, (hv t ht).2.1, (hv t ht).2.2.1, (hv t ht).2.2.2.1⟩)]
  simp only
  have hfind : (ts.map tagText).find? (fun t => reservedTagKeys.contains (rawTagKey t)) = none := by
    apply List.find?_eq_none.mpr
    intro x hx
    obtain ⟨t, ht, rfl⟩ := List.mem_map.mp hx
    rw [rawTagKey_tagText t (hv t ht).2.2.1]
    intro hc
    have := escBy_reserved t.key hc
    rw [(hv t ht).2.2.2.2] at this; cases this
  rw [hfind]
  simp only
  have hkeys : (ts.map tagText).map rawTagKey = ts.map fun t => escBy isTagSpecial t.key := by
    rw [List.map_map]
    apply List.map_congr_left
    intro t ht
    exact rawTagKey_tagText t (hv t ht).2.2.1
  have hcs : checkSorted ((ts.map tagText).map rawTagKey) = .ok true := by
    rw [hkeys]
    apply checkSorted_strict
    rw [strictlySorted_map]
    have : (fun t : Tag => escBy isTagSpecial t.key) = (fun t => Spec.C11.escKey t.key) := by
      funext t; exact (escKey_eq t.key).symm
    rw [this]; exact hsorted
  rw [hcs]
  simp only [tagsText, List.flatMap_map]

end Influx.LP
