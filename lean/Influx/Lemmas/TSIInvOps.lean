/-
  Lemmas.TSIInvOps — the partition invariant through series creation and series drop.
-/
import Influx.Lemmas.TSIInv

namespace Influx.Model.TSI

theorem find_inj {sf : SFile} {id : Nat} {s t : SeriesInfo} (h1 : sf.find id = some s)
    (h2 : sf.find id = some t) : s = t := by
  rw [h1] at h2; exact Option.some.inj h2

theorem liveIn_cons_other {sf : SFile} {live : List Nat} {i id x : Nat} (hx : x ≠ id) :
    LiveIn sf (id :: live) i x ↔ LiveIn sf live i x := by
  unfold LiveIn
  simp [hx]

theorem liveIn_sdel {sf : SFile} {live : List Nat} {i id x : Nat} :
    LiveIn sf (sdel live id) i x ↔ LiveIn sf live i x ∧ x ≠ id := by
  unfold LiveIn
  rw [mem_sdel]
  constructor
  · rintro ⟨⟨h1, h2⟩, h3⟩; exact ⟨⟨h1, h3⟩, h2⟩
  · rintro ⟨⟨h1, h3⟩, h2⟩; exact ⟨⟨h1, h2⟩, h3⟩

/-- the partition after appending one series entry and updating its id set. -/
def appendSeries (sf : SFile) (p : Partition) (isAdd : Bool) (id : Nat) : Partition :=
  let q := p.append sf [if isAdd then Entry.add id else Entry.delSeries id]
  { q with sset := if isAdd then sadd q.sset id else sdel q.sset id }

theorem appendSeries_files (sf : SFile) (p : Partition) (isAdd : Bool) (id : Nat) (a : File)
    (rest : List File) (h : p.files = a :: rest) :
    (appendSeries sf p isAdd id).files =
      { a with entries := a.entries ++ [if isAdd then Entry.add id else Entry.delSeries id],
               data := execSeries sf a.data isAdd id } :: rest := by
  unfold appendSeries
  simp only
  rw [append_files sf p _ a rest h]
  cases isAdd <;> simp [exec]

theorem appendSeries_sset (sf : SFile) (p : Partition) (isAdd : Bool) (id : Nat) :
    (appendSeries sf p isAdd id).sset = if isAdd then sadd p.sset id else sdel p.sset id := by
  unfold appendSeries
  simp only [append_sset]

theorem replay_append (sf : SFile) (es : List Entry) (e : Entry) :
    replay sf (es ++ [e]) = exec sf (replay sf es) e := by
  unfold replay
  simp [List.foldl_append]

/-- clauses that only look at files, for a head file changed by one series entry. -/
theorem pinv_series_files {exc : String → Prop} {sf : SFile} (hok : SFOK sf) {live : List Nat} {i : Nat}
    {p : Partition} (hp : PInvX exc sf live i p) (isAdd : Bool) (id : Nat) (s : SeriesInfo)
    (hf : sf.find id = some s) :
    let p' := appendSeries sf p isAdd id
    (∃ a rest, p'.files = a :: rest ∧ a.isLog = true) ∧
    (∀ f ∈ p'.files, f.isLog = true → f.data = replay sf f.entries) ∧
    (∀ f ∈ p'.files, ∀ e ∈ f.entries, ∀ id, (e = .add id ∨ e = .delSeries id) → (sf.find id).isSome) ∧
    (∀ f ∈ p'.files, NoFlags f.data) ∧ (∀ f ∈ p'.files, Sound sf f.data) := by
  obtain ⟨a, rest, hfiles, halog⟩ := hp.head
  intro p'
  have hfiles' := appendSeries_files sf p isAdd id a rest hfiles
  have ha : a ∈ p.files := by rw [hfiles]; simp
  have hrest : ∀ f ∈ rest, f ∈ p.files := fun f hf' => by rw [hfiles]; exact List.mem_cons_of_mem _ hf'
  refine ⟨⟨_, rest, hfiles', halog⟩, ?_, ?_, ?_, ?_⟩
  · intro f hfm hl
    rw [hfiles'] at hfm
    rcases List.mem_cons.mp hfm with rfl | hfm
    · simp only
      rw [replay_append, ← hp.loginv a ha halog]
      cases isAdd <;> rfl
    · exact hp.loginv f (hrest f hfm) hl
  · intro f hfm e he x hx
    rw [hfiles'] at hfm
    rcases List.mem_cons.mp hfm with rfl | hfm
    · simp only [List.mem_append, List.mem_singleton] at he
      rcases he with he | he
      · exact hp.eknown a ha e he x hx
      · subst he
        have : x = id := by
          cases isAdd
          · simp at hx; exact hx.symm
          · simp at hx; exact hx.symm
        subst this; simp [hf]
    · exact hp.eknown f (hrest f hfm) e he x hx
  · intro f hfm
    rw [hfiles'] at hfm
    rcases List.mem_cons.mp hfm with rfl | hfm
    · exact execSeries_noflags hok (hp.noflags a ha) isAdd id
    · exact hp.noflags f (hrest f hfm)
  · intro f hfm
    rw [hfiles'] at hfm
    rcases List.mem_cons.mp hfm with rfl | hfm
    · exact execSeries_sound hok (hp.sound a ha) isAdd id
    · exact hp.sound f (hrest f hfm)

theorem firstSome_measFlag_head (d d' : FileData) (ds : List FileData) (n : String)
    (h : measFlag n d' = measFlag n d) :
    firstSome (measFlag n) (d' :: ds) = firstSome (measFlag n) (d :: ds) := by
  simp only [firstSome_cons, h]

/-- **creation**: the partition that receives the new series. -/
theorem pinv_create {exc : String → Prop} {sf : SFile} (hok : SFOK sf) {live : List Nat} {i : Nat}
    {p : Partition} (hp : PInvX exc sf live i p) (id : Nat) (s : SeriesInfo)
    (hf : sf.find id = some s) (hpart : s.part = i) (hnl : id ∉ live)
    (hnt : ∀ f ∈ p.files, id ∉ f.data.tomb) :
    PInvX exc sf (id :: live) i (appendSeries sf p true id) := by
  obtain ⟨h1, h2, h3, h4, h5⟩ := pinv_series_files hok hp true id s hf
  obtain ⟨a, rest, hfiles, halog⟩ := hp.head
  have hfiles' := appendSeries_files sf p true id a rest hfiles
  have ha : a ∈ p.files := by rw [hfiles]; simp
  have hrest : ∀ f ∈ rest, f ∈ p.files := fun f hf' => by rw [hfiles]; exact List.mem_cons_of_mem _ hf'
  have hd := hok.nodup s (find_some_mem hf).1
  have hdatas : (appendSeries sf p true id).datas = execSeries sf a.data true id :: rest.map (·.data) := by
    unfold Partition.datas; rw [hfiles']; rfl
  have hdatas0 : p.datas = a.data :: rest.map (·.data) := datas_cons p a rest hfiles
  have hsets := execSeries_sset sf a.data true id s hf
  simp only [if_true] at hsets
  refine { head := h1, loginv := h2, eknown := h3, noflags := h4, sound := h5,
           comp := ?_, notomb := ?_, tknown := ?_, sset := ?_, stat := ?_, mflive := ?_, mfdead := ?_ }
  · -- comp
    intro x t hx ht hpx
    rcases List.mem_cons.mp hx with rfl | hx
    · have := find_inj hf ht; subst this
      refine ⟨_, by rw [hfiles']; exact List.mem_cons_self, ?_, ?_⟩
      · simp only
        rw [execSeries_mem_fileMeasSeries sf a.data true x s hf]; simp
      · intro k v hkv
        simp only
        rw [execSeries_mem_fileValSeries sf a.data true x s hf hd]; simp [hkv]
    · obtain ⟨f, hfm, hm, hv⟩ := hp.comp x t hx ht hpx
      rw [hfiles] at hfm
      rcases List.mem_cons.mp hfm with rfl | hfm
      · refine ⟨_, by rw [hfiles']; exact List.mem_cons_self, ?_, ?_⟩
        · simp only
          rw [execSeries_mem_fileMeasSeries sf f.data true id s hf]
          split
          · simp only [if_true]; exact Or.inr hm
          · exact hm
        · intro k v hkv
          simp only
          rw [execSeries_mem_fileValSeries sf f.data true id s hf hd]
          split
          · simp only [if_true]; exact Or.inr (hv k v hkv)
          · exact hv k v hkv
      · exact ⟨f, by rw [hfiles']; exact List.mem_cons_of_mem _ hfm, hm, hv⟩
  · -- notomb
    intro f hfm x hx
    rw [hfiles'] at hfm
    rcases List.mem_cons.mp hfm with rfl | hfr
    · simp only [hsets.2, mem_sdel]
      rintro ⟨hxt, hne⟩
      rcases List.mem_cons.mp hx with hxe | hxl
      · exact hne hxe
      · exact hp.notomb a ha x hxl hxt
    · rcases List.mem_cons.mp hx with hxe | hxl
      · rw [hxe]; exact hnt f (hrest f hfr)
      · exact hp.notomb f (hrest f hfr) x hxl
  · -- tknown
    intro f hfm x hx
    rw [hfiles'] at hfm
    rcases List.mem_cons.mp hfm with rfl | hfm
    · simp only [hsets.2, mem_sdel] at hx
      exact hp.tknown a ha x hx.1
    · exact hp.tknown f (hrest f hfm) x hx
  · -- sset
    intro x
    rw [appendSeries_sset]
    simp only [if_true, mem_sadd]
    by_cases hx : x = id
    · subst hx
      simp only [true_or, true_iff]
      exact ⟨List.mem_cons_self, s, hf, hpart⟩
    · simp only [hx, false_or]
      rw [liveIn_cons_other hx]
      exact hp.sset x
  · -- stat
    intro x
    rw [hdatas, status_cons, hsets.1, hsets.2]
    by_cases hx : x = id
    · subst hx
      simp only [mem_sadd, true_or, if_true, true_iff]
      exact ⟨List.mem_cons_self, s, hf, hpart⟩
    · rw [liveIn_cons_other hx, ← hp.stat x, hdatas0, status_cons]
      simp only [mem_sadd, mem_sdel, hx, false_or, ne_eq, not_false_eq_true, and_true]
  · -- mflive
    intro x t hx ht hpx
    rw [hdatas]
    by_cases hn : t.name = s.name
    · rw [firstSome_cons, execSeries_measFlag sf a.data true id s hf]; simp [hn]
    · have hx' : x ∈ live := by
        rcases List.mem_cons.mp hx with rfl | hx
        · have := find_inj hf ht; subst this; exact absurd rfl hn
        · exact hx
      have hflag : measFlag t.name (execSeries sf a.data true id) = measFlag t.name a.data := by
        rw [execSeries_measFlag sf a.data true id s hf]; simp [hn]
      rw [firstSome_measFlag_head _ _ _ _ hflag, ← hdatas0]
      exact hp.mflive x t hx' ht hpx
  · -- mfdead
    intro n hn
    by_cases hns : n = s.name
    · exact Or.inl ⟨id, List.mem_cons_self, s, hf, hns.symm⟩
    · have hflag : measFlag n (execSeries sf a.data true id) = measFlag n a.data := by
        rw [execSeries_measFlag sf a.data true id s hf]; simp [hns]
      rw [hdatas, firstSome_measFlag_head _ _ _ _ hflag, ← hdatas0] at hn
      rcases hp.mfdead n hn with ⟨x, hx, t, ht, hname⟩ | hex
      · exact Or.inl ⟨x, List.mem_cons_of_mem _ hx, t, ht, hname⟩
      · exact Or.inr hex

/-- **creation**: the other partitions. -/
theorem pinv_create_other {exc : String → Prop} {sf : SFile} {live : List Nat} {j : Nat}
    {q : Partition} (hq : PInvX exc sf live j q) (id : Nat) (s : SeriesInfo)
    (hf : sf.find id = some s) (hpart : s.part ≠ j) (hnt : ∀ f ∈ q.files, id ∉ f.data.tomb) :
    PInvX exc sf (id :: live) j q := by
  have hlive : ∀ x, LiveIn sf (id :: live) j x ↔ LiveIn sf live j x := by
    intro x
    by_cases hx : x = id
    · subst hx
      unfold LiveIn
      constructor
      · rintro ⟨_, t, ht, hpt⟩
        have := find_inj hf ht; subst this
        exact absurd hpt hpart
      · rintro ⟨_, t, ht, hpt⟩
        have := find_inj hf ht; subst this
        exact absurd hpt hpart
    · exact liveIn_cons_other hx
  exact {
    head := hq.head, loginv := hq.loginv, eknown := hq.eknown, noflags := hq.noflags, sound := hq.sound
    comp := fun x t hx ht hpx => by
      rcases List.mem_cons.mp hx with rfl | hx
      · have := find_inj hf ht; subst this; exact absurd hpx hpart
      · exact hq.comp x t hx ht hpx
    notomb := fun f hfm x hx => by
      rcases List.mem_cons.mp hx with rfl | hx
      · exact hnt f hfm
      · exact hq.notomb f hfm x hx
    tknown := hq.tknown
    sset := fun x => (hq.sset x).trans (hlive x).symm
    stat := fun x => (hq.stat x).trans (hlive x).symm
    mflive := fun x t hx ht hpx => by
      rcases List.mem_cons.mp hx with rfl | hx
      · have := find_inj hf ht; subst this; exact absurd hpx hpart
      · exact hq.mflive x t hx ht hpx
    mfdead := fun n hn => by
      rcases hq.mfdead n hn with ⟨x, hx, t, ht, hname⟩ | hex
      · exact Or.inl ⟨x, List.mem_cons_of_mem _ hx, t, ht, hname⟩
      · exact Or.inr hex }

/-- **series drop** (`Partition.DropSeries`): the partition of the series. Its measurement may
    now be listed without a live series (`exc` grows) until `DropMeasurementIfSeriesNotExist`. -/
theorem pinv_drop {exc : String → Prop} {sf : SFile} (hok : SFOK sf) {live : List Nat} {i : Nat}
    {p : Partition} (hp : PInvX exc sf live i p) (id : Nat) (s : SeriesInfo)
    (hf : sf.find id = some s) :
    PInvX (fun n => exc n ∨ n = s.name) sf (sdel live id) i (appendSeries sf p false id) := by
  obtain ⟨h1, h2, h3, h4, h5⟩ := pinv_series_files hok hp false id s hf
  obtain ⟨a, rest, hfiles, halog⟩ := hp.head
  have hfiles' := appendSeries_files sf p false id a rest hfiles
  have ha : a ∈ p.files := by rw [hfiles]; simp
  have hrest : ∀ f ∈ rest, f ∈ p.files := fun f hf' => by rw [hfiles]; exact List.mem_cons_of_mem _ hf'
  have hd := hok.nodup s (find_some_mem hf).1
  have hdatas : (appendSeries sf p false id).datas = execSeries sf a.data false id :: rest.map (·.data) := by
    unfold Partition.datas; rw [hfiles']; rfl
  have hdatas0 : p.datas = a.data :: rest.map (·.data) := datas_cons p a rest hfiles
  have hsets := execSeries_sset sf a.data false id s hf
  simp only [Bool.false_eq_true, if_false] at hsets
  refine { head := h1, loginv := h2, eknown := h3, noflags := h4, sound := h5,
           comp := ?_, notomb := ?_, tknown := ?_, sset := ?_, stat := ?_, mflive := ?_, mfdead := ?_ }
  · -- comp
    intro x t hx ht hpx
    obtain ⟨hxl, hxne⟩ := (mem_sdel live id x).mp hx
    obtain ⟨f, hfm, hm, hv⟩ := hp.comp x t hxl ht hpx
    rw [hfiles] at hfm
    rcases List.mem_cons.mp hfm with rfl | hfm
    · refine ⟨_, by rw [hfiles']; exact List.mem_cons_self, ?_, ?_⟩
      · simp only
        rw [execSeries_mem_fileMeasSeries sf f.data false id s hf]
        split
        · simp only [Bool.false_eq_true, if_false]; exact ⟨hm, hxne⟩
        · exact hm
      · intro k v hkv
        simp only
        rw [execSeries_mem_fileValSeries sf f.data false id s hf hd]
        split
        · simp only [Bool.false_eq_true, if_false]; exact ⟨hv k v hkv, hxne⟩
        · exact hv k v hkv
    · exact ⟨f, by rw [hfiles']; exact List.mem_cons_of_mem _ hfm, hm, hv⟩
  · -- notomb
    intro f hfm x hx
    obtain ⟨hxl, hxne⟩ := (mem_sdel live id x).mp hx
    rw [hfiles'] at hfm
    rcases List.mem_cons.mp hfm with rfl | hfm
    · simp only [hsets.2, mem_sadd]
      rintro (h | h)
      · exact hxne h
      · exact hp.notomb a ha x hxl h
    · exact hp.notomb f (hrest f hfm) x hxl
  · -- tknown
    intro f hfm x hx
    rw [hfiles'] at hfm
    rcases List.mem_cons.mp hfm with rfl | hfm
    · simp only [hsets.2, mem_sadd] at hx
      rcases hx with rfl | hx
      · simp [hf]
      · exact hp.tknown a ha x hx
    · exact hp.tknown f (hrest f hfm) x hx
  · -- sset
    intro x
    rw [appendSeries_sset]
    simp only [Bool.false_eq_true, if_false, mem_sdel, liveIn_sdel, hp.sset x]
  · -- stat
    intro x
    rw [hdatas, status_cons, hsets.1, hsets.2, liveIn_sdel]
    by_cases hx : x = id
    · subst hx
      simp [mem_sdel, mem_sadd]
    · rw [← hp.stat x, hdatas0, status_cons]
      simp only [mem_sadd, mem_sdel, hx, false_or, ne_eq, not_false_eq_true, and_true]
  · -- mflive
    intro x t hx ht hpx
    obtain ⟨hxl, _⟩ := (mem_sdel live id x).mp hx
    rw [hdatas]
    by_cases hn : t.name = s.name
    · rw [firstSome_cons, execSeries_measFlag sf a.data false id s hf]; simp [hn]
    · have hflag : measFlag t.name (execSeries sf a.data false id) = measFlag t.name a.data := by
        rw [execSeries_measFlag sf a.data false id s hf]; simp [hn]
      rw [firstSome_measFlag_head _ _ _ _ hflag, ← hdatas0]
      exact hp.mflive x t hxl ht hpx
  · -- mfdead
    intro n hn
    by_cases hns : n = s.name
    · exact Or.inr (Or.inr hns)
    · have hflag : measFlag n (execSeries sf a.data false id) = measFlag n a.data := by
        rw [execSeries_measFlag sf a.data false id s hf]; simp [hns]
      rw [hdatas, firstSome_measFlag_head _ _ _ _ hflag, ← hdatas0] at hn
      rcases hp.mfdead n hn with ⟨x, hx, t, ht, hname⟩ | hex
      · refine Or.inl ⟨x, (mem_sdel live id x).mpr ⟨hx, ?_⟩, t, ht, hname⟩
        rintro rfl
        have := find_inj hf ht; subst this
        exact hns hname.symm
      · exact Or.inr (Or.inl hex)

/-- **series drop**: the other partitions. -/
theorem pinv_drop_other {exc : String → Prop} {sf : SFile} {live : List Nat} {j : Nat}
    {q : Partition} (hq : PInvX exc sf live j q) (id : Nat) (s : SeriesInfo)
    (hf : sf.find id = some s) (hpart : s.part ≠ j) :
    PInvX (fun n => exc n ∨ n = s.name) sf (sdel live id) j q := by
  have hlive : ∀ x, LiveIn sf (sdel live id) j x ↔ LiveIn sf live j x := by
    intro x
    rw [liveIn_sdel]
    constructor
    · exact fun h => h.1
    · intro h
      refine ⟨h, ?_⟩
      rintro rfl
      obtain ⟨_, t, ht, hpt⟩ := h
      have := find_inj hf ht; subst this
      exact hpart hpt
  exact {
    head := hq.head, loginv := hq.loginv, eknown := hq.eknown, noflags := hq.noflags, sound := hq.sound
    comp := fun x t hx ht hpx => hq.comp x t ((mem_sdel live id x).mp hx).1 ht hpx
    notomb := fun f hfm x hx => hq.notomb f hfm x ((mem_sdel live id x).mp hx).1
    tknown := hq.tknown
    sset := fun x => (hq.sset x).trans (hlive x).symm
    stat := fun x => (hq.stat x).trans (hlive x).symm
    mflive := fun x t hx ht hpx => hq.mflive x t ((mem_sdel live id x).mp hx).1 ht hpx
    mfdead := fun n hn => by
      rcases hq.mfdead n hn with ⟨x, hx, t, ht, hname⟩ | hex
      · by_cases hxid : x = id
        · subst hxid
          have := find_inj hf ht; subst this
          exact Or.inr (Or.inr hname.symm)
        · exact Or.inl ⟨x, (mem_sdel live id x).mpr ⟨hx, hxid⟩, t, ht, hname⟩
      · exact Or.inr (Or.inl hex) }

end Influx.Model.TSI
