/-
  Lemmas.C36RadixIns — `Insert` on the radix tree adds exactly the new pair (never updates).
-/
import Influx.Lemmas.C36Radix

namespace Influx.Radix

theorem splitCommon_spec : ∀ (a b : Key), a = (splitCommon a b).1 ++ (splitCommon a b).2.1 ∧
    b = (splitCommon a b).1 ++ (splitCommon a b).2.2 ∧
    (∀ x xs y ys, (splitCommon a b).2.1 = x :: xs → (splitCommon a b).2.2 = y :: ys → x ≠ y)
  | [], b => by simp [splitCommon]
  | _ :: _, [] => by simp [splitCommon]
  | x :: xs, y :: ys => by
    by_cases h : x = y
    · subst h
      obtain ⟨h1, h2, h3⟩ := splitCommon_spec xs ys
      simp only [splitCommon, if_true]
      refine ⟨by simpa using h1, by simpa using h2, h3⟩
    · simp only [splitCommon, h, if_false]
      refine ⟨by simp, by simp, ?_⟩
      intro a as b bs h1 h2
      simp at h1 h2
      rw [← h1.1, ← h2.1]; exact h

theorem splitCommon_head (c : Nat) (as bs : Key) : ∃ t, (splitCommon (c :: as) (c :: bs)).1 = c :: t := by
  simp [splitCommon]

theorem Edges.labels_add (l : Nat) (n : Node) : ∀ (es : Edges), ∀ x, x ∈ Edges.labels (Edges.add l n es) ↔ x = l ∨ x ∈ Edges.labels es
  | .nil, x => by simp [Edges.add, Edges.labels]
  | .cons l' n' r, x => by
    simp only [Edges.add]
    split
    · simp only [Edges.labels, List.mem_cons, Edges.labels_add l n r x]
      constructor
      · rintro (h | h | h) <;> simp [h]
      · rintro (h | h | h) <;> simp [h]
    · simp [Edges.labels]

theorem mem_rel_mk (leaf : Option Leaf) (pre : Key) (edges : Edges) (p : KV) :
    p ∈ Node.rel (.mk leaf pre edges) ↔ (∃ l, leaf = some l ∧ p = ([], l.val)) ∨ p ∈ Edges.rel edges := by
  cases leaf with
  | none => simp [Node.rel]
  | some l => simp [Node.rel]

theorem mem_rel_nil (p : KV) : ¬ p ∈ Edges.rel .nil := by simp [Edges.rel]

theorem mem_rel_cons (l : Nat) (c : Node) (r : Edges) (p : KV) :
    p ∈ Edges.rel (.cons l c r) ↔ (∃ q ∈ Node.rel c, p = (c.pre ++ q.1, q.2)) ∨ p ∈ Edges.rel r := by
  simp only [Edges.rel, List.mem_append, List.mem_map]
  constructor
  · rintro (⟨q, hq, rfl⟩ | h)
    · exact Or.inl ⟨q, hq, rfl⟩
    · exact Or.inr h
  · rintro (⟨q, hq, rfl⟩ | h)
    · exact Or.inl ⟨q, hq, rfl⟩
    · exact Or.inr h

theorem Edges.rel_add (l : Nat) (n : Node) : ∀ (es : Edges), ∀ p, p ∈ Edges.rel (Edges.add l n es) ↔
    (∃ q ∈ Node.rel n, p = (n.pre ++ q.1, q.2)) ∨ p ∈ Edges.rel es
  | .nil, p => by
    simp only [Edges.add]; rw [mem_rel_cons]
  | .cons l' n' r, p => by
    simp only [Edges.add]
    split
    · rw [mem_rel_cons, mem_rel_cons, Edges.rel_add l n r p]
      constructor
      · rintro (h | h | h)
        · exact Or.inr (Or.inl h)
        · exact Or.inl h
        · exact Or.inr (Or.inr h)
      · rintro (h | h | h)
        · exact Or.inr (Or.inl h)
        · exact Or.inl h
        · exact Or.inr (Or.inr h)
    · rw [mem_rel_cons]

theorem mem_rel_leafNode (s : Key) (v : Int) (pre : Key) (p : KV) :
    p ∈ Node.rel (.mk (some ⟨s, v⟩) pre .nil) ↔ p = ([], v) := by
  rw [mem_rel_mk]
  constructor
  · rintro (⟨l, hl, rfl⟩ | h)
    · cases hl; rfl
    · exact absurd h (mem_rel_nil p)
  · rintro rfl; exact Or.inl ⟨⟨s, v⟩, rfl, rfl⟩

theorem Edges.SW_add (l : Nat) (n : Node) (hn : Node.SW n) (hp : ∃ t, n.pre = l :: t) :
    ∀ (es : Edges), Edges.SW es → l ∉ Edges.labels es → Edges.SW (Edges.add l n es)
  | .nil, _, _ => by simp [Edges.add, Edges.SW, hn, hp, Edges.labels]
  | .cons l' n' r, hsw, hnot => by
    obtain ⟨h1, h2, h3, h4⟩ := hsw
    simp only [Edges.add]
    split
    · next hlt =>
      refine ⟨h1, h2, Edges.SW_add l n hn hp r h3 (fun h => hnot (by simp [Edges.labels, h])), ?_⟩
      intro x hx
      rcases (Edges.labels_add l n r x).mp hx with rfl | hx
      · exact hlt
      · exact h4 x hx
    · next hge =>
      have hne : l ≠ l' := fun h => hnot (by simp [Edges.labels, h])
      refine ⟨hp, hn, ⟨h1, h2, h3, h4⟩, ?_⟩
      intro x hx
      simp only [Edges.labels, List.mem_cons] at hx
      rcases hx with rfl | hx
      · omega
      · have := h4 x hx; omega

/-- a fresh leaf node -/
theorem leafNode_SW (s : Key) (v : Int) (pre : Key) : Node.SW (.mk (some ⟨s, v⟩) pre .nil) := by
  simp [Node.SW, Edges.SW]

theorem leafNode_rel (s : Key) (v : Int) (pre : Key) : Node.rel (.mk (some ⟨s, v⟩) pre .nil) = [([], v)] := by
  simp [Node.rel, Edges.rel]

/-- keys below an edge list that start with a label absent from it do not exist -/
theorem Edges.lookup_absent (es : Edges) (hsw : Edges.SW es) (c : Nat) (rest : Key)
    (hc : c ∉ Edges.labels es) : lookup (c :: rest) (Edges.rel es) = none := by
  apply lookup_none_of_not_mem
  intro p hp hk
  obtain ⟨l, hl, t, ht⟩ := Edges.rel_head es hsw p hp
  rw [hk] at ht
  simp at ht
  exact hc (ht.1 ▸ hl)

/-- the node `Insert` builds when the search key leaves a child's prefix: it covers the old
    child and the new leaf -/
def splitNode (child : Node) (common restS : Key) (y : Nat) (ys : Key) (s : Key) (v : Int) : Node :=
  let old := Node.mk child.leaf (y :: ys) child.edges
  match restS with
  | [] => Node.mk (some ⟨s, v⟩) common (Edges.add y old .nil)
  | x :: xs =>
    Node.mk none common (Edges.add x (.mk (some ⟨s, v⟩) (x :: xs) .nil) (Edges.add y old .nil))

theorem Node.pre_mk (leaf : Option Leaf) (pre : Key) (edges : Edges) : (Node.mk leaf pre edges).pre = pre := rfl

theorem splitNode_spec (child : Node) (common restS : Key) (y : Nat) (ys : Key) (s : Key) (v : Int)
    (hc : Node.SW child) (hpre : child.pre = common ++ y :: ys)
    (hne : ∀ x xs, restS = x :: xs → x ≠ y) :
    Node.SW (splitNode child common restS y ys s v) ∧
    (splitNode child common restS y ys s v).pre = common ∧
    ∀ p, (∃ q ∈ Node.rel (splitNode child common restS y ys s v), p = (common ++ q.1, q.2)) ↔
      (∃ q ∈ Node.rel child, p = (child.pre ++ q.1, q.2)) ∨ p = (common ++ restS, v) := by
  have hold : Node.SW (.mk child.leaf (y :: ys) child.edges) := by
    cases child; simpa [Node.SW, Node.leaf, Node.edges] using hc
  have hrelold : Node.rel (.mk child.leaf (y :: ys) child.edges) = Node.rel child := by
    cases child; simp [Node.rel, Node.leaf, Node.edges]
  have hpreold : (Node.mk child.leaf (y :: ys) child.edges).pre = y :: ys := rfl
  unfold splitNode
  simp only
  generalize Node.mk child.leaf (y :: ys) child.edges = old at hold hrelold hpreold ⊢
  have hswold : Edges.SW (Edges.add y old .nil) :=
    Edges.SW_add y _ hold ⟨ys, hpreold⟩ .nil trivial (by simp [Edges.labels])
  have hrelE : ∀ p, p ∈ Edges.rel (Edges.add y old .nil) ↔ ∃ q ∈ Node.rel child, p = (y :: ys ++ q.1, q.2) := by
    intro p
    rw [Edges.rel_add, hrelold, hpreold]
    constructor
    · rintro (h | h)
      · exact h
      · exact absurd h (mem_rel_nil p)
    · exact Or.inl
  cases restS with
  | nil =>
    refine ⟨by simpa [Node.SW] using hswold, rfl, ?_⟩
    intro p
    constructor
    · rintro ⟨q, hq, rfl⟩
      rcases (mem_rel_mk _ _ _ q).mp hq with ⟨l, hl, rfl⟩ | hq
      · cases hl; exact Or.inr rfl
      · obtain ⟨q', hq', rfl⟩ := (hrelE q).mp hq
        exact Or.inl ⟨q', hq', by simp [hpre, List.append_assoc]⟩
    · rintro (⟨q, hq, rfl⟩ | rfl)
      · exact ⟨(y :: ys ++ q.1, q.2), (mem_rel_mk _ _ _ _).mpr (Or.inr ((hrelE _).mpr ⟨q, hq, rfl⟩)),
          by simp [hpre, List.append_assoc]⟩
      · exact ⟨([], v), (mem_rel_mk _ _ _ _).mpr (Or.inl ⟨⟨s, v⟩, rfl, rfl⟩), rfl⟩
  | cons x xs =>
    have hxy : x ≠ y := hne x xs rfl
    refine ⟨?_, rfl, ?_⟩
    · simp only [Node.SW]
      apply Edges.SW_add x _ (leafNode_SW _ _ _) ⟨xs, rfl⟩ _ hswold
      simp [Edges.add, Edges.labels, hxy]
    · intro p
      constructor
      · rintro ⟨q, hq, rfl⟩
        rcases (mem_rel_mk _ _ _ q).mp hq with ⟨l, hl, _⟩ | hq
        · cases hl
        · rcases (Edges.rel_add _ _ _ q).mp hq with ⟨q', hq', rfl⟩ | hq
          · have := (mem_rel_leafNode s v (x :: xs) q').mp hq'
            subst this
            exact Or.inr (by simp [Node.pre_mk])
          · obtain ⟨q', hq', rfl⟩ := (hrelE q).mp hq
            exact Or.inl ⟨q', hq', by simp [hpre, List.append_assoc]⟩
      · rintro (⟨q, hq, rfl⟩ | rfl)
        · exact ⟨(y :: ys ++ q.1, q.2),
            (mem_rel_mk _ _ _ _).mpr (Or.inr ((Edges.rel_add _ _ _ _).mpr (Or.inr ((hrelE _).mpr ⟨q, hq, rfl⟩)))),
            by simp [hpre, List.append_assoc]⟩
        · exact ⟨(x :: xs, v),
            (mem_rel_mk _ _ _ _).mpr (Or.inr ((Edges.rel_add _ _ _ _).mpr
              (Or.inl ⟨([], v), (mem_rel_leafNode s v (x :: xs) _).mpr rfl, by simp [Node.pre_mk]⟩))),
            rfl⟩

theorem insertAt_split (l : Nat) (child : Node) (r : Edges) (search s : Key) (v : Int)
    (common restS : Key) (y : Nat) (ys : Key) (hsc : splitCommon search child.pre = (common, restS, y :: ys)) :
    Edges.insertAt (.cons l child r) l search s v =
      some (.cons l (splitNode child common restS y ys s v) r, ⟨v, true⟩) := by
  simp only [Edges.insertAt, if_true, hsc, splitNode]
  cases restS <;> rfl

theorem lookup_map_prefix (pre k : Key) (lst : List KV) :
    lookup (pre ++ k) (lst.map fun p => (pre ++ p.1, p.2)) = lookup k lst := by
  induction lst with
  | nil => rfl
  | cons q qs ih =>
    simp only [List.map_cons, lookup_cons, ih]
    by_cases hq : q.1 = k
    · simp [hq]
    · have : ¬ pre ++ q.1 = pre ++ k := fun h => hq (List.append_cancel_left h)
      simp [hq, this]

/-- `Insert` never changes the prefix of the node it is applied to -/
theorem Node.insert_spec_pre (n : Node) (search s : Key) (v : Int) : (Node.insert n search s v).1.pre = n.pre := by
  cases n with
  | mk leaf pre edges =>
    cases search with
    | nil => cases leaf <;> rfl
    | cons c rest =>
      simp only [Node.insert]
      cases Edges.insertAt edges c (c :: rest) s v with
      | none => rfl
      | some r => rfl

mutual
theorem Node.insert_spec : ∀ (n : Node) (search s : Key) (v : Int), Node.SW n →
    Node.SW (Node.insert n search s v).1 ∧ (Node.insert n search s v).1.pre = n.pre ∧
    (∀ old, lookup search (Node.rel n) = some old →
      Node.insert n search s v = (n, ⟨old, false⟩)) ∧
    (lookup search (Node.rel n) = none →
      (Node.insert n search s v).2 = ⟨v, true⟩ ∧
      ∀ p, p ∈ Node.rel (Node.insert n search s v).1 ↔ p ∈ Node.rel n ∨ p = (search, v))
  | .mk leaf pre edges, search, s, v, hsw => by
    cases search with
    | nil =>
      cases leaf with
      | some l =>
        refine ⟨hsw, rfl, ?_, ?_⟩
        · intro old ho
          simp [Node.rel, lookup_cons] at ho
          simp [Node.insert, ho]
        · intro hn; simp [Node.rel, lookup_cons] at hn
      | none =>
        refine ⟨hsw, rfl, ?_, ?_⟩
        · intro old ho
          have : lookup [] (Node.rel (.mk none pre edges)) = none := by
            simp only [Node.rel, List.nil_append]
            apply lookup_none_of_not_mem
            intro p hp hk
            obtain ⟨_, _, t, ht⟩ := Edges.rel_head edges hsw p hp
            rw [hk] at ht; cases ht
          rw [this] at ho; cases ho
        · intro _
          refine ⟨rfl, ?_⟩
          intro p
          show p ∈ Node.rel (.mk (some ⟨s, v⟩) pre edges) ↔ _
          rw [mem_rel_mk, mem_rel_mk]
          constructor
          · rintro (⟨l, hl, rfl⟩ | h)
            · cases hl; exact Or.inr rfl
            · exact Or.inl (Or.inr h)
          · rintro ((⟨l, hl, _⟩ | h) | rfl)
            · cases hl
            · exact Or.inr h
            · exact Or.inl ⟨⟨s, v⟩, rfl, rfl⟩
    | cons c rest =>
      have hE := Edges.insertAt_spec edges c rest s v hsw
      have hleaf : lookup (c :: rest) (Node.rel (.mk leaf pre edges)) = lookup (c :: rest) (Edges.rel edges) := by
        cases leaf with
        | some l => simp [Node.rel, lookup_cons]
        | none => simp [Node.rel]
      rw [hleaf]
      cases hi : Edges.insertAt edges c (c :: rest) s v with
      | none =>
        rw [hi] at hE
        have hnew : Node.SW (.mk (some ⟨s, v⟩) (c :: rest) .nil) := leafNode_SW _ _ _
        have hlk := Edges.lookup_absent edges hsw c rest hE
        refine ⟨?_, by simp [Node.insert, hi, Node.pre], ?_, ?_⟩
        · simp only [Node.insert, hi, Node.SW]
          exact Edges.SW_add c _ hnew ⟨rest, rfl⟩ edges hsw hE
        · intro old ho; rw [hlk] at ho; cases ho
        · intro _
          refine ⟨by simp [Node.insert, hi], ?_⟩
          intro p
          have hins : (Node.insert (.mk leaf pre edges) (c :: rest) s v).1 =
              .mk leaf pre (Edges.add c (.mk (some ⟨s, v⟩) (c :: rest) .nil) edges) := by
            simp [Node.insert, hi]
          rw [hins, mem_rel_mk, mem_rel_mk, Edges.rel_add]
          constructor
          · rintro (h | ⟨q, hq, rfl⟩ | h)
            · exact Or.inl (Or.inl h)
            · have := (mem_rel_leafNode s v (c :: rest) q).mp hq
              subst this
              exact Or.inr (by simp [Node.pre_mk])
            · exact Or.inl (Or.inr h)
          · rintro ((h | h) | rfl)
            · exact Or.inl h
            · exact Or.inr (Or.inr h)
            · exact Or.inr (Or.inl ⟨([], v), (mem_rel_leafNode s v (c :: rest) _).mpr rfl, by simp [Node.pre_mk]⟩)
      | some r =>
        obtain ⟨edges', res⟩ := r
        rw [hi] at hE
        obtain ⟨hsw', _, hold, hnew⟩ := hE
        refine ⟨by simpa [Node.insert, hi, Node.SW] using hsw', by simp [Node.insert, hi, Node.pre], ?_, ?_⟩
        · intro old ho
          obtain ⟨h1, h2⟩ := hold old ho
          simp [Node.insert, hi, h1, h2]
        · intro hn
          obtain ⟨h1, h2⟩ := hnew hn
          refine ⟨by simp [Node.insert, hi, h1], ?_⟩
          intro p
          have hins : (Node.insert (.mk leaf pre edges) (c :: rest) s v).1 = .mk leaf pre edges' := by
            simp [Node.insert, hi]
          rw [hins, mem_rel_mk, mem_rel_mk, h2 p]
          constructor
          · rintro (h | h | h)
            · exact Or.inl (Or.inl h)
            · exact Or.inl (Or.inr h)
            · exact Or.inr h
          · rintro ((h | h) | h)
            · exact Or.inl h
            · exact Or.inr (Or.inl h)
            · exact Or.inr (Or.inr h)
theorem Edges.insertAt_spec : ∀ (es : Edges) (c : Nat) (rest s : Key) (v : Int), Edges.SW es →
    match Edges.insertAt es c (c :: rest) s v with
    | none => c ∉ Edges.labels es
    | some (es', res) =>
      Edges.SW es' ∧ Edges.labels es' = Edges.labels es ∧
      (∀ old, lookup (c :: rest) (Edges.rel es) = some old → es' = es ∧ res = ⟨old, false⟩) ∧
      (lookup (c :: rest) (Edges.rel es) = none →
        res = ⟨v, true⟩ ∧ ∀ p, p ∈ Edges.rel es' ↔ p ∈ Edges.rel es ∨ p = (c :: rest, v))
  | .nil, c, rest, s, v, _ => by simp [Edges.insertAt, Edges.labels]
  | .cons l child r, c, rest, s, v, hsw => by
    obtain ⟨⟨t, ht⟩, hc, hr, hlt⟩ := hsw
    by_cases hlc : l = c
    · subst hlc
      have hrest : lookup (l :: rest) (Edges.rel r) = none :=
        Edges.lookup_absent r hr l rest (fun h => by have := hlt l h; omega)
      obtain ⟨hs1, hs2, hs3⟩ := splitCommon_spec (l :: rest) child.pre
      cases hsc : splitCommon (l :: rest) child.pre with
      | mk common rr =>
        obtain ⟨restS, restP⟩ := rr
        rw [hsc] at hs1 hs2 hs3
        simp only at hs1 hs2 hs3
        cases restP with
        | nil =>
          -- the whole prefix of the child matches: descend
          have hpre : child.pre = common := by simpa using hs2
          have hsearch : l :: rest = child.pre ++ restS := by rw [hpre]; exact hs1
          obtain ⟨i1, i2, i3, i4⟩ := Node.insert_spec child restS s v hc
          have hlkall : lookup (l :: rest) (Edges.rel (.cons l child r)) = lookup restS (Node.rel child) := by
            simp only [Edges.rel, lookup_append, hrest]
            rw [hsearch, lookup_map_prefix]
            cases lookup restS (Node.rel child) <;> rfl
          have hins : Edges.insertAt (.cons l child r) l (l :: rest) s v =
              some (.cons l (Node.insert child restS s v).1 r, (Node.insert child restS s v).2) := by
            simp only [Edges.insertAt, if_true, hsc]
          rw [hins, hlkall]
          refine ⟨⟨⟨t, by rw [i2]; exact ht⟩, i1, hr, hlt⟩, rfl, ?_, ?_⟩
          · intro old ho
            have := i3 old ho
            simp [this]
          · intro hn
            obtain ⟨j1, j2⟩ := i4 hn
            refine ⟨j1, ?_⟩
            intro p
            rw [mem_rel_cons, mem_rel_cons, i2]
            constructor
            · rintro (⟨q, hq, rfl⟩ | h)
              · rcases (j2 q).mp hq with h | h
                · exact Or.inl (Or.inl ⟨q, h, rfl⟩)
                · right; rw [h, hsearch]
              · exact Or.inl (Or.inr h)
            · rintro ((⟨q, hq, rfl⟩ | h) | h)
              · exact Or.inl ⟨q, (j2 q).mpr (Or.inl hq), rfl⟩
              · exact Or.inr h
              · left; exact ⟨(restS, v), (j2 _).mpr (Or.inr rfl), by rw [h, hsearch]⟩
        | cons y ys =>
          -- the search key leaves the child's prefix: split the node
          obtain ⟨t', ht'⟩ : ∃ t', common = l :: t' := by
            have := splitCommon_head l rest t
            rw [← ht, hsc] at this
            exact this
          have hne : ∀ x xs, restS = x :: xs → x ≠ y := fun x xs h => hs3 x xs y ys h rfl
          obtain ⟨k1, k2, k3⟩ := splitNode_spec child common restS y ys s v hc hs2 hne
          -- no key below this edge list equals the search key
          have hlknone : lookup (l :: rest) (Edges.rel (.cons l child r)) = none := by
            simp only [Edges.rel, lookup_append, hrest]
            have : lookup (l :: rest) ((Node.rel child).map fun p => (child.pre ++ p.1, p.2)) = none := by
              apply lookup_none_of_not_mem
              intro p hp hk
              obtain ⟨q, _, rfl⟩ := List.mem_map.mp hp
              simp only at hk
              rw [hs1, hs2, List.append_assoc] at hk
              have hk' := List.append_cancel_left hk
              cases restS with
              | nil => simp at hk'
              | cons x xs =>
                simp at hk'
                exact hne x xs rfl hk'.1.symm
            rw [this]
          rw [insertAt_split l child r (l :: rest) s v common restS y ys hsc, hlknone]
          refine ⟨⟨⟨t', by rw [k2, ht']⟩, k1, hr, hlt⟩, rfl, ?_, ?_⟩
          · intro old ho; cases ho
          · intro _
            refine ⟨rfl, ?_⟩
            intro p
            rw [mem_rel_cons, mem_rel_cons, k2, k3 p, hs1]
            constructor
            · rintro ((h | h) | h)
              · exact Or.inl (Or.inl h)
              · exact Or.inr h
              · exact Or.inl (Or.inr h)
            · rintro ((h | h) | h)
              · exact Or.inl (Or.inl h)
              · exact Or.inr h
              · exact Or.inl (Or.inr h)
    · -- another label: look further
      have hhere : lookup (c :: rest) ((Node.rel child).map fun p => (child.pre ++ p.1, p.2)) = none := by
        apply lookup_none_of_not_mem
        intro p hp hk
        obtain ⟨q, _, rfl⟩ := List.mem_map.mp hp
        simp only [ht, List.cons_append] at hk
        exact hlc (by injection hk)
      have hlk : lookup (c :: rest) (Edges.rel (.cons l child r)) = lookup (c :: rest) (Edges.rel r) := by
        simp only [Edges.rel, lookup_append, hhere]
      have ih := Edges.insertAt_spec r c rest s v hr
      cases hi : Edges.insertAt r c (c :: rest) s v with
      | none =>
        rw [hi] at ih
        have : Edges.insertAt (.cons l child r) c (c :: rest) s v = none := by
          simp only [Edges.insertAt, hlc, if_false, hi]
        rw [this]
        simp only [Edges.labels, List.mem_cons, not_or]
        exact ⟨fun h => hlc h.symm, ih⟩
      | some rr =>
        obtain ⟨r', res⟩ := rr
        rw [hi] at ih
        obtain ⟨hsw', hlab, hold, hnew⟩ := ih
        have : Edges.insertAt (.cons l child r) c (c :: rest) s v = some (.cons l child r', res) := by
          simp only [Edges.insertAt, hlc, if_false, hi]
        rw [this, hlk]
        refine ⟨⟨⟨t, ht⟩, hc, hsw', by rw [hlab]; exact hlt⟩, by simp [Edges.labels, hlab], ?_, ?_⟩
        · intro old ho
          obtain ⟨h1, h2⟩ := hold old ho
          exact ⟨by rw [h1], h2⟩
        · intro hn
          obtain ⟨h1, h2⟩ := hnew hn
          refine ⟨h1, ?_⟩
          intro p
          rw [mem_rel_cons, mem_rel_cons, h2 p]
          constructor
          · rintro (h | h | h)
            · exact Or.inl (Or.inl h)
            · exact Or.inl (Or.inr h)
            · exact Or.inr h
          · rintro ((h | h) | h)
            · exact Or.inl h
            · exact Or.inr (Or.inl h)
            · exact Or.inr (Or.inr h)
end

end Influx.Radix
