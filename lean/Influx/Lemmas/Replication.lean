/-
  Lemmas.Replication — facts about the C27 model (`Influx.Model.Replication`)
  and their relation to the documented rules of `Influx.Spec.C27`.
-/
import Influx.Model.Replication
import Influx.Spec.C27
namespace Influx.Repl
open Influx.Spec.C27 Influx.Generated.Replication

theorem backoff_eq_doc (n : Nat) : (backoff n : Int) = docBackoff n := by
  unfold backoff docBackoff maximumAttempts maximumBackoffTime
  by_cases h : n > 10
  · simp [h]
  · rw [if_neg h, if_neg h]
    cases n with
    | zero => simp
    | succ m =>
      rw [if_neg (by omega)]
      have : 2 ^ (m + 1) = 2 ^ m * 2 := Nat.pow_succ 2 m
      simp only [Nat.add_sub_cancel, this]
      congr 1
      omega

theorem writeDecision_ok_iff (drop : Bool) (a : Nat) (r : Resp) :
    writeDecision drop a r = .ok ↔ releases drop r = true := by
  unfold writeDecision releases
  by_cases hk : r.kind = 0 <;> by_cases h204 : r.status = 204 <;> by_cases h400 : r.status = 400 <;>
    by_cases h429 : r.status = 429 <;> cases drop <;> simp_all

/-- the scan loop: what is posted is a prefix of the entries offered, followed (on
    failure) by nothing else; all posted entries but a failing last one were released -/
theorem sendLoop_spec (drop : Bool) :
    ∀ (es : List Bytes) (script : List Resp) (failed : Nat) (posted : List Bytes),
      let res := sendLoop drop es script failed posted
      ∃ m, m ≤ es.length ∧ res.1 = posted ++ es.take m ∧
        (res.2.2 = none → m = es.length ∧
            ∀ k, k < m → releases drop (script.getD k { kind := 0, status := 204 }) = true) ∧
        (∀ w, res.2.2 = some w → m ≥ 1 ∧
            (∀ k, k < m - 1 → releases drop (script.getD k { kind := 0, status := 204 }) = true) ∧
            releases drop (script.getD (m - 1) { kind := 0, status := 204 }) = false) := by
  intro es
  induction es with
  | nil =>
    intro script failed posted
    exact ⟨0, by simp, by simp [sendLoop], by simp [sendLoop], by simp [sendLoop]⟩
  | cons e es ih =>
    intro script failed posted
    simp only [sendLoop]
    have hhd : script.headD { kind := 0, status := 204 } = script.getD 0 { kind := 0, status := 204 } := by
      cases script <;> rfl
    cases hd : writeDecision drop failed (script.headD { kind := 0, status := 204 }) with
    | ok =>
      simp only []
      obtain ⟨m, hm, hpost, hnone, hsome⟩ := ih script.tail 0 (posted ++ [e])
      have hrel : releases drop (script.getD 0 { kind := 0, status := 204 }) = true := by
        rw [← hhd]; exact (writeDecision_ok_iff _ _ _).mp hd
      have hget : ∀ k, script.getD (k + 1) { kind := 0, status := 204 }
          = script.tail.getD k { kind := 0, status := 204 } := by
        intro k; cases script <;> simp [List.getD]
      refine ⟨m + 1, by simp; omega, by rw [hpost]; simp, ?_, ?_⟩
      · intro h
        obtain ⟨h1, h2⟩ := hnone h
        refine ⟨by simp; omega, ?_⟩
        intro k hk
        cases k with
        | zero => exact hrel
        | succ k => rw [hget]; exact h2 k (by omega)
      · intro w h
        obtain ⟨h1, h2, h3⟩ := hsome w h
        refine ⟨by omega, ?_, ?_⟩
        · intro k hk
          cases k with
          | zero => exact hrel
          | succ k => rw [hget]; exact h2 k (by omega)
        · have : m + 1 - 1 = (m - 1) + 1 := by omega
          rw [this, hget]; exact h3
    | fail w =>
      simp only []
      refine ⟨1, by simp, by simp, by simp, ?_⟩
      intro w' _
      refine ⟨by omega, by intro k hk; omega, ?_⟩
      simp only [Nat.sub_self]
      rw [← hhd]
      cases hr : releases drop (script.headD { kind := 0, status := 204 }) with
      | false => rfl
      | true => rw [(writeDecision_ok_iff _ failed _).mpr hr] at hd; cases hd

end Influx.Repl
