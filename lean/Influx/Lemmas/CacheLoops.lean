/-
  Lemmas.CacheLoops — the per-key loops of `WriteMulti` and `DeleteRange` against
  the statement checker's `storeBatch` / `deleteKeys`, with the size arithmetic.
-/
import Influx.Lemmas.CacheHeld

namespace Influx.Cache
open Influx.Spec.C09

/-- every key of the batch comes with at least one value, every value has a type -/
def ValidBatch (b : List (Key × List Value)) : Prop := ∀ kv ∈ b, kv.2 ≠ [] ∧ ∀ v ∈ kv.2, v.ty ≠ 0

def keyBytes (b : List (Key × List Value)) : Nat := (b.map fun kv => kv.1.length).sum

theorem W_pos : 0 < W := by decide

theorem add64_eq {a b : Nat} (h : a + b < W) : add64 a b = a + b := by
  unfold add64; exact Nat.mod_eq_of_lt h

theorem sub64_eq {a b : Nat} (hb : b ≤ a) (ha : a < W) : sub64 a b = a - b := by
  unfold sub64
  have hbW : b < W := Nat.lt_of_le_of_lt hb ha
  rw [Nat.mod_eq_of_lt hbW]
  have : a + (W - b) = (a - b) + W := by omega
  rw [this, Nat.add_mod_right]
  exact Nat.mod_eq_of_lt (by omega)

theorem batchSize_cons (kv : Key × List Value) (rest) : batchSize (kv :: rest) = valuesSize kv.2 + batchSize rest := by
  simp [batchSize]

theorem keyBytes_cons (kv : Key × List Value) (rest) : keyBytes (kv :: rest) = kv.1.length + keyBytes rest := by
  simp [keyBytes]

theorem added_eq (b : List (Key × List Value)) : ∀ a, a + batchSize b < W →
    b.foldl (fun a kv => add64 a (valuesSize kv.2)) a = a + batchSize b := by
  induction b with
  | nil => intro a _; simp [batchSize]
  | cons kv rest ih =>
    intro a h
    rw [batchSize_cons] at h
    simp only [List.foldl_cons]
    rw [add64_eq (by omega), ih _ (by omega), batchSize_cons]
    omega

/-- conflict, as the code decides it for an existing entry / a new key, is the checker's `conflicts` -/
theorem conflict_existing {s : Store} (ok : StoreOK s) {k : Key} {e : Entry} (hl : s.lookup k = some e)
    (vs : List Value) :
    conflicts (toHeld s) k vs = vs.any (fun x => x.ty ≠ e.vtype) := by
  have he := ok.2 _ (lookup_mem hl)
  unfold conflicts
  rw [toHeld_get, hl]
  simp only [Option.map_some, Option.getD_some]
  cases hv : e.values with
  | nil => exact absurd hv he.ne
  | cons w rest =>
    have : w.ty = e.vtype := he.all w (by simp [hv])
    simp [this]

theorem conflict_new {s : Store} {k : Key} (hl : s.lookup k = none) (v : Value) (rest : List Value) :
    conflicts (toHeld s) k (v :: rest) = (v :: rest).any (fun x => x.ty ≠ v.ty) := by
  unfold conflicts
  rw [toHeld_get, hl]
  rfl

theorem writeLoop_spec (batch : List (Key × List Value)) : ∀ (s : Store) (size : Nat) (werr : Bool) (r : Nat),
    StoreOK s → ValidBatch batch → size = acct (toHeld s) + r + batchSize batch →
    size + keyBytes batch < W →
    toHeld (writeLoop batch s size werr).1 = storeBatch batch (toHeld s) ∧
    StoreOK (writeLoop batch s size werr).1 ∧
    (writeLoop batch s size werr).2.1 = acct (storeBatch batch (toHeld s)) + r ∧
    (writeLoop batch s size werr).2.2 = (werr || anyConflict batch (toHeld s)) ∧
    (writeLoop batch s size werr).2.1 ≤ size + keyBytes batch := by
  induction batch with
  | nil =>
    intro s size werr r ok _ hs _
    simp [writeLoop, storeBatch, anyConflict, batchSize] at hs ⊢
    exact ⟨ok, hs⟩
  | cons kv rest ih =>
    intro s size werr r ok hv hs hb
    obtain ⟨k, vs⟩ := kv
    have hvs := hv (k, vs) (by simp)
    have hvr : ValidBatch rest := fun x hx => hv x (by simp [hx])
    rw [batchSize_cons] at hs
    rw [keyBytes_cons] at hb
    simp only at hs hb
    cases vs with
    | nil => exact absurd rfl hvs.1
    | cons v vrest =>
    cases hl : s.lookup k with
    | none =>
      -- a new key
      have hc := conflict_new hl v vrest
      by_cases hall : (v :: vrest).all (fun x => x.ty = v.ty) = true
      · -- accepted: the entry is created, the key is accounted
        have hnc : conflicts (toHeld s) k (v :: vrest) = false := by
          rw [hc]
          simp only [List.any_eq_false, ne_eq, decide_eq_true_eq, Decidable.not_not]
          simp only [List.all_eq_true, decide_eq_true_eq] at hall
          exact hall
        have he : EntryOK ⟨v :: vrest, v.ty⟩ :=
          ⟨by simp, hvs.2 v (by simp), by simpa using hall⟩
        have hget : (toHeld s).get k = [] := by rw [toHeld_get, hl]; rfl
        have hacct := acct_set_new (h := toHeld s) (k := k) (v :: vrest) (by rw [toHeld_lookup, hl]; rfl)
        have := ih (s.set k ⟨v :: vrest, v.ty⟩) (add64 size k.length) werr r (ok.set k he) hvr
          (by rw [toHeld_set, hacct, add64_eq (by omega)]; omega)
          (by rw [add64_eq (by omega)]; omega)
        simp only [writeLoop, Store.write, Store.entry, hl, newEntryValues, hall, if_true, storeBatch,
          anyConflict, hnc, Bool.false_eq_true, if_false, hget, List.nil_append]
        rw [toHeld_set] at this
        refine ⟨this.1, this.2.1, this.2.2.1, this.2.2.2.1, ?_⟩
        have h5 := this.2.2.2.2
        have hadd : add64 size k.length = size + k.length := add64_eq (by omega)
        have hkb := keyBytes_cons (k, v :: vrest) rest
        simp only at hkb
        omega
      · -- rejected for this key only
        have hcf : conflicts (toHeld s) k (v :: vrest) = true := by
          rw [hc]
          have hf := (Bool.not_eq_true _).mp hall
          rw [List.all_eq_false] at hf
          obtain ⟨x, hx, hne⟩ := hf
          simp only [List.any_eq_true, ne_eq, decide_eq_true_eq]
          exact ⟨x, hx, by simpa using hne⟩
        have := ih s (sub64 size (valuesSize (v :: vrest))) true r ok hvr
          (by rw [sub64_eq (by omega) (by omega)]; omega)
          (by rw [sub64_eq (by omega) (by omega)]; omega)
        simp only [writeLoop, Store.write, Store.entry, hl, newEntryValues, hall, Bool.false_eq_true, if_false,
          storeBatch, anyConflict, hcf, if_true]
        refine ⟨this.1, this.2.1, this.2.2.1, ?_, ?_⟩
        · rw [this.2.2.2.1]; simp
        · have h5 := this.2.2.2.2
          have hsub : sub64 size (valuesSize (v :: vrest)) = size - valuesSize (v :: vrest) :=
            sub64_eq (by omega) (by omega)
          have hkb := keyBytes_cons (k, v :: vrest) rest
          simp only at hkb
          omega
    | some e =>
      have he := ok.2 _ (lookup_mem hl)
      have hc := conflict_existing ok hl (v :: vrest)
      by_cases hany : (v :: vrest).any (fun x => x.ty ≠ e.vtype) = true
      · -- type conflict with the held values: rejected for this key only
        have hcf : conflicts (toHeld s) k (v :: vrest) = true := by rw [hc]; exact hany
        have hcond : (e.vtype ≠ 0 && (v :: vrest).any (fun x => x.ty ≠ e.vtype)) = true := by
          simp only [Bool.and_eq_true, decide_eq_true_eq]; exact ⟨he.ty0, hany⟩
        have := ih s (sub64 size (valuesSize (v :: vrest))) true r ok hvr
          (by rw [sub64_eq (by omega) (by omega)]; omega)
          (by rw [sub64_eq (by omega) (by omega)]; omega)
        simp only [writeLoop, Store.write, Store.entry, hl, Entry.add, hcond, if_true,
          storeBatch, anyConflict, hcf, Bool.false_eq_true, if_false]
        refine ⟨this.1, this.2.1, this.2.2.1, ?_, ?_⟩
        · rw [this.2.2.2.1]; simp
        · have h5 := this.2.2.2.2
          have hsub : sub64 size (valuesSize (v :: vrest)) = size - valuesSize (v :: vrest) :=
            sub64_eq (by omega) (by omega)
          have hkb := keyBytes_cons (k, v :: vrest) rest
          simp only at hkb
          omega
      · -- appended to the held values
        have hnc : conflicts (toHeld s) k (v :: vrest) = false := by rw [hc]; simpa using hany
        have hcond : (e.vtype ≠ 0 && (v :: vrest).any (fun x => x.ty ≠ e.vtype)) = false := by
          simp only [Bool.and_eq_false_iff]; right; simpa using hany
        have hne : e.values.isEmpty = false := by
          cases hv' : e.values with
          | nil => exact absurd hv' he.ne
          | cons _ _ => rfl
        have he' : EntryOK ⟨e.values ++ (v :: vrest), e.vtype⟩ := by
          refine ⟨by simp, he.ty0, ?_⟩
          intro x hx
          rcases List.mem_append.mp hx with hx | hx
          · exact he.all x hx
          · simp only [List.any_eq_true, ne_eq, decide_eq_true_eq, not_exists, not_and,
              Decidable.not_not] at hany
            exact hany x hx
        have hget : (toHeld s).get k = e.values := by rw [toHeld_get, hl]; rfl
        have hacct := acct_set_old (h := toHeld s) (k := k) (old := e.values) (e.values ++ (v :: vrest))
          (by rw [toHeld_lookup, hl]; rfl) (by rw [toHeld_keys]; exact ok.1)
        rw [valuesSize_append] at hacct
        have := ih (s.set k ⟨e.values ++ (v :: vrest), e.vtype⟩) size werr r (ok.set k he') hvr
          (by rw [toHeld_set]; simp only; omega) (by omega)
        simp only [writeLoop, Store.write, Store.entry, hl, Entry.add, hcond, Bool.false_eq_true, if_false, hne,
          storeBatch, anyConflict, hnc, hget]
        rw [toHeld_set] at this
        refine ⟨this.1, this.2.1, this.2.2.1, this.2.2.2.1, ?_⟩
        have h5 := this.2.2.2.2
        have hkb := keyBytes_cons (k, v :: vrest) rest
        simp only at hkb
        omega

/-! ### DeleteRange -/

theorem filter_dedup_eq (e : Entry) : (if e.values.length > 1 then dedup e.values else e.values) = canon e.values := by
  rw [← dedup_eq_canon]
  split
  · rfl
  · rename_i h
    unfold dedup
    rw [if_pos (by omega)]

theorem valuesSize_filter_le (p : Value → Bool) (l : List Value) : valuesSize (l.filter p) ≤ valuesSize l :=
  valuesSize_sublist List.filter_sublist

theorem deleteLoop_spec (min max : Int) (keys : List Key) : ∀ (s : Store) (size : Nat) (r : Nat),
    StoreOK s → size = acct (toHeld s) + r → size < W →
    toHeld (deleteLoop min max keys s size).1 = deleteKeys min max keys (toHeld s) ∧
    StoreOK (deleteLoop min max keys s size).1 ∧
    (deleteLoop min max keys s size).2 = acct (deleteKeys min max keys (toHeld s)) + r ∧
    (deleteLoop min max keys s size).2 ≤ size := by
  induction keys with
  | nil => intro s size r ok hs _; exact ⟨rfl, ok, hs, Nat.le_refl _⟩
  | cons k rest ih =>
    intro s size r ok hs hW
    cases hl : s.lookup k with
    | none =>
      simp only [deleteLoop, Store.entry, hl, deleteKeys, toHeld_lookup, Option.map_none]
      exact ih s size r ok hs hW
    | some e =>
      have he := ok.2 _ (lookup_mem hl)
      have hlk : (toHeld s).lookup k = some e.values := by rw [toHeld_lookup, hl]; rfl
      have hnd : ((toHeld s).map (·.1)).Nodup := by rw [toHeld_keys]; exact ok.1
      have hrem := acct_remove hlk hnd
      have hle := acct_le_of_lookup hlk
      simp only [deleteLoop, Store.entry, hl, deleteKeys, hlk]
      split
      · -- the whole key
        rw [← toHeld_remove]
        have := ih (s.remove k) (sub64 size (valuesSize e.values + k.length)) r (ok.remove k)
          (by rw [sub64_eq (by omega) hW, toHeld_remove]; omega)
          (by rw [sub64_eq (by omega) hW]; omega)
        refine ⟨this.1, this.2.1, this.2.2.1, ?_⟩
        have h4 := this.2.2.2
        have hsub : sub64 size (valuesSize e.values + k.length) = size - (valuesSize e.values + k.length) :=
          sub64_eq (by omega) hW
        omega
      · have hvals : (e.filter min max).values =
            (canon e.values).filter fun v => !(decide (min ≤ v.t) && decide (v.t ≤ max)) := by
          simp only [Entry.filter, exclude, filter_dedup_eq]
        rw [hvals]
        split
        · rw [← toHeld_remove]
          have := ih (s.remove k) (sub64 size (valuesSize e.values + k.length)) r (ok.remove k)
            (by rw [sub64_eq (by omega) hW, toHeld_remove]; omega)
            (by rw [sub64_eq (by omega) hW]; omega)
          refine ⟨this.1, this.2.1, this.2.2.1, ?_⟩
          have h4 := this.2.2.2
          have hsub := sub64_eq (a := size) (b := valuesSize e.values + k.length) (by omega) hW
          have hsub2 := sub64_eq (a := size) (b := valuesSize e.values - valuesSize (e.filter min max).values) (by omega) hW
          rw [hvals] at hsub2
          omega
        · rename_i hne
          have hsz : valuesSize ((canon e.values).filter fun v => !(decide (min ≤ v.t) && decide (v.t ≤ max)))
              ≤ valuesSize e.values := by
            refine Nat.le_trans (valuesSize_filter_le _ _) ?_
            rw [← dedup_eq_canon]; exact valuesSize_dedup_le _
          have he' : EntryOK (e.filter min max) := by
            refine ⟨?_, he.ty0, ?_⟩
            · rw [hvals]; intro h0; exact hne (by rw [h0]; rfl)
            · intro x hx
              rw [hvals] at hx
              have := (List.mem_filter.mp hx).1
              rw [← dedup_eq_canon] at this
              exact he.all x (dedup_subset _ x this)
          have hset := acct_set_old (h := toHeld s) (k := k) (old := e.values) (e.filter min max).values hlk hnd
          have := ih (s.set k (e.filter min max)) (sub64 size (valuesSize e.values - valuesSize (e.filter min max).values))
            r (ok.set k he')
            (by rw [sub64_eq (by omega) hW, toHeld_set]; rw [hvals] at hset ⊢; omega)
            (by rw [sub64_eq (by omega) hW]; omega)
          rw [toHeld_set, hvals] at this
          refine ⟨this.1, this.2.1, this.2.2.1, ?_⟩
          have h4 := this.2.2.2
          have hsub := sub64_eq (a := size) (b := valuesSize e.values + k.length) (by omega) hW
          have hsub2 := sub64_eq (a := size) (b := valuesSize e.values - valuesSize (e.filter min max).values) (by omega) hW
          rw [hvals] at hsub2
          omega

end Influx.Cache
