/-
  Lemmas.TSIVarint — `PutUvarint` / `Uvarint` round trip and the torn-varint lemma: a strict
  prefix of an encoded varint is always reported as a short buffer, never as a parse error.
-/
import Influx.Model.TSIVarint

namespace Influx.Model.TSI

theorem putUvarint_small {x : Nat} (h : x < 128) : putUvarint x = [x] := by
  rw [putUvarint]; simp [h]

theorem putUvarint_big {x : Nat} (h : ¬ x < 128) :
    putUvarint x = (x % 128 + 128) :: putUvarint (x / 128) := by
  rw [putUvarint]; simp [h]

theorem putUvarint_length_pos (x : Nat) : 0 < (putUvarint x).length := by
  by_cases h : x < 128
  · rw [putUvarint_small h]; simp
  · rw [putUvarint_big h]; simp

theorem fitsUv_small {i x : Nat} (h : x < 128) : fitsUv i x = (i < 9 || (i == 9 && x ≤ 1)) := by
  rw [fitsUv]; simp [h]

theorem fitsUv_big {i x : Nat} (h : ¬ x < 128) : fitsUv i x = (i < 9 && fitsUv (i + 1) (x / 128)) := by
  rw [fitsUv]; simp [h]

/-- **round trip**: a complete varint decodes to its value and length, whatever follows. -/
theorem readUv_put (x : Nat) : ∀ (i : Nat) (rest : List Nat), fitsUv i x = true →
    readUv i (putUvarint x ++ rest) = .ok x (putUvarint x).length := by
  induction x using Nat.strongRecOn with
  | _ x ih =>
    intro i rest hf
    by_cases h : x < 128
    · rw [putUvarint_small h]
      rw [fitsUv_small h] at hf
      simp only [List.singleton_append, readUv, List.length_singleton]
      have hi : i ≠ 10 := by
        intro e; subst e; simp at hf
      simp only [hi, if_false, h, if_true]
      have : ¬ (i = 9 ∧ x > 1) := by
        rintro ⟨e, hx⟩; subst e
        simp at hf; omega
      simp [this]
    · rw [putUvarint_big h]
      rw [fitsUv_big h] at hf
      simp only [Bool.and_eq_true, decide_eq_true_eq] at hf
      obtain ⟨hi, hf'⟩ := hf
      simp only [List.cons_append, readUv, List.length_cons]
      have hi10 : i ≠ 10 := by omega
      have hb : ¬ (x % 128 + 128 < 128) := by omega
      simp only [hi10, if_false, hb]
      rw [ih (x / 128) (by omega) (i + 1) rest hf']
      simp only
      congr 1
      omega

/-- **torn varint**: every strict prefix of an encoded varint reads as "buffer too small". -/
theorem readUv_prefix (x : Nat) : ∀ (i m : Nat), fitsUv i x = true → m < (putUvarint x).length →
    readUv i ((putUvarint x).take m) = .short := by
  induction x using Nat.strongRecOn with
  | _ x ih =>
    intro i m hf hm
    by_cases h : x < 128
    · rw [putUvarint_small h] at hm ⊢
      have : m = 0 := by simpa using hm
      subst this; simp [readUv]
    · rw [putUvarint_big h] at hm ⊢
      rw [fitsUv_big h] at hf
      simp only [Bool.and_eq_true, decide_eq_true_eq] at hf
      obtain ⟨hi, hf'⟩ := hf
      cases m with
      | zero => simp [readUv]
      | succ m' =>
        simp only [List.take_succ_cons, readUv]
        have hi10 : i ≠ 10 := by omega
        have hb : ¬ (x % 128 + 128 < 128) := by omega
        simp only [hi10, if_false, hb]
        rw [ih (x / 128) (by omega) (i + 1) m' hf' (by simpa using hm)]

/-- tsi1's helper on a complete varint. -/
theorem uvarintHelper_put (x : Nat) (rest : List Nat) (hf : fitsUv 0 x = true) :
    uvarintHelper (putUvarint x ++ rest) = .ok x (putUvarint x).length := by
  unfold uvarintHelper
  have hpos := putUvarint_length_pos x
  have h1 : ¬ (putUvarint x ++ rest).length < 1 := by simp only [List.length_append]; omega
  simp only [h1, if_false, readUv_put x 0 rest hf]
  have h2 : ¬ (putUvarint x).length > (putUvarint x ++ rest).length := by
    simp only [List.length_append]; omega
  simp [h2]

/-- **tsi1's helper on a torn varint: `io.ErrShortBuffer`, never a parse error** — the case
    `binary.Uvarint` reports as `n == 0`. `LogFile.open` drops the tail only on
    `io.ErrShortBuffer` (or a checksum mismatch); any other error aborts `Open`. -/
theorem uvarintHelper_torn (x m : Nat) (hf : fitsUv 0 x = true) (hm : m < (putUvarint x).length) :
    uvarintHelper ((putUvarint x).take m) = .shortBuffer := by
  unfold uvarintHelper
  split
  · rfl
  · rw [readUv_prefix x 0 m hf hm]

end Influx.Model.TSI

namespace Influx.Model.TSI

/-! ### the entry framing: a log cut inside an entry is a short buffer -/

/-- `uvarint()` on a buffer that starts with an encoded varint, cut after `m` bytes. -/
theorem uvarintHelper_take (x : Nat) (rest : List Nat) (hf : fitsUv 0 x = true) (m : Nat) :
    uvarintHelper ((putUvarint x ++ rest).take m) =
      if m < (putUvarint x).length then .shortBuffer else .ok x (putUvarint x).length := by
  split
  · next h =>
    rw [List.take_append_of_le_length (Nat.le_of_lt h)]
    exact uvarintHelper_torn x m hf h
  · next h =>
    rw [List.take_append, List.take_of_length_le (Nat.le_of_not_lt h)]
    exact uvarintHelper_put x _ hf

/-- a length-prefixed field cut after `m` bytes. -/
theorem readField_take (s rest : List Nat) (hf : fitsUv 0 s.length = true) (m : Nat) :
    readField ((lenPrefixed s ++ rest).take m) =
      if m < (lenPrefixed s).length then .shortBuffer
      else .ok s (rest.take (m - (lenPrefixed s).length)) := by
  unfold readField lenPrefixed
  rw [List.append_assoc, uvarintHelper_take s.length (s ++ rest) hf m]
  simp only [List.length_append]
  by_cases h1 : m < (putUvarint s.length).length
  · have : m < (putUvarint s.length).length + s.length := by omega
    simp [h1, this]
  · simp only [h1, if_false]
    by_cases h2 : m < (putUvarint s.length).length + s.length
    · have : ((putUvarint s.length ++ (s ++ rest)).take m).length < (putUvarint s.length).length + s.length := by
        simp only [List.length_take]; omega
      rw [if_pos this]; simp [h2]
    · have hlen : ¬ ((putUvarint s.length ++ (s ++ rest)).take m).length < (putUvarint s.length).length + s.length := by
        simp only [List.length_take, List.length_append]; omega
      simp only [h2, if_false, hlen]
      congr 1
      · rw [List.take_append, List.take_of_length_le (Nat.le_of_not_lt h1),
          List.drop_left, List.take_take]
        have : min s.length (m - (putUvarint s.length).length) = s.length := by omega
        rw [this, List.take_left]
      · rw [← List.append_assoc, List.take_append,
          List.take_of_length_le (by simp only [List.length_append]; omega)]
        have : (putUvarint s.length).length + s.length = (putUvarint s.length ++ s).length := by simp
        rw [this, List.drop_left]

/-- the fields of an entry fit their varints (always so in Go: ids and lengths are 64-bit). -/
def RawEntry.fits (e : RawEntry) : Prop :=
  fitsUv 0 e.id = true ∧ fitsUv 0 e.name.length = true ∧ fitsUv 0 e.key.length = true ∧
    fitsUv 0 e.value.length = true

/-- the fields after the flag byte, cut after `m` bytes. -/
theorem parseFields_take (e : RawEntry) (hf : e.fits) (tail : List Nat) (m : Nat) :
    parseFields ((putUvarint e.id ++ (lenPrefixed e.name ++ (lenPrefixed e.key ++ (lenPrefixed e.value ++ tail)))).take m) =
      if m < (putUvarint e.id).length + (lenPrefixed e.name).length + (lenPrefixed e.key).length +
          (lenPrefixed e.value).length then .shortBuffer
      else .ok e.id e.name e.key e.value (tail.take (m - ((putUvarint e.id).length +
        (lenPrefixed e.name).length + (lenPrefixed e.key).length + (lenPrefixed e.value).length))) := by
  obtain ⟨hid, hname, hkey, hval⟩ := hf
  unfold parseFields
  rw [uvarintHelper_take e.id _ hid m]
  by_cases h1 : m < (putUvarint e.id).length
  · have : m < (putUvarint e.id).length + (lenPrefixed e.name).length + (lenPrefixed e.key).length +
        (lenPrefixed e.value).length := by omega
    simp [h1, this]
  · simp only [h1, if_false]
    rw [List.take_append, List.take_of_length_le (Nat.le_of_not_lt h1), List.drop_left,
      readField_take e.name _ hname]
    by_cases h2 : m - (putUvarint e.id).length < (lenPrefixed e.name).length
    · have : m < (putUvarint e.id).length + (lenPrefixed e.name).length + (lenPrefixed e.key).length +
          (lenPrefixed e.value).length := by omega
      simp [h2, this]
    · simp only [h2, if_false]
      rw [readField_take e.key _ hkey]
      by_cases h3 : m - (putUvarint e.id).length - (lenPrefixed e.name).length < (lenPrefixed e.key).length
      · have : m < (putUvarint e.id).length + (lenPrefixed e.name).length + (lenPrefixed e.key).length +
            (lenPrefixed e.value).length := by omega
        simp [h3, this]
      · simp only [h3, if_false]
        rw [readField_take e.value _ hval]
        by_cases h4 : m - (putUvarint e.id).length - (lenPrefixed e.name).length - (lenPrefixed e.key).length <
            (lenPrefixed e.value).length
        · have : m < (putUvarint e.id).length + (lenPrefixed e.name).length + (lenPrefixed e.key).length +
              (lenPrefixed e.value).length := by omega
          simp [h4, this]
        · have : ¬ m < (putUvarint e.id).length + (lenPrefixed e.name).length + (lenPrefixed e.key).length +
              (lenPrefixed e.value).length := by omega
          simp only [h4, if_false, this]
          congr 2
          omega

/-- **a log entry cut anywhere is a short buffer** — for every entry whose fields fit, every
    checksum function with 4-byte output, and every cut position strictly inside the entry,
    `LogEntry.UnmarshalBinary` answers `io.ErrShortBuffer` (never a parse error, never a
    checksum mismatch): `LogFile.open` drops the torn tail and `Open` succeeds. -/
theorem decodeEntry_torn (crc : List Nat → List Nat) (hcrc : ∀ b, (crc b).length = 4) (e : RawEntry)
    (hf : e.fits) (m : Nat) (hm : m < (encodeEntry crc e).length) :
    decodeEntry crc ((encodeEntry crc e).take m) = .shortBuffer := by
  unfold encodeEntry entryBody at hm ⊢
  cases m with
  | zero => simp [decodeEntry]
  | succ m =>
    simp only [List.cons_append, List.take_succ_cons, decodeEntry]
    have hassoc : putUvarint e.id ++ lenPrefixed e.name ++ lenPrefixed e.key ++ lenPrefixed e.value ++
        crc (e.flag :: (putUvarint e.id ++ lenPrefixed e.name ++ lenPrefixed e.key ++ lenPrefixed e.value)) =
        putUvarint e.id ++ (lenPrefixed e.name ++ (lenPrefixed e.key ++ (lenPrefixed e.value ++
        crc (e.flag :: (putUvarint e.id ++ lenPrefixed e.name ++ lenPrefixed e.key ++ lenPrefixed e.value))))) := by
      simp [List.append_assoc]
    have hpf := parseFields_take e hf
      (crc (e.flag :: (putUvarint e.id ++ lenPrefixed e.name ++ lenPrefixed e.key ++ lenPrefixed e.value))) m
    rw [← hassoc] at hpf
    split at hpf
    · simp only [hpf]
    · next h =>
      simp only [hpf]
      have hlt : (List.take (m - ((putUvarint e.id).length + (lenPrefixed e.name).length +
          (lenPrefixed e.key).length + (lenPrefixed e.value).length))
          (crc (e.flag :: (putUvarint e.id ++ lenPrefixed e.name ++ lenPrefixed e.key ++ lenPrefixed e.value)))).length < 4 := by
        simp only [List.length_take, hcrc]
        simp only [List.length_cons, List.length_append, hcrc] at hm
        omega
      rw [if_pos hlt]

end Influx.Model.TSI
