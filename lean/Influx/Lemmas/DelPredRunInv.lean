/-
  Lemmas.DelPredRunInv — the model's trace on a case is accepted by the statement
  checker `Spec.C16.judgeCase` when the well-formed series lie in `KeyOK`.
-/
import Influx.Lemmas.DelPredMatch
import Influx.Lemmas.DelPredTotal
import Influx.Model.DelPredRun

namespace Influx.Model.DelPred
open Influx.Spec.C16

/-- The domain found by the proof: on a well-formed series the compiled predicate is exact iff
    * the measurement name does not end in a backslash and contains no `=`,
    * no tag key / (non-empty) tag value ends in a backslash,
    * the key handed to `Matches` does not contain the field separator `#!~#`. -/
def KeyOK (name : Bytes) (tags : Tags) : Bool :=
  noTrailBs name && !name.contains 61 && tagsOK tags && !hasSep (seriesKey name tags)

/-- every series matched in the case that is well-formed lies in the theorem's domain -/
def OpsOK : List Op → Bool
  | [] => true
  | .matchSeries name tags field :: ops =>
    (!SeriesWF name tags ||
      (KeyOK name tags && (field.isNone || !hasSep (seriesKey name tags ++ [35, 33, 126])))) && OpsOK ops
  | _ :: ops => OpsOK ops

/-- model state vs. the predicate the statement checker has in force -/
def StInv : Option Matcher → Option Pred → Prop
  | none, none => True
  | none, some _ => False
  | some m, none => WFn m.values.length m.root
  | some m, some p => MInv p m

theorem minv_wf {p m} (h : MInv p m) : WFn m.values.length m.root := by
  obtain ⟨_, hwf, _⟩ := skel_props _ p _ h.shape
  rw [h.len]; exact (WFn_strip _ _).1 hwf

theorem judge_run (ops : List Op) (hok : OpsOK ops = true) (st : Option Matcher) (cur : Option Pred)
    (hinv : StInv st cur) : (judgeCase cur (run st ops)).all (· ≠ .fail) = true := by
  induction ops generalizing st cur with
  | nil => rfl
  | cons op ops ih =>
    cases op with
    | setPred p =>
      obtain ⟨m, hm, hmi⟩ := newMatcher_spec p
      have hok' : OpsOK ops = true := by simpa [OpsOK] using hok
      simp only [run, stepOp, hm, judgeCase, if_true, List.all_cons, Bool.and_eq_true]
      exact ⟨by decide, ih hok' (some m) (some p) hmi⟩
    | setRaw d =>
      have hok' : OpsOK ops = true := by simpa [OpsOK] using hok
      simp only [run, stepOp]
      cases hm : newMatcher d with
      | none =>
        simp only [judgeCase, List.all_cons, Bool.and_eq_true]
        exact ⟨by decide, ih hok' none none trivial⟩
      | some m =>
        simp only [judgeCase, List.all_cons, Bool.and_eq_true]
        exact ⟨by decide, ih hok' (some m) none (newMatcher_WF d m hm)⟩
    | clone =>
      have hok' : OpsOK ops = true := by simpa [OpsOK] using hok
      simp only [run, stepOp]
      cases st with
      | none =>
        simp only [judgeCase, List.all_cons, Bool.and_eq_true]
        exact ⟨by decide, ih hok' none cur hinv⟩
      | some m =>
        simp only [judgeCase, List.all_cons, Bool.and_eq_true]
        exact ⟨by decide, ih hok' (some m) cur hinv⟩
    | matchSeries name tags field =>
      simp only [OpsOK, Bool.and_eq_true] at hok
      obtain ⟨hdom, hok'⟩ := hok
      simp only [run, stepOp]
      cases st with
      | none =>
        cases cur with
        | some p => exact absurd hinv (by simp [StInv])
        | none =>
          simp only [judgeCase, List.all_cons, Bool.and_eq_true]
          exact ⟨by decide, ih hok' none none trivial⟩
      | some m =>
        cases cur with
        | none =>
          obtain ⟨b, m', hm', hwf', _⟩ := matches_total m
            (opKey name tags field) hinv
          simp only [hm', judgeCase, List.all_cons, Bool.and_eq_true]
          exact ⟨by decide, ih hok' (some m') none hwf'⟩
        | some p =>
          by_cases hwfd : (PredWF p && SeriesWF name tags) = true
          · -- inside the property's domain: the answer is the reference value
            simp only [Bool.and_eq_true] at hwfd
            obtain ⟨hp, hs⟩ := hwfd
            simp only [hs, Bool.not_true, Bool.false_or, Bool.and_eq_true] at hdom
            obtain ⟨hk, hfield⟩ := hdom
            simp only [KeyOK, Bool.and_eq_true, Bool.not_eq_true', List.contains_eq_mem,
              decide_eq_false_iff_not] at hk
            obtain ⟨⟨⟨hnt, h61⟩, htags⟩, hsep⟩ := hk
            have hcut : cutFieldSep (opKey name tags field) = seriesKey name tags := by
              cases field with
              | none => exact cutFieldSep_of_not_hasSep _ hsep
              | some f =>
                simp only [Option.isNone_some, Bool.false_or, Bool.not_eq_true'] at hfield
                exact cutFieldSep_composite _ f hfield
            obtain ⟨m', hm', hmi'⟩ := matches_spec p m hinv _ name tags hcut hp hs hnt h61 htags
            simp only [hm', judgeCase, judgeMatch, hp, hs, Bool.and_self, Bool.not_true,
              Bool.false_eq_true, if_false, if_true, List.all_cons, Bool.and_eq_true]
            exact ⟨by decide, ih hok' (some m') (some p) hmi'⟩
          · -- outside: it still answers, and the invariant is kept
            obtain ⟨b, m', hm', hwf', hs', hv', hl', hg'⟩ := matches_total m
              (opKey name tags field) (minv_wf hinv)
            -- the matcher keeps its shape and stays sound for the next key
            have hmi' : MInv p m' :=
              ⟨by rw [hl']; exact hinv.locs, by rw [hv', hl']; exact hinv.len,
               by rw [hl', hs']; exact hinv.shape, hg' hinv.gens⟩
            simp only [hm', judgeCase, judgeMatch, hwfd, Bool.not_false, if_true, List.all_cons,
              Bool.and_eq_true]
            exact ⟨by decide, ih hok' (some m') (some p) hmi'⟩

/-- compiling and matching one series inside the domain gives the reference value -/
theorem matchSeries_spec (p : Pred) (name : Bytes) (tags : Tags)
    (hp : PredWF p = true) (hs : SeriesWF name tags = true) (hk : KeyOK name tags = true) :
    matchSeries p name tags = some (evalPred name tags p) := by
  simp only [KeyOK, Bool.and_eq_true, Bool.not_eq_true', List.contains_eq_mem,
    decide_eq_false_iff_not] at hk
  obtain ⟨⟨⟨hnt, h61⟩, htags⟩, hsep⟩ := hk
  obtain ⟨m, hm, hinv⟩ := newMatcher_spec p
  obtain ⟨m', hm', _⟩ := matches_spec p m hinv (seriesKey name tags) name tags
    (cutFieldSep_of_not_hasSep _ hsep) hp hs hnt h61 htags
  simp [matchSeries, hm, hm']

end Influx.Model.DelPred
