/-
  Lemmas.CompactStep — `chunk<T>`, the fast path `combine<T>(dedup = false)` and
  `merge<T>()` as a whole preserve the per-key invariant.
-/
import Influx.Lemmas.CompactSortL

namespace Influx.Model.Compact
open Influx.Generated

variable {V : Type}

/-! ### output blocks -/

/-- an output block's index entry is the first / last timestamp of its (non-empty) values -/
def OBlkOK (o : OBlk V) : Prop :=
  ∃ a z, o.pts.head? = some a ∧ o.pts.getLast? = some z ∧ o.minTime = a.1 ∧ o.maxTime = z.1

/-- all values of a list of output blocks, in order -/
def outPts (os : List (OBlk V)) : Pts V := os.flatMap (·.pts)

@[simp] theorem outPts_nil : outPts ([] : List (OBlk V)) = [] := rfl
@[simp] theorem outPts_append (a b : List (OBlk V)) : outPts (a ++ b) = outPts a ++ outPts b := by
  simp [outPts]
@[simp] theorem outPts_cons (a : OBlk V) (b : List (OBlk V)) : outPts (a :: b) = a.pts ++ outPts b := by
  simp [outPts]

theorem head_getLast_of_ne {l : Pts V} (h : l ≠ []) : ∃ a z, l.head? = some a ∧ l.getLast? = some z := by
  cases l with
  | nil => exact absurd rfl h
  | cons x xs => exact ⟨x, _, rfl, List.getLast?_eq_some_getLast (by simp)⟩

/-- `chunk<T>(dst)` -/
theorem chunk_spec (size : Nat) (dst : List (OBlk V)) (mv : Pts V) (out : List (OBlk V)) (mv' : Pts V)
    (h : chunk size dst mv = .ok (out, mv')) :
    ∃ new, out = dst ++ new ∧ outPts new ++ mv' = mv ∧
      (∀ o ∈ new, OBlkOK o ∧ 1 ≤ o.pts.length ∧ o.pts.length ≤ size) ∧
      (mv ≠ [] → new ≠ []) ∧ (mv.length ≤ size → mv' = []) := by
  unfold chunk at h
  split at h
  · next hgt =>
    have hne : mv.take size ≠ [] := by
      intro h0
      rw [h0] at h
      simp [ptsMin, bind, Except.bind, throw, throwThe, MonadExceptOf.throw] at h
    obtain ⟨a, z, ha, hz⟩ := head_getLast_of_ne hne
    simp only [ptsMin_of_head ha, ptsMax_of_last hz, bind, Except.bind, pure, Except.pure,
      Except.ok.injEq, Prod.mk.injEq] at h
    obtain ⟨rfl, rfl⟩ := h
    refine ⟨[⟨a.1, z.1, mv.take size⟩], rfl, by simp, ?_, by simp, by omega⟩
    intro o ho
    simp at ho; subst ho
    refine ⟨⟨a, z, ha, hz, rfl, rfl⟩, ?_, ?_⟩
    · exact List.length_pos_iff.mpr hne
    · simp; omega
  · split at h
    · next hle hpos =>
      have hne : mv ≠ [] := List.length_pos_iff.mp hpos
      obtain ⟨a, z, ha, hz⟩ := head_getLast_of_ne hne
      simp only [ptsMin_of_head ha, ptsMax_of_last hz, bind, Except.bind, pure, Except.pure,
        Except.ok.injEq, Prod.mk.injEq] at h
      obtain ⟨rfl, rfl⟩ := h
      refine ⟨[⟨a.1, z.1, mv⟩], rfl, by simp, ?_, by simp, fun _ => rfl⟩
      intro o ho
      simp at ho; subst ho
      exact ⟨⟨a, z, ha, hz, rfl, rfl⟩, hpos, by simp; omega⟩
    · next hle hnpos =>
      simp only [pure, Except.pure, Except.ok.injEq, Prod.mk.injEq] at h
      obtain ⟨rfl, rfl⟩ := h
      have : mv = [] := List.length_eq_zero_iff.mp (by omega)
      exact ⟨[], by simp, by simp [this], by simp, fun h => absurd this h, fun _ => this⟩

/-! ### blocks that allow the fast path -/

/-- no tombstones and either untouched or completely read -/
def Clean (b : Block V) : Prop := b.tombstones = [] ∧ CompactBlock.partiallyRead b = false

theorem vExclude_sentinel {b : Block V} (w : BlockWF b) : vExclude maxInt64 minInt64 b.pts = b.pts := by
  unfold vExclude
  apply List.filter_eq_self.mpr
  intro p hp
  have := w.inr p hp
  unfold InR at this
  simp only [Bool.not_eq_true', Bool.and_eq_false_iff, decide_eq_false_iff_not]
  left; omega

/-- a clean block is either completely read (contributes nothing) or untouched -/
theorem clean_cases {T : Int} {b : Block V} (s : BlockSt T b) (c : Clean b) :
    (CompactBlock.read b = true ∧ live b = []) ∨
    (CompactBlock.read b = false ∧ live b = b.pts ∧ b.readMin = maxInt64 ∧ b.readMax = minInt64 ∧
      ∀ p ∈ b.pts, T < p.1) := by
  obtain ⟨ct, cp⟩ := c
  rcases (partiallyRead_false_iff b).mp cp with ⟨h1, h2⟩ | ⟨h1, h2⟩
  · right
    have hall : ∀ p ∈ b.pts, T < p.1 := by
      intro p hp
      have := s.cons p hp
      have hi := s.wf.inr p hp
      unfold InR at hi
      by_cases hle : p.1 ≤ T
      · have := this.mp hle; omega
      · omega
    refine ⟨?_, ?_, h1, h2, hall⟩
    · obtain ⟨z, hz, hz'⟩ := s.wf.max_mem
      have := hall z hz
      cases hr : CompactBlock.read b with
      | false => rfl
      | true => have := s.read_iff'.mp hr; omega
    · unfold live unread
      rw [h1, h2, ct, vExclude_sentinel s.wf]
      simp [applyTombs]
  · left
    have hr : CompactBlock.read b = true := (read_iff b).mpr ⟨by omega, by omega⟩
    refine ⟨hr, ?_⟩
    have hmax := s.read_iff'.mp hr
    unfold live unread
    rw [ct]
    simp only [applyTombs, List.foldl_nil]
    apply List.filter_eq_nil_iff.mpr
    intro p hp
    have := s.wf.mem_range hp
    simp only [Bool.not_eq_true', Bool.not_eq_false, Bool.and_eq_true, decide_eq_true_eq]
    omega

/-- the values of the untouched blocks of a prefix, in order -/
def unreadPts (P : List (Block V)) : Pts V :=
  (P.filter (fun b => !CompactBlock.read b)).flatMap (·.pts)

@[simp] theorem unreadPts_nil : unreadPts ([] : List (Block V)) = [] := rfl
theorem unreadPts_append (A B : List (Block V)) : unreadPts (A ++ B) = unreadPts A ++ unreadPts B := by
  simp [unreadPts]
theorem unreadPts_cons_read {b : Block V} (h : CompactBlock.read b = true) (P : List (Block V)) :
    unreadPts (b :: P) = unreadPts P := by simp [unreadPts, h]
theorem unreadPts_cons_unread {b : Block V} (h : CompactBlock.read b = false) (P : List (Block V)) :
    unreadPts (b :: P) = b.pts ++ unreadPts P := by simp [unreadPts, h]

/-- every later block lies entirely after every earlier one -/
def Ordered (L : List (Block V)) : Prop := L.Pairwise (fun a b => a.maxTime < b.minTime)

/-- consuming a prefix of clean, time-ordered blocks whole -/
theorem consume_prefix :
    ∀ (P R : List (Block V)) (T : Int),
      (∀ b ∈ P ++ R, BlockSt T b) → (∀ b ∈ P ++ R, Clean b) → Ordered (P ++ R) →
      ∃ T', T ≤ T' ∧ (∀ b ∈ R, BlockSt T' b) ∧ Asc (unreadPts P) ∧
        (∀ p ∈ unreadPts P, T < p.1 ∧ p.1 ≤ T') ∧
        (∀ p ∈ unreadPts P, ∀ b ∈ R, CompactBlock.read b = false → p.1 < b.minTime) ∧
        (∀ t, restAt (P ++ R) t = (restAt R t).or (lookup (unreadPts P) t))
  | [], R, T, hst, _, _ => by
    refine ⟨T, Int.le_refl _, by simpa using hst, asc_nil, by simp, by simp, ?_⟩
    intro t; simp
  | b :: P, R, T, hst, hcl, hord => by
    have sb := hst b (by simp)
    have cb := hcl b (by simp)
    have hord' : Ordered (P ++ R) := (List.pairwise_cons.mp hord).2
    have hafter : ∀ c ∈ P ++ R, b.maxTime < c.minTime := (List.pairwise_cons.mp hord).1
    rcases clean_cases sb cb with ⟨hr, hl⟩ | ⟨hr, hl, h1, h2, hall⟩
    · -- completely read: skipped
      obtain ⟨T', r1, r2, r3, r4, r5, r6⟩ := consume_prefix P R T
        (fun c hc => hst c (List.mem_cons_of_mem _ hc)) (fun c hc => hcl c (List.mem_cons_of_mem _ hc)) hord'
      rw [unreadPts_cons_read hr]
      refine ⟨T', r1, r2, r3, r4, r5, ?_⟩
      intro t
      simp only [List.cons_append, restAt, hl, lookup_nil, Option.or_none]
      exact r6 t
    · -- untouched: consumed whole; the frontier moves to its last timestamp
      have hTb : T < b.maxTime := by
        obtain ⟨z, hz, hz'⟩ := sb.wf.max_mem
        have := hall z hz; omega
      have hst' : ∀ c ∈ P ++ R, BlockSt b.maxTime c := by
        intro c hc
        have sc := hst c (List.mem_cons_of_mem _ hc)
        have cc := hcl c (List.mem_cons_of_mem _ hc)
        have hca := hafter c hc
        rcases clean_cases sc cc with ⟨hcr, _⟩ | ⟨hcr, _, c1, c2, call⟩
        · have := sc.read_iff'.mp hcr
          have := sc.wf.min_le_max
          omega
        · refine ⟨sc.wf, ?_, by rw [c2]; have := sb.wf.inr; obtain ⟨z, hz, hz'⟩ := sb.wf.max_mem; have := (sb.wf.inr z hz).1; omega⟩
          intro p hp
          have := (sc.wf.mem_range hp).1
          have hi := sc.wf.inr p hp
          unfold InR at hi
          constructor
          · intro h; omega
          · rintro ⟨h, _⟩; omega
      obtain ⟨T', r1, r2, r3, r4, r5, r6⟩ := consume_prefix P R b.maxTime hst'
        (fun c hc => hcl c (List.mem_cons_of_mem _ hc)) hord'
      rw [unreadPts_cons_unread hr]
      have hbr : ∀ p ∈ b.pts, T < p.1 ∧ p.1 ≤ b.maxTime := fun p hp => ⟨hall p hp, (sb.wf.mem_range hp).2⟩
      refine ⟨T', by omega, r2, ?_, ?_, ?_, ?_⟩
      · rw [asc_append]
        refine ⟨sb.wf.asc, r3, ?_⟩
        intro p hp q hq
        have := (hbr p hp).2
        have := (r4 q hq).1
        omega
      · intro p hp
        rcases List.mem_append.mp hp with h | h
        · have := hbr p h; omega
        · have := r4 p h; omega
      · intro p hp c hc hcr
        rcases List.mem_append.mp hp with h | h
        · have := (hbr p h).2
          have := hafter c (List.mem_append_right _ hc)
          omega
        · exact r5 p h c hc hcr
      · intro t
        simp only [List.cons_append, restAt, hl, r6 t, lookup_append]
        cases hb : lookup b.pts t with
        | none => simp
        | some v =>
          have hm := lookup_some_mem hb
          have ht := (hbr _ hm).2
          have e1 : lookup (unreadPts P) t = none :=
            lookup_eq_none.mpr (fun q hq heq => by have := (r4 q hq).1; omega)
          have e2 : restAt R t = none := restAt_none_le r2 (by omega)
          simp [e1, e2]

/-! ### the three loops of the fast path -/

/-- is `o` one of these blocks, forwarded as is? -/
def IsPass (P : List (Block V)) (o : OBlk V) : Prop :=
  ∃ b ∈ P, CompactBlock.read b = false ∧ o = passThrough b

theorem passFull_spec (size : Nat) :
    ∀ (L : List (Block V)) (o : List (OBlk V)) (R : List (Block V)), passFull size L = (o, R) →
      ∃ P, L = P ++ R ∧ outPts o = unreadPts P ∧ (∀ x ∈ o, IsPass P x) ∧
        (∀ b ∈ P, CompactBlock.read b = false → size ≤ b.pts.length) ∧
        (∀ b rest, R = b :: rest → CompactBlock.read b = false ∧ b.pts.length < size)
  | [], o, R, h => by
    simp [passFull] at h
    obtain ⟨rfl, rfl⟩ := h
    exact ⟨[], rfl, rfl, by simp, by simp, by simp⟩
  | b :: L, o, R, h => by
    unfold passFull at h
    by_cases hr : CompactBlock.read b = true
    · rw [if_pos hr] at h
      obtain ⟨P, e1, e2, e3, e4, e5⟩ := passFull_spec size L o R h
      refine ⟨b :: P, by simp [e1], by rw [unreadPts_cons_read hr]; exact e2, ?_, ?_, e5⟩
      · intro x hx
        obtain ⟨c, hc, hc'⟩ := e3 x hx
        exact ⟨c, List.mem_cons_of_mem _ hc, hc'⟩
      · intro c hc hcr
        rcases List.mem_cons.mp hc with rfl | hc'
        · rw [hr] at hcr; cases hcr
        · exact e4 c hc' hcr
    · have hr' : CompactBlock.read b = false := by simpa using hr
      rw [if_neg hr] at h
      by_cases hsz : b.pts.length < size
      · rw [if_pos hsz] at h
        simp only [Prod.mk.injEq] at h
        obtain ⟨rfl, rfl⟩ := h
        refine ⟨[], rfl, rfl, by simp, by simp, ?_⟩
        intro c rest hc
        simp only [List.cons.injEq] at hc
        rw [← hc.1]
        exact ⟨hr', hsz⟩
      · rw [if_neg hsz] at h
        cases hp : passFull size L with
        | mk o' R' =>
          rw [hp] at h
          simp only [Prod.mk.injEq] at h
          obtain ⟨rfl, rfl⟩ := h
          obtain ⟨P, e1, e2, e3, e4, e5⟩ := passFull_spec size L o' R' hp
          refine ⟨b :: P, by simp [e1], ?_, ?_, ?_, e5⟩
          · rw [unreadPts_cons_unread hr', outPts_cons, e2]; rfl
          · intro x hx
            rcases List.mem_cons.mp hx with rfl | hx'
            · exact ⟨b, by simp, hr', rfl⟩
            · obtain ⟨c, hc, hc'⟩ := e3 x hx'
              exact ⟨c, List.mem_cons_of_mem _ hc, hc'⟩
          · intro c hc hcr
            rcases List.mem_cons.mp hc with rfl | hc'
            · omega
            · exact e4 c hc' hcr

theorem passFast_spec (L : List (Block V)) :
    outPts (passFast L) = unreadPts L ∧ (∀ x ∈ passFast L, IsPass L x) := by
  constructor
  · simp [passFast, outPts, unreadPts, List.flatMap_map, passThrough]
  · intro x hx
    simp only [passFast, List.mem_map, List.mem_filter, Bool.not_eq_true'] at hx
    obtain ⟨b, ⟨hb, hr⟩, rfl⟩ := hx
    exact ⟨b, hb, hr, rfl⟩

theorem decodeRest_spec {T : Int} (size : Nat) :
    ∀ (L : List (Block V)) (mv : Pts V),
      (∀ b ∈ L, BlockSt T b) → (∀ b ∈ L, Clean b) → Ordered L → Asc mv →
      (∀ p ∈ mv, ∀ b ∈ L, CompactBlock.read b = false → p.1 < b.minTime) →
      ∀ R mv', decodeRest size L mv = .ok (R, mv') →
        ∃ P, L = P ++ R ∧ mv' = mv ++ unreadPts P ∧ (size ≤ mv'.length ∨ R = [])
  | [], mv, _, _, _, _, _, R, mv', h => by
    simp only [decodeRest, pure, Except.pure, Except.ok.injEq, Prod.mk.injEq] at h
    obtain ⟨rfl, rfl⟩ := h
    exact ⟨[], rfl, by simp, Or.inr rfl⟩
  | b :: L, mv, hst, hcl, hord, hasc, hmv, R, mv', h => by
    unfold decodeRest at h
    have sb := hst b (by simp)
    have cb := hcl b (by simp)
    have hstL : ∀ c ∈ L, BlockSt T c := fun c hc => hst c (List.mem_cons_of_mem _ hc)
    have hclL : ∀ c ∈ L, Clean c := fun c hc => hcl c (List.mem_cons_of_mem _ hc)
    have hordL : Ordered L := (List.pairwise_cons.mp hord).2
    by_cases hlt : mv.length < size
    · rw [if_pos hlt] at h
      by_cases hr : CompactBlock.read b = true
      · rw [if_pos hr] at h
        obtain ⟨P, e1, e2, e3⟩ := decodeRest_spec size L mv hstL hclL hordL hasc
          (fun p hp c hc => hmv p hp c (List.mem_cons_of_mem _ hc)) R mv' h
        exact ⟨b :: P, by simp [e1], by rw [unreadPts_cons_read hr]; exact e2, e3⟩
      · have hr' : CompactBlock.read b = false := by simpa using hr
        rw [if_neg hr] at h
        simp only [sb.wf.ptsMax, bind, Except.bind] at h
        rw [cb.1] at h
        simp only [applyTombs, List.foldl_nil] at h
        have hafter : ∀ c ∈ L, b.maxTime < c.minTime := (List.pairwise_cons.mp hord).1
        have happ : vMerge mv b.pts = mv ++ b.pts := by
          apply vMerge_eq_append hasc sb.wf.asc
          intro p hp q hq
          have := hmv p hp b (by simp) hr'
          have := (sb.wf.mem_range hq).1
          omega
        rw [happ] at h
        have hasc' : Asc (mv ++ b.pts) := by
          rw [asc_append]
          refine ⟨hasc, sb.wf.asc, ?_⟩
          intro p hp q hq
          have := hmv p hp b (by simp) hr'
          have := (sb.wf.mem_range hq).1
          omega
        obtain ⟨P, e1, e2, e3⟩ := decodeRest_spec size L (mv ++ b.pts) hstL hclL hordL hasc'
          (by
            intro p hp c hc hcr
            rcases List.mem_append.mp hp with h1 | h1
            · exact hmv p h1 c (List.mem_cons_of_mem _ hc) hcr
            · have := (sb.wf.mem_range h1).2
              have := hafter c hc
              omega) R mv' h
        refine ⟨b :: P, by simp [e1], ?_, e3⟩
        rw [unreadPts_cons_unread hr', e2, List.append_assoc]
    · rw [if_neg hlt] at h
      simp only [pure, Except.pure, Except.ok.injEq, Prod.mk.injEq] at h
      obtain ⟨rfl, rfl⟩ := h
      exact ⟨[], rfl, by simp, Or.inl (by omega)⟩


/-! ### the per-key invariant -/

/-- `O` = every value handed out so far (including the blocks still waiting in `k.merged`),
    `target` = the newest-wins content of the key's input blocks -/
structure KInv (T : Int) (st : KSt V) (O : Pts V) (target : Int → Option V) : Prop where
  hb : ∀ b ∈ st.blocks, BlockSt T b
  hasc : Asc (O ++ st.mv)
  hle : ∀ p ∈ O ++ st.mv, p.1 ≤ T
  hc : ∀ t, target t = (restAt st.blocks t).or (lookup (O ++ st.mv) t)

theorem passThrough_ok {b : Block V} (w : BlockWF b) : OBlkOK (passThrough b) := by
  obtain ⟨a, ha, ha'⟩ := w.hmin
  obtain ⟨z, hz, hz'⟩ := w.hmax
  exact ⟨a, z, ha, hz, ha'.symm, hz'.symm⟩

/-- what a `merge<T>()` call promises -/
structure StepOut (size : Nat) (T : Int) (st st' : KSt V) (O : Pts V) (target : Int → Option V) : Prop where
  hex : ∃ T', T ≤ T' ∧ KInv T' st' (O ++ outPts st'.merged) target
  hout : ∀ o ∈ st'.merged, OBlkOK o ∧ ((1 ≤ o.pts.length ∧ o.pts.length ≤ size) ∨ IsPass st.blocks o)
  hlen : st'.blocks.length ≤ st.blocks.length
  hsame : ∀ b' ∈ st'.blocks, ∃ b ∈ st.blocks, SameStatic b' b
  hempty : 0 < size → st'.merged = [] → st'.mv = [] ∧ st'.blocks = []

/-- `combine<T>(dedup = true)` -/
theorem combine_dedup_spec (cfg : Cfg) {T : Int} {st st' : KSt V} {O : Pts V} {target : Int → Option V}
    (inv : KInv T st O target) (hadj : AdjOK st.blocks)
    (h : combine cfg true st = .ok st') : StepOut cfg.size T st st' O target := by
  unfold combine at h
  simp only [if_true] at h
  have hascO : Asc O := (asc_append.mp inv.hasc).1
  have hascmv : Asc st.mv := (asc_append.mp inv.hasc).2.1
  have hOmv := (asc_append.mp inv.hasc).2.2
  cases hd : dedupLoop cfg.size (st.blocks.length + (st.blocks.map (·.pts.length)).sum + 2) st.blocks st.mv with
  | error e => rw [hd] at h; simp [bind, Except.bind] at h
  | ok r =>
    rw [hd] at h
    simp only [bind, Except.bind] at h
    obtain ⟨T', d1, d2, d3, d4, d5, d6, d7, d8, d9⟩ := dedupLoop_spec cfg.size _ st.blocks st.mv T inv.hb hadj hascmv
      (fun p hp => inv.hle p (List.mem_append_right _ hp)) r.1 r.2 hd
    cases hch : chunk cfg.size [] r.2 with
    | error e => rw [hch] at h; simp at h
    | ok c =>
      rw [hch] at h
      simp only [pure, Except.pure, Except.ok.injEq] at h
      subst h
      obtain ⟨new, c1, c2, c3, c4, c5⟩ := chunk_spec cfg.size [] r.2 c.1 c.2 hch
      simp only [List.nil_append] at c1
      have hOr : ∀ p ∈ O, ∀ q ∈ r.2, p.1 < q.1 := by
        intro p hp q hq
        rcases d5 q hq with h1 | h1
        · exact hOmv p hp q h1
        · have := inv.hle p (List.mem_append_left _ hp); omega
      have hascOr : Asc (O ++ r.2) := asc_append.mpr ⟨hascO, d3, hOr⟩
      have heq : (O ++ outPts c.1) ++ c.2 = O ++ r.2 := by
        rw [c1, List.append_assoc, c2]
      refine ⟨⟨T', d1, ⟨d2, ?_, ?_, ?_⟩⟩, ?_, d7, d9, ?_⟩
      · show Asc ((O ++ outPts c.1) ++ c.2)
        rw [heq]; exact hascOr
      · show ∀ p ∈ (O ++ outPts c.1) ++ c.2, p.1 ≤ T'
        rw [heq]
        intro p hp
        rcases List.mem_append.mp hp with h1 | h1
        · have := inv.hle p (List.mem_append_left _ h1); omega
        · exact d4 p h1
      · show ∀ t, target t = (restAt r.1 t).or (lookup ((O ++ outPts c.1) ++ c.2) t)
        rw [heq]
        intro t
        rw [inv.hc t, lookup_append, lookup_append]
        have := d6 t
        cases hO : lookup O t with
        | none => simpa using this.symm
        | some v =>
          have hm := lookup_some_mem hO
          have hle := inv.hle _ (List.mem_append_left _ hm)
          have e1 : restAt st.blocks t = none := restAt_none_le inv.hb hle
          have e2 : restAt r.1 t = none := restAt_none_le d2 (by simp at hle; omega)
          simp [e1, e2]
      · intro o ho
        rw [c1] at ho
        obtain ⟨h1, h2, h3⟩ := c3 o ho
        exact ⟨h1, Or.inl ⟨h2, h3⟩⟩
      · intro hs hm
        have hnew : new = [] := by rw [← c1]; exact hm
        have hr2 : r.2 = [] := by
          cases hr2 : r.2 with
          | nil => rfl
          | cons x xs => exact absurd hnew (c4 (by rw [hr2]; simp))
        have hc2 : c.2 = [] := c5 (by rw [hr2]; simp)
        refine ⟨hc2, ?_⟩
        rcases d8 with h1 | h1
        · rw [hr2] at h1; simp at h1; omega
        · exact h1

/-- the conditions under which `merge<T>` takes the fast path give clean, time-ordered blocks -/
theorem nodedup_tail_facts :
    ∀ (bs : List (Block V)) (b0 : Block V), (∀ b ∈ bs, BlockWF b) → AdjFrom b0.minTime bs →
      needDedupTail b0 bs = false →
      (∀ c ∈ bs, b0.maxTime < c.minTime) ∧ Ordered bs ∧ ∀ c ∈ bs, Clean c
  | [], _, _, _, _ => ⟨by simp, List.Pairwise.nil, by simp⟩
  | b :: bs, b0, hw, hadj, h => by
    simp only [needDedupTail, Bool.or_eq_false_iff, decide_eq_false_iff_not] at h
    obtain ⟨⟨⟨hp, ho⟩, ht⟩, hrest⟩ := h
    obtain ⟨a1, a2⟩ := hadj
    have wb := hw b (by simp)
    obtain ⟨r1, r2, r3⟩ := nodedup_tail_facts bs b (fun c hc => hw c (List.mem_cons_of_mem _ hc)) a2 hrest
    have hno : ¬ (b.minTime ≤ b0.maxTime ∧ b0.minTime ≤ b.maxTime) := by
      intro hh
      have := (overlaps_iff b b0.minTime b0.maxTime).mpr hh
      rw [this] at ho; cases ho
    have hlt : b0.maxTime < b.minTime := by omega
    have hmm := wb.min_le_max
    refine ⟨?_, ?_, ?_⟩
    · intro c hc
      rcases List.mem_cons.mp hc with rfl | hc2
      · exact hlt
      · have := r1 c hc2; omega
    · exact List.pairwise_cons.mpr ⟨r1, r2⟩
    · intro c hc
      rcases List.mem_cons.mp hc with rfl | hc2
      · exact ⟨List.length_eq_zero_iff.mp (by omega), hp⟩
      · exact r3 c hc2

theorem or_assoc_swap {a b c : Option V} (h : b = none ∨ c = none) : (a.or b).or c = a.or (c.or b) := by
  rcases h with rfl | rfl
  · simp
  · simp

/-- `combine<T>(dedup = false)` -/
theorem combine_nodedup_spec (cfg : Cfg) {T : Int} {st st' : KSt V} {O : Pts V} {target : Int → Option V}
    (inv : KInv T st O target) (hmv : st.mv = []) (hmerged : st.merged = [])
    (hcl : ∀ b ∈ st.blocks, Clean b) (hord : Ordered st.blocks)
    (h : combine cfg false st = .ok st') : StepOut cfg.size T st st' O target := by
  unfold combine at h
  simp only [Bool.false_eq_true, if_false] at h
  -- phase 1
  cases h1 : passFull cfg.size st.blocks with
  | mk o1 R1 =>
  rw [h1] at h
  try dsimp only at h
  obtain ⟨P1, e1, f1, g1, k1, _⟩ := passFull_spec cfg.size st.blocks o1 R1 h1
  -- phase 2
  cases h2 : passFastIf cfg.fast R1 with
  | mk o2 R2 =>
  rw [h2] at h
  try dsimp only at h
  have hph2 : ∃ P2, R1 = P2 ++ R2 ∧ outPts o2 = unreadPts P2 ∧ (∀ x ∈ o2, IsPass P2 x) := by
    unfold passFastIf at h2
    by_cases hf : cfg.fast = true
    · rw [if_pos hf] at h2
      simp only [Prod.mk.injEq] at h2
      obtain ⟨rfl, rfl⟩ := h2
      exact ⟨R1, by simp, (passFast_spec R1).1, (passFast_spec R1).2⟩
    · rw [if_neg hf] at h2
      simp only [Prod.mk.injEq] at h2
      obtain ⟨rfl, rfl⟩ := h2
      exact ⟨[], by simp, rfl, by simp⟩
  obtain ⟨P2, e2, f2, g2⟩ := hph2
  -- phase 3
  cases h3 : passLast R2 with
  | mk o3 R3 =>
  rw [h3] at h
  try dsimp only at h
  have hph3 : ∃ P3, R2 = P3 ++ R3 ∧ outPts o3 = unreadPts P3 ∧ (∀ x ∈ o3, IsPass P3 x) := by
    unfold passLast at h3
    split at h3
    · next b =>
      simp only [Prod.mk.injEq] at h3
      obtain ⟨rfl, rfl⟩ := h3
      refine ⟨[b], by simp, ?_, ?_⟩
      · by_cases hr : CompactBlock.read b = true
        · simp [hr, unreadPts]
        · have hr2 : CompactBlock.read b = false := by simpa using hr
          simp [hr2, unreadPts, passThrough]
      · intro x hx
        by_cases hr : CompactBlock.read b = true
        · simp [hr] at hx
        · have hr2 : CompactBlock.read b = false := by simpa using hr
          simp [hr2] at hx
          exact ⟨b, by simp, hr2, hx⟩
    · simp only [Prod.mk.injEq] at h3
      obtain ⟨rfl, rfl⟩ := h3
      exact ⟨[], by simp, rfl, by simp⟩
  obtain ⟨P3, e3, f3, g3⟩ := hph3
  -- the blocks split as P1 ++ P2 ++ P3 ++ R3
  have hsplit : st.blocks = (P1 ++ P2 ++ P3) ++ R3 := by
    rw [e1, e2, e3]; simp
  have hstR3 : ∀ b ∈ R3, BlockSt T b := fun b hb => inv.hb b (by rw [hsplit]; exact List.mem_append_right _ hb)
  have hclR3 : ∀ b ∈ R3, Clean b := fun b hb => hcl b (by rw [hsplit]; exact List.mem_append_right _ hb)
  have hordR3 : Ordered R3 := by
    have : R3.Sublist st.blocks := by rw [hsplit]; exact List.sublist_append_right _ _
    exact List.Pairwise.sublist this hord
  -- phase 4
  rw [hmv] at h
  cases h4 : decodeRest cfg.size R3 [] with
  | error e => rw [h4] at h; simp [bind, Except.bind] at h
  | ok r4 =>
  rw [h4] at h
  simp only [bind, Except.bind] at h
  obtain ⟨P4, e4, f4, k4⟩ := decodeRest_spec cfg.size R3 [] hstR3 hclR3 hordR3 asc_nil (by simp) r4.1 r4.2 h4
  simp only [List.nil_append] at f4
  -- chunk
  rw [hmerged] at h
  simp only [List.nil_append] at h
  cases h5 : chunk cfg.size (o1 ++ o2 ++ o3) r4.2 with
  | error e => rw [h5] at h; simp at h
  | ok c =>
  rw [h5] at h
  simp only [pure, Except.pure, Except.ok.injEq] at h
  subst h
  obtain ⟨new, c1, c2, c3, c4, c5⟩ := chunk_spec cfg.size (o1 ++ o2 ++ o3) r4.2 c.1 c.2 h5
  -- the consumed prefix
  have hP : st.blocks = (P1 ++ P2 ++ P3 ++ P4) ++ r4.1 := by
    rw [hsplit, e4]; simp
  obtain ⟨T', q1, q2, q3, q4, q5, q6⟩ := consume_prefix (P1 ++ P2 ++ P3 ++ P4) r4.1 T
    (by rw [← hP]; exact inv.hb) (by rw [← hP]; exact hcl) (by rw [← hP]; exact hord)
  have hO : ∀ p ∈ O, p.1 ≤ T := fun p hp => inv.hle p (List.mem_append_left _ hp)
  have hascO : Asc O := (asc_append.mp inv.hasc).1
  have hall : (O ++ outPts c.1) ++ c.2 = O ++ unreadPts (P1 ++ P2 ++ P3 ++ P4) := by
    rw [c1]
    simp only [outPts_append, unreadPts_append, List.append_assoc]
    rw [f1, f2, f3]
    congr 4
    rw [c2, f4]
  refine ⟨⟨T', q1, ⟨q2, ?_, ?_, ?_⟩⟩, ?_, ?_, ?_, ?_⟩
  · show Asc ((O ++ outPts c.1) ++ c.2)
    rw [hall, asc_append]
    refine ⟨hascO, q3, ?_⟩
    intro p hp q hq
    have := hO p hp
    have := (q4 q hq).1
    omega
  · show ∀ p ∈ (O ++ outPts c.1) ++ c.2, p.1 ≤ T'
    rw [hall]
    intro p hp
    rcases List.mem_append.mp hp with hx | hx
    · have := hO p hx; omega
    · exact (q4 p hx).2
  · show ∀ t, target t = (restAt r4.1 t).or (lookup ((O ++ outPts c.1) ++ c.2) t)
    rw [hall]
    intro t
    rw [inv.hc t, hmv, List.append_nil, hP, q6 t, lookup_append]
    apply or_assoc_swap
    cases hu : lookup (unreadPts (P1 ++ P2 ++ P3 ++ P4)) t with
    | none => left; rfl
    | some v =>
      right
      have hm := lookup_some_mem hu
      have := (q4 _ hm).1
      exact lookup_eq_none.mpr (fun p hp heq => by have := hO p hp; omega)
  · intro o ho
    rw [c1] at ho
    have hpass : ∀ P, (∀ b ∈ P, b ∈ st.blocks) → IsPass P o →
        OBlkOK o ∧ ((1 ≤ o.pts.length ∧ o.pts.length ≤ cfg.size) ∨ IsPass st.blocks o) := by
      intro P hPm hp
      obtain ⟨b, hb, hr, rfl⟩ := hp
      exact ⟨passThrough_ok (inv.hb b (hPm b hb)).wf, Or.inr ⟨b, hPm b hb, hr, rfl⟩⟩
    rcases List.mem_append.mp ho with hx | hx
    · rcases List.mem_append.mp hx with hy | hy
      · rcases List.mem_append.mp hy with hz | hz
        · exact hpass P1 (fun b hb => by rw [hsplit]; simp [hb]) (g1 o hz)
        · exact hpass P2 (fun b hb => by rw [hsplit]; simp [hb]) (g2 o hz)
      · exact hpass P3 (fun b hb => by rw [hsplit]; simp [hb]) (g3 o hy)
    · obtain ⟨k1', k2', k3'⟩ := c3 o hx
      exact ⟨k1', Or.inl ⟨k2', k3'⟩⟩
  · show r4.1.length ≤ st.blocks.length
    rw [hP]; simp; omega
  · intro b hb
    exact ⟨b, by rw [hP]; exact List.mem_append_right _ hb, SameStatic.refl b⟩
  · intro hs hm
    show c.2 = [] ∧ r4.1 = []
    have hm2 : o1 ++ o2 ++ o3 ++ new = [] := by rw [← c1]; exact hm
    have hnew : new = [] := (List.append_eq_nil_iff.mp hm2).2
    have hr2 : r4.2 = [] := by
      cases hr2 : r4.2 with
      | nil => rfl
      | cons x xs => exact absurd hnew (c4 (by rw [hr2]; simp))
    refine ⟨c5 (by rw [hr2]; simp), ?_⟩
    rcases k4 with hx | hx
    · rw [hr2] at hx; simp at hx; omega
    · exact hx


/-- what `merge<T>()` needs from the sort on the list `l`: a permutation in which no block lies
    entirely before its predecessor, obtained by exchanging only blocks with disjoint time ranges -/
def SortSpecAt (cfg : Cfg) (l : List (Block V)) : Prop :=
  (∀ b ∈ l, BlockWF b) →
    AdjOK (cfg.sort V l) ∧ (∀ t, restAt (cfg.sort V l) t = restAt l t) ∧
    (∀ b, b ∈ cfg.sort V l ↔ b ∈ l) ∧ (cfg.sort V l).length = l.length

/-- `merge<T>()`, for a sort that behaves on `st.blocks` -/
theorem mergeStep_spec (cfg : Cfg) {T : Int} {st st' : KSt V} {O : Pts V} {target : Int → Option V}
    (inv : KInv T st O target) (hm : st.merged = []) (hsort : SortSpecAt cfg st.blocks)
    (h : mergeStep cfg st = .ok st') : StepOut cfg.size T st st' O target := by
  unfold mergeStep at h
  by_cases hg : st.blocks.length = 0 ∧ st.merged.length = 0 ∧ st.mv.length = 0
  · rw [if_pos hg] at h
    simp only [pure, Except.pure, Except.ok.injEq] at h
    subst h
    refine ⟨⟨T, Int.le_refl _, ?_⟩, ?_, Nat.le_refl _, fun b hb => ⟨b, hb, SameStatic.refl b⟩, ?_⟩
    · rw [hm]; simpa using inv
    · rw [hm]; simp
    · intro _ _
      exact ⟨List.length_eq_zero_iff.mp hg.2.2, List.length_eq_zero_iff.mp hg.1⟩
  · rw [if_neg hg] at h
    dsimp only at h
    have hw : ∀ b ∈ st.blocks, BlockWF b := fun b hb => (inv.hb b hb).wf
    obtain ⟨s1, s2, s3, s4⟩ := hsort hw
    generalize hsorted : cfg.sort V st.blocks = sorted at h s1 s2 s3 s4
    have inv1 : KInv T { st with blocks := sorted } O target := by
      refine ⟨fun b hb => inv.hb b ((s3 b).mp hb), inv.hasc, inv.hle, ?_⟩
      intro t
      show target t = (restAt sorted t).or (lookup (O ++ st.mv) t)
      rw [s2 t]; exact inv.hc t
    -- transfer a StepOut about the sorted state back to `st`
    have transfer : StepOut cfg.size T { st with blocks := sorted } st' O target → StepOut cfg.size T st st' O target := by
      intro so
      refine ⟨so.hex, ?_, ?_, ?_, so.hempty⟩
      · intro o ho
        obtain ⟨k1, k2⟩ := so.hout o ho
        refine ⟨k1, ?_⟩
        rcases k2 with k2 | ⟨b, hb, hr, rfl⟩
        · exact Or.inl k2
        · exact Or.inr ⟨b, (s3 b).mp hb, hr, rfl⟩
      · have := so.hlen
        simp only at this
        omega
      · intro b' hb'
        obtain ⟨b, hb, hs⟩ := so.hsame b' hb'
        exact ⟨b, (s3 b).mp hb, hs⟩
    apply transfer
    generalize hdd : needDedup (decide (st.mv.length ≠ 0)) sorted = dd at h
    unfold needDedup at hdd
    cases dd with
    | true => exact combine_dedup_spec cfg inv1 s1 h
    | false =>
      have hmv : st.mv = [] := by
        cases sorted with
        | nil =>
          simp only [ne_eq, decide_not, Bool.not_eq_eq_eq_not, Bool.not_false, decide_eq_true_eq] at hdd
          exact List.length_eq_zero_iff.mp hdd
        | cons b0 bs =>
          by_cases hz : st.mv.length = 0
          · exact List.length_eq_zero_iff.mp hz
          · simp [hz] at hdd
      have hfacts : (∀ b ∈ sorted, Clean b) ∧ Ordered sorted := by
        cases sorted with
        | nil => exact ⟨by simp, List.Pairwise.nil⟩
        | cons b0 bs =>
          have hz : st.mv.length = 0 := by rw [hmv]; rfl
          simp only [hz, ne_eq, not_true_eq_false, decide_false, Bool.not_false, if_true,
            Bool.or_eq_false_iff, decide_eq_false_iff_not] at hdd
          obtain ⟨⟨ht, hp⟩, htail⟩ := hdd
          have hwS : ∀ b ∈ b0 :: bs, BlockWF b := fun b hb => hw b ((s3 b).mp hb)
          obtain ⟨r1, r2, r3⟩ := nodedup_tail_facts bs b0 (fun c hc => hwS c (List.mem_cons_of_mem _ hc)) s1 htail
          refine ⟨?_, List.pairwise_cons.mpr ⟨r1, r2⟩⟩
          intro c hc
          rcases List.mem_cons.mp hc with rfl | hc2
          · exact ⟨List.length_eq_zero_iff.mp (by omega), hp⟩
          · exact r3 c hc2
      exact combine_nodedup_spec cfg inv1 hmv hm hfacts.1 hfacts.2 h

end Influx.Model.Compact
