/-
  Lemmas.TSIInvStruct — the partition invariant through log roll, log-file compaction,
  index-file merges, the background compaction fixpoint and reopen.
-/
import Influx.Lemmas.TSIInvDrop

namespace Influx.Model.TSI

/-! #### roll -/

theorem measFlag_empty (n : String) : measFlag n {} = none := by simp [measFlag, alookup]

theorem pinv_roll {exc : String → Prop} {sf : SFile} {live : List Nat} {i : Nat} {p : Partition}
    (hp : PInvX exc sf live i p) :
    PInvX exc sf live i { p with files := newLog :: p.files, opStart := 0 } := by
  have hdatas : ({ p with files := newLog :: p.files, opStart := 0 } : Partition).datas = {} :: p.datas := rfl
  exact {
    head := ⟨newLog, p.files, rfl, rfl⟩
    loginv := fun f hf hl => by
      rcases List.mem_cons.mp hf with rfl | hf
      · rfl
      · exact hp.loginv f hf hl
    eknown := fun f hf e he => by
      rcases List.mem_cons.mp hf with rfl | hf
      · simp [newLog] at he
      · exact hp.eknown f hf e he
    noflags := fun f hf => by
      rcases List.mem_cons.mp hf with rfl | hf
      · exact noflags_empty
      · exact hp.noflags f hf
    sound := fun f hf => by
      rcases List.mem_cons.mp hf with rfl | hf
      · exact sound_empty sf
      · exact hp.sound f hf
    comp := fun x t hx ht hpx => by
      obtain ⟨f, hf, h⟩ := hp.comp x t hx ht hpx
      exact ⟨f, List.mem_cons_of_mem _ hf, h⟩
    notomb := fun f hf x hx => by
      rcases List.mem_cons.mp hf with rfl | hf
      · simp [newLog]
      · exact hp.notomb f hf x hx
    tknown := fun f hf x hx => by
      rcases List.mem_cons.mp hf with rfl | hf
      · simp [newLog] at hx
      · exact hp.tknown f hf x hx
    sset := hp.sset
    stat := fun x => by
      rw [hdatas, status_cons]
      simpa using hp.stat x
    mflive := fun x t hx ht hpx => by
      rw [hdatas, firstSome_cons, measFlag_empty]
      exact hp.mflive x t hx ht hpx
    mfdead := fun n hn => by
      rw [hdatas, firstSome_cons, measFlag_empty] at hn
      exact hp.mfdead n hn }

/-! #### replacing a segment of older files by one index file -/

/-- `g` can stand for the adjacent files `seg` (newest first). -/
structure Replaces (sf : SFile) (seg : List File) (g : File) : Prop where
  notlog : g.isLog = false
  noentries : g.entries = []
  noflags : NoFlags g.data
  sound : Sound sf g.data
  flag : ∀ n, measFlag n g.data = firstSome (measFlag n) (seg.map (·.data))
  meas : ∀ n x, x ∈ fileMeasSeries n g.data ↔ ∃ f ∈ seg, x ∈ fileMeasSeries n f.data
  val : ∀ n k v x, x ∈ fileValSeries n k v g.data ↔ ∃ f ∈ seg, x ∈ fileValSeries n k v f.data
  stat : ∀ x, status x [g.data] = status x (seg.map (·.data))
  tomb : ∀ x ∈ g.data.tomb, ∃ f ∈ seg, x ∈ f.data.tomb

theorem firstSome_segment {β : Type} (get : FileData → Option β) (pre seg post : List FileData)
    (g : FileData) (h : get g = firstSome get seg) :
    firstSome get (pre ++ g :: post) = firstSome get (pre ++ seg ++ post) := by
  rw [firstSome_append, List.append_assoc, firstSome_append, firstSome_append, firstSome_cons, h]
  all_goals (cases firstSome get pre <;> cases firstSome get seg <;> rfl)

theorem status_segment (x : Nat) (pre seg post : List FileData) (g : FileData)
    (h : status x [g] = status x seg) :
    status x (pre ++ g :: post) = status x (pre ++ seg ++ post) := by
  unfold status at h ⊢
  apply firstSome_segment
  rw [← h]
  simp only [firstSome]
  generalize (if x ∈ g.sset then some true else if x ∈ g.tomb then some false else none) = o
  cases o <;> rfl

/-- a segment that excludes the active log may be replaced by a file that stands for it. -/
theorem pinv_replace {exc : String → Prop} {sf : SFile} {live : List Nat} {i : Nat} {p : Partition}
    (hp : PInvX exc sf live i p) (a : File) (pre seg post : List File) (g : File)
    (hfiles : p.files = a :: pre ++ seg ++ post) (hseg : seg ≠ [])
    (hg : Replaces sf seg g) :
    PInvX exc sf live i { p with files := a :: pre ++ g :: post } := by
  have halog : a.isLog = true := by
    obtain ⟨a', rest, h, hl⟩ := hp.head
    rw [hfiles] at h
    simp only [List.cons_append, List.cons.injEq] at h
    rw [h.1]; exact hl
  have hmem_old : ∀ f, f ∈ a :: pre ++ g :: post → f = g ∨ f ∈ p.files := by
    intro f hf
    rw [hfiles]
    simp only [List.cons_append, List.mem_cons, List.mem_append] at hf ⊢
    rcases hf with h | h | h | h
    · exact Or.inr (Or.inl h)
    · exact Or.inr (Or.inr (Or.inl (Or.inl h)))
    · exact Or.inl h
    · exact Or.inr (Or.inr (Or.inr h))
  have hsegmem : ∀ f ∈ seg, f ∈ p.files := by
    intro f hf
    rw [hfiles]
    simp only [List.cons_append, List.mem_cons, List.mem_append]
    exact Or.inr (Or.inl (Or.inr hf))
  have hdatas0 : p.datas = (a :: pre).map (·.data) ++ seg.map (·.data) ++ post.map (·.data) := by
    unfold Partition.datas; rw [hfiles]; simp
  have hdatas : ({ p with files := a :: pre ++ g :: post } : Partition).datas =
      (a :: pre).map (·.data) ++ g.data :: post.map (·.data) := by
    unfold Partition.datas; simp
  exact {
    head := ⟨a, pre ++ g :: post, rfl, halog⟩
    loginv := fun f hf hl => by
      rcases hmem_old f hf with rfl | h
      · rw [hg.notlog] at hl; exact absurd hl (by simp)
      · exact hp.loginv f h hl
    eknown := fun f hf e he => by
      rcases hmem_old f hf with rfl | h
      · rw [hg.noentries] at he; simp at he
      · exact hp.eknown f h e he
    noflags := fun f hf => by
      rcases hmem_old f hf with rfl | h
      · exact hg.noflags
      · exact hp.noflags f h
    sound := fun f hf => by
      rcases hmem_old f hf with rfl | h
      · exact hg.sound
      · exact hp.sound f h
    comp := fun x t hx ht hpx => by
      obtain ⟨f, hf, hm, hv⟩ := hp.comp x t hx ht hpx
      by_cases hfs : f ∈ seg
      · refine ⟨g, by simp, (hg.meas _ _).mpr ⟨f, hfs, hm⟩, fun k v hkv => (hg.val _ _ _ _).mpr ⟨f, hfs, hv k v hkv⟩⟩
      · refine ⟨f, ?_, hm, hv⟩
        rw [hfiles] at hf
        simp only [List.cons_append, List.mem_cons, List.mem_append] at hf ⊢
        rcases hf with h | (h | h) | h
        · exact Or.inl h
        · exact Or.inr (Or.inl h)
        · exact absurd h hfs
        · exact Or.inr (Or.inr (Or.inr h))
    notomb := fun f hf x hx => by
      rcases hmem_old f hf with rfl | h
      · intro hxt
        obtain ⟨f', hf', hxf'⟩ := hg.tomb x hxt
        exact hp.notomb f' (hsegmem f' hf') x hx hxf'
      · exact hp.notomb f h x hx
    tknown := fun f hf x hx => by
      rcases hmem_old f hf with rfl | h
      · obtain ⟨f', hf', hxf'⟩ := hg.tomb x hx
        exact hp.tknown f' (hsegmem f' hf') x hxf'
      · exact hp.tknown f h x hx
    sset := hp.sset
    stat := fun x => by
      rw [hdatas, status_segment x _ (seg.map (·.data)) _ _ (hg.stat x), ← hdatas0]
      exact hp.stat x
    mflive := fun x t hx ht hpx => by
      rw [hdatas, firstSome_segment (measFlag t.name) _ (seg.map (·.data)) _ _ (hg.flag t.name), ← hdatas0]
      exact hp.mflive x t hx ht hpx
    mfdead := fun n hn => by
      rw [hdatas, firstSome_segment (measFlag n) _ (seg.map (·.data)) _ _ (hg.flag n), ← hdatas0] at hn
      exact hp.mfdead n hn }

/-! #### the two kinds of compaction produce replacements -/

theorem replaces_compactLog {sf : SFile} (f : File) (hnf : NoFlags f.data) (hs : Sound sf f.data) :
    Replaces sf [f] { isLog := false, level := 1, data := compactLogData f.data } where
  notlog := rfl
  noentries := rfl
  noflags := compactLog_noflags hnf
  sound := compactLog_sound hs hnf
  flag n := by simp [firstSome, compactLog_measFlag]; cases measFlag n f.data <;> rfl
  meas n x := by simp [compactLog_fileMeasSeries]
  val n k v x := by
    simp only [List.mem_singleton, exists_eq_left]
    rw [fileValSeries_eq, fileValSeries_eq, compactLog_valElem_noflags hnf]
  stat x := rfl
  tomb x hx := ⟨f, by simp, hx⟩

theorem status_merge_two (x : Nat) (a b : FileData) :
    status x [mergeData [a, b]] = status x [a, b] := by
  have hs : ∀ y, y ∈ (mergeData [a, b]).sset ↔ (y ∈ b.sset ∧ y ∉ a.tomb) ∨ y ∈ a.sset := by
    intro y
    simp [mergeData, mergeSets, mem_sunion, mem_sdiff]
  have ht : ∀ y, y ∈ (mergeData [a, b]).tomb ↔ ((y ∈ b.tomb ∧ y ∉ b.sset) ∨ y ∈ a.tomb) ∧ y ∉ a.sset := by
    intro y
    simp [mergeData, mergeSets, mem_sunion, mem_sdiff]
  simp only [status_cons, status, firstSome]
  by_cases h1 : x ∈ a.sset
  · simp [hs, h1]
  · by_cases h2 : x ∈ a.tomb
    · simp [hs, ht, h1, h2]
    · by_cases h3 : x ∈ b.sset
      · simp [hs, h1, h2, h3]
      · by_cases h4 : x ∈ b.tomb <;> simp [hs, ht, h1, h2, h3, h4]

theorem replaces_merge {sf : SFile} (a b : File) (level : Nat)
    (hnfa : NoFlags a.data) (hnfb : NoFlags b.data) (hsa : Sound sf a.data) (hsb : Sound sf b.data) :
    Replaces sf [a, b] { isLog := false, level := level, data := mergeData [a.data, b.data] } := by
  have hnf : ∀ f ∈ [a.data, b.data], NoFlags f := by
    intro f hf
    simp only [List.mem_cons, List.not_mem_nil, or_false] at hf
    rcases hf with rfl | rfl <;> assumption
  have hsnd : ∀ f ∈ [a.data, b.data], Sound sf f := by
    intro f hf
    simp only [List.mem_cons, List.not_mem_nil, or_false] at hf
    rcases hf with rfl | rfl <;> assumption
  exact {
    notlog := rfl
    noentries := rfl
    noflags := merge_noflags _ hnf
    sound := merge_sound hsnd hnf
    flag := fun n => by simp [merge_measFlag]
    meas := fun n x => by
      simp only
      rw [merge_mem_fileMeasSeries]; simp
    val := fun n k v x => by
      simp only
      rw [merge_mem_fileValSeries _ hnf]; simp
    stat := fun x => by simpa using status_merge_two x a.data b.data
    tomb := fun x hx => by
      have : x ∈ (mergeData [a.data, b.data]).tomb := hx
      simp [mergeData, mergeSets, mem_sunion, mem_sdiff] at this
      rcases this.1 with h | h
      · exact ⟨b, by simp, h.1⟩
      · exact ⟨a, by simp, h⟩ }

/-! #### where the compactions act -/

def logToIndex (f : File) : File := { isLog := false, level := 1, data := compactLogData f.data }

theorem compactOldestLog_go_some (l l' : List File) (h : compactOldestLog.go l = some l') :
    ∃ pre f post, l = pre ++ f :: post ∧ f.isLog = true ∧ l' = pre ++ logToIndex f :: post := by
  induction l generalizing l' with
  | nil => simp [compactOldestLog.go] at h
  | cons f fs ih =>
    unfold compactOldestLog.go at h
    cases hg : compactOldestLog.go fs with
    | some fs' =>
      simp only [hg, Option.some.injEq] at h
      obtain ⟨pre, f0, post, h1, h2, h3⟩ := ih fs' hg
      exact ⟨f :: pre, f0, post, by rw [h1]; rfl, h2, by rw [← h, h3]; rfl⟩
    | none =>
      simp only [hg] at h
      split at h
      · next hl =>
        simp only [Option.some.injEq] at h
        exact ⟨[], f, fs, rfl, hl, by rw [← h]; rfl⟩
      · simp at h

theorem compactNewestLog_go_some (l l' : List File) (h : compactNewestLog.go l = some l') :
    ∃ pre f post, l = pre ++ f :: post ∧ f.isLog = true ∧ l' = pre ++ logToIndex f :: post := by
  induction l generalizing l' with
  | nil => simp [compactNewestLog.go] at h
  | cons f fs ih =>
    unfold compactNewestLog.go at h
    split at h
    · next hl =>
      simp only [Option.some.injEq] at h
      exact ⟨[], f, fs, rfl, hl, by rw [← h]; rfl⟩
    · cases hg : compactNewestLog.go fs with
      | none => simp [hg] at h
      | some fs' =>
        simp only [hg, Option.map_some, Option.some.injEq] at h
        obtain ⟨pre, f0, post, h1, h2, h3⟩ := ih fs' hg
        exact ⟨f :: pre, f0, post, by rw [h1]; rfl, h2, by rw [← h, h3]; rfl⟩

def mergedFile (level : Nat) (a b : File) : File :=
  { isLog := false, level := level + 1, data := mergeData [a.data, b.data] }

theorem mergeOldestTwo_some (level : Nat) (rev r : List File) (h : mergeOldestTwo level rev = some r) :
    ∃ postRev b a preRev, rev = postRev ++ b :: a :: preRev ∧
      r = postRev ++ mergedFile level a b :: preRev := by
  induction rev generalizing r with
  | nil => simp [mergeOldestTwo] at h
  | cons b rest ih =>
    unfold mergeOldestTwo at h
    split at h
    · cases hg : mergeOldestTwo level rest with
      | none => simp [hg] at h
      | some r' =>
        simp only [hg, Option.map_some, Option.some.injEq] at h
        obtain ⟨postRev, b0, a0, preRev, h1, h2⟩ := ih r' hg
        exact ⟨b :: postRev, b0, a0, preRev, by rw [h1]; rfl, by rw [← h, h2]; rfl⟩
    · split at h
      · simp at h
      · split at h
        · next a rest' =>
          split at h
          · simp only [Option.some.injEq] at h
            exact ⟨[], b, a, rest', rfl, by rw [← h]; rfl⟩
          · simp at h
        · simp at h

/-- log-file compaction of a non-active log keeps the invariant. -/
theorem pinv_logToIndex {exc : String → Prop} {sf : SFile} {live : List Nat} {i : Nat} {p : Partition}
    (hp : PInvX exc sf live i p) (a : File) (pre : List File) (f : File) (post : List File)
    (hfiles : p.files = a :: (pre ++ f :: post)) :
    PInvX exc sf live i { p with files := a :: (pre ++ logToIndex f :: post) } := by
  have hf : f ∈ p.files := by rw [hfiles]; simp
  have := pinv_replace hp a pre [f] post (logToIndex f) (by rw [hfiles]; simp) (by simp)
    (replaces_compactLog f (hp.noflags f hf) (hp.sound f hf))
  simpa using this

theorem pinv_compactOldestLog {exc : String → Prop} {sf : SFile} {live : List Nat} {i : Nat}
    {p : Partition} (hp : PInvX exc sf live i p) :
    PInvX exc sf live i { p with files := compactOldestLog p.files } := by
  obtain ⟨a, rest, hfiles, _⟩ := hp.head
  rw [hfiles]
  unfold compactOldestLog
  cases hg : compactOldestLog.go rest with
  | none =>
    simp only [hg, Option.getD_none]
    have : ({ p with files := a :: rest } : Partition) = p := by rw [← hfiles]
    rw [this]; exact hp
  | some l' =>
    simp only [hg, Option.getD_some]
    obtain ⟨pre, f, post, h1, _, h3⟩ := compactOldestLog_go_some rest l' hg
    rw [h3]
    exact pinv_logToIndex hp a pre f post (by rw [hfiles, h1])

theorem pinv_mergeTwo {exc : String → Prop} {sf : SFile} {live : List Nat} {i : Nat} {p : Partition}
    (hp : PInvX exc sf live i p) (a0 : File) (pre : List File) (a b : File) (post : List File)
    (level : Nat) (hfiles : p.files = a0 :: (pre ++ a :: b :: post)) :
    PInvX exc sf live i { p with files := a0 :: (pre ++ mergedFile level a b :: post) } := by
  have ha : a ∈ p.files := by rw [hfiles]; simp
  have hb : b ∈ p.files := by rw [hfiles]; simp
  have := pinv_replace hp a0 pre [a, b] post (mergedFile level a b) (by rw [hfiles]; simp) (by simp)
    (replaces_merge a b (level + 1) (hp.noflags a ha) (hp.noflags b hb) (hp.sound a ha) (hp.sound b hb))
  simpa using this

theorem pinv_compactLevel {exc : String → Prop} {sf : SFile} {live : List Nat} {i : Nat}
    {p : Partition} (hp : PInvX exc sf live i p) (level : Nat) :
    PInvX exc sf live i { p with files := compactLevelFiles p.files level } := by
  have hsame : ({ p with files := p.files } : Partition) = p := rfl
  unfold compactLevelFiles
  split
  · exact hp
  · obtain ⟨a0, rest, hfiles, _⟩ := hp.head
    rw [hfiles]
    simp only
    cases hg : mergeOldestTwo level rest.reverse with
    | none =>
      simp only
      have : ({ p with files := a0 :: rest } : Partition) = p := by rw [← hfiles]
      rw [this]; exact hp
    | some r =>
      simp only
      obtain ⟨postRev, b, a, preRev, h1, h2⟩ := mergeOldestTwo_some level rest.reverse r hg
      have hrest : rest = preRev.reverse ++ a :: b :: postRev.reverse := by
        have := congrArg List.reverse h1
        simpa using this
      have hr : r.reverse = preRev.reverse ++ mergedFile level a b :: postRev.reverse := by
        rw [h2]; simp
      rw [hr]
      exact pinv_mergeTwo hp a0 preRev.reverse a b postRev.reverse level (by rw [hfiles, hrest])

theorem pinv_settleStep {exc : String → Prop} {sf : SFile} {live : List Nat} {i : Nat}
    {p : Partition} (hp : PInvX exc sf live i p) (fs : List File) (h : settleStep p.files = some fs) :
    PInvX exc sf live i { p with files := fs } := by
  unfold settleStep at h
  cases hc : compactNewestLog p.files with
  | some l =>
    simp only [hc, Option.some.injEq] at h
    subst h
    obtain ⟨a, rest, hfiles, _⟩ := hp.head
    rw [hfiles] at hc
    unfold compactNewestLog at hc
    cases hg : compactNewestLog.go rest with
    | none => simp [hg] at hc
    | some l' =>
      simp only [hg, Option.map_some, Option.some.injEq] at hc
      obtain ⟨pre, f, post, h1, _, h3⟩ := compactNewestLog_go_some rest l' hg
      rw [← hc, h3]
      exact pinv_logToIndex hp a pre f post (by rw [hfiles, h1])
  | none =>
    simp only [hc] at h
    cases hl : [1, 2, 3, 4, 5, 6].find? (fun l => (mergeOldestTwo l p.files.tail.reverse).isSome) with
    | none => simp [hl] at h
    | some l =>
      simp only [hl, Option.map_some, Option.some.injEq] at h
      subst h
      exact pinv_compactLevel hp l

theorem pinv_settle {exc : String → Prop} {sf : SFile} {live : List Nat} {i : Nat} (fuel : Nat) :
    ∀ {p : Partition}, PInvX exc sf live i p → PInvX exc sf live i { p with files := settle fuel p.files } := by
  induction fuel with
  | zero => intro p hp; exact hp
  | succ n ih =>
    intro p hp
    unfold settle
    cases hs : settleStep p.files with
    | none => exact hp
    | some fs =>
      simp only
      have h1 := pinv_settleStep hp fs hs
      have h2 := ih h1
      exact h2

/-- **reopen** (`Index.Open`): log files are replayed, the series-id set is rebuilt from the
    files, the background compaction runs to its fixpoint — nothing the invariant speaks of
    changes. -/
theorem pinv_reopen {exc : String → Prop} {sf : SFile} {live : List Nat} {i : Nat} {p : Partition}
    (hp : PInvX exc sf live i p) : PInvX exc sf live i (p.reopen sf) := by
  unfold Partition.reopen
  simp only
  -- replay reproduces every log file's content
  have hmap : p.files.map (fun f => if f.isLog then { f with data := replay sf f.entries } else f) = p.files := by
    have : ∀ f ∈ p.files, (if f.isLog then { f with data := replay sf f.entries } else f) = f := by
      intro f hf
      split
      · next hl => rw [← hp.loginv f hf hl]
      · rfl
    conv => rhs; rw [← List.map_id p.files]
    exact List.map_congr_left this
  rw [hmap]
  -- the rebuilt id set is the old one, as a set
  have hp' : PInvX exc sf live i { p with sset := buildSeriesSet (p.files.map (·.data)) } := by
    refine { hp with sset := ?_ }
    intro x
    rw [mem_buildSeriesSet]
    exact hp.stat x
  have := pinv_settle (8 * p.files.length + 8) hp'
  exact this

end Influx.Model.TSI
