/-
  Lemmas.KCFiles — from the files as written (Spec.C06.FileSpec) to the cursor's locations:
  what `fileStates`, `locations` and `applyOrder` produce.
-/
import Influx.Lemmas.KCDelete
import Influx.Lemmas.KCBlocks
import Influx.Model.KCRun

namespace Influx.KC
open Influx.Generated.KeyCursor Influx.Spec.C06

variable {V : Type}

/-! ### sorted integer lists -/

theorem sortedInts_pairwise : ∀ (l : List Int), sortedInts l = true → l.Pairwise (· < ·)
  | [], _ => List.Pairwise.nil
  | [_], _ => by simp
  | a :: b :: r, h => by
    simp only [sortedInts, Bool.and_eq_true, decide_eq_true_eq] at h
    have ih := sortedInts_pairwise (b :: r) h.2
    apply List.pairwise_cons.2
    refine ⟨?_, ih⟩
    intro x hx
    rcases List.mem_cons.1 hx with rfl | hx
    · exact h.1
    · have := (List.pairwise_cons.1 ih).1 x hx
      omega

theorem head_le_of_sorted {l : List Int} (h : l.Pairwise (· < ·)) {a : Int} (ha : l.head? = some a) :
    ∀ x ∈ l, a ≤ x := by
  cases l with
  | nil => cases ha
  | cons y ys =>
    simp at ha; subst ha
    intro x hx
    rcases List.mem_cons.1 hx with rfl | hx
    · exact Int.le_refl _
    · exact Int.le_of_lt ((List.pairwise_cons.1 h).1 x hx)

theorem le_last_of_sorted {l : List Int} (h : l.Pairwise (· < ·)) {z : Int} (hz : l.getLast? = some z) :
    ∀ x ∈ l, x ≤ z := by
  obtain ⟨ys, rfl⟩ := List.getLast?_eq_some_iff.1 hz
  intro x hx
  rcases List.mem_append.1 hx with hx | hx
  · exact Int.le_of_lt ((List.pairwise_append.1 h).2.2 x hx z (by simp))
  · simp at hx; subst hx; exact Int.le_refl _

/-! ### tagged blocks and their index entries -/

/-- the points of a block written to file `fi` -/
def tag (fi : Nat) (b : List Int) : Vals Nat := b.map fun ts => (ts, fi)

theorem mem_tag {fi : Nat} {b : List Int} {p : Int × Nat} : p ∈ tag fi b ↔ p.1 ∈ b ∧ p.2 = fi := by
  unfold tag
  constructor
  · intro h
    obtain ⟨ts, hts, rfl⟩ := List.mem_map.1 h
    exact ⟨hts, rfl⟩
  · rintro ⟨h1, h2⟩
    exact List.mem_map.2 ⟨p.1, h1, by rw [← h2]⟩

theorem keys_tag (fi : Nat) (b : List Int) : keys (tag fi b) = b := by
  unfold keys tag; simp [List.map_map, Function.comp_def]

theorem sortedV_tag {fi : Nat} {b : List Int} (h : b.Pairwise (· < ·)) : SortedV (tag fi b) := by
  unfold SortedV tag
  exact List.pairwise_map.2 h

theorem minTime?_tag (fi : Nat) (b : List Int) : minTime? (tag fi b) = b.head? := by
  unfold minTime? tag; cases b <;> simp
theorem maxTime?_tag (fi : Nat) (b : List Int) : maxTime? (tag fi b) = b.getLast? := by
  unfold maxTime? tag; simp [List.getLast?_map, Option.map_map, Function.comp_def]

/-- the index entry of a non-empty block -/
def entryOfInts (b : List Int) : IndexEntry := { MinTime := b.head?.getD 0, MaxTime := b.getLast?.getD 0 }

theorem mkEntries_tag (fi : Nat) : ∀ (bs : List (List Int)), (∀ b ∈ bs, b ≠ []) →
    mkEntries (bs.map (tag fi)) = some (bs.map fun b => (entryOfInts b, tag fi b))
  | [], _ => rfl
  | b :: bs, h => by
    have hb : b ≠ [] := h b (List.mem_cons_self ..)
    have ih := mkEntries_tag fi bs (fun x hx => h x (List.mem_cons_of_mem _ hx))
    simp only [List.map_cons, mkEntries, minTime?_tag, maxTime?_tag, ih]
    obtain ⟨a, ha⟩ : ∃ a, b.head? = some a := by
      cases b with
      | nil => exact absurd rfl hb
      | cons a _ => exact ⟨a, rfl⟩
    obtain ⟨z, hz⟩ : ∃ z, b.getLast? = some z := by
      cases hl : b.getLast? with
      | none => exact absurd (List.getLast?_eq_none_iff.1 hl) hb
      | some z => exact ⟨z, rfl⟩
    simp [ha, hz, entryOfInts]

/-! ### the file states -/

theorem fileStatesFrom_spec : ∀ (files : List FileSpec) (i : Nat) (sts : List (FileState Nat)),
    fileStatesFrom i files = some sts →
    sts.length = files.length ∧
    ∀ k f, files[k]? = some f → ∃ st, sts[k]? = some st ∧ fileState (i + k) f = some st
  | [], i, sts, h => by
    simp [fileStatesFrom] at h; subst h; simp
  | f :: fs, i, sts, h => by
    simp only [fileStatesFrom] at h
    cases h1 : fileState i f with
    | none => simp [h1] at h
    | some st =>
      cases h2 : fileStatesFrom (i + 1) fs with
      | none => simp [h1, h2] at h
      | some rest =>
        simp [h1, h2] at h
        subst h
        obtain ⟨ih1, ih2⟩ := fileStatesFrom_spec fs (i + 1) rest h2
        refine ⟨by simp [ih1], ?_⟩
        intro k g hk
        cases k with
        | zero =>
          simp at hk; subst hk
          exact ⟨st, by simp, by simpa using h1⟩
        | succ k =>
          simp at hk
          obtain ⟨st', hs1, hs2⟩ := ih2 k g hk
          refine ⟨st', by simpa using hs1, ?_⟩
          have : i + (k + 1) = i + 1 + k := by omega
          rw [this]; exact hs2

/-! ### locations -/

theorem mem_fileLocations {t : Int} {asc : Bool} {fi : Nat} {st : FileState V} {b : Block V} :
    b ∈ fileLocations t asc fi st ↔
      ∃ bi e vals, st.entries[bi]? = some (e, vals) ∧ keepEntry st.tombs t asc e = true ∧
        b = { file := fi, blk := bi, entry := e, vals := vals, tombs := st.tombs } := by
  unfold fileLocations
  rw [List.mem_filterMap]
  constructor
  · rintro ⟨⟨ev, bi⟩, hmem, hf⟩
    have := List.mem_zipIdx_iff_getElem?.1 hmem
    simp only at this hf
    split at hf
    · rename_i hk
      simp at hf
      exact ⟨bi, ev.1, ev.2, by simpa using this, hk, hf.symm⟩
    · cases hf
  · rintro ⟨bi, e, vals, hget, hk, rfl⟩
    refine ⟨((e, vals), bi), List.mem_zipIdx_iff_getElem?.2 (by simpa using hget), ?_⟩
    simp [hk]

theorem mem_locations {sts : List (FileState V)} {t : Int} {asc : Bool} {b : Block V} :
    b ∈ locations sts t asc ↔
      ∃ fi st, sts[fi]? = some st ∧ ∃ bi e vals, st.entries[bi]? = some (e, vals) ∧
        keepEntry st.tombs t asc e = true ∧
        b = { file := fi, blk := bi, entry := e, vals := vals, tombs := st.tombs } := by
  unfold locations
  rw [List.mem_flatMap]
  constructor
  · rintro ⟨⟨st, fi⟩, hmem, hb⟩
    have := List.mem_zipIdx_iff_getElem?.1 hmem
    exact ⟨fi, st, by simpa using this, mem_fileLocations.1 hb⟩
  · rintro ⟨fi, st, hget, h⟩
    exact ⟨(st, fi), List.mem_zipIdx_iff_getElem?.2 (by simpa using hget), mem_fileLocations.2 h⟩

/-- a location is determined by (file, entry index) -/
theorem locations_id_unique {sts : List (FileState V)} {t : Int} {asc : Bool} {b c : Block V}
    (hb : b ∈ locations sts t asc) (hc : c ∈ locations sts t asc)
    (h1 : b.file = c.file) (h2 : b.blk = c.blk) : b = c := by
  obtain ⟨fi, st, hst, bi, e, vals, hent, _, rfl⟩ := mem_locations.1 hb
  obtain ⟨fi', st', hst', bi', e', vals', hent', _, rfl⟩ := mem_locations.1 hc
  simp only at h1 h2
  subst h1 h2
  rw [hst] at hst'
  cases hst'
  rw [hent] at hent'
  cases hent'
  rfl

/-! ### applyOrder -/

theorem lookupAll_spec {locs : List (Block V)} : ∀ (order : List (Nat × Nat)) (seeks : List (Block V)),
    lookupAll locs order = some seeks →
    (∀ b ∈ seeks, b ∈ locs) ∧ ∀ id ∈ order, ∃ b ∈ seeks, b.file = id.1 ∧ b.blk = id.2
  | [], seeks, h => by
    simp [lookupAll] at h; subst h; simp
  | (fi, bi) :: rest, seeks, h => by
    simp only [lookupAll] at h
    cases h1 : locs.find? (fun b => b.file == fi && b.blk == bi) with
    | none => simp [h1] at h
    | some b =>
      cases h2 : lookupAll locs rest with
      | none => simp [h1, h2] at h
      | some bs =>
        simp [h1, h2] at h
        subst h
        obtain ⟨ih1, ih2⟩ := lookupAll_spec rest bs h2
        have hbm := List.mem_of_find?_eq_some h1
        have hbp := List.find?_some h1
        simp only [Bool.and_eq_true, beq_iff_eq] at hbp
        constructor
        · intro x hx
          rcases List.mem_cons.1 hx with rfl | hx
          · exact hbm
          · exact ih1 x hx
        · intro id hid
          rcases List.mem_cons.1 hid with rfl | hid
          · exact ⟨b, List.mem_cons_self .., hbp.1, hbp.2⟩
          · obtain ⟨x, hx, h3⟩ := ih2 id hid
            exact ⟨x, List.mem_cons_of_mem _ hx, h3⟩

/-- `seeks` and the locations have the same elements -/
theorem applyOrder_mem {sts : List (FileState V)} {t : Int} {asc : Bool} {order : List (Nat × Nat)}
    {seeks : List (Block V)} (h : applyOrder (locations sts t asc) order = some seeks) (b : Block V) :
    b ∈ seeks ↔ b ∈ locations sts t asc := by
  unfold applyOrder at h
  split at h
  · cases h
  · split at h
    · cases h
    · split at h
      · cases h
      · rename_i hall
        simp only [Bool.not_eq_true', Bool.not_eq_false, List.all_eq_true, List.contains_iff_mem] at hall
        obtain ⟨h1, h2⟩ := lookupAll_spec order seeks h
        constructor
        · exact h1 b
        · intro hb
          have hid : (b.file, b.blk) ∈ order := by
            have := hall b hb
            simpa using this
          obtain ⟨c, hc, hc1, hc2⟩ := h2 _ hid
          have := locations_id_unique (h1 c hc) hb hc1 hc2
          rw [← this]; exact hc

end Influx.KC
