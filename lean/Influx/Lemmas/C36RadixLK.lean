/-
  Lemmas.C36RadixLK — `Insert` stores every key at its own position.
-/
import Influx.Lemmas.C36RadixWalk

namespace Influx.Radix

theorem Edges.LK_add (path : Key) (l : Nat) (n : Node) (hn : Node.LK (path ++ n.pre) n) :
    ∀ (es : Edges), Edges.LK path es → Edges.LK path (Edges.add l n es)
  | .nil, _ => by simp [Edges.add, Edges.LK, hn]
  | .cons l' n' r, h => by
    simp only [Edges.add]
    split
    · exact ⟨h.1, Edges.LK_add path l n hn r h.2⟩
    · exact ⟨hn, h⟩

theorem leafNode_LK (path pre s : Key) (v : Int) (h : s = path) : Node.LK path (.mk (some ⟨s, v⟩) pre .nil) := by
  refine ⟨?_, trivial⟩
  intro l hl
  cases hl
  exact h

theorem LK_old (path : Key) (child : Node) (y : Nat) (ys : Key) (h : Node.LK path child) :
    Node.LK path (.mk child.leaf (y :: ys) child.edges) := by
  cases child; simpa [Node.LK, Node.leaf, Node.edges] using h

theorem splitNode_LK (path : Key) (child : Node) (common restS : Key) (y : Nat) (ys : Key) (s : Key) (v : Int)
    (hc : Node.LK (path ++ child.pre) child) (hpre : child.pre = common ++ y :: ys)
    (hs : path ++ (common ++ restS) = s) :
    Node.LK (path ++ common) (splitNode child common restS y ys s v) := by
  have hold : Node.LK (path ++ common ++ y :: ys) (.mk child.leaf (y :: ys) child.edges) := by
    apply LK_old
    rw [hpre, ← List.append_assoc] at hc
    exact hc
  unfold splitNode
  simp only
  cases restS with
  | nil =>
    refine ⟨?_, ?_⟩
    · intro l hl; cases hl; simpa using hs.symm
    · exact Edges.LK_add _ y _ (by simpa [Node.pre] using hold) .nil trivial
  | cons x xs =>
    refine ⟨fun l hl => (by cases hl), ?_⟩
    apply Edges.LK_add _ x _ ?_ _ (Edges.LK_add _ y _ (by simpa [Node.pre] using hold) .nil trivial)
    apply leafNode_LK
    simp [Node.pre, ← hs, List.append_assoc]

mutual
theorem Node.insert_LK : ∀ (n : Node) (path search s : Key) (v : Int), Node.LK path n →
    path ++ search = s → Node.LK path (Node.insert n search s v).1
  | .mk leaf pre edges, path, search, s, v, hlk, hs => by
    obtain ⟨hl, hE⟩ := hlk
    cases search with
    | nil =>
      cases leaf with
      | some l => exact ⟨hl, hE⟩
      | none =>
        refine ⟨?_, hE⟩
        intro l hl'
        cases hl'
        simpa using hs.symm
    | cons c rest =>
      have hI := Edges.insertAt_LK edges path c rest s v hE hs
      cases hi : Edges.insertAt edges c (c :: rest) s v with
      | none =>
        simp only [Node.insert, hi]
        refine ⟨hl, Edges.LK_add path c _ ?_ edges hE⟩
        apply leafNode_LK
        simpa [Node.pre] using hs.symm
      | some r =>
        obtain ⟨edges', res⟩ := r
        rw [hi] at hI
        simp only [Node.insert, hi]
        exact ⟨hl, hI⟩
theorem Edges.insertAt_LK : ∀ (es : Edges) (path : Key) (c : Nat) (rest s : Key) (v : Int),
    Edges.LK path es → path ++ (c :: rest) = s →
    match Edges.insertAt es c (c :: rest) s v with
    | none => True
    | some (es', _) => Edges.LK path es'
  | .nil, _, _, _, _, _, _, _ => by simp [Edges.insertAt]
  | .cons l child r, path, c, rest, s, v, hlk, hs => by
    obtain ⟨hc, hr⟩ := hlk
    by_cases hlc : l = c
    · subst hlc
      obtain ⟨hs1, hs2, _⟩ := splitCommon_spec (l :: rest) child.pre
      cases hsc : splitCommon (l :: rest) child.pre with
      | mk common rr =>
        obtain ⟨restS, restP⟩ := rr
        rw [hsc] at hs1 hs2
        simp only at hs1 hs2
        cases restP with
        | nil =>
          have hpre : child.pre = common := by simpa using hs2
          have hins : Edges.insertAt (.cons l child r) l (l :: rest) s v =
              some (.cons l (Node.insert child restS s v).1 r, (Node.insert child restS s v).2) := by
            simp only [Edges.insertAt, if_true, hsc]
          rw [hins]
          simp only
          have hpreq := (Node.insert_spec_pre child restS s v)
          refine ⟨?_, hr⟩
          rw [hpreq]
          apply Node.insert_LK child (path ++ child.pre) restS s v hc
          rw [hpre, List.append_assoc, ← hs1]; exact hs
        | cons y ys =>
          rw [insertAt_split l child r (l :: rest) s v common restS y ys hsc]
          simp only
          refine ⟨?_, hr⟩
          have hk2 : (splitNode child common restS y ys s v).pre = common := by
            unfold splitNode; cases restS <;> rfl
          rw [hk2]
          exact splitNode_LK path child common restS y ys s v hc hs2 (by rw [← hs1]; exact hs)
    · have ih := Edges.insertAt_LK r path c rest s v hr hs
      cases hi : Edges.insertAt r c (c :: rest) s v with
      | none =>
        have : Edges.insertAt (.cons l child r) c (c :: rest) s v = none := by
          simp only [Edges.insertAt, hlc, if_false, hi]
        rw [this]; trivial
      | some rr =>
        obtain ⟨r', res⟩ := rr
        rw [hi] at ih
        have : Edges.insertAt (.cons l child r) c (c :: rest) s v = some (.cons l child r', res) := by
          simp only [Edges.insertAt, hlc, if_false, hi]
        rw [this]
        exact ⟨hc, ih⟩
end

end Influx.Radix
