/-
  Lemmas.MetaTrack — points routed earlier stay findable (for Spec.C18's `find`/`range` clauses),
  and the Boolean checks of Spec.C18 on well-formed data.
-/
import Influx.Lemmas.MetaStep
import Influx.Spec.C18

namespace Influx.Meta
open Influx.Generated.Meta
open Influx.Spec.C18 (Accepted)

/-- the accepted point still has its live group in its policy -/
def Tracked (d : Data) (x : Accepted) : Prop :=
  ∃ r g, getRP d x.db x.rp = .ok r ∧ g ∈ r.ShardGroups ∧ g.ID = x.gid ∧ g.DeletedAt = zeroTime ∧
    g.StartTime ≤ x.t ∧ x.t < g.EndTime

theorem Tracked.mono {d d' : Data} (hm : Mono d d') {x : Accepted} (h : Tracked d x) : Tracked d' x := by
  obtain ⟨r, g, hr, hg, h1, h2, h3⟩ := h
  obtain ⟨r', hr', hg'⟩ := hm _ _ r hr
  exact ⟨r', g, hr', hg' g hg, h1, h2, h3⟩

/-- in a well-formed policy at most one live group contains a timestamp -/
theorem live_unique {l : List ShardGroupInfo} (hp : l.Pairwise Disj) {g g' : ShardGroupInfo} (hg : g ∈ l) (hg' : g' ∈ l)
    (hl : g.DeletedAt = zeroTime) (hl' : g'.DeletedAt = zeroTime) {t : Int}
    (hc : g.StartTime ≤ t ∧ t < g.EndTime) (hc' : g'.StartTime ≤ t ∧ t < g'.EndTime) : g = g' := by
  induction l with
  | nil => simp at hg
  | cons y ys ih =>
    rw [List.pairwise_cons] at hp
    rcases List.mem_cons.mp hg with h1 | h1
    · rcases List.mem_cons.mp hg' with h2 | h2
      · rw [h1, h2]
      · subst h1; have := hp.1 g' h2; unfold Disj at this; omega
    · rcases List.mem_cons.mp hg' with h2 | h2
      · subst h2; have := hp.1 g h1; unfold Disj at this; omega
      · exact ih hp.2 h1 h2

/-- `ShardGroupByTimestamp` returns the tracked group -/
theorem find_tracked {d : Data} (hwf : WF d) {x : Accepted} (h : Tracked d x) :
    ∃ r g, getRP d x.db x.rp = .ok r ∧ shardGroupByTimestamp r.ShardGroups x.t = some g ∧ g.ID = x.gid := by
  obtain ⟨r, g, hr, hg, hid, hlive, hc⟩ := h
  have hwr := getRP_wf hwf hr
  obtain ⟨g', hg'⟩ := some_of_contains hg hlive (hwr.groups g hg).tr hc
  have h' := shardGroupByTimestamp_some hg'
  have : g = g' := live_unique hwr.disj hg h'.1 hlive h'.2.2.2 hc ⟨h'.2.1, h'.2.2.1⟩
  exact ⟨r, g', hr, hg', by rw [← this]; exact hid⟩

/-- pairwise disjointness as the Boolean check of the statement -/
theorem disjointLive_of_pairwise {l : List ShardGroupInfo} (hp : l.Pairwise Disj) :
    Spec.C18.disjointLive l = true := by
  induction l with
  | nil => rfl
  | cons y ys ih =>
    rw [List.pairwise_cons] at hp
    simp only [Spec.C18.disjointLive, Bool.and_eq_true, Bool.or_eq_true, List.all_eq_true, Bool.not_eq_true']
    refine ⟨?_, ih hp.2⟩
    by_cases hy : Deleted y = true
    · exact Or.inl hy
    · right
      intro h hh
      by_cases hd : Deleted h = true
      · exact Or.inl hd
      · right
        have := hp.1 h hh
        unfold Disj at this
        simp only [Bool.not_eq_true, deleted_false_iff] at hy hd
        simp only [Spec.C18.overlap, decide_eq_false_iff_not]
        omega

theorem fullDisjoint_of_wf {d : Data} (hwf : WF d) : Spec.C18.fullDisjoint (fullDump d) = true := by
  simp only [Spec.C18.fullDisjoint, fullDump, List.all_eq_true, List.mem_flatMap, List.mem_map]
  rintro ⟨db, rp, gs⟩ ⟨di, hdi, r, hr, heq⟩
  simp only [Prod.mk.injEq] at heq
  obtain ⟨_, _, rfl⟩ := heq
  exact disjointLive_of_pairwise ((hwf.dbs di hdi).rps r hr).disj

theorem sameBounds_refl (gs : List ShardGroupInfo) : Spec.C18.sameBounds gs gs = true := by
  simp only [Spec.C18.sameBounds, beq_self_eq_true, Bool.true_and, List.all_eq_true, List.any_eq_true]
  intro g hg
  exact ⟨g, hg, by simp⟩

theorem fullSame_refl (f : List (String × String × List ShardGroupInfo)) : Spec.C18.fullSame f f = true := by
  simp only [Spec.C18.fullSame, beq_self_eq_true, Bool.true_and, List.all_eq_true]
  rintro ⟨⟨db, rp, gs⟩, ⟨db', rp', gs'⟩⟩ h
  have : (db, rp, gs) = (db', rp', gs') := by
    have := List.of_mem_zip h
    clear this
    induction f with
    | nil => simp at h
    | cons y ys ih =>
      simp only [List.zip_cons_cons, List.mem_cons, Prod.mk.injEq] at h
      rcases h with ⟨h1, h2⟩ | h
      · rw [h1, ← h2]
      · exact ih h
  simp only [Prod.mk.injEq] at this
  obtain ⟨rfl, rfl, rfl⟩ := this
  simp [sameBounds_refl]

/-- groups placed by `mapPlace` are items of the list -/
theorem mapPlace_mem (min : Int) : ∀ (ts : List Int) (l : SgList) (ps : List Placement),
    mapPlace min l ts = .ok ps →
    ∀ t p, (t, p) ∈ ts.zip ps → ∀ sh g, p = Placement.mapped sh g → g ∈ l.items ∧ g.StartTime ≤ t ∧ t < g.EndTime := by
  intro ts
  induction ts with
  | nil => intro l ps h; simp only [mapPlace, Except.ok.injEq] at h; subst h; simp
  | cons t ts ih =>
    intro l ps h
    have hmem := (shardGroupAt_fst l t).2.2
    simp only [mapPlace] at h
    split at h
    · cases hrec : mapPlace min (l.shardGroupAt t).1 ts with
      | error e => simp [hrec, Except.map] at h
      | ok ps' =>
        simp only [hrec, Except.map, Except.ok.injEq] at h
        subst h
        intro t' p hp sh g hpg
        simp only [List.zip_cons_cons, List.mem_cons, Prod.mk.injEq] at hp
        rcases hp with ⟨rfl, rfl⟩ | hp
        · cases hpg
        · have := ih _ _ hrec t' p hp sh g hpg
          exact ⟨(hmem g).mp this.1, this.2⟩
    · next g0 hsome =>
      split at h
      · simp at h
      · cases hrec : mapPlace min (l.shardGroupAt t).1 ts with
        | error e => simp [hrec, Except.map] at h
        | ok ps' =>
          simp only [hrec, Except.map, Except.ok.injEq] at h
          subst h
          intro t' p hp sh g hpg
          simp only [List.zip_cons_cons, List.mem_cons, Prod.mk.injEq] at hp
          rcases hp with ⟨rfl, rfl⟩ | hp
          · simp only [Placement.mapped.injEq] at hpg
            obtain ⟨_, rfl⟩ := hpg
            split at hsome
            · simp at hsome
            · exact shardGroupAt_some l t' g0 hsome
          · have := ih _ _ hrec t' p hp sh g hpg
            exact ⟨(hmem g).mp this.1, this.2⟩

/-- every point `MapShards` maps is tracked in the resulting data -/
theorem mapShards_tracked {d d' : Data} (hwf : WF d) {db rp : String} {now : Int} {ts : List Int}
    (hts : ∀ t ∈ ts, inRange t) {m : ShardMapping} (h : mapShards d db rp now ts = (d', .ok m)) :
    ∀ t p, (t, p) ∈ ts.zip m.placements → ∀ sh g, p = Placement.mapped sh g →
      Tracked d' { db := db, rp := rp, t := t, gid := g.ID } := by
  obtain ⟨r, l, hr, hmc, hmp, _⟩ := mapShards_ok h
  have hspec := mapCreate_spec db rp (minTime r now) ts d SgList.empty hwf (SgOK.empty_ok d db rp) hts
  rw [hmc] at hspec
  obtain ⟨hok, _, _⟩ := hspec.2.2 l rfl
  intro t p hp sh g hpg
  have := mapPlace_mem _ ts l _ hmp t p hp sh g hpg
  obtain ⟨⟨r', hr', hg'⟩, hlive, _⟩ := hok.items g this.1
  exact ⟨r', g, hr', hg', rfl, hlive, this.2⟩

end Influx.Meta
