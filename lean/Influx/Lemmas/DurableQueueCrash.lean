/-
  Lemmas.DurableQueueCrash — segment-level crash recovery: what `newSegment`
  (open + repair) makes of a file torn inside the write of `append` or of
  `advanceTo`, provided the torn file does not end in 8 bytes that pass for a
  head position (`TornObs.footerLike`).
-/
import Influx.Lemmas.DurableQueueOpen
namespace Influx.DQ

theorem take_add_append {α} (a b : List α) (k : Nat) : (a ++ b).take (a.length + k) = a ++ b.take k := by
  induction a with
  | nil => simp
  | cons x a ih => simp only [List.cons_append, List.length_cons]; rw [show a.length + 1 + k = (a.length + k) + 1 by omega]; simp [ih]

theorem drop_add_append {α} (a b : List α) (k : Nat) : (a ++ b).drop (a.length + k) = b.drop k := by
  induction a with
  | nil => simp
  | cons x a ih => simp only [List.cons_append, List.length_cons]; rw [show a.length + 1 + k = (a.length + k) + 1 by omega]; simp [ih]

theorem mem_encRecs_length {b : Bytes} {rs : List Bytes} (h : b ∈ rs) : b.length ≤ (encRecs rs).length := by
  induction rs with
  | nil => cases h
  | cons r rs ih =>
    simp only [encRecs_cons, encRec_length, List.length_append]
    rcases List.mem_cons.mp h with rfl | h
    · omega
    · have := ih h; omega

/-- a torn write over the footer of `A ++ be64 p`: `A` stays, the tail is `T` -/
theorem tornWrite_eq (A W : Bytes) (p k : Nat) :
    tornWrite (A ++ be64 p) (A ++ W) k = A ++ (W.take k ++ (be64 p).drop k) := by
  unfold tornWrite
  have : (A ++ be64 p).length - 8 + k = A.length + k := by simp [be64_length]
  rw [this, take_add_append, drop_add_append, List.append_assoc]

/-- Open of a file `records ++ tail` whose last 8 bytes point beyond the data and
    whose tail stops the repair walk: all records are kept, head at 0. -/
theorem newSeg_repair (mx : Nat) (rs : List Bytes) (tail : Bytes)
    (hsz : (encRecs rs ++ tail).length < 2^63)
    (htail : tail.length = 8 ∨ ∃ n t, tail = be64 n ++ t ∧ n < 2^63 ∧ 8 + n > tail.length - 8)
    (hfoot : rd64 ((encRecs rs ++ tail).drop ((encRecs rs ++ tail).length - 8))
               > (encRecs rs ++ tail).length - 8) :
    newSeg verifyAll mx (encRecs rs ++ tail)
      = some ⟨encRecs rs ++ be64 0, 0, max mx (encRecs rs ++ tail).length⟩ := by
  have htl : tail.length ≥ 8 := by
    rcases htail with h | ⟨n, t, rfl, _, _⟩
    · omega
    · simp [be64_length]
  have hlen : (encRecs rs ++ tail).length = (encRecs rs).length + tail.length := by simp
  unfold newSeg
  rw [if_neg (by omega)]
  show openAux verifyAll _ (3 + 1) _ = _
  unfold openAux
  simp only []
  rw [if_neg (by omega), if_pos hfoot, repairFile_recs rs tail hsz htail]
  simp only [Option.bind_some]
  exact openAt_wf _ _ _ [] rs 0 (by simp) (by simp) (by simp [be64_length]; omega)

/-- the segment produced by `newSeg_repair` is well-formed and replays every record -/
theorem repaired_wf (mx : Nat) (rs : List Bytes) (n : Nat) (hn : (encRecs rs).length + 8 ≤ n)
    (hsz : n < 2^63) : SegWF ⟨encRecs rs ++ be64 0, 0, max mx n⟩ [] rs := by
  refine ⟨by simp, by simp, ?_, by simp [be64_length]; omega⟩
  intro b hb
  have := mem_encRecs_length hb
  show b.length ≤ max mx n
  omega

/-- what a reopened segment may look like after a crash inside a write -/
inductive Recovered (t : Seg) (done rest : List Bytes) (extra : List Bytes) : Prop
  /-- the write is absent: same records, same head -/
  | absent (h : SegWF t done rest)
  /-- the write is complete -/
  | complete (h : SegWF t done (rest ++ extra))
  /-- repaired: the old records, all of them replayed from the start -/
  | replay (h : SegWF t [] (done ++ rest))

/-- **Crash inside `segment.append`.**  For every cut `k` of the single write,
    unless the torn file ends in bytes that pass for a head position, reopening
    the segment yields the old records (head unchanged or reset to the start) or
    the old records plus the new one.  Nothing else, nothing lost. -/
theorem torn_append_recovers (mx : Nat) {s s' : Seg} {done rest} (h : SegWF s done rest) (b : Bytes)
    (happ : s.append b = .ok s') (hsmall : s.size + b.length + 8 < 2^63) (k : Nat)
    (hnf : (tornObs s.file s'.file (tornWrite s.file s'.file k)).footerLike = false) :
    ∃ t, newSeg verifyAll mx (tornWrite s.file s'.file k) = some t ∧ Recovered t done rest [b] := by
  have hs := h.size_eq
  have hfull : ¬ s.size > s.maxSize := by
    intro hc; simp [Seg.append, hc] at happ
  obtain ⟨s'', happ', hwf', _⟩ := append_wf h b hfull hsmall
  have hs's : s'' = s' := by rw [happ'] at happ; exact Except.ok.inj happ
  subst hs's
  -- shapes of the two files
  have hpre : s.file = (encRecs (done ++ rest)) ++ be64 s.pos := by
    rw [h.file_eq, encRecs_append, List.append_assoc]
  have hpost : s''.file = (encRecs (done ++ rest)) ++ (be64 b.length ++ (b ++ be64 s.pos)) := by
    have hp : s''.pos = s.pos := by
      simp [Seg.append, hfull] at happ'; rw [← happ']
    rw [hwf'.file_eq, hp, encRecs_append, encRecs_append]
    simp [encRec, List.append_assoc]
  generalize htorn : tornWrite s.file s''.file k = torn at hnf ⊢
  have htorn' : torn = encRecs (done ++ rest) ++
      ((be64 b.length ++ (b ++ be64 s.pos)).take k ++ (be64 s.pos).drop k) := by
    rw [← htorn, hpre, hpost, tornWrite_eq]
  simp only [TornObs.footerLike, tornObs, Bool.and_eq_false_iff, beq_eq_false_iff_ne, ne_eq] at hnf
  by_cases hpreq : torn = s.file
  · rw [hpreq, newSeg_wf mx h]
    refine ⟨_, rfl, .absent ⟨h.file_eq, h.pos_eq, ?_, h.small⟩⟩
    intro x hx
    have := mem_encRecs_length hx
    show x.length ≤ max mx s.file.length
    simp [Seg.size] at hs; omega
  by_cases hposteq : torn = s''.file
  · rw [hposteq, newSeg_wf mx hwf']
    refine ⟨_, rfl, .complete ⟨hwf'.file_eq, hwf'.pos_eq, ?_, hwf'.small⟩⟩
    intro x hx
    have := mem_encRecs_length hx
    have := hwf'.size_eq
    show x.length ≤ max mx s''.file.length
    simp [Seg.size] at *; omega
  -- neither: the footer read must point beyond the data, so `repair` runs
  have hfoot : rd64 (torn.drop (torn.length - 8)) > torn.length - 8 := by
    rcases hnf with h1 | h1
    · simp [hpreq, hposteq] at h1
    · have := of_decide_eq_false h1; omega
  have hWlen : (be64 b.length ++ (b ++ be64 s.pos)).length = 16 + b.length := by
    simp [be64_length]; omega
  have hElen : (encRecs (done ++ rest)).length = s.size - 8 := by
    rw [encRecs_append]; simp; omega
  -- the tail stops the walk
  have hk : k < 16 + b.length := by
    apply Classical.byContradiction; intro hk
    apply hposteq
    rw [htorn', hpost, List.take_of_length_le (by omega), List.drop_eq_nil_of_le (by simp [be64_length]; omega)]
    simp
  have hsz : torn.length < 2^63 := by
    rw [htorn']; simp [be64_length]; omega
  have htail : ((be64 b.length ++ (b ++ be64 s.pos)).take k ++ (be64 s.pos).drop k).length = 8 ∨
      ∃ n t, ((be64 b.length ++ (b ++ be64 s.pos)).take k ++ (be64 s.pos).drop k) = be64 n ++ t ∧ n < 2^63 ∧
        8 + n > ((be64 b.length ++ (b ++ be64 s.pos)).take k ++ (be64 s.pos).drop k).length - 8 := by
    by_cases hk8 : k ≤ 8
    · left; simp [be64_length]; omega
    · right
      refine ⟨b.length, (b ++ be64 s.pos).take (k - 8), ?_, by omega, ?_⟩
      · rw [List.drop_eq_nil_of_le (by simp [be64_length]; omega), List.append_nil,
          show k = (be64 b.length).length + (k - 8) by simp [be64_length]; omega, take_add_append]
        simp [be64_length]
      · simp [be64_length]; omega
  rw [htorn'] at hfoot hsz ⊢
  rw [newSeg_repair mx _ _ hsz htail hfoot]
  refine ⟨_, rfl, .replay (repaired_wf mx _ _ ?_ hsz)⟩
  clear htail hfoot
  have : ((be64 b.length ++ (b ++ be64 s.pos)).take k ++ (be64 s.pos).drop k).length ≥ 8 := by
    simp [be64_length]; omega
  rw [List.length_append]
  omega

/-- what a reopened segment may look like after a crash inside the footer write of an advance -/
inductive RecoveredAdv (t : Seg) (done : List Bytes) (r : Bytes) (rs : List Bytes) : Prop
  | absent (h : SegWF t done (r :: rs))
  | complete (h : SegWF t (done ++ [r]) rs)
  | replay (h : SegWF t [] (done ++ r :: rs))

/-- **Crash inside `segment.advanceTo`** (footer rewrite), any cut `k`: unless the
    mixed footer passes for a head position, the reopened segment stands at the old
    head, at the new head, or replays everything. -/
theorem torn_advance_recovers (mx : Nat) {s : Seg} {done r rs} (h : SegWF s done (r :: rs)) (k : Nat)
    (hnf : (tornObs s.file s.advance.1.file (tornWrite s.file s.advance.1.file k)).footerLike = false) :
    ∃ t, newSeg verifyAll mx (tornWrite s.file s.advance.1.file k) = some t ∧ RecoveredAdv t done r rs := by
  have hs := h.size_eq
  obtain ⟨hwf', _, _⟩ := advance_wf_cons h
  have hs' := hwf'.size_eq
  have hsm := h.small
  have hsm' := hwf'.small
  have hpre : s.file = (encRecs (done ++ r :: rs)) ++ be64 s.pos := by
    rw [h.file_eq, encRecs_append, List.append_assoc]
  have hpost : s.advance.1.file = (encRecs (done ++ r :: rs)) ++ be64 s.advance.1.pos := by
    rw [hwf'.file_eq, encRecs_append, encRecs_append]; simp
  generalize htorn : tornWrite s.file s.advance.1.file k = torn at hnf ⊢
  have htorn' : torn = encRecs (done ++ r :: rs) ++
      ((be64 s.advance.1.pos).take k ++ (be64 s.pos).drop k) := by
    rw [← htorn, hpre]; conv => lhs; rw [hpost]
    rw [tornWrite_eq]
  simp only [TornObs.footerLike, tornObs, Bool.and_eq_false_iff, beq_eq_false_iff_ne, ne_eq] at hnf
  have hElen : (encRecs (done ++ r :: rs)).length = s.size - 8 := by
    rw [encRecs_append]; simp at hs ⊢; omega
  by_cases hpreq : torn = s.file
  · rw [hpreq, newSeg_wf mx h]
    refine ⟨_, rfl, .absent ⟨h.file_eq, h.pos_eq, ?_, h.small⟩⟩
    intro x hx
    have := mem_encRecs_length hx
    show x.length ≤ max mx s.file.length
    have hsl : s.file.length = _ := hs
    omega
  by_cases hposteq : torn = s.advance.1.file
  · rw [hposteq, newSeg_wf mx hwf']
    refine ⟨_, rfl, .complete ⟨hwf'.file_eq, hwf'.pos_eq, ?_, hwf'.small⟩⟩
    intro x hx
    have := mem_encRecs_length hx
    show x.length ≤ max mx s.advance.1.file.length
    have hsl : s.advance.1.file.length = _ := hs'
    omega
  have hfoot : rd64 (torn.drop (torn.length - 8)) > torn.length - 8 := by
    rcases hnf with h1 | h1
    · simp [hpreq, hposteq] at h1
    · have := of_decide_eq_false h1; omega
  have hTlen : ((be64 s.advance.1.pos).take k ++ (be64 s.pos).drop k).length = 8 := by
    simp [be64_length]; omega
  have hsz : torn.length < 2^63 := by
    rw [htorn', List.length_append, hTlen, hElen]; simp [Seg.size]; omega
  rw [htorn'] at hfoot hsz ⊢
  rw [newSeg_repair mx _ _ hsz (Or.inl hTlen) hfoot]
  refine ⟨_, rfl, .replay (repaired_wf mx _ _ ?_ hsz)⟩
  rw [List.length_append, hTlen]; omega

end Influx.DQ
