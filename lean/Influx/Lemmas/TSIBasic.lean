/-
  Lemmas.TSIBasic — association lists, id sets, sorting and `firstSome` of Model.TSI.
-/
import Influx.Model.TSI

namespace Influx.Model.TSI

/-! #### id sets -/

theorem mem_sadd (l : List Nat) (x y : Nat) : y ∈ sadd l x ↔ y = x ∨ y ∈ l := by
  unfold sadd
  split
  · next h =>
    have hx : x ∈ l := by simpa using h
    constructor
    · intro hy; exact Or.inr hy
    · rintro (rfl | hy)
      · exact hx
      · exact hy
  · simp

theorem mem_sdel (l : List Nat) (x y : Nat) : y ∈ sdel l x ↔ y ∈ l ∧ y ≠ x := by
  simp [sdel]

theorem mem_sunion (a b : List Nat) (y : Nat) : y ∈ sunion a b ↔ y ∈ a ∨ y ∈ b := by
  simp only [sunion, List.mem_append, List.mem_filter, Bool.not_eq_true', List.contains_eq_mem,
    decide_eq_false_iff_not]
  constructor
  · rintro (h | ⟨h, _⟩)
    · exact Or.inl h
    · exact Or.inr h
  · rintro (h | h)
    · exact Or.inl h
    · by_cases ha : y ∈ a
      · exact Or.inl ha
      · exact Or.inr ⟨h, ha⟩

theorem mem_sdiff (a b : List Nat) (y : Nat) : y ∈ sdiff a b ↔ y ∈ a ∧ y ∉ b := by
  simp [sdiff]

theorem mem_foldl_sunion {β : Type} (g : β → List Nat) (l : List β) (acc : List Nat) (y : Nat) :
    y ∈ l.foldl (fun acc x => sunion acc (g x)) acc ↔ y ∈ acc ∨ ∃ x ∈ l, y ∈ g x := by
  induction l generalizing acc with
  | nil => simp
  | cons x xs ih =>
    simp only [List.foldl_cons, ih, mem_sunion, List.mem_cons, exists_eq_or_imp]
    constructor
    · rintro ((h | h) | h)
      · exact Or.inl h
      · exact Or.inr (Or.inl h)
      · exact Or.inr (Or.inr h)
    · rintro (h | h | h)
      · exact Or.inl (Or.inl h)
      · exact Or.inl (Or.inr h)
      · exact Or.inr h

/-! #### sorting -/

theorem mem_insertNat (x y : Nat) (l : List Nat) : y ∈ insertNat x l ↔ y = x ∨ y ∈ l := by
  induction l with
  | nil => simp [insertNat]
  | cons z zs ih =>
    unfold insertNat
    split
    · simp
    · split
      · simp only [List.mem_cons, ih]
        constructor
        · rintro (h | h | h)
          · exact Or.inr (Or.inl h)
          · exact Or.inl h
          · exact Or.inr (Or.inr h)
        · rintro (h | h | h)
          · exact Or.inr (Or.inl h)
          · exact Or.inl h
          · exact Or.inr (Or.inr h)
      · have : x = z := by omega
        subst this; simp

theorem mem_sortNat (l : List Nat) (y : Nat) : y ∈ sortNat l ↔ y ∈ l := by
  induction l with
  | nil => simp [sortNat]
  | cons x xs ih =>
    have : sortNat (x :: xs) = insertNat x (sortNat xs) := rfl
    rw [this, mem_insertNat, ih]; simp

theorem mem_insertStr (x y : String) (l : List String) : y ∈ insertStr x l ↔ y = x ∨ y ∈ l := by
  induction l with
  | nil => simp [insertStr]
  | cons z zs ih =>
    unfold insertStr
    split
    · simp
    · split
      · simp only [List.mem_cons, ih]
        constructor
        · rintro (h | h | h)
          · exact Or.inr (Or.inl h)
          · exact Or.inl h
          · exact Or.inr (Or.inr h)
        · rintro (h | h | h)
          · exact Or.inr (Or.inl h)
          · exact Or.inl h
          · exact Or.inr (Or.inr h)
      · next h1 h2 =>
        -- neither x < z nor z < x: they are equal
        have : x = z := String.le_antisymm h2 h1
        subst this; simp

theorem mem_sortStr (l : List String) (y : String) : y ∈ sortStr l ↔ y ∈ l := by
  induction l with
  | nil => simp [sortStr]
  | cons x xs ih =>
    have : sortStr (x :: xs) = insertStr x (sortStr xs) := rfl
    rw [this, mem_insertStr, ih]; simp

/-! #### association lists -/

theorem alookup_aset_self {α : Type} (l : List (String × α)) (k : String) (v : α) :
    alookup (aset l k v) k = some v := by
  induction l with
  | nil => simp [aset, alookup]
  | cons kv rest ih =>
    obtain ⟨k', v'⟩ := kv
    unfold aset
    split
    · simp [alookup]
    · next h => simp [alookup, h, ih]

theorem alookup_aset_ne {α : Type} (l : List (String × α)) (k k' : String) (v : α) (h : k' ≠ k) :
    alookup (aset l k v) k' = alookup l k' := by
  induction l with
  | nil => simp [aset, alookup, Ne.symm h]
  | cons kv rest ih =>
    obtain ⟨k₀, v₀⟩ := kv
    unfold aset
    split
    · next h0 => subst h0; simp [alookup, Ne.symm h]
    · next h0 =>
      by_cases h1 : k₀ = k'
      · simp [alookup, h1]
      · simp [alookup, h1, ih]

theorem alookup_aset {α : Type} (l : List (String × α)) (k k' : String) (v : α) :
    alookup (aset l k v) k' = if k' = k then some v else alookup l k' := by
  by_cases h : k' = k
  · subst h; simp [alookup_aset_self]
  · simp [h, alookup_aset_ne l k k' v h]

/-- the keys bound by `aset` are the old ones plus `k`. -/
theorem mem_keys_aset {α : Type} (l : List (String × α)) (k k' : String) (v : α) :
    k' ∈ (aset l k v).map (·.1) ↔ k' = k ∨ k' ∈ l.map (·.1) := by
  induction l with
  | nil => simp [aset]
  | cons kv rest ih =>
    obtain ⟨k₀, v₀⟩ := kv
    unfold aset
    split
    · next h0 => subst h0; simp
    · simp only [List.map_cons, List.mem_cons, ih]
      constructor
      · rintro (h | h | h)
        · exact Or.inr (Or.inl h)
        · exact Or.inl h
        · exact Or.inr (Or.inr h)
      · rintro (h | h | h)
        · exact Or.inr (Or.inl h)
        · exact Or.inl h
        · exact Or.inr (Or.inr h)

theorem alookup_isSome_iff {α : Type} (l : List (String × α)) (k : String) :
    (alookup l k).isSome ↔ k ∈ l.map (·.1) := by
  induction l with
  | nil => simp [alookup]
  | cons kv rest ih =>
    obtain ⟨k₀, v₀⟩ := kv
    unfold alookup
    split
    · next h => subst h; simp
    · next h =>
      simp only [ih, List.map_cons, List.mem_cons]
      constructor
      · exact fun h' => Or.inr h'
      · rintro (h' | h')
        · exact absurd h'.symm h
        · exact h'

theorem alookup_mem {α : Type} {l : List (String × α)} {k : String} {v : α}
    (h : alookup l k = some v) : (k, v) ∈ l := by
  induction l with
  | nil => simp [alookup] at h
  | cons kv rest ih =>
    obtain ⟨k₀, v₀⟩ := kv
    unfold alookup at h
    split at h
    · next hk => simp only [Option.some.injEq] at h; subst hk; subst h; simp
    · exact List.mem_cons_of_mem _ (ih h)

/-- lookup in a list built by mapping over keys. -/
theorem alookup_map_keys {α : Type} (ks : List String) (F : String → α) (k : String) :
    alookup (ks.map (fun n => (n, F n))) k = if k ∈ ks then some (F k) else none := by
  induction ks with
  | nil => simp [alookup]
  | cons x xs ih =>
    simp only [List.map_cons, alookup, List.mem_cons]
    by_cases h : x = k
    · subst h; simp
    · have h' : ¬ k = x := fun e => h e.symm
      simp [h, h', ih]

/-! #### firstSome -/

theorem firstSome_eq_some {β : Type} {get : FileData → Option β} {fs : List FileData} {b : β}
    (h : firstSome get fs = some b) : ∃ f ∈ fs, get f = some b := by
  induction fs with
  | nil => simp [firstSome] at h
  | cons f rest ih =>
    unfold firstSome at h
    split at h
    · next b' hb => simp only [Option.some.injEq] at h; subst h; exact ⟨f, by simp, hb⟩
    · obtain ⟨f', hf', hg⟩ := ih h
      exact ⟨f', List.mem_cons_of_mem _ hf', hg⟩

theorem firstSome_eq_none {β : Type} {get : FileData → Option β} {fs : List FileData} :
    firstSome get fs = none ↔ ∀ f ∈ fs, get f = none := by
  induction fs with
  | nil => simp [firstSome]
  | cons f rest ih =>
    unfold firstSome
    split
    · next b hb => simp [hb]
    · next hb => simp [hb, ih]

theorem firstSome_cons {β : Type} (get : FileData → Option β) (f : FileData) (fs : List FileData) :
    firstSome get (f :: fs) = match get f with | some b => some b | none => firstSome get fs := rfl

theorem firstSome_append {β : Type} (get : FileData → Option β) (a b : List FileData) :
    firstSome get (a ++ b) = match firstSome get a with | some x => some x | none => firstSome get b := by
  induction a with
  | nil => simp [firstSome]
  | cons f rest ih =>
    simp only [List.cons_append, firstSome_cons]
    split
    · rfl
    · exact ih

end Influx.Model.TSI
