/-
  Lemmas.MetaRetention — safety of `deletionCheck`: every call it makes concerns a shard
  of an already-deleted or expired group of the metadata it started from.
-/
import Influx.Lemmas.MetaBasic

namespace Influx.Meta
open Influx.Generated.Meta

theorem foldl_inv {α β : Type} (P : β → Prop) (f : β → α → β) (l : List α) (s : β)
    (h0 : P s) (hstep : ∀ s x, x ∈ l → P s → P (f s x)) : P (l.foldl f s) := by
  induction l generalizing s with
  | nil => simpa using h0
  | cons x xs ih =>
    simp only [List.foldl_cons]
    apply ih
    · exact hstep s x (by simp) h0
    · intro s y hy hs; exact hstep s y (by simp [hy]) hs

/-- the shard belongs to a group of `d` that is deleted or expired at `now` -/
def Removable (d : Data) (now : Int) (id : Nat) : Prop :=
  ∃ di ∈ d.Databases, ∃ r ∈ di.RetentionPolicies, ∃ g ∈ r.ShardGroups,
    (g.DeletedAt ≠ zeroTime ∨ g ∈ expiredShardGroups r now) ∧ ∃ sh ∈ g.Shards, sh.ID = id

/-- what each logged call is allowed to be -/
def EvGood (d : Data) (now : Int) (loc : List Nat) : Ev → Prop
  | .dsg db rp id ok => ok = true → ∃ di ∈ d.Databases, di.Name = db ∧ ∃ r ∈ di.RetentionPolicies, r.Name = rp ∧
      ∃ g ∈ expiredShardGroups r now, g.ID = id
  | .block id _ | .unblock id | .inUse id _ _ | .delete id _ => id ∈ loc ∧ Removable d now id
  | .dropRef id _ _ => Removable d now id
  | .prune => True

/-- invariant of the `DC` state while `deletionCheck now d st` runs -/
structure DCInv (d : Data) (now : Int) (loc : List Nat) (s : DC) : Prop where
  del : ∀ id ∈ s.del, Removable d now id
  log : ∀ e ∈ s.log, EvGood d now loc e

theorem mem_mapPut {m : List Nat} {id x : Nat} (h : x ∈ mapPut m id) : x ∈ m ∨ x = id := by
  unfold mapPut at h
  split at h
  · exact Or.inl h
  · simpa using h

theorem mem_foldl_mapPut {ids m : List Nat} {x : Nat} (h : x ∈ ids.foldl mapPut m) : x ∈ m ∨ x ∈ ids := by
  induction ids generalizing m with
  | nil => exact Or.inl (by simpa using h)
  | cons i is ih =>
    simp only [List.foldl_cons] at h
    rcases ih h with h | h
    · rcases mem_mapPut h with h | h
      · exact Or.inl h
      · exact Or.inr (by simp [h])
    · exact Or.inr (by simp [h])

theorem DCInv.addLog {d now loc s} (h : DCInv d now loc s) (es : List Ev) (hes : ∀ e ∈ es, EvGood d now loc e)
    (s' : DC) (hdel : s'.del = s.del) (hlog : s'.log = s.log ++ es) : DCInv d now loc s' := by
  refine ⟨?_, ?_⟩
  · rw [hdel]; exact h.del
  · rw [hlog]; intro e he
    rcases List.mem_append.mp he with he | he
    · exact h.log e he
    · exact hes e he

theorem dcExpire_inv {d now loc} (db rp : String) (di : DatabaseInfo) (r : RetentionPolicyInfo)
    (hdi : di ∈ d.Databases) (hdb : di.Name = db) (hr : r ∈ di.RetentionPolicies) (hrp : r.Name = rp)
    (s : DC) (g : ShardGroupInfo) (hg : g ∈ expiredShardGroups r now) (h : DCInv d now loc s) :
    DCInv d now loc (dcExpire db rp now s g) := by
  unfold dcExpire
  split
  · exact h.addLog [Ev.dsg db rp g.ID false] (by simp [EvGood]) _ rfl rfl
  · split
    · exact h.addLog [Ev.dsg db rp g.ID false] (by simp [EvGood]) _ rfl rfl
    · refine ⟨?_, ?_⟩
      · intro id hid
        rcases mem_foldl_mapPut hid with hid | hid
        · exact h.del id hid
        · simp only [List.mem_map] at hid
          obtain ⟨sh, hsh, rfl⟩ := hid
          exact ⟨di, hdi, r, hr, g, ((mem_expired_iff r now g).mp hg).1, Or.inr hg, sh, hsh, rfl⟩
      · intro e he
        simp only [List.mem_append, List.mem_singleton] at he
        rcases he with he | rfl
        · exact h.log e he
        · intro _; exact ⟨di, hdi, hdb, r, hr, hrp, g, hg, rfl⟩

theorem dcPolicy_inv {d now loc} (di : DatabaseInfo) (hdi : di ∈ d.Databases) (r : RetentionPolicyInfo)
    (hr : r ∈ di.RetentionPolicies) (s : DC) (h : DCInv d now loc s) :
    DCInv d now loc (dcPolicy di.Name now s r) := by
  unfold dcPolicy
  apply foldl_inv (DCInv d now loc)
  · refine ⟨?_, h.log⟩
    intro id hid
    rcases mem_foldl_mapPut hid with hid | hid
    · exact h.del id hid
    · simp only [List.mem_flatMap, List.mem_map] at hid
      obtain ⟨g, hg, sh, hsh, rfl⟩ := hid
      have := (mem_deleted_iff r g).mp hg
      exact ⟨di, hdi, r, hr, g, this.1, Or.inl this.2, sh, hsh, rfl⟩
  · intro s g hg hs
    exact dcExpire_inv di.Name r.Name di r hdi rfl hr rfl s g hg hs

theorem dcCollect_inv {d now loc} (s : DC) (hd : s.data.Databases = d.Databases) (h : DCInv d now loc s) :
    DCInv d now loc (dcCollect now s) := by
  unfold dcCollect
  rw [hd]
  apply foldl_inv (DCInv d now loc) _ _ _ h
  intro s di hdi hs
  apply foldl_inv (DCInv d now loc) _ _ _ hs
  intro s r hr hs
  exact dcPolicy_inv di hdi r hr s hs

theorem dcDropRef_inv {d now loc} (ph : Bool) (s : DC) (id : Nat) (hid : Removable d now id)
    (h : DCInv d now loc s) : DCInv d now loc (dcDropRef now ph s id) := by
  unfold dcDropRef
  split
  · exact h.addLog [_] (by simpa [EvGood] using hid) _ rfl rfl
  · exact h.addLog [_] (by simpa [EvGood] using hid) _ rfl rfl

/-- events `dcLocal … id` may add -/
def isLocalEv (id : Nat) : Ev → Prop
  | .block i _ | .unblock i | .inUse i _ _ | .delete i _ => i = id
  | .dropRef i _ _ => i = id
  | _ => False

theorem dcLocal_log (now : Int) (s : DC) (id : Nat) :
    ∀ e ∈ (dcLocal now s id).log, e ∈ s.log ∨ (id ∈ s.del ∧ isLocalEv id e) := by
  intro e
  unfold dcLocal dcDropRef
  by_cases hc : id ∈ s.del
  · simp only [List.contains_eq_mem, hc, decide_true, Bool.not_true, Bool.false_eq_true, ↓reduceIte]
    repeat' split
    all_goals (simp only [List.mem_append, List.mem_cons, List.not_mem_nil, or_false]; intro h)
    all_goals (
      try simp only [or_assoc] at h
      rcases h with h | h
      · exact Or.inl h
      · refine Or.inr ⟨trivial, ?_⟩
        repeat' rcases h with h | h
        all_goals first | rfl | (subst h; rfl))
  · simp [hc]

theorem dcLocal_del (now : Int) (s : DC) (id : Nat) :
    ∀ x ∈ (dcLocal now s id).del, x ∈ s.del := by
  intro x
  unfold dcLocal dcDropRef
  by_cases hc : id ∈ s.del
  · simp only [List.contains_eq_mem, hc, decide_true, Bool.not_true, Bool.false_eq_true, ↓reduceIte]
    repeat' split
    all_goals (intro h; exact List.mem_of_mem_erase h)
  · simp [hc]

theorem dcLocal_inv {d now loc} (s : DC) (id : Nat) (hloc : id ∈ loc) (h : DCInv d now loc s) :
    DCInv d now loc (dcLocal now s id) := by
  refine ⟨fun x hx => h.del x (dcLocal_del now s id x hx), ?_⟩
  intro e he
  rcases dcLocal_log now s id e he with he | ⟨hid, hev⟩
  · exact h.log e he
  · have hrem := h.del id hid
    cases e <;> simp only [isLocalEv] at hev <;> first | (subst hev; first | exact ⟨hloc, hrem⟩ | exact hrem) | exact hev.elim

theorem dcExpire_store (db rp : String) (now : Int) (s : DC) (g : ShardGroupInfo) :
    (dcExpire db rp now s g).store = s.store := by
  unfold dcExpire
  split
  · rfl
  · split <;> rfl

theorem dcPolicy_store (db : String) (now : Int) (s : DC) (r : RetentionPolicyInfo) :
    (dcPolicy db now s r).store = s.store := by
  unfold dcPolicy
  exact foldl_inv (fun s' : DC => s'.store = s.store) _ _ _ rfl
    (fun s3 g _ hs3 => by rw [dcExpire_store]; exact hs3)

theorem dcCollect_store (now : Int) (s : DC) : (dcCollect now s).store = s.store := by
  unfold dcCollect
  apply foldl_inv (fun s' : DC => s'.store = s.store) _ _ _ rfl
  intro s1 di _ hs1
  apply foldl_inv (fun s' : DC => s'.store = s.store) _ _ _ hs1
  intro s2 r _ hs2
  rw [dcPolicy_store]; exact hs2

theorem mem_sortNat {xs : List Nat} {x : Nat} (h : x ∈ sortNat xs) : x ∈ xs := by
  unfold sortNat at h
  have key : ∀ (l acc : List Nat), x ∈ l.foldl (fun acc x => sortNat.ins x acc) acc → x ∈ acc ∨ x ∈ l := by
    intro l
    induction l with
    | nil => intro acc h; exact Or.inl (by simpa using h)
    | cons y ys ih =>
      intro acc h
      simp only [List.foldl_cons] at h
      rcases ih _ h with h | h
      · have : ∀ (a : List Nat), x ∈ sortNat.ins y a → x ∈ a ∨ x = y := by
          intro a
          induction a with
          | nil => intro h; simp [sortNat.ins] at h; exact Or.inr h
          | cons z zs ih2 =>
            intro h
            simp only [sortNat.ins] at h
            split at h
            · simp at h; rcases h with h | h | h
              · exact Or.inr h
              · exact Or.inl (by simp [h])
              · exact Or.inl (by simp [h])
            · simp at h; rcases h with h | h
              · exact Or.inl (by simp [h])
              · rcases ih2 h with h | h
                · exact Or.inl (by simp [h])
                · exact Or.inr h
        rcases this acc h with h | h
        · exact Or.inl h
        · exact Or.inr (by simp [h])
      · exact Or.inr (by simp [h])
  rcases key xs [] h with h | h
  · simp at h
  · exact h

/-- **safety of `DeletionCheck`**: every logged call is `EvGood` w.r.t. the metadata and the
    local shard list the check started from -/
theorem deletionCheck_safe (now : Int) (d : Data) (st : Store) :
    ∀ e ∈ (deletionCheck now d st).log, EvGood d now st.shards e := by
  unfold deletionCheck
  have h0 : DCInv d now st.shards { data := d, store := st, del := [], log := [] } :=
    ⟨by simp, by simp⟩
  have h1 := dcCollect_inv (d := d) (now := now) (loc := st.shards) _ rfl h0
  have hshards : ∀ (s : DC), (dcCollect now s).store = s.store := dcCollect_store now
  have h2 : DCInv d now st.shards
      (List.foldl (dcLocal now) (dcCollect now { data := d, store := st, del := [], log := [] })
        (dcCollect now { data := d, store := st, del := [], log := [] }).store.shards) := by
    apply foldl_inv (DCInv d now st.shards) _ _ _ h1
    intro s id hid hs
    rw [hshards] at hid
    exact dcLocal_inv s id hid hs
  intro e he
  simp only [List.mem_append, List.mem_singleton] at he
  rcases he with he | rfl
  · revert e
    have h3 : DCInv d now st.shards (List.foldl (dcDropRef now true)
        { (List.foldl (dcLocal now) (dcCollect now { data := d, store := st, del := [], log := [] })
            (dcCollect now { data := d, store := st, del := [], log := [] }).store.shards) with del := [] }
        (sortNat (List.foldl (dcLocal now) (dcCollect now { data := d, store := st, del := [], log := [] })
            (dcCollect now { data := d, store := st, del := [], log := [] }).store.shards).del)) := by
      apply foldl_inv (DCInv d now st.shards)
      · exact ⟨by simp, h2.log⟩
      · intro s id hid hs
        exact dcDropRef_inv true s id (h2.del id (mem_sortNat hid)) hs
    exact h3.log
  · trivial

end Influx.Meta
