/-
  Lemmas.CodecBase — round trips of the byte-level building blocks (Model.CodecBase).
-/
import Influx.Model.CodecBase
namespace Influx.Codec

theorem xor_ones64 (a : Nat) (h : a < 2 ^ 64) : a ^^^ (2 ^ 64 - 1) = 2 ^ 64 - 1 - a := by
  apply Nat.eq_of_testBit_eq
  intro i
  have e : 2 ^ 64 - 1 - a = 2 ^ 64 - (a + 1) := by omega
  rw [e, Nat.testBit_two_pow_sub_succ h, Nat.testBit_xor, Nat.testBit_two_pow_sub_one]
  by_cases hi : i < 64
  · simp [hi]
  · have : a.testBit i = false := Nat.testBit_lt_two_pow (Nat.lt_of_lt_of_le h (Nat.pow_le_pow_right (by omega) (by omega)))
    simp [hi, this]

theorem W_eq : W = 2 ^ 64 := by decide
theorem ones64_eq : ones64 = 2 ^ 64 - 1 := by decide

/-- **zigzag round-trips on every 64-bit pattern** -/
theorem zigzag_roundtrip (x : Nat) (h : x < W) : zigzagDec (zigzagEnc x) = x := by
  unfold zigzagEnc zigzagDec
  have hW : W = 18446744073709551616 := rfl
  rw [hW] at h ⊢
  by_cases hx : x ≥ 9223372036854775808
  · rw [if_pos hx]
    have h1 : x * 2 % 18446744073709551616 = x * 2 - 18446744073709551616 := by omega
    have h2 : x * 2 - 18446744073709551616 < 2 ^ 64 := by omega
    rw [h1, ones64_eq, xor_ones64 _ h2]
    have h3 : (2 ^ 64 - 1 - (x * 2 - 18446744073709551616)) % 2 = 1 := by omega
    rw [if_pos h3]
    have h4 : (2 ^ 64 - 1 - (x * 2 - 18446744073709551616)) / 2 < 2 ^ 64 := by omega
    rw [xor_ones64 _ h4]
    omega
  · rw [if_neg hx]
    have h1 : x * 2 % 18446744073709551616 = x * 2 := by omega
    rw [h1, Nat.xor_zero]
    have h3 : ¬ (x * 2 % 2 = 1) := by omega
    rw [if_neg h3, Nat.xor_zero]; omega

theorem zigzagEnc_lt (x : Nat) : zigzagEnc x < W := by
  unfold zigzagEnc
  have hW : W = 18446744073709551616 := rfl
  rw [hW]
  by_cases hx : x ≥ 9223372036854775808
  · rw [if_pos hx]
    have h2 : x * 2 % 18446744073709551616 < 2 ^ 64 := by omega
    rw [ones64_eq, xor_ones64 _ h2]; omega
  · rw [if_neg hx, Nat.xor_zero]; omega

/-! ### big-endian words -/

theorem getU64_putU64 (v : Nat) (h : v < W) (rest : Bytes) : getU64 (putU64 v ++ rest) = some (v, rest) := by
  have hW : W = 18446744073709551616 := rfl
  rw [hW] at h
  simp only [putU64, List.cons_append, List.nil_append, getU64]
  congr 2
  omega

theorem putU64_length (v : Nat) : (putU64 v).length = 8 := rfl


/-! ### varints -/

theorem getUvarintAux_put (v : Nat) (rest : Bytes) :
    ∀ i, i ≤ 9 → v < 2 ^ (64 - 7 * i) → getUvarintAux i (putUvarint v ++ rest) = some (v, rest) := by
  fun_induction putUvarint v with
  | case1 v hlt =>
    intro i hi hv
    simp only [List.cons_append, List.nil_append, getUvarintAux]
    rw [if_neg (by omega), if_pos hlt, if_neg]
    rintro ⟨rfl, h2⟩
    simp at hv; omega
  | case2 v hge ih =>
    intro i hi hv
    simp only [List.cons_append, getUvarintAux]
    have hi8 : i ≤ 8 := by
      rcases Nat.lt_or_ge i 9 with h | h
      · omega
      · have : i = 9 := by omega
        subst this; simp at hv; omega
    have hdiv : v / 128 < 2 ^ (64 - 7 * (i + 1)) := by
      have e : 2 ^ (64 - 7 * i) = 128 * 2 ^ (64 - 7 * (i + 1)) := by
        have : 64 - 7 * i = 7 + (64 - 7 * (i + 1)) := by omega
        rw [this, Nat.pow_add]
      rw [e] at hv
      exact Nat.div_lt_of_lt_mul hv
    rw [if_neg (by omega), if_neg (by omega), ih (i + 1) (by omega) hdiv]
    simp only [Option.some.injEq, Prod.mk.injEq, and_true]
    omega

/-- **uvarint round-trips on every uint64** -/
theorem getUvarint_put (v : Nat) (h : v < W) (rest : Bytes) : getUvarint (putUvarint v ++ rest) = some (v, rest) :=
  getUvarintAux_put v rest 0 (by omega) (by simpa [W] using h)

/-! ### words -/

theorem getWords_append (ws : List Nat) (hws : ∀ w ∈ ws, w < W) (rest : Bytes) (hrest : rest.length < 8) (fuel : Nat)
    (hf : fuel ≥ ws.length + 1) : getWords fuel (ws.flatMap putU64 ++ rest) = (ws, rest) := by
  induction ws generalizing fuel with
  | nil =>
    cases fuel with
    | zero => omega
    | succ f =>
      simp only [List.flatMap_nil, List.nil_append, getWords]
      have : getU64 rest = none := by
        match rest, hrest with
        | [], _ => rfl
        | [_], _ => rfl
        | [_, _], _ => rfl
        | [_, _, _], _ => rfl
        | [_, _, _, _], _ => rfl
        | [_, _, _, _, _], _ => rfl
        | [_, _, _, _, _, _], _ => rfl
        | [_, _, _, _, _, _, _], _ => rfl
        | _ :: _ :: _ :: _ :: _ :: _ :: _ :: _ :: _, h => simp at h; omega
      rw [this]
  | cons w ws ih =>
    cases fuel with
    | zero => simp at hf
    | succ f =>
      simp only [List.flatMap_cons, List.append_assoc, getWords]
      rw [getU64_putU64 w (hws w List.mem_cons_self)]
      simp only
      rw [ih (fun x hx => hws x (List.mem_cons_of_mem _ hx)) f (by simp at hf; omega)]

theorem flatMap_putU64_length (ws : List Nat) : (ws.flatMap putU64).length = 8 * ws.length := by
  induction ws with
  | nil => rfl
  | cons w ws ih => simp [List.flatMap_cons, putU64_length, ih]; omega

/-- all words written are read back, with nothing left over -/
theorem words_flatMap_putU64 (ws : List Nat) (hws : ∀ w ∈ ws, w < W) : words (ws.flatMap putU64) = (ws, []) := by
  cases ws with
  | nil => rfl
  | cons w ws' =>
    have := getWords_append (w :: ws') hws [] (by simp) ((w :: ws').flatMap putU64).length
      (by rw [flatMap_putU64_length]; simp; omega)
    simpa [words] using this

end Influx.Codec
