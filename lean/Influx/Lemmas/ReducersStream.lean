/-
  Lemmas.ReducersStream — the stream reducers of Model.Reducers (derivative,
  difference, elapsed, cumulative_sum) emit exactly the list comprehensions of
  Spec.C23, for ANY arithmetic (no laws used): pure structure.
-/
import Influx.Model.Reducers
import Influx.Spec.C23
open Influx.Reducers Influx.Spec.C23

namespace Influx.Reducers.Lemmas
variable {V F : Type}

theorem dedupT_cons2 (p q : Pt V) (r : List (Pt V)) :
    dedupT (p :: q :: r) = if p.t = q.t then dedupT (p :: r) else p :: dedupT (q :: r) := by
  rw [dedupT]

theorem dedupT_head (p : Pt V) (r : List (Pt V)) : ∃ l, dedupT (p :: r) = p :: l := by
  induction r with
  | nil => exact ⟨[], by simp [dedupT]⟩
  | cons q r ih =>
    rw [dedupT_cons2]
    split
    · exact ih
    · exact ⟨_, rfl⟩

theorem adj_cons2 {α : Type} (a b : α) (l : List α) : adj (a :: b :: l) = (a, b) :: adj (b :: l) := by
  simp [adj]

/-- difference: invariant of the stream run -/
theorem diff_run (A : Arith V F) (nonNeg : Bool) (xs : List (Pt V)) :
    ∀ (c : Pt V) (prev : Option (Pt V)),
      (prev = none ∨ ∃ a, prev = some a ∧ (nonNeg && A.vo.lt (A.vo.sub c.v a.v) A.vo.zero) = true) →
      runStream pcAgg (diffEmit A.vo nonNeg) ⟨prev, some c⟩ xs = differenceDef A nonNeg (c :: xs) := by
  induction xs with
  | nil => intro c prev _; simp [runStream, differenceDef, dedupT, adj]
  | cons p ps ih =>
    intro c prev hprev
    by_cases hct : c.t = p.t
    · -- the point does not advance the stream
      have hagg : pcAgg ⟨prev, some c⟩ p = ⟨prev, some c⟩ := by simp [pcAgg, hct]
      have hemit : diffEmit A.vo nonNeg ⟨prev, some c⟩ = (⟨prev, some c⟩, []) := by
        rcases hprev with h | ⟨a, h, hd⟩
        · subst h; simp [diffEmit]
        · subst h; simp only [diffEmit, hd]; simp
      simp only [runStream, hagg, hemit, List.nil_append]
      rw [ih c prev hprev]
      simp [differenceDef, dedupT_cons2, hct]
    · have hagg : pcAgg ⟨prev, some c⟩ p = ⟨some c, some p⟩ := by simp [pcAgg, hct]
      obtain ⟨l, hl⟩ := dedupT_head p ps
      have hdef : differenceDef A nonNeg (c :: p :: ps) =
          (if nonNeg && A.vo.lt (A.vo.sub p.v c.v) A.vo.zero then [] else [⟨p.t, A.vo.sub p.v c.v⟩]) ++
            differenceDef A nonNeg (p :: ps) := by
        simp only [differenceDef, dedupT_cons2, hct, if_false, hl, adj_cons2, List.filterMap_cons]
        by_cases hd : (nonNeg && A.vo.lt (A.vo.sub p.v c.v) A.vo.zero) = true <;> simp [hd]
      simp only [runStream, hagg]
      by_cases hd : (nonNeg && A.vo.lt (A.vo.sub p.v c.v) A.vo.zero) = true
      · have hemit : diffEmit A.vo nonNeg ⟨some c, some p⟩ = (⟨some c, some p⟩, []) := by
          simp only [diffEmit, hd]; simp
        rw [hemit, hdef, ih p (some c) (Or.inr ⟨c, rfl, hd⟩)]
        simp [hd]
      · have hemit : diffEmit A.vo nonNeg ⟨some c, some p⟩ = (⟨none, some p⟩, [⟨p.t, A.vo.sub p.v c.v⟩]) := by
          simp only [diffEmit, hd]; simp
        rw [hemit, hdef, ih p none (Or.inl rfl)]
        simp [hd]

theorem difference_eq_def (A : Arith V F) (nonNeg : Bool) (xs : List (Pt V)) :
    difference A.vo nonNeg xs = differenceDef A nonNeg xs := by
  cases xs with
  | nil => simp [difference, runStream, differenceDef, dedupT, adj]
  | cons p ps =>
    have := diff_run A nonNeg ps p none (Or.inl rfl)
    simp only [difference, runStream]
    have hagg : pcAgg ({} : PCSt V) p = ⟨none, some p⟩ := by simp [pcAgg]
    have hemit : diffEmit A.vo nonNeg ⟨none, some p⟩ = (⟨none, some p⟩, []) := by simp [diffEmit]
    rw [hagg, hemit]
    simpa using this


/-! ### derivative -/

theorem deriv_run (A : Arith V F) (unit : Int) (nonNeg asc : Bool) (xs : List (Pt V)) :
    ∀ (c : Pt V),
      runStream pcAgg (derivEmit A.vo A.fo unit nonNeg asc) ⟨none, some c⟩ xs =
        derivativeDef A unit nonNeg asc (c :: xs) := by
  induction xs with
  | nil => intro c; simp [runStream, derivativeDef, dedupT, adj]
  | cons p ps ih =>
    intro c
    by_cases hct : c.t = p.t
    · have hagg : pcAgg ⟨none, some c⟩ p = ⟨none, some c⟩ := by simp [pcAgg, hct]
      have hemit : derivEmit A.vo A.fo unit nonNeg asc ⟨none, some c⟩ = (⟨none, some c⟩, []) := by
        simp [derivEmit]
      simp only [runStream, hagg, hemit, List.nil_append]
      rw [ih c]
      simp [derivativeDef, dedupT_cons2, hct]
    · have hagg : pcAgg ⟨none, some c⟩ p = ⟨some c, some p⟩ := by simp [pcAgg, hct]
      obtain ⟨l, hl⟩ := dedupT_head p ps
      have hel : (if asc then p.t - c.t else -(p.t - c.t)) = (if asc then p.t - c.t else c.t - p.t) := by
        split <;> omega
      have hdef : derivativeDef A unit nonNeg asc (c :: p :: ps) =
          (if derivDropped A.vo A.fo nonNeg c p then [] else [⟨p.t, derivValue A.vo A.fo unit asc c p⟩]) ++
            derivativeDef A unit nonNeg asc (p :: ps) := by
        simp only [derivativeDef, dedupT_cons2, hct, if_false, hl, adj_cons2, List.filterMap_cons,
          derivDropped, derivValue, hel]
        by_cases hd : (nonNeg && A.fo.lt (A.vo.toF (A.vo.sub p.v c.v)) (A.fo.ofInt 0)) = true <;> simp [hd]
      simp only [runStream, hagg]
      have hemit : derivEmit A.vo A.fo unit nonNeg asc ⟨some c, some p⟩ =
          (⟨none, some p⟩, if derivDropped A.vo A.fo nonNeg c p then [] else [⟨p.t, derivValue A.vo A.fo unit asc c p⟩]) := by
        simp only [derivEmit]; split <;> rfl
      rw [hemit, hdef, ih p]

theorem derivative_eq_def (A : Arith V F) (unit : Int) (nonNeg asc : Bool) (xs : List (Pt V)) :
    derivative A.vo A.fo unit nonNeg asc xs = derivativeDef A unit nonNeg asc xs := by
  cases xs with
  | nil => simp [derivative, runStream, derivativeDef, dedupT, adj]
  | cons p ps =>
    have := deriv_run A unit nonNeg asc ps p
    simp only [derivative, runStream]
    have hagg : pcAgg ({} : PCSt V) p = ⟨none, some p⟩ := by simp [pcAgg]
    have hemit : derivEmit A.vo A.fo unit nonNeg asc ⟨none, some p⟩ = (⟨none, some p⟩, []) := by
      simp [derivEmit]
    rw [hagg, hemit]
    simpa using this

/-! ### elapsed -/

theorem elapsed_run (unit : Int) (xs : List (Pt V)) :
    ∀ (c : Pt V) (prev : Option Int),
      runStream elAgg (elEmit unit) ⟨prev, some c.t⟩ xs = elapsedDef unit (c :: xs) := by
  induction xs with
  | nil => intro c prev; simp [runStream, elapsedDef, adj]
  | cons p ps ih =>
    intro c prev
    simp only [runStream, elAgg, elEmit]
    rw [ih p (some c.t)]
    simp [elapsedDef, adj]

theorem elapsed_eq_def (unit : Int) (xs : List (Pt V)) : elapsed unit xs = elapsedDef unit xs := by
  cases xs with
  | nil => simp [elapsed, runStream, elapsedDef, adj]
  | cons p ps =>
    simp only [elapsed, runStream, elAgg, elEmit]
    rw [elapsed_run unit ps p none]
    simp

/-! ### cumulative_sum -/

theorem filterMap_congr' {α β : Type} {f g : α → Option β} {l : List α} (h : ∀ x ∈ l, f x = g x) :
    l.filterMap f = l.filterMap g := by
  induction l with
  | nil => rfl
  | cons a l ih =>
    have ha := h a (by simp)
    have hl := ih (fun x hx => h x (by simp [hx]))
    simp only [List.filterMap_cons, ha, hl]

theorem cumsum_run (A : Arith V F) (xs : List (Pt V)) :
    ∀ (pre : List (Pt V)) (tm : Int) (nl : Bool),
      runStream (csAgg A.vo) csEmit ⟨(pre.map (·.v)).foldl A.vo.add A.vo.zero, tm, nl⟩ xs =
        (List.range xs.length).filterMap fun i =>
          (xs[i]?).map fun p => ⟨p.t, (((pre ++ xs).take (pre.length + i + 1)).map (·.v)).foldl A.vo.add A.vo.zero⟩ := by
  induction xs with
  | nil => intro pre tm nl; simp [runStream]
  | cons p ps ih =>
    intro pre tm nl
    simp only [runStream, csAgg, csEmit]
    have h1 : A.vo.add ((pre.map (·.v)).foldl A.vo.add A.vo.zero) p.v =
        ((pre ++ [p]).map (·.v)).foldl A.vo.add A.vo.zero := by simp
    rw [h1]
    simp only [Bool.false_eq_true, if_false]
    rw [ih (pre ++ [p]) p.t false]
    simp only [List.length_cons, List.range_succ_eq_map, List.filterMap_cons,
      List.getElem?_cons_zero, Option.map_some, List.singleton_append, List.cons.injEq, List.filterMap_map]
    constructor
    · congr 1
      simp [List.take_append, List.take_of_length_le]
    · apply filterMap_congr'
      intro i _
      simp [Function.comp, List.length_append, Nat.add_assoc, Nat.add_comm 1 i]

theorem cumulativeSum_eq_def (A : Arith V F) (xs : List (Pt V)) :
    cumulativeSum A.vo xs = cumulativeSumDef A xs := by
  have := cumsum_run A xs [] 0 true
  simpa [cumulativeSum, cumulativeSumDef] using this

end Influx.Reducers.Lemmas
