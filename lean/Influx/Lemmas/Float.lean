/-
  Lemmas.Float — `Model.Float.roundQ` returns small integers exactly, hence so do
  `float64(n)`, `/` and `*` when the exact result is an integer below 2^53.
-/
import Influx.Model.Float

namespace Influx.Lemmas.Float
open Influx.Model.Float

theorem roundHalfEven_mul (X q : Nat) (hq : 0 < q) : roundHalfEven (X * q) q = X := by
  unfold roundHalfEven
  simp only [Nat.mul_div_cancel _ hq, Nat.mul_mod_left]
  simp
  omega

theorem log2_mono (a b : Nat) (ha : 0 < a) (h : a ≤ b) : Nat.log2 a ≤ Nat.log2 b := by
  apply Nat.le_of_not_lt
  intro hlt
  have h1 : b < 2 ^ Nat.log2 a := (Nat.log2_lt (by omega)).mp hlt
  have h2 : 2 ^ Nat.log2 a ≤ a := Nat.log2_self_le (by omega)
  omega

theorem floorLog2Q_bounds (N q : Nat) (hq : 0 < q) (hN0 : 0 < N) (hN : N < 2 ^ 53) :
    -1 ≤ floorLog2Q (N * q) q ∧ floorLog2Q (N * q) q ≤ 52 := by
  have hp : 0 < N * q := Nat.mul_pos hN0 hq
  have hqp : q ≤ N * q := Nat.le_mul_of_pos_left q hN0
  have h1 : Nat.log2 q ≤ Nat.log2 (N * q) := log2_mono q _ hq hqp
  have h2 : Nat.log2 (N * q) < Nat.log2 q + 54 := by
    apply (Nat.log2_lt (by omega)).mpr
    have hq2 : q < 2 ^ (Nat.log2 q + 1) := Nat.lt_log2_self
    calc N * q < 2 ^ 53 * q := Nat.mul_lt_mul_of_pos_right hN hq
      _ < 2 ^ 53 * 2 ^ (Nat.log2 q + 1) := Nat.mul_lt_mul_of_pos_left hq2 (by decide)
      _ = 2 ^ (Nat.log2 q + 54) := by rw [← Nat.pow_add]; congr 1; omega
  unfold floorLog2Q
  simp only
  have hl0 : (0 : Int) ≤ (Nat.log2 (N * q) : Int) - (Nat.log2 q : Int) := by omega
  rw [if_pos hl0]
  split
  · next hge =>
    constructor
    · omega
    · -- l ≤ 52, else p ≥ q * 2^53 contradicts N < 2^53
      apply Decidable.byContradiction
      intro hgt
      have hl : ((Nat.log2 (N * q) : Int) - (Nat.log2 q : Int)).toNat = 53 := by omega
      rw [hl] at hge
      have : N * q ≥ q * 2 ^ 53 := by simpa using hge
      have : N * q < 2 ^ 53 * q := Nat.mul_lt_mul_of_pos_right hN hq
      rw [Nat.mul_comm q] at *
      omega
  · constructor <;> omega

theorem roundQ_exact (N q : Nat) (hq : 0 < q) (hN : N < 2 ^ 53) :
    ∃ f, roundQ (N * q) q = some f ∧ f.num = N * f.den ∧ 0 < f.den := by
  by_cases hN0 : N = 0
  · subst hN0
    refine ⟨⟨0, 0⟩, by simp [roundQ], by simp [F.num], by simp [F.den]⟩
  · have hN0 : 0 < N := by omega
    have hp : N * q ≠ 0 := Nat.ne_of_gt (Nat.mul_pos hN0 hq)
    obtain ⟨hL1, hL2⟩ := floorLog2Q_bounds N q hq hN0 hN
    unfold roundQ
    rw [if_neg hp]
    simp only
    generalize floorLog2Q (N * q) q = L at hL1 hL2
    have hu' : (if L - 52 < -1074 then (-1074 : Int) else L - 52) = L - 52 := by rw [if_neg (by omega)]
    simp only [hu']
    have hov : ¬ (L - 52 + 53 > 1024 ∨ (L - 52 + 53 = 1024 ∧
        (if L - 52 ≥ 0 then roundHalfEven (N * q) (q * 2 ^ (L - 52).toNat)
          else roundHalfEven (N * q * 2 ^ (-(L - 52)).toNat) q) ≥ 2 ^ 53)) := by omega
    rw [if_neg hov]
    refine ⟨_, rfl, ?_, ?_⟩
    · by_cases hu : L - 52 ≥ 0
      · have hL : L = 52 := by omega
        subst hL
        simp [F.num, F.den, roundHalfEven_mul N q hq]
      · have hmul : N * q * 2 ^ (-(L - 52)).toNat = (N * 2 ^ (-(L - 52)).toNat) * q := by ac_rfl
        simp only [F.num, F.den, if_neg hu, hmul, roundHalfEven_mul _ q hq]
    · by_cases hu : L - 52 ≥ 0
      · simp only [F.den, if_pos hu]; decide
      · simp only [F.den, if_neg hu]; exact Nat.pow_pos (by decide)

/-- `float64(n)` is exact below 2^53 -/
theorem ofNat_exact (n : Nat) (hn : n < 2 ^ 53) : ∃ f, ofNat n = some f ∧ f.num = n * f.den ∧ 0 < f.den := by
  have := roundQ_exact n 1 (by decide) hn
  simpa [ofNat] using this

theorem m_ne_zero_of_num (f : F) (h : 0 < f.num) : f.m ≠ 0 := by
  intro hm
  unfold F.num at h
  split at h <;> simp [hm] at h

/-- `a / b` is exact when the quotient is an integer below 2^53 -/
theorem div_exact (a b : F) (A B D : Nat) (ha : a.num = A * a.den) (hb : b.num = B * b.den)
    (hda : 0 < a.den) (hdb : 0 < b.den) (hB : 0 < B) (hAB : A = D * B) (hD : D < 2 ^ 53) :
    ∃ q, div a b = some q ∧ q.num = D * q.den ∧ 0 < q.den := by
  unfold div
  have hbn : 0 < b.num := by rw [hb]; exact Nat.mul_pos hB hdb
  rw [if_neg (m_ne_zero_of_num b hbn)]
  have e : a.num * b.den = D * (a.den * b.num) := by
    rw [ha, hb, hAB]; ac_rfl
  rw [e]
  exact roundQ_exact D (a.den * b.num) (Nat.mul_pos hda hbn) hD

/-- `a * b` is exact when the product is an integer below 2^53 -/
theorem mul_exact (a b : F) (A B : Nat) (ha : a.num = A * a.den) (hb : b.num = B * b.den)
    (hda : 0 < a.den) (hdb : 0 < b.den) (hAB : A * B < 2 ^ 53) :
    ∃ p, mul a b = some p ∧ p.num = (A * B) * p.den ∧ 0 < p.den := by
  unfold mul
  have e : a.num * b.num = (A * B) * (a.den * b.den) := by rw [ha, hb]; ac_rfl
  rw [e]
  exact roundQ_exact (A * B) (a.den * b.den) (Nat.mul_pos hda hdb) hAB

theorem trunc_exact (p : F) (N : Nat) (h : p.num = N * p.den) (hd : 0 < p.den) : trunc p = N := by
  unfold trunc; rw [h]; exact Nat.mul_div_cancel N hd

end Influx.Lemmas.Float
