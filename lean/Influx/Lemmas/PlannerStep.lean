/-
  Lemmas.PlannerStep — every step of the planner state machine preserves the
  invariant, and the statement checker finds nothing but (possibly) a
  non-contiguous group from a `Plan` call on the full path.
-/
import Influx.Lemmas.PlannerInv

namespace Influx.Planner
open Influx.Spec.C05

/-- result of one step as the statement checker judges it -/
structure StepOK (s : State) (st : St) (i : Nat) (op : Op) : Prop where
  inv : Inv (step s op).1 (stepSt st i (op, (step s op).2)).1
  onlyFull : OnlyFull (stepSt st i (op, (step s op).2)).2
  /-- nothing at all is reported unless this is a `Plan` on the full path -/
  none : (∀ c, op = .plan c → st.forcePending = false ∧ c = false) →
    (stepSt st i (op, (step s op).2)).2 = []
  /-- `ForceFull` stays clear unless the op is `force` -/
  force : op ≠ .force → st.forcePending = false →
    (stepSt st i (op, (step s op).2)).1.forcePending = false

theorem OnlyFull.nil : OnlyFull [] := by intro f hf; simp at hf

theorem StepOK.of {s : State} {st : St} {i : Nat} {op : Op} (s' : State) (o : Obs) (st' : St)
    (fails : List Fail) (h1 : step s op = (s', o)) (h2 : stepSt st i (op, o) = (st', fails))
    (inv : Inv s' st') (of : OnlyFull fails)
    (none : (∀ c, op = .plan c → st.forcePending = false ∧ c = false) → fails = [])
    (force : op ≠ .force → st.forcePending = false → st'.forcePending = false) : StepOK s st i op := by
  constructor <;> simp only [h1, h2] <;> assumption

private theorem gens_ok {s : State} {st : St} (inv : Inv s st) :
    ∃ fsAt, st.atFind = fsAt.map pg ∧ GensOK fsAt s.gens ∧ (fsAt.map (·.path)).Nodup := by
  obtain ⟨fsAt, h1, h2, h3⟩ := inv.atFind
  exact ⟨fsAt, h1, h2 ▸ findGenerations_ok fsAt, h3⟩

/-- groups of whole generations, unsorted file lists (PlanLevel, PlanOptimize) -/
private theorem plain_groups {s : State} {st : St} (inv : Inv s st) (gss : List (List Gen))
    (hs : Sub s.gens gss) (hc : Contig s.gens gss) :
    (toFiles gss).flatten.Nodup ∧ ∀ g ∈ toFiles gss, contiguousIn st.atFind g = true := by
  obtain ⟨fsAt, h1, ok, hn⟩ := gens_ok inv
  refine ⟨paths_nodup_of_sub ok hn hs, ?_⟩
  intro g hg
  obtain ⟨gs, hgs, rfl⟩ := List.mem_map.mp hg
  rw [h1]
  exact contiguous_of_infix ok hn (hc gs hgs) _ (fun _ => Iff.rfl)

/-- groups of whole generations with sorted file lists (Plan) -/
private theorem sorted_groups_nodup {s : State} {st : St} (inv : Inv s st) (gss : List (List Gen))
    (hs : Sub s.gens gss) : ((gss.map fun g => sortStrings (gensPaths g)).flatten).Nodup := by
  obtain ⟨fsAt, _, ok, hn⟩ := gens_ok inv
  exact (sortedFiles_flatten_perm gss).nodup_iff.mpr (paths_nodup_of_sub ok hn hs)

private theorem sorted_groups_contig {s : State} {st : St} (inv : Inv s st) (gss : List (List Gen))
    (hc : Contig s.gens gss) :
    ∀ g ∈ gss.map (fun g => sortStrings (gensPaths g)), contiguousIn st.atFind g = true := by
  obtain ⟨fsAt, h1, ok, hn⟩ := gens_ok inv
  intro g hg
  obtain ⟨gs, hgs, rfl⟩ := List.mem_map.mp hg
  rw [h1]
  exact contiguous_of_infix ok hn (hc gs hgs) _ (fun p => (sortStrings_perm _).mem_iff)

/-- a planning call that answers "no groups" -/
private theorem StepOK.empty {s : State} {st : St} {i : Nat} {op : Op} (s' : State) (st' : St)
    (full : Bool) (gc : Nat)
    (h1 : step s op = (s', .plan [] 0 gc)) (h2 : stepSt st i (op, .plan [] 0 gc) = judge st' i full [])
    (inv : Inv s' st') (hf : op ≠ .force → st.forcePending = false → st'.forcePending = false) :
    StepOK s st i op := by
  have hn : (heldOf st'.handed).flatten.Nodup := by rw [inv.handed]; exact inv.heldNodup
  rw [judge_nil st' i full hn] at h2
  exact StepOK.of s' _ st' [] h1 h2 inv OnlyFull.nil (fun _ => rfl) hf

/-- a planning call that goes through `finishPlan` -/
private theorem StepOK.finish {s : State} {st : St} {i : Nat} {op : Op} (s' : State) (st' : St)
    (full : Bool) (groups : List (List String)) (gc : Nat)
    (h1 : step s op = finishPlan s' groups gc)
    (h2 : ∀ gs n, stepSt st i (op, .plan gs n gc) = judge st' i full gs)
    (inv : Inv s' st') (hnd : groups.flatten.Nodup)
    (hc : full = true ∨ ∀ g ∈ groups, contiguousIn st'.atFind g = true)
    (hnone : (∀ c, op = .plan c → st.forcePending = false ∧ c = false) →
      ∀ g ∈ groups, contiguousIn st'.atFind g = true)
    (hf : op ≠ .force → st.forcePending = false → st'.forcePending = false) :
    StepOK s st i op := by
  obtain ⟨gs', n, e, inv', of, none⟩ := finishPlan_inv inv i full groups gc hnd hc
  have h1' : step s op = ((finishPlan s' groups gc).1, .plan gs' n gc) := by rw [h1, ← e]
  refine StepOK.of _ _ _ _ h1' (h2 gs' n) inv' of (fun h => none (hnone h)) ?_
  intro a b; simpa using hf a b

theorem step_ok {s : State} {st : St} (inv : Inv s st) (i : Nat) (op : Op) : StepOK s st i op := by
  cases op with
  | new d =>
    exact StepOK.of { durPos := d } .ok { durPos := d } [] rfl rfl
      ⟨rfl, by simp, ⟨[], rfl, rfl, by simp⟩, rfl, rfl, rfl, by simp, by simp⟩
      OnlyFull.nil (fun _ => rfl) (fun _ _ => rfl)
  | setfs mf files =>
    by_cases hn : (files.map (·.path)).Nodup
    · refine StepOK.of { s with stats := files, modFuture := mf } .ok
        { st with store := files.map fun f => (f.path, f.gen) } [] (by simp [step, hn]) rfl
        ⟨rfl, hn, inv.atFind, inv.handed, inv.force, inv.dur, inv.inUse, inv.heldNodup⟩
        OnlyFull.nil (fun _ => rfl) (fun _ h => h)
    · exact StepOK.of s .rejected st [] (by simp [step, hn]) rfl inv OnlyFull.nil (fun _ => rfl) (fun _ h => h)
  | add f =>
    by_cases hc : (s.stats.map (·.path)).contains f.path
    · exact StepOK.of s .rejected st [] (by simp only [step]; rw [if_pos hc]) rfl inv OnlyFull.nil
        (fun _ => rfl) (fun _ h => h)
    · refine StepOK.of { s with stats := s.stats ++ [f] } .ok
        { st with store := st.store ++ [(f.path, f.gen)] } [] (by simp only [step]; rw [if_neg hc]) rfl
        ⟨by simp [inv.store, pg], ?_, inv.atFind, inv.handed, inv.force, inv.dur, inv.inUse, inv.heldNodup⟩
        OnlyFull.nil (fun _ => rfl) (fun _ h => h)
      simp only [List.map_append, List.map_cons, List.map_nil]
      rw [List.nodup_append]
      refine ⟨inv.statsNodup, by simp, ?_⟩
      intro a ha b hb hab
      simp only [List.mem_singleton] at hb
      subst hb; subst hab
      exact hc (by simpa using ha)
  | find =>
    exact StepOK.of { s with gens := findGenerations s.stats } _ { st with atFind := st.store } [] rfl rfl
      ⟨inv.store, inv.statsNodup, ⟨s.stats, inv.store, rfl, inv.statsNodup⟩, inv.handed, inv.force,
        inv.dur, inv.inUse, inv.heldNodup⟩
      OnlyFull.nil (fun _ => rfl) (fun _ h => h)
  | force =>
    exact StepOK.of { s with forceFull := true } .ok { st with forcePending := true } [] rfl rfl
      ⟨inv.store, inv.statsNodup, inv.atFind, inv.handed, rfl, inv.dur, inv.inUse, inv.heldNodup⟩
      OnlyFull.nil (fun _ => rfl) (fun h _ => absurd rfl h)
  | fully =>
    exact StepOK.of s _ st [] rfl rfl inv OnlyFull.nil (fun _ => rfl) (fun _ h => h)
  | inuse =>
    exact StepOK.of s _ st [] rfl rfl inv OnlyFull.nil (fun _ => rfl) (fun _ h => h)
  | level lvl =>
    have h2 : ∀ gs n, stepSt st i (.level lvl, .plan gs n 0) = judge st i false gs := fun _ _ => rfl
    by_cases h : s.forceFull = true
    · exact StepOK.empty s st false 0 (by simp [step, planLevel, h]) (h2 _ _) inv (fun _ h => h)
    by_cases h' : (decide (s.gens.length ≤ 1) && !gensHasTombstones s.gens) = true
    · exact StepOK.empty s st false 0 (by simp only [step, planLevel, h, h']; simp) (h2 _ _) inv (fun _ h => h)
    · have hp := plain_groups inv _ (levelGens_sub s.inUse s.gens lvl) (levelGens_contig s.inUse s.gens lvl)
      exact StepOK.finish s st false _ 0 (by simp only [step, planLevel, h, h']; simp) h2 inv hp.1
        (Or.inr hp.2) (fun _ => hp.2) (fun _ h => h)
  | opt cold =>
    have h2 : ∀ gs n gc, stepSt st i (.opt cold, .plan gs n gc) = judge st i false gs := fun _ _ _ => rfl
    by_cases h : s.forceFull = true
    · exact StepOK.empty s st false 0 (by simp [step, planOptimize, h]) (h2 _ _ _) inv (fun _ h => h)
    by_cases h' : ((fullyCompacted s.gens).1 || !cold) = true
    · exact StepOK.empty s st false 0 (by simp only [step, planOptimize, h, h']; simp) (h2 _ _ _) inv (fun _ h => h)
    · have hp := plain_groups inv _ (optGens_sub s.inUse s.gens) (optGens_contig s.inUse s.gens)
      exact StepOK.finish s st false _ s.gens.length (by simp only [step, planOptimize, h, h']; simp)
        (fun gs n => h2 gs n _) inv hp.1 (Or.inr hp.2) (fun _ => hp.2) (fun _ h => h)
  | plan cold =>
    -- the checker's state and "full" flag for this call
    have h2 : ∀ gs n gc, stepSt st i (.plan cold, .plan gs n gc) =
        judge { st with forcePending := false } i (st.forcePending || (st.durPos && cold)) gs :=
      fun _ _ _ => rfl
    have invF : Inv { s with forceFull := false } { st with forcePending := false } :=
      ⟨inv.store, inv.statsNodup, inv.atFind, inv.handed, rfl, inv.dur, inv.inUse, inv.heldNodup⟩
    by_cases hfull : isFullPlan s cold = true
    · -- full path: disjointness only
      have hflag : (st.forcePending || (st.durPos && cold)) = true := by
        rw [inv.force, inv.dur]
        simp only [isFullPlan, Bool.or_eq_true, Bool.and_eq_true, decide_eq_true_eq] at hfull ⊢
        rcases hfull with h | h
        · exact Or.inl h
        · exact Or.inr ⟨h.1.1, h.1.2⟩
      have hnotnone : ¬ (∀ c, Op.plan cold = .plan c → st.forcePending = false ∧ c = false) := by
        intro hh
        obtain ⟨h1, h2⟩ := hh cold rfl
        rw [h1, h2] at hflag
        simp at hflag
      cases hg : fullGens s.inUse s.gens with
      | nil =>
        refine StepOK.empty { s with forceFull := false } { st with forcePending := false } _ 0 ?_
          (h2 _ _ _) invF (fun _ _ => rfl)
        simp [step, plan, hfull, hg]
      | cons g gs =>
        have hsub : Sub s.gens (g :: gs) := hg ▸ fullGens_sub s.inUse s.gens
        refine StepOK.finish { s with forceFull := false } { st with forcePending := false } _
          ((g :: gs).map fun g => sortStrings (gensPaths g)) 0 ?_ (fun gs n => h2 gs n _) invF
          (sorted_groups_nodup invF _ hsub) (Or.inl hflag) (fun hh => absurd hh hnotnone) (fun _ _ => rfl)
        simp [step, plan, hfull, hg]
    · -- level-4 path: disjoint and contiguous
      by_cases h1 : ((s.lpcSet && !s.modFuture) && !gensHasTombstones s.gens) = true
      · refine StepOK.empty s { st with forcePending := false } _ 0 ?_ (h2 _ _ _)
          ⟨inv.store, inv.statsNodup, inv.atFind, inv.handed, ?_, inv.dur, inv.inUse, inv.heldNodup⟩
          (fun _ _ => rfl)
        · simp only [step, plan, hfull, h1]; simp
        · have : s.forceFull = false := by
            simp only [isFullPlan, Bool.or_eq_true, not_or, Bool.not_eq_true] at hfull
            exact hfull.1
          simp [this]
      · have hff : s.forceFull = false := by
          simp only [isFullPlan, Bool.or_eq_true, not_or, Bool.not_eq_true] at hfull
          exact hfull.1
        have invL : Inv { s with lpcSet := true } { st with forcePending := false } :=
          ⟨inv.store, inv.statsNodup, inv.atFind, inv.handed, by simp [hff], inv.dur, inv.inUse, inv.heldNodup⟩
        by_cases h3 : (decide (s.gens.length ≤ 1) && !gensHasTombstones s.gens) = true
        · refine StepOK.empty { s with lpcSet := true } { st with forcePending := false } _ 0 ?_ (h2 _ _ _)
            invL (fun _ _ => rfl)
          simp only [step, plan, hfull, h1, h3]; simp
        · have hc := sorted_groups_contig invL _ (l4Gens_contig s.inUse s.gens)
          refine StepOK.finish { s with lpcSet := true } { st with forcePending := false } _
            ((l4Gens s.inUse s.gens).map fun g => sortStrings (gensPaths g)) 0 ?_ (fun gs n => h2 gs n _) invL
            (sorted_groups_nodup invL _ (l4Gens_sub s.inUse s.gens)) (Or.inr hc) (fun _ => hc) (fun _ _ => rfl)
          simp only [step, plan, hfull, h1, h3]; simp
  | release k =>
    cases hk : s.handed[k]? with
    | none =>
      exact StepOK.of s .notHeld st [] (by simp [step, hk]) rfl inv OnlyFull.nil (fun _ => rfl) (fun _ h => h)
    | some x =>
      obtain ⟨g, b⟩ := x
      cases b with
      | false =>
        exact StepOK.of s .notHeld st [] (by simp [step, hk]) rfl inv OnlyFull.nil (fun _ => rfl) (fun _ h => h)
      | true =>
        obtain ⟨hn, hm⟩ := held_set s.handed k g hk inv.heldNodup
        refine StepOK.of { s with inUse := releaseFiles s.inUse g, handed := s.handed.set k (g, false) }
          .released { st with handed := st.handed.set k (g, false) } [] (by simp [step, hk])
          (by simp [stepSt, inv.handed, hk])
          ⟨inv.store, inv.statsNodup, inv.atFind, by simp [inv.handed], inv.force, inv.dur, ?_, hn⟩
          OnlyFull.nil (fun _ => rfl) (fun _ h => h)
        intro p
        simp only [releaseFiles, List.mem_filter, hm, inv.inUse]
        simp
  | done k size fbc =>
    cases hk : s.handed[k]? with
    | none =>
      exact StepOK.of s .notHeld st [] (by simp [step, hk]) rfl inv OnlyFull.nil (fun _ => rfl) (fun _ h => h)
    | some x =>
      obtain ⟨g, b⟩ := x
      cases b with
      | false =>
        exact StepOK.of s .notHeld st [] (by simp [step, hk]) rfl inv OnlyFull.nil (fun _ => rfl) (fun _ h => h)
      | true =>
        obtain ⟨hn, hm⟩ := held_set s.handed k g hk inv.heldNodup
        generalize hold : s.stats.filter (fun f => g.contains f.path) = old
        generalize hkeep : s.stats.filter (fun f => !g.contains f.path) = keep
        generalize hnf : compactedFile old size fbc = nf
        by_cases hrej : (old.isEmpty || decide (nf.seq ≤ 0) || (keep.map (·.path)).contains nf.path) = true
        · refine StepOK.of s .rejected st [] ?_ rfl inv OnlyFull.nil (fun _ => rfl) (fun _ h => h)
          simp only [step, hk, hold, hkeep, hnf]
          rw [if_pos hrej]
        · refine StepOK.of
            { s with stats := keep ++ [nf], inUse := releaseFiles s.inUse g, handed := s.handed.set k (g, false) }
            (.done nf.path nf.gen nf.seq)
            { st with handed := st.handed.set k (g, false), store := st.store.filter (fun e => !g.contains e.1) ++ [(nf.path, nf.gen)] }
            [] ?_ (by simp [stepSt, inv.handed, hk])
            ⟨?_, ?_, inv.atFind, by simp [inv.handed], inv.force, inv.dur, ?_, hn⟩
            OnlyFull.nil (fun _ => rfl) (fun _ h => h)
          · simp only [step, hk, hold, hkeep, hnf]
            rw [if_neg hrej]
          · simp only [inv.store, List.map_append, List.map_cons, List.map_nil, pg, ← hkeep, List.filter_map]
            rfl
          · simp only [List.map_append, List.map_cons, List.map_nil]
            rw [List.nodup_append]
            refine ⟨?_, by simp, ?_⟩
            · rw [← hkeep]
              exact List.Nodup.sublist (List.Sublist.map _ List.filter_sublist) inv.statsNodup
            · intro a ha b hb hab
              simp only [List.mem_singleton] at hb
              subst hb; subst hab
              apply hrej
              simp only [Bool.or_eq_true]
              right
              simpa using ha
          · intro p
            simp only [releaseFiles, List.mem_filter, hm, inv.inUse]
            simp

end Influx.Planner
