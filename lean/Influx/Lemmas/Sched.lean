/-
  Lemmas.Sched — invariants of the TreeScheduler model (Model/Sched.lean) used by Props.C24.
-/
import Influx.Model.Sched
set_option linter.unusedSimpArgs false
set_option linter.unusedVariables false
namespace Influx.Lemmas.Sched
open Influx.Model.Sched

/-! ### the order on items -/

def Item.le (a b : Item) : Prop := ¬ (b.lt a = true)

theorem lt_iff (a b : Item) : a.lt b = true ↔ a.when < b.when ∨ (a.when = b.when ∧ a.id < b.id) := by
  simp [Item.lt]

theorem le_iff (a b : Item) : Item.le a b ↔ a.when < b.when ∨ (a.when = b.when ∧ a.id ≤ b.id) := by
  unfold Item.le
  rw [lt_iff]
  constructor
  · intro h
    by_cases h1 : a.when < b.when
    · exact Or.inl h1
    · have h2 : ¬ b.when < a.when := fun hh => h (Or.inl hh)
      have h3 : a.when = b.when := by omega
      refine Or.inr ⟨h3, ?_⟩
      have : ¬ b.id < a.id := fun hh => h (Or.inr ⟨h3.symm, hh⟩)
      omega
  · rintro (h | ⟨h1, h2⟩) <;> intro hh <;> rcases hh with hh | ⟨hh1, hh2⟩ <;> omega

theorem le_when {a b : Item} (h : Item.le a b) : a.when ≤ b.when := by
  rw [le_iff] at h; omega

theorem le_of_lt {a b : Item} (h : a.lt b = true) : Item.le a b := by
  rw [lt_iff] at h; rw [le_iff]; omega

theorem le_of_not_lt {a b : Item} (h : ¬ a.lt b = true) : Item.le b a := h

theorem le_trans {a b c : Item} (h1 : Item.le a b) (h2 : Item.le b c) : Item.le a c := by
  rw [le_iff] at *; omega

def Sorted (q : List Item) : Prop := q.Pairwise Item.le

theorem mem_insertItem {it y : Item} {q : List Item} : y ∈ insertItem it q ↔ y = it ∨ y ∈ q := by
  induction q with
  | nil => simp [insertItem]
  | cons x xs ih =>
    unfold insertItem
    by_cases h : it.lt x = true
    · simp [h]
    · simp [h, ih]; constructor <;> (intro hh; rcases hh with hh | hh | hh <;> simp [hh])

theorem sorted_insert {it : Item} {q : List Item} (hs : Sorted q) : Sorted (insertItem it q) := by
  induction q with
  | nil => simp [insertItem, Sorted]
  | cons x xs ih =>
    unfold Sorted at hs
    rw [List.pairwise_cons] at hs
    obtain ⟨hx, hxs⟩ := hs
    unfold insertItem
    cases h : it.lt x with
    | true =>
      simp only [if_true]
      unfold Sorted
      rw [List.pairwise_cons]
      refine ⟨?_, List.pairwise_cons.mpr ⟨hx, hxs⟩⟩
      intro y hy
      rcases List.mem_cons.mp hy with rfl | hy
      · exact le_of_lt h
      · exact le_trans (le_of_lt h) (hx y hy)
    | false =>
      simp only [Bool.false_eq_true, if_false]
      unfold Sorted
      rw [List.pairwise_cons]
      refine ⟨?_, ih hxs⟩
      intro y hy
      rcases mem_insertItem.mp hy with rfl | hy
      · exact le_of_not_lt (by simp [h])
      · exact hx y hy

theorem sorted_removeId {id : Nat} {q : List Item} (hs : Sorted q) : Sorted (removeId id q) := by
  unfold Sorted removeId at *
  exact hs.sublist List.filter_sublist

theorem sorted_head_le {m : Item} {q : List Item} (hs : Sorted (m :: q)) : ∀ x ∈ m :: q, m.when ≤ x.when := by
  unfold Sorted at hs
  rw [List.pairwise_cons] at hs
  intro x hx
  rcases List.mem_cons.mp hx with rfl | hx
  · omega
  · exact le_when (hs.1 x hx)

theorem mem_reinsert {ins kept : List Item} {y : Item} : y ∈ reinsert ins kept ↔ y ∈ ins ∨ y ∈ kept := by
  unfold reinsert
  induction ins generalizing kept with
  | nil => simp
  | cons x xs ih =>
    simp only [List.foldl_cons]
    rw [ih, mem_insertItem]
    simp only [List.mem_cons]
    grind

theorem sorted_reinsert {ins kept : List Item} (hs : Sorted kept) : Sorted (reinsert ins kept) := by
  unfold reinsert
  induction ins generalizing kept with
  | nil => simpa
  | cons x xs ih =>
    simp only [List.foldl_cons]
    exact ih (sorted_insert hs)

/-! ### dispatch -/

theorem dispatch_kept_sublist (cfg : Cfg) (now : Int) (q : List Item) (busy : List (Nat × Run)) :
    (dispatch cfg now q busy).kept.Sublist q := by
  induction q generalizing busy with
  | nil => simp [dispatch]
  | cons it rest ih =>
    unfold dispatch
    by_cases h1 : it.when > now
    · simp [h1]
    · by_cases h2 : workerBusy busy (cfg.wk it.id) = true
      · simp only [h1, h2, if_true, if_false]
        exact (ih busy).cons_cons it
      · simp only [h1, h2, if_false]
        cases hc : it.cron it.next <;> simp only [] <;> exact (ih _).cons it


/-! ### the timer / `when` invariant of the repaired scheduler -/

structure InvT (s : State) : Prop where
  sorted : Sorted s.queue
  /-- `when` never lies after a pending due time -/
  k2 : ∀ w, s.when_ = some w → ∀ it ∈ s.queue, w ≤ it.when
  /-- something pending ⇒ `when` is set -/
  k4 : s.queue ≠ [] → s.when_.isSome = true
  /-- loop asleep with no tick pending ⇒ the timer is armed and fires no later than `when` (or is already due) -/
  k3 : s.mode = .idle → s.tick = false → ∀ w, s.when_ = some w →
        ∃ d, s.timer = some d ∧ (d ≤ w ∨ d ≤ s.now)

theorem invT_init : InvT init :=
  ⟨by simp [init, Sorted], by simp [init], by simp [init], by simp [init]⟩

theorem mem_removeId {id : Nat} {q : List Item} {x : Item} (h : x ∈ removeId id q) : x ∈ q := by
  unfold removeId at h; exact (List.mem_filter.mp h).1

theorem armFor_fields (s : State) (it : Item) :
    (armFor s it).now = s.now ∧ (armFor s it).queue = s.queue ∧ (armFor s it).tick = s.tick ∧
    (armFor s it).mode = s.mode ∧ (armFor s it).busy = s.busy ∧ (armFor s it).log = s.log := by
  unfold armFor
  cases s.when_ with
  | none => simp
  | some w => by_cases h : w > it.when <;> simp [h]

/-- what `armFor` does to `when` and the timer -/
theorem armFor_cases (s : State) (it : Item) :
    ((s.when_ = none ∨ ∃ w, s.when_ = some w ∧ w > it.when) ∧
        (armFor s it).when_ = some it.when ∧
        (armFor s it).timer = some (if it.when ≤ s.now then s.now else it.when)) ∨
    ((∃ w, s.when_ = some w ∧ w ≤ it.when) ∧ (armFor s it).when_ = s.when_ ∧ (armFor s it).timer = s.timer) := by
  unfold armFor
  cases hw : s.when_ with
  | none => simp
  | some w =>
    by_cases h : w > it.when
    · simp [h]
    · have : w ≤ it.when := by omega
      simp [h, this, hw]

theorem schedule_some {s s' : State} {id : Nat} {c : Cron} {off : Int} {last : Nat}
    (h : schedule s id c off last = some s') :
    ∃ nt, c last = some nt ∧
      s' = { armFor s { id := id, next := nt, offset := off, cron := c } with
             queue := insertItem { id := id, next := nt, offset := off, cron := c } (removeId id s.queue),
             log := .scheduled id c off last :: s.log } := by
  unfold schedule at h
  cases hc : c last with
  | none => simp [hc] at h
  | some nt =>
    simp only [hc, Option.some.injEq] at h
    exact ⟨nt, rfl, h.symm⟩

theorem invT_schedule {s s' : State} {id : Nat} {c : Cron} {off : Int} {last : Nat}
    (hI : InvT s) (h : schedule s id c off last = some s') : InvT s' := by
  obtain ⟨nt, hc, rfl⟩ := schedule_some h
  generalize hit : ({ id := id, next := nt, offset := off, cron := c } : Item) = it
  obtain ⟨hnow, _, htick, hmode, _, _⟩ := armFor_fields s it
  refine ⟨sorted_insert (sorted_removeId hI.sorted), ?_, ?_, ?_⟩
  · intro w hw x hx
    simp only [] at hw hx
    rcases armFor_cases s it with ⟨hpre, hw', _⟩ | ⟨⟨w0, hw0, hle⟩, hw', _⟩
    · rw [hw'] at hw; simp at hw; subst hw
      rcases mem_insertItem.mp hx with rfl | hx
      · omega
      · rcases hpre with hnone | ⟨w0, hw0, hgt⟩
        · have hq : s.queue = [] := by
            cases hqq : s.queue with
            | nil => rfl
            | cons a b =>
              have := hI.k4 (by simp [hqq])
              simp [hnone] at this
          simp [hq, removeId] at hx
        · have := hI.k2 w0 hw0 x (mem_removeId hx); omega
    · rw [hw', hw0] at hw; simp at hw; subst hw
      rcases mem_insertItem.mp hx with rfl | hx
      · omega
      · exact hI.k2 w0 hw0 x (mem_removeId hx)
  · intro _
    simp only []
    rcases armFor_cases s it with ⟨_, hw', _⟩ | ⟨⟨w0, hw0, _⟩, hw', _⟩
    · simp [hw']
    · simp [hw', hw0]
  · intro hm ht w hw
    simp only [] at hm ht hw ⊢
    rcases armFor_cases s it with ⟨_, hw', htm⟩ | ⟨⟨w0, hw0, _⟩, hw', htm⟩
    · rw [hw'] at hw; simp at hw; subst hw
      refine ⟨_, htm, ?_⟩
      rw [hnow]
      split <;> omega
    · rw [hw'] at hw
      rw [hmode] at hm; rw [htick] at ht
      obtain ⟨d, hd, hle⟩ := hI.k3 hm ht w hw
      exact ⟨d, by rw [htm, hd], by rw [hnow]; exact hle⟩

theorem invT_release {s : State} (hI : InvT s) (id : Nat) : InvT (release s id) := by
  refine ⟨sorted_removeId hI.sorted, ?_, ?_, ?_⟩
  · intro w hw it hit
    exact hI.k2 w hw it (mem_removeId hit)
  · intro hne
    apply hI.k4
    intro hq
    apply hne
    simp [release, hq, removeId]
  · intro hm ht w hw
    exact hI.k3 hm ht w hw

theorem invT_afterProcess {s : State} (hs : Sorted s.queue) (hm : s.mode = .looping) :
    InvT (afterProcess s) := by
  unfold afterProcess
  split
  · next hq => exact ⟨by simp [hq, Sorted], by simp, by simp [hq], by simp⟩
  · next m q2 hq =>
    have hsq : Sorted (m :: q2) := hq ▸ hs
    split
    · refine ⟨hs, ?_, by simp, ?_⟩
      · intro w hw x hx
        simp at hw; subst hw
        exact sorted_head_le hsq x (hq ▸ hx)
      · intro _ _ w hw
        simp at hw; subst hw
        exact ⟨_, rfl, Or.inl (Int.le_refl _)⟩
    · refine ⟨hs, ?_, by simp, ?_⟩
      · intro w hw x hx
        simp at hw; subst hw
        exact sorted_head_le hsq x (hq ▸ hx)
      · intro hmode
        simp [hm] at hmode

theorem sorted_processStep {s : State} (cfg : Cfg) (hs : Sorted s.queue) : Sorted (processStep cfg s).queue := by
  unfold processStep
  exact sorted_reinsert (List.Pairwise.sublist (dispatch_kept_sublist cfg s.now s.queue s.busy) hs)

theorem invT_iter {s : State} (cfg : Cfg) (hI : InvT s) : InvT (iter true cfg s) := by
  unfold iter
  split
  · exact hI
  · next hm =>
    have hm' : s.mode = .looping := by simpa using hm
    split
    · next hq => exact ⟨by simp [hq, Sorted], by simp, by simp [hq], by simp⟩
    · next it rest hq =>
      split
      · unfold notDue
        simp only [if_true]
        refine ⟨hI.sorted, ?_, by simp, ?_⟩
        · intro w hw x hx
          simp at hw; subst hw
          exact sorted_head_le (hq ▸ hI.sorted) x (hq ▸ hx)
        · intro _ _ w hw
          simp at hw; subst hw
          exact ⟨_, rfl, Or.inl (Int.le_refl _)⟩
      · exact invT_afterProcess (sorted_processStep cfg hI.sorted) (by simp [processStep, hm'])

theorem invT_step (cfg : Cfg) {s : State} (hI : InvT s) (e : Ev) : InvT (stepEv true cfg s e) := by
  cases e with
  | schedule id c off last =>
    simp only [stepEv]
    cases h : schedule s id c off last with
    | none => simpa using hI
    | some s' => simpa using invT_schedule hI h
  | release id => exact invT_release hI id
  | advance d =>
    refine ⟨hI.sorted, hI.k2, hI.k4, ?_⟩
    intro hm ht w hw
    obtain ⟨d', hd, hle⟩ := hI.k3 hm ht w hw
    refine ⟨d', hd, ?_⟩
    simp only [stepEv]
    rcases hle with h | h
    · exact Or.inl h
    · exact Or.inr (by omega)
  | timerFire =>
    simp only [stepEv]
    by_cases h : timerExpired s = true
    · simp only [h, if_true]
      exact ⟨hI.sorted, hI.k2, hI.k4, by intro _ ht; simp at ht⟩
    · simp only [h]; exact hI
  | wake =>
    simp only [stepEv]
    by_cases h : s.mode = .idle ∧ s.tick = true
    · simp only [h, and_self, if_true]
      exact ⟨hI.sorted, hI.k2, hI.k4, by intro hm; simp at hm⟩
    · simp only [h, if_false]; exact hI
  | iter => exact invT_iter cfg hI
  | done w =>
    simp only [stepEv]
    cases s.busy.find? (fun b => b.1 == w) with
    | none => exact hI
    | some b => exact ⟨hI.sorted, hI.k2, hI.k4, hI.k3⟩

theorem invT_run (cfg : Cfg) (evs : List Ev) {s : State} (hI : InvT s) : InvT (runEvs true cfg s evs) := by
  induction evs generalizing s with
  | nil => exact hI
  | cons e rest ih => exact ih (invT_step cfg hI e)

end Influx.Lemmas.Sched
