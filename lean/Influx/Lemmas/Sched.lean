/-
  Lemmas.Sched — invariants of the TreeScheduler model (Model/Sched.lean) used by Props.C24.
-/
import Influx.Model.Sched
set_option linter.unusedSimpArgs false
set_option linter.unusedVariables false
namespace Influx.Lemmas.Sched
open Influx.Model.Sched

/-! ### the order on items -/

def Item.le (a b : Item) : Prop := ¬ (b.lt a = true)

theorem lt_iff (a b : Item) : a.lt b = true ↔ a.when < b.when ∨ (a.when = b.when ∧ a.id < b.id) := by
  simp [Item.lt]

theorem le_iff (a b : Item) : Item.le a b ↔ a.when < b.when ∨ (a.when = b.when ∧ a.id ≤ b.id) := by
  unfold Item.le
  rw [lt_iff]
  constructor
  · intro h
    by_cases h1 : a.when < b.when
    · exact Or.inl h1
    · have h2 : ¬ b.when < a.when := fun hh => h (Or.inl hh)
      have h3 : a.when = b.when := by omega
      refine Or.inr ⟨h3, ?_⟩
      have : ¬ b.id < a.id := fun hh => h (Or.inr ⟨h3.symm, hh⟩)
      omega
  · rintro (h | ⟨h1, h2⟩) <;> intro hh <;> rcases hh with hh | ⟨hh1, hh2⟩ <;> omega

theorem le_when {a b : Item} (h : Item.le a b) : a.when ≤ b.when := by
  rw [le_iff] at h; omega

theorem le_of_lt {a b : Item} (h : a.lt b = true) : Item.le a b := by
  rw [lt_iff] at h; rw [le_iff]; omega

theorem le_of_not_lt {a b : Item} (h : ¬ a.lt b = true) : Item.le b a := h

theorem le_trans {a b c : Item} (h1 : Item.le a b) (h2 : Item.le b c) : Item.le a c := by
  rw [le_iff] at *; omega

def Sorted (q : List Item) : Prop := q.Pairwise Item.le

theorem mem_insertItem {it y : Item} {q : List Item} : y ∈ insertItem it q ↔ y = it ∨ y ∈ q := by
  induction q with
  | nil => simp [insertItem]
  | cons x xs ih =>
    unfold insertItem
    by_cases h : it.lt x = true
    · simp [h]
    · simp [h, ih]; constructor <;> (intro hh; rcases hh with hh | hh | hh <;> simp [hh])

theorem sorted_insert {it : Item} {q : List Item} (hs : Sorted q) : Sorted (insertItem it q) := by
  induction q with
  | nil => simp [insertItem, Sorted]
  | cons x xs ih =>
    unfold Sorted at hs
    rw [List.pairwise_cons] at hs
    obtain ⟨hx, hxs⟩ := hs
    unfold insertItem
    cases h : it.lt x with
    | true =>
      simp only [if_true]
      unfold Sorted
      rw [List.pairwise_cons]
      refine ⟨?_, List.pairwise_cons.mpr ⟨hx, hxs⟩⟩
      intro y hy
      rcases List.mem_cons.mp hy with rfl | hy
      · exact le_of_lt h
      · exact le_trans (le_of_lt h) (hx y hy)
    | false =>
      simp only [Bool.false_eq_true, if_false]
      unfold Sorted
      rw [List.pairwise_cons]
      refine ⟨?_, ih hxs⟩
      intro y hy
      rcases mem_insertItem.mp hy with rfl | hy
      · exact le_of_not_lt (by simp [h])
      · exact hx y hy

theorem sorted_removeId {id : Nat} {q : List Item} (hs : Sorted q) : Sorted (removeId id q) := by
  unfold Sorted removeId at *
  exact hs.sublist List.filter_sublist

theorem sorted_head_le {m : Item} {q : List Item} (hs : Sorted (m :: q)) : ∀ x ∈ m :: q, m.when ≤ x.when := by
  unfold Sorted at hs
  rw [List.pairwise_cons] at hs
  intro x hx
  rcases List.mem_cons.mp hx with rfl | hx
  · omega
  · exact le_when (hs.1 x hx)

theorem mem_reinsert {ins kept : List Item} {y : Item} : y ∈ reinsert ins kept ↔ y ∈ ins ∨ y ∈ kept := by
  unfold reinsert
  induction ins generalizing kept with
  | nil => simp
  | cons x xs ih =>
    simp only [List.foldl_cons]
    rw [ih, mem_insertItem]
    simp only [List.mem_cons]
    grind

theorem sorted_reinsert {ins kept : List Item} (hs : Sorted kept) : Sorted (reinsert ins kept) := by
  unfold reinsert
  induction ins generalizing kept with
  | nil => simpa
  | cons x xs ih =>
    simp only [List.foldl_cons]
    exact ih (sorted_insert hs)

/-! ### dispatch -/

theorem dispatch_kept_sublist (cfg : Cfg) (now : Int) (q : List Item) (busy : List (Nat × Run)) :
    (dispatch cfg now q busy).kept.Sublist q := by
  induction q generalizing busy with
  | nil => simp [dispatch]
  | cons it rest ih =>
    unfold dispatch
    by_cases h1 : it.when > now
    · simp [h1]
    · by_cases h2 : workerBusy busy (cfg.wk it.id) = true
      · simp only [h1, h2, if_true, if_false]
        exact (ih busy).cons_cons it
      · simp only [h1, h2, if_false]
        cases hc : it.cron it.next <;> simp only [] <;> exact (ih _).cons it


/-! ### the timer / `when` invariant of the repaired scheduler -/

structure InvT (s : State) : Prop where
  sorted : Sorted s.queue
  /-- `when` never lies after a pending due time -/
  k2 : ∀ w, s.when_ = some w → ∀ it ∈ s.queue, w ≤ it.when
  /-- something pending ⇒ `when` is set -/
  k4 : s.queue ≠ [] → s.when_.isSome = true
  /-- loop asleep with no tick pending ⇒ the timer is armed and fires no later than `when` (or is already due) -/
  k3 : s.mode = .idle → s.tick = false → ∀ w, s.when_ = some w →
        ∃ d, s.timer = some d ∧ (d ≤ w ∨ d ≤ s.now)

theorem invT_init : InvT init :=
  ⟨by simp [init, Sorted], by simp [init], by simp [init], by simp [init]⟩

theorem mem_removeId {id : Nat} {q : List Item} {x : Item} (h : x ∈ removeId id q) : x ∈ q := by
  unfold removeId at h; exact (List.mem_filter.mp h).1

theorem armFor_fields (s : State) (it : Item) :
    (armFor s it).now = s.now ∧ (armFor s it).queue = s.queue ∧ (armFor s it).tick = s.tick ∧
    (armFor s it).mode = s.mode ∧ (armFor s it).busy = s.busy ∧ (armFor s it).log = s.log := by
  unfold armFor
  cases s.when_ with
  | none => simp
  | some w => by_cases h : w > it.when <;> simp [h]

/-- what `armFor` does to `when` and the timer -/
theorem armFor_cases (s : State) (it : Item) :
    ((s.when_ = none ∨ ∃ w, s.when_ = some w ∧ w > it.when) ∧
        (armFor s it).when_ = some it.when ∧
        (armFor s it).timer = some (if it.when ≤ s.now then s.now else it.when)) ∨
    ((∃ w, s.when_ = some w ∧ w ≤ it.when) ∧ (armFor s it).when_ = s.when_ ∧ (armFor s it).timer = s.timer) := by
  unfold armFor
  cases hw : s.when_ with
  | none => simp
  | some w =>
    by_cases h : w > it.when
    · simp [h]
    · have : w ≤ it.when := by omega
      simp [h, this, hw]

theorem schedule_some {s s' : State} {id : Nat} {c : Cron} {off : Int} {last : Nat}
    (h : schedule s id c off last = some s') :
    ∃ nt, c last = some nt ∧
      s' = { armFor s { id := id, next := nt, offset := off, cron := c } with
             queue := insertItem { id := id, next := nt, offset := off, cron := c } (removeId id s.queue),
             log := .scheduled id c off last :: s.log } := by
  unfold schedule at h
  cases hc : c last with
  | none => simp [hc] at h
  | some nt =>
    simp only [hc, Option.some.injEq] at h
    exact ⟨nt, rfl, h.symm⟩

theorem invT_schedule {s s' : State} {id : Nat} {c : Cron} {off : Int} {last : Nat}
    (hI : InvT s) (h : schedule s id c off last = some s') : InvT s' := by
  obtain ⟨nt, hc, rfl⟩ := schedule_some h
  generalize hit : ({ id := id, next := nt, offset := off, cron := c } : Item) = it
  obtain ⟨hnow, _, htick, hmode, _, _⟩ := armFor_fields s it
  refine ⟨sorted_insert (sorted_removeId hI.sorted), ?_, ?_, ?_⟩
  · intro w hw x hx
    simp only [] at hw hx
    rcases armFor_cases s it with ⟨hpre, hw', _⟩ | ⟨⟨w0, hw0, hle⟩, hw', _⟩
    · rw [hw'] at hw; simp at hw; subst hw
      rcases mem_insertItem.mp hx with rfl | hx
      · omega
      · rcases hpre with hnone | ⟨w0, hw0, hgt⟩
        · have hq : s.queue = [] := by
            cases hqq : s.queue with
            | nil => rfl
            | cons a b =>
              have := hI.k4 (by simp [hqq])
              simp [hnone] at this
          simp [hq, removeId] at hx
        · have := hI.k2 w0 hw0 x (mem_removeId hx); omega
    · rw [hw', hw0] at hw; simp at hw; subst hw
      rcases mem_insertItem.mp hx with rfl | hx
      · omega
      · exact hI.k2 w0 hw0 x (mem_removeId hx)
  · intro _
    simp only []
    rcases armFor_cases s it with ⟨_, hw', _⟩ | ⟨⟨w0, hw0, _⟩, hw', _⟩
    · simp [hw']
    · simp [hw', hw0]
  · intro hm ht w hw
    simp only [] at hm ht hw ⊢
    rcases armFor_cases s it with ⟨_, hw', htm⟩ | ⟨⟨w0, hw0, _⟩, hw', htm⟩
    · rw [hw'] at hw; simp at hw; subst hw
      refine ⟨_, htm, ?_⟩
      rw [hnow]
      split <;> omega
    · rw [hw'] at hw
      rw [hmode] at hm; rw [htick] at ht
      obtain ⟨d, hd, hle⟩ := hI.k3 hm ht w hw
      exact ⟨d, by rw [htm, hd], by rw [hnow]; exact hle⟩

theorem invT_release {s : State} (hI : InvT s) (id : Nat) : InvT (release s id) := by
  refine ⟨sorted_removeId hI.sorted, ?_, ?_, ?_⟩
  · intro w hw it hit
    exact hI.k2 w hw it (mem_removeId hit)
  · intro hne
    apply hI.k4
    intro hq
    apply hne
    simp [release, hq, removeId]
  · intro hm ht w hw
    exact hI.k3 hm ht w hw

theorem invT_afterProcess {s : State} (hs : Sorted s.queue) (hm : s.mode = .looping) :
    InvT (afterProcess s) := by
  unfold afterProcess
  split
  · next hq => exact ⟨by simp [hq, Sorted], by simp, by simp [hq], by simp⟩
  · next m q2 hq =>
    have hsq : Sorted (m :: q2) := hq ▸ hs
    split
    · refine ⟨hs, ?_, by simp, ?_⟩
      · intro w hw x hx
        simp at hw; subst hw
        exact sorted_head_le hsq x (hq ▸ hx)
      · intro _ _ w hw
        simp at hw; subst hw
        exact ⟨_, rfl, Or.inl (Int.le_refl _)⟩
    · refine ⟨hs, ?_, by simp, ?_⟩
      · intro w hw x hx
        simp at hw; subst hw
        exact sorted_head_le hsq x (hq ▸ hx)
      · intro hmode
        simp [hm] at hmode

theorem sorted_processStep {s : State} (cfg : Cfg) (hs : Sorted s.queue) : Sorted (processStep cfg s).queue := by
  unfold processStep
  exact sorted_reinsert (List.Pairwise.sublist (dispatch_kept_sublist cfg s.now s.queue s.busy) hs)

theorem invT_iter {s : State} (cfg : Cfg) (hI : InvT s) : InvT (iter true cfg s) := by
  unfold iter
  split
  · exact hI
  · next hm =>
    have hm' : s.mode = .looping := by simpa using hm
    split
    · next hq => exact ⟨by simp [hq, Sorted], by simp, by simp [hq], by simp⟩
    · next it rest hq =>
      split
      · unfold notDue
        simp only [if_true]
        refine ⟨hI.sorted, ?_, by simp, ?_⟩
        · intro w hw x hx
          simp at hw; subst hw
          exact sorted_head_le (hq ▸ hI.sorted) x (hq ▸ hx)
        · intro _ _ w hw
          simp at hw; subst hw
          exact ⟨_, rfl, Or.inl (Int.le_refl _)⟩
      · exact invT_afterProcess (sorted_processStep cfg hI.sorted) (by simp [processStep, hm'])

theorem invT_step (cfg : Cfg) {s : State} (hI : InvT s) (e : Ev) : InvT (stepEv true cfg s e) := by
  cases e with
  | schedule id c off last =>
    simp only [stepEv]
    cases h : schedule s id c off last with
    | none => simpa using hI
    | some s' => simpa using invT_schedule hI h
  | release id => exact invT_release hI id
  | advance d =>
    refine ⟨hI.sorted, hI.k2, hI.k4, ?_⟩
    intro hm ht w hw
    obtain ⟨d', hd, hle⟩ := hI.k3 hm ht w hw
    refine ⟨d', hd, ?_⟩
    simp only [stepEv]
    rcases hle with h | h
    · exact Or.inl h
    · exact Or.inr (by omega)
  | timerFire =>
    simp only [stepEv]
    by_cases h : timerExpired s = true
    · simp only [h, if_true]
      exact ⟨hI.sorted, hI.k2, hI.k4, by intro _ ht; simp at ht⟩
    · simp only [h]; exact hI
  | wake =>
    simp only [stepEv]
    by_cases h : s.mode = .idle ∧ s.tick = true
    · simp only [h, and_self, if_true]
      exact ⟨hI.sorted, hI.k2, hI.k4, by intro hm; simp at hm⟩
    · simp only [h, if_false]; exact hI
  | iter => exact invT_iter cfg hI
  | done w =>
    simp only [stepEv]
    cases s.busy.find? (fun b => b.1 == w) with
    | none => exact hI
    | some b => exact ⟨hI.sorted, hI.k2, hI.k4, hI.k3⟩

theorem invT_run (cfg : Cfg) (evs : List Ev) {s : State} (hI : InvT s) : InvT (runEvs true cfg s evs) := by
  induction evs generalizing s with
  | nil => exact hI
  | cons e rest ih => exact ih (invT_step cfg hI e)

/-! ### workers -/

structure InvB (cfg : Cfg) (s : State) : Prop where
  /-- a run executes on the worker its id hashes to -/
  wk : ∀ b ∈ s.busy, b.1 = cfg.wk b.2.id
  /-- a worker executes one run at a time -/
  uniq : (s.busy.map (·.1)).Nodup

theorem workerBusy_iff (busy : List (Nat × Run)) (w : Nat) :
    workerBusy busy w = true ↔ w ∈ busy.map (·.1) := by
  unfold workerBusy
  simp

theorem dispatch_busy (cfg : Cfg) (now : Int) (q : List Item) (busy : List (Nat × Run))
    (hw : ∀ b ∈ busy, b.1 = cfg.wk b.2.id) (hu : (busy.map (·.1)).Nodup) :
    (∀ b ∈ (dispatch cfg now q busy).busy, b.1 = cfg.wk b.2.id) ∧
      ((dispatch cfg now q busy).busy.map (·.1)).Nodup := by
  induction q generalizing busy with
  | nil => unfold dispatch; exact ⟨hw, hu⟩
  | cons it rest ih =>
    unfold dispatch
    split
    · exact ⟨hw, hu⟩
    · split
      · exact ih busy hw hu
      · next hnb =>
        have hnb' : cfg.wk it.id ∉ busy.map (·.1) := by
          rw [← workerBusy_iff]; simpa using hnb
        have hw' : ∀ b ∈ (cfg.wk it.id, ({ id := it.id, sf := it.next, runAt := it.when } : Run)) :: busy,
            b.1 = cfg.wk b.2.id := by
          intro b hb
          rcases List.mem_cons.mp hb with rfl | hb
          · rfl
          · exact hw b hb
        have hu' : (((cfg.wk it.id, ({ id := it.id, sf := it.next, runAt := it.when } : Run)) :: busy).map (·.1)).Nodup := by
          simp only [List.map_cons, List.nodup_cons]
          exact ⟨hnb', hu⟩
        have := ih _ hw' hu'
        split <;> exact this

theorem invB_init (cfg : Cfg) : InvB cfg init := ⟨by simp [init], by simp [init]⟩

theorem invB_afterProcess {cfg : Cfg} {s : State} (h : InvB cfg s) : InvB cfg (afterProcess s) := by
  unfold afterProcess
  split
  · exact ⟨h.wk, h.uniq⟩
  · split <;> exact ⟨h.wk, h.uniq⟩

theorem invB_step (r : Bool) (cfg : Cfg) {s : State} (hI : InvB cfg s) (e : Ev) : InvB cfg (stepEv r cfg s e) := by
  cases e with
  | schedule id c off last =>
    simp only [stepEv]
    cases h : schedule s id c off last with
    | none => simpa using hI
    | some s' =>
      simp only [Option.getD_some]
      obtain ⟨nt, _, rfl⟩ := schedule_some h
      have hb := (armFor_fields s { id := id, next := nt, offset := off, cron := c }).2.2.2.2.1
      exact ⟨by simp only [hb]; exact hI.wk, by simp only [hb]; exact hI.uniq⟩
  | release id => exact ⟨hI.wk, hI.uniq⟩
  | advance d => exact ⟨hI.wk, hI.uniq⟩
  | timerFire =>
    simp only [stepEv]
    split
    · exact ⟨hI.wk, hI.uniq⟩
    · exact hI
  | wake =>
    simp only [stepEv]
    split
    · exact ⟨hI.wk, hI.uniq⟩
    · exact hI
  | iter =>
    simp only [stepEv]
    unfold iter
    split
    · exact hI
    · split
      · exact ⟨hI.wk, hI.uniq⟩
      · split
        · unfold notDue; split <;> exact ⟨hI.wk, hI.uniq⟩
        · apply invB_afterProcess
          have := dispatch_busy cfg s.now s.queue s.busy hI.wk hI.uniq
          exact ⟨this.1, this.2⟩
  | done w =>
    simp only [stepEv]
    split
    · exact hI
    · refine ⟨?_, ?_⟩
      · intro b hb
        exact hI.wk b (List.mem_filter.mp hb).1
      · exact List.Nodup.sublist (List.Sublist.map _ List.filter_sublist) hI.uniq

theorem invB_run (r : Bool) (cfg : Cfg) (evs : List Ev) {s : State} (hI : InvB cfg s) :
    InvB cfg (runEvs r cfg s evs) := by
  induction evs generalizing s with
  | nil => exact hI
  | cons e rest ih => exact ih (invB_step r cfg hI e)

/-- no two executions of one id at the same time -/
theorem busy_ids_nodup {cfg : Cfg} {s : State} (h : InvB cfg s) : (s.busy.map (·.2.id)).Nodup := by
  have hu := h.uniq
  have hw := h.wk
  generalize s.busy = l at hu hw
  induction l with
  | nil => simp
  | cons b bs ih =>
    simp only [List.map_cons, List.nodup_cons] at hu ⊢
    refine ⟨?_, ih hu.2 (fun x hx => hw x (by simp [hx]))⟩
    intro hmem
    obtain ⟨x, hx, hid⟩ := List.mem_map.mp hmem
    apply hu.1
    have h1 := hw b (by simp)
    have h2 := hw x (by simp [hx])
    exact List.mem_map.mpr ⟨x, hx, by rw [h2, h1, hid]⟩


/-! ### ids in the queue are unique (`nextTime` is a map) -/

def ids (q : List Item) : List Nat := q.map (·.id)

def runIds (rs : List (Nat × Run)) : List Nat := rs.map (·.2.id)

theorem ids_insertItem_perm (it : Item) (q : List Item) : (ids (insertItem it q)).Perm (it.id :: ids q) := by
  induction q with
  | nil => simp [insertItem, ids]
  | cons x xs ih =>
    unfold insertItem
    cases h : it.lt x with
    | true => simp [ids]
    | false =>
      simp only [Bool.false_eq_true, if_false]
      have : ids (x :: insertItem it xs) = x.id :: ids (insertItem it xs) := rfl
      rw [this]
      have h2 : ids (x :: xs) = x.id :: ids xs := rfl
      rw [h2]
      exact ((List.Perm.cons x.id ih).trans (List.Perm.swap it.id x.id (ids xs)))

theorem ids_reinsert_perm (ins kept : List Item) : (ids (reinsert ins kept)).Perm (ids ins ++ ids kept) := by
  unfold reinsert
  induction ins generalizing kept with
  | nil => simp [ids]
  | cons x xs ih =>
    simp only [List.foldl_cons]
    refine (ih (insertItem x kept)).trans ?_
    have h1 : ids (x :: xs) = x.id :: ids xs := rfl
    rw [h1]
    have := ids_insertItem_perm x kept
    refine (List.Perm.append_left (ids xs) this).trans ?_
    simp only [List.cons_append]
    exact (List.perm_middle)

theorem ids_removeId (id : Nat) (q : List Item) : id ∉ ids (removeId id q) := by
  unfold ids removeId
  simp

theorem ids_removeId_sublist (id : Nat) (q : List Item) : (ids (removeId id q)).Sublist (ids q) := by
  unfold ids removeId
  exact List.Sublist.map _ List.filter_sublist

/-- the ids touched by a dispatch pass: kept, and dispatched (each at most once, all from the queue) -/
theorem dispatch_ids (cfg : Cfg) (now : Int) (q : List Item) (busy : List (Nat × Run))
    (hn : (ids q).Nodup) :
    (∀ i ∈ ids (dispatch cfg now q busy).kept ++ runIds (dispatch cfg now q busy).runs, i ∈ ids q) ∧
      (ids (dispatch cfg now q busy).kept ++ runIds (dispatch cfg now q busy).runs).Nodup := by
  induction q generalizing busy with
  | nil => simp [dispatch, ids, runIds]
  | cons it rest ih =>
    have hn' : (ids rest).Nodup := (List.nodup_cons.mp hn).2
    have hni : it.id ∉ ids rest := (List.nodup_cons.mp hn).1
    unfold dispatch
    split
    · simp only [runIds, List.map_nil, List.append_nil]
      exact ⟨fun i hi => hi, hn⟩
    · split
      · have ⟨h1, h2⟩ := ih busy hn'
        refine ⟨?_, ?_⟩
        · intro i hi
          simp only [ids, List.map_cons, List.cons_append, List.mem_cons] at hi ⊢
          rcases hi with rfl | hi
          · exact Or.inl rfl
          · exact Or.inr (h1 i hi)
        · simp only [ids, List.map_cons, List.cons_append, List.nodup_cons]
          exact ⟨fun hmem => hni (h1 _ hmem), h2⟩
      · have ⟨h1, h2⟩ := ih ((cfg.wk it.id, { id := it.id, sf := it.next, runAt := it.when }) :: busy) hn'
        have key : (∀ i ∈ ids (dispatch cfg now rest ((cfg.wk it.id, { id := it.id, sf := it.next, runAt := it.when }) :: busy)).kept ++
              (it.id :: runIds (dispatch cfg now rest ((cfg.wk it.id, { id := it.id, sf := it.next, runAt := it.when }) :: busy)).runs),
              i ∈ ids (it :: rest)) ∧
            (ids (dispatch cfg now rest ((cfg.wk it.id, { id := it.id, sf := it.next, runAt := it.when }) :: busy)).kept ++
              (it.id :: runIds (dispatch cfg now rest ((cfg.wk it.id, { id := it.id, sf := it.next, runAt := it.when }) :: busy)).runs)).Nodup := by
          refine ⟨?_, ?_⟩
          · intro i hi
            simp only [List.mem_append, List.mem_cons] at hi
            simp only [ids, List.map_cons, List.mem_cons]
            rcases hi with hi | rfl | hi
            · exact Or.inr (h1 i (List.mem_append_left _ hi))
            · exact Or.inl rfl
            · exact Or.inr (h1 i (List.mem_append_right _ hi))
          · rw [List.perm_middle.nodup_iff, List.nodup_cons]
            exact ⟨fun hmem => hni (h1 _ hmem), h2⟩
        split <;> simpa [runIds] using key

structure InvU (s : State) : Prop where
  uniq : (ids s.queue).Nodup


theorem dispatch_ins_sublist (cfg : Cfg) (now : Int) (q : List Item) (busy : List (Nat × Run)) :
    (ids (dispatch cfg now q busy).ins).Sublist (runIds (dispatch cfg now q busy).runs) := by
  induction q generalizing busy with
  | nil => simp [dispatch, ids, runIds]
  | cons it rest ih =>
    unfold dispatch
    split
    · simp [ids, runIds]
    · split
      · exact ih busy
      · split
        · exact List.Sublist.cons _ (ih _)
        · exact List.Sublist.cons_cons _ (ih _)

/-- every dispatched run is the head run of a due queue item -/
theorem dispatch_runs (cfg : Cfg) (now : Int) (q : List Item) (busy : List (Nat × Run)) :
    ∀ wr ∈ (dispatch cfg now q busy).runs,
      ∃ y ∈ q, wr = (cfg.wk y.id, ({ id := y.id, sf := y.next, runAt := y.when } : Run)) ∧ y.when ≤ now := by
  induction q generalizing busy with
  | nil => simp [dispatch]
  | cons it rest ih =>
    unfold dispatch
    split
    · simp
    · next hdue =>
      have hdue' : it.when ≤ now := by omega
      split
      · intro wr hwr
        obtain ⟨y, hy, h⟩ := ih busy wr hwr
        exact ⟨y, List.mem_cons_of_mem _ hy, h⟩
      · have key : ∀ wr ∈ (cfg.wk it.id, ({ id := it.id, sf := it.next, runAt := it.when } : Run)) ::
              (dispatch cfg now rest ((cfg.wk it.id, { id := it.id, sf := it.next, runAt := it.when }) :: busy)).runs,
            ∃ y ∈ it :: rest, wr = (cfg.wk y.id, ({ id := y.id, sf := y.next, runAt := y.when } : Run)) ∧ y.when ≤ now := by
          intro wr hwr
          rcases List.mem_cons.mp hwr with rfl | hwr
          · exact ⟨it, by simp, rfl, hdue'⟩
          · obtain ⟨y, hy, h⟩ := ih _ wr hwr
            exact ⟨y, List.mem_cons_of_mem _ hy, h⟩
        split <;> simpa using key

/-- every re-inserted item is a dispatched item with `updateNext` applied -/
theorem dispatch_ins (cfg : Cfg) (now : Int) (q : List Item) (busy : List (Nat × Run)) :
    ∀ x ∈ (dispatch cfg now q busy).ins,
      ∃ y ∈ q, ∃ n, y.cron y.next = some n ∧ x = { y with next := n } ∧
        (cfg.wk y.id, ({ id := y.id, sf := y.next, runAt := y.when } : Run)) ∈ (dispatch cfg now q busy).runs := by
  induction q generalizing busy with
  | nil => simp [dispatch]
  | cons it rest ih =>
    unfold dispatch
    split
    · simp
    · split
      · intro x hx
        obtain ⟨y, hy, n, h1, h2, h3⟩ := ih busy x hx
        exact ⟨y, List.mem_cons_of_mem _ hy, n, h1, h2, h3⟩
      · split
        · intro x hx
          obtain ⟨y, hy, n, h1, h2, h3⟩ := ih _ x hx
          exact ⟨y, List.mem_cons_of_mem _ hy, n, h1, h2, List.mem_cons_of_mem _ h3⟩
        · next n hn =>
          intro x hx
          rcases List.mem_cons.mp hx with rfl | hx
          · exact ⟨it, by simp, n, hn, rfl, by simp⟩
          · obtain ⟨y, hy, n', h1, h2, h3⟩ := ih _ x hx
            exact ⟨y, List.mem_cons_of_mem _ hy, n', h1, h2, List.mem_cons_of_mem _ h3⟩

theorem processStep_ids_nodup {s : State} (cfg : Cfg) (hn : (ids s.queue).Nodup) :
    (ids (processStep cfg s).queue).Nodup := by
  unfold processStep
  simp only []
  rw [(ids_reinsert_perm _ _).nodup_iff, List.perm_append_comm.nodup_iff]
  have h := (dispatch_ids cfg s.now s.queue s.busy hn).2
  exact List.Nodup.sublist (List.Sublist.append_left (dispatch_ins_sublist cfg s.now s.queue s.busy) _) h

theorem afterProcess_queue (s : State) : (afterProcess s).queue = s.queue := by
  unfold afterProcess; split
  · rfl
  · split <;> rfl

theorem afterProcess_log (s : State) : (afterProcess s).log = s.log := by
  unfold afterProcess; split
  · rfl
  · split <;> rfl

theorem notDue_queue (r : Bool) (s : State) (it : Item) : (notDue r s it).queue = s.queue ∧ (notDue r s it).log = s.log := by
  unfold notDue; split <;> simp

theorem invU_init : InvU init := ⟨by simp [init, ids]⟩

theorem invU_step (r : Bool) (cfg : Cfg) {s : State} (hI : InvU s) (e : Ev) : InvU (stepEv r cfg s e) := by
  cases e with
  | schedule id c off last =>
    simp only [stepEv]
    cases h : schedule s id c off last with
    | none => simpa using hI
    | some s' =>
      simp only [Option.getD_some]
      obtain ⟨nt, _, rfl⟩ := schedule_some h
      refine ⟨?_⟩
      simp only []
      rw [(ids_insertItem_perm _ _).nodup_iff, List.nodup_cons]
      exact ⟨ids_removeId id s.queue, List.Nodup.sublist (ids_removeId_sublist id s.queue) hI.uniq⟩
  | release id => exact ⟨List.Nodup.sublist (ids_removeId_sublist id s.queue) hI.uniq⟩
  | advance d => exact ⟨hI.uniq⟩
  | timerFire => simp only [stepEv]; split <;> exact ⟨hI.uniq⟩
  | wake => simp only [stepEv]; split <;> exact ⟨hI.uniq⟩
  | iter =>
    simp only [stepEv]
    unfold iter
    split
    · exact hI
    · split
      · exact ⟨hI.uniq⟩
      · split
        · exact ⟨by rw [(notDue_queue r s _).1]; exact hI.uniq⟩
        · exact ⟨by rw [afterProcess_queue]; exact processStep_ids_nodup cfg hI.uniq⟩
  | done w => simp only [stepEv]; split <;> exact ⟨hI.uniq⟩

theorem invU_run (r : Bool) (cfg : Cfg) (evs : List Ev) {s : State} (hI : InvU s) : InvU (runEvs r cfg s evs) := by
  induction evs generalizing s with
  | nil => exact hI
  | cons e rest ih => exact ih (invU_step r cfg hI e)


end Influx.Lemmas.Sched
