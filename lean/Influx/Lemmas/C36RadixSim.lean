/-
  Lemmas.C36RadixSim — simulation between the radix part of the model (`stepT`) and of the
  statement (`checkT`, an association list read in key order).
-/
import Influx.Lemmas.C36RadixMinMax
import Influx.Lemmas.C36RHHSim

namespace Influx.Radix
open Influx.RHH (keyLt keyLt_irrefl keyLt_trans keyLt_asymm keyLt_total)
open Influx.Spec.C36

/-- the strictly ascending list of a set of pairs with distinct keys is unique -/
theorem sortedKV_ext : ∀ (a b : List KV), SortedKV a → SortedKV b → (∀ x, x ∈ a ↔ x ∈ b) → a = b
  | [], [], _, _, _ => rfl
  | [], y :: ys, _, _, h => by have := (h y).mpr (by simp); simp at this
  | x :: xs, [], _, _, h => by have := (h x).mp (by simp); simp at this
  | x :: xs, y :: ys, ha, hb, h => by
    have hxa := List.pairwise_cons.mp ha
    have hyb := List.pairwise_cons.mp hb
    have hxy : x = y := by
      have h1 := (h x).mp (by simp)
      have h2 := (h y).mpr (by simp)
      rcases List.mem_cons.mp h1 with h1 | h1
      · exact h1
      · rcases List.mem_cons.mp h2 with h2 | h2
        · exact h2.symm
        · have a1 := hyb.1 x h1
          have a2 := hxa.1 y h2
          rw [keyLt_asymm _ _ a1] at a2; cases a2
    subst hxy
    congr 1
    apply sortedKV_ext xs ys hxa.2 hyb.2
    intro z
    constructor
    · intro hz
      have := (h z).mp (List.mem_cons_of_mem _ hz)
      rcases List.mem_cons.mp this with rfl | h'
      · have := hxa.1 z hz; rw [keyLt_irrefl] at this; cases this
      · exact h'
    · intro hz
      have := (h z).mpr (List.mem_cons_of_mem _ hz)
      rcases List.mem_cons.mp this with rfl | h'
      · have := hyb.1 z hz; rw [keyLt_irrefl] at this; cases this
      · exact h'

theorem mem_insByKey (p x : KV) (l : Assoc) : x ∈ insByKey p l ↔ x = p ∨ x ∈ l := by
  induction l with
  | nil => simp [insByKey]
  | cons q qs ih =>
    simp only [insByKey]
    split
    · simp
    · simp [ih]; constructor
      · rintro (h | h | h) <;> simp [h]
      · rintro (h | h | h) <;> simp [h]

theorem insByKey_sorted (p : KV) (l : Assoc) (hs : SortedKV l) (hk : ∀ q ∈ l, q.1 ≠ p.1) :
    SortedKV (insByKey p l) := by
  induction l with
  | nil => simp [insByKey]
  | cons q qs ih =>
    have hq := List.pairwise_cons.mp hs
    simp only [insByKey, keyLt_eq]
    split
    · next hlt =>
      refine List.pairwise_cons.mpr ⟨?_, hs⟩
      intro a ha
      rcases List.mem_cons.mp ha with rfl | ha
      · exact hlt
      · exact keyLt_trans _ _ _ hlt (hq.1 a ha)
    · next hnlt =>
      have hne : p.1 ≠ q.1 := fun h => hk q (by simp) h.symm
      have hqp : RHH.keyLt q.1 p.1 = true := by
        rcases keyLt_total p.1 q.1 hne with h | h
        · simp [h] at hnlt
        · exact h
      refine List.pairwise_cons.mpr ⟨?_, ih hq.2 (fun r hr => hk r (by simp [hr]))⟩
      intro a ha
      rcases (mem_insByKey p a qs).mp ha with rfl | ha
      · exact hqp
      · exact hq.1 a ha

theorem mem_sorted (m : Assoc) (x : KV) : x ∈ m.sorted ↔ x ∈ m := by
  induction m with
  | nil => simp [Assoc.sorted]
  | cons p ps ih =>
    have : Assoc.sorted (p :: ps) = insByKey p (Assoc.sorted ps) := rfl
    rw [this, mem_insByKey, ih]; simp

theorem sorted_sorted (m : Assoc) (h : NodupKeys m) : SortedKV m.sorted := by
  induction m with
  | nil => simp [Assoc.sorted]
  | cons p ps ih =>
    have hp := (nodupKeys_cons p ps).mp h
    have : Assoc.sorted (p :: ps) = insByKey p (Assoc.sorted ps) := rfl
    rw [this]
    apply insByKey_sorted p _ (ih hp.2)
    intro q hq hk
    exact hp.1 (List.mem_map.mpr ⟨q, (mem_sorted ps q).mp hq, hk⟩)

theorem length_insByKey (p : KV) (l : Assoc) : (insByKey p l).length = l.length + 1 := by
  induction l with
  | nil => rfl
  | cons q qs ih => simp only [insByKey]; split <;> simp [ih]

theorem length_sorted (m : Assoc) : m.sorted.length = m.length := by
  induction m with
  | nil => rfl
  | cons p ps ih =>
    have : Assoc.sorted (p :: ps) = insByKey p (Assoc.sorted ps) := rfl
    rw [this, length_insByKey, ih]; rfl

/-- in a list with distinct keys the lookup finds the pair -/
theorem lookup_some_iff (l : List KV) (hs : SortedKV l) (k : Key) (v : Int) :
    lookup k l = some v ↔ (k, v) ∈ l := by
  induction l with
  | nil => simp [lookup]
  | cons p ps ih =>
    have hp := List.pairwise_cons.mp hs
    rw [lookup_cons]
    by_cases hk : p.1 = k
    · simp only [hk, if_true, Option.some.injEq, List.mem_cons]
      constructor
      · intro hv; left; rw [← hk, ← hv]
      · rintro (h1 | h1)
        · rw [← h1]
        · exfalso
          have := hp.1 (k, v) h1
          rw [hk, keyLt_irrefl] at this; cases this
    · simp only [hk, if_false, List.mem_cons, ih hp.2]
      constructor
      · exact Or.inr
      · rintro (h1 | h1)
        · exfalso; apply hk; rw [← h1]
        · exact h1

theorem lookup_sorted_eq_find (m : Assoc) (h : NodupKeys m) (k : Key) : lookup k m.sorted = m.find k := by
  have hs := sorted_sorted m h
  cases hf : m.find k with
  | some v =>
    exact (lookup_some_iff _ hs k v).mpr ((mem_sorted m _).mpr ((find_some_mem m k v h).mp hf))
  | none =>
    cases hl : lookup k m.sorted with
    | none => rfl
    | some v =>
      have := (find_some_mem m k v h).mpr ((mem_sorted m _).mp ((lookup_some_iff _ hs k v).mp hl))
      rw [hf] at this; cases this

theorem isPrefix_eq_pfx : ∀ (p k : Key), isPrefix p k = pfx p k
  | [], k => by simp [isPrefix, pfx_nil]
  | _ :: _, [] => by simp [isPrefix, pfx_cons_nil]
  | a :: as, b :: bs => by
    simp only [isPrefix, pfx_cons_cons, isPrefix_eq_pfx as bs]
    by_cases h : a = b
    · simp [h]
    · have : ¬ b = a := fun h' => h h'.symm
      simp [h, this]

theorem length_filter_partition {α} (f : α → Bool) (l : List α) :
    (l.filter f).length + (l.filter fun x => !f x).length = l.length := by
  induction l with
  | nil => rfl
  | cons x xs ih =>
    simp only [List.filter_cons]
    cases f x <;> simp <;> omega

theorem nodup_filter (m : Assoc) (f : KV → Bool) (h : NodupKeys m) : NodupKeys (m.filter f) := by
  unfold NodupKeys at *
  exact (List.Nodup.sublist ((List.filter_sublist).map _) h)

end Influx.Radix
