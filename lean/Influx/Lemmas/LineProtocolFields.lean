/-
  `scanFields` on the field text written by `Fields.MarshalBinary`.
-/
import Influx.Lemmas.LineProtocolNum
import Influx.Lemmas.LineProtocolKey
import Influx.Spec.C11

namespace Influx.LP
open Influx.Generated.LineProto Influx.Spec.C11

/-! ### gluing results -/

def prepOk (l : Bytes) : Except Err (Bytes × Bytes) → Except Err (Bytes × Bytes)
  | .ok (f, r) => .ok (l ++ f, r)
  | .error e => .error e

theorem consOk_eq (b : Nat) (r : Except Err (Bytes × Bytes)) : consOk b r = prepOk [b] r := by
  cases r with
  | error e => rfl
  | ok p => obtain ⟨f, r⟩ := p; rfl

theorem prepOk_prepOk (a b : Bytes) (r : Except Err (Bytes × Bytes)) :
    prepOk a (prepOk b r) = prepOk (a ++ b) r := by
  cases r with
  | error e => rfl
  | ok p => obtain ⟨f, r⟩ := p; simp [prepOk]

theorem prepOk_nil (r : Except Err (Bytes × Bytes)) : prepOk [] r = r := by
  cases r with
  | error e => rfl
  | ok p => obtain ⟨f, r⟩ := p; rfl

def pushAll (s : FSt) (l : Bytes) : FSt := l.foldl FSt.push s

@[simp] theorem pushAll_nil (s : FSt) : pushAll s [] = s := rfl
@[simp] theorem pushAll_cons (s : FSt) (b : Nat) (l : Bytes) : pushAll s (b :: l) = pushAll (s.push b) l := rfl
theorem pushAll_append (s : FSt) (a b : Bytes) : pushAll s (a ++ b) = pushAll (pushAll s a) b := by
  simp [pushAll, List.foldl_append]

@[simp] theorem pushAll_quoted (s : FSt) (l : Bytes) : (pushAll s l).quoted = s.quoted := by
  induction l generalizing s with
  | nil => rfl
  | cons b l ih => simp [ih, FSt.push]
@[simp] theorem pushAll_equals (s : FSt) (l : Bytes) : (pushAll s l).equals = s.equals := by
  induction l generalizing s with
  | nil => rfl
  | cons b l ih => simp [ih, FSt.push]
@[simp] theorem pushAll_commas (s : FSt) (l : Bytes) : (pushAll s l).commas = s.commas := by
  induction l generalizing s with
  | nil => rfl
  | cons b l ih => simp [ih, FSt.push]

theorem cBS_val : cBS = 92 := rfl
theorem cComma_val : cComma = 44 := rfl
theorem cSpace_val : cSpace = 32 := rfl
theorem cEq_val : cEq = 61 := rfl
theorem cQuote_val : cQuote = 34 := rfl
theorem cNL_val : cNL = 10 := rfl
attribute [local simp] cBS_val cComma_val cSpace_val cEq_val cQuote_val cNL_val

/-! ### single steps of the main loop -/

/-- a byte with no meaning for the loop in the current state -/
theorem scanFieldsM_plain (s : FSt) (b : Nat) (rest : Bytes)
    (h92 : b ≠ cBS) (hq : ¬ (b = cQuote ∧ s.equals > s.commas))
    (heq : ¬ (b = cEq ∧ s.quoted = false)) (hsp : ¬ (b = cSpace ∧ s.quoted = false))
    (hc : ¬ (b = cComma ∧ s.quoted = false)) :
    scanFieldsM .normal s (b :: rest) = prepOk [b] (scanFieldsM .normal (s.push b) rest) := by
  rw [scanFieldsM]
  have h1 : ¬ (b = cBS ∧ (!rest.isEmpty) = true) := fun h => h92 h.1
  have h3 : ¬ (b = cEq ∧ (!s.quoted) = true) := by
    intro h; exact heq ⟨h.1, by simpa using h.2⟩
  have h4 : ¬ (b = cSpace ∧ (!s.quoted) = true) := by
    intro h; exact hsp ⟨h.1, by simpa using h.2⟩
  have h5 : ¬ (b = cComma ∧ (!s.quoted) = true) := by
    intro h; exact hc ⟨h.1, by simpa using h.2⟩
  rw [if_neg h1, if_neg hq, if_neg h3, if_neg h4]
  simp only [if_neg h5, consOk_eq]

/-- a backslash swallows the byte after it -/
theorem scanFieldsM_esc (s : FSt) (c : Nat) (rest : Bytes) :
    scanFieldsM .normal s (cBS :: c :: rest) =
      prepOk [cBS, c] (scanFieldsM .normal ((s.push cBS).push c) rest) := by
  rw [scanFieldsM]
  have h1 : (cBS = cBS ∧ (!(c :: rest).isEmpty) = true) := ⟨rfl, rfl⟩
  rw [if_pos h1, scanFieldsM, consOk_eq, consOk_eq, prepOk_prepOk]
  rfl

/-! ### the field key -/

theorem escapeString_cons (a : Nat) (l : Bytes) : escapeString (a :: l) = escapeString [a] ++ escapeString l := by
  simp only [escapeString]; split <;> rfl

theorem isEscapeChar_cases (b : Nat) (h : isEscapeChar b = true) :
    b = cComma ∨ b = cQuote ∨ b = cSpace ∨ b = cEq := by
  simp only [isEscapeChar, Bool.or_eq_true, beq_iff_eq] at h
  rcases h with ((h | h) | h) | h <;> simp [h]

theorem not_isEscapeChar (b : Nat) (h : isEscapeChar b = false) :
    b ≠ cComma ∧ b ≠ cQuote ∧ b ≠ cSpace ∧ b ≠ cEq := by
  simp only [isEscapeChar, Bool.or_eq_false_iff, beq_eq_false_iff_ne] at h
  exact ⟨h.1.1.1, h.1.1.2, h.1.2, h.2⟩

/-- one raw byte of a key that is not a backslash: written as itself or as an escape pair -/
theorem scanFieldsM_unit (s : FSt) (a : Nat) (tail : Bytes) (ha : a ≠ cBS)
    (hq : s.quoted = false) (he : s.equals = s.commas) :
    scanFieldsM .normal s (escapeString [a] ++ tail) =
      prepOk (escapeString [a]) (scanFieldsM .normal (pushAll s (escapeString [a])) tail) := by
  cases hesc : isEscapeChar a with
  | true =>
    have : escapeString [a] = [cBS, a] := by simp [escapeString, hesc]
    rw [this]
    exact scanFieldsM_esc s a tail
  | false =>
    have : escapeString [a] = [a] := by simp [escapeString, hesc]
    rw [this]
    obtain ⟨h1, h2, h3, h4⟩ := not_isEscapeChar a hesc
    exact scanFieldsM_plain s a tail ha (fun h => h2 h.1) (fun h => h4 h.1) (fun h => h3 h.1) (fun h => h1 h.1)

theorem scanFieldsM_key (k : Bytes) (hk : fieldKeyPairsOK k = true) (s : FSt) (rest : Bytes)
    (hq : s.quoted = false) (he : s.equals = s.commas) :
    scanFieldsM .normal s (escapeString k ++ rest) =
      prepOk (escapeString k) (scanFieldsM .normal (pushAll s (escapeString k)) rest) := by
  fun_induction fieldKeyPairsOK k generalizing s with
  | case1 => simp [escapeString, prepOk_nil]
  | case2 b =>
    have hb : b ≠ cBS := by simpa using hk
    exact scanFieldsM_unit s b rest hb hq he
  | case3 b r h => cases hk
  | case4 b r hsp ih =>
    have h92 : escapeString (cBS :: b :: r) = cBS :: escapeString (b :: r) := by
      have : isEscapeChar cBS = false := by decide
      rw [escapeString, this]; rfl
    rw [h92]
    cases hesc : isEscapeChar b with
    | true =>
      -- only the quote is escaped but not tag-special
      have hb : b = cQuote := by
        rcases isEscapeChar_cases b hesc with h | h | h | h
        · exact absurd (by simp [h, Spec.C11.isTagSpecial]) hsp
        · exact h
        · exact absurd (by simp [h, Spec.C11.isTagSpecial]) hsp
        · exact absurd (by simp [h, Spec.C11.isTagSpecial]) hsp
      subst hb
      have h2 : escapeString (cQuote :: r) = cBS :: cQuote :: escapeString r := by
        have : isEscapeChar cQuote = true := by decide
        rw [escapeString, this]; rfl
      rw [h2]
      simp only [List.cons_append]
      rw [scanFieldsM_esc]
      have hplain := scanFieldsM_plain ((s.push cBS).push cBS) cQuote (escapeString r ++ rest) (by decide)
        (by intro h; have := h.2; simp [FSt.push] at this; omega) (fun h => absurd h.1 (by decide))
        (fun h => absurd h.1 (by decide)) (fun h => absurd h.1 (by decide))
      rw [hplain, ih hk _ (by simp [FSt.push, hq]) (by simp [FSt.push, he])]
      simp [prepOk_prepOk, pushAll]
    | false =>
      have h2 : escapeString (b :: r) = b :: escapeString r := by simp [escapeString, hesc]
      rw [h2]
      simp only [List.cons_append]
      rw [scanFieldsM_esc, ih hk _ (by simp [FSt.push, hq]) (by simp [FSt.push, he])]
      simp [prepOk_prepOk, pushAll]
  | case5 a b r ha ih =>
    rw [escapeString_cons, List.append_assoc, scanFieldsM_unit s a _ ha hq he,
      ih hk _ (by simp [hq]) (by simp [he]), prepOk_prepOk, pushAll_append]

theorem escapeString_append (a b : Bytes) : escapeString (a ++ b) = escapeString a ++ escapeString b := by
  induction a with
  | nil => rfl
  | cons x xs ih => rw [List.cons_append, escapeString_cons, escapeString_cons x xs, ih, List.append_assoc]

/-- at the `=` after a non-empty key the two look-behind bytes never look like a missing key -/
theorem key_lookbehind (s : FSt) (k : Bytes) (hk : k ≠ []) :
    ¬ ((pushAll s (escapeString k)).p1 = cSpace ∧ (pushAll s (escapeString k)).p2 ≠ cBS) ∧
    ¬ ((pushAll s (escapeString k)).p1 = cComma ∧ (pushAll s (escapeString k)).p2 ≠ cBS) := by
  have hsplit : k = k.dropLast ++ [k.getLast hk] := (List.dropLast_concat_getLast hk).symm
  generalize k.getLast hk = x at hsplit
  generalize k.dropLast = k' at hsplit
  subst hsplit
  rw [escapeString_append, pushAll_append]
  cases hesc : isEscapeChar x with
  | true =>
    have : escapeString [x] = [cBS, x] := by simp [escapeString, hesc]
    rw [this]
    simp [FSt.push]
  | false =>
    have : escapeString [x] = [x] := by simp [escapeString, hesc]
    rw [this]
    obtain ⟨h1, _, h3, _⟩ := not_isEscapeChar x hesc
    simp [FSt.push, h1, h3]

/-! ### the `=` and the value -/

/-- what the main loop does at the byte after a value (not inside quotes) -/
def afterTok (s : FSt) : Bytes → Except Err (Bytes × Bytes)
  | [] => s.finish []
  | b :: rest =>
    if b = cComma then prepOk [cComma] (scanFieldsM .normal ({ s with commas := s.commas + 1 }.push cComma) rest)
    else s.finish (b :: rest)

def isTail (tail : Bytes) : Prop := tail = [] ∨ tail.head? = some cComma ∨ tail.head? = some cSpace

theorem scanFieldsM_normal_tail (s : FSt) (tail : Bytes) (hq : s.quoted = false) (ht : isTail tail) :
    scanFieldsM .normal s tail = afterTok s tail := by
  rcases ht with rfl | ht | ht
  · rfl
  · cases tail with
    | nil => simp at ht
    | cons b rest =>
      simp at ht; subst ht
      rw [scanFieldsM]
      simp [hq, afterTok, consOk_eq]
  · cases tail with
    | nil => simp at ht
    | cons b rest =>
      simp at ht; subst ht
      rw [scanFieldsM]
      simp [hq, afterTok]

def eqState (s : FSt) : FSt := { s with equals := s.equals + 1 }.push cEq

theorem scanFieldsM_eq_num (s : FSt) (c : Nat) (rest : Bytes) (hq : s.quoted = false)
    (h1 : ¬ (s.p1 = cSpace ∧ s.p2 ≠ cBS)) (h2 : ¬ (s.p1 = cComma ∧ s.p2 ≠ cBS))
    (hc : c ≠ cComma ∧ c ≠ cSpace) (hg : isNumeric c = true ∨ c = 45 ∨ c = 78 ∨ c = 110) :
    scanFieldsM .normal s (cEq :: c :: rest) = prepOk [cEq] (scanFieldsM (.num []) (eqState s) (c :: rest)) := by
  conv => lhs; rw [scanFieldsM]
  simp [hq, h1, h2, hc.1, hc.2, hg, consOk_eq, eqState]

theorem scanFieldsM_eq_bool (s : FSt) (c : Nat) (rest : Bytes) (hq : s.quoted = false)
    (h1 : ¬ (s.p1 = cSpace ∧ s.p2 ≠ cBS)) (h2 : ¬ (s.p1 = cComma ∧ s.p2 ≠ cBS))
    (hc : c ≠ cComma ∧ c ≠ cSpace) (hg : ¬ (isNumeric c = true ∨ c = 45 ∨ c = 78 ∨ c = 110)) (hnq : c ≠ cQuote) :
    scanFieldsM .normal s (cEq :: c :: rest) = prepOk [cEq] (scanFieldsM (.bool []) (eqState s) (c :: rest)) := by
  conv => lhs; rw [scanFieldsM]
  simp [hq, h1, h2, hc.1, hc.2, hg, hnq, consOk_eq, eqState]

theorem scanFieldsM_eq_quote (s : FSt) (rest : Bytes) (hq : s.quoted = false)
    (h1 : ¬ (s.p1 = cSpace ∧ s.p2 ≠ cBS)) (h2 : ¬ (s.p1 = cComma ∧ s.p2 ≠ cBS)) :
    scanFieldsM .normal s (cEq :: cQuote :: rest) =
      prepOk [cEq] (scanFieldsM .normal (eqState s) (cQuote :: rest)) := by
  conv => lhs; rw [scanFieldsM]
  have e1 : ¬ (s.p1 = 32 ∧ ¬ s.p2 = 92) := h1
  have e2 : ¬ (s.p1 = 44 ∧ ¬ s.p2 = 92) := h2
  simp [hq, e1, e2, consOk_eq, eqState, isNumeric, isDigit, cEq, cBS, cQuote, cComma, cSpace]

theorem scanFieldsM_num_tok (tok : Bytes) (hnd : ∀ b ∈ tok, b ≠ cComma ∧ b ≠ cSpace) (acc : Bytes) (s : FSt)
    (tail : Bytes) :
    scanFieldsM (.num acc) s (tok ++ tail) =
      prepOk tok (scanFieldsM (.num (tok.reverse ++ acc)) (pushAll s tok) tail) := by
  induction tok generalizing acc s with
  | nil => simp [prepOk_nil]
  | cons b t ih =>
    obtain ⟨hb1, hb2⟩ := hnd b (by simp)
    rw [List.cons_append]
    conv => lhs; rw [scanFieldsM]
    simp only [hb1, hb2, or_self, if_false, consOk_eq]
    rw [ih (fun c hc => hnd c (by simp [hc])), prepOk_prepOk]
    simp

theorem scanFieldsM_bool_tok (tok : Bytes) (hnd : ∀ b ∈ tok, b ≠ cComma ∧ b ≠ cSpace) (acc : Bytes) (s : FSt)
    (tail : Bytes) :
    scanFieldsM (.bool acc) s (tok ++ tail) =
      prepOk tok (scanFieldsM (.bool (tok.reverse ++ acc)) (pushAll s tok) tail) := by
  induction tok generalizing acc s with
  | nil => simp [prepOk_nil]
  | cons b t ih =>
    obtain ⟨hb1, hb2⟩ := hnd b (by simp)
    rw [List.cons_append]
    conv => lhs; rw [scanFieldsM]
    simp only [hb1, hb2, or_self, if_false, consOk_eq]
    rw [ih (fun c hc => hnd c (by simp [hc])), prepOk_prepOk]
    simp

theorem scanFieldsM_num_end (tok : Bytes) (s : FSt) (tail : Bytes) (hok : checkNumber tok = .ok ())
    (ht : isTail tail) : scanFieldsM (.num tok.reverse) s tail = afterTok s tail := by
  rcases ht with rfl | ht | ht
  · conv => lhs; rw [scanFieldsM]
    simp [hok, afterTok]
  · cases tail with
    | nil => simp at ht
    | cons b rest =>
      simp at ht; subst ht
      conv => lhs; rw [scanFieldsM]
      simp [hok, afterTok, consOk_eq]
  · cases tail with
    | nil => simp at ht
    | cons b rest =>
      simp at ht; subst ht
      conv => lhs; rw [scanFieldsM]
      simp [hok, afterTok, cSpace, cComma]

theorem scanFieldsM_bool_end (tok : Bytes) (s : FSt) (tail : Bytes) (hok : checkBoolean tok = .ok ())
    (ht : isTail tail) : scanFieldsM (.bool tok.reverse) s tail = afterTok s tail := by
  rcases ht with rfl | ht | ht
  · conv => lhs; rw [scanFieldsM]
    simp [hok, afterTok]
  · cases tail with
    | nil => simp at ht
    | cons b rest =>
      simp at ht; subst ht
      conv => lhs; rw [scanFieldsM]
      simp [hok, afterTok, consOk_eq]
  · cases tail with
    | nil => simp at ht
    | cons b rest =>
      simp at ht; subst ht
      conv => lhs; rw [scanFieldsM]
      simp [hok, afterTok, cSpace, cComma]

/-! ### string values -/

theorem scanFieldsM_quote (s : FSt) (rest : Bytes) (h : s.equals > s.commas) :
    scanFieldsM .normal s (cQuote :: rest) =
      prepOk [cQuote] (scanFieldsM .normal ({ s with quoted := !s.quoted }.push cQuote) rest) := by
  conv => lhs; rw [scanFieldsM]
  simp [h, consOk_eq]

theorem scanFieldsM_strbody (str : Bytes) (s : FSt) (hq : s.quoted = true) (tail : Bytes) :
    scanFieldsM .normal s (escapeStringField str ++ tail) =
      prepOk (escapeStringField str) (scanFieldsM .normal (pushAll s (escapeStringField str)) tail) := by
  induction str generalizing s with
  | nil => simp [escapeStringField, prepOk_nil]
  | cons b r ih =>
    by_cases hb : b = cQuote ∨ b = cBS
    · have : escapeStringField (b :: r) = cBS :: b :: escapeStringField r := by
        rw [escapeStringField, if_pos hb]
      rw [this]
      simp only [List.cons_append]
      rw [scanFieldsM_esc, ih _ (by simp [FSt.push, hq]), prepOk_prepOk]
      simp [pushAll]
    · have : escapeStringField (b :: r) = b :: escapeStringField r := by
        rw [escapeStringField, if_neg hb]
      rw [this]
      simp only [List.cons_append]
      have hb' : b ≠ cQuote ∧ b ≠ cBS := by
        constructor <;> intro h <;> exact hb (by simp [h])
      rw [scanFieldsM_plain s b _ hb'.2 (fun h => hb'.1 h.1) (fun h => by simp [hq] at h)
        (fun h => by simp [hq] at h) (fun h => by simp [hq] at h),
        ih _ (by simp [FSt.push, hq]), prepOk_prepOk]
      simp [pushAll]

/-! ### one field -/

theorem finish_ok (s : FSt) (rest : Bytes) (hq : s.quoted = false) (he : s.equals = s.commas + 1) :
    s.finish rest = .ok ([], rest) := by
  unfold FSt.finish
  simp [hq, he]

/-- a token the number scanner takes and accepts -/
structure NumTok (tok : Bytes) : Prop where
  nodelim : ∀ b ∈ tok, b ≠ cComma ∧ b ≠ cSpace
  gate : ∃ c t, tok = c :: t ∧ (isNumeric c = true ∨ c = 45 ∨ c = 78 ∨ c = 110)
  ok : checkNumber tok = .ok ()

structure BoolTok (tok : Bytes) : Prop where
  nodelim : ∀ b ∈ tok, b ≠ cComma ∧ b ≠ cSpace
  gate : ∃ c t, tok = c :: t ∧ ¬ (isNumeric c = true ∨ c = 45 ∨ c = 78 ∨ c = 110) ∧ c ≠ cQuote
  ok : checkBoolean tok = .ok ()

theorem scanFieldsM_numval (tok : Bytes) (h : NumTok tok) (s : FSt) (hq : s.quoted = false)
    (h1 : ¬ (s.p1 = cSpace ∧ s.p2 ≠ cBS)) (h2 : ¬ (s.p1 = cComma ∧ s.p2 ≠ cBS)) (tail : Bytes) (ht : isTail tail) :
    scanFieldsM .normal s (cEq :: tok ++ tail) =
      prepOk (cEq :: tok) (afterTok (pushAll (eqState s) tok) tail) := by
  obtain ⟨c, t, rfl, hg⟩ := h.gate
  have hc := h.nodelim c (by simp)
  rw [List.cons_append, List.cons_append, scanFieldsM_eq_num s c _ hq h1 h2 hc hg]
  rw [← List.cons_append, scanFieldsM_num_tok (c :: t) h.nodelim, List.append_nil,
    scanFieldsM_num_end _ _ _ h.ok ht, prepOk_prepOk]
  rfl

theorem scanFieldsM_boolval (tok : Bytes) (h : BoolTok tok) (s : FSt) (hq : s.quoted = false)
    (h1 : ¬ (s.p1 = cSpace ∧ s.p2 ≠ cBS)) (h2 : ¬ (s.p1 = cComma ∧ s.p2 ≠ cBS)) (tail : Bytes) (ht : isTail tail) :
    scanFieldsM .normal s (cEq :: tok ++ tail) =
      prepOk (cEq :: tok) (afterTok (pushAll (eqState s) tok) tail) := by
  obtain ⟨c, t, rfl, hg, hnq⟩ := h.gate
  have hc := h.nodelim c (by simp)
  rw [List.cons_append, List.cons_append, scanFieldsM_eq_bool s c _ hq h1 h2 hc hg hnq]
  rw [← List.cons_append, scanFieldsM_bool_tok (c :: t) h.nodelim, List.append_nil,
    scanFieldsM_bool_end _ _ _ h.ok ht, prepOk_prepOk]
  rfl

theorem scanFieldsM_strval (str : Bytes) (s : FSt) (hq : s.quoted = false) (he : s.equals = s.commas)
    (h1 : ¬ (s.p1 = cSpace ∧ s.p2 ≠ cBS)) (h2 : ¬ (s.p1 = cComma ∧ s.p2 ≠ cBS)) (tail : Bytes) (ht : isTail tail) :
    ∃ s', s'.quoted = false ∧ s'.equals = s.equals + 1 ∧ s'.commas = s.commas ∧
      scanFieldsM .normal s (cEq :: (cQuote :: escapeStringField str ++ [cQuote]) ++ tail) =
        prepOk (cEq :: (cQuote :: escapeStringField str ++ [cQuote])) (afterTok s' tail) := by
  have e1 : (eqState s).equals > (eqState s).commas := by simp [eqState, FSt.push, he]
  let sA : FSt := { eqState s with quoted := !(eqState s).quoted }.push cQuote
  have hqA : sA.quoted = true := by simp [sA, eqState, FSt.push, hq]
  let sB : FSt := pushAll sA (escapeStringField str)
  have e2 : sB.equals > sB.commas := by simp [sB, sA, eqState, FSt.push, he]
  let sC : FSt := { sB with quoted := !sB.quoted }.push cQuote
  refine ⟨sC, by simp [sC, sB, hqA, FSt.push], by simp [sC, sB, sA, eqState, FSt.push],
    by simp [sC, sB, sA, eqState, FSt.push], ?_⟩
  have hqC : sC.quoted = false := by simp [sC, sB, hqA, FSt.push]
  simp only [List.cons_append, List.append_assoc]
  have hfin : scanFieldsM .normal sC ([] ++ tail) = afterTok sC tail := by
    simpa using scanFieldsM_normal_tail sC tail hqC ht
  rw [scanFieldsM_eq_quote s _ hq h1 h2, scanFieldsM_quote _ _ e1, scanFieldsM_strbody str sA hqA,
    scanFieldsM_quote _ _ e2]
  show prepOk [cEq] (prepOk [cQuote] (prepOk (escapeStringField str) (prepOk [cQuote]
    (scanFieldsM .normal sC ([] ++ tail))))) = _
  rw [hfin]
  simp [prepOk_prepOk]

/-! ### the rendered values are such tokens -/

theorem intDigits_bytes (v : Int) : ∀ b ∈ intDigits v, isDigit b = true ∨ b = 45 := by
  intro b hb
  unfold intDigits at hb
  split at hb
  · rcases List.mem_cons.mp hb with h | h
    · right; exact h
    · left; exact (natDigits_spec _).2.1 b h
  · left; exact (natDigits_spec _).2.1 b hb

theorem intDigits_head (v : Int) : ∃ c t, intDigits v = c :: t ∧ (isDigit c = true ∨ c = 45) := by
  unfold intDigits
  split
  · exact ⟨45, _, rfl, Or.inr rfl⟩
  · obtain ⟨d, r, hd, hdig⟩ := natDigits_head v.natAbs
    exact ⟨d, r, hd, Or.inl hdig⟩

theorem numTok_int (v : Int) (h1 : -(2 ^ 63 : Int) ≤ v) (h2 : v < 2 ^ 63) : NumTok (intDigits v ++ [105]) where
  nodelim := by
    intro b hb
    rcases List.mem_append.mp hb with h | h
    · rcases intDigits_bytes v b h with h | h
      · have := isDigit_ne b h; exact ⟨this.2.2.2.2.2.2.2.2.1, this.2.2.2.2.2.2.2.1⟩
      · subst h; decide
    · simp at h; subst h; decide
  gate := by
    obtain ⟨c, t, hc, hg⟩ := intDigits_head v
    refine ⟨c, t ++ [105], by simp [hc], ?_⟩
    rcases hg with hg | hg
    · left; simp [isNumeric, hg]
    · right; left; exact hg
  ok := checkNumber_int v h1 h2

theorem numTok_uint (v : Nat) (h : v < 2 ^ 64) : NumTok (natDigits v ++ [117]) where
  nodelim := by
    intro b hb
    rcases List.mem_append.mp hb with h | h
    · have := isDigit_ne b ((natDigits_spec v).2.1 b h); exact ⟨this.2.2.2.2.2.2.2.2.1, this.2.2.2.2.2.2.2.1⟩
    · simp at h; subst h; decide
  gate := by
    obtain ⟨d, r, hd, hdig⟩ := natDigits_head v
    exact ⟨d, r ++ [117], by simp [hd], Or.inl (by simp [isNumeric, hdig])⟩
  ok := checkNumber_uint v h

theorem numTok_float (text : Bytes) (h : floatTextOK text = true) : NumTok text := by
  simp only [floatTextOK, Bool.and_eq_true, Bool.not_eq_true', List.all_eq_true, Bool.or_eq_true,
    beq_iff_eq] at h
  obtain ⟨⟨⟨hne, hall⟩, hok⟩, _⟩ := h
  refine ⟨?_, ?_, ?_⟩
  · intro b hb
    rcases hall b hb with (h | h) | h
    · have := isDigit_ne b h; exact ⟨this.2.2.2.2.2.2.2.2.1, this.2.2.2.2.2.2.2.1⟩
    · subst h; decide
    · subst h; decide
  · cases text with
    | nil => simp at hne
    | cons c t =>
      refine ⟨c, t, rfl, ?_⟩
      rcases hall c (by simp) with (h | h) | h
      · left; simp [isNumeric, h]
      · left; simp [isNumeric, h]
      · right; left; exact h
  · cases hc : checkNumber text with
    | ok u => rfl
    | error e => rw [hc] at hok; cases hok

theorem boolTok_true : BoolTok (str "true") :=
  ⟨by decide, ⟨116, str "rue", rfl, by decide, by decide⟩, by rfl⟩
theorem boolTok_false : BoolTok (str "false") :=
  ⟨by decide, ⟨102, str "alse", rfl, by decide, by decide⟩, by rfl⟩

/-! ### one field, all fields -/

theorem scanFieldsM_field (k : Bytes) (v : FV) (hk : fieldKeyOK k = true) (hv : fieldValOK v = true)
    (s : FSt) (hq : s.quoted = false) (he : s.equals = s.commas) (tail : Bytes) (ht : isTail tail) :
    ∃ s', s'.quoted = false ∧ s'.equals = s.equals + 1 ∧ s'.commas = s.commas ∧
      scanFieldsM .normal s (appendField k v ++ tail) = prepOk (appendField k v) (afterTok s' tail) := by
  simp only [fieldKeyOK, Bool.and_eq_true, Bool.not_eq_true', List.isEmpty_eq_false_iff] at hk
  have hkne : k ≠ [] := hk.1.1.1.1.1
  have hpairs : fieldKeyPairsOK k = true := hk.1.1.1.2
  obtain ⟨hl1, hl2⟩ := key_lookbehind s k hkne
  have hq1 : (pushAll s (escapeString k)).quoted = false := by simp [hq]
  have he1 : (pushAll s (escapeString k)).equals = (pushAll s (escapeString k)).commas := by simp [he]
  unfold appendField
  rw [List.append_assoc, scanFieldsM_key k hpairs s _ hq he]
  have hnum : ∀ tok, NumTok tok → fvText v = tok →
      ∃ s', s'.quoted = false ∧ s'.equals = s.equals + 1 ∧ s'.commas = s.commas ∧
        prepOk (escapeString k) (scanFieldsM .normal (pushAll s (escapeString k)) (cEq :: fvText v ++ tail)) =
          prepOk (escapeString k ++ cEq :: fvText v) (afterTok s' tail) := by
    intro tok htok hv'
    refine ⟨pushAll (eqState (pushAll s (escapeString k))) tok, by simp [eqState, FSt.push, hq],
      by simp [eqState, FSt.push], by simp [eqState, FSt.push], ?_⟩
    rw [hv', scanFieldsM_numval tok htok _ hq1 hl1 hl2 tail ht, prepOk_prepOk]
  cases v with
  | float bits text =>
    simp only [fieldValOK, Bool.and_eq_true] at hv
    exact hnum text (numTok_float text hv.2) rfl
  | int i =>
    simp only [fieldValOK, Bool.and_eq_true, decide_eq_true_eq] at hv
    exact hnum _ (numTok_int i hv.1 hv.2) rfl
  | uint u =>
    simp only [fieldValOK, decide_eq_true_eq] at hv
    exact hnum _ (numTok_uint u hv) rfl
  | bool b =>
    have hb : BoolTok (fvText (.bool b)) := by
      cases b
      · exact boolTok_false
      · exact boolTok_true
    refine ⟨pushAll (eqState (pushAll s (escapeString k))) (fvText (.bool b)), by simp [eqState, FSt.push, hq],
      by simp [eqState, FSt.push], by simp [eqState, FSt.push], ?_⟩
    rw [scanFieldsM_boolval _ hb _ hq1 hl1 hl2 tail ht, prepOk_prepOk]
  | str st =>
    obtain ⟨s', h1, h2, h3, h4⟩ := scanFieldsM_strval st _ hq1 he1 hl1 hl2 tail ht
    refine ⟨s', h1, by simpa using h2, by simpa using h3, ?_⟩
    show prepOk (escapeString k) (scanFieldsM .normal (pushAll s (escapeString k))
      (cEq :: (cQuote :: escapeStringField st ++ [cQuote]) ++ tail)) = _
    rw [h4, prepOk_prepOk]
    rfl

theorem joinCommaB_cons2 (a b : Bytes) (l : List Bytes) :
    joinCommaB (a :: b :: l) = a ++ cComma :: joinCommaB (b :: l) := rfl

/-- `scanFields`' loop on the text `Fields.MarshalBinary` writes for valid fields, followed by
    nothing or by the space before the timestamp: all of it is the field section -/
theorem scanFieldsM_fields (fs : List (Bytes × FV)) (hne : fs ≠ [])
    (hall : ∀ f ∈ fs, fieldKeyOK f.1 = true ∧ fieldValOK f.2 = true)
    (s : FSt) (hq : s.quoted = false) (he : s.equals = s.commas) (T : Bytes)
    (hT : T = [] ∨ T.head? = some cSpace) :
    scanFieldsM .normal s (joinCommaB (fs.map fun f => appendField f.1 f.2) ++ T) =
      .ok (joinCommaB (fs.map fun f => appendField f.1 f.2), T) := by
  induction fs generalizing s with
  | nil => exact absurd rfl hne
  | cons f rest ih =>
    obtain ⟨hkf, hvf⟩ := hall f (by simp)
    cases rest with
    | nil =>
      simp only [List.map_cons, List.map_nil, joinCommaB]
      have htail : isTail T := by
        rcases hT with h | h
        · exact Or.inl h
        · exact Or.inr (Or.inr h)
      obtain ⟨s', h1, h2, h3, h4⟩ := scanFieldsM_field f.1 f.2 hkf hvf s hq he T htail
      rw [h4]
      have hfin : afterTok s' T = .ok ([], T) := by
        rcases hT with rfl | h
        · exact finish_ok s' [] h1 (by omega)
        · cases T with
          | nil => simp at h
          | cons b r =>
            simp at h; subst h
            simp only [afterTok]
            rw [if_neg (by decide)]
            exact finish_ok s' _ h1 (by omega)
      rw [hfin]; simp [prepOk]
    | cons g rest' =>
      simp only [List.map_cons] at ih ⊢
      rw [joinCommaB_cons2, List.append_assoc]
      obtain ⟨s', h1, h2, h3, h4⟩ := scanFieldsM_field f.1 f.2 hkf hvf s hq he
        (cComma :: (joinCommaB (appendField g.1 g.2 :: rest'.map fun f => appendField f.1 f.2)) ++ T)
        (Or.inr (Or.inl rfl))
      simp only [List.cons_append] at h4 ⊢
      rw [h4]
      simp only [afterTok, if_true]
      rw [ih (by simp) (fun x hx => hall x (by simp [hx])) _ (by simp [FSt.push, h1]) (by simp [FSt.push]; omega)]
      simp [prepOk]

end Influx.LP
