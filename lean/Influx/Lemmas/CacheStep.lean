/-
  Lemmas.CacheStep — every operation of the cache model preserves the invariant and
  is accepted by the statement checker, up to stale-size failures.
-/
import Influx.Lemmas.CacheSim

namespace Influx.Cache
open Influx.Spec.C09

structure StepOK (c : Cache) (st : St) (B : Nat) (i : Nat) (op : Op) : Prop where
  inv : Inv (step c op).1 (stepSt st i (op, (step c op).2)).1 (B + opBytes op)
  fails : FailsOK st (stepSt st i (op, (step c op).2)).2

theorem StepOK.of {c : Cache} {st : St} {B i : Nat} {op : Op} (c' : Cache) (o : Obs) (st' : St) (fs : List Fail)
    (h1 : step c op = (c', o)) (h2 : stepSt st i (op, o) = (st', fs))
    (inv : Inv c' st' (B + opBytes op)) (hf : FailsOK st fs) : StepOK c st B i op := by
  constructor <;> simp only [h1, h2] <;> assumption

theorem Cache.Size_eq {c : Cache} {st : St} {B : Nat} (inv : Inv c st B) (hB : B < W) :
    c.Size = c.size + c.snapshotSize := by
  unfold Cache.Size
  exact add64_eq (Nat.lt_of_le_of_lt inv.bound hB)

theorem step_ok {c : Cache} {st : St} {B : Nat} (inv : Inv c st B) (i : Nat) (op : Op)
    (hv : ValidOp op) (hB : B + opBytes op < W) : StepOK c st B i op := by
  have hBW : B < W := by omega
  have hSize := Cache.Size_eq inv hBW
  obtain ⟨rh, hrh, hrh0⟩ := inv.size
  obtain ⟨rs, hrs, hrs0⟩ := inv.ssz
  have hbound := inv.bound
  cases op with
  | new m =>
    exact StepOK.of { maxSize := m } .ok { maxSize := m } [] rfl rfl (Inv.init _ m) (FailsOK.nil st)
  | size =>
    refine StepOK.of c (.num c.Size) st _ rfl rfl ?_ ?_
    · exact { inv with bound := by simp only [opBytes]; exact inv.bound }
    · exact sizeFail_ok st i _ _ (rh + rs) (by rw [hSize]; omega) (fun h => by rw [hrh0 h, hrs0 h])
  | count =>
    refine StepOK.of c (.num c.count) st [] rfl ?_ ?_ (FailsOK.nil st)
    · simp [stepSt, Cache.count, count_eq, inv.hot]
    · exact { inv with bound := by simp only [opBytes]; exact inv.bound }
  | clear success =>
    cases hs : c.snapshot with
    | none =>
      have hex : st.snapExists = false := by rw [inv.snapExists, hs]; rfl
      refine StepOK.of c .refused st [] (by simp [step, Cache.clearSnapshot, hs]) (by simp [stepSt, hex]) ?_
        (FailsOK.nil st)
      exact { inv with bound := by simp only [opBytes]; exact inv.bound }
    | some sn =>
      have hex : st.snapExists = true := by rw [inv.snapExists, hs]; rfl
      cases success with
      | true =>
        refine StepOK.of { c with snapshotting := false, snapshot := some ⟨[], 0⟩, snapshotSize := 0 } .ok
          { st with snapshotting := false, snap := [], snapSize := 0 } []
          (by simp [step, Cache.clearSnapshot, hs]) (by simp [stepSt, hex]) ?_ (FailsOK.nil st)
        exact ⟨inv.hot, inv.hotOK, rfl, StoreOK.nil, hex, rfl, rfl, rfl, inv.maxSize,
          ⟨rh, hrh, hrh0⟩, ⟨0, rfl, fun _ => rfl⟩, by simp only [opBytes]; omega⟩
      | false =>
        refine StepOK.of { c with snapshotting := false, snapshot := some sn } .ok
          { st with snapshotting := false } []
          (by simp [step, Cache.clearSnapshot, hs]) (by simp [stepSt, hex]) ?_ (FailsOK.nil st)
        have e1 : snapStore { c with snapshotting := false, snapshot := some sn } = snapStore c := by
          simp [snapStore, hs]
        have e2 : snapSz { c with snapshotting := false, snapshot := some sn } = snapSz c := by
          simp [snapSz, hs]
        exact ⟨inv.hot, inv.hotOK, by rw [e1]; exact inv.snap, by rw [e1]; exact inv.snapOK,
          by rw [inv.snapExists, hs], by rw [e2]; exact inv.snapSize, by rw [e2]; exact inv.ssize, rfl,
          inv.maxSize, ⟨rh, hrh, hrh0⟩, ⟨rs, hrs, hrs0⟩, by simp only [opBytes]; omega⟩
  | dedup =>
    -- every hot entry is compacted in place; `size` is not touched
    have hmap : toHeld (c.store.map fun x => (x.1, x.2.deduplicate)) =
        (toHeld c.store).map fun x => (x.1, canon x.2) := by
      simp [toHeld, Entry.deduplicate_values, dedup_eq_canon, Function.comp_def]
    have hle : ∀ s : Store, acct ((toHeld s).map fun x => (x.1, canon x.2)) ≤ acct (toHeld s) := by
      intro s
      induction s with
      | nil => simp [acct]
      | cons x rest ih =>
        simp only [toHeld, List.map_cons, acct_cons] at ih ⊢
        have := valuesSize_dedup_le x.2.values
        rw [dedup_eq_canon] at this
        omega
    have hok : StoreOK (c.store.map fun x => (x.1, x.2.deduplicate)) := by
      refine ⟨by simpa [Function.comp_def] using inv.hotOK.1, ?_⟩
      intro x hx
      obtain ⟨y, hy, rfl⟩ := List.mem_map.mp hx
      exact Entry.deduplicate_ok (inv.hotOK.2 y hy)
    refine StepOK.of { c with store := c.store.map fun x => (x.1, x.2.deduplicate) } .ok
      { st with hot := st.hot.map fun x => (x.1, canon x.2),
                compacted := st.compacted || decide (acct (st.hot.map fun x => (x.1, canon x.2)) < acct st.hot) } []
      rfl rfl ?_ (FailsOK.nil st)
    have hl := hle c.store
    rw [← inv.hot] at hl
    refine ⟨by simp only; rw [inv.hot, hmap], hok, inv.snap, inv.snapOK, inv.snapExists, inv.snapSize, inv.ssize,
      inv.snapshotting, inv.maxSize, ⟨rh + (acct st.hot - acct (st.hot.map fun x => (x.1, canon x.2))), ?_, ?_⟩,
      ⟨rs, hrs, ?_⟩, by simp only [opBytes]; omega⟩
    · simp only; omega
    · simp only [Bool.or_eq_false_iff, decide_eq_false_iff_not]
      rintro ⟨h1, h2⟩
      rw [hrh0 h1]; omega
    · simp only [Bool.or_eq_false_iff]
      rintro ⟨h1, _⟩; exact hrs0 h1
  | delrange keys mn mx =>
    have hd := deleteLoop_spec mn mx keys c.store c.size rh inv.hotOK (by rw [← inv.hot]; exact hrh) (by omega)
    refine StepOK.of (c.deleteRange keys mn mx) .ok { st with hot := deleteKeys mn mx keys st.hot } [] rfl rfl ?_
      (FailsOK.nil st)
    simp only [Cache.deleteRange]
    refine ⟨by rw [inv.hot]; exact hd.1.symm, hd.2.1, inv.snap, inv.snapOK, inv.snapExists, inv.snapSize, inv.ssize,
      inv.snapshotting, inv.maxSize, ⟨rh, by rw [inv.hot]; exact hd.2.2.1, hrh0⟩, ⟨rs, hrs, hrs0⟩, ?_⟩
    have := hd.2.2.2
    simp only [opBytes]; omega
  | snapshot =>
    by_cases hsn : c.snapshotting = true
    · refine StepOK.of c .errInProgress st [] (by simp [step, Cache.snapshotOp, hsn])
        (by simp [stepSt, inv.snapshotting, hsn]) ?_ (FailsOK.nil st)
      exact { inv with bound := by simp only [opBytes]; exact inv.bound }
    · have hsn' : st.snapshotting = false := by rw [inv.snapshotting]; simpa using hsn
      by_cases hpos : snapSz c > 0
      · -- a snapshot that was not cleared successfully is handed out again
        obtain ⟨sn, hs⟩ : ∃ sn, c.snapshot = some sn := by
          cases h : c.snapshot with
          | none => simp [snapSz, h] at hpos
          | some sn => exact ⟨sn, rfl⟩
        have hsz : sn.size = snapSz c := by simp [snapSz, hs]
        refine StepOK.of { c with snapshotting := true, snapshot := some sn } (.snap sn.size sn.store.count)
          { st with snapshotting := true, snapExists := true } [] ?_ ?_ ?_ (FailsOK.nil st)
        · simp only [step, Cache.snapshotOp, hsn, hs, Option.getD_some, Bool.false_eq_true, if_false]
          rw [if_pos (by omega)]
        · have h1 : st.snapSize > 0 := by rw [inv.snapSize]; exact hpos
          have h2 : sn.store.count = liveKeys st.snap := by rw [inv.snap, count_eq]; simp [snapStore, hs]
          simp only [stepSt, hsn', Bool.false_eq_true, if_false]
          rw [if_pos h1]
          simp [inv.snapSize, hsz, h2]
        · have e1 : snapStore { c with snapshotting := true, snapshot := some sn } = snapStore c := by
            simp [snapStore, hs]
          have e2 : snapSz { c with snapshotting := true, snapshot := some sn } = snapSz c := by
            simp [snapSz, hs]
          exact ⟨inv.hot, inv.hotOK, by rw [e1]; exact inv.snap, by rw [e1]; exact inv.snapOK, rfl,
            by rw [e2]; exact inv.snapSize, by rw [e2]; exact inv.ssize, rfl, inv.maxSize,
            ⟨rh, hrh, hrh0⟩, ⟨rs, hrs, hrs0⟩, by simp only [opBytes]; omega⟩
      · -- the stores are swapped
        have hz : snapSz c = 0 := by omega
        have hss : c.snapshotSize = 0 := by rw [inv.ssize, hz]
        have hsnap0 : acct st.snap = 0 ∧ rs = 0 := by omega
        have hgetD : (c.snapshot.getD ⟨[], 0⟩).size = 0 := by
          cases h : c.snapshot with
          | none => rfl
          | some sn => simpa [snapSz, h] using hz
        refine StepOK.of
          { c with snapshotting := true, snapshot := some ⟨c.store, c.Size⟩, snapshotSize := c.Size, store := [], size := 0 }
          (.snap c.Size c.store.count)
          { st with snapshotting := true, snapExists := true, snap := st.hot, hot := [], snapSize := c.Size }
          (sizeFail st i c.Size (acct st.hot + acct st.snap)) ?_ ?_ ?_ ?_
        · simp only [step, Cache.snapshotOp, hsn, Bool.false_eq_true, if_false]
          rw [if_neg (by omega)]
        · have h1 : ¬ st.snapSize > 0 := by rw [inv.snapSize]; omega
          have h2 : c.store.count = liveKeys st.hot := by rw [inv.hot, count_eq]
          simp [stepSt, hsn', h1, h2]
        · refine ⟨rfl, StoreOK.nil, by simp [snapStore, inv.hot], by simpa [snapStore] using inv.hotOK, rfl,
            by simp [snapSz], by simp [snapSz], rfl, inv.maxSize, ⟨0, by simp [acct], fun _ => rfl⟩,
            ⟨rh, by simp only; rw [hSize, hss]; omega, hrh0⟩, ?_⟩
          simp only [opBytes]; rw [hSize]; omega
        · exact sizeFail_ok st i _ _ rh (by rw [hSize, hss]; omega) hrh0
  | values k =>
    have hh := compact_store inv.hotOK k
    have hs := compact_store inv.snapOK k
    simp only at hh hs
    rw [← inv.hot] at hh
    rw [← inv.snap] at hs
    generalize hst : compactStore c.store k = store' at hh
    generalize hsn : compactStore (snapStore c) k = snap' at hs
    have hres := values_result c.store (snapStore c) k
    rw [← inv.hot, ← inv.snap] at hres
    -- the new cache, whichever branch `Cache.values` takes
    have key : ∃ c' : Cache, step c (.values k) = (c', .vals (canon (st.snap.get k ++ st.hot.get k))) ∧
        c'.store = store' ∧ snapStore c' = snap' ∧ c'.size = c.size ∧ c'.snapshotSize = c.snapshotSize ∧
        c'.maxSize = c.maxSize ∧ c'.snapshotting = c.snapshotting ∧ c'.snapshot.isSome = c.snapshot.isSome ∧
        snapSz c' = snapSz c := by
      cases hl : c.store.lookup k with
      | none =>
        cases hsl : c.snapshot with
        | none =>
          refine ⟨c, ?_, ?_, ?_, rfl, rfl, rfl, rfl, by simp [hsl], by simp [snapSz, hsl]⟩
          · simp only [step, Cache.values, Store.entry, hl, hsl]
            have : st.snap.get k = [] := by rw [inv.snap]; simp [snapStore, hsl, Held.get]
            have h2 : st.hot.get k = [] := by rw [inv.hot, toHeld_get, hl]; rfl
            rw [this, h2]; rfl
          · rw [← hst, compactStore_none hl]
          · rw [← hsn]; simp [snapStore, hsl, compactStore]
        | some sn =>
          cases hsk : sn.store.lookup k with
          | none =>
            refine ⟨c, ?_, ?_, ?_, rfl, rfl, rfl, rfl, by simp [hsl], by simp [snapSz, hsl]⟩
            · simp only [step, Cache.values, Store.entry, hl, hsl, hsk]
              have : st.snap.get k = [] := by rw [inv.snap, toHeld_get]; simp [snapStore, hsl, hsk]
              have h2 : st.hot.get k = [] := by rw [inv.hot, toHeld_get, hl]; rfl
              rw [this, h2]; rfl
            · rw [← hst, compactStore_none hl]
            · rw [← hsn]; simp [snapStore, hsl, hsk, compactStore]
          | some se =>
            refine ⟨{ c with store := c.store, snapshot := some { sn with store := sn.store.set k se.deduplicate } },
              ?_, ?_, ?_, by simp, by simp, by simp, by simp, by simp [hsl], by simp [snapSz, hsl]⟩
            · simp only [step, Cache.values, Store.entry, hl, hsl, hsk, Option.map_none, Option.map_some]
              rw [← hres]
              simp [snapStore, hsl, hsk, hl]
            · rw [← hst, compactStore_none hl]
            · rw [← hsn]; simp [snapStore, hsl, hsk, compactStore]
      | some e =>
        cases hsl : c.snapshot with
        | none =>
          refine ⟨{ c with store := c.store.set k e.deduplicate, snapshot := none }, ?_, ?_, ?_,
            by simp, by simp, by simp, by simp, by simp [hsl], by simp [snapSz, hsl]⟩
          · simp only [step, Cache.values, Store.entry, hl, hsl, Option.map_none, Option.map_some]
            rw [← hres]
            simp [snapStore, hsl, hl]
          · rw [← hst, compactStore_some hl]
          · rw [← hsn]; simp [snapStore, hsl, compactStore]
        | some sn =>
          cases hsk : sn.store.lookup k with
          | none =>
            refine ⟨{ c with store := c.store.set k e.deduplicate, snapshot := some sn }, ?_, ?_, ?_,
              by simp, by simp, by simp, by simp, by simp [hsl], by simp [snapSz, hsl]⟩
            · simp only [step, Cache.values, Store.entry, hl, hsl, hsk, Option.map_none, Option.map_some]
              rw [← hres]
              simp [snapStore, hsl, hsk, hl]
            · rw [← hst, compactStore_some hl]
            · rw [← hsn]; simp [snapStore, hsl, hsk, compactStore]
          | some se =>
            refine ⟨{ c with store := c.store.set k e.deduplicate,
                             snapshot := some { sn with store := sn.store.set k se.deduplicate } },
              ?_, ?_, ?_, by simp, by simp, by simp, by simp, by simp [hsl], by simp [snapSz, hsl]⟩
            · simp only [step, Cache.values, Store.entry, hl, hsl, hsk, Option.map_some]
              rw [← hres]
              simp [snapStore, hsl, hsk, hl]
            · rw [← hst, compactStore_some hl]
            · rw [← hsn]; simp [snapStore, hsl, hsk, compactStore]
    obtain ⟨c', hstep, hc1, hc2, hc3, hc4, hc5, hc6, hc7, hc8⟩ := key
    refine StepOK.of c' _
      { st with hot := st.hot.compact k, snap := st.snap.compact k,
                compacted := st.compacted || (decide (((st.hot.compact k).get k).length < (st.hot.get k).length) ||
                  decide (((st.snap.compact k).get k).length < (st.snap.get k).length)) } [] hstep
      (by simp [stepSt]) ?_ (FailsOK.nil st)
    refine ⟨by simp only; rw [hc1]; exact hh.1.symm, by rw [hc1]; exact hh.2.1,
      by simp only; rw [hc2]; exact hs.1.symm, by rw [hc2]; exact hs.2.1,
      by rw [hc7]; exact inv.snapExists, by rw [hc8]; exact inv.snapSize, by rw [hc4, hc8]; exact inv.ssize,
      by rw [hc6]; exact inv.snapshotting, by rw [hc5]; exact inv.maxSize, ?_, ?_, by rw [hc3, hc4]; simp only [opBytes]; omega⟩
    · refine ⟨rh + (acct st.hot - acct (st.hot.compact k)), ?_, ?_⟩
      · have := hh.2.2.1
        rw [hh.1] at this
        simp only; rw [hc3]; omega
      · simp only [Bool.or_eq_false_iff, decide_eq_false_iff_not]
        rintro ⟨h1, h2, _⟩
        have := hh.2.2.2 h2
        rw [hh.1] at this
        rw [hrh0 h1, this]; omega
    · refine ⟨rs + (acct st.snap - acct (st.snap.compact k)), ?_, ?_⟩
      · have := hs.2.2.1
        rw [hs.1] at this
        simp only; rw [hc4]; omega
      · simp only [Bool.or_eq_false_iff, decide_eq_false_iff_not]
        rintro ⟨h1, _, h3⟩
        have := hs.2.2.2 h3
        rw [hs.1] at this
        rw [hrs0 h1, this]; omega
  | write batch =>
    simp only [opBytes] at hB
    have hadd : batch.foldl (fun a kv => add64 a (valuesSize kv.2)) 0 = batchSize batch := by
      have := added_eq batch 0 (by omega); simpa using this
    have hn : add64 c.Size (batchSize batch) = c.size + c.snapshotSize + batchSize batch := by
      rw [hSize]; exact add64_eq (by omega)
    by_cases hlim : (decide (c.maxSize > 0) && decide (add64 c.Size (batchSize batch) > c.maxSize)) = true
    · -- rejected: nothing is stored
      refine StepOK.of c (.errLimit (add64 c.Size (batchSize batch))) st
        (sizeFail st i (add64 c.Size (batchSize batch)) (acct st.hot + acct st.snap + batchSize batch)) ?_ ?_ ?_ ?_
      · simp only [step, Cache.writeMulti, hadd]
        rw [if_pos hlim]
      · simp only [stepSt, inv.maxSize]
        rw [if_pos hlim]
      · exact { inv with bound := by omega }
      · exact sizeFail_ok st i _ _ (rh + rs) (by rw [hn]; omega) (fun h => by rw [hrh0 h, hrs0 h])
    · have hw := writeLoop_spec batch c.store (add64 c.size (batchSize batch)) false rh inv.hotOK hv
        (by rw [add64_eq (by omega), ← inv.hot]; omega) (by rw [add64_eq (by omega)]; omega)
      rw [← inv.hot] at hw
      have hmr : (decide (st.maxSize > 0) && decide (acct st.hot + acct st.snap + batchSize batch > st.maxSize)) = false := by
        rw [inv.maxSize]
        simp only [Bool.and_eq_true, decide_eq_true_eq, not_and, Nat.not_lt] at hlim
        simp only [Bool.and_eq_false_iff, decide_eq_false_iff_not, Nat.not_lt]
        by_cases h0 : c.maxSize > 0
        · right; have := hlim h0; rw [hn] at this; omega
        · left; omega
      generalize hwl : writeLoop batch c.store (add64 c.size (batchSize batch)) false = res at hw
      obtain ⟨st', size', werr'⟩ := res
      simp only at hw
      have hinv : Inv { c with store := st', size := size' } { st with hot := storeBatch batch st.hot }
          (B + (batchSize batch + keyBytes batch)) := by
        refine ⟨hw.1.symm, hw.2.1, inv.snap, inv.snapOK, inv.snapExists, inv.snapSize, inv.ssize, inv.snapshotting,
          inv.maxSize, ⟨rh, hw.2.2.1, hrh0⟩, ⟨rs, hrs, hrs0⟩, ?_⟩
        have := hw.2.2.2.2
        rw [add64_eq (by omega)] at this
        simp only; omega
      have hwe : werr' = anyConflict batch st.hot := by simpa using hw.2.2.2.1
      cases hac : anyConflict batch st.hot with
      | false =>
        refine StepOK.of { c with store := st', size := size' } .ok { st with hot := storeBatch batch st.hot } [] ?_ ?_
          hinv (FailsOK.nil st)
        · simp only [step, Cache.writeMulti, hadd]
          rw [if_neg hlim, hwl]
          simp [hwe, hac]
        · simp only [stepSt, hmr, hac]; simp
      | true =>
        refine StepOK.of { c with store := st', size := size' } .errConflict { st with hot := storeBatch batch st.hot } []
          ?_ ?_ hinv (FailsOK.nil st)
        · simp only [step, Cache.writeMulti, hadd]
          rw [if_neg hlim, hwl]
          simp [hwe, hac]
        · simp only [stepSt, hmr, hac]; simp

end Influx.Cache
